"""C20 — Grid equality distinguishes any difference in coordinates or connectivity.

Lean side (Props/C20.lean): for ALL pairs of grids the repaired `__eq__` is sound (`eq_sound`: equal ⇒ same
format, identical node_lon / node_lat / face_node_connectivity), hence `single_change_detected`, reflexive,
symmetric, `!=` its negation, a copy equal, a non-Grid unequal; and complete (`eq_complete`: same ⇒ equal — the
model compares the VARIABLES, fixes/C20-eq-compares-variables.patch; the DataArray.equals version `gridEqCoords`
is kept with its proved counterexample).  Tie (differential, labelled as such): every generated pair is
built through the public constructors, `a == b`, `a != b`, `b == a`, `b != a` are observed on the real code, and
the Lean driver evaluates the decidable `Spec` on (observed arrays, observed outputs) and runs the model on
the same arrays.  The bit-level model of IEEE `==` / NaN-aware equality is compared with NumPy and with
`DataArray.equals` on special values.
"""

from __future__ import annotations

import copy as pycopy
import itertools
import json
import struct
from pathlib import Path

import numpy as np

from . import common, meshes
from .common import INT_FILL, dec_float, enc_ints

NAN = 0x7FF8000000000000
NAN2 = 0xFFF8000000000123  # another NaN (sign + payload)
NEGZERO = 0x8000000000000000


def bits(x):
    return struct.unpack("<Q", struct.pack("<d", float(x)))[0]


def fl(b):
    return dec_float(b)


def meshfiles():
    p = common.REPO / "test" / "meshfiles"
    return p if p.is_dir() else Path("/repo/test/meshfiles")


FILES = [
    "ugrid/quad-hexagon/grid.nc",
    "scrip/outCSne8/outCSne8.nc",
    "exodus/outCSne8/outCSne8.g",
    "exodus/mixed/mixed.exo",
    "mpas/QU/mesh.QU.1920km.151026.nc",
]
# every reader (format) is in the quick list: copies / equality of a grid can depend on what its reader left behind
FILES += ["geos-cs/c12/test-c12.native.nc4", "esmf/ne30/ne30pg3.grid.nc"]
FILES_THOROUGH = ["ugrid/outCSne30/outCSne30.ug", "ugrid/geoflow-small/grid.nc"]

# --------------------------------------------------------------------------------------
# building grids from a JSON-able description (public constructors only)
# --------------------------------------------------------------------------------------


def desc(via, lon, lat, conn, **kw):
    d = dict(via=via, lon=[int(b) for b in lon], lat=[int(b) for b in lat], conn=[[int(x) for x in r] for r in conn])
    d.update(kw)
    return d


class OpFailed(Exception):
    pass


def apply_ops(ux, g, ops):
    """put a grid into another *backing state* through public calls only:
    ["chunk", {n_node/n_edge/n_face: int | "auto" | -1}]  Grid.chunk (in place, dask arrays)
    ["copy"]                                              Grid.copy()
    ["isel", [faces]] / ["isel_all"]                      Grid.isel(n_face=…)
    ["touch", [attributes]]                               materialise derived tables
    A call that raises is not this property's business: the pair is dropped and counted."""
    for op in ops or ():
        try:
            if op[0] == "chunk":
                g.chunk(**op[1])
            elif op[0] == "copy":
                g = g.copy()
            elif op[0] == "isel":
                g = g.isel(n_face=list(op[1]))
            elif op[0] == "isel_all":
                g = g.isel(n_face=list(range(int(g.n_face))))
            elif op[0] == "touch":
                for n in op[1]:
                    getattr(g, n)
            else:
                raise ValueError("unknown op " + str(op[0]))
        except Exception as e:  # noqa: BLE001
            raise OpFailed(f"{op[0]}:{type(e).__name__}") from e
    return g


def build(ux, d):
    return apply_ops(ux, build0(ux, d), d.get("ops"))


def build0(ux, d):
    import xarray as xr

    via = d["via"]
    if via == "file":
        if d.get("open_chunks"):
            return ux.open_grid(meshfiles() / d["path"], chunks={})
        return ux.open_grid(meshfiles() / d["path"])
    if via == "face_vertices":
        # faces given by their vertices' (lon, lat) in degrees; latlon=False hands the SAME kind of description over as
        # Cartesian unit vectors; form = the public entry point
        faces = [[(fl(p[0]), fl(p[1])) for p in f] for f in d["verts"]]
        if d.get("latlon", True):
            arr = np.array(faces, dtype=np.float64)
        else:
            lo, la = np.radians(np.array(faces)[..., 0]), np.radians(np.array(faces)[..., 1])
            arr = np.stack([np.cos(la) * np.cos(lo), np.cos(la) * np.sin(lo), np.sin(la)], axis=-1)
        form = d.get("form", "from_face_vertices")
        if form == "open_grid_list":
            return ux.open_grid(arr.tolist(), latlon=bool(d.get("latlon", True)))
        if form == "open_grid_ndarray":
            return ux.open_grid(arr, latlon=bool(d.get("latlon", True)))
        return ux.Grid.from_face_vertices(arr, latlon=bool(d.get("latlon", True)))
    dt = np.dtype(d.get("dtype", "float64"))
    lon = np.array([fl(b) for b in d["lon"]], dtype=np.float64).astype(dt)
    lat = np.array([fl(b) for b in d["lat"]], dtype=np.float64).astype(dt)
    rows = d["conn"]
    w = len(rows[0]) if rows else 0
    conn = np.array(rows, dtype=np.int64).reshape(len(rows), w)
    if via == "topology":
        return ux.Grid.from_topology(node_lon=lon, node_lat=lat, face_node_connectivity=conn, fill_value=INT_FILL)
    if via == "dataset":
        ds = xr.Dataset(
            {
                "node_lon": (("n_node",), lon),
                "node_lat": (("n_node",), lat),
                "face_node_connectivity": (("n_face", "n_max_face_nodes"), conn),
            }
        )
        ds = coord_structure(ds, d, dict(lon="node_lon", lat="node_lat", flon="face_lon", flat="face_lat", node="n_node",
                                         face="n_face", width="n_max_face_nodes"))
        return ux.Grid.from_dataset(ds, source_grid_spec=d["spec"])
    if via == "ugrid":
        ds = xr.Dataset()
        ds["Mesh2"] = xr.DataArray(
            0,
            attrs=dict(cf_role="mesh_topology", topology_dimension=2, node_coordinates="Mesh2_node_x Mesh2_node_y",
                       face_node_connectivity="Mesh2_face_nodes"),
        )
        ds["Mesh2_node_x"] = xr.DataArray(lon, dims=["nMesh2_node"], attrs=dict(standard_name="longitude"))
        ds["Mesh2_node_y"] = xr.DataArray(lat, dims=["nMesh2_node"], attrs=dict(standard_name="latitude"))
        ds["Mesh2_face_nodes"] = xr.DataArray(
            conn, dims=["nMesh2_face", "nMaxMesh2_face_nodes"],
            attrs=dict(cf_role="face_node_connectivity", start_index=0, _FillValue=INT_FILL),
        )
        if cflags(d) & {"face", "face_vars"}:
            ds["Mesh2"].attrs["face_coordinates"] = "Mesh2_face_x Mesh2_face_y"
        ds = coord_structure(ds, d, dict(lon="Mesh2_node_x", lat="Mesh2_node_y", flon="Mesh2_face_x", flat="Mesh2_face_y",
                                         node="nMesh2_node", face="nMesh2_face", width="nMaxMesh2_face_nodes"))
        return ux.Grid.from_dataset(ds)
    raise ValueError("unknown builder " + str(via))


CFLAGS = ["node", "face", "face_vars", "face_index", "face_index_shifted", "width_index", "node_index", "node_extra", "scalar",
          "scalar_other"]


def cflags(d):
    """which variables of the SOURCE dataset are xarray coordinates (`coords=True` is the old spelling of ["node"])"""
    f = set(d.get("cstruct") or ())
    if d.get("coords"):
        f.add("node")
    return f


def coord_structure(ds, d, n):
    """turn variables of the source dataset into xarray coordinates / add index and scalar coordinates, on every
    dimension a compared variable has.  The values of node_lon / node_lat / face_node_connectivity are untouched."""
    f = cflags(d)
    nf = ds.sizes[n["face"]]
    if f & {"face", "face_vars"}:
        ds[n["flon"]] = ((n["face"],), np.array([1.5 * i - 20.0 for i in range(nf)]))
        ds[n["flat"]] = ((n["face"],), np.array([0.5 * i + 3.0 for i in range(nf)]))
    if "node" in f:
        ds = ds.set_coords([n["lon"], n["lat"]])
    if "face" in f:
        ds = ds.set_coords([n["flon"], n["flat"]])
    if "face_index" in f or "face_index_shifted" in f:
        ds = ds.assign_coords({n["face"]: np.arange(nf) + (100 if "face_index_shifted" in f else 0)})
    if "width_index" in f:
        ds = ds.assign_coords({n["width"]: np.arange(ds.sizes[n["width"]])})
    if "node_index" in f:
        ds = ds.assign_coords({n["node"]: np.arange(ds.sizes[n["node"]])})
    if "node_extra" in f:
        ds = ds.assign_coords(node_id=((n["node"],), np.arange(ds.sizes[n["node"]]) * 2))
    if "scalar" in f or "scalar_other" in f:
        ds = ds.assign_coords(time=(7.0 if "scalar_other" in f else 0.0))
    return ds


def coords_of(da):
    """the xarray coordinates attached to one compared variable: sorted (name, values as double bit patterns)"""
    out = []
    for k in sorted(map(str, da.coords)):
        v = np.asarray(da.coords[k].values).ravel()
        try:
            vals = [bits(x) for x in v.astype(np.float64)]
        except Exception:  # noqa: BLE001  (strings, dates …): a stable numeric stand-in
            import hashlib

            vals = [int(hashlib.sha1(repr(x).encode()).hexdigest()[:12], 16) for x in v.tolist()]
        out.append((k, vals))
    return out


def observe(g):
    """what `__eq__` reads, through the public attributes"""
    lo, la, co = g.node_lon, g.node_lat, g.face_node_connectivity
    lon = np.asarray(lo.values).astype(np.float64).ravel()
    lat = np.asarray(la.values).astype(np.float64).ravel()
    conn = np.asarray(co.values)
    shape = list(conn.shape) if conn.ndim == 2 else [conn.shape[0] if conn.ndim else 0, 1]
    cs = (sorted(map(str, lo.coords)), sorted(map(str, la.coords)), sorted(map(str, co.coords)))
    both = ["node_lat", "node_lon"]
    if cs == ([], [], []):
        cv = 0
    elif cs[0] == both and cs[1] == both and cs[2] == []:
        cv = 1
    else:
        cv = None
    dims_ok = tuple(lo.dims) == ("n_node",) and tuple(la.dims) == ("n_node",) and tuple(co.dims) == ("n_face", "n_max_face_nodes")
    backing = [backing_of(x) for x in (lo, la, co)]
    return dict(
        backing=backing,
        spec=g.source_grid_spec,
        lon=[bits(x) for x in lon],
        lat=[bits(x) for x in lat],
        shape=shape,
        conn=[int(x) for x in conn.ravel()],
        coordVars=cv,
        coords=cs,
        cvals=[coords_of(lo), coords_of(la), coords_of(co)],
        dims_ok=bool(dims_ok),
        int_conn=conn.dtype.kind in "iu",
    )


def backing_of(da):
    """numpy, or dask with its graph name and chunk sizes along axis 0 (public DataArray.data / .chunks)"""
    data = da.data
    if hasattr(data, "dask") and hasattr(data, "name"):
        ch = da.chunks[0] if da.chunks else ()
        return dict(kind="dask", name=str(data.name), chunks=[int(c) for c in ch])
    return dict(kind="numpy")


def enc_backing(b):
    if b["kind"] == "numpy":
        return "0"
    import hashlib

    h = int(hashlib.sha1(b["name"].encode()).hexdigest()[:15], 16)
    return "1 " + str(h) + " " + enc_ints(b["chunks"])


def enc_bgrid(o):
    return enc_grid(o) + " " + " ".join(enc_backing(b) for b in o["backing"])


def enc_grid(o):
    spec = [ord(c) for c in repr(o["spec"])]
    return " ".join([enc_ints(spec), enc_ints(o["lon"]), enc_ints(o["lat"]), str(o["shape"][0]), str(o["shape"][1]),
                     enc_ints(o["conn"])] + [enc_coords(c) for c in o["cvals"]])


def enc_coords(cl):
    return " ".join([str(len(cl))] + [enc_ints([ord(ch) for ch in k]) + " " + enc_ints(v) for k, v in cl])


def small(o):
    """observation abridged for replays / samples"""
    k = 12
    return dict(spec=o["spec"], n_node=len(o["lon"]), shape=o["shape"], lon=[fl(b) for b in o["lon"][:k]],
                lat=[fl(b) for b in o["lat"][:k]], conn=o["conn"][: 2 * k], coords=o["coords"],
                backing=o.get("backing"))


def cmp(op, x, y):
    try:
        r = (x == y) if op == "eq" else (x != y)
    except Exception as e:  # noqa: BLE001
        return None, f"{type(e).__name__}: {e}"
    if not isinstance(r, (bool, np.bool_)):
        return None, f"non-bool result {type(r).__name__}"
    return bool(r), None


def b01(x):
    return "1" if x else "0"


TOUCHES = ["edge_node_connectivity", "node_x", "face_lon", "n_edge"]


def touch(ctx, g, names):
    for n in names:
        try:
            getattr(g, n)
        except Exception:  # not this property's business
            ctx.hit("touch-raised:" + n)


# --------------------------------------------------------------------------------------
# judging
# --------------------------------------------------------------------------------------


def has_nan(o):
    return any(((b >> 52) & 0x7FF) == 0x7FF and (b & ((1 << 52) - 1)) for b in o["lon"] + o["lat"])


def compare4(a, b, fresh=None):
    """`a == b`, `a != b`, `b == a`, `b != a`; with `fresh` (a pair of zero-argument builders) every comparison is made on
    newly built grids, so that nothing — not even an earlier comparison — was read before"""
    outs, errs = [], []
    for op, swap in (("eq", False), ("ne", False), ("eq", True), ("ne", True)):
        x, y = (fresh[0](), fresh[1]()) if fresh else (a, b)
        if swap:
            x, y = y, x
        r, e = cmp(op, x, y)
        outs.append(r)
        if e:
            errs.append(f"{op}: {e}")
    return outs, errs


def judge_objs(ctx, kind, a, oa, da, b, ob, db, extra=None, pre=None):
    """`a == b`, `a != b`, `b == a`, `b != a` on the real code, verdict by the Lean Spec"""
    d = ctx.driver
    inp = dict(mode="pair", kind=kind, a=da, b=db)
    if extra:
        inp.update(extra)
    outs, errs = pre if pre is not None else compare4(a, b)
    ok_struct = oa["dims_ok"] and ob["dims_ok"] and oa["int_conn"] and ob["int_conn"]
    if errs:
        ctx.case((kind, da, db), sample=None)
        exc = errs[0].split(":")[1].strip() if ":" in errs[0] else errs[0]
        ctx.fail(f"C20/raises/{kind}/{exc}", f"comparison does not return a bool ({errs[0]}) — it must be False/True, never raise",
                 inp, dict(outputs=outs, errors=errs), None, ["total"])
        return None
    e1, n1, e2, n2 = outs
    ans = d.ask("C20.bpair", enc_bgrid(oa), enc_bgrid(ob), b01(e1), b01(n1), b01(e2), b01(n2))
    ds, v1, v2, v3, m, bm, bk = ans.split(";")
    diff, cs = ds.split()
    meq, mne, masis = [x == "1" for x in m.split()]
    beq_ab, beq_ba, faith_ab, faith_ba, mcoords, mconnda = [x == "1" for x in bm.split()]
    faithful = faith_ab and faith_ba
    ctx.hit("backing:" + bk)
    if not faithful:
        ctx.hit("dask-names-not-faithful")
    single = diff in ("lon", "lat", "conn", "n_face", "width", "spec", "none", "n_node")
    ctx.case((kind, oa["spec"], ob["spec"], oa["lon"][:64], oa["lat"][:64], ob["lon"][:64], ob["lat"][:64], oa["conn"][:128],
              ob["conn"][:128], oa["shape"], ob["shape"], oa["coordVars"], ob["coordVars"]),
             nontrivial=single and a is not b,
             sample=dict(kind=kind, differs=diff, a=small(oa), b=small(ob), eq=e1, ne=n1) if len(oa["lon"]) <= 6 and diff != "none" else None)
    ctx.hit("kind:" + kind)
    ctx.hit("differs=" + diff)
    ctx.hit("eq=True" if e1 else "eq=False")
    if cs == "coords-differ":
        ctx.hit("coords-structure-differs")
    for o in (oa, ob):
        for var, names in zip(("lon", "lat", "conn"), o["coords"]):
            for nm in names:
                ctx.hit(f"coord-on-{var}:{nm}")
    if masis != mcoords:
        ctx.hit("pair-on-which-`or`-and-`and`-differ")
    if mcoords != meq:
        ctx.hit("pair-on-which-DataArray.equals-and-Variable.equals-differ")
    if mconnda != meq:
        ctx.hit("pair-on-which-connectivity-as-DataArray-differs")
    if has_nan(oa) or has_nan(ob):
        ctx.hit("with-NaN")
    impl = dict(eq_ab=e1, ne_ab=n1, eq_ba=e2, ne_ba=n2, a=small(oa), b=small(ob))
    model = dict(eq=meq, ne=mne, asis_eq=masis, dataarray_equals_version_eq=mcoords, connectivity_as_dataarray_eq=mconnda,
                 differs=diff, backing=bk, eq_with_lazy_shortcut=[beq_ab, beq_ba],
                 dask_names_faithful=faithful)
    bsuf = "" if bk == "numpy+numpy" or cs == "coords-differ" else "/backing=" + bk
    failed = False
    for v, (e, n), tag in ((v1, (e1, n1), "a==b"), (v2, (e2, n2), "b==a")):
        if v == "ok":
            continue
        failed = True
        clauses = v.split(" ", 1)[1].split(",")
        for c in clauses:
            if c == "ne_is_negation":
                ctx.fail(f"C20/ne-not-negation/eq={e}/ne={n}", f"`!=` is not the negation of `==` ({tag}: == gives {e}, != gives {n})",
                         inp, impl, model, [c])
            else:
                sig = f"C20/eq={e}/differs={diff}" + ("/coords-structure" if cs == "coords-differ" else "") + bsuf
                cl = [c] + ([] if faithful else ["dask_names_faithful"])
                what = (f"grids differing in [{diff}] compare equal" + ("" if faithful else
                        " — their dask-backed variables carry the same graph name although the values differ, so xarray's lazy "
                        "shortcut answers without comparing values") if e else
                        f"grids of the same format with identical node_lon, node_lat and face_node_connectivity compare unequal"
                        + (" (node coordinates stored as data variables in one, as xarray coordinates in the other)" if cs == "coords-differ" else ""))
                ctx.fail(sig, what + f" ({tag}, kind={kind})", inp, impl, model, cl)
    if v3 != "ok":
        failed = True
        ctx.fail(f"C20/asymmetric/differs={diff}", f"a == b is {e1} but b == a is {e2}", inp, impl, model, ["eq_symm"])
    if not failed and ok_struct and (e1, n1) != (meq, mne):
        ctx.mismatch("C20/model-vs-impl", inp, impl, model)
    if not failed and not faithful:
        # the invariant behind `backing_irrelevant` is broken although this pair's outputs are still right
        ctx.mismatch("C20/dask-names-faithful", inp, impl, model)
    if ok_struct and (e1, e2) != (beq_ab, beq_ba):
        ctx.hit("lazy-shortcut-model-differs-from-impl")
    if not ok_struct:
        ctx.hit("non-canonical-dims-or-dtype")
    return e1


def judge_refl(ctx, a, oa, da, kind):
    e, err1 = cmp("eq", a, a)
    n, err2 = cmp("ne", a, a)
    inp = dict(mode="refl", kind=kind, a=da)
    ctx.case(("refl", kind, oa["lon"][:64], oa["lat"][:64], oa["conn"][:128], oa["spec"]), nontrivial=has_nan(oa))
    ctx.hit("refl")
    if err1 or err2:
        ctx.fail(f"C20/raises/refl/{(err1 or err2).split(':')[0]}", "g == g does not return a bool: " + str(err1 or err2), inp, None, None, ["total"])
        return
    v = ctx.driver.ask("C20.refl", b01(e), b01(n))
    if v != "ok":
        ctx.fail("C20/not-reflexive" + ("/nan" if has_nan(oa) else ""), f"g == g gives {e}, g != g gives {n}", inp,
                 dict(eq=e, ne=n, a=small(oa)), dict(eq=True, ne=False), ["eq_refl"])


def judge_copy(ctx, ux, a, oa, da, kind):
    for how in ("Grid.copy", "copy.copy", "copy.deepcopy"):
        try:
            c = a.copy() if how == "Grid.copy" else (pycopy.copy(a) if how == "copy.copy" else pycopy.deepcopy(a))
        except Exception as e:  # noqa: BLE001
            if how == "Grid.copy":
                ctx.fail("C20/copy-raises", f"Grid.copy() raises {type(e).__name__}: {e}", dict(mode="copy", kind=kind, a=da, how=how))
            else:
                ctx.hit("copy-module-raised:" + how)
            continue
        outs = [cmp("eq", a, c), cmp("ne", a, c), cmp("eq", c, a), cmp("ne", c, a)]
        inp = dict(mode="copy", kind=kind, a=da, how=how)
        ctx.case(("copy", how, kind, oa["lon"][:64], oa["lat"][:64], oa["conn"][:128], oa["spec"]), nontrivial=True)
        ctx.hit("copy:" + how)
        if any(e for _, e in outs):
            ctx.fail(f"C20/raises/copy/{how}", "comparison with a copy does not return a bool: " + str([e for _, e in outs if e][0]), inp)
            continue
        vals = [r for r, _ in outs]
        v = ctx.driver.ask("C20.copy", *[b01(x) for x in vals])
        if v != "ok":
            oc = observe(c)
            ctx.fail(f"C20/copy-unequal/{how}", f"a copy made with {how} does not compare equal to its original (==,!=,==,!= → {vals})",
                     inp, dict(outputs=vals, original=small(oa), copy=small(oc)), dict(outputs=[True, False, True, False]), ["copy_eq"])


class _AlwaysEqual:
    def __eq__(self, other):
        return True

    def __ne__(self, other):
        return False


def others(a):
    import xarray as xr

    return [
        ("None", None, True), ("int", 1, True), ("float", 1.5, True), ("str", "grid", True), ("tuple", (1, 2), True),
        ("list", [1], True), ("dict", {}, True), ("object", object(), True), ("type", type(a), True),
        ("np.float64", np.float64(1.0), False), ("np.ndarray", np.array([1, 2]), False), ("np.0d", np.array(1), False),
        ("xr.Dataset", xr.Dataset(), False), ("DataArray(node_lon)", a.node_lon, False),
        ("DataArray(face_node_connectivity)", a.face_node_connectivity, False),
        ("always-equal-object", _AlwaysEqual(), False),
    ]


def judge_nongrid(ctx, a, da, only=None):
    d = ctx.driver
    for tag, (name, o, reflect) in enumerate(others(a)):
        if only is not None and name != only:
            continue
        inp = dict(mode="nongrid", a=da, other=name)
        pairs = [("g==x", cmp("eq", a, o), cmp("ne", a, o))]
        if reflect:
            pairs.append(("x==g", cmp("eq", o, a), cmp("ne", o, a)))
        for side, (e, err1), (n, err2) in pairs:
            ctx.case(("nongrid", name, side), nontrivial=True)
            ctx.hit("nongrid:" + name)
            if err1 or err2:
                ctx.fail(f"C20/raises/non-grid/{name}", f"{side} with a {name}: {err1 or err2}", inp, None, None, ["total"])
                continue
            v = d.ask("C20.nongrid", b01(e), b01(n))
            m = d.ask("C20.nongrid_model", tag)
            if v != "ok":
                ctx.fail(f"C20/non-grid/{name}/eq={e}/ne={n}", f"{side} with a {name} gives == {e}, != {n} (must be False / True)",
                         inp, dict(eq=e, ne=n, side=side), dict(model=m), ["non_grid_false"])


# --------------------------------------------------------------------------------------
# generators
# --------------------------------------------------------------------------------------


def change_val(rng, b, how=None):
    """a double that is a different array entry than `b` (NaN-aware), as bits"""
    x = fl(b)
    how = how or rng.choice(["ulp+", "ulp-", "small", "random", "nan", "half"])
    if how == "nan":
        return NAN if not (x != x) else bits(1.0)
    if x != x:
        return bits(rng.uniform(-80, 80))
    if how == "ulp+":
        y = float(np.nextafter(x, 1e9))
    elif how == "ulp-":
        y = float(np.nextafter(x, -1e9))
    elif how == "small":
        y = x + rng.choice([1e-9, -1e-9, 1e-13])
    elif how == "half":
        y = x * 0.5 if x != 0 else 0.25
    else:
        y = rng.uniform(-80, 80)
    if y == x:
        y = x + 1.0
    return bits(y)


def variants(rng, A, thorough=False):
    """(kind, A', B') with B' obtained from A' by one named change (or none)"""
    nn, nf = len(A["lon"]), len(A["conn"])
    w = len(A["conn"][0])

    def cp(d, **kw):
        e = json.loads(json.dumps(d))
        e.update(kw)
        return e

    out = [("identical", A, cp(A))]
    for rep in range(2 if thorough else 1):
        i = rng.randrange(nn)
        lon = list(A["lon"]); lon[i] = change_val(rng, lon[i])
        out.append(("one-lon", A, cp(A, lon=lon)))
        i = rng.randrange(nn)
        lat = list(A["lat"]); lat[i] = change_val(rng, lat[i])
        out.append(("one-lat", A, cp(A, lat=lat)))
        # one connectivity entry: another node, the fill value, or a node where padding was
        conn = [list(r) for r in A["conn"]]
        f, j = rng.randrange(nf), rng.randrange(w)
        old = conn[f][j]
        choice = rng.choice(["node", "fill"]) if old != INT_FILL else "node"
        conn[f][j] = INT_FILL if choice == "fill" else rng.choice([v for v in range(nn) if v != old])
        out.append(("one-conn-" + ("to-fill" if choice == "fill" else ("from-fill" if old == INT_FILL else "node")), A, cp(A, conn=conn)))
    # both one lon and one lat
    i, k = rng.randrange(nn), rng.randrange(nn)
    lon = list(A["lon"]); lon[i] = change_val(rng, lon[i])
    lat = list(A["lat"]); lat[k] = change_val(rng, lat[k])
    out.append(("lon-and-lat", A, cp(A, lon=lon, lat=lat)))
    # sizes
    out.append(("n_node+1", A, cp(A, lon=A["lon"] + [bits(rng.uniform(-80, 80))], lat=A["lat"] + [bits(rng.uniform(-80, 80))])))
    out.append(("n_face+1", A, cp(A, conn=A["conn"] + [list(rng.choice(A["conn"]))])))
    if nf > 1:
        out.append(("n_face-1", A, cp(A, conn=A["conn"][:-1])))
    out.append(("width+1", A, cp(A, conn=[r + [INT_FILL] for r in A["conn"]])))
    # same multiset of values, other arrangement
    if nn >= 2:
        i, k = rng.sample(range(nn), 2)
        if A["lon"][i] != A["lon"][k]:
            lon = list(A["lon"]); lon[i], lon[k] = lon[k], lon[i]
            out.append(("two-lon-swapped", A, cp(A, lon=lon)))
    f = rng.randrange(nf)
    real = [v for v in A["conn"][f] if v != INT_FILL]
    if len(set(real)) > 1:
        rot = real[1:] + real[:1]
        conn = [list(r) for r in A["conn"]]; conn[f] = rot + [INT_FILL] * (w - len(rot))
        out.append(("face-rotated", A, cp(A, conn=conn)))
    # lon and lat exchanged (same pair of arrays, other roles)
    if A["lon"] != A["lat"]:
        out.append(("lon-lat-exchanged", A, cp(A, lon=A["lat"], lat=A["lon"])))
    # format
    other_fmt = [dict(via="topology"), dict(via="dataset", spec="UGRID"), dict(via="dataset", spec="MPAS"), dict(via="ugrid")]
    o = rng.choice([x for x in other_fmt if (x["via"], x.get("spec")) != (A["via"], A.get("spec"))])
    B = cp(A); B.pop("spec", None); B.update(o)
    out.append(("other-format" if not same_format(A, B) else "same-format-other-constructor", A, B))
    # NaN in the same place / in another place / -0.0 vs +0.0
    i = rng.randrange(nn)
    lonN = list(A["lon"]); lonN[i] = NAN
    lonM = list(A["lon"]); lonM[i] = NAN2
    out.append(("nan-same-place", cp(A, lon=lonN), cp(A, lon=lonM)))
    k = (i + 1) % nn
    if k != i:
        lonK = list(A["lon"]); lonK[k] = NAN
        out.append(("nan-other-place", cp(A, lon=lonN), cp(A, lon=lonK)))
    latN = list(A["lat"]); latN[i] = NAN
    out.append(("nan-vs-number-lat", cp(A, lat=latN), A))
    lonZ = list(A["lon"]); lonZ[i] = 0
    lonY = list(A["lon"]); lonY[i] = NEGZERO
    out.append(("zero-signs", cp(A, lon=lonZ), cp(A, lon=lonY)))
    # float32 storage of float32-representable coordinates
    l32 = [bits(np.float32(fl(b))) for b in A["lon"]]
    t32 = [bits(np.float32(fl(b))) for b in A["lat"]]
    out.append(("float32-vs-float64", cp(A, lon=l32, lat=t32), cp(A, lon=l32, lat=t32, dtype="float32")))
    # longitudes beyond 180 (constructor renormalises: observed arrays decide)
    i = rng.randrange(nn)
    lonW = list(A["lon"]); lonW[i] = bits(fl(lonW[i]) + 360.0) if fl(lonW[i]) == fl(lonW[i]) else lonW[i]
    out.append(("lon+360", A, cp(A, lon=lonW)))
    # the two ways of storing the coordinates (data variables / xarray coordinates)
    if A["via"] in ("dataset", "ugrid"):
        out.append(("coords-structure", cp(A, coords=False), cp(A, coords=True)))
        lat = list(A["lat"]); k = rng.randrange(nn); lat[k] = change_val(rng, lat[k])
        out.append(("one-lat/coords", cp(A, coords=True), cp(A, coords=True, lat=lat)))
        lon = list(A["lon"]); k = rng.randrange(nn); lon[k] = change_val(rng, lon[k])
        out.append(("one-lon/coords", cp(A, coords=True), cp(A, coords=True, lon=lon)))
        out.append(("identical/coords", cp(A, coords=True), cp(A, coords=True)))
    return out


def same_format(A, B):
    f = lambda d: "User Defined Topology" if d["via"] == "topology" else ("UGRID" if d["via"] == "ugrid" else d.get("spec"))
    return f(A) == f(B)


def base_from_mesh(rng, m, via=None):
    via = via or rng.choice(["topology", "topology", "dataset:UGRID", "dataset:MPAS", "ugrid"])
    kw = {}
    if via.startswith("dataset"):
        via, kw["spec"] = via.split(":")
    return desc(via, [bits(x) for x in m.lon], [bits(x) for x in m.lat], m.rows(), **kw)


def run_pair(ctx, ux, kind, da, db, touches=()):
    try:
        a, b = build(ux, da), build(ux, db)
    except OpFailed as e:  # a state-changing public call raised: not judged here
        ctx.hit(f"op-raised:{e}")
        return
    except Exception as e:  # constructor refuses the generated input: not judged here
        ctx.hit(f"constructor-raised:{kind}:{type(e).__name__}")
        return
    pre = None
    if da.get("fresh") or db.get("fresh"):
        # compare BEFORE anything is observed, each comparison on newly built grids; the arrays are observed afterwards
        try:
            pre = compare4(None, None, fresh=(lambda: build(ux, da), lambda: build(ux, db)))
        except Exception as e:  # noqa: BLE001
            ctx.hit(f"constructor-raised:{kind}:{type(e).__name__}")
            return
        ctx.hit("compared-fresh")
    oa, ob = observe(a), observe(b)
    if touches:
        touch(ctx, a, touches)
        ctx.hit("touched-before-comparing")
    judge_objs(ctx, kind, a, oa, da, b, ob, db, extra=dict(touch=list(touches)) if touches else None, pre=pre)
    return a, oa, b, ob


def small_scope(ctx, ux):
    """all ordered pairs of a family of tiny grids: every combination of differing fields"""
    tri = dict(lon=[bits(0.0), bits(10.0), bits(20.0), bits(5.0)], lat=[bits(0.0), bits(0.0), bits(5.0), bits(-7.0)],
               conn=[[0, 1, 2, INT_FILL], [0, 2, 3, 1]])
    lons = [tri["lon"], tri["lon"][:1] + [bits(11.0)] + tri["lon"][2:], [NAN] + tri["lon"][1:]]
    lats = [tri["lat"], tri["lat"][:2] + [bits(5.000000000000001)] + tri["lat"][3:], tri["lat"][:3] + [NAN]]
    conns = [tri["conn"], [[0, 1, 2, INT_FILL], [0, 2, 3, INT_FILL]], tri["conn"] + [[1, 2, 3, INT_FILL]]]
    fmts = [dict(via="topology"), dict(via="dataset", spec="UGRID")]
    if ctx.thorough or ctx.escalate:
        fmts += [dict(via="ugrid"), dict(via="dataset", spec="UGRID", coords=True)]
        lons.append(tri["lon"] + [bits(30.0)])  # n_node (lon only would be inconsistent: pair it below)
    fam = []
    for f, lo, la, co in itertools.product(fmts, lons, lats, conns):
        if len(lo) != len(la):
            la = la + [bits(1.0)] * (len(lo) - len(la))
        d = desc(f["via"], lo, la, co, **{k: v for k, v in f.items() if k != "via"})
        try:
            g = build(ux, d)
        except Exception as e:  # noqa: BLE001
            ctx.hit("constructor-raised:small:" + type(e).__name__)
            continue
        fam.append((d, g, observe(g)))
    for (da, a, oa), (db, b, ob) in itertools.product(fam, fam):
        if a is b:
            continue
        judge_objs(ctx, "small-scope", a, oa, da, b, ob, db)
    for da, a, oa in fam[:: 5]:
        judge_refl(ctx, a, oa, da, "small-scope")


# --------------------------------------------------------------------------------------
# pairs that agree under every *projection* of the arrays an implementation might compare instead of
# the arrays themselves: flattened values (reshapes), sorted values / multisets, sums, first and last
# rows, lengths only
# --------------------------------------------------------------------------------------


def factorizations(n):
    return [(a, n // a) for a in range(1, n + 1) if n % a == 0]


def wellformed(rows):
    for r in rows:
        real = [v for v in r if v != INT_FILL]
        k = len(real)
        if k < 3 or list(r[:k]) != real or len(set(real)) != k:
            return False
    return True


def reshaped(rows, a, b):
    flat = [v for r in rows for v in r]
    return [flat[i * b:(i + 1) * b] for i in range(a)]


def reshape_pairs(rng, A, k=3):
    """same nodes, same FLATTENED connectivity (fills included), another (n_face, n_max_face_nodes)"""
    nf, w = len(A["conn"]), len(A["conn"][0])
    fs = [(a, b) for a, b in factorizations(nf * w) if (a, b) != (nf, w)]
    rng.shuffle(fs)
    fs.sort(key=lambda ab: not wellformed(reshaped(A["conn"], *ab)))  # well-formed reshapes first
    out = []
    for a, b in fs[:k]:
        B = json.loads(json.dumps(A))
        B["conn"] = reshaped(A["conn"], a, b)
        out.append(("reshape/" + ("well-formed" if wellformed(B["conn"]) else "any"), A, B))
    return out


def ring_family():
    """n consecutively numbered nodes on a circle of latitude as n/k k-gons, k = 3, 4, 6, 8 …: identical
    flattening `0 … n-1`; and a flattening with trailing fills cut into rows in several ways"""
    fam = []
    for n, ks in ((12, (3, 4, 6)), (24, (3, 4, 6, 8))):
        lon = [bits(360.0 * i / n - 180.0 + 1.0) for i in range(n)]
        lat = [bits(10.0)] * n
        for k in ks:
            fam.append((f"ring{n}", lon, lat, [list(range(i * k, (i + 1) * k)) for i in range(n // k)]))
    n = 9
    lon = [bits(40.0 * i - 170.0) for i in range(n)]
    lat = [bits(-20.0 + i) for i in range(n)]
    flat = list(range(n)) + [INT_FILL] * 3
    for a, b in ((2, 6), (3, 4), (4, 3)):
        fam.append(("ring9+fill", lon, lat, [flat[i * b:(i + 1) * b] for i in range(a)]))
    return fam


def reshape_scope(ctx, ux):
    """all ordered pairs of the ring families (every pair has the same flattened arrays), numpy- and dask-backed"""
    rng = ctx.rng
    built = []
    for name, lon, lat, conn in ring_family():
        for f in (dict(via="topology"), dict(via="dataset", spec="UGRID")):
            for ops in ([], [rand_chunk(rng, len(lon), len(conn))]):
                d = desc(f["via"], lon, lat, conn, **{k: v for k, v in f.items() if k != "via"})
                if ops:
                    d["ops"] = ops
                try:
                    g = build(ux, d)
                except Exception as e:  # noqa: BLE001
                    ctx.hit("op-or-constructor-raised:reshape:" + type(e).__name__)
                    continue
                built.append((name, f["via"], bool(ops), d, g, observe(g)))
    for (na, va, ca, da, a, oa), (nb, vb, cb, db, b, ob) in itertools.product(built, built):
        if a is b or na != nb or va != vb:
            continue
        judge_objs(ctx, "reshape-scope/" + na + ("/chunked" if ca or cb else ""), a, oa, da, b, ob, db)


def projection_pairs(rng, A):
    """pairs that differ as arrays but agree in sorted values / multiset / sum / first and last rows / lengths"""
    nn, nf = len(A["lon"]), len(A["conn"])
    w = len(A["conn"][0])

    def cp(d, **kw):
        e = json.loads(json.dumps(d))
        e.update(kw)
        return e

    out = []
    rows = [list(r) for r in A["conn"]]
    if nf > 1:
        perm = rows[1:] + rows[:1] if rng.random() < 0.5 else rng.sample(rows, nf)
        if perm != rows:
            out.append(("proj/rows-permuted", A, cp(A, conn=perm)))
        out.append(("proj/rows-reversed", A, cp(A, conn=rows[::-1])))
    tr = [[rows[i][j] for i in range(nf)] for j in range(w)]
    if tr != rows:
        out.append(("proj/transposed", A, cp(A, conn=tr)))
    flat = [v for r in rows for v in r]
    sh = list(flat)
    rng.shuffle(sh)
    if sh != flat:
        out.append(("proj/same-multiset-conn", A, cp(A, conn=[sh[i * w:(i + 1) * w] for i in range(nf)])))
    # same sum of entries: one index up, one down
    real = [(f, j) for f in range(nf) for j in range(w) if rows[f][j] != INT_FILL]
    cand = [(p, q) for p in real for q in real if p != q and rows[p[0]][p[1]] + 1 < nn and rows[q[0]][q[1]] - 1 >= 0]
    if cand:
        (f1, j1), (f2, j2) = rng.choice(cand)
        c2 = [list(r) for r in rows]
        c2[f1][j1] += 1
        c2[f2][j2] -= 1
        if c2 != rows:
            out.append(("proj/same-sum-conn", A, cp(A, conn=c2)))
    if nf >= 3:  # first and last rows untouched
        f = rng.randrange(1, nf - 1)
        j = rng.randrange(w)
        c2 = [list(r) for r in rows]
        c2[f][j] = rng.choice([v for v in range(nn) if v != c2[f][j]])
        out.append(("proj/middle-row-conn", A, cp(A, conn=c2)))
    for name in ("lon", "lat"):
        v = list(A[name])
        if v[::-1] != v:
            out.append((f"proj/{name}-reversed", A, cp(A, **{name: v[::-1]})))
        if nn >= 3:  # first and last entries untouched
            i = rng.randrange(1, nn - 1)
            u = list(v); u[i] = change_val(rng, u[i], "half")
            out.append((f"proj/{name}-middle-entry", A, cp(A, **{name: u})))
        if nn >= 2:  # same sum (up to rounding): one value up, one down
            i, k = rng.sample(range(nn), 2)
            u = list(v)
            if fl(u[i]) == fl(u[i]) and fl(u[k]) == fl(u[k]):
                u[i] = bits(fl(u[i]) + 0.25); u[k] = bits(fl(u[k]) - 0.25)
                out.append((f"proj/{name}-same-sum", A, cp(A, **{name: u})))
        # lengths only: every value different
        u = [bits(fl(x) * 0.5 + 0.125) if fl(x) == fl(x) else bits(1.0) for x in v]
        out.append((f"proj/{name}-all-entries-differ", A, cp(A, **{name: u})))
    return out


# --------------------------------------------------------------------------------------
# SOURCE descriptions: every fill convention (fill value, start index) incl. large positive sentinels, large
# index values; the verdict is on the source element lists (different lists ⇒ unequal grids)
# --------------------------------------------------------------------------------------


def build_source(ux, src):
    """cheap node arrays (np.linspace) + a handful of faces given as a SOURCE table in the dialect (fill, start)"""
    import xarray as xr

    n = int(src["n_node"])
    lon = np.linspace(-179.0, 179.0, n)
    lat = np.linspace(-80.0, 80.0, n)
    table = np.array(src["table"], dtype=np.dtype(src.get("dtype", "int64")))
    fill, start = src["fill"], int(src["start"])
    if src["via"] == "topology":
        return ux.Grid.from_topology(node_lon=lon, node_lat=lat, face_node_connectivity=table, fill_value=fill, start_index=start)
    ds = xr.Dataset()
    ds["Mesh2"] = xr.DataArray(0, attrs=dict(cf_role="mesh_topology", topology_dimension=2,
                                             node_coordinates="Mesh2_node_x Mesh2_node_y", face_node_connectivity="Mesh2_face_nodes"))
    ds["Mesh2_node_x"] = xr.DataArray(lon, dims=["nMesh2_node"], attrs=dict(standard_name="longitude"))
    ds["Mesh2_node_y"] = xr.DataArray(lat, dims=["nMesh2_node"], attrs=dict(standard_name="latitude"))
    attrs = dict(cf_role="face_node_connectivity", start_index=start)
    if fill is not None:
        attrs["_FillValue"] = fill
    ds["Mesh2_face_nodes"] = xr.DataArray(table, dims=["nMesh2_face", "nMaxMesh2_face_nodes"], attrs=attrs)
    return ux.Grid.from_dataset(ds)


def judge_source(ctx, ux, kind, sa, sb):
    inp = dict(mode="source", kind=kind, a=sa, b=sb)
    try:
        a, b = build_source(ux, sa), build_source(ux, sb)
    except Exception as e:  # noqa: BLE001
        ctx.hit(f"constructor-raised:source:{kind}:{type(e).__name__}")
        return
    outs, errs = [], []
    for op, x, y in (("eq", a, b), ("ne", a, b), ("eq", b, a), ("ne", b, a)):
        r, e = cmp(op, x, y)
        outs.append(r)
        if e:
            errs.append(f"{op}: {e}")
    tag = f"fill={sa['fill']}/start={sa['start']}/via={sa['via']}"
    ctx.case(("source", kind, sa, sb), nontrivial=True,
             sample=dict(kind=kind, a=sa, b=sb, outputs=outs) if sa["table"] != sb["table"] and len(ctx.samples) < 4 and sa["n_node"] > 1000 else None)
    ctx.hit("source:" + kind)
    ctx.hit("source-dialect:" + tag)
    ctx.hit("source-n_node>=100000" if sa["n_node"] >= 100000 else "source-n_node-small")
    if errs:
        ctx.fail(f"C20/source/raises/{tag}", "comparison does not return a bool: " + errs[0], inp, dict(outputs=outs, errors=errs), None, ["total"])
        return
    stA = [[int(x) for x in r] for r in np.asarray(a.face_node_connectivity.values)]
    stB = [[int(x) for x in r] for r in np.asarray(b.face_node_connectivity.values)]
    hf = sa["fill"] is not None
    ans = ctx.driver.ask("C20.source", b01(hf), sa["fill"] if hf else 0, sa["start"], common.enc_rows(sa["table"]),
                         common.enc_rows(sb["table"]), common.enc_rows(stA), common.enc_rows(stB), *[b01(x) for x in outs])
    valid, v, mA, mB = ans.split(";")
    assert valid == "1", "generator produced a source table that is not valid in its dialect"
    if v != "ok":
        clauses = v.split(" ", 1)[1].split(",")
        same = sa["table"] == sb["table"]
        what = (f"two source descriptions in the dialect ({tag}) " + ("that are identical" if same else "that differ in a connectivity entry")
                + f" give == {outs[0]}/{outs[2]}, != {outs[1]}/{outs[3]}; stored tables {'are the same' if stA == stB else 'differ'}")
        impl = dict(outputs=outs, stored_a=stA, stored_b=stB)
        model = dict(model_stored_a=mA, model_stored_b=mB, expected_eq=same)
        if set(clauses) <= {"reader_corresponds", "reader_injective_on_connectivity"}:
            # the outputs of == / != are right for these sources; only the tie reader ↔ reader model broke (C01's business)
            ctx.mismatch("C20/" + "+".join(clauses), inp, impl, model)
        else:
            ctx.fail(f"C20/source/{'+'.join(clauses)}/{tag}", what, inp, impl, model, clauses)


def source_pairs(rng, thorough):
    """(kind, srcA, srcB): identical, highest index ↔ padding, index ↔ index ± 1 near the sentinel, sentinel − 1 as a real index"""
    out = []
    BIG = 100000
    dialects = []
    for via in ("topology", "ugrid"):
        dialects += [
            (via, BIG, BIG, 0),  # one-past-the-end sentinel, 0-based
            (via, BIG, BIG + 1, 1),  # one-past-the-end sentinel, 1-based
            (via, 12, 2 ** 31 - 1, 0), (via, 12, INT_FILL, 0), (via, 12, -1, 0), (via, 12, 0, 1), (via, 12, 12, 0), (via, 12, 999999, 0),
            (via, BIG, -1, 0), (via, BIG, INT_FILL, 0), (via, BIG, 999999, 0), (via, BIG, 2 ** 31 - 1, 0),
        ]
    dialects += [("topology", 999999, 999999, 0), ("ugrid", 999999, 999999, 0)]  # sentinel 999999 on 999999 nodes
    if not thorough:
        big = [d for d in dialects if d[1] >= BIG]
        small = [d for d in dialects if d[1] < BIG]
        dialects = rng.sample(small, 6) + [d for d in big if d[2] in (d[1], d[1] + 1)] + rng.sample([d for d in big if d[2] not in (d[1], d[1] + 1)], 3)
    for via, n, fill, start in dialects:
        hi = n - 1  # highest 0-based index

        def enc(faces, w=4):
            return [[v + start for v in f] + [fill] * (w - len(f)) for f in faces]

        def src(faces, dtype="int64"):
            return dict(via=via, n_node=n, fill=fill, start=start, table=enc(faces), dtype=dtype)

        lows = rng.sample(range(0, min(n - 12, 50)), 3) if n > 20 else [0, 1, 2]
        near = [hi - k for k in (0, 1, 2, 3, 5, 9, 10, 11)]
        base = [[lows[0], lows[1], near[1], near[0]], [lows[2], near[3], near[2]], [near[5], near[6], near[7]]]
        A = src(base)
        out.append(("identical", A, src(base)))
        # highest index <-> padding (quad <-> triangle)
        out.append(("highest-index-vs-padding", A, src([base[0][:3]] + base[1:])))
        # sentinel-1 ... sentinel-11 as real indices <-> padding
        for k, idx in ((3, 2), (9, 0)):
            f2 = [list(f) for f in base]
            real = f2[2 if idx == 0 else 1]
            if len(real) == 3:
                out.append((f"near-sentinel-{k}-vs-padding", src(base[:1] + [base[1] + [hi - 4]] + base[2:]),
                            src(base[:1] + [base[1]] + base[2:])))
                break
        out.append(("index-near-sentinel-dropped", src([base[0], base[1], [near[5], near[6], near[7], near[4]]]), A))
        # index <-> index ± 1 near the sentinel
        out.append(("index+1-near-sentinel", src([[lows[0], lows[1], near[2], near[1]]] + base[1:]), A))
        out.append(("index-1-near-sentinel", src(base[:1] + [[lows[2], near[3], near[4]]] + base[2:]), A))
        out.append(("low-index+1", src([[lows[0] + 1 if lows[0] + 1 not in (lows[1],) else lows[0] + 2, lows[1], near[1], near[0]]] + base[1:]), A))
        if thorough or rng.random() < 0.3:
            out.append(("identical/int32", src(base, "int32"), src(base)) if abs(fill) < 2 ** 31 else ("identical", A, src(base)))
    return out


# --------------------------------------------------------------------------------------
# construction forms of one format: face-vertex grids given in lon/lat or as Cartesian vectors
# --------------------------------------------------------------------------------------


def face_vertex_pairs(rng, thorough):
    """grids of format "Face Vertices" built with latlon=True (stores node_lon/node_lat) and latlon=False (stores node_x/y/z)
    through from_face_vertices / open_grid(list) / open_grid(ndarray): different positions with identical connectivity (must be
    unequal, both orders, compared fresh) and the same positions in the two forms (verdict by the observed arrays: unequal
    unless the derived longitudes / latitudes are bit-identical); histories: nothing read / node_lon read / node_x read"""
    out = []
    FORMS = ["from_face_vertices", "open_grid_list", "open_grid_ndarray"]
    HIST = [[], [], [["touch", ["node_lon"]]], [["touch", ["node_x"]]], [["touch", ["node_lat", "node_z"]]]]

    def faces(nf, k):
        """nf k-gons over distinct points whose order by longitude equals their order by x (lon in (-150, -30), |lat| < 5): the
        two forms then number the nodes alike and the connectivity tables coincide"""
        n = nf * k
        lons = sorted(rng.uniform(-150, -30) for _ in range(n))
        lons = [lons[0] + 0.0] + [max(lons[i], lons[i - 1] + 0.8) if False else lons[i] for i in range(1, n)]
        for i in range(1, n):
            if lons[i] - lons[i - 1] < 0.8:
                lons[i] = lons[i - 1] + 0.8
        pts = [(lo, rng.uniform(-5, 5)) for lo in lons]
        order = list(range(n))
        return pts, [order[i * k:(i + 1) * k] for i in range(nf)]

    def d(pts, fs, latlon, ops=(), form=None):
        return dict(via="face_vertices", verts=[[[bits(pts[v][0]), bits(pts[v][1])] for v in f] for f in fs], latlon=latlon,
                    form=form or rng.choice(FORMS), ops=[list(o) for o in ops], fresh=True)

    for rep in range(10 if thorough else 4):
        nf, k = rng.choice([(1, 3), (1, 3), (1, 4), (2, 3), (3, 4)])
        P, fs = faces(nf, k)
        Q, _ = faces(nf, k)
        perm = list(range(nf * k))
        if rng.random() < 0.5:  # other corner order inside the faces (same on both sides)
            fs = [f[1:] + f[:1] for f in fs]
        # different positions, identical connectivity, the two storage forms, nothing read before ==
        out.append(("face-vertices/other-positions/lonlat-vs-xyz/fresh", d(P, fs, True), d(Q, fs, False)))
        out.append(("face-vertices/other-positions/xyz-vs-xyz/fresh", d(P, fs, False), d(Q, fs, False)))
        out.append(("face-vertices/other-positions/lonlat-vs-lonlat/fresh", d(P, fs, True), d(Q, fs, True)))
        # one vertex moved
        i = rng.randrange(nf * k)
        R = list(P); R[i] = (P[i][0] + 0.25, P[i][1])
        out.append(("face-vertices/one-vertex-lon/lonlat-vs-xyz/fresh", d(P, fs, True), d(R, fs, False)))
        R2 = list(P); R2[i] = (P[i][0], P[i][1] + 0.125)
        out.append(("face-vertices/one-vertex-lat/xyz-vs-lonlat/fresh", d(P, fs, False), d(R2, fs, True)))
        # histories on either side
        out.append(("face-vertices/other-positions/lonlat-vs-xyz/history", d(P, fs, True, rng.choice(HIST)), d(Q, fs, False, rng.choice(HIST))))
        # the SAME positions in the two forms / in the same form
        out.append(("face-vertices/same-positions/lonlat-vs-xyz", d(P, fs, True), d(P, fs, False, rng.choice(HIST))))
        out.append(("face-vertices/same-positions/xyz-vs-xyz", d(P, fs, False, rng.choice(HIST)), d(P, fs, False)))
        out.append(("face-vertices/same-positions/lonlat-vs-lonlat", d(P, fs, True), d(P, fs, True, rng.choice(HIST))))
        # unconstrained positions (node numbering may differ between the forms: the observed arrays decide)
        U = [(rng.uniform(-179, 179), rng.uniform(-85, 85)) for _ in range(nf * k)]
        V = [(rng.uniform(-179, 179), rng.uniform(-85, 85)) for _ in range(nf * k)]
        out.append(("face-vertices/random-positions/lonlat-vs-xyz/fresh", d(U, fs, True), d(V, fs, False)))
    return out


# --------------------------------------------------------------------------------------
# which variables of the source dataset are xarray coordinates — on EVERY dimension a compared variable has
# --------------------------------------------------------------------------------------


def coord_structure_pairs(rng, A, thorough):
    """identical values, source datasets differing only in their coordinate structure (node dim: node_lon/lat as
    coordinates of one another, an index / an extra coordinate on n_node; face dim: face_lon/face_lat via set_coords, an
    index coordinate on n_face — also with other VALUES on the two sides; width dim: index coordinate; scalar
    coordinates, equal or different) must be EQUAL; the same with exactly one entry of lon / lat / connectivity changed
    must stay UNEQUAL"""
    if A["via"] not in ("dataset", "ugrid"):
        A = dict(A, via="ugrid") if rng.random() < 0.5 else dict(A, via="dataset", spec="UGRID")
    nn, nf = len(A["lon"]), len(A["conn"])
    w = len(A["conn"][0])

    def cp(d, **kw):
        e = json.loads(json.dumps(d))
        e.pop("coords", None)
        e.update(kw)
        return e

    def structure():
        k = rng.choice([0, 1, 1, 2, 3])
        s = set(rng.sample(CFLAGS, k))
        if {"face_index", "face_index_shifted"} <= s:
            s.discard("face_index")
        if {"scalar", "scalar_other"} <= s:
            s.discard("scalar")
        return sorted(s)

    out = []
    singles = [[f] for f in CFLAGS]
    rng.shuffle(singles)
    for s1 in singles[: (len(singles) if thorough else 5)]:
        out.append(("cstruct/identical/" + s1[0] + "-vs-plain", cp(A, cstruct=s1), cp(A, cstruct=[])))
    out.append(("cstruct/identical/face-index-values-differ", cp(A, cstruct=["face_index"]), cp(A, cstruct=["face_index_shifted"])))
    out.append(("cstruct/identical/scalar-values-differ", cp(A, cstruct=["scalar"]), cp(A, cstruct=["scalar_other"])))
    for _ in range(3 if thorough else 2):
        out.append(("cstruct/identical/random", cp(A, cstruct=structure()), cp(A, cstruct=structure())))
    for _ in range(2 if thorough else 1):
        i = rng.randrange(nn)
        lon = list(A["lon"]); lon[i] = change_val(rng, lon[i])
        out.append(("cstruct/one-lon", cp(A, cstruct=structure()), cp(A, lon=lon, cstruct=structure())))
        i = rng.randrange(nn)
        lat = list(A["lat"]); lat[i] = change_val(rng, lat[i])
        s = structure()
        out.append(("cstruct/one-lat/same-structure", cp(A, cstruct=s), cp(A, lat=lat, cstruct=s)))
        conn = [list(r) for r in A["conn"]]
        f, j = rng.randrange(nf), rng.randrange(w)
        old = conn[f][j]
        conn[f][j] = rng.choice([v for v in range(nn) if v != old]) if (old == INT_FILL or rng.random() < 0.7) else INT_FILL
        out.append(("cstruct/one-conn", cp(A, cstruct=structure()), cp(A, conn=conn, cstruct=structure())))
    # … and chunked
    S = rand_state(rng, nn, nf)
    out.append(("cstruct/identical/random/chunked", cp(A, cstruct=structure(), ops=S), cp(A, cstruct=structure(), ops=rand_state(rng, nn, nf))))
    return out


# --------------------------------------------------------------------------------------
# backing states: numpy / chunk()ed / copied / sub-selected / lazily opened
# --------------------------------------------------------------------------------------


def rand_chunk(rng, nn, nf):
    def size(n):
        return rng.choice([rng.randint(1, max(1, n)), rng.randint(1, max(1, n)), -1, "auto", max(1, n // 2)])

    kw = {}
    for k, n in (("n_node", nn), ("n_face", nf), ("n_edge", nn + nf)):
        if rng.random() < 0.75:
            kw[k] = size(n)
    if not kw:
        kw["n_node"] = size(nn)
    return ["chunk", kw]


def rand_state(rng, nn, nf, must_chunk=True):
    """a short history of public calls ending in some backing state"""
    pre = rng.choice([[], [], [["copy"]], [["touch", rng.sample(TOUCHES, 2)]], [["isel_all"]]])
    post = rng.choice([[], [], [["copy"]], [rand_chunk(rng, nn, nf)], [["isel_all"]]])
    mid = [rand_chunk(rng, nn, nf)] if (must_chunk or rng.random() < 0.7) else []
    return pre + mid + post


def backing_pairs(rng, A, thorough):
    """near-equal (exactly one entry of lon / lat / connectivity differs, same shapes and dtypes) and identical pairs,
    each in three arrangements of backing states: same calls on both sides, different chunk arguments, one side only"""
    nn, nf = len(A["lon"]), len(A["conn"])
    w = len(A["conn"][0])

    def cp(d, **kw):
        e = json.loads(json.dumps(d))
        e.update(kw)
        return e

    near = [("identical", cp(A))]
    for _ in range(2 if thorough else 1):
        i = rng.randrange(nn)
        lon = list(A["lon"]); lon[i] = change_val(rng, lon[i], rng.choice(["ulp+", "small", "random", "half"]))
        near.append(("one-lon", cp(A, lon=lon)))
        i = rng.randrange(nn)
        lat = list(A["lat"]); lat[i] = change_val(rng, lat[i], rng.choice(["ulp-", "small", "random", "half"]))
        near.append(("one-lat", cp(A, lat=lat)))
        conn = [list(r) for r in A["conn"]]
        f, j = rng.randrange(nf), rng.randrange(w)
        old = conn[f][j]
        conn[f][j] = rng.choice([v for v in range(nn) if v != old]) if (old == INT_FILL or rng.random() < 0.7) else INT_FILL
        near.append(("one-conn", cp(A, conn=conn)))
    for kind, _, B in reshape_pairs(rng, A, 1):
        near.append((kind, B))
    out = []
    for kind, B in near:
        sel = [["isel", sorted(rng.sample(range(nf), rng.randint(1, nf)))]] if (nf > 1 and rng.random() < 0.2) else []
        S = rand_state(rng, nn, nf)
        out.append((kind + "/same-calls", cp(A, ops=sel + S), cp(B, ops=sel + S)))
        out.append((kind + "/different-chunks", cp(A, ops=sel + rand_state(rng, nn, nf)), cp(B, ops=sel + rand_state(rng, nn, nf))))
        one = rand_state(rng, nn, nf)
        if rng.random() < 0.5:
            out.append((kind + "/one-side", cp(A, ops=sel + one), cp(B, ops=sel)))
        else:
            out.append((kind + "/one-side", cp(A, ops=sel), cp(B, ops=sel + one)))
    return out


def small_scope_chunked(ctx, ux):
    """all ordered pairs of a small family, every member chunk()ed (same arguments / its own arguments)"""
    rng = ctx.rng
    tri = dict(lon=[bits(0.0), bits(10.0), bits(20.0), bits(5.0)], lat=[bits(0.0), bits(0.0), bits(5.0), bits(-7.0)],
               conn=[[0, 1, 2, INT_FILL], [0, 2, 3, 1]])
    lons = [tri["lon"], tri["lon"][:1] + [bits(11.0)] + tri["lon"][2:]]
    lats = [tri["lat"], tri["lat"][:2] + [bits(5.000000000000001)] + tri["lat"][3:]]
    conns = [tri["conn"], [[0, 1, 2, INT_FILL], [0, 2, 3, INT_FILL]]]
    fmts = [dict(via="topology"), dict(via="dataset", spec="UGRID")]
    if ctx.thorough or ctx.escalate:
        conns.append([[0, 1, 2, 3], [0, 2, 3, 1]])
        fmts.append(dict(via="ugrid"))
    for arrangement in (("same-chunks", "own-chunks", "mixed") if (ctx.thorough or ctx.escalate) else ("same-chunks", "mixed")):
        fam = []
        same = rand_chunk(rng, 4, 2)
        for f, lo, la, co in itertools.product(fmts, lons, lats, conns):
            ops = [same] if arrangement == "same-chunks" else ([rand_chunk(rng, 4, 2)] if arrangement == "own-chunks" or rng.random() < 0.5 else [])
            d = desc(f["via"], lo, la, co, ops=ops, **{k: v for k, v in f.items() if k != "via"})
            try:
                g = build(ux, d)
            except Exception as e:  # noqa: BLE001
                ctx.hit("op-or-constructor-raised:small-chunked:" + type(e).__name__)
                continue
            fam.append((d, g, observe(g)))
        for (da, a, oa), (db, b, ob) in itertools.product(fam, fam):
            if a is b:
                continue
            judge_objs(ctx, "small-scope/" + arrangement, a, oa, da, b, ob, db)
        for da, a, oa in fam[::3]:
            judge_refl(ctx, a, oa, da, "small-scope/" + arrangement)
            judge_copy(ctx, ux, a, oa, da, "small-scope/" + arrangement)


def file_states(ctx, ux, f, thorough):
    """a sample file opened eagerly / lazily (dask) / chunk()ed afterwards: all equal; the file's arrays with one entry
    changed, rebuilt with the file's format and put into the same states: unequal"""
    rng = ctx.rng
    plain = dict(via="file", path=f)
    try:
        g0 = build(ux, plain)
    except Exception as e:  # noqa: BLE001
        ctx.hit(f"file-unreadable:{f}:{type(e).__name__}")
        return
    o0 = observe(g0)
    nn, nf = len(o0["lon"]), o0["shape"][0]
    states = [dict(plain, open_chunks=True), dict(plain, ops=[rand_chunk(rng, nn, nf)]),
              dict(plain, open_chunks=True, ops=[rand_chunk(rng, nn, nf)]), dict(plain, ops=[["copy"], rand_chunk(rng, nn, nf)])]
    built = [(plain, g0, o0)]
    for d in states:
        try:
            g = build(ux, d)
        except Exception as e:  # noqa: BLE001
            ctx.hit(f"op-raised:file:{e if isinstance(e, OpFailed) else type(e).__name__}")
            continue
        built.append((d, g, observe(g)))
    for (da, a, oa), (db, b, ob) in itertools.combinations(built, 2):
        judge_objs(ctx, "file/backing-states", a, oa, da, b, ob, db)
    # near-equal pairs in the file's own format
    w = o0["shape"][1]
    rows = [o0["conn"][i * w:(i + 1) * w] for i in range(nf)]
    if not isinstance(o0["spec"], str):
        return
    A = desc("dataset", o0["lon"], o0["lat"], rows, spec=o0["spec"], cstruct=rng.sample(CFLAGS, rng.randint(0, 3)))
    for kind, da, db in backing_pairs(rng, A, thorough)[: (12 if thorough else 6)]:
        run_pair(ctx, ux, "file-arrays/" + kind, da, db)
    # the opened file against its own arrays with one longitude changed, both chunk()ed the same way
    if True:  # same format, same values: equal whatever coordinates the reader / the dataset attached
        ch = rand_chunk(rng, nn, nf)
        i = rng.randrange(nn)
        lon = list(o0["lon"]); lon[i] = change_val(rng, lon[i], "ulp+")
        B = dict(A, lon=lon, ops=[ch])
        run_pair(ctx, ux, "file-vs-arrays/one-lon/same-calls", dict(plain, ops=[ch]), B)
        run_pair(ctx, ux, "file-vs-arrays/identical/same-calls", dict(plain, ops=[ch]), dict(A, ops=[ch]))


def ieee_tie(ctx):
    """bit-level model of IEEE == / NaN / NaN-aware equality vs Lean Float, NumPy and DataArray.equals"""
    import xarray as xr

    rng = ctx.rng
    pool = [0, NEGZERO, NAN, NAN2, 0x7FF0000000000001, 0x7FF0000000000000, 0xFFF0000000000000, 1, 0x8000000000000001,
            bits(1.0), bits(1.0) + 1, bits(-1.0), bits(180.0), bits(-180.0), bits(1e-300), 0x7FEFFFFFFFFFFFFF, 0x000FFFFFFFFFFFFF]
    pool += [bits(rng.uniform(-180, 180)) for _ in range(6)] + [rng.getrandbits(64) for _ in range(ctx.n(10, 100))]
    bad = 0
    for x, y in itertools.product(pool, pool):
        fx, fy = np.float64(fl(x)), np.float64(fl(y))
        me, le, mn, ln, mv = [t == "1" for t in ctx.driver.ask("C20.ieee", x, y).split()]
        npe, npn = bool(fx == fy), bool(np.isnan(fx))
        xe = bool(xr.DataArray(np.array([fx])).equals(xr.DataArray(np.array([fy]))))
        ctx.hit("ieee-pairs")
        if (me, mn) != (npe, npn) or (le, ln) != (npe, npn) or mv != xe:
            bad += 1
            ctx.mismatch("C20/ieee-bits-vs-numpy-xarray", dict(x=x, y=y), dict(numpy_eq=npe, numpy_nan=npn, xarray_equals=xe),
                         dict(model_eq=me, lean_float_eq=le, model_nan=mn, lean_float_nan=ln, model_valEq=mv))
    # array level: shapes
    for n1, n2 in ((0, 0), (0, 1), (2, 3), (3, 3)):
        a1, a2 = np.arange(n1, dtype=float), np.arange(n2, dtype=float)
        xe = bool(xr.DataArray(a1, dims=["n_node"]).equals(xr.DataArray(a2, dims=["n_node"])))
        if xe != (n1 == n2):
            ctx.mismatch("C20/xarray-equals-shape", dict(n1=n1, n2=n2), xe, n1 == n2)
    ctx.case(("ieee", len(pool)), nontrivial=False)


def corpus_cases():
    p = common.CORPUS / "C20"
    if not p.is_dir():
        return []
    return [json.loads(f.read_text()) for f in sorted(p.glob("*.json"))]


def run_input(ctx, ux, inp):
    mode = inp.get("mode", "pair")
    if mode == "pair":
        run_pair(ctx, ux, inp.get("kind", "replay"), inp["a"], inp["b"], tuple(inp.get("touch", ())))
        return
    if mode == "source":
        judge_source(ctx, ux, inp.get("kind", "replay"), inp["a"], inp["b"])
        return
    a = build(ux, inp["a"])
    oa = observe(a)
    if mode == "refl":
        judge_refl(ctx, a, oa, inp["a"], inp.get("kind", "replay"))
    elif mode == "copy":
        judge_copy(ctx, ux, a, oa, inp["a"], inp.get("kind", "replay"))
    elif mode == "nongrid":
        judge_nongrid(ctx, a, inp["a"], only=inp.get("other"))


def _dask_sync():
    """dask's single-threaded scheduler: same results, no thread-pool overhead per tiny compute"""
    try:
        import dask

        dask.config.set(scheduler="synchronous")
    except Exception:  # noqa: BLE001
        pass


def run(ctx):
    import uxarray as ux

    _dask_sync()
    rng = ctx.rng
    ctx.rule = ("pairs of grids built through the public constructors (from_topology, from_dataset with a given format, the UGRID "
                "reader, sample files of 4 formats) from harness/meshes.zoo meshes: identical, exactly one longitude / latitude / "
                "connectivity entry changed (ulp, NaN, fill value …), n_node / n_face / width changed, other format, NaN and ±0 "
                "placements, float32 storage, coordinates stored as data variables / xarray coordinates, after derived attributes "
                "were computed; all ordered pairs of a small family (every combination of differing fields); g==g, copies, "
                "non-Grid operands; pairs that agree under a PROJECTION of the arrays (same flattened connectivity in another "
                "(n_face, width) shape incl. trailing fills; face-vertex grids of one format built with latlon=True / latlon=False "
                "(from_face_vertices, open_grid(list / ndarray)): other positions with identical connectivity, one vertex moved, the same "
                "positions in both forms, compared FRESH (each comparison on newly built grids, arrays observed afterwards) and after "
                "node_lon / node_x were read on either side; pairs of SOURCE descriptions in every fill convention (fill = n_node, "
                "n_node+1 1-based, 999999, 2^31-1, INT_FILL, -1, 0 with start 1; from_topology and the UGRID reader) with 12 … 999999 cheap "
                "nodes and faces on the highest indices: identical, highest index ↔ padding, index ± 1 near the sentinel — verdict on the "
                "source element lists, stored tables compared with the Lean reader model; identical and one-entry-mutated pairs whose SOURCE DATASETS differ in which "
                "variables are xarray coordinates, on every dimension of a compared variable (node_lon/lat as coordinates, index / extra "
                "coordinates on n_node, face_lon/face_lat via set_coords, index coordinate on n_face with equal or other values, on "
                "n_max_face_nodes, scalar coordinates), through from_dataset and the UGRID reader; permuted / reversed rows, transposed table, same multiset, same sum, "
                "only a middle row / middle entry changed, reversed coordinates, same lengths only); every kind of pair again with the grids put into other BACKING STATES by public calls "
                "(Grid.chunk with random n_node/n_edge/n_face: same calls on both sides, different arguments, one side only; "
                "copy(); isel; derived tables materialised; files opened lazily with chunks={}), the oracle being the value-level "
                "Spec, and Lean evaluating `namesFaithful` on the observed dask names.  distinct = distinct (arrays, formats, kind); non-trivial = the pair differs in at most one field")
    ctx.assumptions = [
        "DataArray.equals = same dims, NaN-aware element equality, same coordinates: tied to the model by the differential run and "
        "by the element-level comparison with xarray on special values (not proved about xarray)",
        "IEEE == on bit patterns (equal bits or both zero, never NaN) is compared with Lean's Float and NumPy on special and random doubles",
        "grids use the canonical dimension names (Variable.equals compares dims); how node_lon/node_lat are stored (data variables / "
        "xarray coordinates) is observed and sent to the driver but is not an input of the repaired model (eq_ignores_coord_storage)",
        "Python falls back to Grid.__eq__ for `x == g` when x is a builtin (reflected comparison)",
        "the stored node-coordinate representation (lon/lat, x/y/z or both) and what was read before == are not inputs of the model "
        "(eq_ignores_stored_representation); the arrays of fresh pairs are observed AFTER the comparisons, on separately built grids",
        "correspondence clause `reader is injective on connectivity`: distinct valid source tables of one dialect are stored as distinct "
        "tables (theorem procTable_inj about the reader model; C01's topology_roundtrip / ugrid_roundtrip / pad_inj give the same); the real "
        "reader is tied to the model per source pair (`reader_corresponds`)",
        "the backing state (numpy / dask names and chunks) is NOT an input of the Spec or of the value-level model; theorem "
        "backing_irrelevant: with faithful dask names xarray's lazy shortcut cannot change the result — faithfulness of the observed "
        "names is evaluated by Lean for every pair (dask's tokenisation itself is not proved)",
    ]
    # 0. corpus (minimised past failures / regression witnesses of the Lean counterexamples) first
    for c in corpus_cases():
        ctx.hit("corpus")
        run_input(ctx, ux, c["input"])
    # 1. bit-level tie
    ieee_tie(ctx)
    # 2. exhaustive small scope; same flattening / other shape families
    reshape_scope(ctx, ux)
    small_scope(ctx, ux)
    # 3. generated meshes × named changes
    ms = []
    for rep in range(ctx.n(2, 24)):
        ms += meshes.zoo(rng, big=False)
    thorough = ctx.thorough or ctx.escalate
    for mi, m in enumerate(ms):
        A = base_from_mesh(rng, m)
        for kind, da, db in (variants(rng, A, thorough) + reshape_pairs(rng, A, 3 if thorough else 2) + projection_pairs(rng, A)
                             + coord_structure_pairs(rng, A, thorough)):
            touches = tuple(rng.sample(TOUCHES, 2)) if rng.random() < 0.25 else ()
            r = run_pair(ctx, ux, kind, da, db, touches)
            if r and kind == "identical":
                a, oa, b, ob = r
                judge_refl(ctx, a, oa, da, m.kind)
                if mi % 3 == 0:
                    judge_copy(ctx, ux, a, oa, da, m.kind)
                if mi % 8 == 0:
                    judge_nongrid(ctx, a, da)
            if r and kind in ("nan-same-place", "nan-vs-number-lat"):
                judge_refl(ctx, r[0], r[1], da, m.kind + "+nan")
                if mi % 4 == 0:
                    judge_copy(ctx, ux, r[0], r[1], da, m.kind + "+nan")
    # 3a'. construction forms of one format (face vertices in lon/lat or as Cartesian vectors), compared fresh
    for kind, da, db in face_vertex_pairs(rng, thorough):
        run_pair(ctx, ux, kind, da, db)
    # 3a. source descriptions in every fill convention, large index values
    for kind, sa, sb in source_pairs(rng, thorough):
        judge_source(ctx, ux, kind, sa, sb)
    # 3b. the same questions in every backing state a public call can put the grids in
    small_scope_chunked(ctx, ux)
    for mi, m in enumerate(ms[:: ctx.n(2, 4)]):
        A = base_from_mesh(rng, m)
        for kind, da, db in backing_pairs(rng, A, thorough):
            r = run_pair(ctx, ux, kind, da, db)
            if r and mi % 4 == 0 and kind.startswith("identical"):
                judge_refl(ctx, r[0], r[1], da, m.kind + "+state")
                judge_copy(ctx, ux, r[0], r[1], da, m.kind + "+state")
    for f in ["scrip/outCSne8/outCSne8.nc", "ugrid/quad-hexagon/grid.nc"] + (
            ["exodus/outCSne8/outCSne8.g", "mpas/QU/mesh.QU.1920km.151026.nc", "ugrid/outCSne30/outCSne30.ug",
             "geos-cs/c12/test-c12.native.nc4"] if thorough else []):
        file_states(ctx, ux, f, thorough)
    # 4. sample files of different formats
    files = FILES + (FILES_THOROUGH if thorough else [])
    opened = []
    for f in files:
        d = dict(via="file", path=f)
        try:
            g1, g2 = build(ux, d), build(ux, d)
        except Exception as e:  # noqa: BLE001
            ctx.hit(f"file-unreadable:{f}:{type(e).__name__}")
            continue
        o1, o2 = observe(g1), observe(g2)
        ctx.hit("format:" + str(o1["spec"]))
        judge_objs(ctx, "same-file-twice", g1, o1, d, g2, o2, d)
        judge_refl(ctx, g1, o1, d, "file")
        judge_copy(ctx, ux, g1, o1, d, "file")
        # the same arrays through the explicit-topology constructor: another format
        if len(o1["lon"]) <= 7000:
            w = o1["shape"][1]
            rows = [o1["conn"][i * w:(i + 1) * w] for i in range(o1["shape"][0])]
            dt = desc("topology", o1["lon"], o1["lat"], rows)
            try:
                gt = build(ux, dt)
                judge_objs(ctx, "file-vs-same-arrays-as-topology", g1, o1, d, gt, observe(gt), dt)
            except Exception as e:  # noqa: BLE001
                ctx.hit("constructor-raised:file-arrays:" + type(e).__name__)
        opened.append((d, g1, o1))
    for (da, a, oa), (db, b, ob) in itertools.combinations(opened, 2):
        judge_objs(ctx, "different-files", a, oa, da, b, ob, db)
    if opened:
        judge_nongrid(ctx, opened[0][1], opened[0][0])


def replay(ctx, rp):
    import uxarray as ux

    _dask_sync()
    run_input(ctx, ux, rp["input"])
