"""C11 — neighbour queries agree with brute-force search under the tree's metric.

Lean side (Props/C11.lean): the brute-force model meets the k-nearest / radius specification for
distance lists of any length (`knn_meets_spec`, `radius_meets_spec`), the Boolean the driver
evaluates IS that specification (`knnSpecB_iff`, `radiusSpecB_iff`), without ties the
specification has one solution (`knn_unique`), chord ⇔ arc ranking (`chord_mono`,
`cartesian_knn_eq_haversine_knn`), units (`unit_roundtrip`, `planar_degrees`,
`radius_unit_repaired`), and the repaired tree cache reflects every request after any history
(`tree_reflects_request`).

Tie to the code (differential, through `Grid.get_ball_tree/get_kd_tree(...).query/query_radius`):
for every generated (grid, element kind, tree, coordinate system, metric, query form, unit, k / r)
the Lean driver computes the distances with the model's metric / query preparation at Float,
evaluates `knnSpecB` / `radiusSpecB` on the IMPLEMENTATION's indices, compares the reported
distances (float clause, tolerance 1e-7 relative) and the model's own answer.  Rows with near-ties
(gap < 1e-9 in the tree's unit) are judged by the specification up to 1e-9 (knn_tol_profile / radius_tol_sandwich); only
near-ties within 1e-6 of the haversine antipode that fail it are dropped (ill-conditioned float formula).  Request histories on one grid are run
through the cache state machine and the handed-back wrapper is judged by `reflects`.
"""

from __future__ import annotations

import math

import numpy as np

from . import common, meshes
from .common import enc_float, enc_floats, enc_ints

KIND = {"ball": 0, "kd": 1}
SYS = {"spherical": 0, "cartesian": 1}
ELEM = {"nodes": 0, "face centers": 1, "edge centers": 2}
ELEM_N = {v: k for k, v in ELEM.items()}
SYS_N = {v: k for k, v in SYS.items()}
METRIC = {"haversine": 0, "euclidean": 1, "minkowski": 1, "l2": 1, "manhattan": 2, "cityblock": 2, "l1": 2,
          "chebyshev": 3, "infinity": 3}
METRIC_N = {0: "haversine", 1: "l2", 2: "l1", 3: "linf"}

# (tree, coordinate system, metric name): the combinations the property names first, then the
# other metrics sklearn offers for the same trees
MAIN = [("ball", "spherical", "haversine"), ("ball", "cartesian", "euclidean"), ("kd", "cartesian", "minkowski"),
        ("kd", "spherical", "minkowski")]
EXTRA = [("ball", "cartesian", "minkowski"), ("ball", "cartesian", "manhattan"), ("ball", "cartesian", "chebyshev"),
         ("ball", "cartesian", "l2"), ("kd", "cartesian", "euclidean"), ("kd", "cartesian", "manhattan"),
         ("kd", "cartesian", "chebyshev"), ("kd", "spherical", "euclidean"), ("kd", "spherical", "manhattan"),
         ("kd", "spherical", "chebyshev"), ("kd", "cartesian", "cityblock"), ("kd", "cartesian", "infinity")]
# histories use one name per metric (the cache compares names)
HIST = {"ball": [("spherical", "haversine"), ("cartesian", "euclidean"), ("cartesian", "manhattan"),
                 ("cartesian", "chebyshev")],
        "kd": [("cartesian", "minkowski"), ("spherical", "minkowski"), ("cartesian", "manhattan"),
               ("spherical", "chebyshev"), ("spherical", "manhattan")]}


# ---------------------------------------------------------------------------------------------
# observation helpers
# ---------------------------------------------------------------------------------------------


def get_tree(g, kind, elem, sys_, metric, recon=False):
    f = g.get_ball_tree if kind == "ball" else g.get_kd_tree
    return f(coordinates=elem, coordinate_system=sys_, distance_metric=metric, reconstruct=recon)


def elem_coords(g, elem, sys_):
    """the element coordinates as the grid reports them: [lon, lat] degrees or [x, y, z]"""
    p = {"nodes": "node", "face centers": "face", "edge centers": "edge"}[elem]
    if sys_ == "spherical":
        return np.stack([getattr(g, p + "_lon").values, getattr(g, p + "_lat").values], axis=-1).astype(float)
    return np.stack([getattr(g, p + "_x").values, getattr(g, p + "_y").values, getattr(g, p + "_z").values],
                    axis=-1).astype(float)


def user_query(sys_, metric, in_rad, lon, lat):
    """a geographic point in the documented input convention of the tree"""
    if sys_ == "cartesian":
        a, b = math.radians(lon), math.radians(lat)
        return [math.cos(b) * math.cos(a), math.cos(b) * math.sin(a), math.sin(b)]
    v = [lon, lat] if metric == "haversine" else [lat, lon]  # BallTree: (lon, lat); KDTree: (lat, lon)
    return [math.radians(x) for x in v] if in_rad else v


def enc_els(E):
    E = np.asarray(E, dtype=float)
    return " ".join([str(E.shape[0]), str(E.shape[1])] + [enc_float(x) for x in E.reshape(-1)])


def enc_cfg(kind, sys_, metric, in_rad):
    return f"{KIND[kind]} {SYS[sys_]} {METRIC[metric]} {1 if in_rad else 0}"


def mesh_input(m):
    return dict(faces=m.faces, xyz=m.xyz.tolist(), kind=m.kind)


def mesh_of(inp):
    return meshes.AMesh(inp["faces"], np.asarray(inp["xyz"], dtype=float), False, inp.get("kind", "replay"))


def call_query(tree, coords, k, in_rad, return_distance=True, **kw):
    return tree.query(coords, k=k, in_radians=in_rad, return_distance=return_distance, **kw)


def call_radius(tree, coords, r, in_rad, return_distance=True, **kw):
    return tree.query_radius(coords, r=r, in_radians=in_rad, return_distance=return_distance, **kw)


def canon_knn(d, ind, nq, k):
    ind = np.asarray(ind).reshape(nq, k)
    d = None if d is None else np.asarray(d, dtype=float).reshape(nq, k)
    return d, ind


def canon_radius(d, ind, nq, single):
    """-> per query row: (list of distances or None, list of indices)"""
    if single:
        inds = [np.asarray(ind).reshape(-1)]
        ds = None if d is None else [np.asarray([float(x) for x in d], dtype=float).reshape(-1)]
    else:
        inds = [np.asarray(x).reshape(-1) for x in ind]
        ds = None if d is None else [np.asarray(x, dtype=float).reshape(-1) for x in d]
    if len(inds) != nq or (ds is not None and len(ds) != nq):
        raise ValueError(f"query_radius returned {len(inds)} rows for {nq} query points")
    return ds, inds


# ---------------------------------------------------------------------------------------------
# judging one call
# ---------------------------------------------------------------------------------------------


def sig_cfg(kind, sys_, metric):
    return f"{kind}/{sys_}/{METRIC_N[METRIC[metric]]}"


def judge_knn_row(ctx, cfg, E, q, k, idx, ds, inp, what="query"):
    """Lean verdict on one query row.  Returns 'ok' | 'tie' | 'fail'."""
    kind, sys_, metric, in_rad = cfg
    out = ctx.driver.ask("C11.knn", enc_cfg(*cfg), k, enc_floats(q), enc_els(E), enc_ints(idx),
                         enc_floats(ds if ds is not None else []))
    t = common.Tok(out)
    if t.word() == "err":
        ctx.fail(f"C11/guard/{sig_cfg(kind, sys_, metric)}/{what}-accepted",
                 f"{what} was answered although the documented guard (k in 1..n, row width) rejects it", inp,
                 dict(indices=list(map(int, idx))), "raise", ["model_query_guard"])
        return "fail"
    tie, spec, b_len, b_range, b_nodup, b_sorted, b_min, b_dist = [t.int() for _ in range(8)]
    midx, mds, gap = t.ints(), t.floats(), t.float()
    spec_tol, illcond = t.int(), t.int()
    impl = dict(indices=[int(x) for x in idx], distances=None if ds is None else [float(x) for x in ds])
    model = dict(indices=midx, distances=mds, gap=gap)
    if tie:
        # near-ties among the first k+1 distances: judged by the specification up to 1e-9
        # (Props: knn_tol_profile — the answer has the brute-force distance profile up to 1e-9 at every
        # position; knn_spec_of_profile — no valid tie-breaking is rejected)
        if spec_tol and (b_dist or ds is None):
            ctx.hit("near-tie-judged-tolerantly")
            return "ok-tol"
        if illcond:
            ctx.hit("near-tie-dropped:ill-conditioned-antipode")
            return "tie"
        if spec_tol:
            ctx.fail(f"C11/dist-unit/{sig_cfg(kind, sys_, metric)}/in_radians={in_rad}",
                     f"{kind} tree ({sys_}, {metric}) reports distances that are not the documented-unit distances "
                     f"of the returned elements (row with near-ties)", inp, impl, model, ["unit_roundtrip"])
            return "fail"
        clauses = [n for n, b in (("len", b_len), ("range", b_range), ("nodup", b_nodup)) if not b] or ["sorted/minimal-up-to-1e-9"]
        ctx.fail(f"C11/knn/{sig_cfg(kind, sys_, metric)}/near-tie/{'+'.join(clauses)}",
                 f"{kind} tree ({sys_}, {metric}) k-nearest answer on a row with near-ties is not a valid k-nearest "
                 f"answer even up to 1e-9: {clauses}", inp, impl, model, ["knn_tol_profile"])
        return "fail"
    if not spec:
        clauses = [n for n, b in (("len", b_len), ("range", b_range), ("nodup", b_nodup), ("sorted", b_sorted),
                                  ("minimal", b_min)) if not b]
        ctx.fail(f"C11/knn/{sig_cfg(kind, sys_, metric)}/{'+'.join(clauses)}",
                 f"{kind} tree ({sys_}, {metric}) k-nearest answer violates the specification: {clauses}",
                 inp, impl, model, ["KnnSpec." + c for c in clauses])
        return "fail"
    if not b_dist:
        ctx.fail(f"C11/dist-unit/{sig_cfg(kind, sys_, metric)}/in_radians={in_rad}",
                 f"{kind} tree ({sys_}, {metric}) reports distances that are not the documented-unit distances "
                 f"of the returned elements", inp, impl, model, ["unit_roundtrip"])
        return "fail"
    if [int(x) for x in idx] != midx:
        ctx.mismatch("C11/knn-model-vs-impl", inp, impl, model)
    ctx.hit("knn-row-judged-ok")
    return "ok"


def judge_radius_row(ctx, cfg, E, q, r, idx, ds, inp):
    kind, sys_, metric, in_rad = cfg
    args = (enc_cfg(*cfg), enc_float(r), enc_floats(q), enc_els(E), enc_ints(idx), enc_floats(ds if ds is not None else []))
    t = common.Tok(ctx.driver.ask("C11.radius", 0, *args))
    if t.word() == "err":
        ctx.fail(f"C11/guard/{sig_cfg(kind, sys_, metric)}/radius-accepted",
                 "query_radius was answered although the documented guard (r >= 0, row width) rejects it", inp,
                 dict(indices=list(map(int, idx))), "raise", ["model_radius_guard"])
        return "fail"
    tie, spec, b_range, b_nodup, b_dist = [t.int() for _ in range(5)]
    midx, mds, rin = t.ints(), t.floats(), t.float()
    spec_tol = t.int()
    if tie:
        # an element within 1e-9 of the boundary: judged by the radius specification up to 1e-9
        # (Props: radius_tol_sandwich — everything within r-1e-9 returned, nothing beyond r+1e-9)
        if spec_tol and (b_dist or ds is None):
            ctx.hit("boundary-tie-judged-tolerantly")
            return "ok-tol"
        spec = spec_tol
    impl = dict(indices=[int(x) for x in idx], distances=None if ds is None else [float(x) for x in ds])
    model = dict(indices=midx, distances=mds, radius_in_tree_unit=rin, boundary_tie=bool(tie))
    if not spec:
        # does the answer match the as-is unit handling of the k-d tree?
        t2 = common.Tok(ctx.driver.ask("C11.radius", 1, *args))
        asis = t2.word() == "ok" and [t2.int() for _ in range(5)][1] == 1
        if metric == "haversine" and rin > math.pi and set(int(x) for x in idx) < set(midx):
            ctx.fail("C11/radius/ball/spherical/haversine/r>180deg-drops-elements",
                     "BallTree.query_radius (haversine) with r > 180 degrees silently drops elements: r is passed on to "
                     "sklearn whose reduced haversine distance sin^2(r/2) is not monotone beyond pi", inp, impl, model,
                     ["RadiusSpec.iff"])
        elif asis and kind == "kd" and sys_ == "spherical":
            ctx.fail("C11/radius-unit/kd/spherical/r-read-as-radians",
                     "KDTree.query_radius on spherical coordinates reads r in radians although coordinates go in and "
                     "distances come out in degrees (BallTree and the user guide: r in degrees)", inp, impl, model,
                     ["RadiusSpec.iff", "radius_unit_repaired"])
        else:
            ctx.fail(f"C11/radius/{sig_cfg(kind, sys_, metric)}/set",
                     f"{kind} tree ({sys_}, {metric}) radius answer is not the set of elements within r", inp, impl,
                     model, ["RadiusSpec"])
        return "fail"
    if not b_dist:
        ctx.fail(f"C11/dist-unit/{sig_cfg(kind, sys_, metric)}/radius/in_radians={in_rad}",
                 f"{kind} tree ({sys_}, {metric}) query_radius reports distances that are not the documented-unit "
                 f"distances of the returned elements", inp, impl, model, ["unit_roundtrip"])
        return "fail"
    if not tie and sorted(int(x) for x in idx) != midx:
        ctx.mismatch("C11/radius-model-vs-impl", inp, impl, model)
    ctx.hit("radius-row-judged-ok")
    return "ok"


# ---------------------------------------------------------------------------------------------
# query points
# ---------------------------------------------------------------------------------------------


def geo_points(rng, lonlat):
    """geographic query points: random, both sides of the antimeridian, poles, on/near elements"""
    pts = []
    for _ in range(2):
        z = rng.uniform(-1, 1)
        pts.append(("random", rng.uniform(-180, 180), math.degrees(math.asin(z))))
    pts.append(("antimeridian-east", 180 - rng.choice([1e-7, 0.01, 0.5, 3.0]), rng.uniform(-80, 80)))
    pts.append(("antimeridian-west", -180 + rng.choice([1e-7, 0.01, 0.5, 3.0]), rng.uniform(-80, 80)))
    pts.append(("lon=+180", 180.0, rng.uniform(-60, 60)))
    pts.append(("lon=-180", -180.0, rng.uniform(-60, 60)))
    pts.append(("north-pole", rng.uniform(-180, 180), 90.0))
    pts.append(("south-pole", rng.uniform(-180, 180), -90.0))
    pts.append(("near-pole", rng.uniform(-180, 180), rng.choice([89.999, -89.999, 88.0, -87.0])))
    if lonlat is not None and len(lonlat):
        i = rng.randrange(len(lonlat))
        pts.append(("on-element", float(lonlat[i][0]), float(lonlat[i][1])))
        j = int(np.argmax(np.abs(lonlat[:, 0])))
        lo, la = float(lonlat[j][0]), float(lonlat[j][1])
        pts.append(("across-antimeridian-from-element", -math.copysign(180 - rng.uniform(0.0, 2.0), lo), min(89.0, max(-89.0, la + rng.uniform(-1, 1)))))
        j = int(np.argmax(np.abs(lonlat[:, 1])))
        pts.append(("near-polar-element", float(lonlat[j][0]) + 180.0 - 360.0 * (float(lonlat[j][0]) > 0),
                    float(lonlat[j][1])))
    return pts


def pick_k(rng, n):
    return rng.choice([1, 1, min(2, n), min(3, n), n, max(1, n - 1), rng.randint(1, n)])


# ---------------------------------------------------------------------------------------------
# (A) query correctness on a fresh grid per configuration
# ---------------------------------------------------------------------------------------------


def queries_on(ctx, m, elem, combo, n_calls, big=False):
    import uxarray as ux

    rng = ctx.rng
    kind, sys_, metric = combo
    g = meshes.to_grid(m, ux)
    minp = mesh_input(m) if not big else dict(file=m.kind)
    base = dict(type="query", mesh=minp, elem=elem, tree=kind, coordinate_system=sys_, metric=metric)
    try:
        tree = get_tree(g, kind, elem, sys_, metric)
        E = elem_coords(g, elem, sys_)
        LL = elem_coords(g, elem, "spherical")
    except Exception as e:
        ctx.case(("build", m.key(), elem, combo))
        ctx.fail(f"C11/build/{sig_cfg(kind, sys_, metric)}/{type(e).__name__}",
                 f"get_{kind}_tree({elem}, {sys_}, {metric}) raises {type(e).__name__}: {e}", base)
        return
    n = len(E)
    # is the Cartesian picture consistent with lon/lat (then chord-nearest must be arc-nearest)?
    consistent = False
    if sys_ == "cartesian" and METRIC[metric] == 1:
        a, b = np.radians(LL[:, 0]), np.radians(LL[:, 1])
        X = np.stack([np.cos(b) * np.cos(a), np.cos(b) * np.sin(a), np.sin(b)], axis=-1)
        consistent = bool(np.allclose(X, E, atol=1e-9))
        ctx.hit("xyz-consistent-with-lonlat" if consistent else "xyz-inconsistent-with-lonlat")
    pts = geo_points(rng, LL)
    rng.shuffle(pts)
    for c in range(n_calls):
        in_rad = rng.random() < 0.4
        cfg = (kind, sys_, metric, in_rad)
        form = rng.choice(["single-1d", "single-2d", "batch", "batch"])
        nq = 1 if form.startswith("single") else rng.randint(2, 4)
        chosen = [pts[(c * 3 + i) % len(pts)] for i in range(nq)]
        qs = [user_query(sys_, metric, in_rad, lo, la) for _, lo, la in chosen]
        coords = qs[0] if form == "single-1d" else qs
        if rng.random() < 0.3:
            coords = np.asarray(coords, dtype=float)
        elif rng.random() < 0.2 and form == "single-1d":
            coords = tuple(coords)
        for tag, _, _ in chosen:
            ctx.hit("q:" + tag)
        ctx.hit("form:" + form)
        ctx.hit(f"cfg:{kind}/{sys_}/{metric}")
        ctx.hit("elem:" + elem)
        ctx.hit("unit:" + ("radians" if in_rad else "degrees"))
        op = rng.choice(["knn", "knn", "radius"])
        if c == 0 and sys_ == "spherical" and (metric == "haversine" or kind == "kd"):
            op = "radius"  # every spherical tree gets at least one radius query (unit of r)
        if op == "knn":
            k = pick_k(rng, n) if not big else rng.randint(1, 8)
            kw = {}
            if rng.random() < 0.15:
                kw = dict(breadth_first=True)
            elif rng.random() < 0.1 and nq > 1:
                kw = dict(dualtree=True)
            inp = dict(base, op="query", form=form, in_radians=in_rad, k=k, queries=qs, kwargs=kw,
                       points=[list(p) for p in chosen])
            ctx.case(("knn", m.key(), elem, combo, in_rad, form, k, tuple(map(tuple, qs))), nontrivial=n >= 3,
                     sample=inp if n <= 6 else None)
            ctx.hit("k=1" if k == 1 else "k=n" if k == n else "1<k<n")
            run_knn(ctx, tree, cfg, E, coords, qs, k, form, inp, kw, LL if consistent else None, chosen)
        else:
            # a radius between two consecutive distances of the first query row (documented unit of r:
            # degrees on spherical trees, chord on Cartesian ones)
            D = common.Tok(ctx.driver.ask("C11.dists", enc_cfg(*cfg), enc_floats(qs[0]), enc_els(E)))
            D.word()
            ds = sorted(D.floats())
            j = rng.randrange(len(ds))
            mid = 0.5 * (ds[j] + ds[j + 1]) if j + 1 < len(ds) else ds[j] * 1.5 + 0.1
            mid = rng.choice([mid, mid, mid, 0.0, ds[-1] * 2 + 1.0])
            if metric == "haversine" and (c == 0 or rng.random() < 0.15):
                mid = math.radians(rng.uniform(185.0, 350.0))  # beyond every great-circle distance: everything
                ctx.hit("r>180deg-haversine")
            r = math.degrees(mid) if sys_ == "spherical" else mid
            inp = dict(base, op="query_radius", form=form, in_radians=in_rad, r=r, queries=qs,
                       points=[list(p) for p in chosen])
            ctx.case(("radius", m.key(), elem, combo, in_rad, form, r, tuple(map(tuple, qs))), nontrivial=n >= 3,
                     sample=inp if n <= 6 else None)
            ctx.hit("r=0" if r == 0 else "r>all" if mid > ds[-1] else "r-between")
            run_radius(ctx, tree, cfg, E, coords, qs, r, form, inp)


def run_knn(ctx, tree, cfg, E, coords, qs, k, form, inp, kw=None, LL=None, chosen=None):
    kind, sys_, metric, in_rad = cfg
    nq = len(qs)
    try:
        d, ind = call_query(tree, coords, k, in_rad, True, **(kw or {}))
        d, ind = canon_knn(d, ind, nq, k)
    except Exception as e:
        ctx.fail(f"C11/raises/{sig_cfg(kind, sys_, metric)}/query/{type(e).__name__}",
                 f"query raises {type(e).__name__}: {e}", inp)
        return
    for i, q in enumerate(qs):
        res = judge_knn_row(ctx, cfg, E, q, k, ind[i], d[i], dict(inp, row=i))
        if res == "ok" and LL is not None and chosen is not None:
            # "hence also the great-circle nearest": judge the Cartesian answer by the haversine spec
            _, lo, la = chosen[i]
            out = ctx.driver.ask("C11.knn", enc_cfg("ball", "spherical", "haversine", False), k, enc_floats([lo, la]),
                                 enc_els(LL), enc_ints(ind[i]), enc_floats([]))
            t = common.Tok(out)
            if t.word() == "ok":
                tie, spec = t.int(), t.int()
                for _ in range(6):
                    t.int()
                t.ints(), t.floats(), t.float()
                spec_tol = t.int()
                if tie and spec_tol:
                    ctx.hit("chord-vs-arc:agree-up-to-1e-9")
                elif tie:
                    ctx.hit("chord-vs-arc:near-tie-dropped")
                elif not spec:
                    ctx.fail(f"C11/chord-vs-arc/{kind}", "the chord-nearest elements of a Cartesian tree are not the "
                             "great-circle-nearest ones", dict(inp, row=i), dict(indices=[int(x) for x in ind[i]]), None,
                             ["cartesian_knn_eq_haversine_knn"])
                else:
                    ctx.hit("chord-vs-arc:agree")
    # return_distance=False must name the same elements
    try:
        ind2 = call_query(tree, coords, k, in_rad, False, **(kw or {}))
        ind2 = np.asarray(ind2).reshape(nq, k)
        if not np.array_equal(ind2, ind):
            # only a finding when no tie is involved: judge the rows
            for i, q in enumerate(qs):
                judge_knn_row(ctx, cfg, E, q, k, ind2[i], None, dict(inp, row=i, return_distance=False))
        ctx.hit("return_distance=False")
    except Exception as e:
        ctx.fail(f"C11/raises/{sig_cfg(kind, sys_, metric)}/query-nodist/{type(e).__name__}",
                 f"query(return_distance=False) raises {type(e).__name__}: {e}", inp)


def run_radius(ctx, tree, cfg, E, coords, qs, r, form, inp):
    kind, sys_, metric, in_rad = cfg
    nq = len(qs)
    single = form.startswith("single")
    try:
        d, ind = call_radius(tree, coords, r, in_rad, True)
        ds, inds = canon_radius(d, ind, nq, single)
    except Exception as e:
        ctx.fail(f"C11/raises/{sig_cfg(kind, sys_, metric)}/query_radius/{type(e).__name__}",
                 f"query_radius raises {type(e).__name__}: {e}", inp)
        return
    verdicts = []
    for i, q in enumerate(qs):
        verdicts.append(judge_radius_row(ctx, cfg, E, q, r, inds[i], ds[i], dict(inp, row=i)))
    if "fail" in verdicts:
        return
    try:
        ind2 = call_radius(tree, coords, r, in_rad, False)
        _, inds2 = canon_radius(None, ind2, nq, single)
        cnt = np.asarray(tree.query_radius(coords, r=r, in_radians=in_rad, count_only=True)).reshape(-1)
        d3, ind3 = tree.query_radius(coords, r=r, in_radians=in_rad, return_distance=True, sort_results=True)
        ds3, inds3 = canon_radius(d3, ind3, nq, single)
    except Exception as e:
        ctx.fail(f"C11/raises/{sig_cfg(kind, sys_, metric)}/query_radius-variants/{type(e).__name__}",
                 f"query_radius variant raises {type(e).__name__}: {e}", inp)
        return
    for i in range(nq):
        if verdicts[i] != "ok":
            continue
        want = sorted(int(x) for x in inds[i])
        if sorted(int(x) for x in inds2[i]) != want or int(cnt[i]) != len(want) or sorted(int(x) for x in inds3[i]) != want:
            ctx.fail(f"C11/radius/{sig_cfg(kind, sys_, metric)}/variants-disagree",
                     "query_radius with return_distance=False / count_only / sort_results names other elements",
                     dict(inp, row=i), dict(with_distance=want, without=[int(x) for x in inds2[i]], count=int(cnt[i]),
                                            sorted=[int(x) for x in inds3[i]]))
        elif len(ds3[i]) > 1 and np.any(np.diff(ds3[i]) < -1e-12):
            ctx.fail(f"C11/radius/{sig_cfg(kind, sys_, metric)}/sort_results-unsorted",
                     "query_radius(sort_results=True) is not nearest first", dict(inp, row=i),
                     dict(distances=[float(x) for x in ds3[i]]))
        ctx.hit("radius-variants")


def guards(ctx, m, combo, elem):
    """k / r / row-width guards: what the model rejects the code must reject (and vice versa)"""
    import uxarray as ux

    kind, sys_, metric = combo
    g = meshes.to_grid(m, ux)
    tree = get_tree(g, kind, elem, sys_, metric)
    E = elem_coords(g, elem, sys_)
    n = len(E)
    good = user_query(sys_, metric, False, 12.0, 34.0)
    bad = user_query("cartesian" if sys_ == "spherical" else "spherical", metric, False, 12.0, 34.0)
    trials = [("k=0", good, dict(k=0)), ("k=n+1", good, dict(k=n + 1)), ("k=-1", good, dict(k=-1)), ("k=n", good, dict(k=n)),
              ("r<0", good, dict(r=-0.5)), ("r=0", good, dict(r=0.0)), ("row-width", bad, dict(k=1)),
              ("row-width", bad, dict(r=1.0))]
    for name, q, a in trials:
        inp = dict(type="guard", mesh=mesh_input(m), elem=elem, tree=kind, coordinate_system=sys_, metric=metric, trial=name,
                   query=q, args=a)
        ctx.case(("guard", m.key(), elem, combo, name, tuple(a.items())), nontrivial=True)
        ctx.hit("guard:" + name)
        cfg = (kind, sys_, metric, False)
        if "k" in a:
            model = ctx.driver.ask("C11.knn", enc_cfg(*cfg), max(a["k"], 0), enc_floats(q), enc_els(E), enc_ints([]), enc_floats([]))
            model_raises = model.startswith("err") or a["k"] < 0
            try:
                tree.query(q, k=a["k"])
                raised = None
            except Exception as e:
                raised = type(e).__name__
        else:
            model = ctx.driver.ask("C11.radius", 0, enc_cfg(*cfg), enc_float(a["r"]), enc_floats(q), enc_els(E), enc_ints([]), enc_floats([]))
            model_raises = model.startswith("err")
            try:
                tree.query_radius(q, r=a["r"])
                raised = None
            except Exception as e:
                raised = type(e).__name__
        if model_raises and raised is None:
            ctx.fail(f"C11/guard/{sig_cfg(kind, sys_, metric)}/{name}-accepted",
                     f"{name}: the call is answered although the documented guard rejects it", inp, "answered", "raise",
                     ["model_query_guard" if "k" in a else "model_radius_guard"])
        elif not model_raises and raised is not None:
            ctx.fail(f"C11/guard/{sig_cfg(kind, sys_, metric)}/{name}-rejected/{raised}",
                     f"{name}: a valid call raises {raised}", inp, raised, "answer")


# ---------------------------------------------------------------------------------------------
# (B) request histories on one grid: the tree handed back reflects the request
# ---------------------------------------------------------------------------------------------


def enc_req(r):
    kind, elem, sys_, metric, recon = r
    return f"{KIND[kind]} {ELEM[elem]} {SYS[sys_]} {METRIC[metric]} {1 if recon else 0}"


def dec_trees(out):
    t = common.Tok(out)
    res = []
    while not t.done():
        refl = t.int()
        coords, sys_, metric, recon = t.int(), t.int(), t.int(), t.int()
        slots = []
        for _ in range(3):
            occ, e, s, mt = t.int(), t.int(), t.int(), t.int()
            slots.append((e, s, mt) if occ else None)
        count = t.int()
        res.append(dict(reflects=refl, coords=coords, sys=sys_, metric=metric, recon=recon, slots=slots, count=count))
    return res


COORD_VARS = {
    ("nodes", "spherical"): ["node_lon", "node_lat"], ("nodes", "cartesian"): ["node_x", "node_y", "node_z"],
    ("face centers", "spherical"): ["face_lon", "face_lat"], ("face centers", "cartesian"): ["face_x", "face_y", "face_z"],
    ("edge centers", "spherical"): ["edge_lon", "edge_lat"], ("edge centers", "cartesian"): ["edge_x", "edge_y", "edge_z"],
}


def source_grid(m, source, ux):
    """-> (grid, names of the coordinate variables the source supplied).
    source None: lon/lat + connectivity through Grid.from_topology (unit sphere).
    source {"R": R, "supplied": bool}: Cartesian-only float64 face vertices at radius R through
    ux.open_grid(vertices, latlon=False); with `supplied` the face and edge centres are stored at radius R
    too through the public coordinate setters (no lon/lat anywhere in the source)."""
    import xarray as xr

    if not source:
        return meshes.to_grid(m, ux), ["node_lon", "node_lat"]
    R = float(source["R"])
    verts = [(m.xyz[f] * R).astype(np.float64).tolist() for f in m.faces]
    g = ux.open_grid(verts, latlon=False)
    names = ["node_x", "node_y", "node_z"]
    if source.get("supplied"):
        P = np.stack([g.node_x.values, g.node_y.values, g.node_z.values], axis=-1)
        fc = np.array([P[[v for v in row if v >= 0]].mean(axis=0) for row in g.face_node_connectivity.values])
        fc = fc / np.linalg.norm(fc, axis=1, keepdims=True) * R
        en = g.edge_node_connectivity.values
        ec = 0.5 * (P[en[:, 0]] + P[en[:, 1]])
        ec = ec / np.linalg.norm(ec, axis=1, keepdims=True) * R
        for j, ax in enumerate("xyz"):
            setattr(g, "face_" + ax, xr.DataArray(fc[:, j].copy(), dims=["n_face"]))
            setattr(g, "edge_" + ax, xr.DataArray(ec[:, j].copy(), dims=["n_edge"]))
        names += ["face_x", "face_y", "face_z", "edge_x", "edge_y", "edge_z"]
    return g, names


def history(ctx, m, reqs, source=None):
    import uxarray as ux

    rng = ctx.rng
    g, known = source_grid(m, source, ux)
    known = list(known)
    qscale = float(source["R"]) if source else 1.0
    hist_enc = [list(r) for r in reqs]
    sizes = (int(g.n_node), int(g.n_face), int(g.n_edge))
    zs = " ".join(map(str, sizes))
    rep = dec_trees(ctx.driver.ask("C11.cache", zs, 0, len(reqs), *[enc_req(r) for r in reqs]))
    asis = dec_trees(ctx.driver.ask("C11.cache", zs, 1, len(reqs), *[enc_req(r) for r in reqs]))
    ctx.case(("history", m.key(), tuple(reqs), str(source)), nontrivial=len(reqs) >= 2,
             sample=dict(history=hist_enc) if len(reqs) == 2 else None)
    if source:
        ctx.hit(f"source:cartesian-R={source['R']}{'+supplied-centres' if source.get('supplied') else ''}")
    ctx.hit(f"history-len={len(reqs)}")
    if any(not a["reflects"] for a in asis):
        ctx.hit("history-where-asis-model-is-stale")
    for step, r in enumerate(reqs):
        kind, elem, sys_, metric, recon = r
        inp = dict(type="history", mesh=mesh_input(m), history=hist_enc[: step + 1])
        if source:
            inp["source"] = dict(source)
        # a tree request is a READ: every coordinate variable the grid has reported so far (or the source
        # supplied) must be reported unchanged afterwards
        before = {v: np.array(getattr(g, v).values, dtype=float, copy=True) for v in known}
        try:
            tree = get_tree(g, kind, elem, sys_, metric, recon)
        except Exception as e:
            ctx.fail(f"C11/cache/{kind}/request-raises/{type(e).__name__}",
                     f"request {step} of the history raises {type(e).__name__}: {e}", inp)
            return
        for v in known:
            now = np.asarray(getattr(g, v).values, dtype=float)
            if now.shape != before[v].shape or not np.array_equal(now, before[v], equal_nan=True):
                dev = float(np.max(np.abs(now - before[v]))) if now.shape == before[v].shape else None
                ctx.fail(f"C11/request-changed-coordinates/{v}",
                         f"get_{kind}_tree({elem}, {sys_}, {metric}) changed the grid's reported {v} (max deviation {dev}): a "
                         f"tree request is a read; trees cached earlier no longer describe the grid's current coordinates",
                         inp, dict(before=before[v][:6].tolist(), now=now[:6].tolist()), None, ["tree_reflects_request"])
        ctx.hit("coordinates-unchanged-checked", len(known))
        for v in COORD_VARS[(elem, sys_)]:
            if v not in known:
                known.append(v)
        obs = dict(coordinates=tree.coordinates, coordinate_system=tree.coordinate_system,
                   distance_metric=tree.distance_metric)
        oc, os_, om = ELEM.get(obs["coordinates"], 9), SYS.get(obs["coordinate_system"], 9), METRIC.get(obs["distance_metric"], 9)
        diff = [n for n, a, b in (("elem", oc, ELEM[elem]), ("sys", os_, SYS[sys_]), ("metric", om, METRIC[metric])) if a != b]
        # behaviour of the wrapper under the REQUESTED convention (k-nearest + radius query at EVERY step, Lean-judged)
        built = (oc, os_, om)
        beh = "skipped"
        n_req = sizes[ELEM[elem]]
        cnt = n_req
        if not diff:
            beh = behaviour(ctx, g, tree, r, inp, qscale)
            if beh == "fail":
                built = ((ELEM[elem] + 1) % 3, os_, om)  # behaves like some other tree
            # the k guard after EVERY request: accepted iff 1 <= k <= n of the kind requested in THIS call
            if not guard_step(ctx, g, tree, r, inp, zs, sizes, reqs[: step + 1], qscale):
                c = getattr(tree, "_n_elements", None)
                cnt = int(c) if isinstance(c, (int, np.integer)) and int(c) != n_req else n_req + 1
        refl = ctx.driver.ask("C11.reflects", zs, enc_req(r), oc, os_, om, *built, cnt)
        ctx.hit("handback:" + ("reflects" if refl == "1" else "stale"))
        if refl != "1":
            if diff:
                matches_asis = (oc, os_, om) == (asis[step]["coords"], asis[step]["sys"], asis[step]["metric"])
                ctx.fail(f"C11/cache/{kind}/stale-tree/{'+'.join(diff)}-ignored",
                         f"get_{kind}_tree hands back a tree whose {' and '.join(diff)} differ from the request "
                         f"(cached tree reused{'; matches the as-is cache model' if matches_asis else ''})",
                         inp, obs, dict(repaired=rep[step], as_is=asis[step]), ["tree_reflects_request"])
            # behaviour / guard failure already recorded by `behaviour` / `guard_step`
            return
        # correspondence with the repaired state machine: slot occupancy (when observable)
        slots = [getattr(tree, a, "n/a") for a in ("_tree_from_nodes", "_tree_from_face_centers", "_tree_from_edge_centers")]
        if "n/a" in slots:
            ctx.hit("slots-unobservable")
        else:
            occ = [s is not None for s in slots]
            if occ != [s is not None for s in rep[step]["slots"]]:
                ctx.mismatch("C11/cache-slots", inp, dict(occupied=occ), rep[step])


def k_class(k, n):
    return "k<1" if k < 1 else "k=1" if k == 1 else "k=n" if k == n else "1<k<n" if k < n else "k>n"


def scaled(q, sys_, qscale, rng):
    """Cartesian query points at the grid's own radius (half of the time) or on the unit sphere"""
    if sys_ == "cartesian" and qscale != 1.0 and rng.random() < 0.5:
        return [x * qscale for x in q]
    return q


def guard_step(ctx, g, tree, r, inp, zs, sizes, hist, qscale=1.0):
    """`query` on the wrapper just handed back, for k below, inside and above 1..n of the REQUESTED
    kind (incl. k = n, a random k, and the sizes of the other element kinds ± 1, which is where a
    stale element count shows).  The model's verdict (`handback_guard`, evaluated by the Lean driver
    on the history) must agree with accepted / refused; accepted admissible answers for k = n and the
    random k are judged against brute force.  Returns False when the guard misbehaves."""
    kind, elem, sys_, metric, recon = r
    rng = ctx.rng
    E = elem_coords(g, elem, sys_)
    n = len(E)
    others = [s for s in sizes if s != n]
    ks = [0, 1, n, n + 1, rng.randint(1, n)]
    for o in others:
        ks += [o, o + 1]
    ks = sorted(set(k for k in ks if k >= 0))
    ok = True
    judged = {n, ks[rng.randrange(len(ks))]} | {k for k in ks if 1 <= k <= n and k > min(sizes)}
    for k in ks:
        in_rad = rng.random() < 0.3
        lo, la = rng.uniform(-180, 180), math.degrees(math.asin(rng.uniform(-1, 1)))
        q = scaled(user_query(sys_, metric, in_rad, lo, la), sys_, qscale, rng)
        want = ctx.driver.ask("C11.guard", zs, 0, len(hist), *[enc_req(x) for x in hist], k) == "1"
        cls = k_class(k, n)
        qinp = dict(inp, op="query", k=k, in_radians=in_rad, queries=[q], form="single-1d")
        try:
            d, ind = call_query(tree, q, k, in_rad, True)
            raised = None
        except Exception as e:
            raised = f"{type(e).__name__}: {e}"
        ctx.hit(f"handback-guard:{cls}:{'accepted' if raised is None else 'refused'}")
        if want and raised is not None:
            ctx.fail(f"C11/guard/{kind}/after-kind-switch/{cls}-refused",
                     f"after this request history query(k={k}) on the handed-back {kind} tree is refused ({raised[:120]}) "
                     f"although 1 <= k <= n = {n} of the requested kind '{elem}' (sizes node/face/edge = {sizes})",
                     qinp, dict(raised=raised, n_elements=getattr(tree, "_n_elements", "n/a")), dict(accepts=True, n=n),
                     ["handback_guard", "model_query_guard"])
            ok = False
        elif not want and raised is None:
            ctx.fail(f"C11/guard/{kind}/after-kind-switch/{cls}-accepted",
                     f"after this request history query(k={k}) on the handed-back {kind} tree is answered although k is "
                     f"outside 1..n = {n} of the requested kind '{elem}' (sizes node/face/edge = {sizes})",
                     qinp, dict(answered=True, n_elements=getattr(tree, "_n_elements", "n/a")), dict(accepts=False, n=n),
                     ["handback_guard", "model_query_guard"])
            ok = False
        elif want and k in judged:
            n0 = len(ctx.failures)
            try:
                d, ind = canon_knn(d, ind, 1, k)
                res = judge_knn_row(ctx, (kind, sys_, metric, in_rad), E, q, k, ind[0], d[0], qinp)
            except Exception as e:
                ctx.fail(f"C11/cache/{kind}/handback-answers-wrongly/shape", f"query(k={k}) answer has the wrong shape: {e}", qinp)
                res = "fail"
            ctx.hit(f"handback-knn[{cls}]:{res}")
            for f in ctx.failures[n0:]:
                if not f["signature"].startswith("C11/cache/"):
                    f["signature"] = f"C11/cache/{kind}/handback-answers-wrongly/" + f["signature"].split("/")[1]
                    f["clauses"] = list(f["clauses"]) + ["tree_reflects_request"]
            if res == "fail":
                ok = False
    return ok


def behaviour(ctx, g, tree, r, inp, qscale=1.0):
    """One k-nearest AND one radius query in the convention of request `r` on the wrapper just handed
    back, both judged by the Lean spec against brute force over the element kind requested in THIS
    call (so a wrapper that claims the kind but still answers from another kind's sklearn tree —
    e.g. a stale resolved-tree reference after the `coordinates` setter — fails here).
    Failures are re-labelled with a history-specific signature."""
    kind, elem, sys_, metric, recon = r
    rng = ctx.rng
    n0 = len(ctx.failures)
    try:
        E = elem_coords(g, elem, sys_)
    except Exception as e:
        ctx.fail(f"C11/build/{sig_cfg(kind, sys_, metric)}/{type(e).__name__}", f"coordinates raise {e}", inp)
        return "fail"
    n = len(E)
    res = "tie"
    for attempt in range(3):
        lo, la = rng.uniform(-180, 180), math.degrees(math.asin(rng.uniform(-1, 1)))
        in_rad = rng.random() < 0.3
        q = scaled(user_query(sys_, metric, in_rad, lo, la), sys_, qscale, rng)
        k = min(n, rng.choice([1, 2, 3, 3]))
        cfg = (kind, sys_, metric, in_rad)
        qinp = dict(inp, op="query", k=k, in_radians=in_rad, queries=[q])
        try:
            d, ind = call_query(tree, q, k, in_rad, True)
            d, ind = canon_knn(d, ind, 1, k)
        except Exception as e:
            ctx.fail(f"C11/cache/{kind}/query-on-handback-raises/{type(e).__name__}",
                     f"a query in the requested convention on the handed-back tree raises {type(e).__name__}: {e}", qinp)
            return "fail"
        res = judge_knn_row(ctx, cfg, E, q, k, ind[0], d[0], qinp, what="query")
        ctx.hit("handback-knn:" + res)
        if res != "tie":
            break
    res2 = "tie"
    if res != "fail":
        for attempt in range(3):
            lo, la = rng.uniform(-180, 180), math.degrees(math.asin(rng.uniform(-1, 1)))
            in_rad = rng.random() < 0.3
            q = scaled(user_query(sys_, metric, in_rad, lo, la), sys_, qscale, rng)
            cfg = (kind, sys_, metric, in_rad)
            D = common.Tok(ctx.driver.ask("C11.dists", enc_cfg(*cfg), enc_floats(q), enc_els(E)))
            D.word()
            ds = sorted(D.floats())
            j = rng.randrange(max(1, min(len(ds), 6)))  # a handful of elements inside
            mid = 0.5 * (ds[j] + ds[j + 1]) if j + 1 < len(ds) else ds[j] * 1.5 + 0.1
            rr = math.degrees(mid) if sys_ == "spherical" else mid
            qinp = dict(inp, op="query_radius", r=rr, in_radians=in_rad, queries=[q], form="single-1d")
            try:
                dd, ii = call_radius(tree, q, rr, in_rad, True)
                dsr, inds = canon_radius(dd, ii, 1, True)
            except Exception as e:
                ctx.fail(f"C11/cache/{kind}/query_radius-on-handback-raises/{type(e).__name__}",
                         f"a radius query in the requested convention on the handed-back tree raises {type(e).__name__}: {e}",
                         qinp)
                res2 = "fail"
                break
            res2 = judge_radius_row(ctx, cfg, E, q, rr, inds[0], dsr[0], qinp)
            ctx.hit("handback-radius:" + res2)
            if res2 != "tie":
                break
    # failures found while walking a history get a history-specific signature
    for f in ctx.failures[n0:]:
        if not f["signature"].startswith("C11/cache/"):
            f["signature"] = f"C11/cache/{kind}/handback-answers-wrongly/" + f["signature"].split("/")[1]
            f["what"] = ("after this request history the wrapper claims the requested kind/system/metric but its answer is "
                         "not brute force over the elements requested in the last call: " + f["what"])
            f["clauses"] = list(f["clauses"]) + ["tree_reflects_request"]
    if "fail" in (res, res2):
        return "fail"
    return "ok" if "ok" in (res, res2) else "tie"


def radius_histories(ctx):
    """Cartesian-only float64 sources at radius R != 1 (face vertices through ux.open_grid(latlon=False); with and
    without face / edge centres stored at radius R): Cartesian tree -> FIRST spherical tree of that kind (derives
    lon/lat from the stored xyz) -> the Cartesian tree again / other kinds.  After every request the brute force runs
    over the coordinates the grid reports NOW, and everything reported before must be reported unchanged."""
    rng = ctx.rng
    E3 = list(ELEM)
    ms = [meshes.hull(rng.choice([8, 10, 12]), rng), meshes.cube_sphere(1).rotated(meshes.random_rotation(rng)),
          meshes.icosa().rotated(meshes.random_rotation(rng))]
    for R in (0.5, 2.5, 6371.229):
        for supplied in (False, True):
            src = dict(R=R, supplied=supplied)
            for e in E3:
                others = [x for x in E3 if x != e]
                hs = [[("kd", e, "cartesian", "minkowski", False), ("ball", e, "spherical", "haversine", False),
                       ("kd", e, "cartesian", "minkowski", False)]]
                if ctx.thorough or ctx.escalate or rng.random() < 0.5:
                    hs.append([("ball", e, "cartesian", "euclidean", False), ("kd", e, "spherical", "minkowski", False),
                               ("ball", e, "cartesian", "euclidean", False), ("ball", others[0], "cartesian", "euclidean", False),
                               ("kd", others[0], "spherical", "minkowski", False), ("ball", others[0], "cartesian", "euclidean", False),
                               ("ball", e, "cartesian", "euclidean", False)])
                if ctx.thorough or ctx.escalate or rng.random() < 0.5:
                    hs.append([("kd", e, "cartesian", "manhattan", False), ("kd", others[1], "cartesian", "manhattan", False),
                               ("ball", others[1], "spherical", "haversine", False), ("ball", e, "spherical", "haversine", False),
                               ("kd", e, "cartesian", "manhattan", False), ("kd", others[1], "cartesian", "manhattan", False)])
                for h in hs:
                    ctx.hit("radius-history")
                    history(ctx, rng.choice(ms), h, src)


def kind_switch_histories(ctx, hm):
    """element-KIND switches on one cached wrapper: same coordinate system and metric throughout, no
    reconstruct, a k-nearest and a radius query after EVERY request.  A,B,A and A,B,C,A patterns for
    every (tree, system, metric) of HIST (all of them in every tier) + longer random walks."""
    import itertools

    rng = ctx.rng
    E3 = list(ELEM)
    for kind in ("ball", "kd"):
        for (s, mt) in HIST[kind]:
            pats = [[a, b, a] for a, b in itertools.permutations(E3, 2)]
            pats += [[a, b, c, a] for a, b, c in itertools.permutations(E3, 3)]
            for _ in range(ctx.n(2, 12)):
                L = rng.randint(4, 8)
                w = [rng.choice(E3)]
                while len(w) < L:
                    w.append(rng.choice([e for e in E3 if e != w[-1]]))
                pats.append(w)
            for pat in pats:
                ctx.hit("kind-switch:" + ("ABA" if len(pat) == 3 else "ABCA" if len(pat) == 4 and pat[0] == pat[3] and len(set(pat)) == 3 else "walk"))
                history(ctx, rng.choice(hm), [(kind, e, s, mt, False) for e in pat])


def all_reqs(kind):
    return [(kind, e, s, mt, False) for e in ELEM for (s, mt) in HIST[kind]]


# ---------------------------------------------------------------------------------------------


def special_meshes(rng):
    out = [
        meshes.patch(3, 2, lon0=168.0, lat0=-10.0, dlon=8.0, dlat=7.0),   # straddles the antimeridian
        meshes.patch(2, 2, lon0=-176.0, lat0=72.0, dlon=-9.0, dlat=8.0),  # high latitudes, crosses ±180
        meshes.bipyramid(5, lon0=rng.uniform(-180, 180)),                # nodes exactly at both poles
        meshes.fan(6, lon0=179.0, lat0=84.0, r=9.0),                     # ring around a near-polar node at the antimeridian
        meshes.hull(rng.choice([9, 14, 22]), rng),
    ]
    return out


def run(ctx):
    rng = ctx.rng
    ctx.rule = ("meshes: harness/meshes.zoo (random rotation / renumbering) + antimeridian / polar specials; per (mesh, element kind) "
                "a fresh grid per (tree, coordinate system, metric); query points random / both sides of ±180 / lon=±180 / poles / "
                "on and across from elements; single 1-D, single 2-D, batched; degrees / radians; k in {1,2,3,n-1,n,random}; r "
                "between consecutive distances, 0, beyond all; guards; histories = ordered pairs (quick: sample, thorough: all) and "
                "sampled triples of differently parameterised requests on one grid, incl. reconstruct=True.  distinct = distinct "
                "(mesh, elem, cfg, unit, form, k|r, query rows) or history; non-trivial = >= 3 elements / >= 2 requests")
    ctx.assumptions = [
        "sklearn BallTree/KDTree are an external parameter of the model, assumed to return what brute force returns; validated "
        "case by case (the Lean spec is evaluated on the implementation's output)",
        "element coordinates are taken as the grid reports them (their correctness is C04); rows with near-ties (gap < 1e-9) are judged by the specification up to 1e-9 (knn_tol_profile, radius_tol_sandwich), "
        "only haversine near-ties within 1e-6 of the antipode that fail it are dropped",
        "Float execution of the model (libm sin/cos/asin/sqrt) vs the theorems over R: rounding is modelled, not verified; "
        "reported distances are compared with relative tolerance 1e-7",
        "documented units: BallTree docstring (lon, lat; r in degrees), KDTree docstring (lat, lon), user guide "
        "'for spherical coordinates the radius is in units of degrees ... query_radius() work identically to the BallTree'",
    ]
    # minimised past failures first
    import json

    for f in sorted((common.CORPUS / "C11").glob("*.json")):
        j = json.loads(f.read_text())
        replay_input(ctx, j["input"], j.get("signature"))
        ctx.hit("corpus")
    sp, zoo = special_meshes(rng), meshes.zoo(rng, big=False)
    ms = sp + zoo
    if ctx.thorough or ctx.escalate:
        ms += special_meshes(rng) + meshes.zoo(rng, big=False)
    if not ctx.thorough and not ctx.escalate:
        rng.shuffle(zoo)
        ms = sp + zoo[:8]
    elems = list(ELEM)
    for m in ms:
        for elem in elems:
            combos = list(MAIN)
            extra = list(EXTRA)
            rng.shuffle(extra)
            combos += extra[: ctx.n(1, 4)]
            if not ctx.thorough and not ctx.escalate:
                rng.shuffle(combos)
                combos = combos[:3]
                # every quick run exercises the spherical k-d tree and the haversine ball tree on each mesh
                for c in (MAIN[3], MAIN[0]):
                    if c not in combos and elem == elems[ms.index(m) % 3]:
                        combos.append(c)
            for combo in combos:
                queries_on(ctx, m, elem, combo, ctx.n(4, 6))
    for m in ms[:3]:
        for combo in MAIN + EXTRA[:2]:
            guards(ctx, m, combo, rng.choice(elems))
    # histories
    hm = [special_meshes(rng)[0], meshes.hull(10, rng), meshes.prism(5)]
    pairs = []
    for kind in ("ball", "kd"):
        R = all_reqs(kind)
        pairs += [(a, b) for a in R for b in R]
    rng.shuffle(pairs)
    for a, b in pairs[: ctx.n(140, len(pairs))]:
        history(ctx, rng.choice(hm), [a, b])
    kind_switch_histories(ctx, hm)
    radius_histories(ctx)
    allr = all_reqs("ball") + all_reqs("kd")
    for _ in range(ctx.n(40, 400)):
        L = rng.choice([3, 3, 4, 5])
        reqs = [rng.choice(allr) for _ in range(L)]
        reqs = [(k, e, s, mt, rng.random() < 0.15) for (k, e, s, mt, _) in reqs]
        history(ctx, rng.choice(hm), reqs)
    if ctx.thorough or ctx.escalate:
        big_file(ctx)


def big_file(ctx):
    """one real sample grid (many elements, small k)"""
    import uxarray as ux

    p = common.REPO / "test" / "meshfiles" / "ugrid" / "outCSne30" / "outCSne30.ug"
    if not p.exists():
        p = common.Path("/repo/test/meshfiles/ugrid/outCSne30/outCSne30.ug")
    if not p.exists():
        ctx.notes.append("outCSne30.ug not found: big-grid cases skipped")
        return

    class FileMesh:
        kind = "file:outCSne30.ug"

        def key(self):
            return self.kind

    fm = FileMesh()
    orig = meshes.to_grid
    try:
        meshes.to_grid = lambda m, ux_, **kw: ux.open_grid(str(p)) if m is fm else orig(m, ux_, **kw)
        for elem in ELEM:
            for combo in MAIN:
                queries_on(ctx, fm, elem, combo, 2, big=True)
                ctx.hit("big-grid-file:outCSne30")
    finally:
        meshes.to_grid = orig


def replay(ctx, rp):
    ctx.rule = "replay of a stored input"
    replay_input(ctx, rp["input"], rp.get("signature"))


def replay_input(ctx, inp, signature=None):
    import uxarray as ux

    if "file" in inp.get("mesh", {}):
        ctx.notes.append("replay of a file-based case: re-run the thorough tier")
        big_file(ctx)
        return
    m = mesh_of(inp["mesh"])
    ty = inp.get("type")
    if ty == "history":
        history(ctx, m, [tuple(r) for r in inp["history"]], inp.get("source"))
        return
    if ty == "guard":
        guards(ctx, m, (inp["tree"], inp["coordinate_system"], inp["metric"]), inp["elem"])
        return
    kind, sys_, metric, elem = inp["tree"], inp["coordinate_system"], inp["metric"], inp["elem"]
    g = meshes.to_grid(m, ux)
    tree = get_tree(g, kind, elem, sys_, metric)
    E = elem_coords(g, elem, sys_)
    cfg = (kind, sys_, metric, bool(inp["in_radians"]))
    qs = inp["queries"]
    form = inp.get("form", "batch")
    coords = qs[0] if form == "single-1d" else qs
    ctx.case(("replay", signature, str(inp.get("op")), str(inp.get("queries"))), nontrivial=True, sample=inp)
    if inp["op"] == "query":
        run_knn(ctx, tree, cfg, E, coords, qs, int(inp["k"]), form, inp, inp.get("kwargs") or {})
    else:
        run_radius(ctx, tree, cfg, E, coords, qs, float(inp["r"]), form, inp)
