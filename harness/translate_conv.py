"""conventions/ugrid.py (+ the Exodus element-type table) -> lean/UxVerif/Gen/Conventions.lean  (property C07)

The dictionaries are read from the imported module of the tree under test (never parsed from the
source text), so a re-layout is harmless and a changed name / key / dimension is not.  Emitted:

* ``BASE_GRID_TOPOLOGY_ATTRS``      string-valued entries, value split on blanks (the names it mentions)
* ``BASE_GRID_TOPOLOGY_NONSTR``     the remaining entries as ``(key, repr)``
* ``CONNECTIVITY_NAMES``, ``UGRID_COMPLIANT_CONNECTIVITY_NAMES``, ``DIM_NAMES``, the coordinate-name lists
* ``VAR_DIMS``                       variable -> dims, from CONNECTIVITY / SPHERICAL_COORDS / CARTESIAN_COORDS / N_NODES_PER_FACE
* ``VAR_ATTRS``                      variable -> [(attribute key, kind)], kind: 0 str, 1 number, 2 numeric array, 3 bool, 4 other
* ``VAR_START_INDEX``                connectivity variable -> its conventional ``start_index`` attribute
* ``EXODUS_ELEMENT_SIZES``           the sizes k in 1..MAX_ELEM for which ``_get_element_type(k)`` returns a name
* ``NAMES``                          every name above + the literals the encoders use: the table through which names cross
                                     the integer-only line protocol (harness and driver index the same list)

Props/C07.lean re-proves, against whatever this file contains today, that the template mentions only
what every grid has, that every connectivity name carries its conventional dimensions, etc.
"""

from __future__ import annotations

from . import common, translate

MAX_ELEM = 16
GENERIC_PROBES = [17, 18, 25, 64, 257, 1000]

# literals of `_encode_ugrid` / the encoders / the derived quantities that are not in the dictionaries
EXTRA_NAMES = [
    "grid_topology", "edge_dimension", "face_coordinates", "edge_coordinates", "node_coordinates",
    "face_dimension", "node_dimension", "cf_role", "topology_dimension", "mesh_topology", "long_name",
    "n_nodes_per_face", "face_areas", "bounds", "edge_node_distances", "edge_face_distances", "face_jacobian",
    "Two", "inverse_indices", "fill_value_mask", "latitude_intervalsIndex", "latitude_intervals_name_map",
    "_FillValue", "start_index", "long name", "standard_name", "units",
    "dtype", "missing_value", "scale_factor", "add_offset", "calendar", "zlib", "source", "chunksizes", "original_shape",
]


def attr_kind(v):
    """0 str, 1 number, 2 numeric array, 3 bool / bool array, 4 anything else (mirrors Encode.AttrKind)"""
    import numbers

    import numpy as np

    if isinstance(v, (bool, np.bool_)):
        return 3
    if isinstance(v, (str, bytes)):
        return 0
    if isinstance(v, (numbers.Number, np.number)):
        return 1
    if isinstance(v, (np.ndarray, list, tuple)):
        k = np.asarray(v).dtype.kind
        if k in "iuf":
            return 2
        if k in "SU":
            return 0
        if k == "b":
            return 3
    return 4


def read_conventions():
    common.use_repo()
    import uxarray.conventions.ugrid as U

    notes = []
    base_str, base_non = [], []
    for k, v in U.BASE_GRID_TOPOLOGY_ATTRS.items():
        if isinstance(v, str):
            base_str.append((str(k), v.split()))
        else:
            base_non.append((str(k), repr(v)))
    var_dims, var_attrs = [], []
    for table in ("CONNECTIVITY", "SPHERICAL_COORDS", "CARTESIAN_COORDS"):
        d = getattr(U, table, None)
        if d is None:
            notes.append(f"conventions.ugrid.{table} missing")
            continue
        for name, e in d.items():
            var_dims.append((str(name), [str(x) for x in e["dims"]]))
            var_attrs.append((str(name), [(str(k), attr_kind(v)) for k, v in e["attrs"].items()]))
    start_index = []
    for name, e in getattr(U, "CONNECTIVITY", {}).items():
        if "start_index" in e["attrs"]:
            start_index.append((str(name), int(e["attrs"]["start_index"])))
    if hasattr(U, "N_NODES_PER_FACE_DIMS"):
        var_dims.append(("n_nodes_per_face", [str(x) for x in U.N_NODES_PER_FACE_DIMS]))
        var_attrs.append(("n_nodes_per_face", [(str(k), attr_kind(v)) for k, v in U.N_NODES_PER_FACE_ATTRS.items()]))
    lists = {}
    for nm in ("CONNECTIVITY_NAMES", "UGRID_COMPLIANT_CONNECTIVITY_NAMES", "DIM_NAMES", "NODE_COORDINATES",
               "EDGE_COORDINATES", "FACE_COORDINATES", "CARTESIAN_NODE_COORDINATES", "CARTESIAN_EDGE_COORDINATES",
               "CARTESIAN_FACE_COORDINATES", "SPHERICAL_COORD_NAMES", "CARTESIAN_COORD_NAMES"):
        v = getattr(U, nm, None)
        if v is None:
            notes.append(f"conventions.ugrid.{nm} missing")
            v = []
        lists[nm] = [str(x) for x in v]
    elem, generic_from = [], None
    try:
        from uxarray.io._exodus import _get_element_type

        def named(k):
            try:
                return str(_get_element_type(k))
            except (KeyError, IndexError, ValueError):
                return None

        for k in range(1, MAX_ELEM + 1):
            if named(k) is not None:
                elem.append((k, named(k)))
        # is there a rule for sizes beyond the table?  probed far beyond it; the smallest size from which
        # EVERY probed size has a name (None: some large size has none)
        if all(named(k) is not None for k in GENERIC_PROBES):
            k0 = MAX_ELEM + 1
            while k0 > 1 and named(k0 - 1) is not None:
                k0 -= 1
            generic_from = k0
    except Exception as e:  # noqa: BLE001
        notes.append(f"_get_element_type: {type(e).__name__}: {e}")
    return dict(base_str=base_str, base_non=base_non, var_dims=var_dims, var_attrs=var_attrs, lists=lists, elem=elem,
                start_index=start_index, generic_from=generic_from), notes


def name_table(c=None):
    """the list through which names cross the protocol (same order as Gen.Conv.NAMES)"""
    if c is None:
        c, _ = read_conventions()
    out = []

    def add(x):
        if x not in out:
            out.append(x)

    for k, vs in c["base_str"]:
        add(k)
        for v in vs:
            add(v)
    for k, _ in c["base_non"]:
        add(k)
    for l in c["lists"].values():
        for x in l:
            add(x)
    for n, ds in c["var_dims"]:
        add(n)
        for d in ds:
            add(d)
    for n, at in c["var_attrs"]:
        for k, _ in at:
            add(k)
    for x in EXTRA_NAMES:
        add(x)
    return out


def _s(x):
    return '"' + str(x).replace("\\", "\\\\").replace('"', '\\"') + '"'


def _sl(l):
    return "[" + ", ".join(_s(x) for x in l) + "]"


def gen_conv(notes):
    c, n2 = read_conventions()
    notes += n2
    L = c["lists"]
    out = ["namespace UxVerif.Gen.Conv", ""]
    out.append("/-- `conventions.ugrid.BASE_GRID_TOPOLOGY_ATTRS`: string-valued entries, value split on blanks -/")
    out.append("def BASE_GRID_TOPOLOGY_ATTRS : List (String × List String) := [")
    out.append(",\n".join(f"  ({_s(k)}, {_sl(v)})" for k, v in c["base_str"]))
    out.append("]\n")
    out.append("/-- the non-string entries of the template as `(key, repr)` -/")
    out.append("def BASE_GRID_TOPOLOGY_NONSTR : List (String × String) := ["
               + ", ".join(f"({_s(k)}, {_s(v)})" for k, v in c["base_non"]) + "]\n")
    for nm, l in L.items():
        out.append(f"/-- `conventions.ugrid.{nm}` -/")
        out.append(f"def {nm} : List String := {_sl(l)}\n")
    out.append("/-- variable ↦ dims (`CONNECTIVITY`, `SPHERICAL_COORDS`, `CARTESIAN_COORDS`, `N_NODES_PER_FACE_DIMS`) -/")
    out.append("def VAR_DIMS : List (String × List String) := [")
    out.append(",\n".join(f"  ({_s(n)}, {_sl(d)})" for n, d in c["var_dims"]))
    out.append("]\n")
    out.append("/-- variable ↦ attribute keys with their kind (0 str, 1 number, 2 numeric array, 3 bool, 4 other) -/")
    out.append("def VAR_ATTRS : List (String × List (String × Nat)) := [")
    out.append(",\n".join("  (" + _s(n) + ", [" + ", ".join(f"({_s(k)}, {kd})" for k, kd in at) + "])" for n, at in c["var_attrs"]))
    out.append("]\n")
    out.append("/-- the `start_index` attribute the conventions give each connectivity variable -/")
    out.append("def VAR_START_INDEX : List (String × Int) := ["
               + ", ".join(f"({_s(n)}, {v})" for n, v in c["start_index"]) + "]\n")
    out.append(f"/-- sizes `k ≤ {MAX_ELEM}` for which `io._exodus._get_element_type(k)` returns a name -/")
    out.append("def EXODUS_ELEMENT_TYPES : List (Nat × String) := ["
               + ", ".join(f"({k}, {_s(v)})" for k, v in c["elem"]) + "]\n")
    out.append(f"/-- the size from which EVERY probed size (up to {MAX_ELEM}, and {GENERIC_PROBES}) has an element type: the"
               " function has a rule for sizes beyond its table (`none`: it has not) -/")
    out.append("def EXODUS_GENERIC_FROM : Option Nat := "
               + ("none" if c["generic_from"] is None else f"some {c['generic_from']}") + "\n")
    out.append("/-- the table through which names cross the integer-only line protocol -/")
    out.append("def NAMES : List String := [")
    nt = name_table(c)
    out.append(",\n".join("  " + ", ".join(_s(x) for x in nt[i:i + 6]) for i in range(0, len(nt), 6)))
    out.append("]\n")
    out.append("end UxVerif.Gen.Conv\n")
    return translate._write("Conventions.lean", "\n".join(out))


translate.GENERATORS["Conventions.lean"] = gen_conv
