"""C18 — the dual mesh swaps nodes and faces with correct ring order.

Lean side (Props/C18.lean): for EVERY node-face table and EVERY key function the model of
`construct_faces` / `_order_nodes` produces one row per node of valence >= 3 (`dual_face_count`,
`construct_eq_kept`), each row being the node's faces sorted by key from the first one, padded at the
end (`order_is_sort`, `dual_rows_are_node_faces`, `model_meets_discrete_spec`), the side test is the
sign of n.(t0 x d) (`side_sign_ccw`), the data side is the identity with swapped dimension names.

Tie: `Grid.get_dual()` / `UxDataArray.get_dual()` of the real code are run on generated closed and
partial meshes (valence 3..8 and more, coarse and fine, nodes at the poles and on the antimeridian,
random numbering), with `construct_faces` / `_order_nodes` first interpreted (their `.py_func`, so an
out-of-range write raises instead of corrupting memory) and then JIT-compiled; both tables must agree.
The Lean driver evaluates on the implementation's own output
  * the discrete clauses `CountOK`, `RowsOK`,
  * the ring clause (consecutive corners share an edge ending at the node; C03's incidence model),
  * the counter-clockwise clause (polynomial sign tests on the coordinates, independent of arccos),
the last two only at nodes where the mesh geometry makes them well defined (centres angularly ordered
like the face ring, no near tie, at most one gap) — decided by the Lean driver, counted in the evidence.
The model of the repaired algorithm (`Dual.constructDual … true`, run at Float by the driver) must also
reproduce the table exactly; the model of the code as found in the snapshot (`… false`) is kept in the
driver and is reported next to every failure (`equals_model_of_code_as_found`).
Chains: get_dual -> get_dual -> get_dual on staircase / dropped-face / MPAS-regional partial meshes and on
closed ones; every grid of the chain is judged against ITS OWN parent (the parent's node_face rows must be,
as multisets, the transpose of its face_node table computed by C03's proved Lean model).  Grids with a
source-supplied node_face_connectivity whose padding sits anywhere in the rows are judged the same way.
Coordinate form is a random dimension of every case: lon/lat only, supplied Cartesian nodes at unit
radius, at one radius drawn log-uniformly from 1e-3..1e7 (incl. 6371.229 and 6371229), with per-node radii
0.9..1.1, face centres not supplied / as lon-lat / as Cartesian at their own radius, with or without
normalize_cartesian_coordinates() before get_dual.  The ring / counter-clockwise oracle works on directions
(the driver scales every vector to unit length); the obligation "the implementation is radius-invariant" is
anchored to the Lean theorem order_scale_invariant (and asis_unit_normal_helper_wrong for a projection that
omits the division by |c|^2; corpus/C18/bipyramid4-earth-radius.json is its regression case).
corpus/C18/antiprism5-star.json is the minimised failure of the snapshot (fixed by c1960934);
corpus/C18/bipyramid5-supplied-node-face.json that of the prefix gather (fixed by b97cc1ce).
"""

from __future__ import annotations

import math

import numpy as np

from . import common, meshes
from .common import INT_FILL, enc_floats, enc_ints, enc_pairs, enc_rows

EPS = 1e-9  # near-tie margin of the sign tests (relative)
SPEC_MAX_NODES = 450
INTERP_MAX = 450  # meshes up to this many nodes are also run with the anchored functions interpreted
DIMCODE = {"n_node": 0, "n_edge": 1, "n_face": 2}


# --------------------------------------------------------------------------------------
# meshes
# --------------------------------------------------------------------------------------


def rot_to(p, target):
    """rotation taking unit vector p to unit vector target"""
    p, target = np.asarray(p, float), np.asarray(target, float)
    v = np.cross(p, target)
    s, c = np.linalg.norm(v), float(p @ target)
    if s < 1e-14:
        return np.eye(3) if c > 0 else np.diag([1.0, -1.0, -1.0])
    vx = np.array([[0, -v[2], v[1]], [v[2], 0, -v[0]], [-v[1], v[0], 0]])
    return np.eye(3) + vx + vx @ vx * ((1 - c) / (s * s))


def rfan(rng, k, rmax, rmin=3.0):
    """k triangles around a centre node, ring nodes at random distances (uneven face sizes)"""
    for _ in range(50):
        th = sorted(rng.uniform(0, 2 * math.pi) for _ in range(k))
        gaps = [(th[(i + 1) % k] - th[i]) % (2 * math.pi) for i in range(k)]
        if max(gaps) < 2.6 and min(gaps) > 0.2:
            break
    else:
        th = [2 * math.pi * i / k for i in range(k)]
    c = np.array(meshes._ll(rng.uniform(-180, 180), rng.uniform(-85, 85)))
    a = np.cross(c, [0.1, 0.2, 1.0])
    a /= np.linalg.norm(a)
    b = np.cross(c, a)
    rr = [math.radians(rng.uniform(rmin, rmax)) for _ in range(k)]
    ring = [math.cos(r) * c + math.sin(r) * (math.cos(t) * a + math.sin(t) * b) for r, t in zip(rr, th)]
    xyz = np.array([c] + ring)
    faces = [[0, 1 + i, 1 + (i + 1) % k] for i in range(k)]
    return meshes.AMesh(meshes._orient(faces, xyz), xyz, False, f"rfan{k}r{int(rmax)}")


def place(m, rng, how):
    """put a node of the mesh exactly at a pole / on the antimeridian"""
    v = rng.randrange(m.n_node)
    if how == "npole":
        R = rot_to(m.xyz[v], [0, 0, 1.0])
    elif how == "spole":
        R = rot_to(m.xyz[v], [0, 0, -1.0])
    elif how == "antimeridian":
        lat = math.radians(rng.uniform(-70, 70))
        R = rot_to(m.xyz[v], [-math.cos(lat), 0.0, math.sin(lat)])
    else:
        return m
    mm = m.rotated(R)
    if how in ("npole", "spole"):
        mm.xyz[v] = [0, 0, 1.0 if how == "npole" else -1.0]
    else:
        mm.xyz[v][1] = 0.0
        mm.xyz[v] /= np.linalg.norm(mm.xyz[v])
    mm.kind = m.kind + "+" + how
    return mm


def closed_zoo(rng, big):
    out = []
    for k in (3, 4, 5, 6, 7, 8):
        out.append(meshes.prism(k, lat=rng.uniform(15, 70), lon0=rng.uniform(-180, 180)))
        out.append(meshes.bipyramid(k, lon0=rng.choice([0.0, rng.uniform(-180, 180)])))
    for k in (3, 4, 5, 6):
        out.append(meshes.antiprism(k, lat=rng.uniform(15, 60), lon0=rng.uniform(-180, 180)))
    # coarse, elongated faces (centres far from the node): the tangent-plane angle matters here
    for k in (4, 5, 6):
        out.append(meshes.antiprism(k, lat=rng.uniform(62, 80), lon0=rng.uniform(-180, 180)))
    out.append(meshes.hull(rng.choice([6, 7, 8]), rng))
    out += [meshes.icosa(), meshes.dual_of(meshes.icosa())]
    out.append(meshes.cube_sphere(rng.choice([1, 2, 3, 4])))
    for n in (rng.choice([8, 10, 12]), rng.choice([16, 20, 30]), rng.choice([40, 60])):
        h = meshes.hull(n, rng)
        out += [h, meshes.dual_of(h)]
    out.append(meshes.hull(rng.choice([20, 30, 40]), rng).merge_some(rng))
    out.append(meshes.dual_of(meshes.hull(rng.choice([16, 24, 40]), rng)).merge_some(rng, tries=4))
    if big:
        out.append(meshes.cube_sphere(rng.choice([6, 8])))
        hb = meshes.hull(rng.choice([120, 200]), rng)
        out += [hb, meshes.dual_of(hb), hb.merge_some(rng, tries=60)]
    return out


def partial_zoo(rng):
    out = []
    p = meshes.patch(rng.choice([2, 3, 4]), rng.choice([2, 3]), lon0=rng.choice([-30, 150, 170, -5]),
                     lat0=rng.choice([-20, 40, 60, -75]))
    out += [p, p.split_some(rng), p.split_some(rng).merge_some(rng)]
    out += [meshes.fan(rng.choice([3, 4, 5, 6, 7, 8])), meshes.fan(rng.choice([3, 4, 5]), full=False),
            meshes.isolated(rng.choice([1, 2]))]
    out += [rfan(rng, rng.choice([4, 5, 6, 7, 8]), rmax) for rmax in (10, 35, 60, 80, 88)]
    out.append(meshes.cube_sphere(rng.choice([2, 3])).drop_faces(rng, 0.35))
    out.append(meshes.dual_of(meshes.hull(rng.choice([14, 24]), rng)).drop_faces(rng, 0.3))
    out.append(meshes.hull(rng.choice([20, 30]), rng).drop_faces(rng, 0.3))
    return out


def staircase(rng):
    """quad lattice whose boundary is a staircase (coastline-like): faces (i, j) with lo <= i + j <= hi, plus holes"""
    nx, ny = rng.choice([4, 5, 6]), rng.choice([4, 5])
    p = meshes.patch(nx, ny, lon0=rng.choice([-30, 150, 160, -5]), lat0=rng.choice([-20, 30, 50, -70]), dlon=6.0, dlat=5.0)
    lo, hi = rng.choice([1, 2]), nx + ny - 2 - rng.choice([1, 2])
    idx = [j * nx + i for j in range(ny) for i in range(nx) if lo <= i + j <= hi and rng.random() < 0.93]
    m = p.select(idx, kind=f"staircase{nx}x{ny}")
    return m


def amesh_of_grid(g, kind, closed):
    faces = [[int(v) for v in r if v != INT_FILL] for r in g.face_node_connectivity.values]
    m = meshes.AMesh(faces, xyz_of(g, "node"), closed, kind)
    return m


_MPAS = {}


def mpas_region(rng):
    """regional subset of the MPAS sample (hexagons inside a bounding circle), as a self-contained mesh"""
    import uxarray as ux

    if "m" not in _MPAS:
        f = common.REPO / "test/meshfiles/mpas/QU/mesh.QU.1920km.151026.nc"
        _MPAS["m"] = amesh_of_grid(ux.open_grid(str(f), use_dual=False), "mpasQU1920", True) if f.exists() else None
    m = _MPAS["m"]
    if m is None:
        return None
    c = np.array([rng.gauss(0, 1) for _ in range(3)])
    c /= np.linalg.norm(c)
    rad = math.radians(rng.uniform(35, 75))
    cen = np.array([m.xyz[f].mean(axis=0) for f in m.faces])
    cen /= np.linalg.norm(cen, axis=1, keepdims=True)
    idx = [i for i in range(m.n_face) if math.acos(max(-1.0, min(1.0, float(cen[i] @ c)))) <= rad]
    if len(idx) < 6:
        return None
    return m.select(idx, kind=f"mpas-region{len(idx)}")


def chain_zoo(rng, big):
    """roots for get_dual -> get_dual -> get_dual: irregular partial meshes first, then closed ones"""
    out = [staircase(rng), staircase(rng).split_some(rng, 0.3)]
    out.append(meshes.cube_sphere(rng.choice([3, 4])).drop_faces(rng, rng.choice([0.2, 0.35])))
    out.append(meshes.hull(rng.choice([30, 40, 60]), rng).drop_faces(rng, 0.25))
    out.append(meshes.dual_of(meshes.hull(rng.choice([24, 40]), rng)).drop_faces(rng, 0.25))
    r = mpas_region(rng)
    if r is not None:
        out.append(r)
    out += [meshes.icosa(), meshes.cube_sphere(rng.choice([2, 3])), meshes.hull(rng.choice([12, 20, 30]), rng),
            meshes.prism(rng.choice([4, 5, 6]), lat=rng.uniform(20, 50))]
    if big:
        out += [meshes.cube_sphere(6).drop_faces(rng, 0.3), meshes.hull(120, rng).drop_faces(rng, 0.2)]
        r = mpas_region(rng)
        if r is not None:
            out.append(r)
    res = []
    for m in out:
        if rng.random() < 0.4:
            m = m.rotated(meshes.random_rotation(rng))
        res.append(m.renumber(rng))
    return res


def stream(rng, big):
    res = []
    for m in closed_zoo(rng, big) + partial_zoo(rng):
        u = rng.random()
        if u < 0.25:
            m = m.rotated(meshes.random_rotation(rng))
        elif u < 0.65:
            m = place(m, rng, rng.choice(["npole", "spole", "antimeridian"]))
        if rng.random() < 0.7:
            m = m.renumber(rng)
        res.append(m)
    return res


# --------------------------------------------------------------------------------------
# judging one grid
# --------------------------------------------------------------------------------------


def mesh_input(m, tag):
    return dict(mesh=m.describe(), xyz=[[float(c) for c in p] for p in m.xyz], lon=[float(x) for x in m.lon],
                lat=[float(x) for x in m.lat], table=m.rows(), closed=bool(m.closed), tag=tag)


def mesh_from_input(inp):
    faces = [[v for v in r if v != INT_FILL] for r in inp["table"]]
    if "xyz" in inp:
        xyz = np.array(inp["xyz"], dtype=float)
    else:
        xyz = np.array([meshes._ll(lo, la) for lo, la in zip(inp["lon"], inp["lat"])])
    m = meshes.AMesh(faces, xyz, inp.get("closed", False), inp.get("mesh", {}).get("kind", "replay"))
    if "xyz" in inp:
        m.xyz = xyz  # exactly the stored coordinates (no second normalisation)
    return m


def xyz_of(g, what):
    a = np.stack([getattr(g, f"{what}_x").values, getattr(g, f"{what}_y").values, getattr(g, f"{what}_z").values], axis=1)
    return np.asarray(a, dtype=float)


def enc_geo(NF, nodes, cents):
    return " ".join([enc_rows(NF), enc_floats(nodes.reshape(-1)), enc_floats(cents.reshape(-1))])


def lean_spec(d, NF, nodes, cents, FE, N, n_edge, E, D):
    out = d.ask("C18.spec", enc_geo(NF, nodes, cents), enc_rows(FE), enc_ints(N), n_edge, enc_pairs(E),
                common.enc_float(EPS), enc_rows(D))
    tk = common.Tok(out)
    status, clauses = tk.word(), tk.word()
    v = dict(status=status, clauses=[] if clauses == "-" else clauses.split(","), judged=tk.int(), geom_skipped=tk.int(),
             tie_skipped=tk.int(), gap_skipped=tk.int(), ring_bad=tk.ints(), ccw_bad=tk.ints())
    return v


def tables(g):
    NF = [[int(x) for x in r] for r in g.node_face_connectivity.values]
    FE = [[int(x) for x in r] for r in g.face_edge_connectivity.values]
    N = [int(x) for x in g.n_nodes_per_face.values]
    E = [(int(a), int(b)) for a, b in g.edge_node_connectivity.values]
    return NF, FE, N, int(g.n_edge), E


def judge_grid(ctx, g, inp, key, m=None, shrink=True, closed=None, variant=""):
    """Grid.get_dual() of the real code on grid `g`, judged by the Lean spec against g's OWN tables;
    returns (dual grid, table) or None.  `variant` names the input class in the signatures."""
    d = ctx.driver
    closed = bool(inp.get("closed")) if closed is None else closed
    SIG = "C18/Grid.get_dual" + variant
    # the grid under the dual must itself be consistent: node_face rows are, as multisets (padding
    # anywhere), the transpose of face_node computed by C03's proved model
    t0 = [[int(x) for x in r] for r in g.face_node_connectivity.values]
    NF0 = [[int(x) for x in r] for r in g.node_face_connectivity.values]
    ref = common.Tok(d.ask("C18.nodeface", int(g.n_node), enc_rows(t0))).rows()
    if [sorted(x for x in r if x != INT_FILL) for r in NF0] != [sorted(x for x in r if x != INT_FILL) for r in ref]:
        ctx.case(key, sample=None)
        ctx.fail(SIG + "/parent-node_face-not-transpose", "node_face_connectivity of the grid handed to get_dual is not the transpose "
                 "of its face_node_connectivity (the grid produced by the previous get_dual is inconsistent)", inp,
                 dict(node_face=NF0[:12]), dict(transpose=ref[:12]), ["dual_grid_consistent"])
        return None
    if any(INT_FILL in r[: sum(1 for x in r if x != INT_FILL)] for r in NF0):
        ctx.hit("parent-node_face:padding-not-at-end")
    T = None
    if int(g.n_node) <= INTERP_MAX:
        with interpreted() as it:
            if it.ok:
                try:
                    T = [[int(x) for x in r] for r in g.get_dual().face_node_connectivity.values]
                except Exception as e:
                    ctx.case(key, sample=None)
                    ctx.fail(SIG + f"/raises/{type(e).__name__}/interpreted",
                             f"Grid.get_dual with construct_faces/_order_nodes interpreted raises {type(e).__name__}: {e}", dict(inp, jit="off"))
                    return None
            else:
                ctx.hit("jit-off:functions-already-interpreted")
    try:
        dual = g.get_dual()
        D = [[int(x) for x in r] for r in dual.face_node_connectivity.values]
    except Exception as e:
        ctx.case(key, sample=None)
        ctx.fail(SIG + f"/raises/{type(e).__name__}", f"Grid.get_dual raises {type(e).__name__}: {e}", inp)
        return None
    if T is not None:
        ctx.hit("jit-off-compared")
        if T != D:
            ctx.case(key, sample=None)
            ctx.fail(SIG + "/jit-off-differs", "get_dual gives a different table when construct_faces/_order_nodes are interpreted",
                     dict(inp, jit="off"), dict(jit_off=T), dict(jit_on=D), ["jit"])
            return None
    NF, FE, N, n_edge, E = tables(g)
    nodes, cents = xyz_of(g, "node"), xyz_of(g, "face")
    val = [sum(1 for x in r if x != INT_FILL) for r in NF]
    ctx.case(key, nontrivial=max(val) >= 4, sample=dict(inp, implementation=D) if len(NF) <= 8 else None)
    for k in sorted(set(val)):
        ctx.hit("valence=%d" % k if k <= 8 else "valence>8", val.count(k))
    ctx.hit("closed" if closed else "partial")
    ctx.hit("has-node-valence<3" if min(val) < 3 else "all-nodes-valence>=3")
    lat = np.degrees(np.arcsin(np.clip(nodes[:, 2], -1, 1)))
    lon = np.degrees(np.arctan2(nodes[:, 1], nodes[:, 0]))
    if np.any(np.abs(lat) > 90 - 1e-9):
        ctx.hit("node-at-pole")
    if np.any((np.abs(np.abs(lon) - 180) < 1e-9) & (np.abs(lat) < 89)):
        ctx.hit("node-on-antimeridian")
    obs = dict(dual_face_node_connectivity=D, n_node=int(dual.n_node), n_face=int(dual.n_face))

    if len(NF) > SPEC_MAX_NODES:
        ok = d.ask("C18.discrete", enc_rows(NF), enc_rows(D)) == "1"
        v = dict(status="ok" if ok else "fail", clauses=[] if ok else ["count-or-rows"], judged=0, geom_skipped=0, tie_skipped=0,
                 gap_skipped=0, ring_bad=[], ccw_bad=[])
    else:
        v = lean_spec(d, NF, nodes, cents, FE, N, n_edge, E, D)
    ctx.hit("lean-spec-evaluated")
    ctx.hit("ring-judged-nodes", v["judged"])
    ctx.hit("skipped:centres-not-ordered-like-ring", v["geom_skipped"])
    ctx.hit("skipped:near-tie", v["tie_skipped"])
    ctx.hit("skipped:more-than-one-gap", v["gap_skipped"])
    model = None
    if len(NF) <= SPEC_MAX_NODES:
        model = common.Tok(d.ask("C18.model", 3, enc_geo(NF, nodes, cents))).rows()
    if v["status"] != "ok":
        cl = v["clauses"]
        bad = (v["ring_bad"] + v["ccw_bad"])[:1]
        # shrink: the faces around the first offending node only
        if shrink and bad and m is not None:
            vtx = bad[0]
            idx = [i for i, f in enumerate(m.faces) if vtx in f]
            sub = m.select(idx, kind=m.kind + "+star")
            import uxarray as ux

            sinp = mesh_input(sub, inp.get("tag", "") + "+star")
            sc = sub_coords(inp.get("coords"), sorted({v for i in idx for v in m.faces[i]}))
            if sc:
                sinp["coords"] = sc
            n0 = len(ctx.failures)
            judge_grid(ctx, build_grid(sub, ux, sc), sinp, ("star", sub.rows(), repr(sc)[:100]), m=sub, shrink=False, closed=False,
                       variant=variant)
            if len(ctx.failures) > n0:
                return None
        asis = asis1 = helper = None
        if len(NF) <= SPEC_MAX_NODES:
            asis = common.Tok(d.ask("C18.model", 0, enc_geo(NF, nodes, cents))).rows()
            asis1 = common.Tok(d.ask("C18.model", 1, enc_geo(NF, nodes, cents))).rows()
            helper = common.Tok(d.ask("C18.model", 4, enc_geo(NF, nodes, cents))).rows()
        what = ("dual face corners are not " + {"ring": "a ring of edge-sharing primal faces", "ccw": "in counter-clockwise order",
                                                 "count": "one per node of valence>=3", "rows": "exactly the node's faces"}.get(cl[0], cl[0])
                + f" (clauses {cl}; nodes ring_bad={v['ring_bad'][:4]} ccw_bad={v['ccw_bad'][:4]})")
        ctx.fail(SIG + "/" + "+".join(cl), what, inp,
                 dict(obs, verdict=v, equals_model_of_snapshot=(asis == D), equals_model_with_prefix_gather=(asis1 == D),
                      equals_model_with_unit_normal_projection=(helper == D)),
                 dict(repaired_model=model, equals_repaired_model=(model == D)), cl)
        return None
    # correspondence with the (repaired) model: exact table
    if model is not None:
        if model == D:
            ctx.hit("identical-to-model")
        elif v["tie_skipped"] == 0 and v["geom_skipped"] == 0:
            ctx.mismatch("C18/dual-table-vs-model", inp, D, model)
        else:
            ctx.hit("differs-from-model-at-tie/geometry-skip")
    # one node per primal face, at that face's centre
    flon, flat = g.face_lon.values, g.face_lat.values
    dl, dt = dual.node_lon.values, dual.node_lat.values
    if int(dual.n_node) != int(g.n_face) or not (np.array_equal(dl, flon) and np.array_equal(dt, flat)):
        ctx.fail(SIG + "/dual-nodes-are-face-centres", "dual nodes are not the primal face centres (count or position)", inp,
                 dict(n_node=int(dual.n_node), lon=dl.tolist()[:8], lat=dt.tolist()[:8]),
                 dict(n_face=int(g.n_face), face_lon=flon.tolist()[:8], face_lat=flat.tolist()[:8]), ["dual_nodes"])
    if m is not None:
        if (inp.get("coords") or {}).get("face"):
            cen = centroids(m)  # the centres that were supplied (as directions)
        else:  # normalised mean of the corner coordinates the grid holds (any radius)
            cen = np.array([nodes[f].mean(axis=0) for f in m.faces])
            cen /= np.linalg.norm(cen, axis=1, keepdims=True)
        dx = xyz_of(dual, "node")
        dx = dx / np.linalg.norm(dx, axis=1, keepdims=True)
        if dx.shape != cen.shape or np.max(np.linalg.norm(dx - cen, axis=1)) > 1e-9:
            ctx.fail(SIG + "/dual-node-position", "dual node is not at the (normalised mean-of-corners) centre of its face", inp,
                     dict(dual_xyz=dx.tolist()[:6]), dict(centres=cen.tolist()[:6]), ["dual_nodes"])
    if closed and min(val) >= 3 and int(dual.n_face) != int(g.n_node):
        ctx.fail(SIG + "/one-face-per-node", "closed grid: dual n_face != primal n_node", inp, obs, None, ["count"])
    return dual, D


def judge_data(ctx, g, dualD, inp, key, closed, all3, forced=None):
    """UxDataArray.get_dual(): dims swapped, values unchanged and unpermuted, same dual connectivity"""
    import uxarray as ux

    rng, d = ctx.rng, ctx.driver
    dual, D = dualD
    for centre in ("n_face", "n_node") if forced is None else (forced["data_centre"],):
        n = int(g.n_face if centre == "n_face" else g.n_node)
        if forced is None:
            lead = [rng.randint(1, 3) for _ in range(rng.choice([0, 0, 1, 2]))]
            other = [f"t{i}" for i in range(len(lead))]
            pos = rng.randrange(len(lead) + 1)  # the element dimension anywhere
            dims = other[:pos] + [centre] + other[pos:]
            shape = lead[:pos] + [n] + lead[pos:]
            vals = np.array([rng.uniform(-5, 5) for _ in range(int(np.prod(shape)))]).reshape(shape)
            if rng.random() < 0.3:
                vals = np.round(vals).astype(np.int64)
        else:
            dims, shape = list(forced["dims"]), list(forced["shape"])
            if "values" in forced:
                vals = np.array(forced["values"], dtype=forced["dtype"]).reshape(shape)
            else:
                vals = np.array([rng.uniform(-5, 5) for _ in range(int(np.prod(shape)))]).reshape(shape).astype(forced["dtype"])
        uxda = ux.UxDataArray(vals.copy(), dims=dims, uxgrid=g, name="v")
        dinp = dict(inp, data_centre=centre, dims=dims, shape=shape, dtype=str(vals.dtype))
        if vals.size <= 400:
            dinp["values"] = vals.reshape(-1).tolist()
        judged = closed and all3 or centre == "n_face"
        ctx.case(key + (centre, tuple(dims), vals.tobytes().hex()[:48]), nontrivial=True)
        ctx.hit(f"data:{centre}:{'judged' if judged else 'observed-only(partial grid)'}")
        try:
            res = uxda.get_dual()
        except Exception as e:
            if judged:
                ctx.fail(f"C18/UxDataArray.get_dual/raises/{type(e).__name__}/{centre}",
                         f"UxDataArray.get_dual raises {type(e).__name__}: {e}", dinp)
            continue
        if not judged:
            continue
        codes = [DIMCODE.get(x, 10 + i) for i, x in enumerate(dims)]
        flat = [int(x) for x in np.asarray(vals, dtype=np.float64).reshape(-1).view(np.uint64)]
        tk = common.Tok(d.ask("C18.data", enc_ints(codes), enc_ints(flat)))
        mdims, mvals = tk.ints(), tk.ints()
        rcodes = [DIMCODE.get(x, 10 + dims.index(x) if x in dims else 99) for x in res.dims]
        rv = np.asarray(res.values)
        rflat = [int(x) for x in np.asarray(rv, dtype=np.float64).reshape(-1).view(np.uint64)] if rv.shape == tuple(shape) else None
        obs = dict(dims=list(res.dims), shape=list(rv.shape), type=type(res).__name__)
        if rcodes != mdims:
            ctx.fail(f"C18/UxDataArray.get_dual/dims/{centre}", f"dims {dims} became {list(res.dims)}", dinp, obs, dict(dims=mdims), ["dual_data_dims"])
            continue
        if rflat != mvals or rv.dtype != vals.dtype:
            ctx.fail(f"C18/UxDataArray.get_dual/values/{centre}", "values changed or permuted by get_dual", dinp, obs, None, ["dual_data_identity"])
            continue
        rd = res.uxgrid
        RD = [[int(x) for x in r] for r in rd.face_node_connectivity.values]
        if RD != D or not np.array_equal(rd.node_lon.values, dual.node_lon.values):
            ctx.fail(f"C18/UxDataArray.get_dual/grid/{centre}", "UxDataArray.get_dual builds a different dual grid than Grid.get_dual", dinp, obs, None, ["same_dual"])
            continue
        swapped = "n_node" if centre == "n_face" else "n_face"
        if int(res.sizes[swapped]) != int(getattr(rd, swapped)):
            ctx.fail(f"C18/UxDataArray.get_dual/size/{centre}", f"data length along {swapped} differs from the dual grid's {swapped}", dinp, obs, None, ["dual_data_size"])


EARTH = [6371.229, 6371229.0]  # km, m


def draw_radius(rng):
    u = rng.random()
    return rng.choice(EARTH) if u < 0.4 else 10 ** rng.uniform(-3, 7)


def draw_coords(rng, m):
    """the form in which node / face-centre coordinates are supplied — a random dimension of every case"""
    u = rng.random()
    if u < 0.3:
        c = dict(node="lonlat")
    elif u < 0.42:
        c = dict(node="xyz-unit", radius=1.0)
    elif u < 0.85:
        c = dict(node="xyz-radius", radius=draw_radius(rng))
    else:
        c = dict(node="xyz-mixed-radii", radius=[rng.uniform(0.9, 1.1) for _ in range(m.n_node)])
    v = rng.random()
    if v < 0.6:
        c["face"] = None
    elif v < 0.72:
        c["face"] = "lonlat"
    else:
        c["face"] = "xyz"
        c["face_radius"] = 1.0 if rng.random() < 0.3 else draw_radius(rng)
    c["normalize"] = rng.random() < 0.3
    return c


def centroids(m):
    cen = np.array([m.xyz[f].mean(axis=0) for f in m.faces])
    return cen / np.linalg.norm(cen, axis=1, keepdims=True)


def coords_tag(c):
    if not c or (c["node"] == "lonlat" and not c.get("face") and not c.get("normalize")):
        return ""
    return "[coords=" + c["node"] + ("+face-" + c["face"] if c.get("face") else "") + ("+normalized" if c.get("normalize") else "") + "]"


def sub_coords(c, used):
    if c and isinstance(c.get("radius"), list):
        return dict(c, radius=[c["radius"][v] for v in used])
    return c


def build_grid(m, ux, coords=None, node_face=None):
    """the Grid for an abstract mesh with coordinates supplied in the drawn form"""
    kw = {}
    c = coords or dict(node="lonlat")
    if c["node"] != "lonlat":
        rad = np.asarray(c["radius"], dtype=float) * np.ones(m.n_node)
        xyz = m.xyz * rad[:, None]
        kw.update(node_x=xyz[:, 0].copy(), node_y=xyz[:, 1].copy(), node_z=xyz[:, 2].copy())
    if c.get("face"):
        cen = centroids(m)
        kw.update(face_lon=np.degrees(np.arctan2(cen[:, 1], cen[:, 0])), face_lat=np.degrees(np.arcsin(np.clip(cen[:, 2], -1, 1))))
        if c["face"] == "xyz":
            fr = float(c.get("face_radius", 1.0))
            kw.update(face_x=fr * cen[:, 0], face_y=fr * cen[:, 1], face_z=fr * cen[:, 2])
    if node_face is not None:
        kw["node_face_connectivity"] = np.array(node_face, dtype=np.int64)
    g = meshes.to_grid(m, ux, **kw)
    if c.get("normalize"):
        g.normalize_cartesian_coordinates()
    return g


def scramble_padding(rng, NF, keep_order=True):
    """the same node_face table with the padding of every row moved to random positions
    (as a source-supplied table such as MPAS cellsOnVertex may have it)"""
    out = []
    for r in NF:
        real = [int(x) for x in r if x != INT_FILL]
        if not keep_order:
            rng.shuffle(real)
        slots = sorted(rng.sample(range(len(r)), len(real)))
        row = [INT_FILL] * len(r)
        for pos, x in zip(slots, real):
            row[pos] = x
        out.append(row)
    return out


def judge(ctx, m, tag, data=True, forced=None, depth=1, node_face=None, coords="draw", threads=None):
    """one root mesh: Grid.get_dual (and UxDataArray.get_dual), then get_dual of the result, ... `depth`
    times; every grid of the chain is judged against its own parent"""
    import uxarray as ux

    inp = mesh_input(m, tag)
    # numba thread count: a per-case dimension (a parallel per-node loop must give the same table under
    # every schedule — Lean: construct_faces_row_local / construct_faces_schedule_independent)
    import numba

    nthreads = threads if threads else ctx.rng.choice([1, 2, 7, 16])
    nthreads = max(1, min(int(nthreads), int(numba.config.NUMBA_NUM_THREADS)))
    numba.set_num_threads(nthreads)
    inp["threads"] = nthreads
    ctx.hit(f"numba-threads={nthreads}")
    if coords == "draw":
        coords = draw_coords(ctx.rng, m)
    variant = ""
    if node_face is not None:
        inp["node_face"] = node_face
        variant = "[supplied-node_face]"
        ctx.hit("supplied-node_face(padding anywhere)")
    if coords:
        inp["coords"] = coords
        variant += coords_tag(coords)
        ctx.hit("coords:node=" + coords["node"])
        ctx.hit("coords:face=" + str(coords.get("face")))
        if coords.get("normalize"):
            ctx.hit("coords:normalize_cartesian_coordinates-before-get_dual")
        r0 = coords.get("radius")
        if isinstance(r0, float) and r0 in EARTH:
            ctx.hit("coords:earth-radius-km-or-m")
    g = build_grid(m, ux, coords, node_face)
    key = (tag, m.rows(), [round(float(x), 9) for x in m.lon[:6]], node_face, repr(coords)[:200])
    cur, cur_m, closed, first = g, m, bool(m.closed), None
    for k in range(1, depth + 1):
        NFk = cur.node_face_connectivity.values
        val = (NFk != INT_FILL).sum(axis=1)
        if not (val >= 3).any():
            ctx.hit("chain-ends:no-node-with-3-faces")
            break
        all3 = bool((val >= 3).all())
        kinp = inp if k == 1 else dict(inp, chain_depth=k)
        if k > 1:
            ctx.hit(f"chain-depth={k}:{'closed' if closed else 'partial'}")
        r = judge_grid(ctx, cur, kinp, key + (k,), m=cur_m, shrink=(k == 1 and node_face is None), closed=closed,
                       variant=variant + (f"[chain-depth={k}]" if k > 1 else ""))
        if k == 1:
            first = r
        if r is None:
            break
        if data and (k <= 2 or forced is not None):
            judge_data(ctx, cur, r, kinp, key + (k,), closed, all3, forced=forced if k == depth else None)
        cur, cur_m, closed = r[0], None, closed and all3
    return first


# --------------------------------------------------------------------------------------
# JIT off: the anchored functions run by the interpreter (their `.py_func`), swapped in at run time
# (uxarray/grid/area.py resets numba's DISABLE_JIT at import, so the environment variable alone
# does not reach dual.py).  The interpreted run comes FIRST: an out-of-range write raises IndexError
# there instead of corrupting the process.
# --------------------------------------------------------------------------------------


class interpreted:
    def __enter__(self):
        from uxarray.grid import dual as dmod

        self.dmod = dmod
        self.saved = (dmod.construct_faces, dmod._order_nodes)
        self.ok = all(hasattr(f, "py_func") for f in self.saved)
        if self.ok:
            dmod.construct_faces, dmod._order_nodes = self.saved[0].py_func, self.saved[1].py_func
        return self

    def __exit__(self, *a):
        self.dmod.construct_faces, self.dmod._order_nodes = self.saved
        return False


# --------------------------------------------------------------------------------------
# sample file (MPAS ships its own dual)
# --------------------------------------------------------------------------------------


def sample_file(ctx):
    import uxarray as ux

    f = common.REPO / "test/meshfiles/mpas/QU/mesh.QU.1920km.151026.nc"
    if not f.exists():
        ctx.notes.append("MPAS sample file missing: file case skipped")
        return
    inp = dict(file=str(f.relative_to(common.REPO)), use_dual=False)
    try:
        g = ux.open_grid(str(f), use_dual=False)
    except Exception as e:
        ctx.notes.append(f"MPAS sample could not be opened: {e}")
        return
    ctx.hit("mpas-sample")
    judge_grid(ctx, g, inp, ("file", inp["file"]), m=None, shrink=False, closed=True)


# --------------------------------------------------------------------------------------


def corpus_cases():
    import json

    p = common.CORPUS / "C18"
    return [json.loads(f.read_text())["input"] for f in sorted(p.glob("*.json"))] if p.is_dir() else []


def run(ctx):
    ctx.rule = ("chains get_dual -> get_dual -> get_dual on staircase / dropped-face / MPAS-regional partial meshes and on closed "
                "ones, each grid judged against its own parent; grids with a supplied node_face_connectivity padded anywhere; "
                "closed meshes (prisms, bipyramids, antiprisms 3..8, icosahedron and its dual, cube-sphere, convex-hull "
                "triangulations, their duals and merged variants) and partial meshes (patches, fans with even and uneven face "
                "sizes, dropped faces, isolated faces), randomly rotated / renumbered, a node placed exactly at a pole or on the "
                "antimeridian; distinct = distinct (table, coordinates); non-trivial = some node of valence >= 4")
    ctx.assumptions = [
        "ring / counter-clockwise clauses are judged only at nodes where the face centres are angularly ordered like the face "
        "ring and no two centres are within 1e-9 (relative) of the same direction; this is decided by the Lean driver from "
        "polynomial sign tests on the implementation's own coordinates and counted in input_distribution",
        "face centres (face_x/y/z, face_lon/lat) are taken from the implementation (their correctness is C04); the dual node "
        "position is additionally compared with the normalised mean of the corners",
        "Float evaluation of the model uses the platform libm (arccos, sqrt)",
    ]
    import uxarray as ux

    rng = ctx.rng
    for inp in corpus_cases():
        ctx.hit("corpus")
        replay_input(ctx, inp, inp.get("tag", "corpus"))
    for rep in range(ctx.n(2, 40)):
        big = ctx.thorough or ctx.escalate
        for m in stream(rng, big=big):
            judge(ctx, m, m.kind)
        # chains: the dual of a dual (of a dual), every grid judged against its own parent
        for m in chain_zoo(rng, big):
            judge(ctx, m, m.kind + "+chain", depth=3, data=(m.n_node <= 120))
        # source-supplied node_face_connectivity with the padding anywhere in the rows
        for m in rng.sample(stream(rng, big=False), 8) + [staircase(rng).renumber(rng)]:
            NF = meshes.to_grid(m, ux).node_face_connectivity.values
            if not (NF == INT_FILL).any():
                continue
            judge(ctx, m, m.kind + "+supplied-node_face", data=False, depth=rng.choice([1, 2]),
                  node_face=scramble_padding(rng, NF, keep_order=rng.random() < 0.5))
    sample_file(ctx)


def replay_input(ctx, inp, tag):
    m = mesh_from_input(inp)
    judge(ctx, m, tag, data="data_centre" in inp, forced=inp if "data_centre" in inp else None,
          depth=int(inp.get("chain_depth", 1)), node_face=inp.get("node_face"), coords=inp.get("coords"),
          threads=inp.get("threads"))


def replay(ctx, rp):
    inp = rp["input"]
    if "table" not in inp:
        sample_file(ctx)
        return
    replay_input(ctx, inp, inp.get("tag", "replay"))

