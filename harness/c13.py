"""C13 — face latitude-longitude bounds enclose the face and are tight.

Observation point: ``Grid.bounds`` (radians, ``[[lat_min, lat_max], [lon_min, lon_max]]`` per face).

* Verdict on the implementation's output: the Lean oracle ``Bounds.Oracle.judge`` (driver, at
  Float) samples every great-circle edge at 64 parameters + the analytic apex, decides which pole
  (if any) lies strictly inside the convex face by orientation determinants, computes the shortest
  covering longitude interval from the corners, and evaluates the five clauses of the property on
  the reported box with tolerance 1e-9 rad.  It shares no code with the implementation's helpers.
* Correspondence: the Lean transcription ``Bounds.faceBounds`` (REPAIRED variant, the algorithm the
  theorems of Props/C13.lean are about) is run on the same corners and compared with the
  implementation's box (1e-9 rad).
* Faces are batched into one grid (mixed sizes → padded rows); when ``Grid.bounds`` raises, each
  face of the batch is retried alone to find the culprit.
* The FORM of the coordinate input is a random dimension of every batch (``pick_form``): dtype
  float64 / float32 / int64 / int32 / Python ints (integer forms use faces on the whole-degree
  lattice, so the integer form is exact), construction through ``Grid.from_topology``,
  ``ux.open_grid(vertices, latlon=True)``, ``ux.open_grid(xyz vertices, latlon=False)`` on radius
  1 / 6371 / 0.25, ``Grid.from_dataset``; longitudes in [-180,180) or [0,360); with or without
  ``normalize_cartesian_coordinates()``.  The oracle judges against the positions exactly as supplied
  (float32 forms with tolerance 2e-5 rad).  The Lean model is over a field: dtype promotion of the
  inputs is exercised here, not modelled.  A numba TypingError for a dtype is noted, not judged (C08).
* SIZE is a random dimension of every face (``draw_size``): diameters log-uniform from ~1e-7 rad
  (sub-metre) to ~1.2 rad, anisotropic faces (thin in latitude, thin in longitude, oblique) down to a
  thin extent of ~1e-6 rad, at every location class (anywhere, across longitude 0 / 180, pole
  enclosed, corner on a pole, a few diameters beside a pole, corners exactly on the equator).  All
  margins of the admissibility filter are relative to the face, rejections are counted per size
  decade (``generator-rejected:*``), and the tolerance of the verdict scales with the face:
  tol = clamp(1e-6 * diameter, 1e-12, 1e-9) rad (plus the conditioning of arcsin at a pole,
  8e-16 / distance-to-pole).  An exception from ``Grid.bounds`` on an admissible face is a spec failure.
"""

from __future__ import annotations

import json
import math

import numpy as np

from . import common
from .common import INT_FILL, enc_float

K = 64          # samples per edge
TOL = 1e-9      # rad, enclosure / tightness / correspondence
POLE_MARGIN = 1e-6   # |determinant| below this (and no pole corner): pole too close to the boundary, case dropped
TWO_PI = 2 * math.pi

CLAUSES = ["lat_enclosure", "lon_enclosure", "enclosed_pole", "lat_tight", "lon_tight"]


# ----------------------------------------------------------------------------------------
# geometry helpers of the generator (numpy only)
# ----------------------------------------------------------------------------------------

def xyz_of(lon_deg, lat_deg):
    if abs(lat_deg) == 90.0:        # the pole itself, not (6e-17, 0, 1)
        return np.array([0.0, 0.0, 1.0 if lat_deg > 0 else -1.0])
    lo, la = math.radians(lon_deg), math.radians(lat_deg)
    return np.array([math.cos(la) * math.cos(lo), math.cos(la) * math.sin(lo), math.sin(la)])


def lonlat_of(p):
    p = p / np.linalg.norm(p)
    return math.degrees(math.atan2(p[1], p[0])), math.degrees(math.atan2(p[2], math.hypot(p[0], p[1])))


def is_pole_corner(c):
    return abs(c[1]) == 90.0


def angdist(a, b):
    return 2.0 * math.asin(min(1.0, 0.5 * float(np.linalg.norm(a - b))))


def diameter(P):
    """largest angular distance between two corners (unit vectors)"""
    return max(angdist(P[i], P[j]) for i in range(len(P)) for j in range(i))


def edge_normal(a, b):
    """unit normal of the plane of the arc a -> b, computed as a x (b - a): no cancellation for
    edges of any length"""
    n = np.cross(a, b - a)
    return n / np.linalg.norm(n)


def convex_ccw(face, margin=None):
    """every corner strictly left of every edge it does not touch (margin relative to the face),
    no edge shorter than 1 % of the diameter or close to 180 degrees"""
    P = [xyz_of(*c) for c in face]
    n = len(P)
    d = diameter(P)
    mg = max(2e-14, 1e-9 * d) if margin is None else margin
    for i in range(n):
        a, b = P[i], P[(i + 1) % n]
        L = float(np.linalg.norm(a - b))
        if L < 1e-2 * d or L < 1e-9 or float(np.dot(a, b)) < -0.99:
            return False
        nrm = edge_normal(a, b)
        for j in range(n):
            if j == i or j == (i + 1) % n:
                continue
            if float(np.dot(nrm, P[j] - a)) <= mg:
                return False
    return True


def pole_dets(face):
    """(north, south) margins: smallest sine of the signed distance of the pole from the edges'
    great circles (positive for every edge <=> that pole is inside the counter-clockwise face)"""
    P = [xyz_of(*c) for c in face]
    n = len(P)
    dn = [float(edge_normal(P[i], P[(i + 1) % n])[2]) for i in range(n)]
    return min(dn), min(-d for d in dn)     # north margin, south margin


def pole_margin_of(face):
    """how far (sine of the angle) the pole has to stay from every edge's great circle to count as
    decided: relative to the size of the face"""
    return min(POLE_MARGIN, max(1e-13, 1e-4 * diameter([xyz_of(*c) for c in face])))


def lon_extent(face):
    lons = sorted(c[0] % 360.0 for c in face if not is_pole_corner(c))
    if len(lons) < 2:
        return 0.0
    gaps = [lons[i + 1] - lons[i] for i in range(len(lons) - 1)] + [lons[0] + 360.0 - lons[-1]]
    return 360.0 - max(gaps)


def admissible(face, pole_margin=None, convex_margin=None):
    """inside the property's quantifier, with a margin (relative to the face) from its borders"""
    if not (3 <= len(face) <= 8) or not convex_ccw(face, convex_margin):
        return False
    pm = pole_margin_of(face) if pole_margin is None else pole_margin
    mn, ms = pole_dets(face)
    has_pc = any(is_pole_corner(c) for c in face)
    for c in face:      # a corner closer than 1e-8 rad to a pole but not on it is not a distinct position
        if not is_pole_corner(c) and 90.0 - abs(c[1]) < 6e-7:
            return False
    if not has_pc and (abs(mn) <= pm or abs(ms) <= pm):
        return False
    enclosed = (mn > pm or ms > pm) and not has_pc
    if not enclosed and lon_extent(face) >= 179.0:
        return False
    return True


def gnomonic(rng, centre, n, rad, ecc=None, rot=None):
    """convex planar polygon (points of an ellipse with half-axes tan(rad), ecc*tan(rad), the long
    axis turned by `rot` from the east direction) in the tangent plane at `centre`, projected"""
    c = xyz_of(*centre)
    a = np.cross([0.0, 0.0, 1.0], c)
    if np.linalg.norm(a) < 1e-6:
        a = np.array([1.0, 0.0, 0.0])
    a = a / np.linalg.norm(a)
    b = np.cross(c, a)
    if rng.random() < 0.5:
        angs = sorted(rng.uniform(0, TWO_PI) for _ in range(n))
    else:       # jittered equal spacing: no two corners close together
        t0 = rng.uniform(0, TWO_PI)
        angs = sorted((t0 + TWO_PI * (k + rng.uniform(-0.35, 0.35)) / n) % TWO_PI for k in range(n))
    ea = math.tan(rad)
    eb = ea * (ecc if ecc is not None else rng.uniform(0.3, 1.0))
    rot = rng.uniform(0, math.pi) if rot is None else rot
    out = []
    for t in angs:
        u, v = ea * math.cos(t), eb * math.sin(t)
        u, v = u * math.cos(rot) - v * math.sin(rot), u * math.sin(rot) + v * math.cos(rot)
        lo, la = lonlat_of(c + u * a + v * b)
        out.append((round(lo, 13), round(la, 13)))
    return out


def rotate(rng, face):
    k = rng.randrange(len(face))
    return face[k:] + face[:k]


# ---- SIZE: a random dimension of every face ---------------------------------------------------

def draw_size(rng, big_only=False):
    """-> (radius in rad | None = the class's classic size, ecc, rot).  Diameters log-uniform from
    ~1e-7 rad (sub-metre) to ~1.2 rad; anisotropic faces down to a thin extent of ~1e-6 rad (and
    proportionally thinner tiny faces), the thin direction along latitude, along longitude or
    oblique."""
    if rng.random() < 0.35:
        return None, None, None
    lo = -1.7 if big_only else -7.0
    d = 10 ** rng.uniform(lo, math.log10(1.2))
    if rng.random() < 0.5:
        ecc = rng.uniform(0.3, 1.0)
    else:
        ecc = 10 ** rng.uniform(-1.3 if big_only else -5.5, 0.0)
        ecc = max(ecc, min(1.0, 3e-8 / d), 1e-6 / d if d > 1e-4 else 0.0)
    rot = rng.choice([0.0, math.pi / 2, rng.uniform(0, math.pi)])
    return d / 2, min(1.0, ecc), rot


def size_bucket(d):
    e = math.floor(math.log10(max(d, 1e-12)))
    return "size:1e%d..1e%d" % (e, e + 1)


# ---- generator classes -------------------------------------------------------------------

def anywhere(rng):
    return rng.uniform(-180, 180), math.degrees(math.asin(rng.uniform(-0.99, 0.99)))


def gen_generic(rng, size):
    rad, ecc, rot = size
    if rad is None:
        return gnomonic(rng, anywhere(rng), rng.randint(3, 8), rng.choice([0.02, 0.1, 0.3, 0.5]) * rng.uniform(0.5, 1.0))
    return gnomonic(rng, anywhere(rng), rng.randint(3, 8), rad, ecc, rot)


def gen_bulge(rng):
    """high-latitude faces with long east-west edges: the arc bulges poleward of both end points"""
    sgn = rng.choice([1, -1])
    lo0 = rng.uniform(-180, 180)
    dlo = rng.uniform(20, 120)
    la1 = rng.uniform(30, 75)
    la2 = la1 + rng.uniform(3, 14)
    f = [(lo0, la1), (lo0 + dlo, la1 + rng.uniform(-1, 1)), (lo0 + dlo * rng.uniform(0.9, 1.0), la2),
         (lo0 + dlo * rng.uniform(0.0, 0.1), la2 + rng.uniform(-1, 1))]
    if rng.random() < 0.5:
        f = [f[0], f[1], f[2]] if rng.random() < 0.5 else [f[0], f[2], f[3]]
    if sgn < 0:
        f = [(lo, -la) for lo, la in f][::-1]
    return [(round(((lo + 180) % 360) - 180, 9), round(la, 9)) for lo, la in f]


def gen_meridian(rng, size):
    """faces crossing the antimeridian or the prime meridian (including ones on the equator)"""
    rad, ecc, rot = size
    lat0 = rng.choice([rng.uniform(-80, 80), rng.uniform(-4, 4)])
    if rad is None:
        return gnomonic(rng, (rng.choice([180.0, 0.0]) + rng.uniform(-3, 3), lat0), rng.randint(3, 8), rng.uniform(0.05, 0.4))
    # the centre within half a radius of the seam, so that the face really crosses it
    off = math.degrees(rad) * rng.uniform(-0.5, 0.5) / max(math.cos(math.radians(lat0)), 0.1)
    return gnomonic(rng, (rng.choice([180.0, 0.0]) + off, lat0), rng.randint(3, 8), rad, ecc, rot)


def gen_near_pole(rng, size):
    """the pole is outside the face but only a few face diameters away"""
    rad, ecc, rot = size
    if rad is None:
        rad, ecc, rot = 10 ** rng.uniform(-6.5, -0.7), rng.uniform(0.3, 1.0), None
    colat = min(rad * rng.uniform(1.3, 6.0), 0.5)
    return gnomonic(rng, (rng.uniform(-180, 180), rng.choice([1, -1]) * (90.0 - math.degrees(colat))), rng.randint(3, 8),
                    rad, ecc, rot)


def gen_equator_corner(rng, size):
    """one or two corners at latitude exactly 0, the face in one hemisphere; any longitude, also across
    longitude 0 and 180"""
    rad, _, _ = size
    w = math.degrees(2 * rad) if rad is not None else rng.uniform(2, 40)       # extent in longitude (deg)
    h = w * rng.choice([rng.uniform(0.3, 1.0), 10 ** rng.uniform(-3, 0)])        # extent in latitude
    w, h = min(w, 60.0), min(h, 60.0)
    sgn = rng.choice([1, -1])
    lon0 = rng.choice([rng.uniform(-180, 180), rng.uniform(-w / 2, w / 2), 180.0 + rng.uniform(-w / 2, w / 2), 300.0])
    k = rng.choice([1, 2])
    m = rng.randint(1, 4) if k == 2 else rng.randint(2, 5)
    ts = sorted(rng.uniform(0.12, 0.88) * math.pi for _ in range(m))
    if k == 2:
        f = [(lon0 + w / 2, 0.0)] + [(lon0 + w / 2 * math.cos(t), h * math.sin(t)) for t in ts] + [(lon0 - w / 2, 0.0)]
    else:
        f = [(lon0 + rng.uniform(-0.3, 0.3) * w, 0.0)] + [(lon0 + w / 2 * math.cos(t), h * (0.35 + math.sin(t))) for t in ts]
    if sgn < 0:
        f = [(lo, -la) for lo, la in f][::-1]
    return [(round(((lo + 180) % 360) - 180, 13), 0.0 if la == 0 else round(la, 13)) for lo, la in f], f"{'north' if sgn > 0 else 'south'}-{k}"


def gen_pole_corner(rng, size):
    rad, _, _ = size
    sgn = rng.choice([1, -1])
    n = rng.randint(3, 8)
    lo0 = rng.uniform(0, 360)
    span = rng.uniform(10, 160)
    lons = sorted(lo0 + rng.uniform(0, span) for _ in range(n - 1))
    if rad is None:
        base = rng.uniform(20, 85)
        ring = [(l, base + rng.choice([0.0, rng.uniform(-4, 4)])) for l in lons]
    else:       # a sliver of that size hanging from the pole
        col = math.degrees(min(2 * rad, 1.2))
        ring = [(l, 90.0 - col * rng.choice([1.0, rng.uniform(0.8, 1.0)])) for l in lons]
    mode = rng.choice(["adjacent", "zero", "random"])
    plon = {"adjacent": ring[0][0], "zero": 0.0, "random": rng.uniform(0, 360)}[mode]
    f = ring + [(plon, 90.0)]
    if sgn < 0:
        f = [(lo, -la) for lo, la in f][::-1]
    return [(round(((lo + 180) % 360) - 180, 13), round(la, 13)) for lo, la in f], mode


def gen_pole_enclosed(rng, size):
    rad, ecc, rot = size
    sgn = rng.choice([1, -1])
    if rng.random() < 0.5:
        if rad is None:
            f = gnomonic(rng, (rng.uniform(-180, 180), sgn * rng.uniform(80, 90)), rng.randint(3, 8), rng.uniform(0.25, 0.7))
        else:   # the pole somewhere inside a face of that size
            rad = min(rad, 0.6)
            e = max(ecc, 0.05)
            f = gnomonic(rng, (rng.uniform(-180, 180), sgn * (90.0 - math.degrees(rad * e * rng.uniform(0.0, 0.6)))),
                         rng.randint(3, 8), rad, e, rot)
        return f, "offcentre"
    n = rng.randint(3, 8)
    off = rng.choice([0.0, 0.0, rng.uniform(0, 360)])
    la = rng.uniform(35, 88) if rad is None else 90.0 - math.degrees(min(rad, 0.9))
    irregular = rng.random() < 0.5
    jl = 1.0 if rad is None else min(1.0, (90.0 - la) / 10.0)
    f = []
    for k in range(n):
        lo = off + 360.0 * k / n + (rng.uniform(-8, 8) if irregular and (k or off) else 0.0)
        f.append((lo, la + (rng.uniform(-3, 3) * jl if irregular else 0.0)))
    if sgn < 0:
        f = [(lo, -l) for lo, l in f][::-1]
    return [(round(((lo + 180) % 360) - 180, 13), round(l, 13)) for lo, l in f], ("ring-lon0" if off == 0.0 else "ring")


CLASSIC = (None, None, None)
def _rot_to(q, target):
    """rotation matrix taking the unit vector q to the unit vector target"""
    v = np.cross(q, target)
    sn, cs = float(np.linalg.norm(v)), float(np.dot(q, target))
    if sn < 1e-12:
        return np.eye(3) if cs > 0 else np.diag([1.0, -1.0, -1.0])
    k = v / sn
    Kx = np.array([[0, -k[2], k[1]], [k[2], 0, -k[0]], [-k[1], k[0], 0]])
    return np.eye(3) + sn * Kx + (1 - cs) * (Kx @ Kx)


def gen_pole_large(rng):
    """LARGE faces (circumradius 40-85 degrees, convex, inside a hemisphere, every edge < 180 degrees)
    with the pole anywhere inside: near a corner, near an edge, centred; corners on both sides of the
    equator; either pole; listed counter-clockwise or clockwise"""
    n = rng.randint(3, 8)
    rad = math.radians(rng.uniform(40, 85))
    f = gnomonic(rng, (0.0, 0.0), n, rad, rng.uniform(0.5, 1.0))
    P = [xyz_of(*c) for c in f]
    cen = np.sum(P, axis=0)
    cen /= np.linalg.norm(cen)
    where = rng.choice(["corner", "edge", "centre", "anywhere"])
    k = rng.randrange(n)
    if where == "corner":
        q = P[k] * rng.uniform(0.85, 0.97) + cen * rng.uniform(0.03, 0.15)
    elif where == "edge":
        mid = P[k] + P[(k + 1) % n]
        q = mid / np.linalg.norm(mid) * rng.uniform(0.85, 0.97) + cen * rng.uniform(0.03, 0.15)
    elif where == "centre":
        q = cen
    else:
        w = [rng.random() for _ in range(n)]
        q = sum(wi * p for wi, p in zip(w, P))
    q = q / np.linalg.norm(q)
    sgn = rng.choice([1, -1])
    R = _rot_to(q, np.array([0.0, 0.0, float(sgn)]))
    spin = rng.uniform(0, TWO_PI)
    Rz = np.array([[math.cos(spin), -math.sin(spin), 0], [math.sin(spin), math.cos(spin), 0], [0, 0, 1]])
    out = [lonlat_of(Rz @ (R @ p)) for p in P]
    return [(round(lo, 13), round(la, 13)) for lo, la in out], "large/" + where


CLASSIC = (None, None, None)
GENS = [("generic", 5), ("bulge", 2), ("meridian", 3), ("pole-corner", 2), ("pole-enclosed", 3), ("near-pole", 2),
        ("equator-corner", 2), ("pole-large", 2), ("straddle-long-edge", 2)]


def gen_face(rng, big_only=False):
    names = [g for g, w in GENS for _ in range(w)]
    for _ in range(400):
        kind = rng.choice(names)
        size = draw_size(rng, big_only)
        sub = ""
        if kind == "generic":
            f = gen_generic(rng, size)
        elif kind == "bulge":
            f = gen_bulge(rng)
        elif kind == "meridian":
            f = gen_meridian(rng, size)
        elif kind == "near-pole":
            f = gen_near_pole(rng, size)
        elif kind == "equator-corner":
            f, sub = gen_equator_corner(rng, size)
        elif kind == "pole-corner":
            f, sub = gen_pole_corner(rng, size)
        elif kind == "pole-large":
            f, sub = gen_pole_large(rng)
        elif kind == "straddle-long-edge":
            f, sub = gen_straddle_long_edge(rng)
        else:
            f, sub = gen_pole_enclosed(rng, size)
        f = [(float(lo), float(la)) for lo, la in f]
        if admissible(f):
            if kind == "pole-large":
                mn, ms = pole_dets(f)
                if max(mn, ms) <= pole_margin_of(f):        # the pole must really be inside
                    continue
                f = rotate(rng, f)
                return (f[::-1], "pole-enclosed/" + sub + "/cw") if rng.random() < 0.5 else (f, "pole-enclosed/" + sub + "/ccw")
            return rotate(rng, f), kind + ("/" + sub if sub else "")
        GEN_REJECTS[kind + (":classic" if size[0] is None else ":" + size_bucket(2 * size[0]))] += 1
    raise RuntimeError("generator could not produce an admissible face")


from collections import Counter as _Counter
GEN_REJECTS = _Counter()


def gen_straddle_long_edge(rng):
    """LARGE non-polar faces with a long edge (90-175 degrees) whose end points straddle the equator
    (small |lat| on one side, mid latitude on the other, 100-170 degrees apart in longitude) and whose
    great circle's apex lies INSIDE the edge: the arc is not monotone in latitude although it crosses
    the equator.  Triangles and quads, the rest of the face on either side of the long edge, and the
    mirrored southern version."""
    for _ in range(400):
        lon0 = rng.uniform(-180, 180)
        dlon = rng.uniform(100, 170)
        A = (lon0, -rng.uniform(0.5, 12))
        B = (lon0 + dlon, rng.uniform(20, 60))
        a, b = xyz_of(*A), xyz_of(*B)
        d = float(np.dot(a, b))
        if not (b[2] - d * a[2] > 1e-3 and a[2] - d * b[2] > 1e-3):     # apex strictly inside the arc
            continue
        north_side = rng.random() < 0.5
        m = rng.choice([1, 2])
        ts = sorted(rng.uniform(0.2, 0.8) for _ in range(m))
        if north_side:      # A -> B eastwards, the other corners north of the long edge
            others = [(lon0 + dlon * (1 - t), rng.uniform(62, 86)) for t in ts]
            f = [A, B] + others
        else:               # the other corners south of it: B -> A is the long edge
            others = [(lon0 + dlon * t, -rng.uniform(15, 70)) for t in ts]
            f = [A] + others + [B]
        sub = "north-side" if north_side else "south-side"
        if rng.random() < 0.5:      # mirrored: the long edge bulges towards the south pole
            f = [(lo, -la) for lo, la in f][::-1]
            sub += "/mirrored"
        f = [(round(((lo + 180) % 360) - 180, 9), round(la, 9)) for lo, la in f]
        if admissible(f) and not any(x > pole_margin_of(f) for x in pole_dets(f)):
            return f, sub
    raise RuntimeError("no straddling face")


def gen_pole_opposite_meanz(rng, count):
    """large pole-enclosing faces whose corner-mean lies in the OTHER hemisphere (the pole close to a
    corner or an edge, the remaining corners past the equator): 'which pole' cannot be read off the
    corners' mean latitude.  Both poles, both orientations, 3..8 corners."""
    out = []
    while len(out) < count:
        f, sub = gen_pole_large(rng)
        f = [(float(lo), float(la)) for lo, la in f]
        if not admissible(f):
            continue
        mn, ms = pole_dets(f)
        if max(mn, ms) <= pole_margin_of(f):
            continue
        sgn = 1 if mn > ms else -1
        if sgn * sum(math.sin(math.radians(la)) for _, la in f) >= -0.02:
            continue
        f = rotate(rng, f)
        out.append((f[::-1], "pole-enclosed/opposite-meanz/cw") if rng.random() < 0.5 else (f, "pole-enclosed/opposite-meanz/ccw"))
    return out


def gen_directed(rng, n_base):
    """faces across longitude 0 and across +-180, each listed from EVERY start corner and in BOTH
    orientations (the longitude insertion order decides which end of the interval is replaced and
    whether the interval wraps at that moment).  Kept away from the poles, so that the reversed
    listing cannot be mistaken for a pole face by the orientation determinants of the oracle."""
    out = []
    while len(out) < n_base:
        lon0 = rng.choice([0.0, 180.0]) + rng.uniform(-2, 2)
        lat0 = rng.choice([rng.uniform(-60, 60), rng.uniform(-3, 3)])
        f = gnomonic(rng, (lon0, lat0), rng.randint(3, 6), rng.uniform(0.05, 0.35))
        f = [(float(lo), float(la)) for lo, la in f]
        lons = [((lo - lon0 + 180) % 360) - 180 for lo, _ in f]
        if not admissible(f) or min(lons) >= 0 or max(lons) <= 0:      # must really cross the meridian
            continue
        out.append((f, "lon0" if abs(lon0) < 90 else "lon180"))
    items = []
    for f, tag in out:
        for k in range(len(f)):
            r = f[k:] + f[:k]
            items.append((r, f"directed/{tag}/ccw"))
            items.append((r[::-1], f"directed/{tag}/cw"))
    return items


# ----------------------------------------------------------------------------------------
# the FORM of the coordinate input (a random dimension of every case)
# ----------------------------------------------------------------------------------------
#   dtype   f64 | f32 | i64 | i32 | pylist   (integers: whole degrees, faces on the integer lattice)
#   path    topo (Grid.from_topology lon/lat) | open_latlon (ux.open_grid(vertices, latlon=True)) |
#           open_xyz (ux.open_grid(vertices, latlon=False), unit sphere or radius R) |
#           dataset (Grid.from_dataset of a UGRID xr.Dataset)
#   lon     pm180 ([-180,180)) | 0_360 ([0,360))
#   norm    call Grid.normalize_cartesian_coordinates() before reading the bounds
PLAIN = dict(dtype="f64", path="topo", lon="pm180", norm=False, R=1.0)
NP_DTYPE = dict(f64=np.float64, f32=np.float32, i64=np.int64, i32=np.int32, pylist=np.int64)
TOL32 = 2e-5         # rad: ~170 float32 round-offs (coordinates, xyz and the arc algebra run in float32)
POLE_MARGIN32 = 1e-3
SNAP_ZONE = 1.5e-4     # rad: |z| > 1 - ERROR_TOLERANCE  <=>  closer than sqrt(2e-8) = 1.414e-4 rad to a pole


def pick_form(rng):
    if rng.random() < 0.4:
        return dict(PLAIN)
    path = rng.choice(["topo", "topo", "open_latlon", "open_xyz", "dataset"])
    if path == "open_xyz":
        dtype = rng.choice(["f64", "f32"])
    elif path == "dataset":
        dtype = rng.choice(["f64", "f32", "i64", "i32"])
    else:
        dtype = rng.choice(["f64", "f32", "i64", "i32", "pylist"])
    return dict(dtype=dtype, path=path, lon=rng.choice(["pm180", "0_360"]), norm=rng.random() < 0.3,
                R=rng.choice([1.0, 6371.0, 0.25]) if path == "open_xyz" else 1.0)


def is_int(form):
    return form["dtype"] in ("i64", "i32", "pylist")


def form_tol(form):
    return TOL32 if form["dtype"] == "f32" else TOL


def form_tag(form):
    return "/float32" if form["dtype"] == "f32" else ""


def supplied(face, form):
    """the face as the source supplies it: degrees in the chosen convention, exactly representable in
    the chosen dtype (None when an integer form is asked for a face that is not on the lattice)"""
    out = []
    for lo, la in face:
        lo = ((lo + 180.0) % 360.0) - 180.0
        if form["lon"] == "0_360":
            lo = lo % 360.0
        if is_int(form):
            if lo != round(lo) or la != round(la):
                return None
            out.append((float(round(lo)), float(round(la))))
        elif form["dtype"] == "f32" and form["path"] != "open_xyz":
            out.append((float(np.float32(lo)), float(np.float32(la))))
        else:
            out.append((float(lo), float(la)))
    return out


def supplied_xyz(face, form):
    """vertices handed to open_grid(latlon=False), after the dtype cast"""
    P = np.array([xyz_of(*c) * form["R"] for c in face])
    return P.astype(NP_DTYPE[form["dtype"]])


def exact_positions(face, form):
    """unit vectors of the positions the source supplied (float64)"""
    if form["path"] == "open_xyz":
        P = supplied_xyz(face, form).astype(np.float64)
        return [p / np.linalg.norm(p) for p in P]
    return [xyz_of(*c) for c in face]


def lattice_face(rng):
    """a generated face snapped to whole degrees (exact in every integer form)"""
    for _ in range(400):
        kind = rng.choice(["generic", "generic", "bulge", "meridian", "pole-corner", "pole-enclosed"])
        sub = ""
        if kind == "generic":
            f = gnomonic(rng, (rng.uniform(-180, 180), math.degrees(math.asin(rng.uniform(-0.98, 0.98)))),
                         rng.randint(3, 7), rng.uniform(0.12, 0.5))
        elif kind == "bulge":
            f = gen_bulge(rng)
        elif kind == "meridian":
            f = gnomonic(rng, (rng.choice([180.0, 0.0]) + rng.uniform(-3, 3), rng.choice([rng.uniform(-75, 75), rng.uniform(-4, 4)])),
                         rng.randint(3, 7), rng.uniform(0.12, 0.4))
        elif kind == "pole-corner":
            f, sub = gen_pole_corner(rng, CLASSIC)
        else:
            f, sub = gen_pole_enclosed(rng, CLASSIC)
        g = []
        for lo, la in f:
            c = (float(((round(lo) + 180) % 360) - 180), float(max(-90, min(90, round(la)))))
            if not g or g[-1] != c:
                g.append(c)
        if len(g) > 1 and g[0] == g[-1]:
            g.pop()
        if len(set(g)) == len(g) and admissible(g):
            return rotate(rng, g), "lattice/" + kind + ("/" + sub if sub else "")
    raise RuntimeError("no lattice face")


# ----------------------------------------------------------------------------------------
# implementation side
# ----------------------------------------------------------------------------------------

def _cast(vals, form):
    if form["dtype"] == "pylist":
        return [int(v) for v in vals]
    if is_int(form):
        return np.array([int(v) for v in vals], dtype=NP_DTYPE[form["dtype"]])
    return np.array(vals, dtype=NP_DTYPE[form["dtype"]])


def build_grids(ux, faces, form):
    """-> list of (grid, [face index]) — one grid, or one per corner count for the open_grid paths"""
    import xarray as xr

    path = form["path"]
    if path in ("topo", "dataset"):
        lon, lat, conn = [], [], []
        w = max(len(f) for f in faces)
        for f in faces:
            row = []
            for lo, la in f:
                row.append(len(lon))
                lon.append(lo)
                lat.append(la)
            conn.append(row + [INT_FILL] * (w - len(f)))
        conn = np.array(conn, dtype=np.int64)
        if path == "topo":
            g = ux.Grid.from_topology(node_lon=_cast(lon, form), node_lat=_cast(lat, form),
                                      face_node_connectivity=conn, fill_value=INT_FILL)
        else:
            ds = xr.Dataset({
                "mesh": xr.DataArray(0, attrs=dict(cf_role="mesh_topology", topology_dimension=2,
                                                   node_coordinates="node_lon node_lat",
                                                   face_node_connectivity="face_node_connectivity")),
                "node_lon": (("n_node",), _cast(lon, form), dict(standard_name="longitude", units="degrees_east")),
                "node_lat": (("n_node",), _cast(lat, form), dict(standard_name="latitude", units="degrees_north")),
                "face_node_connectivity": (("n_face", "n_max_face_nodes"), conn,
                                           dict(cf_role="face_node_connectivity", start_index=0, _FillValue=INT_FILL)),
            })
            g = ux.Grid.from_dataset(ds)
        return [(g, list(range(len(faces))))]
    out = []
    for n in sorted({len(f) for f in faces}):
        idx = [i for i, f in enumerate(faces) if len(f) == n]
        if path == "open_latlon":
            if form["dtype"] == "pylist":
                verts = [[[int(lo), int(la)] for lo, la in faces[i]] for i in idx]
            elif is_int(form):
                verts = np.array([[[int(lo), int(la)] for lo, la in faces[i]] for i in idx], dtype=NP_DTYPE[form["dtype"]])
            else:
                verts = np.array([faces[i] for i in idx], dtype=NP_DTYPE[form["dtype"]])
            g = ux.open_grid(verts, latlon=True)
        else:
            verts = np.array([supplied_xyz(faces[i], form) for i in idx])
            g = ux.open_grid(verts, latlon=False)
        out.append((g, idx))
    return out


def grid_views(g, k):
    """corners of the grid's first k faces as the implementation stores them"""
    lon = np.mod(np.deg2rad(np.asarray(g.node_lon.values, dtype=np.float64)), TWO_PI)
    lat = np.deg2rad(np.asarray(g.node_lat.values, dtype=np.float64))
    # the (repaired) algorithm works on unit vectors in double precision
    P = np.array([g.node_x.values, g.node_y.values, g.node_z.values], dtype=np.float64)
    X, Y, Z = P / np.linalg.norm(P, axis=0)
    fnc = g.face_node_connectivity.values
    out = []
    for r in range(k):
        ids = [int(i) for i in fnc[r] if i != INT_FILL]
        out.append([(float(lon[i]), float(lat[i]), float(X[i]), float(Y[i]), float(Z[i])) for i in ids])
    return out


def is_typing_error(e):
    return type(e).__name__ in ("TypingError", "NumbaTypeError", "UnsupportedError") or "numba" in type(e).__module__


def observe(ux, faces, form=None):
    """-> list of (box | exception, impl_view) per face; impl_view = corners as the grid stores them"""
    form = form or PLAIN
    try:
        res = [None] * len(faces)
        for g, idx in build_grids(ux, faces, form):
            if form["norm"]:
                g.normalize_cartesian_coordinates()
            B = np.asarray(g.bounds.values, dtype=float)
            V = grid_views(g, len(idx))
            for r, i in enumerate(idx):
                res[i] = (B[r], V[r])
        return res
    except Exception as e:
        if len(faces) == 1:
            try:
                g, _ = build_grids(ux, faces, form)[0]
                v = grid_views(g, 1)[0]
            except Exception:
                v = None
            return [(e, v)]
    out = []
    for f in faces:
        out += observe(ux, [f], form)
    return out


# ----------------------------------------------------------------------------------------
# judging one face
# ----------------------------------------------------------------------------------------

def classify(face, kind):
    mn, ms = pole_dets(face)
    pc = any(is_pole_corner(c) for c in face)
    zs = [math.sin(math.radians(c[1])) for c in face]
    loc = "north" if all(z > 0 for z in zs) else "south" if all(z < 0 for z in zs) else "equator"
    P = [xyz_of(*c) for c in face]
    n = len(P)
    ref_in = all(float(np.cross(P[i], P[(i + 1) % n])[0]) > 0 for i in range(n))     # (1,0,0) inside
    on_ref = any(abs(math.sin(math.radians(c[0]))) < 1e-9 and math.cos(math.radians(c[0])) > 0 and not is_pole_corner(c) for c in face)
    # does the boundary cross the reference half-meridian (longitude 0, the arc pole -> (1,0,0) -> pole)?
    crosses = False
    xs = []
    for i in range(n):
        a, b = P[i], P[(i + 1) % n]
        if a[1] * b[1] <= 0 and not (a[1] == 0 and b[1] == 0):
            t = a[1] / (a[1] - b[1])
            if a[0] + t * (b[0] - a[0]) > 0:
                crosses = True
                q = a + t * (b - a)
                xs.append(q / np.linalg.norm(q))
    # the end point (1,0,0) of the reference arc lies ON the boundary (an edge along the equator through
    # longitude 0), or a corner lies within 1e-7 rad of a pole (the start point of the reference arc,
    # compared with ERROR_TOLERANCE = 1e-8): whether these touches are counted is decided by rounding
    ref_on_bnd = any(P[i][2] == 0.0 and P[(i + 1) % n][2] == 0.0 and P[i][1] * P[(i + 1) % n][1] <= 0
                     and P[i][0] > 0 and P[(i + 1) % n][0] > 0 for i in range(n))
    pole_hit = any(0 < math.hypot(p[0], p[1]) < 1e-7 for p in P)
    # two crossings of the reference meridian closer than ERROR_TOLERANCE are merged by _unique_points
    merged = any(float(np.linalg.norm(xs[i] - xs[j])) < 1.5e-8 for i in range(len(xs)) for j in range(i))
    pm = pole_margin_of(face)
    colats = [math.atan2(math.hypot(p[0], p[1]), abs(p[2])) for p, c in zip(P, face) if not is_pole_corner(c)]
    snap = bool(colats) and min(colats) < SNAP_ZONE
    return dict(snap_zone=snap, diameter=diameter(P), crossings_merged=merged, ref_point_on_boundary=ref_on_bnd,
                corner_within_1e7_of_pole=pole_hit, pole_corner=pc, enclosed=(not pc and (mn > pm or ms > pm)), loc=loc,
                ref_inside=ref_in, corner_on_ref_meridian=on_ref, crosses_ref_meridian=crosses, kind=kind)


def signature(cl, fails, box, tol=TOL):
    if cl["snap_zone"]:
        # positions closer than 1.414e-4 rad to a pole are not resolved by the ERROR_TOLERANCE snap of
        # _xyz_to_lonlat_rad(_scalar): one input class, one cause, whatever clause it breaks
        return "C13/pole-snap-zone"
    full = abs(box[1][0]) <= tol and abs(box[1][1] - TWO_PI) <= tol
    reports_pole = full and (abs(box[0][1] - math.pi / 2) <= tol or abs(box[0][0] + math.pi / 2) <= tol)
    if reports_pole and not cl["enclosed"] and not cl["pole_corner"]:
        if cl["corner_on_ref_meridian"]:
            return "C13/false-pole/corner-on-ref-meridian"
        if cl["crossings_merged"]:
            return "C13/false-pole/crosses-ref-meridian/crossings-closer-than-1e-8"
        return f"C13/false-pole/{cl['loc']}/" + ("crosses-ref-meridian" if cl["crosses_ref_meridian"] else "other")
    if "enclosed_pole" in fails:
        return "C13/pole-missed/" + ("corner-on-ref-meridian" if cl["corner_on_ref_meridian"] else "other")
    branch = "pole-corner" if cl["pole_corner"] else "pole-enclosed" if cl["enclosed"] else "normal-face"
    for c in ("lat_enclosure", "lon_enclosure", "lat_tight", "lon_tight"):
        if c in fails:
            return f"C13/{c}/{branch}"
    return "C13/unknown"


def judge(ctx, face, kind, obs, form=None):
    form = form or PLAIN
    d = ctx.driver
    box, view = obs
    cw = kind.endswith("/cw")
    # classification and oracle work on the counter-clockwise listing (the verdict is about the face as
    # a set); the implementation and the model get the corners in the order supplied
    cl = classify(face[::-1] if cw else face, kind)
    inp = dict(face=[list(c) for c in face], kind=kind, classes=cl, form=form)
    key = (tuple(map(tuple, face)), tuple(sorted(form.items())))
    P = exact_positions(face, form)
    if cw:
        P = P[::-1]
    diam = diameter(P)
    # relative tightness: an absolute 1e-9 rad checks nothing on a 1e-7 rad face.  Near a pole the
    # implementation's arcsin(z) loses digits (conditioning 1/distance-to-pole): float evaluation, absorbed
    colat = min([math.atan2(math.hypot(p[0], p[1]), abs(p[2])) for p in P if math.hypot(p[0], p[1]) > 1e-12] or [1.0])
    tol = max(min(TOL, max(1e-12, 1e-6 * diam)), 8e-16 / max(colat, 1e-9))
    if form["dtype"] == "f32":
        tol = max(tol, TOL32)
    tag = form_tag(form)
    ctx.hit(size_bucket(diam))
    ctx.hit("form:dtype=" + form["dtype"])
    ctx.hit("form:path=" + form["path"])
    ctx.hit("form:lon=" + form["lon"])
    if form["norm"]:
        ctx.hit("form:normalized")
    if form["R"] != 1.0:
        ctx.hit("form:radius!=1")
    for t in ("pole_corner", "enclosed", "ref_inside", "corner_on_ref_meridian", "crosses_ref_meridian", "snap_zone"):
        if cl[t]:
            ctx.hit(t)
    ctx.hit("kind=" + kind)
    ctx.hit("n=%d" % len(face))
    ctx.hit("loc=" + cl["loc"])
    if isinstance(box, Exception) and is_typing_error(box):
        # numba cannot type this coordinate dtype: C08's listed finding, noted and not judged here
        ctx.hit("noted:numba-typing-error:" + form["dtype"])
        return
    if isinstance(box, Exception):
        ctx.case(key, sample=None)
        miss = "pole-missed/" + ("corner-on-ref-meridian" if cl["corner_on_ref_meridian"] else "other") if cl["enclosed"] else "other"
        if cl["snap_zone"]:
            miss = "pole-snap-zone"
        ctx.fail(f"C13/raises/{type(box).__name__}/{miss}{tag}",
                 f"Grid.bounds raises {type(box).__name__}: {box}", inp, repr(box), None, ["raises"])
        return
    ib = [[float(box[0][0]), float(box[0][1])], [float(box[1][0]), float(box[1][1])]]
    oracle_xyz = P
    if view is None or len(view) != len(face):
        ctx.fail(f"C13/corners/{form['path']}{tag}", f"the grid built from the face has {0 if view is None else len(view)} corners, the face {len(face)}",
                 inp, dict(bounds=ib), None, ["corners"])
        return
    toks = ["1", str(K), enc_float(tol), enc_float(0.1 * pole_margin_of(face)), str(len(face))]
    if cw:
        ctx.hit("orientation:cw")
    for (lo, la, x, y, z) in view:
        toks += [enc_float(v) for v in (lo, la, x, y, z)]
    for p in oracle_xyz:
        toks += [enc_float(v) for v in p]
    toks += [enc_float(v) for v in (ib[0][0], ib[0][1], ib[1][0], ib[1][1])]
    r = common.Tok(d.ask("C13.judge", *toks))
    hasN, hasS = r.int(), r.int()
    mb = [[r.float(), r.float()], [r.float(), r.float()]]
    fi, fm = r.int(), r.int()
    poleN, poleS = r.float(), r.float()
    need = [[r.float(), r.float()], [r.float(), r.float()]]
    fails = [c for i, c in enumerate(CLAUSES) if fi >> i & 1]
    mfails = [c for i, c in enumerate(CLAUSES) if fm >> i & 1]
    ctx.case(key, nontrivial=True, sample=dict(inp, implementation=ib) if len(face) <= 4 else None)
    ctx.hit("model-branch=" + ("pole" if hasN or hasS else "normal"))
    if poleN > 0.1 * pole_margin_of(face) or poleS > 0.1 * pole_margin_of(face):
        ctx.hit("oracle:pole-inside")
    lon_w = (ib[1][1] - ib[1][0]) % TWO_PI
    if ib[1][0] > ib[1][1]:
        ctx.hit("box-wraps-through-0")
    impl = dict(bounds=ib)
    model = dict(repaired=mb, has_north=bool(hasN), has_south=bool(hasS), model_fails=mfails, needed=need,
                 pole_margin_north=poleN, pole_margin_south=poleS)
    if fails:
        sig = signature(cl, fails, ib, tol)
        if not (sig.startswith("C13/false-pole/") or sig in ("C13/pole-missed/corner-on-ref-meridian", "C13/pole-snap-zone")):
            sig += tag      # these two do not depend on the precision of the coordinates
        ctx.fail(sig,
                 f"Grid.bounds {ib} violates {fails}; the boundary needs {need} ({kind}, {len(face)} corners, form {form})",
                 inp, impl, model, fails)
        return
    # correspondence with the (repaired) Lean transcription
    def differs(a, b):
        if any(x != x for x in sum(b, [])):
            return True
        dl = max(abs(a[0][0] - b[0][0]), abs(a[0][1] - b[0][1]))
        dlon = max(min(abs(a[1][i] - b[1][i]), TWO_PI - abs(a[1][i] - b[1][i])) for i in (0, 1))
        return dl > tol or dlon > tol

    if differs(ib, mb):
        if cl["corner_within_1e7_of_pole"]:
            # a corner within 1e-7 rad of a pole: whether the pole counts as "on the boundary" is decided
            # by ERROR_TOLERANCE-sized comparisons and end-point rounding inside point_within_gca, which
            # the model idealises (C14's subject); the implementation's box has just been judged by the
            # oracle, only the comparison is skipped.  (The winding test has no reference meridian: corners
            # on longitude 0 and edges through (1,0,0) are compared like every other face.)
            ctx.hit("degenerate:corner-within-1e-7-of-pole:model-not-compared")
        else:
            ctx.mismatch("C13/model-vs-impl", inp, impl, model)


def face_ok(face, kind, form):
    f = face[::-1] if kind.endswith("/cw") else face
    if form["dtype"] == "f32":
        if diameter([xyz_of(*c) for c in f]) < 1e-2:
            return False        # not representable: float32 resolves ~1e-7 rad
        return admissible(f, pole_margin=POLE_MARGIN32, convex_margin=1e-5)
    return admissible(f)


def run_faces(ctx, items, form=None, rng=None):
    """judge (face, kind) items; `form` fixed, or drawn per chunk from `rng` (integer forms take their
    faces from the lattice generator instead of the chunk)"""
    import uxarray as ux

    B = 24
    for s in range(0, len(items), B):
        chunk = items[s:s + B]
        fm = dict(form) if form else (pick_form(rng) if rng is not None else dict(PLAIN))
        if is_int(fm) and rng is not None:
            chunk = [lattice_face(rng) for _ in chunk]
        todo = []
        for f, kind in chunk:
            g = supplied(f, fm)
            if g is None or not face_ok(g, kind, fm):
                ctx.hit("dropped:not-admissible-in-this-form")
                continue
            todo.append((g, kind))
        if not todo:
            continue
        obs = observe(ux, [f for f, _ in todo], fm)
        for (f, kind), o in zip(todo, obs):
            judge(ctx, f, kind, o, fm)


def run(ctx):
    ctx.rule = ("convex 3..8-gons: gnomonic images of inscribed ellipse polygons anywhere on the sphere, high-latitude faces "
                "with long east-west edges (poleward bulge), faces on the prime/anti-meridian (also on the equator), faces "
                "with a corner exactly at a pole (nominal pole longitude adjacent / 0 / random), faces enclosing a pole "
                "(off-centre, regular and irregular rings, rings with a corner on longitude 0); random traversal start; "
                "a directed stream of faces across longitude 0 / 180 listed from every start corner in both orientations; "
                "LARGE pole-enclosing faces (circumradius 40-85 deg, convex, inside a hemisphere) with the pole near a corner / near an "
                "edge / centred / anywhere, corners on both sides of the equator, either pole, listed counter-clockwise or clockwise, "
                "plus a stream of such faces whose corner mean lies in the other hemisphere; "
                "LARGE non-polar triangles/quads with an edge of 90-175 deg whose end points straddle the equator and whose apex lies "
                "inside the edge (the rest of the face north or south of it; mirrored southern version); "
                "the FORM of the coordinate input is drawn per batch: dtype float64/float32/int64/int32/Python ints (integer forms on "
                "whole-degree lattice faces), construction by from_topology / open_grid(latlon=True) / open_grid(xyz, radius 1, 6371, 0.25) / "
                "from_dataset, longitudes in [-180,180) or [0,360), with or without normalize_cartesian_coordinates(); the oracle judges against "
                "the positions exactly as supplied (float32 forms: tolerance 2e-5 rad); "
                "SIZE is drawn per face: diameter log-uniform 1e-7..1.2 rad, anisotropic faces down to ~1e-6 rad thin, the thin "
                "direction along latitude / longitude / oblique; faces beside a pole (a few diameters away) and faces with one or two "
                "corners exactly on the equator; verdict tolerance clamp(1e-6*diameter, 1e-12, 1e-9) rad; "
                "faces whose pole-to-edge distance is below 1e-4 of their diameter are not generated; "
                "distinct = distinct corner lists")
    ctx.assumptions = [
        "np.mod / deg2rad / node_x,y,z of the grid are inputs of the model (C04 is about their agreement)",
        "the repaired pole test is the winding of the boundary about the polar axis (np.arctan2 is a parameter of the model); "
        "point_within_gca enters only the 'pole on an edge' touch test and is idealised there (C14 is about it)",
        "tolerance clamp(1e-6*diameter, 1e-12, 1e-9) rad (+ 8e-16/distance-to-pole) for enclosure, attainment and model/implementation "
        "agreement (2e-5 rad when the coordinates are float32)",
        "dtype promotion / conversion of the supplied coordinates is exercised by the form dimension, not modelled (the model is over a field)",
    ]
    rng = ctx.rng
    corpus = []
    for f in sorted((common.CORPUS / "C13").glob("*.json")):
        j = json.loads(f.read_text())
        corpus.append(([tuple(map(float, c)) for c in j["face"]], j.get("kind", "corpus")))
    run_faces(ctx, corpus)
    # whole-degree hand-built grids in every integer form (small, always run)
    for dt, path in (("i64", "topo"), ("i32", "topo"), ("pylist", "topo"), ("pylist", "open_latlon"), ("i64", "dataset")):
        fm = dict(PLAIN, dtype=dt, path=path, lon=rng.choice(["pm180", "0_360"]))
        run_faces(ctx, [lattice_face(rng) for _ in range(ctx.n(12, 120))], form=fm)
    run_faces(ctx, gen_directed(rng, ctx.n(24, 400)), rng=rng)
    # pole-enclosing faces whose corners lie mostly in the other hemisphere (always run, plain + drawn forms)
    run_faces(ctx, gen_pole_opposite_meanz(rng, ctx.n(24, 240)))
    run_faces(ctx, gen_pole_opposite_meanz(rng, ctx.n(24, 240)), rng=rng)
    # long edges across the equator with the apex inside the edge (always run)
    run_faces(ctx, [(rotate(rng, f), "straddle-long-edge/" + sub) for f, sub in (gen_straddle_long_edge(rng) for _ in range(ctx.n(36, 360)))])
    B = 24
    for _ in range(ctx.n(1500, 60000) // B):
        fm = pick_form(rng)
        if is_int(fm):
            chunk = [lattice_face(rng) for _ in range(B)]
        else:
            chunk = [gen_face(rng, big_only=(fm["dtype"] == "f32")) for _ in range(B)]
        run_faces(ctx, chunk, form=fm)
    for k, v in GEN_REJECTS.items():
        ctx.stats["generator-rejected:" + k] += v
    GEN_REJECTS.clear()


def replay(ctx, rp):
    inp = rp["input"]
    face = [tuple(c) for c in inp["face"]]
    run_faces(ctx, [(face, inp.get("kind", "replay"))], form=inp.get("form") or PLAIN)
