"""C14 — arc predicates and intersections agree with exact spherical geometry.

Lean side (Props/C14.lean): the exact predicates `OnArc`, `intersections`, `extremeMax/Min` of
`Model/Arcs.lean` are proved (over every ordered field, all direction vectors) to be what the
property describes: cone characterisation of the minor arc, soundness/completeness/uniqueness of
the reported intersections, invariance under swapping ends / swapping arcs / rotation about the
polar axis, and "the closed form of extreme_gca_latitude is the largest/smallest latitude over
all points of the arc".

Tie (this file): the real `point_within_gca`, `gca_gca_intersection`, `extreme_gca_latitude`
are run on correctly rounded floats of RATIONAL points of the unit sphere; the Lean driver decides
the same question at `Rat` (and the margin of the decision); only cases at least 1e-6 rad away
from every decision boundary are judged, the rest are counted.  Returned intersection points
(floats = dyadic rationals) are judged by the Lean predicate `nearArc` up to 1e-9.  The latitude
value is a float clause: judged against the exact value with the library's own ERROR_TOLERANCE.

Proposed, not applied (the findings they remove stay listed so that /repo is green):
fixes/C14-plane-test-relative-tolerance.patch (theorem-backed: plane_residual_error, double_plane_thresholds),
fixes/C14-extreme-endpoint-latitude.patch (needs C13's model to follow), fixes/C14-extreme-apex-from-normal.patch.

The model is the REPAIRED `point_within_gca` (fixes/C14-point-within-gca-vector-test.patch: the two
sign tests of `OnArc` for undirected arcs).  On the unrepaired tree the longitude/latitude interval
logic fails on arcs through / ending at / next to a pole (VIOLATION lines; minimised witnesses in
corpus/C14/asis-*.json, Lean counterparts `asis_*`).  Two tolerance-policy issues are known
findings (known_findings.d/C14.json); their signatures are computed from the input alone: the
double-precision plane residual of the candidate point vs MACHINE_EPSILON, and an end point with
|z| > 1 - ERROR_TOLERANCE that is not a pole.
"""

from __future__ import annotations

import math
from math import gcd

import numpy as np

from . import common

# ----------------------------------------------------------------------------------------------
# exact points: (X, Y, Z, R) integers with X²+Y²+Z² = R², R > 0  (the unit vector (X,Y,Z)/R)
# ----------------------------------------------------------------------------------------------


def _red(X, Y, Z, R):
    g = gcd(gcd(abs(X), abs(Y)), gcd(abs(Z), abs(R)))
    g = g or 1
    if R < 0:
        g = -g
    return (X // g, Y // g, Z // g, R // g)


def sph(u, v, w):
    """inverse stereographic projection with integer parameters"""
    return _red(2 * u * w, 2 * v * w, u * u + v * v - w * w, u * u + v * v + w * w)


def dot(a, b):
    return a[0] * b[0] + a[1] * b[1] + a[2] * b[2]


def cross(a, b):
    return (a[1] * b[2] - a[2] * b[1], a[2] * b[0] - a[0] * b[2], a[0] * b[1] - a[1] * b[0])


def reflect(a, g):
    """mirror image of the unit point `a` about the line spanned by the integer vector g:
    a rational unit point in the plane of a and g, at angle 2∠(a,g) from a"""
    ag, gg = dot(a, g), dot(g, g)
    if gg == 0:
        return a
    return _red(2 * ag * g[0] - a[0] * gg, 2 * ag * g[1] - a[1] * gg, 2 * ag * g[2] - a[2] * gg, a[3] * gg)


def comb(s, a, t, b):
    """integer direction of s·â + t·b̂ (â, b̂ the unit vectors)"""
    return tuple(s * a[i] * b[3] + t * b[i] * a[3] for i in range(3))


def rotz(p, k=(3, 4, 5)):
    c, s, h = k
    return _red(c * p[0] - s * p[1], s * p[0] + c * p[1], h * p[2], h * p[3])


def fl(p):
    """correctly rounded floats of the exact unit vector (Python int/int division is correctly rounded)"""
    assert p[3] > 0 and p[0] * p[0] + p[1] * p[1] + p[2] * p[2] == p[3] * p[3], "generator bug: not a unit vector"
    return [p[0] / p[3], p[1] / p[3], p[2] / p[3]]


NORTH, SOUTH = (0, 0, 1, 1), (0, 0, -1, 1)
PYTH = [(3, 4, 5), (5, 12, 13), (-4, 3, 5), (8, -15, 17), (-7, -24, 25)]


def rnd_point(rng, m=9):
    while True:
        u, v, w = rng.randint(-m, m), rng.randint(-m, m), rng.randint(-m, m)
        if u or v or w:
            return sph(u, v, w)


def equator_point(rng):
    while True:
        p, q = rng.randint(-9, 9), rng.randint(-9, 9)
        if p or q:
            return _red(p * p - q * q, 2 * p * q, 0, p * p + q * q)


def near_pole_point(rng):
    """colatitude between ~2e-6 and ~2e-4 rad (inside the implementation's pole snap of 1.4e-4 or just outside)"""
    w = rng.choice([10**4, 3 * 10**4, 10**5, 3 * 10**5, 10**6])
    u, v = rng.randint(-3, 3), rng.randint(-3, 3)
    if not (u or v):
        u = 1
    p = sph(u, v, w)  # Z < 0: near the south pole
    return p if rng.random() < 0.5 else (p[0], p[1], -p[2], p[3])


def arc_class(a, b):
    """exact class of the arc (for the input distribution and the signatures)"""
    n = cross(a, b)
    if (a[0] == 0 and a[1] == 0) or (b[0] == 0 and b[1] == 0):
        return "pole-endpoint"
    h = a[0] * b[0] + a[1] * b[1]
    if n[2] == 0 and h < 0:
        return "through-pole"
    if n[2] == 0:
        return "meridian"
    if a[2] == 0 and b[2] == 0:
        return "equator"
    # crosses the half plane y = 0, x < 0 ?
    if (a[1] > 0) != (b[1] > 0) or a[1] == 0 or b[1] == 0:
        ya, yb = abs(a[1]) * b[3], abs(b[1]) * a[3]
        px = a[0] * b[3] * yb + b[0] * a[3] * ya  # x of the chord point with y = 0 (scaled > 0)
        if (a[1] == 0 and a[0] < 0) or (b[1] == 0 and b[0] < 0) or (a[1] * b[1] < 0 and px < 0):
            return "antimeridian"
    return "generic"


def gen_arc(rng, kind):
    """a pair of exact unit points; validity (length in (0°,180°)) is decided by the Lean driver"""
    if kind == "generic":
        return rnd_point(rng), rnd_point(rng)
    if kind == "equator":
        return equator_point(rng), equator_point(rng)
    if kind == "pole-endpoint":
        a, b = rng.choice([NORTH, SOUTH]), rnd_point(rng)
        return (a, b) if rng.random() < 0.5 else (b, a)
    if kind == "meridian":
        a = rnd_point(rng)
        pole = rng.choice([NORTH, SOUTH])
        s, t = rng.randint(2, 9), rng.randint(1, 9)
        return a, reflect(a, comb(s, a, t, pole))
    if kind == "through-pole":
        a = rnd_point(rng)
        pole = NORTH if a[2] > 0 else SOUTH if a[2] < 0 else rng.choice([NORTH, SOUTH])
        if rng.random() < 0.3:
            return a, reflect(a, pole[:3])
        s, t = rng.randint(3, 9), rng.randint(0, 3)
        return a, reflect(a, comb(s, pole, t, a))
    if kind == "antimeridian":
        while True:
            a, b = rnd_point(rng), rnd_point(rng)
            if a[0] < 0 and b[0] < 0 and a[1] != 0 and b[1] != 0:
                a = (a[0], abs(a[1]), a[2], a[3])
                b = (b[0], -abs(b[1]), b[2], b[3])
                return (a, b) if rng.random() < 0.5 else (b, a)
    # ---- exact numeric boundaries of the closed forms (all inside the property's quantifier) ----
    if kind == "opposite-latitudes":  # z1 = -z2 exactly: the denominator of d_a_max is exactly 0
        a = rnd_point(rng)
        return a, rotz((a[0], a[1], -a[2], a[3]), rng.choice(PYTH))
    if kind == "quarter-turn":  # a.b = 0 exactly: two rows of a rational rotation matrix
        while True:
            p, q, r, s_ = (rng.randint(-5, 5) for _ in range(4))
            n = p * p + q * q + r * r + s_ * s_
            if n:
                rows = [(p * p + q * q - r * r - s_ * s_, 2 * (q * r - p * s_), 2 * (q * s_ + p * r), n),
                        (2 * (q * r + p * s_), p * p - q * q + r * r - s_ * s_, 2 * (r * s_ - p * q), n),
                        (2 * (q * s_ - p * r), 2 * (r * s_ + p * q), p * p - q * q - r * r + s_ * s_, n)]
                i, j = rng.sample(range(3), 2)
                return _red(*rows[i]), _red(*rows[j])
    if kind == "near-half-turn":  # 180° minus 2e-3 .. 2e-5 rad
        a, c = rnd_point(rng), rnd_point(rng)
        nb = reflect(a, comb(rng.choice([10**3, 10**4, 10**5]), a, 1, c))
        return a, (-nb[0], -nb[1], -nb[2], nb[3])
    if kind == "axis-planes":  # end points exactly on the equator / a pole / the prime meridian / the antimeridian
        def special():
            t = rng.randrange(5)
            if t == 0:
                return equator_point(rng)
            if t == 1:
                return rng.choice([NORTH, SOUTH])
            if t in (2, 3):
                while True:
                    u, w = rng.randint(-9, 9), rng.randint(-9, 9)
                    if u and w:
                        p = sph(u, 0, w)
                        if (p[0] > 0) == (t == 2) and p[0] != 0:
                            return p
            return rnd_point(rng)
        return special(), special()
    if kind == "near-pole":
        a = near_pole_point(rng)
        b = rnd_point(rng) if rng.random() < 0.7 else near_pole_point(rng)
        return (a, b) if rng.random() < 0.5 else (b, a)
    raise ValueError(kind)


def pick_arc(ctx, rng, kinds):
    k = rng.choice(kinds)
    ctx.hit(f"gen:arc-kind={k}")
    return gen_arc(rng, k)


ARC_KINDS = ["generic", "generic", "generic", "equator", "pole-endpoint", "meridian", "through-pole", "antimeridian",
             "opposite-latitudes", "quarter-turn", "near-half-turn", "axis-planes"]


def gen_query(rng, a, b, kind):
    """a query point for the arc (a,b); the exact relation is decided by the Lean driver"""
    if kind == "inside":
        s = rng.randint(2, 12)
        t = rng.randint(1, s - 1)
        return reflect(a, comb(s, a, t, b))
    if kind == "beyond":  # on the great circle, outside the arc
        s, t = rng.randint(1, 9), rng.randint(1, 9)
        g = comb(s, a, t + s, b) if rng.random() < 0.5 else comb(s, a, -t, b)
        return reflect(a, g)
    if kind == "near-end":  # on the great circle, 1e-3..1e-5 rad inside or outside an end point
        M = rng.choice([10**3, 10**4, 10**5, 3 * 10**5])
        e = rng.choice([1, -1])
        if rng.random() < 0.5:
            return reflect(a, comb(M, a, e, b))
        return reflect(b, comb(M, b, e, a))
    if kind == "off-circle":
        return rnd_point(rng)
    if kind == "near-circle":  # 1e-3..1e-5 rad off the circle, next to a point of the arc
        x = gen_query(rng, a, b, "inside")
        M = rng.choice([10**3, 10**4, 10**5])
        e = (rng.randint(-2, 2), rng.randint(-2, 2), rng.randint(-2, 2))
        g = tuple(M * x[i] + e[i] * x[3] for i in range(3))
        return reflect(x, g)
    if kind == "pole":
        return rng.choice([NORTH, SOUTH])
    if kind == "near-pole":
        return near_pole_point(rng)
    raise ValueError(kind)


QUERY_KINDS = ["inside", "inside", "inside", "beyond", "beyond", "near-end", "off-circle", "near-circle"]

# ----------------------------------------------------------------------------------------------
# judging
# ----------------------------------------------------------------------------------------------


def _v(p):
    return [int(p[0]), int(p[1]), int(p[2])]


def _u(p):
    return [int(p[0]), int(p[1]), int(p[2]), int(p[3])]


def _snap(x):
    """bytes of every ndarray reachable in an argument (None for anything else)"""
    if isinstance(x, np.ndarray):
        return (x.dtype.str, x.shape, x.tobytes())
    if isinstance(x, (list, tuple)):
        return tuple(_snap(e) for e in x)
    return None


def _unsnap(sn):
    if sn is None:
        return None
    if len(sn) == 3 and isinstance(sn[2], bytes):
        return np.frombuffer(sn[2], dtype=sn[0]).reshape(sn[1]).tolist()
    return [_unsnap(e) for e in sn]


def _vals(x):
    if isinstance(x, np.ndarray):
        return x.tolist()
    if isinstance(x, (list, tuple)):
        return [_vals(e) for e in x]
    return repr(x)


def _fail(ctx, sig, what, inp, impl_out, model_out, clauses):
    """record a spec failure; per signature only the first 100 are stored (all are counted)"""
    n = ctx.extra.setdefault("spec_failures_by_signature", {})
    n[sig] = n.get(sig, 0) + 1
    if n[sig] <= 100:
        ctx.fail(sig, what, inp, impl_out, model_out, clauses)


def directed_config(impl, A, B, P):
    """Is `is_directed=True` documented to mean the same minor arc for this input?  Decided exactly on the integers.

    The directed mode walks the longitudes from v0 to v1.  It means the minor arc (and must answer like the default
    mode) when the arc is not a meridian / through-a-pole / pole-ended arc (those have their own, unclear, directed
    rules), no point is in the pole-snap zone, no end point lies exactly on longitude 0 or 180, and either
      * "plain": the longitudes of the end points (in [0, 2pi)) differ by less than pi – the arc does not cross
        longitude 0, either order of the end points; or
      * "eastward-across-prime-meridian": v0 west of longitude 0 (lon0 > pi), v1 east of it (lon1 < pi), eastward span < pi.
    The opposite order of a prime-meridian-crossing arc is documented to raise ValueError ("span larger than 180"):
    "westward-across-prime-meridian", kept out.  Longitude differences within 1e-6 of 0 or pi are kept out as well."""
    if arc_class(A, B) in ("pole-endpoint", "through-pole", "meridian") or impl.snapped(A, B, P):
        return "excluded-polar-or-meridian"
    if A[1] == 0 or B[1] == 0 or (P[0] == 0 and P[1] == 0):
        return "excluded-on-lon-0-or-180"
    nz = A[0] * B[1] - A[1] * B[0]  # > 0: v1 is east of v0 by less than pi
    if nz * nz * 10**12 < (A[0] ** 2 + A[1] ** 2) * (B[0] ** 2 + B[1] ** 2):
        return "excluded-lon-difference-near-0-or-pi"
    crosses0 = (A[1] < 0 < B[1] and nz > 0) or (B[1] < 0 < A[1] and nz < 0)  # minor arc crosses longitude 0
    if not crosses0:
        return "plain"
    return "eastward-across-prime-meridian" if nz > 0 else "westward-across-prime-meridian"


def judge_onarc(ctx, impl, a, b, p, tag, k=None):
    d = ctx.driver
    valid, exact, cls, margin = (int(x) for x in d.ask("C14.onarc", *_v(a), *_v(b), *_v(p)).split())
    if not valid:
        ctx.hit("onarc:degenerate-arc-skipped")
        return
    if not margin:
        ctx.hit("onarc:near-tie-discarded")
        return
    ac = arc_class(a, b)
    qc = ["on-arc", "on-circle-off-arc", "off-circle"][cls]
    inp = dict(kind="onarc", a=_u(a), b=_u(b), p=_u(p), tag=tag)
    ctx.case(("onarc", a, b, p), nontrivial=(ac != "generic" or cls != 2), sample=dict(inp, exact=bool(exact), arc=ac, query=qc))
    ctx.hit(f"onarc:arc={ac}")
    ctx.hit(f"onarc:query={qc}")
    k = tuple(k) if k else ctx.rng.choice(PYTH)
    variants = [("as-given", a, b, p), ("ends-swapped", b, a, p), ("rotated-about-z", rotz(a, k), rotz(b, k), rotz(p, k))]
    # option dimension is_directed: only where the documented directed semantics coincide with the minor arc
    calls = [(n, A, B, P, False) for n, A, B, P in variants]
    for n, A, B, P in variants:
        cfg = directed_config(impl, A, B, P)
        ctx.hit(f"onarc:is_directed:{cfg}")
        if cfg in ("plain", "eastward-across-prime-meridian"):
            calls.append((n + ", is_directed=True", A, B, P, True))
    for name, A, B, P, directed in calls:
        impl.cur = (ctx, dict(inp, variant=name, rot=list(k)))
        try:
            if directed:
                got = bool(impl.point_within_gca(np.array(fl(P)), np.array([fl(A), fl(B)]), is_directed=True))
            else:
                got = bool(impl.point_within_gca(np.array(fl(P)), np.array([fl(A), fl(B)])))
        except Exception as e:  # noqa: BLE001
            got = f"raises {type(e).__name__}: {e}"[:120]
        if got == bool(exact):
            continue
        if directed:
            vac = arc_class(A, B) + "/" + directed_config(impl, A, B, P)
            if exact and got is False and impl.plane_residual(A, B, P) > impl.eps:
                sig = "C14/point_within_gca/on-arc-rejected/plane-residual>MACHINE_EPSILON"
            else:
                kind = "raises" if isinstance(got, str) else "on-arc-rejected" if exact else f"{qc}-accepted"
                sig = f"C14/point_within_gca[is_directed=True]/{kind}/arc={vac}"
            _fail(ctx, sig, f"point_within_gca(..., is_directed=True) answers {got!r} for a minor arc given in a direction for which the directed "
                  f"semantics are the minor arc; the exact membership (and the default mode) is {bool(exact)} ({qc} query, {vac}, {name})",
                  dict(inp, variant=name, rot=list(k)), got, bool(exact), ["onArc_exact"])
            continue
        vac = arc_class(A, B) + ("+pole-snapped-point" if impl.snapped(A, B, P) else "")
        if exact and got is False and impl.plane_residual(A, B, P) > impl.eps:
            vac = None
        if isinstance(got, str):
            what, kind = f"point_within_gca raises on a valid arc ({vac}, {qc} query, {name})", "raises"
        elif exact:
            what, kind = f"point_within_gca rejects a point that is exactly on the arc ({vac} arc, {name})", "on-arc-rejected"
        else:
            what, kind = f"point_within_gca accepts a point that is not on the arc ({qc}, {vac} arc, {name})", f"{qc}-accepted"
        sig = f"C14/point_within_gca/{kind}/arc={vac}" if vac else "C14/point_within_gca/on-arc-rejected/plane-residual>MACHINE_EPSILON"
        _fail(ctx, sig, what, dict(inp, variant=name, rot=list(k)), got, bool(exact), ["onArc_exact"])


def judge_meet(ctx, impl, a, b, c, d_, tag, k=None):
    d = ctx.driver
    r = d.ask("C14.meet", *_v(a), *_v(b), *_v(c), *_v(d_)).split()
    valid, diff, margin, count = (int(x) for x in r[:4])
    if not valid or not diff:
        ctx.hit("meet:degenerate-or-same-circle-skipped")
        return
    if not margin:
        ctx.hit("meet:near-tie-discarded")
        return
    exact_pt = [int(x) for x in r[4:7]] if count else None
    inp = dict(kind="meet", a=_u(a), b=_u(b), c=_u(c), d=_u(d_), tag=tag)
    acs = (arc_class(a, b), arc_class(c, d_))
    ctx.case(("meet", a, b, c, d_), nontrivial=(count == 1 or acs != ("generic", "generic")),
             sample=dict(inp, exact_count=count, exact_direction=exact_pt) if count else None)
    ctx.hit("meet:crossing" if count else "meet:disjoint")
    for x in set(acs):
        ctx.hit(f"meet:arc={x}")
    k = tuple(k) if k else ctx.rng.choice(PYTH)
    R = lambda p: rotz(p, k)  # noqa: E731
    for name, A, B, C, D in (("as-given", a, b, c, d_), ("arcs-swapped", c, d_, a, b), ("first-ends-swapped", b, a, c, d_),
                             ("second-ends-swapped", a, b, d_, c), ("rotated-about-z", R(a), R(b), R(c), R(d_))):
        cls = _special(arc_class(A, B), arc_class(C, D)) + ("+pole-snapped-point" if impl.snapped(A, B, C, D) else "")
        impl.cur = (ctx, dict(inp, variant=name, rot=list(k)))
        try:
            pts = np.asarray(impl.gca_gca_intersection(np.array([fl(A), fl(B)]), np.array([fl(C), fl(D)])))
            pts = pts.reshape(-1, 3) if pts.size else np.zeros((0, 3))
        except Exception as e:  # noqa: BLE001
            _fail(ctx, f"C14/gca_gca_intersection/raises/arcs={cls}", f"gca_gca_intersection raises {type(e).__name__}: {e}"[:160] + f" ({name})",
                     dict(inp, variant=name, rot=list(k)), None, count, ["intersections_exact"])
            continue
        got = [[float(v) for v in row] for row in pts]
        if len(got) != count:
            kind = "crossing-not-reported" if len(got) < count else "spurious-intersection"
            res = impl.candidate_residual(A, B, C, D)
            if len(got) < count and res > impl.eps:
                cls = None
                ctx.hit("meet:crossing-missed-by-plane-tolerance")
            what = (f"gca_gca_intersection reports {len(got)} point(s) for two arcs that have exactly {count} common point(s) "
                    f"({cls}; {name})")
            sig = f"C14/gca_gca_intersection/{kind}/arcs={cls}" if cls else "C14/gca_gca_intersection/crossing-not-reported/candidate-plane-residual>MACHINE_EPSILON"
            _fail(ctx, sig, what + f" [candidate plane residual {res:.3g}]", dict(inp, variant=name, rot=list(k)), got, dict(count=count, direction=exact_pt),
                     ["disjoint_none" if count == 0 else "crossing_one"])
            continue
        for row in got:
            v = d.ask("C14.near", *_v(A), *_v(B), *_v(C), *_v(D), *(common.enc_float(t) for t in row))
            ctx.hit("meet:returned-point-checked")
            if v != "ok":
                clauses = v.split(" ", 1)[1].split(",")
                _fail(ctx, f"C14/gca_gca_intersection/point-off-arc/arcs={cls}", f"returned intersection point is not on both arcs within 1e-9 ({v}; {name})",
                         dict(inp, variant=name, rot=list(k)), got, dict(count=count, direction=exact_pt), clauses)


_ORDER = ["pole-endpoint", "through-pole", "meridian", "equator", "antimeridian", "generic"]


def _special(c1, c2):
    return min((c1, c2), key=_ORDER.index)


def near_half_turn(a, b):
    """exact input class: the arc is within 1e-2 rad of half a turn (1 + cos < 5e-5) – there the interpolation
    node3 = (1-d) n1 + d n2 of the closed form cancels; the resulting error along the circle is first order in
    latitude when the apex is a pole and grows with tan(latitude of the apex) otherwise"""
    rr = a[3] * b[3]
    return (rr + dot(a, b)) * 20000 < rr


def exact_lat(apex, num, den, sign):
    if apex:  # value is sin² of the latitude
        return sign * math.atan2(math.sqrt(num), math.sqrt(den - num))
    return math.atan2(num, math.sqrt(den * den - num * num))


def judge_extreme(ctx, impl, a, b, tag, tol, k=None):
    d = ctx.driver
    r = [int(x) for x in d.ask("C14.extreme", *_u(a), *_u(b)).split()]
    valid, margin = r[0], r[1]
    if not valid:
        ctx.hit("extreme:degenerate-arc-skipped")
        return
    if not margin:
        ctx.hit("extreme:near-tie-discarded")
        return
    want = dict(max=exact_lat(r[2], r[3], r[4], 1.0), min=exact_lat(r[5], r[6], r[7], -1.0))
    ac = arc_class(a, b)
    inp = dict(kind="extreme", a=_u(a), b=_u(b), tag=tag)
    ctx.case(("extreme", a, b), nontrivial=bool(r[2] or r[5] or ac != "generic"), sample=dict(inp, exact=want, apex_inside=bool(r[2]), nadir_inside=bool(r[5])))
    ctx.hit(f"extreme:arc={ac}")
    ctx.hit("extreme:north-apex-inside" if r[2] else "extreme:south-apex-inside" if r[5] else "extreme:monotone")
    ci, ce = d.ask("C14.codeform", *_u(a), *_u(b)).split()
    if ci != ce:
        ctx.mismatch("C14/closed-form-branch (theorem code_dmax_iff contradicted)", inp, ci, ce)
    k = tuple(k) if k else ctx.rng.choice(PYTH)
    for name, A, B in (("as-given", a, b), ("ends-swapped", b, a), ("rotated-about-z", rotz(a, k), rotz(b, k))):
        for which in ("max", "min"):
            impl.cur = (ctx, dict(inp, variant=name, rot=list(k), which=which))
            try:
                got = float(impl.extreme_gca_latitude(np.array([fl(A), fl(B)]), which))
            except Exception as e:  # noqa: BLE001
                _fail(ctx, f"C14/extreme_gca_latitude/raises/arc={arc_class(A, B)}", f"extreme_gca_latitude raises {type(e).__name__}: {e}"[:160],
                         dict(inp, variant=name, rot=list(k), which=which), None, want[which], ["extreme_is_" + which])
                continue
            err = abs(got - want[which])
            key = "extreme_max_abs_err_snapped_endpoint" if impl.snapped(A, B) else "extreme_max_abs_err"
            ctx.extra[key] = max(ctx.extra.get(key, 0.0), err if err == err else float("inf"))
            # float clause: library tolerance on the latitude; a latitude obtained as asin(z) of a
            # double z cannot resolve better than 4 ulp of z next to a pole, so that is accepted too
            if not (err <= tol or abs(math.sin(got) - math.sin(want[which])) <= 4 * 2.2204460492503131e-16):
                branch = "apex" if (r[2] if which == "max" else r[5]) else "endpoint"
                sig = f"C14/extreme_gca_latitude/{which}/{branch}/arc={arc_class(A, B)}"
                if impl.snapped(A, B):
                    sig = "C14/extreme_gca_latitude/end-point-snapped-to-pole"
                elif branch == "apex" and near_half_turn(A, B):
                    sig = "C14/extreme_gca_latitude/interior-extreme/arc-within-1e-2rad-of-half-turn"
                _fail(ctx, sig,
                         f"extreme_gca_latitude(..., '{which}') = {got!r} but the {which}imum latitude over the arc is {want[which]!r} "
                         f"(error {err:.3g} rad, {name})", dict(inp, variant=name, rot=list(k), which=which), got, want[which], ["extreme_is_" + which])


# ----------------------------------------------------------------------------------------------


class Impl:
    def __init__(self):
        from uxarray.constants import ERROR_TOLERANCE, MACHINE_EPSILON
        from uxarray.grid.arcs import extreme_gca_latitude, point_within_gca
        from uxarray.grid.intersections import gca_gca_intersection
        from uxarray.utils import computing

        # every call goes through a purity guard: the bytes of every ndarray argument (also inside
        # lists) are compared before/after the call
        self.cur = None  # (ctx, input record) of the case being judged
        self.point_within_gca = self._guard("point_within_gca", point_within_gca)
        self.gca_gca_intersection = self._guard("gca_gca_intersection", gca_gca_intersection)
        self.extreme_gca_latitude = self._guard("extreme_gca_latitude", extreme_gca_latitude)
        self.tol = float(ERROR_TOLERANCE)
        self.eps = float(MACHINE_EPSILON)
        self._c = computing

    def _guard(self, name, fn):
        def call(*args, **kw):
            before = [_snap(a) for a in args]
            try:
                return fn(*args, **kw)
            finally:
                for k, a in enumerate(args):
                    if before[k] is not None and _snap(a) != before[k] and self.cur is not None:
                        ctx, inp = self.cur
                        ctx.hit(f"purity:{name}:modified-arg{k}")
                        _fail(ctx, f"C14/{name}/modifies-input/arg={k}",
                              f"{name} changes the values of its argument {k} (the caller's array): a later primitive given the same "
                              f"object answers for different points", inp, dict(after=_vals(a)), dict(before=_unsnap(before[k])),
                              ["session_state_const"])

        return call

    # ---- input classes that depend on the library's own constants (used in signatures only) ----
    def snapped(self, *pts):
        """some point is not a pole but so close to one that `_xyz_to_lonlat_rad_scalar` reports the pole
        (|z| > 1 - ERROR_TOLERANCE, i.e. within 1.41e-4 rad)"""
        return any((p[0] or p[1]) and abs(p[2] / p[3]) > 1.0 - self.tol for p in pts)

    def plane_residual(self, A, B, P):
        """|(A×B)·P| evaluated in double precision exactly as the implementation does (its plane test
        compares this number with MACHINE_EPSILON)"""
        c = self._c
        return abs(float(c.dot(c.cross(np.array(fl(A)), np.array(fl(B))), np.array(P if not isinstance(P, tuple) else fl(P)))))

    def candidate_residual(self, A, B, C, D):
        """largest plane residual of the candidate intersection ±x the implementation forms"""
        c = self._c
        w0, w1, v0, v1 = (np.array(fl(q)) for q in (A, B, C, D))
        n1, n2 = c.cross(w0, w1), c.cross(v0, v1)
        x = c.cross(n1, n2)
        x = x / c.norm(x)
        return max(abs(float(c.dot(n1, x))), abs(float(c.dot(n2, x))))


# ----------------------------------------------------------------------------------------------
# call sequences on ONE arc object (purity: the primitives behave like functions of the values)
# ----------------------------------------------------------------------------------------------

FORMS = ["ndarray", "list-of-arrays", "strided-rows-view", "strided-cols-view", "fortran-order", "list-of-row-views"]
_FILL = [[0.6, 0.8, 0.0], [0.0, 0.0, 1.0], [0.28, -0.96, 0.0]]


def make_arc_object(form, fa, fb):
    """the two end points in one of the argument forms callers use: a (2,3) array, a list of two arrays,
    non-contiguous views of a bigger node array, a list of row views of a node array"""
    if form == "ndarray":
        return np.array([fa, fb])
    if form == "list-of-arrays":
        return [np.array(fa), np.array(fb)]
    if form == "fortran-order":
        return np.asfortranarray(np.array([fa, fb]))
    if form == "strided-cols-view":
        m = np.zeros((2, 6))
        m[:, 1::2] = 7.25
        m[:, ::2] = [fa, fb]
        return m[:, ::2]
    nodes = np.array([_FILL[0], fa, _FILL[1], _FILL[2], fb])
    if form == "strided-rows-view":
        return nodes[1::3]
    if form == "list-of-row-views":
        return [nodes[1], nodes[4]]
    raise ValueError(form)


def _apply(impl, op, g):
    """one call of a session on the arc object g; the other arguments are always fresh"""
    try:
        if op["op"] == "extreme":
            return ("float", float(impl.extreme_gca_latitude(g, op["which"])))
        if op["op"] == "within":
            return ("bool", bool(impl.point_within_gca(np.array(fl(tuple(op["p"]))), g)))
        other = np.array([fl(tuple(op["c"])), fl(tuple(op["d"]))])
        pts = np.asarray(impl.gca_gca_intersection(g, other) if op["pos"] == 0 else impl.gca_gca_intersection(other, g))
        return ("points", [[float(v) for v in row] for row in (pts.reshape(-1, 3) if pts.size else [])])
    except Exception as e:  # noqa: BLE001
        return ("raises", f"{type(e).__name__}: {e}"[:120])


def _same(x, y):
    if x[0] != y[0]:
        return False
    if x[0] == "float":
        return x[1] == y[1] or (x[1] != x[1] and y[1] != y[1])
    return x[1] == y[1]


_PRIM = dict(extreme="extreme_gca_latitude", within="point_within_gca", meet="gca_gca_intersection")


def judge_session(ctx, impl, a, b, form, ops, tag):
    """2–4 primitives, in the given order, on the SAME arc object; every answer must equal the answer on a
    fresh object of the same form built from the original values, no call may change the object, and every
    answer is judged against exact geometry as usual"""
    d = ctx.driver
    r = [int(x) for x in d.ask("C14.extreme", *_u(a), *_u(b)).split()]
    if not r[0]:
        ctx.hit("session:degenerate-arc-skipped")
        return
    fa, fb = fl(a), fl(b)
    inp = dict(kind="session", a=_u(a), b=_u(b), form=form, ops=ops, tag=tag)
    ctx.case(("session", a, b, form, repr(ops)), nontrivial=True, sample=inp if len(ops) <= 2 else None)
    ctx.hit(f"session:form={form}")
    ctx.hit("session:interior-extreme" if (r[2] or r[5]) else "session:no-interior-extreme")
    ctx.hit(f"session:calls={len(ops)}")
    g = make_arc_object(form, fa, fb)
    original = _snap(g)
    for i, op in enumerate(ops):
        impl.cur = (ctx, dict(inp, step=i))
        ctx.hit(f"session:op={op['op']}")
        shared = _apply(impl, op, g)
        fresh = _apply(impl, op, make_arc_object(form, fa, fb))
        if not _same(shared, fresh):
            _fail(ctx, f"C14/{_PRIM[op['op']]}/answer-depends-on-call-history",
                  f"call {i} ({op['op']}) of a sequence on one {form} arc object answers {shared[1]!r}, the same call on a fresh object with "
                  f"the original values answers {fresh[1]!r}" + ("" if _snap(g) == original else " (the object no longer holds the original values)"),
                  dict(inp, step=i), shared[1], fresh[1], ["session_answers"])
    # exact-geometry verdicts of the same questions (fresh arrays, all symmetric variants)
    if any(op["op"] == "extreme" for op in ops):
        judge_extreme(ctx, impl, a, b, tag, impl.tol)
    for op in ops:
        if op["op"] == "within":
            judge_onarc(ctx, impl, a, b, tuple(op["p"]), tag)
        elif op["op"] == "meet":
            c, d_ = tuple(op["c"]), tuple(op["d"])
            judge_meet(ctx, impl, *((a, b, c, d_) if op["pos"] == 0 else (c, d_, a, b)), tag)


def gen_session(ctx, rng):
    """an arc (with an interior extreme latitude in most sessions) and 2–4 calls in random order"""
    want_interior = rng.random() < 0.8
    for _ in range(8):
        a, b = pick_arc(ctx, rng, ARC_KINDS)
        if cross(a, b) == (0, 0, 0):
            continue
        r = [int(x) for x in ctx.driver.ask("C14.extreme", *_u(a), *_u(b)).split()]
        if r[0] and (not want_interior or r[2] or r[5]):
            break
    else:
        return None
    ops = []
    for _ in range(rng.randint(2, 4)):
        kind = rng.choice(["extreme", "extreme", "within", "within", "meet"])
        if kind == "extreme":
            ops.append(dict(op="extreme", which=rng.choice(["max", "min"])))
        elif kind == "within":
            ops.append(dict(op="within", p=_u(gen_query(rng, a, b, rng.choice(["inside", "inside", "beyond", "near-circle"])))))
        else:
            c, d_ = gen_crossing(rng, a, b)
            ops.append(dict(op="meet", c=_u(c), d=_u(d_), pos=rng.randint(0, 1)))
    if want_interior and not any(o["op"] == "extreme" for o in ops[:-1]):
        ops.insert(0, dict(op="extreme", which=rng.choice(["max", "min"])))
        ops = ops[:4]
    return a, b, rng.choice(FORMS), ops


def gen_crossing(rng, a, b):
    """a second arc built around a rational point x of the first arc (crossing, touching near an
    end, or stopping short of it)"""
    x = gen_query(rng, a, b, rng.choice(["inside", "inside", "inside", "near-end", "beyond"]))
    c = rnd_point(rng)
    mode = rng.random()
    if mode < 0.55:  # x strictly inside (c,d)
        s = rng.randint(2, 9)
        g = comb(s, x, rng.randint(0, s - 1), c)
    elif mode < 0.75:  # d stops short of x
        t = rng.randint(2, 9)
        g = comb(rng.randint(1, t - 1), x, t, c)
    else:  # x just inside / just outside the end d (1e-3 .. 1e-5 rad)
        M = rng.choice([10**3, 10**4, 10**5])
        g = comb(M, x, M + rng.choice([1, -1]), c)
    return c, reflect(c, g)


def run(ctx):
    impl = Impl()
    rng = ctx.rng
    ctx.rule = ("rational unit vectors (stereographic, |params| ≤ 9; reflections for points on a given great circle); arcs: generic, "
                "equator, meridian, through a pole, ending at a pole, across the antimeridian, near-pole end points, and the exact numeric "
                "boundaries of the closed forms: end points at exactly opposite latitudes (denominator of d_a_max exactly 0), exact quarter "
                "turns, half turn minus 2e-3..2e-5 rad, end points exactly on the equator / a pole / the prime meridian / the antimeridian; queries: inside the "
                "arc, on the circle beyond an end, 1e-3..1e-5 rad inside/outside an end, off the circle, 1e-3..1e-5 rad off the circle, the "
                "poles; second arcs built through / short of / just touching a rational point of the first; every case also with ends "
                "swapped, arcs swapped and rotated about z by a Pythagorean angle; only cases whose exact margin (Lean, ℚ) is ≥ 1e-6 are "
                "judged; distinct = distinct exact input; non-trivial = special arc class, on-circle query, crossing, or apex inside; "
                "purity: the bytes of every ndarray argument of EVERY call are compared before/after; call sequences: 2-4 primitives "
                "(extreme max/min, point_within_gca with points along the arc, gca_gca_intersection with a constructed second arc, as "
                "first or second argument) in random order on ONE arc object (80% with an interior extreme latitude) given as (2,3) "
                "array, list of arrays, Fortran order, row-/column-strided view of a bigger array, list of row views; every answer must "
                "equal the answer on a fresh object of the same form holding the original values")
    ctx.assumptions = [
        "the implementation receives the correctly rounded doubles of the exact rational unit vectors; IEEE evaluation inside it is not modelled",
        "latitude values are compared with ERROR_TOLERANCE (1e-8 rad) or 4 ulp of sin(latitude), whichever is weaker",
        "the parallel (same great circle) branch of gca_gca_intersection is outside the property and not exercised",
        "is_directed=True is judged (same exact membership) only where the documented directed semantics are the minor arc: plain arcs and "
        "arcs given eastwards across longitude 0; kept out: the order documented to raise ValueError, meridian / through-a-pole / "
        "pole-ended arcs (directed rules unclear), points in the pole-snap zone, end points exactly on longitude 0 or 180",
        "the Lean primitives are functions (session_state_const, session_answers); that the implementation behaves like a function of the "
        "values is tied by the byte comparison of every argument and by the shared-object call sequences; float32 arguments are only noted",
    ]
    # minimised past failures first (the stored input only, no generator, no seed)
    for f in sorted((common.CORPUS / "C14").glob("*.json")):
        import json

        ctx.hit("corpus")
        _judge_input(ctx, impl, json.loads(f.read_text())["input"], "corpus:" + f.stem)
    kinds = ARC_KINDS + ["near-pole"]
    for _ in range(ctx.n(12000, 400000)):
        a, b = pick_arc(ctx, rng, kinds)
        q = rng.choice(QUERY_KINDS + ["pole", "near-pole"])
        judge_onarc(ctx, impl, a, b, gen_query(rng, a, b, q), q)
    for _ in range(ctx.n(6000, 200000)):
        a, b = pick_arc(ctx, rng, kinds)
        if rng.random() < 0.7:
            if cross(a, b) == (0, 0, 0):
                continue
            c, d_ = gen_crossing(rng, a, b)
            tag = "constructed"
        else:
            c, d_ = pick_arc(ctx, rng, kinds)
            tag = "independent"
        if rng.random() < 0.5:
            a, b, c, d_ = c, d_, a, b
        judge_meet(ctx, impl, a, b, c, d_, tag)
    for _ in range(ctx.n(6000, 200000)):
        a, b = pick_arc(ctx, rng, kinds)
        judge_extreme(ctx, impl, a, b, "generated", impl.tol)
    for _ in range(ctx.n(2500, 60000)):
        sess = gen_session(ctx, rng)
        if sess is not None:
            judge_session(ctx, impl, *sess, "generated")
    # argument forms outside the judged domain: recorded, not judged
    try:
        impl.cur = None
        impl.extreme_gca_latitude(np.array([[0.6, 0.0, 0.8], [0.0, 0.6, 0.8]], dtype=np.float32), "max")
        ctx.extra["float32_arguments"] = "accepted (not judged)"
    except Exception as e:  # noqa: BLE001
        ctx.extra["float32_arguments"] = f"rejected with {type(e).__name__} (not judged)"


def _judge_input(ctx, impl, inp, tag):
    t = lambda k: tuple(int(x) for x in inp[k])  # noqa: E731
    if inp["kind"] == "onarc":
        judge_onarc(ctx, impl, t("a"), t("b"), t("p"), tag, inp.get("rot"))
    elif inp["kind"] == "meet":
        judge_meet(ctx, impl, t("a"), t("b"), t("c"), t("d"), tag, inp.get("rot"))
    elif inp["kind"] == "session":
        judge_session(ctx, impl, t("a"), t("b"), inp["form"], inp["ops"], tag)
    else:
        judge_extreme(ctx, impl, t("a"), t("b"), tag, impl.tol, inp.get("rot"))


def replay(ctx, rp):
    _judge_input(ctx, Impl(), rp["input"], "replay")
