"""C16 — edge distances, differences and gradients follow the edge's own neighbours.

Lean side (Props/C16.lean): law of cosines = dot product of the unit vectors = the atan2 oracle
(over ℝ); index typing (`edgeFaceDist_uses_face_centres`, the as-is mix-up is a proved
counterexample); `diff_boundary_zero`, `diff_const_zero`, `grad_eq_diff_div_dist`,
`grad_boundary_zero`, `normalized_unit_norm`, `leading_independent`, `result_dims`,
source-supplied tables follow the mesh's own node/face kinds.

Tie: every judgement below is computed by the Lean driver (`drv_c16`) running the definitions of
Model/EdgeOps.lean at Float on what the real code returned:
  * distance tables against the driver's independent geodesic oracle (atan2 form) — with the
    coordinates of the edge's OWN elements (node arrays for edge_node, face-centre arrays for
    edge_face), boundary edges exactly 0;
  * differences and un-normalised gradients bit-exactly (IEEE −, abs, / are correctly rounded);
  * normalised gradients per leading slice (unit norm, value) under 1e-12;
  * source-supplied tables (synthetic MPAS primal/dual, MPAS sample file) carried over unchanged
    under the mesh's own node/face roles.
"""

from __future__ import annotations

import json
import math

import numpy as np

from . import common, meshes
from .common import INT_FILL, enc_float, enc_floats, enc_ints

DIMCODE = {"n_face": 0, "n_node": 1, "n_edge": 2}


# --------------------------------------------------------------------------------------
# encoders
# --------------------------------------------------------------------------------------


def enc_pairs_raw(a):
    a = np.asarray(a).reshape(-1, 2)
    return " ".join([str(len(a))] + [f"{int(x)} {int(y)}" for x, y in a])


def dim_codes(dims):
    return [DIMCODE.get(d, 10 + i) for i, d in enumerate(dims)]


def fl(a):
    return [float(x) for x in np.asarray(a, dtype=np.float64).ravel()]


# --------------------------------------------------------------------------------------
# grids
# --------------------------------------------------------------------------------------


def centroid_lonlat(m):
    c = np.array([m.xyz[f].mean(axis=0) for f in m.faces])
    c /= np.linalg.norm(c, axis=1, keepdims=True)
    return np.degrees(np.arctan2(c[:, 1], c[:, 0])), np.degrees(np.arcsin(np.clip(c[:, 2], -1, 1)))


def geod(lon1, lat1, lon2, lat2):
    """generator-side arc (radians) for building source-supplied tables only; never a verdict"""
    l1, p1, l2, p2 = map(np.radians, (lon1, lat1, lon2, lat2))
    a = np.stack([np.cos(p1) * np.cos(l1), np.cos(p1) * np.sin(l1), np.sin(p1)], -1)
    b = np.stack([np.cos(p2) * np.cos(l2), np.cos(p2) * np.sin(l2), np.sin(p2)], -1)
    return np.arctan2(np.linalg.norm(np.cross(a, b), axis=-1), (a * b).sum(-1))


def mesh_from_spec(spec):
    lon, lat = np.asarray(spec["node_lon"], float), np.asarray(spec["node_lat"], float)
    xyz = np.array([meshes._ll(a, b) for a, b in zip(lon, lat)])
    return meshes.AMesh(spec["faces"], xyz, False, spec.get("kind", "replay"))


def mesh_spec(m, **kw):
    d = dict(kind=m.kind, node_lon=m.lon.tolist(), node_lat=m.lat.tolist(), faces=[list(f) for f in m.faces])
    d.update(kw)
    return d


def topology_grid(ux, spec):
    m = mesh_from_spec(spec)
    kw = {}
    if spec.get("face_lon") is not None:
        kw = dict(face_lon=np.asarray(spec["face_lon"], float), face_lat=np.asarray(spec["face_lat"], float))
    if spec.get("edge_nodes") is not None:
        # the source supplies its own edge tables (own edge numbering, either order of the two faces)
        kw["edge_node_connectivity"] = np.asarray(spec["edge_nodes"], dtype=np.int64).reshape(-1, 2).copy()
        kw["edge_face_connectivity"] = np.asarray(spec["edge_faces"], dtype=np.int64).reshape(-1, 2).copy()
    # the FORM in which the source gives coordinates: Cartesian positions of any radius
    for k in ("node", "face", "edge"):
        if spec.get(f"{k}_xyz") is not None:
            a = np.asarray(spec[f"{k}_xyz"], float).reshape(-1, 3)
            kw[f"{k}_x"], kw[f"{k}_y"], kw[f"{k}_z"] = a[:, 0].copy(), a[:, 1].copy(), a[:, 2].copy()
    if spec.get("edge_lon") is not None:
        kw["edge_lon"], kw["edge_lat"] = np.asarray(spec["edge_lon"], float), np.asarray(spec["edge_lat"], float)
    if spec.get("node_form", "ll") != "xyz":
        return ux.Grid.from_topology(
            node_lon=np.asarray(spec["node_lon"], float), node_lat=np.asarray(spec["node_lat"], float),
            face_node_connectivity=m.table().copy(), fill_value=INT_FILL, **kw)
    # Cartesian-only nodes: a dataset in the internal (UGRID) naming through Grid.from_dataset
    import xarray as xr
    from uxarray.conventions import ugrid

    ds = xr.Dataset()
    kw["face_node_connectivity"] = m.table().copy()
    for name, arr in kw.items():
        if name in ugrid.SPHERICAL_COORD_NAMES:
            sp = ugrid.SPHERICAL_COORDS[name]
        elif name in ugrid.CARTESIAN_COORD_NAMES:
            sp = ugrid.CARTESIAN_COORDS[name]
        else:
            sp = ugrid.CONNECTIVITY[name]
        ds[name] = xr.DataArray(data=arr, dims=sp["dims"], attrs=sp["attrs"])
    return ux.Grid.from_dataset(ds, source_grid_spec="User Defined Topology")


def mpas_dataset(spec):
    """A synthetic MPAS file for the abstract mesh (cells = faces, vertices = nodes) with its own
    edge numbering/orientation and source-supplied dvEdge / dcEdge."""
    import xarray as xr

    m = mesh_from_spec(spec)
    nC, nV = m.n_face, m.n_node
    order = spec["edge_order"]  # list of [a, b, flipCells]
    eidx = {}
    voe, coe = [], []
    cells_of = {}
    for c, f in enumerate(m.faces):
        for j in range(len(f)):
            k = frozenset((f[j], f[(j + 1) % len(f)]))
            cells_of.setdefault(k, []).append(c)
    for e, (a, b, flip) in enumerate(order):
        k = frozenset((a, b))
        eidx[k] = e
        voe.append([a + 1, b + 1])
        cs = cells_of[k]
        if len(cs) == 2:
            cs = cs[::-1] if flip else cs
            coe.append([cs[0] + 1, cs[1] + 1])
        else:
            coe.append([cs[0] + 1, 0])
    w = m.width
    voc = np.zeros((nC, w), dtype=np.int32)
    eoc = np.zeros((nC, w), dtype=np.int32)
    for c, f in enumerate(m.faces):
        for j, v in enumerate(f):
            voc[c, j] = v + 1
            eoc[c, j] = eidx[frozenset((f[j], f[(j + 1) % len(f)]))] + 1
    # cells around each vertex in counter-clockwise order
    clon, clat = np.asarray(spec["cell_lon"], float), np.asarray(spec["cell_lat"], float)
    cxyz = np.array([meshes._ll(a, b) for a, b in zip(clon, clat)])
    inc = [[] for _ in range(nV)]
    for c, f in enumerate(m.faces):
        for v in f:
            inc[v].append(c)
    deg = max(len(x) for x in inc)
    cov = np.zeros((nV, deg), dtype=np.int32)
    for v, cl in enumerate(inc):
        p = m.xyz[v]
        a = np.cross(p, [0.3, 0.5, 0.81])
        a /= np.linalg.norm(a)
        b = np.cross(p, a)
        ang = [math.atan2((cxyz[c] - p) @ b, (cxyz[c] - p) @ a) for c in cl]
        for j, (_, c) in enumerate(sorted(zip(ang, cl))):
            cov[v, j] = c + 1
    ds = xr.Dataset(
        dict(
            verticesOnCell=(("nCells", "maxEdges"), voc),
            edgesOnCell=(("nCells", "maxEdges"), eoc),
            nEdgesOnCell=(("nCells",), np.array(m.sizes(), dtype=np.int32)),
            cellsOnVertex=(("nVertices", "vertexDegree"), cov),
            verticesOnEdge=(("nEdges", "TWO"), np.array(voe, dtype=np.int32)),
            cellsOnEdge=(("nEdges", "TWO"), np.array(coe, dtype=np.int32)),
            lonVertex=(("nVertices",), np.radians(np.asarray(spec["node_lon"], float))),
            latVertex=(("nVertices",), np.radians(np.asarray(spec["node_lat"], float))),
            lonCell=(("nCells",), np.radians(clon)),
            latCell=(("nCells",), np.radians(clat)),
            dvEdge=(("nEdges",), np.asarray(spec["dv"], float)),
            dcEdge=(("nEdges",), np.asarray(spec["dc"], float)),
        ),
        attrs=dict(sphere_radius=float(spec["radius"])),
    )
    return ds


def mpas_spec(m, rng):
    """source-side description of a synthetic MPAS mesh (true arcs × radius as supplied tables)"""
    clon, clat = centroid_lonlat(m)
    seen, order = set(), []
    for f in m.faces:
        for j in range(len(f)):
            k = frozenset((f[j], f[(j + 1) % len(f)]))
            if k not in seen:
                seen.add(k)
                a, b = f[j], f[(j + 1) % len(f)]
                if rng.random() < 0.5:
                    a, b = b, a
                order.append([a, b, int(rng.random() < 0.5)])
    rng.shuffle(order)
    R = rng.choice([1.0, 6371229.0, 2.5])
    cells_of = {}
    for c, f in enumerate(m.faces):
        for j in range(len(f)):
            cells_of.setdefault(frozenset((f[j], f[(j + 1) % len(f)])), []).append(c)
    lon, lat = m.lon, m.lat
    dv, dc = [], []
    for a, b, _ in order:
        dv.append(R * float(geod(lon[a], lat[a], lon[b], lat[b])))
        cs = cells_of[frozenset((a, b))]
        if len(cs) == 2:
            dc.append(R * float(geod(clon[cs[0]], clat[cs[0]], clon[cs[1]], clat[cs[1]])))
        else:  # a limited-area file still carries a number on the boundary
            dc.append(R * 0.01 * (1 + len(dc)))
    return mesh_spec(m, cell_lon=clon.tolist(), cell_lat=clat.tolist(), edge_order=order, dv=dv, dc=dc, radius=R)


def apply_step(ux, g, step, spec):
    """one step of a derivation chain on the real Grid (public API only)"""
    import xarray as xr

    op = step["op"]
    if op == "isel":
        size = int(getattr(g, step["dim"]))
        idx = sorted({min(size - 1, int(f * size)) for f in step["pick"]})
        return g.isel(**{step["dim"]: idx})
    if op == "copy":
        return g.copy()
    if op == "chunk":
        g.chunk(n_node=int(step["n"]), n_edge=int(step["n"]), n_face=int(step["n"]))
        return g
    if op == "read":
        w = step["what"]
        if w == "gradient":
            ux.UxDataArray(np.arange(int(g.n_face), dtype=float) ** 1.5, dims=["n_face"], uxgrid=g).gradient().values
        else:
            getattr(g, w).values
        return g
    if op == "set_distances":
        # the source assigns the tables through the public setters; this grid has not built its
        # edge_face_connectivity (the values come from a twin built the same way)
        twin = topology_grid(ux, spec)
        g.edge_face_distances = xr.DataArray(np.asarray(twin.edge_face_distances.values, float).copy(), dims=["n_edge"])
        if step.get("node_too"):
            g.edge_node_distances = xr.DataArray(np.asarray(twin.edge_node_distances.values, float).copy(), dims=["n_edge"])
        return g
    raise ValueError(op)


def build_grid(ux, src):
    """src: dict(kind='topology'|'mpas'|'file', …) → Grid"""
    if src["source"] == "topology":
        g = topology_grid(ux, src["mesh"])
        for step in (src.get("derive") or {}).get("chain", []):
            g = apply_step(ux, g, step, src["mesh"])
        return g
    if src["source"] == "mpas":
        return ux.open_grid(mpas_dataset(src["mesh"]), use_dual=bool(src["dual"]))
    if src["source"] == "file":
        return ux.open_grid(str(common.REPO / src["file"]), use_dual=bool(src.get("dual", False)))
    raise ValueError(src["source"])


def supplied_tables(src):
    """(dv, dc) of the source when it supplies distances, else None"""
    if src["source"] == "mpas":
        return np.asarray(src["mesh"]["dv"], float), np.asarray(src["mesh"]["dc"], float)
    if src["source"] == "file" and "mpas" in src["file"]:
        import xarray as xr

        with xr.open_dataset(str(common.REPO / src["file"])) as ds:
            if "dvEdge" in ds and "dcEdge" in ds:
                return np.asarray(ds["dvEdge"].values, float), np.asarray(ds["dcEdge"].values, float)
    return None


# --------------------------------------------------------------------------------------
# observation of one grid
# --------------------------------------------------------------------------------------


PRE_OPS = ["node_lonlat", "node_xyz", "face_lonlat", "face_xyz", "edge_lonlat", "edge_xyz", "normalize", "edge_tables"]


def apply_history(ctx, g, src):
    """the access history of the source description: reads / normalize_cartesian_coordinates() in the
    stored order, THEN the two distance tables in the stored order, before anything else is read.
    Returns {name: values | exception} or None when the source prescribes no history."""
    if "pre" not in src:
        return None
    for op in src["pre"]:
        try:
            if op == "normalize":
                g.normalize_cartesian_coordinates()
            elif op == "edge_tables":
                g.edge_node_connectivity.values, g.edge_face_connectivity.values
            else:
                k, form = op.split("_")
                for c in (("lon", "lat") if form == "lonlat" else ("x", "y", "z")):
                    getattr(g, f"{k}_{c}").values
            ctx.hit("history:" + op)
        except Exception as e:  # coordinate access itself is C04's subject
            ctx.notes.append(f"{src.get('tag')}: pre-access {op} raised {type(e).__name__}: {e}")
    if not src["pre"]:
        ctx.hit("history:distances-read-first")
    raw = {}
    for name in src.get("dist_order", ["edge_node_distances", "edge_face_distances"]):
        try:
            v = getattr(g, name)
            raw[name] = (np.asarray(v.values), tuple(v.dims))
        except Exception as e:
            raw[name] = e
    return raw


def draw_history(rng, src, edge_coords=False):
    ops = [o for o in PRE_OPS if edge_coords or not o.startswith("edge_l") and o != "edge_xyz"]
    k = rng.choice([0, 0, 1, 2, 3])
    src["pre"] = rng.sample(ops, k)
    src["dist_order"] = rng.sample(["edge_node_distances", "edge_face_distances"], 2)
    return src


def truth_of(src):
    """the positions the SOURCE supplied, in the form it supplied them: the oracle measures between
    these directions.  None: the grid derives the positions itself (then the grid's own report is used)."""
    t = dict(node=None, face=None)
    mesh = src.get("mesh") if src.get("source") == "topology" else None
    if not isinstance(mesh, dict) or any(st["op"] == "isel" for st in (src.get("derive") or {}).get("chain", [])):
        return t  # a sub-grid renumbers its elements: judged against the positions it reports itself
    for k in ("node", "face"):
        if mesh.get(f"{k}_xyz") is not None:
            t[k] = ("xyz", np.asarray(mesh[f"{k}_xyz"], float).reshape(-1, 3))
        elif mesh.get(f"{k}_lon") is not None:
            t[k] = ("ll", np.asarray(mesh[f"{k}_lon"], float), np.asarray(mesh[f"{k}_lat"], float))
    return t


def enc_pos(pos):
    if pos[0] == "xyz":
        a = pos[1]
        return " ".join(enc_floats(fl(a[:, i])) for i in range(3))
    return enc_floats(fl(pos[1])) + " " + enc_floats(fl(pos[2]))


def ask_dist(d, kind, pos, eps, enc_table, impl):
    """verdict of the Lean driver on one distance table against the geodesic oracle on `pos`"""
    cmd = f"C16.dist.{kind}" + (".xyz" if pos[0] == "xyz" else "")
    return d.ask(cmd, enc_float(eps), enc_pos(pos), enc_table, enc_floats(fl(impl))).split()


def ask_oracle(d, kind, pos, enc_table):
    cmd = f"C16.oracle.{kind}" + (".xyz" if pos[0] == "xyz" else "")
    return common.Tok(d.ask(cmd, enc_pos(pos), enc_table)).floats()


class Obs:
    pass


def observe(ctx, g, src):
    """read the tables through the public API; returns None when they are not judged here"""
    o = Obs()
    o.en = np.asarray(g.edge_node_connectivity.values)
    o.ef = np.asarray(g.edge_face_connectivity.values)
    o.n_node, o.n_face, o.n_edge = int(g.n_node), int(g.n_face), int(g.n_edge)
    o.node_lon, o.node_lat = np.asarray(g.node_lon.values), np.asarray(g.node_lat.values)
    o.face_lon, o.face_lat = np.asarray(g.face_lon.values), np.asarray(g.face_lat.values)
    o.eps = float(max(np.finfo(o.node_lon.dtype).eps if o.node_lon.dtype.kind == "f" else 2.2e-16,
                      np.finfo(o.face_lon.dtype).eps if o.face_lon.dtype.kind == "f" else 2.2e-16))
    o.enc_en = enc_pairs_raw(o.en)
    o.enc_ef = enc_pairs_raw(o.ef)
    if (o.en < 0).any() or (o.ef[:, 0] < 0).any() or ((o.ef[:, 1] < 0) & (o.ef[:, 1] != INT_FILL)).any() \
            or o.en.shape != (o.n_edge, 2) or o.ef.shape != (o.n_edge, 2):
        ctx.notes.append(f"{src.get('tag')}: edge tables are not in standard form (C02/C03's subject): not judged")
        return None
    if ctx.driver.ask("C16.wf", o.n_node, o.n_face, o.enc_en, o.enc_ef) != "1":
        ctx.notes.append(f"{src.get('tag')}: edge tables index out of range (C02/C03's subject): not judged")
        return None
    o.interior = o.ef[:, 1] != INT_FILL
    t = truth_of(src)
    o.node_pos = t["node"] if t["node"] is not None else ("ll", o.node_lon, o.node_lat)
    o.face_pos = t["face"] if t["face"] is not None else ("ll", o.face_lon, o.face_lat)
    if src.get("source") == "file" and "exodus" in src.get("file", ""):
        # an Exodus file gives the nodes as Cartesian positions (radii need not be 1): measure between those
        o.node_pos = ("xyz", np.stack([np.asarray(g.node_x.values, float), np.asarray(g.node_y.values, float),
                                       np.asarray(g.node_z.values, float)], axis=1))
    for k, pos in (("node", o.node_pos), ("face", o.face_pos)):
        if pos[0] == "xyz":
            r = np.linalg.norm(pos[1], axis=1)
            ctx.hit(f"coords:{k}:xyz:" + ("unit" if np.allclose(r, 1, atol=1e-12) else "one-radius" if np.allclose(r, r[0], rtol=1e-12) else "mixed-radii"))
        else:
            ctx.hit(f"coords:{k}:" + ("lonlat-supplied" if t[k] is not None or k == "node" else "derived-by-the-grid"))
    mesh = src.get("mesh")
    if isinstance(mesh, dict) and mesh.get("edge_faces") is not None:
        sup_ef = np.asarray(src["mesh"]["edge_faces"], dtype=np.int64).reshape(-1, 2)
        sup_en = np.asarray(src["mesh"]["edge_nodes"], dtype=np.int64).reshape(-1, 2)
        ctx.hit("edge-tables:source-supplied")
        if o.ef.shape != sup_ef.shape or (o.ef != sup_ef).any() or (o.en != sup_en).any():
            # the grid reports other tables than the source supplied (C08's subject); C16 judges what is reported
            ctx.hit("edge-tables:supplied-but-replaced-by-the-grid")
        ctx.hit("edges:interior-with-faces-descending", int((o.interior & (o.ef[:, 0] > o.ef[:, 1])).sum()))
        ctx.hit("edges:interior-with-face0-second", int((o.interior & (o.ef[:, 1] == 0)).sum()))
    return o


def sig_clean(s):
    return s.replace(",", "+")


def judge_distances(ctx, g, o, src, inp0, raw=None):
    """edge_node_distances / edge_face_distances (`raw`: already read by the source's access history)"""
    d = ctx.driver
    sup = supplied_tables(src)
    res = {}
    for name in ("edge_node_distances", "edge_face_distances"):
        try:
            if raw is not None:
                if isinstance(raw[name], Exception):
                    raise raw[name]
                res[name], dims = raw[name]
            else:
                v = getattr(g, name)
                res[name], dims = np.asarray(v.values), tuple(v.dims)
            if tuple(dims) != ("n_edge",) or res[name].shape != (o.n_edge,):
                ctx.fail(f"C16/{name}/dims", f"{name} has dims {dims} shape {res[name].shape}, want (n_edge,)={o.n_edge}",
                         dict(inp0, op=name), dict(dims=list(dims), shape=list(res[name].shape)), None, ["result_dims"])
                res[name] = None
        except Exception as e:
            ctx.fail(f"C16/{name}/raises/{type(e).__name__}", f"Grid.{name} raises {type(e).__name__}: {e}", dict(inp0, op=name))
            res[name] = None
    dn, df = res["edge_node_distances"], res["edge_face_distances"]
    key = (src["tag"], src["source"], src.get("dual"), o.en.tobytes().hex()[:48], o.ef.tobytes().hex()[:48], o.n_node, o.n_face)
    ctx.case(("dist",) + key, nontrivial=bool(o.interior.any()),
             sample=dict(inp0, op="distances") if o.n_edge <= 6 else None)
    ctx.hit("grid:n_face>n_node" if o.n_face > o.n_node else "grid:n_face<n_node" if o.n_face < o.n_node else "grid:n_face=n_node")
    ctx.hit("grid:with-boundary-edges" if (~o.interior).any() else "grid:closed")
    ctx.hit("edges:interior", int(o.interior.sum()))
    ctx.hit("edges:boundary", int((~o.interior).sum()))
    ctx.hit("dist:source-supplied" if sup is not None else "dist:computed")

    if sup is not None:
        dv, dc = sup
        if dn is None or df is None:
            return df
        dual = bool(src.get("dual"))
        out = d.ask("C16.mpas", int(dual), enc_floats(dv), enc_floats(dc), enc_floats(fl(dn)), enc_floats(fl(df)))
        if out != "ok":
            t = out.split()
            clauses = t[1].split(",")
            asis = t[2] == "1"
            kind = "dual" if dual else "primal"
            ctx.fail(f"C16/mpas-{kind}/" + ("supplied-distances-not-reindexed" if asis else sig_clean(t[1])),
                     (f"MPAS {kind} mesh: the source's dvEdge (between vertices) / dcEdge (between cells) are "
                      + ("attached to the wrong element kind: on the dual mesh nodes are cells and faces are vertices, "
                         "but edge_node_distances=dvEdge and edge_face_distances=dcEdge" if asis else "not carried over unchanged")),
                     dict(inp0, op="distances"),
                     dict(edge_node_distances=fl(dn)[:12], edge_face_distances=fl(df)[:12]),
                     dict(dvEdge=fl(dv)[:12], dcEdge=fl(dc)[:12]), clauses)
        return df

    # computed: against the geodesic oracle on the edge's OWN elements
    if dn is not None:
        out = ask_dist(d, "node", o.node_pos, o.eps, o.enc_en, dn)
        k = "max_err_edge_node_distances" + ("" if o.eps < 1e-12 else "(float32 coordinates)")
        ctx.extra[k] = max(ctx.extra.get(k, 0.0), common.dec_float(out[3]))
        ctx.extra["max_diff_from_law_of_cosines_model"] = max(ctx.extra.get("max_diff_from_law_of_cosines_model", 0.0), common.dec_float(out[4]))
        if out[0] != "ok":
            e = int(out[2])
            ctx.fail("C16/edge_node_distances/" + sig_clean(out[1]),
                     f"edge_node_distances[{e}]={fl(dn)[e] if e < len(dn) else None} is not the arc between edge {e}'s two nodes {o.en[e].tolist() if e < len(o.en) else None} (max error {common.dec_float(out[3]):.3g})",
                     dict(inp0, op="edge_node_distances"), dict(edge_node_distances=fl(dn)),
                     dict(oracle=ask_oracle(d, "node", o.node_pos, o.enc_en)),
                     out[1].split(","))
    if df is not None:
        out = ask_dist(d, "face", o.face_pos, o.eps, o.enc_ef, df)
        if out[0] == "ok":
            k = "max_err_edge_face_distances" + ("" if o.eps < 1e-12 else "(float32 coordinates)")
            ctx.extra[k] = max(ctx.extra.get(k, 0.0), common.dec_float(out[3]))
            ctx.extra["max_diff_from_law_of_cosines_model"] = max(ctx.extra.get("max_diff_from_law_of_cosines_model", 0.0), common.dec_float(out[4]))
        else:
            e = int(out[2])
            oracle = ask_oracle(d, "face", o.face_pos, o.enc_ef)
            # diagnosis: does it coincide with the as-is model (node arrays read at face numbers)?
            asis = np.array(common.Tok(d.ask("C16.model.face.asis", enc_floats(fl(o.node_lon)), enc_floats(fl(o.node_lat)), o.enc_ef)).floats())
            inr = o.interior & (o.ef[:, 0] < o.n_node) & (o.ef[:, 1] < o.n_node)
            same = len(df) == len(asis) and inr.any() and np.allclose(np.asarray(df, float)[inr], asis[inr], rtol=0, atol=1e-6)
            left_zero = e < len(df) and e < len(o.ef) and bool(o.interior[e]) and float(df[e]) == 0.0
            dfa, ora = np.asarray(df, float), np.asarray(oracle, float)
            bad = o.interior & ~(np.abs(dfa - ora) <= 1e-6) if len(dfa) == len(ora) == o.n_edge else None
            # every wrong entry is a NaN on an (almost) antipodal pair: the cosine sum rounded below -1
            nan_antipodal = bad is not None and bad.any() and bool(np.all(np.isnan(dfa[bad]) & (ora[bad] > math.pi - 1e-6))) \
                and "boundary_zero" not in out[1] and "length" not in out[1]
            sig = ("C16/edge_face_distances/indexes-node-coords" if (same and "is_geodesic" in out[1])
                   else "C16/edge_face_distances/antipodal-centres/arccos-argument-rounds-below-minus-one/nan" if nan_antipodal
                   else "C16/edge_face_distances/two-face-edge-left-zero" if left_zero
                   else "C16/edge_face_distances/" + sig_clean(out[1]))
            ctx.hit("diagnosis:" + ("as-is node-indexed" if same else "other"))
            ctx.fail(sig,
                     (f"edge_face_distances[{e}]={fl(df)[e] if e < len(df) else None} is not the arc between the centres of faces "
                      f"{o.ef[e].tolist() if e < len(o.ef) else None} (oracle {oracle[e] if e < len(oracle) else None})"
                      + ("; it equals the arc between NODES with those numbers (node_lon/node_lat indexed by face indices)" if same else "")
                      + ("; a two-face edge was treated as a boundary edge" if left_zero and not same else "")
                      + ("; the two centres are antipodal and the rounded law-of-cosines sum is below -1, so arccos returns nan" if nan_antipodal else "")),
                     dict(inp0, op="edge_face_distances"), dict(edge_face_distances=fl(df)),
                     dict(oracle=oracle, asis_model=[None if x != x else x for x in asis.tolist()]), out[1].split(","))
            if nan_antipodal:
                ctx.hit("antipodal-nan: gradient on this grid not judged (same root cause)")
                return None
    return df


def make_data(rng, n, lead, style):
    shape = tuple(lead) + (n,)
    size = int(np.prod(shape)) if shape else 1
    if style == "int":
        a = np.array([rng.randint(-9, 9) for _ in range(size)], dtype=np.int64).reshape(shape)
    else:
        a = np.array([round(rng.uniform(-50, 50), 3) for _ in range(size)], dtype=np.float64).reshape(shape)
    if lead and rng.random() < 0.5:  # one constant leading slice
        idx = tuple(rng.randrange(k) for k in lead)
        a[idx] = a[idx].flat[0] if a[idx].size else 0
    if not lead and style == "const":
        a[...] = 7
    return a


LEADS = [[], [], [2], [3], [2, 2], [1, 3], [2, 1, 2]]


def plan_cases(rng, o):
    """generated (centre, op, normalize, lead, data) cases for one grid"""
    plans = [("n_face", "difference", False), ("n_node", "difference", False),
             ("n_face", "gradient", False), ("n_face", "gradient", True), ("n_face", "gradient", True)]
    cases = []
    for centre, op, normalize in plans:
        lead = rng.choice(LEADS)
        if op == "gradient" and normalize and rng.random() < 0.7 and not lead:
            lead = rng.choice(LEADS[2:])
        style = rng.choice(["float", "float", "int"] if normalize else ["float", "float", "int", "const"])
        n = o.n_face if centre == "n_face" else o.n_node
        data = make_data(rng, n, lead, style)
        cases.append(dict(centre=centre, op=op, normalize=normalize, lead=list(lead), data=data, style=style))
    return cases


def judge_ops(ctx, g, o, src, inp0, df, ux, cases=None):
    """difference / gradient on data of several ranks"""
    d = ctx.driver
    sup = supplied_tables(src)
    oracle_face = None
    for c in (cases if cases is not None else plan_cases(ctx.rng, o)):
        centre, op, normalize, lead, style = c["centre"], c["op"], bool(c.get("normalize")), list(c["lead"]), c.get("style", "replay")
        n = o.n_face if centre == "n_face" else o.n_node
        data = np.asarray(c["data"])
        if data.shape != tuple(lead) + (n,):
            ctx.notes.append(f"stored data shape {data.shape} does not fit the grid: case skipped")
            continue
        dims = [f"lead{i}" for i in range(len(lead))] + [centre]
        nLead = int(np.prod(lead)) if lead else 1
        case = dict(centre=centre, op=op, normalize=normalize, lead=lead, data=data.tolist())
        inp = dict(inp0, **case)
        key = (src["tag"], src["source"], src.get("dual"), o.ef.tobytes().hex()[:32], centre, op, normalize, tuple(lead), data.tobytes().hex()[:64])
        ctx.case(key, nontrivial=bool(o.interior.any()) and style != "const",
                 sample=inp if (o.n_edge <= 6 and not lead) else None)
        ctx.hit(f"op:{centre}:{op}" + (":normalize" if normalize else ""))
        ctx.hit(f"rank={len(lead) + 1}")
        ctx.hit(f"data:{style}")
        uxda = ux.UxDataArray(data, dims=dims, uxgrid=g, name="v")
        try:
            res = uxda.difference(destination="edge") if op == "difference" else uxda.gradient(normalize=normalize)
        except Exception as e:
            ctx.fail(f"C16/{op}/{centre}/raises/{type(e).__name__}", f"{op} raises {type(e).__name__}: {e}", inp)
            continue
        out = np.asarray(res.values)
        obs = dict(values=out.tolist(), dims=list(res.dims), type=type(res).__name__)
        # dims / same grid (discrete, Lean-evaluated)
        if d.ask("C16.dims", enc_ints(dim_codes(dims)), enc_ints(dim_codes(res.dims))) != "1" or out.shape != tuple(lead) + (o.n_edge,):
            ctx.fail(f"C16/{op}/{centre}/dims", f"result dims {res.dims} shape {out.shape}: want leading dims kept and n_edge last", inp, obs, None, ["result_dims"])
            continue
        if not isinstance(res, ux.UxDataArray) or res.uxgrid is not g:
            ctx.fail(f"C16/{op}/{centre}/grid", "result is not a UxDataArray on the same grid", inp, obs, None, ["same_grid"])
        dflat, oflat = enc_floats(fl(data)), enc_floats(fl(out))
        if op == "difference":
            if centre == "n_face":
                r = d.ask("C16.diff.face", o.enc_ef, nLead, n, dflat, oflat)
            else:
                r = d.ask("C16.diff.node", o.enc_en, nLead, n, dflat, oflat)
            if r != "ok":
                t = r.split()
                ctx.fail(f"C16/difference/{centre}/{t[1]}", f"difference(edge) of {centre} data is not |a-b| over the edge's own two {'faces' if centre == 'n_face' else 'nodes'} (0 on boundary) in leading slice {t[2]}",
                         inp, obs, None, [t[1], "diff_boundary_zero", "diff_const_zero"])
            continue
        # ----- gradient -----
        if df is None:
            continue
        kind = ("dual" if src.get("dual") else "primal") if sup is not None else None
        if not normalize:
            # (spec) the divisor is the centre-to-centre distance
            if sup is not None:
                want = (sup[0] if src.get("dual") else sup[1])  # faces are vertices on the dual → dvEdge
                r = d.ask("C16.grad.exact", o.enc_ef, enc_floats(fl(want)), nLead, n, dflat, oflat)
                if r != "ok":
                    t = r.split()
                    ctx.fail(f"C16/mpas-{kind}/gradient-divisor-not-face-distance",
                             f"gradient on the MPAS {kind} mesh does not divide by the source's distance between the edge's two FACE centres (slice {t[2]})",
                             inp, obs, dict(face_distance_table=fl(want)[:12]), ["grad_eq_diff_div_dist"])
            else:
                if oracle_face is None:
                    oracle_face = ask_oracle(d, "face", o.face_pos, o.enc_ef)
                r = d.ask("C16.grad.oracle", enc_float(o.eps), o.enc_ef, enc_floats(oracle_face), nLead, n, dflat, oflat)
                if r != "ok":
                    t = r.split()
                    ctx.fail(f"C16/gradient/{t[1]}", f"gradient is not |difference| / (arc between the two face centres), 0 on boundary edges and for constant fields: clause {t[1]} in leading slice {t[2]}",
                             inp, obs, dict(centre_distances=oracle_face), [t[1]])
            # (correspondence) bit-exact against the model dividing by the grid's own table
            #   (only for a table the theorems speak about: finite and non-zero on two-face edges)
            dfi = np.asarray(df, float)[o.interior]
            if len(df) == o.n_edge and np.isfinite(dfi).all() and (dfi != 0).all():
                r2 = d.ask("C16.grad.exact", o.enc_ef, enc_floats(fl(df)), nLead, n, dflat, oflat)
                if r2 != "ok":
                    ctx.mismatch("C16/gradient-vs-model(diff/edge_face_distances)", inp, obs, dict(edge_face_distances=fl(df)))
                ctx.hit("gradient:bit-exact-vs-model")
            else:
                ctx.hit("gradient:distance-table-degenerate(not compared with the model)")
        else:
            dfi = np.asarray(df, float)[o.interior]
            if not (len(df) == o.n_edge and np.isfinite(dfi).all() and (dfi != 0).all()):
                ctx.hit("gradient:distance-table-degenerate(not compared with the model)")
                continue
            r = d.ask("C16.grad.norm", enc_float(1e-12), o.enc_ef, enc_floats(fl(df)), nLead, n, dflat, oflat).split()
            ctx.hit("normalize:zero-gradient-slices(judged: all-NaN or all-0)", int(r[3]))
            ctx.hit("normalize:leading-slices-judged", nLead - int(r[3]))
            if r[0] != "ok":
                asis = np.array(common.Tok(d.ask("C16.grad.norm.asis", o.enc_ef, enc_floats(fl(df)), nLead, n, dflat)).floats())
                same = asis.size == out.size and np.allclose(out.ravel(), asis, rtol=1e-12, atol=1e-12, equal_nan=True)
                ctx.hit("diagnosis:" + ("as-is global norm" if same else "other-normalisation"))
                sig = "C16/gradient/normalize/global-norm-over-leading-dims" if same else f"C16/gradient/normalize/{r[1]}"
                norms = np.sqrt((out.reshape(nLead, -1) ** 2).sum(axis=1)).tolist()
                ctx.fail(sig, f"gradient(normalize=True) with leading shape {lead}: leading slice {r[2]} does not have unit Euclidean norm / is not its own normalisation (slice norms {norms[:6]})"
                         + ("; the code divides by ONE norm taken over all leading indices" if same else ""),
                         inp, obs, dict(slice_norms=norms), [r[1], "leading_independent"])


def judge(ctx, src, ops=True):
    import uxarray as ux

    inp0 = dict(grid=src)
    try:
        g = build_grid(ux, src)
    except Exception as e:
        ctx.notes.append(f"{src.get('tag')}: grid could not be built ({type(e).__name__}: {e}): skipped")
        ctx.hit("grid:build-failed")
        return
    raw = apply_history(ctx, g, src)
    o = observe(ctx, g, src)
    if o is None:
        return
    df = judge_distances(ctx, g, o, src, inp0, raw)
    if ops:
        judge_ops(ctx, g, o, src, inp0, df, ux)


# --------------------------------------------------------------------------------------
# generators
# --------------------------------------------------------------------------------------


def tiny():
    """smallest grids first: replays stay readable"""
    two = meshes.AMesh([[0, 1, 2], [0, 2, 3]], np.array([meshes._ll(0, 0), meshes._ll(10, 0), meshes._ll(10, 10), meshes._ll(0, 10)]), False, "two-triangles")
    two.faces = meshes._orient(two.faces, two.xyz)
    tet = meshes.AMesh(meshes._orient([[0, 1, 2], [0, 1, 3], [0, 2, 3], [1, 2, 3]],
                                      np.array([[1, 1, 1], [1, -1, -1], [-1, 1, -1], [-1, -1, 1.0]])),
                       np.array([[1, 1, 1], [1, -1, -1], [-1, 1, -1], [-1, -1, 1.0]]), True, "tetrahedron")
    return [two, tet, meshes.bipyramid(3), meshes.patch(2, 1), meshes.isolated(2)]


def topo_src(m, rng, supply_centres):
    spec = mesh_spec(m)
    if supply_centres:
        lon, lat = centroid_lonlat(m)
        # the grid's reported centres, deliberately not the plain corner mean
        spec["face_lon"] = [float(x + rng.uniform(-0.4, 0.4)) for x in lon]
        spec["face_lat"] = [float(min(89.0, max(-89.0, y + rng.uniform(-0.4, 0.4)))) for y in lat]
    else:
        spec["face_lon"] = None
        spec["face_lat"] = None
    return dict(source="topology", tag=m.kind + ("+centres" if supply_centres else ""), mesh=spec)


def edges_src(m, rng, supply_centres):
    """the same kind of grid, but the SOURCE supplies edge_node_connectivity and
    edge_face_connectivity: edges in its own (shuffled) order, end nodes in either order, the two
    faces of an interior edge in either order — face 0 always listed second where it occurs —
    boundary edges as [face, FILL]; no distances supplied."""
    src = topo_src(m, rng, supply_centres)
    cells = {}
    for c, f in enumerate(m.faces):
        for j in range(len(f)):
            cells.setdefault(frozenset((f[j], f[(j + 1) % len(f)])), []).append(c)
    keys = sorted(cells, key=lambda k: sorted(k))
    rng.shuffle(keys)
    en, ef = [], []
    for k in keys:
        a, b = sorted(k)
        if rng.random() < 0.5:
            a, b = b, a
        en.append([a, b])
        cs = sorted(cells[k])
        if len(cs) == 1:
            ef.append([cs[0], INT_FILL])
        elif len(cs) == 2:
            if cs[0] == 0 or rng.random() < 0.5:
                cs = cs[::-1]
            ef.append(cs)
        else:
            return None  # non-manifold edge: not a C16 input
    src["mesh"]["edge_nodes"] = en
    src["mesh"]["edge_faces"] = ef
    src["tag"] = src["tag"] + "+supplied-edges"
    return src


def radii(rng, kind, n):
    if kind == "unit":
        return np.ones(n)
    if kind == "R":
        return np.full(n, rng.choice([6371229.0, 0.5, 2.5, 0.97]))
    return np.array([rng.uniform(0.9, 1.1) for _ in range(n)])  # mixed radii (cf. exodus/mixed: 0.967..1)


def forms_src(m, rng):
    """the FORM in which the source gives coordinates is a random dimension: nodes as lon/lat, as
    Cartesian positions (unit / one radius R / mixed radii) or both; face centres absent, lon/lat,
    Cartesian (any radius), both, or the un-normalised mean of the corner nodes; edge centres
    likewise when the source has its own edge tables; plus a random access history."""
    src = edges_src(m, rng, False) if rng.random() < 0.4 else None
    if src is None:
        src = topo_src(m, rng, False)
    mesh = src["mesh"]
    nf = rng.choice(["ll", "xyz", "xyz", "both"])
    mesh["node_form"] = nf
    tag = [f"node={nf}"]
    if nf != "ll":
        kind = rng.choice(["unit", "R", "mixed", "mixed"])
        mesh["node_xyz"] = (m.xyz * radii(rng, kind, m.n_node)[:, None]).tolist()
        tag[-1] += f"({kind})"
    ff = rng.choice(["none", "ll", "xyz", "xyz", "xyz", "both", "mean"])
    tag.append(f"face={ff}")
    if ff == "mean":
        mesh["face_xyz"] = [m.xyz[f].mean(axis=0).tolist() for f in m.faces]
    elif ff != "none":
        lon, lat = centroid_lonlat(m)
        lon = [float(x + rng.uniform(-0.4, 0.4)) for x in lon]
        lat = [float(min(89.0, max(-89.0, y + rng.uniform(-0.4, 0.4)))) for y in lat]
        if ff in ("ll", "both"):
            mesh["face_lon"], mesh["face_lat"] = lon, lat
        if ff in ("xyz", "both"):
            kind = rng.choice(["unit", "R", "R", "mixed"])
            d = np.array([meshes._ll(a, b) for a, b in zip(lon, lat)])
            mesh["face_xyz"] = (d * radii(rng, kind, m.n_face)[:, None]).tolist()
            tag[-1] += f"({kind})"
    edge_coords = False
    if mesh.get("edge_nodes") is not None:
        efm = rng.choice(["none", "ll", "xyz"])
        tag.append(f"edge={efm}")
        if efm != "none":
            edge_coords = True
            mid = np.array([m.xyz[a] + m.xyz[b] for a, b in mesh["edge_nodes"]])
            mid /= np.linalg.norm(mid, axis=1, keepdims=True)
            if efm == "ll":
                mesh["edge_lon"] = np.degrees(np.arctan2(mid[:, 1], mid[:, 0])).tolist()
                mesh["edge_lat"] = np.degrees(np.arcsin(np.clip(mid[:, 2], -1, 1))).tolist()
            else:
                mesh["edge_xyz"] = (mid * radii(rng, rng.choice(["unit", "R", "mixed"]), len(mid))[:, None]).tolist()
    src["tag"] = m.kind + ("+supplied-edges" if mesh.get("edge_nodes") is not None else "") + "+forms[" + ",".join(tag) + "]"
    return draw_history(rng, src, edge_coords)


def _lonlat(v):
    v = np.asarray(v, float)
    v = v / np.linalg.norm(v)
    return float(np.degrees(np.arctan2(v[1], v[0]))), float(np.degrees(np.arcsin(np.clip(v[2], -1, 1))))


def _np_lawcos(lon_a, lat_a, lon_b, lat_b):
    """the cosine sum as NumPy rounds it (generator side only: used to FIND pairs whose sum rounds
    outside [-1, 1]; never a verdict)"""
    la, pa, lb, pb = (np.deg2rad(np.float64(x)) for x in (lon_a, lat_a, lon_b, lat_b))
    return np.sin(pa) * np.sin(pb) + np.cos(pa) * np.cos(pb) * np.cos(la - lb)


def coarse_srcs(rng, n_random, n_adversarial):
    """large arcs between SUPPLIED face centres: exactly 90° / 180°, obtuse, almost antipodal and
    antipodal (exact axis positions and random rotations; lon/lat or Cartesian of any radius), on a
    two-cell grid and a three-cell band; plus antipodal pairs searched so that the law-of-cosines sum
    rounds below -1."""
    two, band = tiny()[0], meshes.patch(3, 1)
    out = []

    def src_of(m, centres, tag, form):
        src = topo_src(m, rng, False)
        mesh = src["mesh"]
        if form == "ll":
            ll = [c if isinstance(c, tuple) else _lonlat(c) for c in centres]
            mesh["face_lon"], mesh["face_lat"] = [float(a) for a, _ in ll], [float(b) for _, b in ll]
        else:
            r = radii(rng, rng.choice(["unit", "R", "mixed"]), len(centres))
            d = np.array([meshes._ll(*c) if isinstance(c, tuple) else np.asarray(c, float) / np.linalg.norm(c) for c in centres])
            mesh["face_xyz"] = (d * r[:, None]).tolist()
        src["tag"] = f"coarse:{tag}:{form}"
        return draw_history(rng, src)

    # exact positions (the sums hit 0 and -1 exactly or within an ulp)
    for a, b, tag in (((0.0, 0.0), (90.0, 0.0), "90"), ((0.0, 0.0), (180.0, 0.0), "180"), ((0.0, 0.0), (0.0, 90.0), "90-pole"),
                      ((-90.0, 0.0), (90.0, 0.0), "180"), ((10.0, 45.0), (-170.0, -45.0), "180"), ((0.0, 90.0), (0.0, -90.0), "180-poles"),
                      ((0.0, 0.0), (135.0, 0.0), "135"), ((30.0, 0.0), (-150.0 + 1e-6, 0.0), "almost-180")):
        out.append(src_of(two, [a, b], "exact-" + tag, "ll"))
    # random great circles
    for _ in range(n_random):
        R = meshes.random_rotation(rng)
        ang = rng.choice([90.0, 90.0, 120.0, 150.0, 179.0, 179.9999, 180.0, 180.0])
        t = math.radians(ang)
        form = rng.choice(["ll", "xyz"])
        if rng.random() < 0.6:
            cs = [R @ np.array([1.0, 0, 0]), R @ np.array([math.cos(t), math.sin(t), 0])]
            out.append(src_of(two, cs, f"rot-{ang:g}", form))
        else:
            cs = [R @ np.array([math.cos(k * t), math.sin(k * t), 0]) for k in range(3)]
            out.append(src_of(band, cs, f"band-rot-{ang:g}", form))
    # antipodal pairs whose cosine sum rounds below -1
    found, tries = 0, 0
    while found < n_adversarial and tries < 4000:
        tries += 1
        lon, lat = rng.uniform(-180, 180), rng.uniform(-89, 89)
        lon2, lat2 = (lon - 180 if lon > 0 else lon + 180), -lat
        if _np_lawcos(lon, lat, lon2, lat2) < -1.0:
            found += 1
            out.append(src_of(two, [(lon, lat), (lon2, lat2)], "antipodal-sum-below-minus-one", "ll"))
    # coarse closed grids with their own (derived) centres: octahedron (node arcs exactly 90°), tetrahedron, 3-prism
    for m in (meshes.bipyramid(4), tiny()[1], meshes.prism(3, lat=35.0), meshes.bipyramid(3)):
        out.append(draw_history(rng, topo_src(m.rotated(meshes.random_rotation(rng)) if rng.random() < 0.7 else m, rng, False)))
        out[-1]["tag"] = "coarse:" + out[-1]["tag"]
    return out


READS = ["edge_face_connectivity", "edge_face_distances", "edge_node_distances", "gradient", "face_lon", "edge_node_connectivity"]


def derived_srcs(rng, n):
    """derivation CHAINS: 1–3 steps of isel over faces / nodes / edges, copy() and chunk(), with a
    random subset of reads on every intermediate grid (none / edge_face_connectivity / the distance
    tables / a gradient / …), the parent's tables computed first or not, or assigned through the
    public setters without the connectivity ever having been built"""
    out = []
    pool = [meshes.cube_sphere(2), meshes.patch(4, 3), meshes.hull(14, rng), meshes.dual_of(meshes.hull(12, rng)),
            meshes.icosa(), meshes.cube_sphere(3)]
    for i in range(n):
        m = rng.choice(pool)
        if rng.random() < 0.5:
            m = m.renumber(rng)
        src = topo_src(m, rng, supply_centres=rng.random() < 0.3)
        chain, tag = [], []
        start = rng.choice(["tables-first", "tables-first", "nothing", "setter", "setter"])
        if start == "tables-first":
            chain += [dict(op="read", what="edge_face_distances"), dict(op="read", what="edge_node_distances")]
        elif start == "setter":
            chain.append(dict(op="set_distances", node_too=rng.random() < 0.5))
        tag.append(start)
        size = m.n_face
        for k in range(rng.choice([1, 2, 2, 3])):
            for w in rng.sample(READS, rng.choice([0, 0, 1, 2])) if k > 0 else []:
                chain.append(dict(op="read", what=w))
                tag.append("read:" + w.replace("_connectivity", "_conn"))
            t = rng.choice(["isel", "isel", "isel", "copy", "chunk"])
            if t == "isel":
                dim = rng.choice(["n_face", "n_face", "n_face", "n_node", "n_edge"])
                frac = rng.uniform(0.35, 0.85) if dim == "n_face" else rng.uniform(0.15, 0.5)
                cnt = max(2, int(frac * size))
                chain.append(dict(op="isel", dim=dim, pick=[rng.random() for _ in range(cnt)]))
                size = max(2, int(0.6 * size))
                tag.append("isel:" + dim)
            elif t == "copy":
                chain.append(dict(op="copy"))
                tag.append("copy")
            else:
                chain.append(dict(op="chunk", n=rng.choice([2, 3, 5, 1000])))
                tag.append("chunk")
        src["derive"] = dict(chain=chain)
        src["tag"] += "+chain[" + ",".join(tag) + "]"
        out.append(draw_history(rng, src))
    return out


def regular_closed(rng):
    """closed meshes whose nodes all have the same valence (so that the MPAS dual is well formed)"""
    return [meshes.dual_of(meshes.hull(rng.choice([9, 12, 16, 20]), rng)), meshes.prism(rng.choice([3, 4, 5, 6])),
            meshes.cube_sphere(1), meshes.icosa(), meshes.antiprism(rng.choice([3, 4, 5])), meshes.bipyramid(4)]


def selftest(ctx):
    """every command name this harness can emit must be known to the driver (a missing command on
    a failure path would otherwise surface as an infrastructure error exactly when a verdict is due)"""
    import re
    from pathlib import Path

    known = set(ctx.driver.ask("C16.commands").split())
    need = set(re.findall(r'"(C16\.[A-Za-z.]+)"', Path(__file__).read_text())) - {"C16.commands"}
    need |= {f"C16.{a}.{k}{x}" for a in ("dist", "oracle") for k in ("node", "face") for x in ("", ".xyz")}
    missing = sorted(need - known)
    if missing:
        raise RuntimeError("driver drv_c16 lacks commands the harness can emit: " + ", ".join(missing))
    ctx.extra["driver_commands_checked"] = len(need)


def run(ctx):
    rng = ctx.rng
    selftest(ctx)
    ctx.rule = ("grids: 5 tiny + harness/meshes.zoo (closed and partial, triangulations with n_face>n_node, duals/patches with "
                "n_face<n_node, all-boundary grids), built by Grid.from_topology with and without supplied face centres; again with the FORM of the supplied coordinates drawn at random "
                "(nodes lon/lat | xyz unit / radius R / mixed radii | both; face centres absent | lon/lat | xyz any radius | both | un-normalised corner "
                "mean; edge centres likewise; Cartesian-only nodes through Grid.from_dataset), coarse grids with SUPPLIED centres 90° / obtuse / "
                "179.9999° / exactly 180° apart (exact axis positions, random rotations, and antipodal pairs searched so that the cosine sum "
                "rounds below -1), derivation chains (1–3 steps of Grid.isel over faces / nodes / edges, copy(), chunk(), with random reads on every intermediate grid, the "
                "parent's tables computed first, not at all, or assigned through the public setters before edge_face_connectivity exists) and a random access history (coordinate reads, "
                "normalize_cartesian_coordinates(), order of the two distance reads) before the tables are read; and again with SOURCE-SUPPLIED edge_node/edge_face "
                "connectivity (own edge order, the two faces of an edge in either order, face 0 listed second, no distances); synthetic MPAS "
                "files (own edge numbering, dvEdge/dcEdge supplied) read as primal and as dual mesh; the MPAS sample file. Per grid: both "
                "distance tables, difference of face and of node data, gradient with/without normalisation on float/int/constant data of "
                "rank 1..4. distinct = distinct (grid tables, op, shape, data); non-trivial = grid has a two-face edge and data not constant")
    ctx.assumptions = [
        "centres are the positions the source supplied (as directions: the oracle is scale invariant, Lean oracleAngle_scale_invariant / "
        "dirDist_scale_invariant); where the source supplies none, the grid's own face_lon/face_lat (their correctness is C04's subject)",
        "float clauses: |impl - oracle| <= 64 eps / max(sin d, sqrt eps) + 64 eps (1+d)  (conditioning of arccos), eps of the coordinate dtype; "
        "normalisation 1e-12; IEEE rounding and libm are modelled, not verified",
        "element dimension is the last one; a zero-gradient slice (0/0) must come back all-NaN (the model's IEEE value) or all-zero, "
        "nothing else; it is not judged for unit norm",
        "source-supplied tables are judged for being carried over unchanged under the mesh's own node/face roles, not for their unit",
    ]
    # minimised past failures / regression witnesses of the Lean as-is counterexamples first
    for c in corpus_cases():
        ctx.hit("corpus")
        rerun(ctx, c["input"])
    ms = tiny()
    for rep in range(ctx.n(1, 20)):
        ms += meshes.zoo(rng, big=False)
    if ctx.thorough or ctx.escalate:
        ms += meshes.zoo(rng, big=True)[-4:]
        ms += [meshes.cube_sphere(6), meshes.hull(150, rng), meshes.dual_of(meshes.hull(120, rng))]
    for i, m in enumerate(ms):
        judge(ctx, draw_history(rng, topo_src(m, rng, supply_centres=(i % 2 == 1))))
    # the form in which coordinates are supplied (lon/lat, Cartesian of any radius, un-normalised means) × access history
    fs = tiny() + meshes.zoo(rng, big=False)
    for rep_ in range(ctx.n(0, 6)):
        fs += meshes.zoo(rng, big=False)
    for m in fs:
        judge(ctx, forms_src(m, rng))
    # coarse grids: arcs of exactly 90° / 180°, obtuse and antipodal centres
    for src in coarse_srcs(rng, ctx.n(10, 60), ctx.n(3, 12)):
        judge(ctx, src)
    # sub-grids and dask-chunked grids
    for src in derived_srcs(rng, ctx.n(24, 120)):
        for st in src["derive"]["chain"]:
            ctx.hit("chain:" + st["op"] + (":" + st.get("dim", st.get("what", "")) if st["op"] in ("isel", "read") else ""))
        judge(ctx, src)
    # source-supplied edge tables (own edge order, faces of an edge in either order), no distances
    es = tiny() + meshes.zoo(rng, big=False)
    for rep_ in range(ctx.n(0, 4)):
        es += meshes.zoo(rng, big=False)
    for i, m in enumerate(es):
        if rng.random() < 0.5:
            m = m.renumber(rng)  # which face is face 0 varies
        src = edges_src(m, rng, supply_centres=(i % 3 == 2))
        if src is not None:
            judge(ctx, draw_history(rng, src))
    # source-supplied distances
    prim = [meshes.patch(2, 2), meshes.fan(5), meshes.cube_sphere(2).drop_faces(rng, 0.3)] + (regular_closed(rng) + (regular_closed(rng) if ctx.thorough else []))[: ctx.n(3, 12)]
    for m in prim:
        if rng.random() < 0.6:
            m = m.renumber(rng)
        judge(ctx, dict(source="mpas", dual=False, tag="mpas-primal:" + m.kind, mesh=mpas_spec(m, rng)))
    for m in (regular_closed(rng) + (regular_closed(rng) if ctx.thorough else []))[: ctx.n(4, 12)]:
        if rng.random() < 0.6:
            m = m.renumber(rng)
        judge(ctx, dict(source="mpas", dual=True, tag="mpas-dual:" + m.kind, mesh=mpas_spec(m, rng)))
    f = "test/meshfiles/mpas/QU/mesh.QU.1920km.151026.nc"
    if (common.REPO / f).exists():
        for dual in (False, True):
            judge(ctx, dict(source="file", file=f, dual=dual, tag=f"file:mpas-QU1920{'-dual' if dual else ''}"), ops=ctx.thorough)
    else:
        ctx.notes.append("MPAS sample file missing: file-supplied case skipped")
    if ctx.thorough or ctx.escalate:
        for f in ("test/meshfiles/ugrid/quad-hexagon/grid.nc", "test/meshfiles/ugrid/outCSne30/outCSne30.ug",
                  "test/meshfiles/ugrid/geoflow-small/grid.nc", "test/meshfiles/exodus/mixed/mixed.exo",
                  "test/meshfiles/exodus/outCSne8/outCSne8.g"):
            if (common.REPO / f).exists():
                judge(ctx, dict(source="file", file=f, tag="file:" + f.split("/")[-2]))


def corpus_cases():
    p = common.CORPUS / "C16"
    if not p.is_dir():
        return []
    return [json.loads(f.read_text()) for f in sorted(p.glob("*.json"))]


def rerun(ctx, inp):
    """re-run exactly one stored input (a distance-table case or one operator case)"""
    import uxarray as ux

    selftest(ctx)
    src = inp["grid"]
    try:
        g = build_grid(ux, src)
    except Exception as e:
        ctx.notes.append(f"stored input {src.get('tag')}: grid could not be built ({type(e).__name__}: {e}): skipped")
        return
    raw = apply_history(ctx, g, src)
    o = observe(ctx, g, src)
    if o is None:
        return
    inp0 = dict(grid=src)
    if inp.get("op") in ("difference", "gradient"):
        try:
            df = np.asarray(g.edge_face_distances.values) if raw is None else raw["edge_face_distances"][0]
        except Exception:
            df = None
        judge_ops(ctx, g, o, src, inp0, df, ux, cases=[inp])
    else:
        judge_distances(ctx, g, o, src, inp0, raw)


def replay(ctx, rp):
    rerun(ctx, rp["input"])
