"""C09 — subsets and cross-sections are faithful, fully functional restrictions.

Lean side (Props/C09.lean): `slice_faces_exact`, `slice_functional`, `slice_history_independent`,
`data_aligned`, `crosssec_iff`, `mask_order_irrelevant`, `box_iff` / `circle_iff` / `knn_spec`, about the
model `Slice.sliceFaces` (the REPAIRED `_slice_face_indices`, fixes/C09-*.patch) and the as-is
counterexamples.

Tie (differential, per generated case): a source grid (generated mesh, optionally with its own
edge tables; the MPAS sample) gets a random history of derived variables materialised, is then
sliced through the public API (Grid.isel / Grid.subset.* / Grid.cross_section.constant_latitude /
the UxDataArray counterparts), and
  * the selection (which faces) is judged by Lean predicates (`Touching`, `SameSet`, `CrossSpec`)
    against the source's incidence tables and the Lean selectors (`boxSel`, `circleSel`, `knnSel`);
  * the subset's own tables are judged by `Slice.Spec` (restriction clauses + C02's `Edges.Spec` on
    the subset) and C03's `Incidence.Spec`, all evaluated by the Lean driver;
  * the Lean state machine (`State.slice` + requests) must reproduce every table the
    implementation reports, for that history;
  * coordinates / geometric quantities are compared with the source's at the recorded indices;
  * data sliced with the grid are judged by `DataAligned`.
"""

from __future__ import annotations

import math
import os
import subprocess
import sys

import numpy as np

from . import common, meshes
from .common import INT_FILL, enc_float, enc_floats, enc_ints, enc_pairs, enc_rows

MARGIN = 1e-9  # region boundaries / the parallel: reference points closer than this are not judged
VARS = ["edge_node_connectivity", "face_edge_connectivity", "n_nodes_per_face", "node_face_connectivity",
        "edge_face_connectivity", "face_face_connectivity", "hole_edge_indices"]
GEO_CHEAP = ["node_x", "node_y", "node_z", "edge_lon", "edge_lat", "edge_x", "edge_y", "edge_z",
             "face_lon", "face_lat", "face_x", "face_y", "face_z", "edge_node_z", "edge_node_distances"]
GEO_SLOW = ["face_areas"]
# variables of the Lean state machine (codes of Driver.C09.varOf)
SM_VARS = VARS + ["edge_face_distances"]
# derived variables that are NOT per-element invariants of a restriction (they look at the neighbours of an element)
NEIGHBOUR_GEO = ["edge_face_distances"]
# every derived attribute a Grid can report (audit of Grid's properties); `bounds` is compared on small meshes only (slow)
ALL_DERIVED = VARS + GEO_CHEAP + NEIGHBOUR_GEO + ["face_areas", "face_jacobian", "antimeridian_face_indices", "bounds"]
ELEMENTS = {"nodes": "node", "face centers": "face", "edge centers": "edge"}
MPAS = "test/meshfiles/mpas/QU/mesh.QU.1920km.151026.nc"


# --------------------------------------------------------------------------------------
# helpers
# --------------------------------------------------------------------------------------


def rows_of(a):
    return [[int(x) for x in r] for r in np.asarray(a)]


def pairs_of(a):
    return [(int(r[0]), int(r[1])) for r in np.asarray(a)]


def enc_src(t, EN, FE):
    return " ".join([enc_rows(t), enc_pairs(EN), enc_rows(FE)])


def enc_obs(o):
    return " ".join([enc_ints(o["nodeIdx"]), enc_ints(o["faceIdx"]), enc_ints(o["edgeIdx"]), enc_rows(o["t"]),
                     enc_pairs(o["EN"]), enc_rows(o["FE"]), enc_ints(o["N"])])


def enc_fpairs(Z):
    return " ".join([str(len(Z))] + [enc_float(a) + " " + enc_float(b) for a, b in Z])


def msets(table):
    return [sorted(x for x in r if x != INT_FILL) for r in table]


def haversine_deg(lon0, lat0, lon, lat):
    lon0, lat0, lon, lat = map(np.radians, (lon0, lat0, np.asarray(lon, float), np.asarray(lat, float)))
    a = np.sin((lat - lat0) / 2) ** 2 + np.cos(lat0) * np.cos(lat) * np.sin((lon - lon0) / 2) ** 2
    return np.degrees(2 * np.arcsin(np.sqrt(np.clip(a, 0, 1))))


_ZC = []


def zc_numba(lat):
    """`np.sin(np.deg2rad(lat))` compiled by numba, as inside fast_constant_lat_intersections"""
    if not _ZC:
        import numba

        @numba.njit
        def f(x):
            return np.sin(np.deg2rad(x))

        _ZC.append(f)
    return float(_ZC[0](float(lat)))


def build_source(case, ux):
    if "file" in case:
        return ux.open_grid(str(common.REPO / case["file"]))
    kw = {}
    sup = case.get("supplied")
    if sup:
        # the source's own edge table (a permutation of the derived rows, random orientation per row), with or without its
        # face_edge table, and edge centres given on THAT numbering
        kw = dict(edge_node_connectivity=np.array(sup["EN"], dtype=np.int64))
        if sup.get("pass_fe", True):
            kw["face_edge_connectivity"] = np.array(sup["FE"], dtype=np.int64)
        if "edge_lon" in sup:
            kw["edge_lon"] = np.array(sup["edge_lon"], dtype=float)
            kw["edge_lat"] = np.array(sup["edge_lat"], dtype=float)
    return ux.Grid.from_topology(node_lon=np.array(case["lon"], dtype=float), node_lat=np.array(case["lat"], dtype=float),
                                 face_node_connectivity=np.array(case["table"], dtype=np.int64), fill_value=INT_FILL, **kw)


def ref_coords(g, element):
    if element == "nodes":
        return g.node_lon.values, g.node_lat.values
    if element == "face centers":
        return g.face_lon.values, g.face_lat.values
    return g.edge_lon.values, g.edge_lat.values


def set_node_node(g):
    """a user-supplied node_node_connectivity (public setter): the neighbours of each node along edges"""
    import xarray as xr

    t = np.asarray(g.face_node_connectivity.values)
    nb = [[] for _ in range(int(g.n_node))]
    for r in t:
        f = [int(x) for x in r if x != INT_FILL]
        for a, b in zip(f, f[1:] + f[:1]):
            if b not in nb[a]:
                nb[a].append(b)
            if a not in nb[b]:
                nb[b].append(a)
    w = max(len(x) for x in nb)
    arr = np.full((len(nb), w), INT_FILL, dtype=np.int64)
    for i, x in enumerate(nb):
        arr[i, : len(x)] = x
    g.node_node_connectivity = xr.DataArray(arr, dims=["n_node", "n_max_node_nodes"])


def values_of(x):
    return np.asarray(x.values if hasattr(x, "values") else x)


def same_values(a, b, lon=False):
    if a.shape != b.shape:
        return False
    if a.dtype.kind in "iub" and b.dtype.kind in "iub":
        return bool(np.array_equal(a, b))
    if lon:
        return bool(np.all(np.abs((a - b + 180.0) % 360.0 - 180.0) <= 1e-12))
    return bool(np.allclose(a, b, rtol=1e-12, atol=1e-12, equal_nan=True))


def is_chunk(v):
    return isinstance(v, str) and v.startswith("chunk:")


def do_history_op(g, v):
    """one entry of a materialisation history: an attribute name (read it), or `chunk:<n_node>:<n_edge>:<n_face>`
    (`Grid.chunk` with these arguments, `auto` or an int; -1 = one chunk): the arrays present at that moment become dask arrays"""
    if is_chunk(v):
        a = [x if x == "auto" else int(x) for x in v.split(":")[1:]]
        g.chunk(n_node=a[0], n_edge=a[1], n_face=a[2])
    else:
        getattr(g, v)


def random_chunk(rng):
    return "chunk:" + ":".join(str(rng.choice(["auto", -1, 1, 2, 3, 5, 64])) for _ in range(3))


def add_chunks(rng, hist, p=0.3):
    """the backing of the source is a random dimension of every case: with probability `p` the source is chunked at a random
    point of its materialisation history (sometimes twice)"""
    hist = list(hist)
    if rng.random() < p:
        hist.insert(rng.randint(0, len(hist)), random_chunk(rng))
        if rng.random() < 0.25:
            hist.insert(rng.randint(0, len(hist)), random_chunk(rng))
    return hist


def make_index(sel):
    idx = sel["index"]
    form = sel.get("form", "list")
    if form == "scalar":
        return int(idx[0])
    if form == "npscalar":
        return np.int64(idx[0])
    if form == "array":
        return np.array(idx, dtype=np.int64)
    if form == "array32":
        return np.array(idx, dtype=np.int32)
    if form == "tuple":
        return tuple(idx)
    if form == "0d":
        return np.array(idx[0], dtype=np.int64)
    if form == "mask":
        m = np.zeros(int(sel["n"]), dtype=bool)
        m[idx] = True
        return m
    if form == "slice":
        return slice(*sel["slice"])
    return list(idx)


def apply_sel(obj, sel, is_da):
    k = sel["kind"]
    if k in ("face", "node", "edge"):
        return obj.isel(**{"n_" + k: make_index(sel)})
    if k == "box":
        return obj.subset.bounding_box(tuple(sel["lon"]), tuple(sel["lat"]), element=sel["element"])
    if k == "circle":
        return obj.subset.bounding_circle(tuple(sel["center"]), sel["r"], element=sel["element"])
    if k == "knn":
        return obj.subset.nearest_neighbor(tuple(sel["center"]), k=sel["k"], element=sel["element"])
    if k == "lat":
        return obj.cross_section.constant_latitude(sel["lat"])
    raise ValueError(k)


def make_data(case, sizes):
    d = case.get("data")
    if not d:
        return None
    n = sizes[d["centre"]]
    lead = d["lead"]
    L = int(np.prod(lead)) if lead else 1
    a = (np.arange(L, dtype=np.int64)[:, None] * 100003 + np.arange(n, dtype=np.int64)[None, :] * 7 + 1)
    a = a.reshape(tuple(lead) + (n,))
    return a.astype(np.float64 if d.get("dtype", "float") == "float" else np.int64)


def sig_src(case):
    return "src=" + ("file" if "file" in case else "supplied" if case.get("supplied") else "built")


# --------------------------------------------------------------------------------------
# one case
# --------------------------------------------------------------------------------------


def judge(ctx, case):
    """the case's selection on its source, then every further selection of `case["chain"]` on the sub-grid the previous
    one returned (each sub-grid is judged against ITS OWN source; data through the composed recorded indices).  The
    sub-grid a chained selection starts from is rebuilt WITHOUT being observed (`replay_prefix`): only what the case's
    histories materialise is there, not what this harness reads when it judges the previous step."""
    ok = judge_step(ctx, case, case, None, 0)
    for depth, step in enumerate(case.get("chain") or [], 1):
        if ok is None:
            break
        ctx.hit("chain-depth=%d" % depth)
        try:
            prev = replay_prefix(case, depth)
        except Exception as e:
            ctx.fail(f"C09/chain/depth={depth}/prefix-raises={type(e).__name__}",
                     f"re-running the first {depth} selection(s) of the chain raises {type(e).__name__}: {str(e)[:160]}", case)
            break
        ok = judge_step(ctx, case, step, prev, depth)


def replay_prefix(case, depth):
    """root (+ its history) → selection 0 → [history on the sub-grid → next selection] … : the un-observed sub-grid (or
    UxDataArray) after `depth` selections, with the composed recorded indices"""
    import uxarray as ux

    g = build_source(case, ux)
    if case.get("node_node"):
        set_node_node(g)
    is_da = case.get("via") == "uxda"
    steps = [case] + list(case.get("chain") or [])
    obj, root, comp, sels = g, None, None, []
    for i in range(depth):
        grid = obj.uxgrid if (is_da and i > 0) else (g if i == 0 else obj)
        for v in steps[i].get("history", []):
            try:
                do_history_op(grid, v)
            except Exception:
                pass
        if is_da and i == 0:
            sizes = dict(node=int(g.n_node), face=int(g.n_face), edge=int(g.n_edge) if case["data"]["centre"] == "edge" else None)
            root = make_data(case, sizes)
            dims = [f"d{k}" for k in range(root.ndim - 1)] + ["n_" + case["data"]["centre"]]
            obj = ux.UxDataArray(root, dims=dims, uxgrid=g, name="v")
        obj = apply_sel(obj, steps[i]["sel"], is_da)
        sels.append(steps[i]["sel"])
        if is_da:
            rec = [int(x) for x in obj.uxgrid._ds["subgrid_%s_indices" % case["data"]["centre"]].values]
            comp = rec if comp is None else [comp[j] for j in rec]
    return dict(sub=obj.uxgrid if is_da else obj, res=obj, sels=sels, comp=comp, root=root)


def judge_step(ctx, case, step, prev, depth):
    import uxarray as ux

    d = ctx.driver
    sel = step["sel"]
    kind = sel["kind"] + (":" + sel["element"] if "element" in sel else "")
    src_kind = sig_src(case) if depth == 0 else "src=subgrid(depth %d)" % depth
    key = (case.get("file"), case.get("table"), bool(case.get("supplied")), tuple(case.get("history", [])),
           repr(sorted(case["sel"].items())), case.get("via"), repr(case.get("data")), depth,
           repr([(c.get("history"), sorted(c["sel"].items())) for c in (case.get("chain") or [])[:depth]]))
    is_da = case.get("via") == "uxda"
    node_node = bool(case.get("node_node")) and depth == 0
    if prev is None:
        g = build_source(case, ux)
        if node_node:
            set_node_node(g)
            ctx.hit("source-has-node_node_connectivity")
    else:
        g = prev["sub"]
    hist_done = []
    for v in step.get("history", []):
        try:
            do_history_op(g, v)
            hist_done.append(v)
            if is_chunk(v):
                ctx.hit("source-chunked(dask-backed)" if depth == 0 else "intermediate-subgrid-chunked")
        except Exception as e:  # a derived variable of the SOURCE that cannot be built is another property's business
            if is_chunk(v):
                # Grid.chunk itself failing on this path is noted, not judged (C08's business)
                ctx.hit(f"chunk-raises:{type(e).__name__}")
                ctx.notes.append(f"Grid.chunk raised {type(e).__name__}: {str(e)[:120]} (history {step.get('history')}): noted, not judged")
                continue
            if depth:
                ctx.fail(f"C09/chain/depth={depth}/derived={v}/raises={type(e).__name__}",
                         f"{v} of the intermediate sub-grid raises {type(e).__name__}: {str(e)[:160]}", case)
                return None
            ctx.hit(f"source-raises:{v}:{type(e).__name__}")
    obj = g
    data = None
    if is_da and prev is None:
        sizes = dict(node=int(g.n_node), face=int(g.n_face), edge=None)
        if case["data"]["centre"] == "edge":
            sizes["edge"] = int(g.n_edge)
        data = make_data(case, sizes)
        dims = [f"d{i}" for i in range(data.ndim - 1)] + ["n_" + case["data"]["centre"]]
        obj = ux.UxDataArray(data, dims=dims, uxgrid=g, name="v")
    elif is_da:
        obj = prev["res"]
        data = np.asarray(obj.values)
    ctx.hit("sel=" + kind)
    if sel["kind"] in ("face", "node", "edge"):
        ctx.hit("index-form=%s:%s" % (sel["kind"], sel.get("form", "list")))
    ctx.hit("via=" + ("uxda:" + case["data"]["centre"] + ":rank%d" % data.ndim if is_da else "grid"))
    ctx.hit(src_kind)
    ctx.hit("history=%d" % len(hist_done))
    for v in hist_done:
        if not is_chunk(v):
            ctx.hit("pre:" + v)
    if any(is_chunk(v) for v in hist_done):
        after = [v for v in hist_done[[is_chunk(v) for v in hist_done].index(True):] if not is_chunk(v)]
        before = [v for v in hist_done[:[is_chunk(v) for v in hist_done].index(True)] if not is_chunk(v)]
        if "edge_face_distances" in before:
            ctx.hit("chunked-after-edge_face_distances")
        if "edge_face_distances" in after:
            ctx.hit("chunked-before-edge_face_distances")

    # ---- reference selection (Lean) ----
    want_ind, dropped = None, False
    if sel["kind"] in ("box", "circle", "knn"):
        lon, lat = ref_coords(g, sel["element"])
        if sel["kind"] == "box":
            (a, b), (c, e) = sel["lon"], sel["lat"]
            near = min(np.min(np.abs(lon - a)), np.min(np.abs(lon - b)), np.min(np.abs(lat - c)), np.min(np.abs(lat - e)))
            if a > b:
                near = min(near, np.min(np.abs(lon - 180.0)), np.min(np.abs(lon + 180.0)))
                ctx.hit("box:antimeridian")
            dropped = near < MARGIN
            want_ind = common.Tok(d.ask("C09.box", enc_float(a), enc_float(b), enc_float(c), enc_float(e),
                                        enc_floats(lon), enc_floats(lat))).ints()
        else:
            dist = haversine_deg(sel["center"][0], sel["center"][1], lon, lat)
            if sel["kind"] == "circle":
                dropped = bool(np.min(np.abs(dist - sel["r"])) < MARGIN)
                want_ind = common.Tok(d.ask("C09.circle", enc_floats(dist), enc_float(sel["r"]))).ints()
            else:
                sd = np.sort(dist)
                k = sel["k"]
                dropped = bool(k < len(sd) and sd[k] - sd[k - 1] < MARGIN)
                want_ind = common.Tok(d.ask("C09.knn", enc_floats(dist), k)).ints()
        if dropped:
            ctx.hit("margin-dropped")
            return None
    ctx.case(key, nontrivial=True, sample=dict(mesh=case.get("mesh", case.get("file")), supplied_edge_tables=bool(case.get("supplied")),
                                               history=case.get("history"), selection=case["sel"], via=case.get("via"), data=case.get("data"),
                                               requests_on_subset=case.get("order"), chain=case.get("chain"))
             if len(case.get("table", [])) <= 8 else None)

    def fail(sig, what, impl=None, model=None, clauses=()):
        ctx.fail(("C09/chain/depth=%d/" % depth if depth else "C09/") + sig, what, case, impl, model, list(clauses))

    # ---- run the implementation ----
    try:
        res = apply_sel(obj, sel, is_da)
    except Exception as e:
        empty = (want_ind is not None and len(want_ind) == 0) or (sel["kind"] == "lat" and sel.get("expect_empty"))
        if isinstance(e, ValueError) and empty:
            ctx.hit("empty-selection-raises")
            return
        if sel["kind"] == "lat" and isinstance(e, ValueError):
            # nothing selected (the Grid accessor says so, the UxDataArray accessor fails inside isel on the empty
            # index list): whether an empty selection is right is decided below by CrossSpec on an empty face list
            res = None
        elif node_node and isinstance(e, KeyError):
            fail("source-has-node_node_connectivity/raises=KeyError", "slicing a grid that carries a (user-set) node_node_connectivity raises "
                 f"KeyError: {str(e)[:80]} (its rows list neighbours outside the subset; the node dictionary has no entry for them)")
            return
        else:
            fail(f"{sel['kind']}/raises={type(e).__name__}/{src_kind}", f"selection {kind} raises {type(e).__name__}: {str(e)[:200]}")
            return
    if want_ind is not None and len(want_ind) == 0:
        fail(f"{sel['kind']}/empty-selection-returns", f"{kind}: no reference point inside the region but a grid was returned")
        return

    # ---- source tables (as the slicer saw them) ----
    t = rows_of(g.face_node_connectivity.values)
    EN = pairs_of(g.edge_node_connectivity.values)
    FE = rows_of(g.face_edge_connectivity.values)
    N = [int(x) for x in g.n_nodes_per_face.values]
    w = len(t[0])
    n_node = int(g.n_node)
    truth_EF_rows = None
    if depth == 0 and case.get("supplied"):
        # the source's OWN edge table must survive the selection row for row (same order, same orientation), the faces' edges
        # must refer to its numbering, and so must the edge centres it came with
        sup0 = case["supplied"]
        ENt, FEt = [tuple(p) for p in sup0["EN"]], [list(r) for r in sup0["FE"]]
        ctx.hit("supplied:edge_node+face_edge" if sup0.get("pass_fe", True) else "supplied:edge_node-only")
        if EN != ENt:
            moved = sum(1 for a, b in zip(EN, ENt) if a != b) if len(EN) == len(ENt) else -1
            fail("source-edge-table-replaced", "after the selection the source's edge_node_connectivity is no longer the table it was "
                 f"constructed with ({moved} rows differ): edge coordinates, edge-centred data and recorded edge indices refer to another "
                 "numbering", dict(edge_node_connectivity=EN), dict(supplied=ENt), ["slice_keeps_supplied_edges"])
            return
        if FE != FEt:
            fail("source-face-edge-not-in-supplied-numbering", "face_edge_connectivity of the source does not point into the supplied "
                 "edge table", dict(face_edge_connectivity=FE), dict(expected=FEt), ["slice_keeps_supplied_edges"])
            return
        if "edge_lon" in sup0 and not (np.array_equal(g.edge_lon.values, np.array(sup0["edge_lon"])) and
                                       np.array_equal(g.edge_lat.values, np.array(sup0["edge_lat"]))):
            fail("source-edge-centres-changed", "the source's supplied edge_lon / edge_lat changed during the selection")
            return
        lk = d.ask("C09.lookupfe", enc_rows(t), enc_pairs(ENt))
        if lk == "none" or common.Tok(lk.split(" ", 1)[1]).rows() != FEt:
            ctx.mismatch("C09/lookupFE(model of the face-edge lookup in a supplied table)", case, FEt, lk)
        tef = common.Tok(d.ask("C09.edgeface", enc_rows(FEt), enc_ints(N), len(ENt))).pairs()
        truth_EF_rows = [[a, b] for a, b in tef]

    if sel["kind"] == "lat":
        # the doubles the implementation compares: the grid's OWN node z (edge_node_z = node_z[edge_node_connectivity]) and
        # z_constant = sin(deg2rad(lat)) as the jitted scan computes it (same expression compiled by numba here; the NumPy
        # value must agree bit for bit, otherwise only the margin form is judged)
        zn = np.asarray(g.node_z.values, dtype=float)
        Z = [(float(zn[a]), float(zn[b])) for a, b in EN]
        c = zc_numba(float(sel["lat"]))
        c_np = float(np.sin(np.deg2rad(float(sel["lat"]))))
        zs = np.array(Z, dtype=float).ravel()
        ties = int(np.sum(zs == c))
        near = int(np.sum((zs != c) & (np.abs(zs - c) <= MARGIN)))
        exact = (c == c_np) and near == 0
        ctx.hit("lat:judged-exactly" if exact else "lat:judged-with-margin")
        if exact and ties:
            ctx.hit("lat:exact-tie(node on the parallel)")
        got_faces = [] if res is None else [int(x) for x in (res.uxgrid if is_da else res)._ds["subgrid_face_indices"].values]
        direct = [int(x) for x in np.atleast_1d(g.get_faces_at_constant_latitude(sel["lat"]))]
        for name, faces in (("cross_section", got_faces), ("get_faces_at_constant_latitude", direct)):
            if exact:
                ok = d.ask("C09.latexact", enc_float(c), enc_fpairs(Z), enc_rows(FE), enc_ints(N), enc_ints(faces))
            else:
                ok = d.ask("C09.latspec", enc_float(c), enc_float(MARGIN), enc_fpairs(Z), enc_rows(FE), enc_ints(N), enc_ints(faces))
            if ok != "1":
                fail(f"lat/{name}/faces" + ("/exact-tie" if exact and ties else ""),
                     f"{name}(lat={sel['lat']}): the faces are not those with an edge whose end nodes lie strictly on "
                     "opposite sides of the parallel" + (f" ({ties} edge end nodes lie exactly on it)" if ties else ""),
                     dict(faces=faces, z_constant=c, ties=ties), None, ["crosssec_iff"])
                return
        # the property's own terms: "the latitude equals a NODE's latitude" is about node_lat AS THE SOURCE GAVE IT.  For a source
        # given in lon/lat the same Lean clause (CrossExact) is therefore also decided in the latitude domain, on the source's
        # node_lat doubles and the queried latitude (degrees): whatever the grid derives for node_z, a face all of whose corners lie
        # on or above (on or below) the parallel must not be selected, a face with an edge strictly across it must be.
        if "file" not in case:
            nlat = np.asarray(g.node_lat.values, dtype=float)
            if depth == 0 and not np.array_equal(nlat, np.asarray(case["lat"], dtype=float)):
                ctx.hit("lat:node_lat-differs-from-source(lat-domain uses the source's)")
                nlat = np.asarray(case["lat"], dtype=float)
            ql = float(sel["lat"])
            # independent of anything the grid derived: strict order of latitudes must be a clear order of sines
            sn, sq = np.sin(np.deg2rad(nlat)), float(np.sin(np.deg2rad(ql)))
            clear = bool(np.all((nlat == ql) | (np.abs(sn - sq) > MARGIN)))
            if clear:
                L = [(float(nlat[a]), float(nlat[b])) for a, b in EN]
                lties = int(np.sum(nlat == ql))
                ctx.hit("lat:judged-in-latitude-domain(source node_lat)")
                if lties:
                    ctx.hit("lat:latitude-domain-tie(node_lat == lat)")
                for name, faces in (("cross_section", got_faces), ("get_faces_at_constant_latitude", direct)):
                    ok = d.ask("C09.latexact", enc_float(ql), enc_fpairs(L), enc_rows(FE), enc_ints(N), enc_ints(faces))
                    if ok != "1":
                        fail(f"lat/{name}/faces/node_lat" + ("-tie" if lties else ""),
                             f"{name}(lat={ql}): judged on the source's node latitudes, the faces are not those with an edge whose end "
                             f"nodes lie strictly on opposite sides of the parallel ({lties} nodes have exactly this latitude; a face "
                             "that only touches the parallel is selected, or a crossing face is missing)",
                             dict(faces=faces, nodes_on_parallel=lties), None, ["crosssec_iff", "facesAt_meets_crossExact"])
                        return
            else:
                ctx.hit("lat:latitude-domain-not-judged(near tie)")
        if sorted(direct) != sorted(got_faces):
            fail("lat/accessor-vs-method", "cross_section.constant_latitude and get_faces_at_constant_latitude select different faces",
                 dict(accessor=got_faces, method=direct))
            return
        EFs = pairs_of(g.edge_face_connectivity.values)
        mo = common.Tok(d.ask("C09.lat", enc_float(c), enc_fpairs(Z), enc_ints(range(len(Z))), enc_pairs(EFs)))
        mo.ints()
        mfaces = mo.ints()
        ctx.hit("lat:model-identical" if mfaces == direct else "lat:model-differs-inside-margin")
        if exact and mfaces != direct:
            ctx.mismatch("C09/lat-scan(model on the same doubles)", case, direct, mfaces)
        # thread counts (in-process)
        try:
            import numba

            cur = numba.get_num_threads()
            for k in (1, 2, 7, 16):
                if k <= numba.config.NUMBA_NUM_THREADS:
                    numba.set_num_threads(k)
                    again = [int(x) for x in np.atleast_1d(g.get_faces_at_constant_latitude(sel["lat"]))]
                    ctx.hit("threads=%d" % k)
                    if again != direct:
                        fail(f"lat/threads={k}", f"get_faces_at_constant_latitude differs with {k} numba threads", dict(faces=again, reference=direct))
            numba.set_num_threads(cur)
        except ImportError:
            pass
        if res is None:
            ctx.hit("lat:no-intersection")
            return

    sub = res.uxgrid if is_da else res
    if is_da and not isinstance(res, ux.UxDataArray):
        fail(f"{sel['kind']}/result-type", f"{kind} on a UxDataArray returned {type(res).__name__}")
        return
    try:
        rec_f = [int(x) for x in sub._ds["subgrid_face_indices"].values]
        rec_n = [int(x) for x in sub._ds["subgrid_node_indices"].values]
        rec_e = [int(x) for x in sub._ds["subgrid_edge_indices"].values]
    except Exception as e:
        fail("recorded-indices-missing", f"the subset does not record its source indices: {e}")
        return

    # ---- which faces ----
    if sel["kind"] == "face":
        idx = [int(x) for x in sel["index"]]
    else:
        idx = rec_f
        if sel["kind"] in ("node", "edge") or sel["kind"] in ("box", "circle", "knn"):
            elem = sel["kind"] if sel["kind"] in ("node", "edge") else ELEMENTS[sel["element"]]
            ind = [int(x) for x in sel["index"]] if sel["kind"] in ("node", "edge") else want_ind
            if elem == "face":
                ok = d.ask("C09.sameset", enc_ints(ind), enc_ints(rec_f))
            elif elem == "node":
                NF = rows_of(g.node_face_connectivity.values)
                ok = d.ask("C09.touch", enc_rows(NF), enc_ints(ind), enc_ints(rec_f))
            else:
                EF = pairs_of(g.edge_face_connectivity.values)
                ef_rows = [[a, b] for a, b in EF]
                if truth_EF_rows is not None:
                    # the faces on SUPPLIED row k (Lean's edge-face table of the supplied face_edge table)
                    if [sorted(r) for r in ef_rows] != [sorted(r) for r in truth_EF_rows]:
                        fail("source-edge-face-not-on-supplied-numbering", "edge_face_connectivity of the source does not list, for each "
                             "supplied edge row, the faces on that edge", ef_rows, truth_EF_rows, ["slice_keeps_supplied_edges"])
                        return
                    ef_rows = truth_EF_rows
                ok = d.ask("C09.touch", enc_rows(ef_rows), enc_ints(ind), enc_ints(rec_f))
            if ok != "1":
                fail(f"{kind}/selection", f"{kind}: the faces of the subset are not exactly the faces touching the selected {elem}s "
                     "(reference points inside the region)", dict(faces=rec_f), dict(selected=ind), ["selection"])
                return
    if any(f < 0 or f >= len(t) for f in idx) or len(set(idx)) != len(idx):
        ctx.hit("outside-quantifier(index)")
        return

    # ---- the user's own requests on the subset, in the case's order (histories after slicing) ----
    for attr in step.get("order", []):
        try:
            getattr(sub, attr)
        except Exception as e:
            fail(f"derived={attr}/raises={type(e).__name__}/{src_kind}",
                 f"{attr} of the subset raises {type(e).__name__}: {str(e)[:160]}", dict(history=hist_done))
            return

    # ---- the subset's own tables ----
    obs = dict(nodeIdx=rec_n, faceIdx=rec_f, edgeIdx=rec_e)
    for name, attr, conv in (("t", "face_node_connectivity", rows_of), ("EN", "edge_node_connectivity", pairs_of),
                             ("FE", "face_edge_connectivity", rows_of), ("N", "n_nodes_per_face", lambda a: [int(x) for x in a])):
        try:
            obs[name] = conv(getattr(sub, attr).values)
        except Exception as e:
            fail(f"derived={attr}/raises={type(e).__name__}/{src_kind}",
                 f"{attr} of the subset raises {type(e).__name__}: {str(e)[:160]}", dict(history=hist_done))
            return
    pre = d.ask("C09.pre", n_node, w, enc_src(t, EN, FE), enc_ints(idx))
    ctx.hit("pre-holds" if pre == "1" else "pre-fails(restriction clauses only)")
    verdict = d.ask("C09.spec" if pre == "1" else "C09.restrict", w, enc_src(t, EN, FE), enc_ints(idx), enc_obs(obs))
    mo = common.Tok(d.ask("C09.slice", enc_src(t, EN, FE), enc_ints(idx)))
    model = dict(nodeIdx=mo.ints(), faceIdx=mo.ints(), edgeIdx=mo.ints(), t=mo.rows(), EN=mo.pairs(), FE=mo.rows())
    if verdict != "ok":
        clauses = verdict.split(" ", 1)[1].split(",")
        fail("spec/" + "+".join(clauses) + "/" + src_kind, "the subset is not the restriction of the source to the selected faces: " + verdict,
             obs, model, clauses)
        return
    same = all(obs[k] == model[k] for k in ("nodeIdx", "faceIdx", "edgeIdx", "t", "EN", "FE"))
    ctx.hit("identical-to-model" if same else "differs-from-model(spec ok)")
    if not same:
        ctx.mismatch("C09/sliceFaces", case, obs, model)

    # ---- incidence tables of the subset (C03's spec on the subset) ----
    inc = {}
    for name, attr in (("NF", "node_face_connectivity"), ("EF", "edge_face_connectivity"), ("FF", "face_face_connectivity"),
                       ("H", "hole_edge_indices")):
        try:
            inc[name] = np.asarray(getattr(sub, attr).values)
        except Exception as e:
            fail(f"derived={attr}/raises={type(e).__name__}/{src_kind}", f"{attr} of the subset raises {type(e).__name__}: {str(e)[:160]}",
                 dict(history=hist_done))
            return
    incobs = dict(NF=rows_of(inc["NF"]), EF=pairs_of(inc["EF"]), FF=rows_of(inc["FF"]), H=[int(x) for x in inc["H"]])
    v = d.ask("C09.inc", len(rec_n), enc_rows(obs["t"]), enc_rows(obs["FE"]), enc_ints(obs["N"]), len(obs["EN"]),
              enc_rows(incobs["NF"]), enc_pairs(incobs["EF"]), enc_rows(incobs["FF"]), enc_ints(incobs["H"]))
    if v == "nopre":
        ctx.hit("incidence:pre-fails")
    elif v != "ok":
        clauses = v.split(" ", 1)[1].split(",")
        fail("incidence/" + "+".join(clauses), "incidence tables of the subset are not those of the restricted mesh: " + v +
             f" (materialised on the source before: {hist_done})", incobs, None, clauses)
        return

    model_efd = None
    if pre == "1":
        # hypothesis of the Lean theorem efd_history_independent, decided by Lean on this case's tables
        ht = d.ask("C09.efdtransport", w, enc_src(t, EN, FE), enc_ints(idx))
        ctx.hit("EFDTransport-holds" if ht == "1" else "EFDTransport-" + ht)
        if ht != "1":
            ctx.mismatch("C09/EFDTransport(hypothesis of efd_history_independent fails on the model's own tables)", case, None, ht)
    # ---- the Lean state machine for this history reproduces every table ----
    if "file" not in case or depth:
        # a sub-grid as a source: both edge tables are there (like a source that ships them)
        sup = case.get("supplied") if depth == 0 else dict(EN=[list(p) for p in EN], FE=FE)
        hist_codes = [8 if is_chunk(h) else SM_VARS.index(h) for h in hist_done if h in SM_VARS or is_chunk(h)]
        order = [SM_VARS.index(h) for h in step.get("order", []) if h in SM_VARS]
        supc = 0 if not sup else 1 if sup.get("pass_fe", True) else 2
        vw = d.ask("C09.view", w, enc_rows(t), supc, enc_pairs(sup["EN"] if sup else []), enc_rows(sup["FE"] if supc == 1 else []),
                   enc_ints(hist_codes), 0, enc_ints(idx), enc_ints(order))
        if vw == "raises":
            ctx.mismatch("C09/state-machine(model raises)", case, incobs, None)
        else:
            tk = common.Tok(vw.split(" ", 1)[1])
            mv = dict(EN=tk.pairs(), FE=tk.rows(), N=tk.ints(), NF=tk.rows(), EF=tk.pairs(), FF=tk.rows(), H=tk.ints())
            model_efd = tk.pairs()  # per edge: the two subset faces the distance is between, (FILL, FILL) = 0
            iv = dict(EN=obs["EN"], FE=obs["FE"], N=obs["N"], NF=incobs["NF"], EF=incobs["EF"], FF=incobs["FF"], H=incobs["H"])
            okv = all(iv[k] == mv[k] for k in ("EN", "FE", "N", "EF", "H")) and msets(iv["NF"]) == msets(mv["NF"]) and \
                msets(iv["FF"]) == msets(mv["FF"])
            ctx.hit("state-machine-identical" if okv else "state-machine-differs")
            if not okv:
                ctx.mismatch("C09/state-machine", case, iv, mv)

    # ---- positions and geometric quantities ----
    for attr, rec in (("node_lon", rec_n), ("node_lat", rec_n)):
        a, b = getattr(sub, attr).values, getattr(g, attr).values[rec]
        if not np.array_equal(a, b):
            fail(f"coords/{attr}", f"{attr} of the subset is not the source's at the recorded node indices", a, b, ["slice_faces_exact"])
            return
    geo = list(step.get("geo", []))
    for attr in geo:
        rec = rec_n if attr.startswith("node") else rec_f if attr.startswith("face") else rec_e
        try:
            b = np.asarray(getattr(g, attr).values)[rec]
        except Exception:
            ctx.hit(f"source-raises:{attr}")
            continue
        try:
            a = np.asarray(getattr(sub, attr).values)
        except Exception as e:
            fail(f"derived={attr}/raises={type(e).__name__}/{src_kind}", f"{attr} of the subset raises {type(e).__name__}: {str(e)[:160]}",
                 dict(history=hist_done))
            return
        ctx.hit("geo:" + attr)
        tol = 1e-9
        if attr.endswith("lon"):
            diff = np.abs((a - b + 180.0) % 360.0 - 180.0)
            bad = diff > tol
            # a longitude at a pole is arbitrary
        else:
            bad = ~np.isclose(a, b, rtol=1e-9, atol=1e-9)
        if a.shape != b.shape or np.any(bad):
            fail(f"geo/{attr}", f"{attr} of the subset differs from the source's restricted to the selection (history {hist_done})",
                 a, b, ["slice_functional"])
            return

    # ---- quantities that look at an element's neighbours: judged on the subset's OWN incidence ----
    try:
        efd = np.asarray(sub.edge_face_distances.values, dtype=float)
    except Exception as e:
        fail(f"derived=edge_face_distances/raises={type(e).__name__}/{src_kind}",
             f"edge_face_distances of the subset raises {type(e).__name__}: {str(e)[:160]}", dict(history=hist_done))
        return
    boundary = np.array([b == INT_FILL for _, b in incobs["EF"]])
    if efd.shape != boundary.shape or np.any(efd[boundary] != 0.0):
        fail("geo/edge_face_distances/boundary-edge-nonzero",
             "edge_face_distances of the subset reports a distance for edges that have a single face in the subset"
             f" (materialised on the source before: {[h for h in hist_done if h in ALL_DERIVED and h not in GEO_CHEAP]})",
             dict(edge_face_distances=efd, boundary=boundary), None, ["slice_history_independent", "slice_functional"])
        return
    try:
        pefd = np.asarray(g.edge_face_distances.values, dtype=float)[rec_e]
        if np.any(~np.isclose(efd[~boundary], pefd[~boundary], rtol=1e-9, atol=1e-9)):
            fail("geo/edge_face_distances/interior", "edge_face_distances of the subset differs from the source's on edges whose two faces "
                 "are both in the subset", efd, pefd, ["slice_functional"])
            return
    except Exception:
        ctx.hit("source-raises:edge_face_distances")
    ctx.hit("geo:edge_face_distances(boundary=0, interior=source)")
    if model_efd is not None and len(model_efd) == len(efd):
        # the Lean state machine (for this history): which edges carry a distance, and between which subset faces
        flon, flat = np.radians(sub.face_lon.values), np.radians(sub.face_lat.values)
        want = np.zeros(len(efd))
        stale = False
        for k, (a, b) in enumerate(model_efd):
            if a == INT_FILL:
                continue
            if a < 0 or b < 0:
                stale = True
                continue
            cs = np.sin(flat[a]) * np.sin(flat[b]) + np.cos(flat[a]) * np.cos(flat[b]) * np.cos(flon[a] - flon[b])
            want[k] = float(np.arccos(np.clip(cs, -1, 1)))
        if stale or not np.allclose(efd, want, rtol=1e-7, atol=1e-7):
            ctx.mismatch("C09/state-machine/edge_face_distances", case, efd, dict(model=model_efd, distances=want))
        else:
            ctx.hit("state-machine:edge_face_distances-identical")

    # ---- history independence, attribute by attribute: the same selection on a FRESH parent ----
    twin = step.get("twin") or []
    if twin:
        try:
            g2 = build_source(case, ux)
            if case.get("node_node"):
                set_node_node(g2)
            for s0 in (prev["sels"] if prev else []):  # the same chain of selections, nothing materialised in between
                g2 = apply_sel(g2, s0, False)
            sub2 = apply_sel(g2, sel, False)
        except Exception as e:
            fail(f"history/selection-raises-on-fresh-parent={type(e).__name__}", f"the selection raises on a fresh parent only: {e}")
            return
        for attr in twin:
            try:
                b = values_of(getattr(sub2, attr))
            except Exception:
                ctx.hit(f"fresh-subset-raises:{attr}")
                continue
            try:
                a = values_of(getattr(sub, attr))
            except Exception as e:
                fail(f"history/{attr}/raises={type(e).__name__}", f"{attr} of the subset raises only when the parent had materialised "
                     f"{hist_done} before slicing: {str(e)[:120]}", None, None, ["slice_history_independent"])
                return
            if not same_values(a, b, lon=attr.endswith("lon")):
                fail(f"history/{attr}", f"{attr} of the subset depends on what was materialised on the parent before slicing "
                     f"({[h for h in hist_done]}): it differs from the same subset of a fresh parent", a, b,
                     ["slice_history_independent"])
                return
        ctx.hit("twin-compared(%d attrs)" % min(len(twin), 30))

    # ---- data ----
    if is_da:
        centre = case["data"]["centre"]
        rec = dict(face=rec_f, node=rec_n, edge=rec_e)[centre]
        out = np.asarray(res.values)
        if tuple(res.dims) != tuple(obj.dims) or out.shape != data.shape[:-1] + (len(rec),):
            fail(f"data/{centre}/dims", f"sliced data has dims {res.dims} shape {out.shape}", dict(dims=list(res.dims), shape=list(out.shape)))
            return
        src2 = data.reshape(-1, data.shape[-1])
        sub2 = out.reshape(-1, out.shape[-1])
        if not np.all(sub2 == np.round(sub2)):
            fail(f"data/{centre}/values", "sliced data contains values that are not source values")
            return
        ok = d.ask("C09.data", enc_ints(rec), enc_rows(src2.astype(np.int64).tolist()), enc_rows(sub2.astype(np.int64).tolist()))
        if ok != "1":
            fail(f"data/{centre}/aligned", f"{centre}-centred data sliced with the grid are not the source's at the recorded indices",
                 sub2.tolist(), None, ["data_aligned"])
            return
        if res.uxgrid is not sub:
            fail("data/grid", "sliced data is attached to another grid")
        ctx.hit("data-aligned")
        comp = rec if prev is None else [prev["comp"][i] for i in rec]
        root = data if prev is None else prev["root"]
        if prev is not None:
            root2 = root.reshape(-1, root.shape[-1])
            ok = d.ask("C09.data", enc_ints(comp), enc_rows(root2.astype(np.int64).tolist()), enc_rows(sub2.astype(np.int64).tolist()))
            if ok != "1":
                fail(f"data/{centre}/composed", f"{centre}-centred data after {depth + 1} selections are not the root's at the composed "
                     "recorded indices", sub2.tolist(), None, ["data_aligned"])
                return None
            ctx.hit("data-aligned(composed indices)")
        return dict(sub=sub, res=res, sels=(prev["sels"] if prev else []) + [sel], comp=comp, root=root)
    return dict(sub=sub, res=sub, sels=(prev["sels"] if prev else []) + [sel])


# --------------------------------------------------------------------------------------
# generators
# --------------------------------------------------------------------------------------


def supplied_tables(rng, g):
    """the source's own edge tables: the derived edges in another order and orientation"""
    EN = pairs_of(g.edge_node_connectivity.values)
    FE = rows_of(g.face_edge_connectivity.values)
    perm = list(range(len(EN)))
    rng.shuffle(perm)  # new -> old
    inv = {old: new for new, old in enumerate(perm)}
    EN2 = [EN[o] if rng.random() < 0.5 else (EN[o][1], EN[o][0]) for o in perm]  # larger node first in about half
    FE2 = [[INT_FILL if e == INT_FILL else inv[e] for e in r] for r in FE]
    elon, elat = g.edge_lon.values, g.edge_lat.values
    return dict(EN=[list(p) for p in EN2], FE=FE2, pass_fe=rng.random() < 0.5,
                edge_lon=[float(elon[o]) for o in perm], edge_lat=[float(elat[o]) for o in perm])


def random_selection(rng, g, n_edge):
    kind = rng.choice(["face", "face", "face", "node", "edge", "box", "box", "circle", "knn", "lat", "lat"])
    nf, nn = int(g.n_face), int(g.n_node)
    if kind in ("face", "node", "edge"):
        n = dict(face=nf, node=nn, edge=n_edge)[kind]
        style = rng.choice(["scalar", "single", "all", "all-perm", "unsorted", "unsorted", "sorted", "slice", "slice", "mask"])
        if style == "slice":
            # bounded / open-ended / stepped / negative slices, normalised against the length of THE INDEXED dimension
            for _ in range(20):
                a = rng.choice([None, rng.randrange(n), rng.randrange(n), -rng.randint(1, n)])
                b = rng.choice([None, rng.randint(0, n), rng.randint(0, n + 3), -rng.randint(1, n)])
                c = rng.choice([None, None, 1, 2, 3, -1, -2])
                index = list(range(n))[slice(a, b, c)]
                if index:
                    break
            else:
                a, b, c = None, None, None
                index = list(range(n))
            if len(index) > 40:
                a, b, c = (index[0], index[0] + 12, None) if (c or 1) > 0 else (index[0], max(index[0] - 12, 0), c)
                index = list(range(n))[slice(a, b, c)]
            return dict(kind=kind, index=index, form="slice", slice=[a, b, c], n=n, style="slice")
        if style == "mask":
            index = sorted(rng.sample(range(n), rng.randint(1, max(1, min(n, 12)))))
            return dict(kind=kind, index=index, form="mask", n=n, style="mask")
        if style in ("scalar", "single"):
            index = [rng.randrange(n)]
            form = rng.choice(["scalar", "npscalar", "0d"]) if style == "scalar" else rng.choice(["list", "array"])
        elif style == "all":
            index, form = list(range(n)), rng.choice(["list", "array"])
        elif style == "all-perm":
            index = list(range(n))
            rng.shuffle(index)
            form = rng.choice(["list", "array"])
        else:
            index = rng.sample(range(n), rng.randint(1, max(1, min(n, 12))))
            if style == "sorted":
                index.sort()
            # a tuple is a multi-axis NumPy index: only the face path (np.asarray) is asked to take one
            form = rng.choice(["list", "array", "array32"] + (["tuple"] if kind == "face" else []))
        return dict(kind=kind, index=index, form=form, style=style)
    element = rng.choice(list(ELEMENTS))
    lon, lat = ref_coords(g, element)
    j = rng.randrange(len(lon))
    if kind == "box":
        wlon, wlat = rng.uniform(3, 90), rng.uniform(3, 60)
        a, b = lon[j] - wlon * rng.random(), lon[j] + wlon * rng.random()
        if rng.random() < 0.4:  # force a box that spans the antimeridian
            c0 = rng.choice([179.0, -179.0, 175.0, -170.0]) + rng.uniform(-3, 3)
            a, b = c0 - wlon / 2, c0 + wlon / 2
        a, b = (a + 180.0) % 360.0 - 180.0, (b + 180.0) % 360.0 - 180.0
        c = max(-90.0, lat[j] - wlat * rng.random())
        e = min(90.0, lat[j] + wlat * rng.random())
        return dict(kind=kind, element=element, lon=[float(a), float(b)], lat=[float(c), float(e)])
    center = [float((lon[j] + rng.uniform(-8, 8) + 180) % 360 - 180), float(max(-89.0, min(89.0, lat[j] + rng.uniform(-8, 8))))]
    if kind == "circle":
        return dict(kind=kind, element=element, center=center, r=float(rng.uniform(5, 60)))
    if kind == "knn":
        return dict(kind=kind, element=element, center=center, k=rng.randint(1, min(len(lon), 9)))
    if rng.random() < 0.35:
        la = float(g.node_lat.values[rng.randrange(nn)])  # exactly a node's latitude
        if abs(la) >= 90:
            la = 0.0
        return dict(kind="lat", lat=la, at_node=True)
    lo, hi = float(np.min(g.node_lat.values)), float(np.max(g.node_lat.values))
    if rng.random() < 0.8 and hi - lo > 1e-3:  # inside the mesh's own latitude range
        return dict(kind="lat", lat=float(max(-89.0, min(89.0, rng.uniform(lo, hi)))))
    return dict(kind="lat", lat=float(rng.uniform(-89, 89)))


def random_case(ctx, m, ux, supplied=None, thorough_geo=False):
    rng = ctx.rng
    g0 = meshes.to_grid(m, ux)
    case = dict(mesh=m.describe(), table=m.rows(), lon=[float(x) for x in m.lon], lat=[float(x) for x in m.lat],
                z=[float(x) for x in m.xyz[:, 2]])
    if supplied is None:
        supplied = rng.random() < 0.25
    if supplied:
        case["supplied"] = supplied_tables(rng, g0)
    en_only = bool(supplied) and not case["supplied"].get("pass_fe", True)
    pool = [v for v in VARS if not (supplied and (v == "edge_node_connectivity" or (v == "face_edge_connectivity" and not en_only)))] \
        + GEO_CHEAP \
        + NEIGHBOUR_GEO + ["face_areas"] + (["bounds"] if m.n_face <= 12 and rng.random() < 0.25 else [])
    style = rng.choice(["none", "all", "random", "random", "one"])
    if style == "none":
        hist = []
    elif style == "all":
        hist = list(pool)
        rng.shuffle(hist)
    elif style == "one":
        hist = [rng.choice(VARS[2:] + ["edge_node_connectivity"]) if not supplied else rng.choice(VARS[2:])]
    else:
        hist = [v for v in pool if rng.random() < 0.4]
        rng.shuffle(hist)
    case["history"] = add_chunks(rng, hist)
    case["sel"] = random_selection(rng, g0, int(g0.n_edge))
    order = [v for v in SM_VARS if rng.random() < 0.5]
    rng.shuffle(order)
    case["order"] = order
    case["geo"] = rng.sample(GEO_CHEAP, 5) + (GEO_SLOW if thorough_geo else [])
    if supplied:
        case["geo"] = sorted(set(case["geo"]) | {"edge_lon", "edge_lat", "edge_node_distances"})
    # which attributes of the subset are compared with the subset of a FRESH parent (history independence)
    twin = [a for a in ALL_DERIVED if a != "bounds" and rng.random() < 0.6] + (["bounds"] if "bounds" in hist else [])
    if "edge_face_distances" in hist and "edge_face_distances" not in twin:
        twin.append("edge_face_distances")
    case["twin"] = twin
    if rng.random() < 0.1:
        case["node_node"] = True  # the source carries a user-set node_node_connectivity
    if rng.random() < 0.5:
        case["via"] = "uxda"
        case["data"] = dict(centre=rng.choice(["face", "node", "edge"]), lead=[rng.randint(1, 3) for _ in range(rng.choice([0, 0, 1, 2]))],
                            dtype=rng.choice(["float", "int"]))
    else:
        case["via"] = "grid"
    if rng.random() < 0.35:
        add_chain(ctx, case, ux, rng.choice([1, 1, 2]))
    return case


def add_chain(ctx, case, ux, depth):
    """further selections on the sub-grid the previous one returns (generated on a chain of un-materialised grids), each
    with its own materialisation history on the intermediate sub-grid"""
    rng = ctx.rng
    chain = []
    try:
        g = build_source(case, ux)
        s = apply_sel(g, case["sel"], False)
        for _ in range(depth):
            if int(s.n_face) < 1:
                break
            sel = random_selection(rng, s, int(s.n_edge))
            pool = SM_VARS + GEO_CHEAP + ["face_areas"]
            style = rng.choice(["none", "all", "random", "random", "efd"])
            hist = [] if style == "none" else list(pool) if style == "all" else ["edge_face_distances"] if style == "efd" \
                else [v for v in pool if rng.random() < 0.4]
            rng.shuffle(hist)
            order = [v for v in SM_VARS if rng.random() < 0.4]
            rng.shuffle(order)
            chain.append(dict(history=add_chunks(rng, hist), sel=sel, order=order, geo=rng.sample(GEO_CHEAP, 3),
                              twin=[a for a in ALL_DERIVED if a != "bounds" and rng.random() < 0.5]))
            s = apply_sel(s, sel, False)
    except Exception:
        pass  # an empty / failing selection ends the chain here; `judge` meets the same call and decides
    if chain:
        case["chain"] = chain


def _rll(lats, lon0, dlon, nlon, wrap):
    """regular latitude-longitude quads; `wrap`: a full ring of nlon cells"""
    ncol = nlon if wrap else nlon + 1
    lon = [((lon0 + i * dlon + 180.0) % 360.0) - 180.0 for _ in lats for i in range(ncol)]
    lat = [float(la) for la in lats for _ in range(ncol)]
    faces = []
    for j in range(len(lats) - 1):
        for i in range(nlon):
            a, b = j * ncol + i, j * ncol + (i + 1) % ncol
            faces.append([a, b, b + ncol, a + ncol])
    return faces, lon, lat


def _strip(lat0, h, lon0, d, k, crossing):
    """triangles above and below the parallel `lat0`: with an EDGE on it and with only a CORNER on it, from above and from
    below; optionally separate quads that really cross it"""
    lon, lat, faces = [], [], []

    def node(lo, la):
        lon.append(((lo + 180.0) % 360.0) - 180.0)
        lat.append(float(la))
        return len(lon) - 1

    eq = [node(lon0 + i * d, lat0) for i in range(k + 1)]
    up = [node(lon0 + (i + 0.5) * d, lat0 + h) for i in range(k)]
    dn = [node(lon0 + (i + 0.5) * d, lat0 - h) for i in range(k)]
    for i in range(k):
        faces.append([eq[i], eq[i + 1], up[i]])  # edge on the parallel, face above
        faces.append([eq[i + 1], eq[i], dn[i]])  # edge on the parallel, face below
        if i + 1 < k:
            faces.append([up[i], eq[i + 1], up[i + 1]])  # corner on the parallel, face above
            faces.append([dn[i + 1], eq[i + 1], dn[i]])  # corner on the parallel, face below
    for q in range(crossing):
        l0 = lon0 + (k + 2 + 2 * q) * d
        a, b = node(l0, lat0 - h), node(l0 + d, lat0 - h)
        c, e = node(l0 + d, lat0 + h), node(l0, lat0 + h)
        faces.append([a, b, c, e])
    return faces, lon, lat


def exact_lat_cases(ctx):
    """latitudes that hit nodes EXACTLY (sin(deg2rad(lat)) == node_z bit for bit is verified per case in `judge`): nodes
    on the equator and on other parallels, faces touching the parallel by a corner / by an edge from above and from below,
    regular lat-lon grids queried at their node rows (incl. the empty selection)"""
    rng = ctx.rng
    out = []

    def add(faces, lon, lat, qlat, tag):
        w = max(len(f) for f in faces)
        table = [list(f) + [INT_FILL] * (w - len(f)) for f in faces]
        for via in ("grid", "uxda"):
            case = dict(mesh=dict(kind=tag, n_node=len(lon), n_face=len(faces)), table=table, lon=lon, lat=lat,
                        history=add_chunks(rng, [v for v in ("edge_node_z", "edge_face_connectivity", "node_z", "hole_edge_indices")
                                                 if rng.random() < 0.4]),
                        sel=dict(kind="lat", lat=float(qlat), at_node=True), via=via, order=[], geo=[])
            if via == "uxda":
                case["data"] = dict(centre="face", lead=[2] if rng.random() < 0.5 else [], dtype="float")
            out.append(case)

    # regular lat-lon grids queried at node rows
    row_sets = [[-30.0, 0.0, 30.0], [-60.0, -30.0, 0.0, 30.0, 60.0], [10.0, 22.5, 35.0, 47.5],
                sorted(round(rng.uniform(-80, 80) * 4) / 4 for _ in range(4))]
    for lats in row_sets[: ctx.n(3, 4)] if not ctx.thorough else row_sets:
        if len(set(lats)) != len(lats):
            continue
        wrap = rng.random() < 0.4
        nlon = rng.choice([4, 6]) if wrap else rng.randint(2, 4)
        faces, lon, lat = _rll(lats, rng.choice([-170.0, -20.0, 100.0, 165.0]), 360.0 / nlon if wrap else 10.0, nlon, wrap)
        for q in rng.sample(lats, min(len(lats), ctx.n(2, 4))):
            add(faces, lon, lat, q, "rll%dx%d%s@row" % (nlon, len(lats) - 1, "ring" if wrap else ""))
    # lattices with many rows (integer and non-integer degrees), EVERY row latitude queried: whether a derived node_z is the
    # sine of the row's latitude bit for bit depends on the latitude (and on the longitude, if xyz is renormalised)
    for rep in range(ctx.n(2, 5)):
        step = rng.choice([10.0, 5.0, 7.5, 2.5, 3.3, 1.7, 12.25])
        nrow = rng.randint(7, 11)
        lo = -step * (nrow // 2) + (rng.choice([0.0, 0.0, 0.5, 1.3]) if rep else 0.0)
        lats = [lo + j * step for j in range(nrow)]
        if max(abs(x) for x in lats) >= 89:
            continue
        nlon = rng.randint(3, 5)
        faces, lon, lat = _rll(lats, rng.choice([-173.0, -31.0, 0.0, 47.5, 160.0]), rng.choice([10.0, 7.0, 13.5]), nlon, False)
        w = 4
        for j, q in enumerate(lats):
            case = dict(mesh=dict(kind="lattice%dx%d(step %g)@every-row" % (nlon, nrow - 1, step), n_node=len(lon), n_face=len(faces)),
                        table=[list(f) for f in faces], lon=lon, lat=lat,
                        history=["node_z"] if (j + rep) % 3 == 0 else [],
                        sel=dict(kind="lat", lat=float(q), at_node=True), via="grid" if j % 2 == 0 else "uxda", order=[], geo=[], twin=[])
            if case["via"] == "uxda":
                case["data"] = dict(centre="face", lead=[], dtype="float")
            out.append(case)
    # strips touching the parallel by edges and corners
    for lat0 in [0.0, 0.0, 30.0, -45.0, 12.5, round(rng.uniform(-70, 70) * 4) / 4][: ctx.n(4, 6)]:
        h = rng.choice([5.0, 7.5, 10.0])
        crossing = rng.choice([0, 1, 2])
        faces, lon, lat = _strip(lat0, h, rng.choice([-175.0, -40.0, 20.0, 150.0]), 10.0, rng.randint(2, 4), crossing)
        add(faces, lon, lat, lat0, "strip@%g+cross%d" % (lat0, crossing))
        add(faces, lon, lat, lat0 - h if rng.random() < 0.5 else lat0 + h, "strip@%g(outer row)" % lat0)
    return out


def index_form_cases(ctx, ux):
    """every argument form of isel on the node and edge dimensions (and faces), on grids where the three dimension lengths
    differ in both directions (n_node > n_face: quad patch; n_node < n_face: closed triangulation): slices reaching beyond
    n_face, stepped, negative, starting beyond n_face, the full slice; masks; 0-d arrays"""
    rng = ctx.rng
    out = []
    for m in (meshes.patch(rng.choice([2, 3]), 2, lon0=rng.choice([-30, 150])), meshes.hull(rng.choice([8, 10]), rng)):
        g0 = meshes.to_grid(m, ux)
        sizes = dict(node=int(g0.n_node), edge=int(g0.n_edge), face=int(g0.n_face))
        base = dict(mesh=m.describe(), table=m.rows(), lon=[float(x) for x in m.lon], lat=[float(x) for x in m.lat], order=[], geo=[],
                    twin=[], history=[])
        for dim in ("node", "edge", "face"):
            n, nf = sizes[dim], sizes["face"]
            lo = min(nf, n - 1)
            specs = [[max(0, lo - 2), None, None], [0, None, 3], [-3, None, None], [lo, None, None], [None, None, None],
                     [None, None, -2], [1, n + 2, 2]]
            for k, sp in enumerate(specs if dim != "face" else specs[:3]):
                index = list(range(n))[slice(*sp)]
                if not index:
                    continue
                case = dict(base, sel=dict(kind=dim, index=index, form="slice", slice=sp, n=n, style="slice"),
                            via="uxda" if k % 3 == 1 else "grid")
                if case["via"] == "uxda":
                    case["data"] = dict(centre=dim, lead=[], dtype="float")
                out.append(case)
            idx = sorted(rng.sample(range(n), min(n, 3)) + [n - 1])
            idx = sorted(set(idx))
            out.append(dict(base, sel=dict(kind=dim, index=idx, form="mask", n=n, style="mask"), via="grid"))
            out.append(dict(base, sel=dict(kind=dim, index=[n - 1], form="0d", style="scalar"), via="grid"))
    return out


def mpas_cases(ctx):
    f = common.REPO / MPAS
    if not f.exists():
        ctx.notes.append("MPAS sample file missing: file-supplied edge tables only through generated sources")
        return
    rng = ctx.rng
    for _ in range(ctx.n(3, 12)):
        kind = rng.choice(["face", "node", "edge", "lat", "box"])
        if kind == "face":
            sel = dict(kind="face", index=rng.sample(range(162), rng.randint(1, 10)), form="list")
        elif kind == "node":
            sel = dict(kind="node", index=rng.sample(range(320), rng.randint(1, 5)), form="array")
        elif kind == "edge":
            sel = dict(kind="edge", index=rng.sample(range(480), rng.randint(1, 5)), form="list")
        elif kind == "lat":
            sel = dict(kind="lat", lat=float(rng.uniform(-80, 80)))
        else:
            sel = dict(kind="box", element="face centers", lon=[float(rng.uniform(-180, 0)), float(rng.uniform(0, 180))],
                       lat=[float(rng.uniform(-80, -10)), float(rng.uniform(10, 80))])
        case = dict(file=MPAS, history=add_chunks(rng, [v for v in ["hole_edge_indices", "edge_node_z", "n_nodes_per_face"] if rng.random() < 0.5]),
                    sel=sel, via=rng.choice(["grid", "uxda"]), geo=["edge_lon", "edge_lat", "face_lon"], order=[])
        if case["via"] == "uxda":
            case["data"] = dict(centre=rng.choice(["face", "node", "edge"]), lead=[rng.randint(1, 2)] if rng.random() < 0.5 else [], dtype="float")
        if rng.random() < 0.5:
            import uxarray as ux

            add_chain(ctx, case, ux, 1)
        yield case


def threads_subprocess(ctx):
    """NUMBA_NUM_THREADS is read at import: separate processes (thorough tier)"""
    m = meshes.cube_sphere(6)
    lats = [float(x) for x in np.linspace(-85, 85, 11)] + [float(m.lat[5]), float(m.lat[50])]
    code = (
        "import sys,warnings,json\nwarnings.filterwarnings('ignore')\nsys.path.insert(0,%r)\nimport numpy as np\nimport uxarray as ux\n"
        "d=json.loads(sys.stdin.read())\n"
        "g=ux.Grid.from_topology(node_lon=np.array(d['lon']),node_lat=np.array(d['lat']),face_node_connectivity=np.array(d['t'],dtype=np.int64),fill_value=%d)\n"
        "print(json.dumps([[int(x) for x in np.atleast_1d(g.get_faces_at_constant_latitude(l))] for l in d['lats']]))\n"
    ) % (str(common.REPO), INT_FILL)
    import json

    payload = json.dumps(dict(lon=[float(x) for x in m.lon], lat=[float(x) for x in m.lat], t=m.rows(), lats=lats))
    ref = None
    for k in (1, 2, 7, 16):
        env = dict(os.environ, NUMBA_NUM_THREADS=str(k), PYTHONDONTWRITEBYTECODE="1")
        p = subprocess.run([sys.executable, "-c", code], input=payload, capture_output=True, text=True, env=env, timeout=600)
        if p.returncode != 0:
            ctx.notes.append(f"thread sub-process NUMBA_NUM_THREADS={k} failed: {p.stderr[-200:]}")
            continue
        out = json.loads(p.stdout.strip().splitlines()[-1])
        ctx.hit("subprocess-threads=%d" % k)
        ctx.case(("threads", k), nontrivial=True)
        if ref is None:
            ref = out
        elif out != ref:
            ctx.fail(f"C09/lat/NUMBA_NUM_THREADS={k}", "the latitude scan selects different faces with another thread count",
                     dict(mesh="cubesphere6", lats=lats, threads=k), out, ref, ["mask_order_irrelevant"])


def run(ctx):
    import uxarray as ux

    ctx.rule = ("source = mesh from harness/meshes.zoo (25% with their own edge table: a random permutation of the derived rows, each row in "
                "random orientation, half of them without face_edge_connectivity, with edge_lon / edge_lat on that numbering; judged: the "
                "source's table survives every selection row for row) or the MPAS sample; "
                "history = none / one / random / all of 7 connectivity + 15 geometric variables (+ edge_face_distances, face_areas, bounds) "
                "materialised in random order, in 30% of the sources with Grid.chunk(random n_node / n_edge / n_face) applied at a random point "
                "of the history (dask-backed arrays; the un-chunked, un-materialised twin gives the reference); selection = "
                "face / node / edge indices (scalar, single, all, permuted, unsorted, sorted; int / 0-d array / list / tuple / int32 / int64 "
                "array / boolean mask / slice — bounded, open-ended, stepped, negative — on ALL THREE dimensions, the selected elements "
                "being the slice of range(length of THE INDEXED dimension)), bounding box "
                "(40% antimeridian-spanning) / circle / k-nearest on nodes, face centres, edge centres, constant latitude (35% exactly a "
                "node's latitude, plus lat-lon grids queried at their node rows and triangle strips touching the parallel by an edge / "
                "a corner from above and below: JUDGED EXACTLY whenever sin(deg2rad(lat)) as numba computes it and the grid's own node z "
                "are compared as the same doubles and no other node lies within 1e-9, AND — for sources given in lon/lat — judged by the same "
                "Lean clause in the latitude domain on the source's own node_lat doubles (lattices of 7-11 rows at integer / non-integer "
                "degrees queried at every row); 1/2/7/16 numba threads); through Grid or a UxDataArray (face / node / edge data, rank 1..3); 35% followed "
                "by 1-2 further selections on the returned sub-grid, each after its own random materialisation on that sub-grid (every "
                "sub-grid judged against its own source, data through the composed recorded indices, every derived attribute against the "
                "same chain on un-materialised grids); distinct = distinct (table, history, selection, carrier, chain prefix)")
    ctx.assumptions = [
        "xarray's isel / attrs copying and NumPy's unique / fancy indexing are tied to the model only by this differential run",
        "reference points (node / face-centre / edge-centre coordinates) and tree distances are taken from the implementation (C04 / C11); "
        "the selectors are judged on them with a margin of 1e-9",
        "numba's prange schedule is exercised (set_num_threads / NUMBA_NUM_THREADS), the theorem covers the order-independence of the loop body only",
    ]
    for c in corpus_cases(ctx):
        judge(ctx, c)
    for rep in range(ctx.n(1, 5)):
        for m in meshes.zoo(ctx.rng, big=False):
            if m.n_face > 130:
                continue
            for _ in range(ctx.n(7, 9)):
                judge(ctx, random_case(ctx, m, ux, thorough_geo=ctx.thorough and ctx.rng.random() < 0.1))
    for c in exact_lat_cases(ctx):
        judge(ctx, c)
    for c in index_form_cases(ctx, ux):
        judge(ctx, c)
    for c in mpas_cases(ctx):
        judge(ctx, c)
    if ctx.thorough or ctx.escalate:
        for m in (meshes.cube_sphere(5), meshes.hull(90, ctx.rng)):
            for _ in range(6):
                judge(ctx, random_case(ctx, m, ux))
        threads_subprocess(ctx)


def corpus_cases(ctx):
    import json

    d = common.CORPUS / "C09"
    if d.is_dir():
        for f in sorted(d.glob("*.json")):
            yield json.loads(f.read_text())["input"]


def replay(ctx, rp):
    judge(ctx, rp["input"])
