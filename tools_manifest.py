#!/usr/bin/env python3
"""Regenerates MANIFEST.json from harness/registry.py (single source of per-property texts)."""
import json, sys, os
sys.path.insert(0, os.path.dirname(os.path.abspath(__file__)))
from harness.registry import CHECKS, NOT_APPLICABLE, HOOK_COMMITS

BASE = "cd /repo && /venv/bin/python -m pytest -ra -q -p no:cacheprovider --timeout=900 --continue-on-collection-errors"
props = [json.loads(l) for l in open(os.path.join(os.path.dirname(os.path.abspath(__file__)), "properties.jsonl"))]
ids = [p["id"] for p in props]
checks = []
for pid in ids:
    if pid in CHECKS:
        c = CHECKS[pid]
        checks.append(dict(
            property_id=pid,
            quick_cmd=f"./check {pid} --tier quick",
            thorough_cmd=f"./check {pid} --tier thorough",
            evidence_file=f"evidence/{pid}.json",
            replay_cmd_template=f"./check {pid} --replay {{path}}",
            engine="lean4+correspondence",
            level_claimed=dict(category="proof", text=c["text"], design_ref=c.get("design_ref", "DESIGN.md §6 " + pid)),
            level_note=c["note"],
            technique=c["technique"],
        ))
na = [dict(property_id=pid, reason=NOT_APPLICABLE.get(pid, "check not built yet (planned, DESIGN.md §6); nothing is claimed for it"))
      for pid in ids if pid not in CHECKS]
m = dict(
    version=1,
    setup_cmd="./setup.sh",
    hooks=dict(guard="UXARRAY_VERIF", enable="no source hooks: observation is through the public API and in-process wrapping by the harness",
               baseline_off_cmd=BASE, source_commits=HOOK_COMMITS, add_only=True),
    engines=[
        dict(name="lean4 model + theorems", path="lean/", serves_properties=sorted(CHECKS), kind_free_text="Lean 4.33 project: import-free executable models (Model/), regenerated tables (Gen/), property theorems (Props/), native line-protocol driver (Main.lean)"),
        dict(name="correspondence harness", path="harness/", serves_properties=sorted(CHECKS), kind_free_text="Python: generators, in-process driver of the real uxarray code, translator source->Gen/*.lean, verdict/evidence writer"),
    ],
    checks=checks,
    notes="See DESIGN.md. Exit 2 = infrastructure failure (never a verdict).",
    not_applicable=na,
)
json.dump(m, open(os.path.join(os.path.dirname(os.path.abspath(__file__)), "MANIFEST.json"), "w"), indent=1)
print("claimed:", sorted(CHECKS), "not claimed:", [x["property_id"] for x in na])
