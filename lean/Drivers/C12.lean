import UxVerif.Model.Loop
import UxVerif.Driver.C12
def main : IO Unit := UxVerif.Loop.run UxVerif.Driver.C12.handle
