import UxVerif.Model.Loop
import UxVerif.Driver.C20
def main : IO Unit := UxVerif.Loop.run UxVerif.Driver.C20.handle
