import UxVerif.Model.Loop
import UxVerif.Driver.C09
def main : IO Unit := UxVerif.Loop.run UxVerif.Driver.C09.handle
