import UxVerif.Model.Loop
import UxVerif.Driver.C01
def main : IO Unit := UxVerif.Loop.run UxVerif.Driver.C01.handle
