import UxVerif.Model.Loop
import UxVerif.Driver.C05
def main : IO Unit := UxVerif.Loop.run UxVerif.Driver.C05.handle
