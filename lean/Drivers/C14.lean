import UxVerif.Model.Loop
import UxVerif.Driver.C14
def main : IO Unit := UxVerif.Loop.run UxVerif.Driver.C14.handle
