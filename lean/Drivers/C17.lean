import UxVerif.Model.Loop
import UxVerif.Driver.C17
def main : IO Unit := UxVerif.Loop.run UxVerif.Driver.C17.handle
