import UxVerif.Model.Loop
import UxVerif.Driver.C02
def main : IO Unit := UxVerif.Loop.run UxVerif.Driver.C02.handle
