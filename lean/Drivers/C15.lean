import UxVerif.Model.Loop
import UxVerif.Driver.C15
def main : IO Unit := UxVerif.Loop.run UxVerif.Driver.C15.handle
