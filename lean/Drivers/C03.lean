import UxVerif.Model.Loop
import UxVerif.Driver.C03
def main : IO Unit := UxVerif.Loop.run UxVerif.Driver.C03.handle
