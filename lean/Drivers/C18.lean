import UxVerif.Model.Loop
import UxVerif.Driver.C18
def main : IO Unit := UxVerif.Loop.run UxVerif.Driver.C18.handle
