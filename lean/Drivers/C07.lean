import UxVerif.Model.Loop
import UxVerif.Driver.C07
def main : IO Unit := UxVerif.Loop.run UxVerif.Driver.C07.handle
