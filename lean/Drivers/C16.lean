import UxVerif.Model.Loop
import UxVerif.Driver.C16
def main : IO Unit := UxVerif.Loop.run UxVerif.Driver.C16.handle
