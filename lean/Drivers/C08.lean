import UxVerif.Model.Loop
import UxVerif.Driver.C08
def main : IO Unit := UxVerif.Loop.run UxVerif.Driver.C08.handle
