import UxVerif.Model.Loop
import UxVerif.Driver.C13
def main : IO Unit := UxVerif.Loop.run UxVerif.Driver.C13.handle
