import UxVerif.Model.Loop
import UxVerif.Driver.C19
def main : IO Unit := UxVerif.Loop.run UxVerif.Driver.C19.handle
