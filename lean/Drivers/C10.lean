import UxVerif.Model.Loop
import UxVerif.Driver.C10
def main : IO Unit := UxVerif.Loop.run UxVerif.Driver.C10.handle
