import UxVerif.Model.Loop
import UxVerif.Driver.C04
def main : IO Unit := UxVerif.Loop.run UxVerif.Driver.C04.handle
