import UxVerif.Model.Loop
import UxVerif.Driver.C11
def main : IO Unit := UxVerif.Loop.run UxVerif.Driver.C11.handle
