import UxVerif.Model.Loop
import UxVerif.Driver.C06
def main : IO Unit := UxVerif.Loop.run UxVerif.Driver.C06.handle
