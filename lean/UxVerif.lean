-- Root of the `UxVerif` library: models (import-free) and property theorems.
import UxVerif.Model.Basic
import UxVerif.Model.Proto
import UxVerif.Model.Edges
import UxVerif.Lemmas.SortUniq
import UxVerif.Lemmas.Rows
import UxVerif.Lemmas.Handshake
import UxVerif.Props.C02
import UxVerif.Model.Incidence
import UxVerif.Lemmas.Keyed
import UxVerif.Props.C03
import UxVerif.Model.Aggregate
import UxVerif.Lemmas.Parts
import UxVerif.Props.C17
