/-
  C18 — the angle key of the repaired `_order_nodes` orders directions exactly like the polynomial
  counter-clockwise comparator of the specification (`Dual.before` at margin 0), over ℝ.
  Analysis lemmas (Mathlib: Real.arccos, Real.sqrt).
-/
import UxVerif.Lemmas.Dual
import Mathlib.Analysis.SpecialFunctions.Trigonometric.Inverse

namespace UxVerif.Dual
open UxVerif

/-- the run-time functions at ℝ -/
noncomputable def realNum : Num ℝ :=
  { sqrt := Real.sqrt, acos := Real.arccos, lt := fun a b => decide (a < b), twoPi := 2 * Real.pi }

/-! ### (cos, sin) pairs on the unit circle with positive sine: cosine order = cross-product sign -/

theorem unit_cross_identity (a b p q : ℝ) (ha : a ^ 2 + p ^ 2 = 1) (hb : b ^ 2 + q ^ 2 = 1) :
    (a - b) * (p + q) = (1 - a * b + p * q) * (a * q - b * p) := by
  linear_combination (-(a * p)) * hb + (b * q) * ha

theorem cos_lt_iff_cross (a b p q : ℝ) (hp : 0 < p) (hq : 0 < q) (ha : a ^ 2 + p ^ 2 = 1)
    (hb : b ^ 2 + q ^ 2 = 1) : b < a ↔ 0 < a * q - b * p := by
  have hkey := unit_cross_identity a b p q ha hb
  have hpos : 0 < 1 - a * b + p * q := by nlinarith [sq_nonneg (a - b), sq_nonneg p, sq_nonneg q, mul_pos hp hq]
  have hpq : 0 < p + q := by linarith
  constructor
  · intro h
    have h1 : 0 < (a - b) * (p + q) := mul_pos (by linarith) hpq
    rw [hkey] at h1
    exact (mul_pos_iff_of_pos_left hpos).mp h1
  · intro h
    have h1 : 0 < (1 - a * b + p * q) * (a * q - b * p) := mul_pos hpos h
    rw [← hkey] at h1
    have := (mul_pos_iff_of_pos_right hpq).mp h1
    linarith

/-! ### polynomial identities for vectors tangent at `c` -/

theorem gram_identity (c z u : V3 ℝ) :
    (tri c z u) ^ 2 = dot c c * dot z z * dot u u + 2 * dot z c * dot z u * dot u c
      - dot c c * (dot z u) ^ 2 - dot z z * (dot u c) ^ 2 - dot u u * (dot z c) ^ 2 := by
  simp only [tri, dot, cross]; ring

theorem gram_tangent (c z u : V3 ℝ) (hz : dot z c = 0) (hu : dot u c = 0) :
    (dot z u) ^ 2 * dot c c + (tri c z u) ^ 2 = dot z z * dot u u * dot c c := by
  rw [gram_identity, hz, hu]; ring

theorem cross_identity (c z u v : V3 ℝ) :
    dot z u * tri c z v - dot z v * tri c z u = dot z z * tri c u v + dot z c * tri z v u := by
  simp only [tri, dot, cross]; ring

theorem cross_tangent (c z u v : V3 ℝ) (hz : dot z c = 0) :
    dot z u * tri c z v - dot z v * tri c z u = dot z z * tri c u v := by
  rw [cross_identity, hz]; ring

/-! ### normalised cosine / sine of the angle from `z` to `u` in the tangent plane at `c` -/

noncomputable def cosN (z u : V3 ℝ) : ℝ := dot z u / (Dual.norm realNum z * Dual.norm realNum u)

noncomputable def sinN (c z u : V3 ℝ) : ℝ :=
  tri c z u / (Real.sqrt (dot c c) * (Dual.norm realNum z * Dual.norm realNum u))

theorem norm_pos_of {z : V3 ℝ} (h : 0 < dot z z) : 0 < Dual.norm realNum z := by
  simp only [Dual.norm, realNum]; exact Real.sqrt_pos.mpr h

theorem norm_sq_of {z : V3 ℝ} (h : 0 < dot z z) : Dual.norm realNum z ^ 2 = dot z z := by
  simp only [Dual.norm, realNum]; exact Real.sq_sqrt h.le

theorem cos_sin_unit (c z u : V3 ℝ) (hc : 0 < dot c c) (hzz : 0 < dot z z) (huu : 0 < dot u u)
    (hz : dot z c = 0) (hu : dot u c = 0) : cosN z u ^ 2 + sinN c z u ^ 2 = 1 := by
  have hs : Real.sqrt (dot c c) ^ 2 = dot c c := Real.sq_sqrt hc.le
  have hZ := norm_sq_of hzz
  have hU := norm_sq_of huu
  have hg := gram_tangent c z u hz hu
  unfold cosN sinN
  rw [div_pow, div_pow, mul_pow, mul_pow, mul_pow, hs, hZ, hU]
  have h1 : dot z z * dot u u ≠ 0 := (mul_pos hzz huu).ne'
  have h2 : dot c c * (dot z z * dot u u) ≠ 0 := (mul_pos hc (mul_pos hzz huu)).ne'
  field_simp
  linear_combination hg

theorem cosN_bounds (c z u : V3 ℝ) (hc : 0 < dot c c) (hzz : 0 < dot z z) (huu : 0 < dot u u)
    (hz : dot z c = 0) (hu : dot u c = 0) : -1 ≤ cosN z u ∧ cosN z u ≤ 1 := by
  have h := cos_sin_unit c z u hc hzz huu hz hu
  constructor <;> nlinarith [sq_nonneg (sinN c z u)]

/-- the key of the repaired algorithm for tangent vectors `z` (first centre) and `u`, the side value
    being `−c·(z×u)` (`side_sign_ccw`) -/
noncomputable def keyT (c z u : V3 ℝ) : ℝ := keyOfVecs realNum true z u (-(tri c z u))

theorem keyT_eq (c z u : V3 ℝ) (hb : -1 ≤ cosN z u ∧ cosN z u ≤ 1) :
    keyT c z u = if tri c z u < 0 then -Real.arccos (cosN z u) + 2 * Real.pi
      else Real.arccos (cosN z u) := by
  have h1 : ¬ (1 < cosN z u) := not_lt.mpr hb.2
  have h2 : ¬ (cosN z u < -1) := not_lt.mpr hb.1
  unfold keyT keyOfVecs
  simp only [realNum, Bool.true_and]
  change (if decide (0 < -(tri c z u)) = true then
      -Real.arccos (if decide ((if decide (1 < cosN z u) = true then 1 else cosN z u) < -1) = true then -1
        else (if decide (1 < cosN z u) = true then 1 else cosN z u)) + 2 * Real.pi
    else Real.arccos (if decide ((if decide (1 < cosN z u) = true then 1 else cosN z u) < -1) = true then -1
        else (if decide (1 < cosN z u) = true then 1 else cosN z u))) = _
  simp only [decide_eq_true_eq, h1, if_false, h2, neg_pos]

theorem arccos_lt_iff {a b : ℝ} (ha : -1 ≤ a ∧ a ≤ 1) (hb : -1 ≤ b ∧ b ≤ 1) :
    Real.arccos a < Real.arccos b ↔ b < a := by
  constructor
  · intro h
    rcases lt_or_ge b a with h1 | h1
    · exact h1
    · have := Real.arccos_le_arccos h1
      linarith
  · intro h
    exact Real.arccos_lt_arccos hb.1 h ha.2

theorem arccos_lt_pi_of {x : ℝ} (hx : -1 < x) : Real.arccos x < Real.pi := by
  rcases lt_or_eq_of_le (Real.arccos_le_pi x) with h | h
  · exact h
  · have := Real.arccos_eq_pi.mp h
    linarith

/-- the difference `cos·sin' − cos'·sin` is the triple product of the two vectors, normalised -/
theorem cross_norm (c z u v : V3 ℝ) (hc : 0 < dot c c) (hzz : 0 < dot z z) (huu : 0 < dot u u)
    (hvv : 0 < dot v v) (hz : dot z c = 0) :
    cosN z u * sinN c z v - cosN z v * sinN c z u
      = tri c u v / (Real.sqrt (dot c c) * (Dual.norm realNum u * Dual.norm realNum v)) := by
  have hs : 0 < Real.sqrt (dot c c) := Real.sqrt_pos.mpr hc
  have hZ := norm_pos_of hzz
  have hU := norm_pos_of huu
  have hV := norm_pos_of hvv
  have hZ2 := norm_sq_of hzz
  have hx := cross_tangent c z u v hz
  unfold cosN sinN
  rw [div_mul_div_comm, div_mul_div_comm, div_sub_div _ _ (by positivity) (by positivity),
    div_eq_div_iff (by positivity) (by positivity)]
  have : dot z z = Dual.norm realNum z ^ 2 := hZ2.symm
  rw [this] at hx
  linear_combination (Real.sqrt (dot c c) ^ 2 * (Dual.norm realNum u * Dual.norm realNum v) ^ 2
    * Dual.norm realNum z ^ 2) * hx

/-- which half turn `u` lies in, counter-clockwise from `z`: `0` = (0, π), `1` = [π, 2π) -/
noncomputable def halfR (T A : ℝ) : Option Nat :=
  if 0 < T then some 0 else if T < 0 then some 1 else if A < 0 then some 1 else none

theorem sinN_pos_iff (c z u : V3 ℝ) (hc : 0 < dot c c) (hzz : 0 < dot z z) (huu : 0 < dot u u) :
    (0 < sinN c z u ↔ 0 < tri c z u) ∧ (sinN c z u < 0 ↔ tri c z u < 0) := by
  have hd : 0 < Real.sqrt (dot c c) * (Dual.norm realNum z * Dual.norm realNum u) :=
    mul_pos (Real.sqrt_pos.mpr hc) (mul_pos (norm_pos_of hzz) (norm_pos_of huu))
  unfold sinN
  refine ⟨div_pos_iff_of_pos_right hd, ?_⟩
  rw [div_lt_iff₀ hd, zero_mul]

theorem cosN_strict (c z u : V3 ℝ) (hc : 0 < dot c c) (hzz : 0 < dot z z) (huu : 0 < dot u u)
    (hz : dot z c = 0) (hu : dot u c = 0) (hT : tri c z u ≠ 0) : -1 < cosN z u ∧ cosN z u < 1 := by
  have h := cos_sin_unit c z u hc hzz huu hz hu
  have hs : sinN c z u ≠ 0 := by
    rcases lt_or_gt_of_ne hT with h1 | h1
    · exact ((sinN_pos_iff c z u hc hzz huu).2.mpr h1).ne
    · exact ((sinN_pos_iff c z u hc hzz huu).1.mpr h1).ne'
  have := sq_pos_of_ne_zero hs
  constructor <;> nlinarith

theorem cosN_neg_one (c z u : V3 ℝ) (hc : 0 < dot c c) (hzz : 0 < dot z z) (huu : 0 < dot u u)
    (hz : dot z c = 0) (hu : dot u c = 0) (hT : tri c z u = 0) (hA : dot z u < 0) :
    cosN z u = -1 := by
  have h := cos_sin_unit c z u hc hzz huu hz hu
  have hs : sinN c z u = 0 := by unfold sinN; rw [hT, zero_div]
  have hneg : cosN z u < 0 := by
    unfold cosN
    exact div_neg_of_neg_of_pos hA (mul_pos (norm_pos_of hzz) (norm_pos_of huu))
  rw [hs] at h
  nlinarith

theorem halfR_cases {T A : ℝ} {i : Nat} (h : halfR T A = some i) :
    (0 < T ∧ i = 0) ∨ (T < 0 ∧ i = 1) ∨ (T = 0 ∧ A < 0 ∧ i = 1) := by
  unfold halfR at h
  rcases lt_trichotomy T 0 with h1 | h1 | h1
  · have h2 : ¬ 0 < T := by linarith
    simp only [h2, if_false, h1, if_true, Option.some.injEq] at h
    exact Or.inr (Or.inl ⟨h1, h.symm⟩)
  · subst h1
    simp only [lt_irrefl, if_false] at h
    by_cases hA : A < 0
    · simp only [hA, if_true, Option.some.injEq] at h
      exact Or.inr (Or.inr ⟨rfl, hA, h.symm⟩)
    · simp only [hA, if_false] at h
      cases h
  · simp only [h1, if_true, Option.some.injEq] at h
    exact Or.inl ⟨h1, h.symm⟩

/-- **the key orders directions counter-clockwise.**  For tangent vectors `z` (first centre), `u`, `v`
    at `c`, each in a defined half turn, and not in the same direction: the key of `u` is smaller than
    the key of `v` iff `u` comes before `v` counter-clockwise from `z` (earlier half turn, or the same
    half turn and `c·(u×v) > 0`). -/
theorem keyT_lt_iff (c z u v : V3 ℝ) (hc : 0 < dot c c) (hzz : 0 < dot z z) (huu : 0 < dot u u)
    (hvv : 0 < dot v v) (hz : dot z c = 0) (hu : dot u c = 0) (hv : dot v c = 0) (i j : Nat)
    (hi : halfR (tri c z u) (dot z u) = some i) (hj : halfR (tri c z v) (dot z v) = some j)
    (hX : i = j → tri c u v ≠ 0) :
    keyT c z u < keyT c z v ↔ (i < j ∨ (i = j ∧ 0 < tri c u v)) := by
  have bu := cosN_bounds c z u hc hzz huu hz hu
  have bv := cosN_bounds c z v hc hzz hvv hz hv
  have hcn := cross_norm c z u v hc hzz huu hvv hz
  have hxt := cross_tangent c z u v hz
  have hd : 0 < Real.sqrt (dot c c) * (Dual.norm realNum u * Dual.norm realNum v) :=
    mul_pos (Real.sqrt_pos.mpr hc) (mul_pos (norm_pos_of huu) (norm_pos_of hvv))
  have hsign : 0 < cosN z u * sinN c z v - cosN z v * sinN c z u ↔ 0 < tri c u v := by
    rw [hcn]; exact div_pos_iff_of_pos_right hd
  have unitu := cos_sin_unit c z u hc hzz huu hz hu
  have unitv := cos_sin_unit c z v hc hzz hvv hz hv
  have hpi := Real.pi_pos
  rw [keyT_eq c z u bu, keyT_eq c z v bv]
  rcases halfR_cases hi with ⟨hTu, rfl⟩ | ⟨hTu, rfl⟩ | ⟨hTu, hAu, rfl⟩ <;>
  rcases halfR_cases hj with ⟨hTv, rfl⟩ | ⟨hTv, rfl⟩ | ⟨hTv, hAv, rfl⟩
  · -- both in (0, π)
    have h1 : ¬ tri c z u < 0 := by linarith
    have h2 : ¬ tri c z v < 0 := by linarith
    simp only [h1, h2, if_false]
    rw [arccos_lt_iff bu bv,
      cos_lt_iff_cross _ _ _ _ ((sinN_pos_iff c z u hc hzz huu).1.mpr hTu)
        ((sinN_pos_iff c z v hc hzz hvv).1.mpr hTv) unitu unitv, hsign]
    simp
  · -- u in (0, π), v in (π, 2π)
    have h1 : ¬ tri c z u < 0 := by linarith
    simp only [h1, hTv, if_false, if_true]
    have := arccos_lt_pi_of (cosN_strict c z u hc hzz huu hz hu hTu.ne').1
    have := Real.arccos_le_pi (cosN z v)
    constructor
    · intro _; exact Or.inl (by norm_num)
    · intro _; linarith
  · -- u in (0, π), v at π
    have h1 : ¬ tri c z u < 0 := by linarith
    have h2 : ¬ tri c z v < 0 := by rw [hTv]; exact lt_irrefl 0
    simp only [h1, h2, if_false]
    rw [cosN_neg_one c z v hc hzz hvv hz hv hTv hAv, Real.arccos_neg_one]
    have := arccos_lt_pi_of (cosN_strict c z u hc hzz huu hz hu hTu.ne').1
    constructor
    · intro _; exact Or.inl (by norm_num)
    · intro _; exact this
  · -- u in (π, 2π), v in (0, π)
    have h2 : ¬ tri c z v < 0 := by linarith
    simp only [hTu, h2, if_true, if_false]
    have := arccos_lt_pi_of (cosN_strict c z v hc hzz hvv hz hv hTv.ne').1
    have := Real.arccos_le_pi (cosN z u)
    constructor
    · intro h; linarith
    · rintro (h | ⟨h, _⟩) <;> omega
  · -- both in (π, 2π)
    simp only [hTu, hTv, if_true]
    have hp : 0 < -sinN c z u := by
      have := (sinN_pos_iff c z u hc hzz huu).2.mpr hTu; linarith
    have hq : 0 < -sinN c z v := by
      have := (sinN_pos_iff c z v hc hzz hvv).2.mpr hTv; linarith
    have hiff : Real.arccos (cosN z v) < Real.arccos (cosN z u) ↔ 0 < tri c u v := by
      rw [arccos_lt_iff bv bu,
        cos_lt_iff_cross (cosN z v) (cosN z u) (-sinN c z v) (-sinN c z u) hq hp
          (by rw [neg_sq]; exact unitv) (by rw [neg_sq]; exact unitu), ← hsign]
      constructor <;> intro h <;> linarith
    constructor
    · intro h
      exact Or.inr ⟨trivial, hiff.mp (by linarith)⟩
    · rintro (h | ⟨_, h⟩)
      · omega
      · have := hiff.mpr h; linarith
  · -- u in (π, 2π), v at π
    have h2 : ¬ tri c z v < 0 := by rw [hTv]; exact lt_irrefl 0
    simp only [hTu, h2, if_true, if_false]
    rw [cosN_neg_one c z v hc hzz hvv hz hv hTv hAv, Real.arccos_neg_one]
    have h3 := arccos_lt_pi_of (cosN_strict c z u hc hzz huu hz hu hTu.ne).1
    have hneg : tri c u v < 0 := by
      rw [hTv] at hxt
      have : dot z z * tri c u v < 0 := by
        rw [← hxt]; nlinarith [mul_pos_of_neg_of_neg hAv hTu]
      by_contra hcon
      have := mul_nonneg hzz.le (not_lt.mp hcon)
      linarith
    constructor
    · intro h; linarith
    · rintro (h | ⟨_, h⟩)
      · omega
      · linarith
  · -- u at π, v in (0, π)
    have h1 : ¬ tri c z u < 0 := by rw [hTu]; exact lt_irrefl 0
    have h2 : ¬ tri c z v < 0 := by linarith
    simp only [h1, h2, if_false]
    rw [cosN_neg_one c z u hc hzz huu hz hu hTu hAu, Real.arccos_neg_one]
    have := arccos_lt_pi_of (cosN_strict c z v hc hzz hvv hz hv hTv.ne').1
    constructor
    · intro h; linarith
    · rintro (h | ⟨h, _⟩) <;> omega
  · -- u at π, v in (π, 2π)
    have h1 : ¬ tri c z u < 0 := by rw [hTu]; exact lt_irrefl 0
    simp only [h1, hTv, if_true, if_false]
    rw [cosN_neg_one c z u hc hzz huu hz hu hTu hAu, Real.arccos_neg_one]
    have h3 := arccos_lt_pi_of (cosN_strict c z v hc hzz hvv hz hv hTv.ne).1
    have hpos : 0 < tri c u v := by
      rw [hTu] at hxt
      have : 0 < dot z z * tri c u v := by
        rw [← hxt]; nlinarith [mul_pos_of_neg_of_neg hAu hTv]
      exact (mul_pos_iff_of_pos_left hzz).mp this
    constructor
    · intro _; exact Or.inr ⟨trivial, hpos⟩
    · intro _; linarith
  · -- both at π: same direction, excluded
    exfalso
    rw [hTu, hTv] at hxt
    have : dot z z * tri c u v = 0 := by rw [← hxt]; ring
    rcases mul_eq_zero.mp this with h | h
    · linarith
    · exact hX rfl h

/-! ### from the tangent form to the model's `keyWith` and `before` (raw chords, margin 0) -/

theorem side_eq_neg_tri_tproj (c n0 y : V3 ℝ) :
    side c n0 (tproj c y) = -(tri c (tproj c (n0.sub c)) (tproj c y)) := by
  simp only [side, tri, dot, cross, tproj, V3.sub, V3.smul]; ring

theorem keyWith_eq_keyT (c n0 s : V3 ℝ) :
    keyWith realNum true c n0 s = keyT c (tproj c (n0.sub c)) (tproj c (s.sub c)) := by
  unfold keyWith keyT
  simp only [if_true]
  rw [side_eq_neg_tri_tproj]

theorem tproj_tangent (c v : V3 ℝ) (hc : dot c c ≠ 0) : dot (tproj c v) c = 0 := by
  have h1 : dot (tproj c v) c = dot v c - dot v c / dot c c * dot c c := by
    simp only [tproj, dot, V3.sub, V3.smul]; ring
  rw [h1, div_mul_cancel₀ _ hc, sub_self]

theorem tri_tproj2 (c x y : V3 ℝ) : tri c (tproj c x) (tproj c y) = tri c x y := by
  simp only [tri, dot, cross, tproj, V3.sub, V3.smul]; ring

theorem dot_tproj (c x y : V3 ℝ) (hc : dot c c ≠ 0) :
    dot (tproj c x) (tproj c y) * dot c c = tdot c x y := by
  have h1 : dot (tproj c x) (tproj c y)
      = dot x y - 2 * (dot x c * dot y c / dot c c) + dot x c / dot c c * (dot y c / dot c c) * dot c c := by
    simp only [tproj, dot, V3.sub, V3.smul]; ring
  rw [h1]
  unfold tdot
  field_simp
  ring

theorem dot_self_nonneg (a : V3 ℝ) : 0 ≤ dot a a := by
  simp only [dot]; nlinarith [sq_nonneg a.x, sq_nonneg a.y, sq_nonneg a.z]

theorem eq_zero_of_dot_self (a : V3 ℝ) (h : dot a a = 0) : a.x = 0 ∧ a.y = 0 ∧ a.z = 0 := by
  simp only [dot] at h
  refine ⟨?_, ?_, ?_⟩ <;> nlinarith [sq_nonneg a.x, sq_nonneg a.y, sq_nonneg a.z]

/-- a defined half turn needs both vectors to have a non-zero tangent part -/
theorem pos_of_halfR (c z u : V3 ℝ) (i : Nat) (h : halfR (tri c z u) (dot z u) = some i) :
    0 < dot z z ∧ 0 < dot u u := by
  constructor
  · rcases lt_or_eq_of_le (dot_self_nonneg z) with h1 | h1
    · exact h1
    · obtain ⟨hx, hy, hz⟩ := eq_zero_of_dot_self z h1.symm
      have h2 : tri c z u = 0 := by simp only [tri, dot, cross, hx, hy, hz]; ring
      have h3 : dot z u = 0 := by simp only [dot, hx, hy, hz]; ring
      rw [h2, h3] at h; simp [halfR] at h
  · rcases lt_or_eq_of_le (dot_self_nonneg u) with h1 | h1
    · exact h1
    · obtain ⟨hx, hy, hz⟩ := eq_zero_of_dot_self u h1.symm
      have h2 : tri c z u = 0 := by simp only [tri, dot, cross, hx, hy, hz]; ring
      have h3 : dot z u = 0 := by simp only [dot, hx, hy, hz]; ring
      rw [h2, h3] at h; simp [halfR] at h

theorem sgn_zero (x scale : ℝ) :
    sgn realNum 0 x scale = if 0 < x then 1 else if x < 0 then -1 else 0 := by
  simp only [sgn, realNum, zero_mul, neg_zero, decide_eq_true_eq]

theorem halfOf_eq_halfR (c d0 d : V3 ℝ) :
    halfOf realNum 0 c d0 d = halfR (tri c d0 d) (tdot c d0 d) := by
  unfold halfOf halfR
  simp only [sgn_zero]
  by_cases h1 : 0 < tri c d0 d
  · simp only [h1, if_true]
  · by_cases h2 : tri c d0 d < 0
    · simp only [h1, h2, if_false, if_true]
    · simp only [h1, h2, if_false]
      simp only [realNum, decide_eq_true_eq]

/-- `before` at margin 0 in closed form -/
noncomputable def beforeR (c d0 a b : V3 ℝ) : Option Bool :=
  match halfR (tri c d0 a) (tdot c d0 a), halfR (tri c d0 b) (tdot c d0 b) with
  | some i, some j =>
    if i < j then some true else if j < i then some false
    else if 0 < tri c a b then some true else if tri c a b < 0 then some false else none
  | _, _ => none

theorem before_eq_beforeR (c d0 a b : V3 ℝ) : before realNum 0 c d0 a b = beforeR c d0 a b := by
  unfold before beforeR
  rw [halfOf_eq_halfR, halfOf_eq_halfR]
  cases halfR (tri c d0 a) (tdot c d0 a) with
  | none => rfl
  | some i =>
    cases halfR (tri c d0 b) (tdot c d0 b) with
    | none => rfl
    | some j =>
      simp only [sgn_zero]
      by_cases h1 : i < j
      · simp only [h1, if_true]
      · by_cases h2 : j < i
        · simp only [h1, h2, if_false, if_true]
        · simp only [h1, h2, if_false]
          by_cases h3 : 0 < tri c a b
          · simp only [h3, if_true]
          · by_cases h4 : tri c a b < 0
            · simp only [h3, h4, if_false, if_true]
            · simp only [h3, h4, if_false]

theorem halfR_congr (T A A' : ℝ) (h : A < 0 ↔ A' < 0) : halfR T A = halfR T A' := by
  unfold halfR
  by_cases hA : A < 0
  · simp only [hA, h.mp hA]
  · have : ¬ A' < 0 := fun h' => hA (h.mpr h')
    simp only [hA, this]

theorem halfR_tproj (c x y : V3 ℝ) (hc : 0 < dot c c) :
    halfR (tri c (tproj c x) (tproj c y)) (dot (tproj c x) (tproj c y))
      = halfR (tri c x y) (tdot c x y) := by
  rw [tri_tproj2]
  apply halfR_congr
  rw [← dot_tproj c x y hc.ne']
  constructor
  · intro h; exact mul_neg_of_neg_of_pos h hc
  · intro h
    by_contra hcon
    have := mul_nonneg (not_lt.mp hcon) hc.le
    linarith

/-- **the key of the repaired algorithm orders the centres exactly as the specification's
    counter-clockwise comparator** (`Dual.before` with margin 0), whenever that comparator decides
    (both centres in a defined half turn from the first one, not in the same direction). -/
theorem key_lt_iff_before (c n0 s1 s2 : V3 ℝ) (hc : dot c c ≠ 0)
    (hgp : before realNum 0 c (n0.sub c) (s1.sub c) (s2.sub c) ≠ none) :
    keyWith realNum true c n0 s1 < keyWith realNum true c n0 s2
      ↔ before realNum 0 c (n0.sub c) (s1.sub c) (s2.sub c) = some true := by
  have hcc : 0 < dot c c := lt_of_le_of_ne (dot_self_nonneg c) (Ne.symm hc)
  rw [before_eq_beforeR] at hgp ⊢
  unfold beforeR at hgp ⊢
  rw [keyWith_eq_keyT, keyWith_eq_keyT]
  cases hi : halfR (tri c (n0.sub c) (s1.sub c)) (tdot c (n0.sub c) (s1.sub c)) with
  | none => rw [hi] at hgp; exact absurd rfl hgp
  | some i =>
    cases hj : halfR (tri c (n0.sub c) (s2.sub c)) (tdot c (n0.sub c) (s2.sub c)) with
    | none => rw [hi, hj] at hgp; exact absurd rfl hgp
    | some j =>
      rw [hi, hj] at hgp
      simp only [] at hgp ⊢
      have hi' := (halfR_tproj c (n0.sub c) (s1.sub c) hcc).trans hi
      have hj' := (halfR_tproj c (n0.sub c) (s2.sub c) hcc).trans hj
      obtain ⟨hzz, huu⟩ := pos_of_halfR c _ _ i hi'
      obtain ⟨_, hvv⟩ := pos_of_halfR c _ _ j hj'
      have hX : i = j → tri c (tproj c (s1.sub c)) (tproj c (s2.sub c)) ≠ 0 := by
        intro hij
        rw [tri_tproj2]
        intro h0
        have h1 : ¬ i < j := by omega
        have h2 : ¬ j < i := by omega
        simp only [h1, h2, if_false, h0, lt_irrefl] at hgp
        exact hgp rfl
      rw [keyT_lt_iff c _ _ _ hcc hzz huu hvv (tproj_tangent c _ hc) (tproj_tangent c _ hc)
        (tproj_tangent c _ hc) i j hi' hj' hX, tri_tproj2]
      by_cases h1 : i < j
      · simp [h1]
      · by_cases h2 : j < i
        · have h3 : i ≠ j := by omega
          simp [h1, h2, h3]
        · have hij : i = j := by omega
          subst hij
          by_cases h3 : 0 < tri c (s1.sub c) (s2.sub c)
          · simp [h3]
          · by_cases h4 : tri c (s1.sub c) (s2.sub c) < 0
            · simp [h3, h4]
            · simp [h3, h4]

/-! ### the hypotheses of `order_is_sort` follow from general position -/

theorem keyT_range (c z u : V3 ℝ) (hc : 0 < dot c c) (hz : dot z c = 0) (hu : dot u c = 0) (i : Nat)
    (hi : halfR (tri c z u) (dot z u) = some i) :
    0 < keyT c z u ∧ keyT c z u < 2 * Real.pi := by
  obtain ⟨hzz, huu⟩ := pos_of_halfR c z u i hi
  have bu := cosN_bounds c z u hc hzz huu hz hu
  have hpi := Real.pi_pos
  have hle := Real.arccos_le_pi (cosN z u)
  have hnn := Real.arccos_nonneg (cosN z u)
  rw [keyT_eq c z u bu]
  rcases halfR_cases hi with ⟨hT, _⟩ | ⟨hT, _⟩ | ⟨hT, hA, _⟩
  · have h1 : ¬ tri c z u < 0 := by linarith
    simp only [h1, if_false]
    have := Real.arccos_pos.mpr (cosN_strict c z u hc hzz huu hz hu hT.ne').2
    constructor <;> linarith
  · simp only [hT, if_true]
    have := Real.arccos_pos.mpr (cosN_strict c z u hc hzz huu hz hu hT.ne).2
    constructor <;> linarith
  · have h1 : ¬ tri c z u < 0 := by rw [hT]; exact lt_irrefl 0
    simp only [h1, if_false]
    rw [cosN_neg_one c z u hc hzz huu hz hu hT hA, Real.arccos_neg_one]
    constructor <;> linarith

theorem keyWith_range (c n0 s : V3 ℝ) (hc : dot c c ≠ 0)
    (h : halfOf realNum 0 c (n0.sub c) (s.sub c) ≠ none) :
    realNum.lt 0 (keyWith realNum true c n0 s) = true ∧
      realNum.lt (keyWith realNum true c n0 s) realNum.twoPi = true := by
  have hcc : 0 < dot c c := lt_of_le_of_ne (dot_self_nonneg c) (Ne.symm hc)
  rw [halfOf_eq_halfR] at h
  cases hi : halfR (tri c (n0.sub c) (s.sub c)) (tdot c (n0.sub c) (s.sub c)) with
  | none => exact absurd hi h
  | some i =>
    have hi' := (halfR_tproj c (n0.sub c) (s.sub c) hcc).trans hi
    have := keyT_range c _ _ hcc (tproj_tangent c _ hc) (tproj_tangent c _ hc) i hi'
    rw [keyWith_eq_keyT]
    simp only [realNum, decide_eq_true_eq]
    exact this

theorem beforeR_swap (c d0 a b : V3 ℝ) (h : beforeR c d0 a b = some false) :
    beforeR c d0 b a = some true := by
  unfold beforeR at h ⊢
  cases hi : halfR (tri c d0 a) (tdot c d0 a) with
  | none => rw [hi] at h; cases h
  | some i =>
    cases hj : halfR (tri c d0 b) (tdot c d0 b) with
    | none => rw [hi, hj] at h; cases h
    | some j =>
      rw [hi, hj] at h
      simp only [] at h ⊢
      have hanti : tri c b a = -(tri c a b) := by simp only [tri, dot, cross]; ring
      by_cases h1 : i < j
      · simp [h1] at h
      · by_cases h2 : j < i
        · simp [h2]
        · simp only [h1, h2, if_false] at h ⊢
          by_cases h3 : 0 < tri c a b
          · simp [h3] at h
          · by_cases h4 : tri c a b < 0
            · have : 0 < tri c b a := by rw [hanti]; linarith
              simp [this]
            · simp [h3, h4] at h

/-- the keys of two centres differ whenever the comparator decides -/
theorem key_ne_of_before (c n0 s1 s2 : V3 ℝ) (hc : dot c c ≠ 0)
    (hgp : before realNum 0 c (n0.sub c) (s1.sub c) (s2.sub c) ≠ none) :
    keyWith realNum true c n0 s1 ≠ keyWith realNum true c n0 s2 := by
  cases hb : before realNum 0 c (n0.sub c) (s1.sub c) (s2.sub c) with
  | none => exact absurd hb hgp
  | some t =>
    cases t with
    | true => exact ((key_lt_iff_before c n0 s1 s2 hc hgp).mpr hb).ne
    | false =>
      have hsw : before realNum 0 c (n0.sub c) (s2.sub c) (s1.sub c) = some true := by
        rw [before_eq_beforeR] at hb ⊢; exact beforeR_swap _ _ _ _ hb
      have := (key_lt_iff_before c n0 s2 s1 hc (by rw [hsw]; simp)).mpr hsw
      exact this.ne'

/-! ### list plumbing for `ccwSorted` -/

theorem pairwise_zip_tail {α : Type} {R : α → α → Prop} (l : List α) (h : l.Pairwise R) :
    ∀ p ∈ List.zip l l.tail, R p.1 p.2 := by
  induction l with
  | nil => intro p hp; simp at hp
  | cons a l ih =>
    intro p hp
    have hc := List.pairwise_cons.mp h
    cases l with
    | nil => simp at hp
    | cons b l' =>
      simp only [List.tail_cons, List.zip_cons_cons, List.mem_cons] at hp
      rcases hp with rfl | hp
      · exact hc.1 b List.mem_cons_self
      · exact ih hc.2 p (by simpa using hp)

theorem mem_zip_tail {α : Type} (l : List α) (p : α × α) (hp : p ∈ List.zip l l.tail) :
    p.1 ∈ l ∧ p.2 ∈ l :=
  ⟨(List.of_mem_zip hp).1, List.mem_of_mem_tail (List.of_mem_zip hp).2⟩

/-- a ring whose corners all lie in a defined half turn and whose consecutive corners are in
    strict counter-clockwise order is accepted by the specification's `ccwSorted` -/
theorem ccwSorted_of (c : V3 ℝ) (cents : List (V3 ℝ)) (first : Int) (vals : List Int)
    (h1 : ∀ f ∈ vals, halfOf realNum 0 c ((vecAt cents first).sub c) ((vecAt cents f).sub c) ≠ none)
    (h2 : ∀ p ∈ List.zip vals vals.tail,
      before realNum 0 c ((vecAt cents first).sub c) ((vecAt cents p.1).sub c) ((vecAt cents p.2).sub c)
        = some true) :
    ccwSorted realNum 0 c cents (first :: vals) = some true := by
  unfold ccwSorted
  simp only []
  have hz : List.zip (vals.map (fun f => (vecAt cents f).sub c)) (vals.map (fun f => (vecAt cents f).sub c)).tail
      = (List.zip vals vals.tail).map (fun p => ((vecAt cents p.1).sub c, (vecAt cents p.2).sub c)) := by
    rw [← List.map_tail, List.zip_map]
    rfl
  rw [hz, List.map_map, List.map_map]
  have ha : (vals.map (halfOf realNum 0 c ((vecAt cents first).sub c) ∘
      fun f => (vecAt cents f).sub c)).any Option.isNone = false := by
    rw [List.any_eq_false]
    intro o ho
    obtain ⟨f, hf, rfl⟩ := List.mem_map.mp ho
    simp only [Function.comp]
    have := h1 f hf
    cases hh : halfOf realNum 0 c ((vecAt cents first).sub c) ((vecAt cents f).sub c) with
    | none => exact absurd hh this
    | some _ => simp
  have hb : ∀ o ∈ (List.zip vals vals.tail).map
      ((fun p : V3 ℝ × V3 ℝ => before realNum 0 c ((vecAt cents first).sub c) p.1 p.2) ∘
        fun p : Int × Int => ((vecAt cents p.1).sub c, (vecAt cents p.2).sub c)), o = some true := by
    intro o ho
    obtain ⟨p, hp, rfl⟩ := List.mem_map.mp ho
    exact h2 p hp
  have hb1 : ((List.zip vals vals.tail).map
      ((fun p : V3 ℝ × V3 ℝ => before realNum 0 c ((vecAt cents first).sub c) p.1 p.2) ∘
        fun p : Int × Int => ((vecAt cents p.1).sub c, (vecAt cents p.2).sub c))).any Option.isNone = false := by
    rw [List.any_eq_false]
    intro o ho
    rw [hb o ho]; simp
  have hb2 : ((List.zip vals vals.tail).map
      ((fun p : V3 ℝ × V3 ℝ => before realNum 0 c ((vecAt cents first).sub c) p.1 p.2) ∘
        fun p : Int × Int => ((vecAt cents p.1).sub c, (vecAt cents p.2).sub c))).all (fun o => o == some true) = true := by
    rw [List.all_eq_true]
    intro o ho
    rw [hb o ho]; rfl
  rw [ha, hb1, hb2]
  rfl

end UxVerif.Dual
