/-
  Lemmas about the index bookkeeping of `Model/Slice.lean`: `sel` (= `np.unique` without `FILL`),
  the renumbering dictionary `remap` and its inverse `back`, rows under renumbering.
  Core Lean only.
-/
import UxVerif.Model.Slice
import UxVerif.Lemmas.SortUniq
import UxVerif.Lemmas.Rows

namespace UxVerif.Slice
open UxVerif UxVerif.Edges

theorem FILL_neg : FILL < 0 := by decide

theorem ofNat_ne_FILL (k : Nat) : Int.ofNat k ≠ FILL := by
  have h := FILL_neg
  have : (0 : Int) ≤ Int.ofNat k := Int.natCast_nonneg k
  omega

theorem getI?_ofNat {α} (l : List α) (k : Nat) : getI? l (Int.ofNat k) = l[k]? := by
  unfold getI?
  have h : ¬ (Int.ofNat k < 0) := by simp
  rw [if_neg h]; simp

theorem getI?_some {α} {l : List α} {i : Int} {a : α} (h : getI? l i = some a) :
    0 ≤ i ∧ i.toNat < l.length ∧ l[i.toNat]? = some a := by
  unfold getI? at h
  by_cases hi : i < 0
  · rw [if_pos hi] at h; cases h
  · rw [if_neg hi] at h
    refine ⟨by omega, ?_, h⟩
    rcases List.getElem?_eq_some_iff.mp h with ⟨hl, _⟩
    exact hl

/-! ### rows of a table -/

theorem rowAt_lt {t : Table} {i : Nat} (h : i < t.length) : rowAt t i = t[i] := by
  simp [rowAt, List.getD, List.getElem?_eq_getElem h]

theorem rowAt_mem {t : Table} {i : Nat} (h : i < t.length) : rowAt t i ∈ t := by
  rw [rowAt_lt h]; exact List.getElem_mem h

theorem rowAt_map_idx {β : Type} (idx : List β) (F : β → List Int) (i : Nat) (h : i < idx.length) :
    rowAt (idx.map F) i = F idx[i] := by
  simp [rowAt, List.getD, List.getElem?_map, List.getElem?_eq_getElem h]

theorem getD_lt {α} {l : List α} {i : Nat} (d : α) (h : i < l.length) : l.getD i d = l[i] := by
  simp [List.getD, List.getElem?_eq_getElem h]

theorem mem_gather {t : Table} {idx : List Nat} {x : Int} :
    x ∈ gather t idx ↔ ∃ f ∈ idx, x ∈ rowAt t f := by
  unfold gather; exact List.mem_flatMap

/-! ### `sel` -/

theorem mem_sel {l : List Int} {x : Int} : x ∈ sel l ↔ x ∈ l ∧ x ≠ FILL := by
  unfold sel
  rw [List.mem_filter, mem_uniqInt]
  simp

theorem nodup_sel (l : List Int) : (sel l).Nodup := (nodup_uniqInt l).filter _

theorem sorted_sel (l : List Int) : (sel l).Pairwise (fun a b => a < b) := by
  unfold sel
  have h : SortedBy intLt (uniqInt l) := sorted_sortUniqBy intLt_strictTotal l
  have h2 : (uniqInt l).Pairwise (fun a b => a < b) := by
    refine List.Pairwise.imp ?_ h
    intro a b hab
    simpa [intLt] using hab
  exact h2.filter _

theorem fill_not_mem_sel (l : List Int) : FILL ∉ sel l := by
  intro h; exact (mem_sel.mp h).2 rfl

/-! ### `remap` / `back` -/

theorem remap_fill (s : List Int) : remap s FILL = FILL := by simp [remap]

theorem remap_of_ne {s : List Int} {x : Int} (h : x ≠ FILL) : remap s x = Int.ofNat (s.idxOf x) := by
  simp [remap, h, rank]

theorem remap_ne_fill {s : List Int} {x : Int} (h : x ≠ FILL) : remap s x ≠ FILL := by
  rw [remap_of_ne h]; exact ofNat_ne_FILL _

theorem remap_eq_fill_iff {s : List Int} {x : Int} : remap s x = FILL ↔ x = FILL := by
  constructor
  · intro h
    by_cases hx : x = FILL
    · exact hx
    · exact absurd h (remap_ne_fill hx)
  · intro h; rw [h, remap_fill]

theorem idxOf_lt {s : List Int} {x : Int} (h : x ∈ s) : s.idxOf x < s.length :=
  List.idxOf_lt_length_iff.mpr h

theorem back_fill (s : List Int) : back s FILL = FILL := by simp [back]

theorem back_ofNat {s : List Int} {k : Nat} (h : k < s.length) : back s (Int.ofNat k) = s[k] := by
  unfold back
  rw [if_neg (ofNat_ne_FILL k), getI?_ofNat, List.getElem?_eq_getElem h]; rfl

/-- the dictionary lookup is undone by reading the recorded source index -/
theorem back_remap {s : List Int} {x : Int} (h : x = FILL ∨ x ∈ s) :
    back s (remap s x) = x := by
  by_cases hx : x = FILL
  · rw [hx, remap_fill, back_fill]
  · have hm : x ∈ s := by
      rcases h with h | h
      · exact absurd h hx
      · exact h
    rw [remap_of_ne hx, back_ofNat (idxOf_lt hm)]
    exact List.getElem_idxOf (idxOf_lt hm)

theorem remap_inj {s : List Int} {x y : Int} (hx : x = FILL ∨ x ∈ s) (hy : y = FILL ∨ y ∈ s)
    (h : remap s x = remap s y) : x = y := by
  rw [← back_remap hx, ← back_remap hy, h]

theorem remap_bound {s : List Int} {x : Int} (hx : x ∈ s) (hne : x ≠ FILL) :
    0 ≤ remap s x ∧ remap s x < s.length := by
  rw [remap_of_ne hne]
  exact ⟨Int.natCast_nonneg _, Int.ofNat_lt.mpr (idxOf_lt hx)⟩

theorem map_back_remap {s : List Int} {r : List Int} (h : ∀ x ∈ r, x = FILL ∨ x ∈ s) :
    (r.map (remap s)).map (back s) = r := by
  rw [List.map_map]
  conv => rhs; rw [← List.map_id r]
  apply List.map_congr_left
  intro x hx
  simp [back_remap (h x hx)]

/-- renumbering is strictly increasing on the selected indices (they are kept in ascending
    order), so a sorted pair stays sorted -/
theorem remap_mono {l : List Int} {a b : Int} (ha : a ∈ sel l) (hb : b ∈ sel l) (hab : a < b) :
    remap (sel l) a < remap (sel l) b := by
  have hna := (mem_sel.mp ha).2
  have hnb := (mem_sel.mp hb).2
  rw [remap_of_ne hna, remap_of_ne hnb]
  have hia := idxOf_lt ha
  have hib := idxOf_lt hb
  have hs := List.pairwise_iff_getElem.mp (sorted_sel l)
  have ea : (sel l)[(sel l).idxOf a] = a := List.getElem_idxOf hia
  have eb : (sel l)[(sel l).idxOf b] = b := List.getElem_idxOf hib
  apply Int.ofNat_lt.mpr
  rcases Nat.lt_trichotomy ((sel l).idxOf a) ((sel l).idxOf b) with h | h | h
  · exact h
  · exfalso
    have : a = b := by
      rw [← ea, ← eb]; simp [h]
    omega
  · exfalso
    have := hs _ _ hib hia h
    rw [ea, eb] at this
    omega

/-! ### pairs -/

theorem sortPair_swap (p : Int × Int) : sortPair (p.2, p.1) = sortPair p := by
  unfold sortPair
  split <;> split <;> (apply Prod.ext <;> simp <;> omega)

theorem sortPair_cases (p : Int × Int) : sortPair p = p ∨ sortPair p = (p.2, p.1) := by
  unfold sortPair; split <;> simp

/-- two pairs with the same sorted form are equal or swapped -/
theorem sortPair_eq {p q : Int × Int} (h : sortPair p = sortPair q) : p = q ∨ p = (q.2, q.1) := by
  rcases sortPair_cases p with hp | hp <;> rcases sortPair_cases q with hq | hq
  · left; rw [← hp, ← hq, h]
  · right; rw [← hp, ← hq, h]
  · right
    have : (p.2, p.1) = q := by rw [← hp, ← hq, h]
    rw [← this]
  · left
    have : (p.2, p.1) = (q.2, q.1) := by rw [← hp, ← hq, h]
    have h1 : p.2 = q.2 := congrArg Prod.fst this
    have h2 : p.1 = q.1 := congrArg Prod.snd this
    exact Prod.ext h2 h1

/-- any renumbering respects "same unordered pair" -/
theorem sortPair_mapPair (g : Int → Int) {p q : Int × Int} (h : sortPair p = sortPair q) :
    sortPair (mapPair g p) = sortPair (mapPair g q) := by
  rcases sortPair_eq h with rfl | h
  · rfl
  · rw [h]
    exact sortPair_swap (mapPair g q)

theorem mapPair_inj_sort {g : Int → Int} {p q : Int × Int} {S : Int → Prop}
    (hg : ∀ x y, S x → S y → g x = g y → x = y)
    (hp : S p.1 ∧ S p.2) (hq : S q.1 ∧ S q.2)
    (h : sortPair (mapPair g p) = sortPair (mapPair g q)) : sortPair p = sortPair q := by
  rcases sortPair_eq h with h | h
  · have h1 : g p.1 = g q.1 := congrArg Prod.fst h
    have h2 : g p.2 = g q.2 := congrArg Prod.snd h
    have : p = q := Prod.ext (hg _ _ hp.1 hq.1 h1) (hg _ _ hp.2 hq.2 h2)
    rw [this]
  · have h1 : g p.1 = g q.2 := congrArg Prod.fst h
    have h2 : g p.2 = g q.1 := congrArg Prod.snd h
    have : p = (q.2, q.1) := Prod.ext (hg _ _ hp.1 hq.2 h1) (hg _ _ hp.2 hq.1 h2)
    rw [this]; exact sortPair_swap q

theorem sortPair_comps (p : Int × Int) (S : Int → Prop) (h : S (sortPair p).1 ∧ S (sortPair p).2) :
    S p.1 ∧ S p.2 := by
  rcases sortPair_cases p with hp | hp
  · rw [hp] at h; exact h
  · rw [hp] at h; exact ⟨h.2, h.1⟩

/-! ### rows under a renumbering that fixes exactly `FILL` -/

theorem faceOf_map {g : Int → Int} (hg : ∀ x, g x = FILL ↔ x = FILL) (r : List Int) :
    faceOf (r.map g) = (faceOf r).map g := by
  unfold faceOf
  rw [List.takeWhile_map]
  have : ((fun x => x != FILL) ∘ g) = (fun x => x != FILL) := by
    funext a
    show (g a != FILL) = (a != FILL)
    by_cases ha : a = FILL
    · have h1 : g a = FILL := (hg a).mpr ha
      rw [h1, ha]
    · have h1 : g a ≠ FILL := fun h => ha ((hg a).mp h)
      rw [bne_iff_ne.mpr h1, bne_iff_ne.mpr ha]
  rw [this]

theorem segs_map {α β} (g : α → β) (l : List α) :
    segs (l.map g) = (segs l).map (fun q => (g q.1, g q.2)) := by
  cases l with
  | nil => rfl
  | cons a l =>
    simp only [List.map_cons, segs_cons]
    have : List.map g l ++ [g a] = List.map g (l ++ [a]) := by simp
    rw [this, ← List.map_cons, List.zip_map]
    apply List.map_congr_left
    intro q _; rfl

theorem rowSegs_map {g : Int → Int} (hg : ∀ x, g x = FILL ↔ x = FILL) (r : List Int) :
    rowSegs (r.map g) = (segs (faceOf r)).map (fun q => sortPair (mapPair g q)) := by
  unfold rowSegs
  rw [faceOf_map hg, segs_map, List.map_map]
  rfl

theorem mem_faceOf_mem (r : List Int) : ∀ x ∈ faceOf r, x ∈ r := by
  intro x hx
  unfold faceOf at hx
  exact (List.takeWhile_sublist _).subset hx

theorem mem_segs_comps {α} (f : List α) (q : α × α) (hq : q ∈ segs f) : q.1 ∈ f ∧ q.2 ∈ f := by
  cases f with
  | nil => simp [segs] at hq
  | cons a f =>
    rw [segs_cons] at hq
    have := List.of_mem_zip hq
    refine ⟨this.1, ?_⟩
    have h2 := this.2
    simp only [List.mem_append, List.mem_singleton] at h2
    rcases h2 with h2 | h2
    · exact List.mem_cons_of_mem _ h2
    · rw [h2]; exact List.mem_cons_self

theorem mem_rowSegs_comps (r : List Int) (p : Int × Int) (hp : p ∈ rowSegs r) :
    p.1 ∈ faceOf r ∧ p.2 ∈ faceOf r := by
  rcases List.mem_map.mp hp with ⟨q, hq, rfl⟩
  have := mem_segs_comps _ q hq
  rcases sortPair_cases q with h | h
  · rw [h]; exact this
  · rw [h]; exact ⟨this.2, this.1⟩

end UxVerif.Slice
