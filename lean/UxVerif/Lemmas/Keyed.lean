/-
  The one fact about table-updating loops: after `for (k,v) in events: T[k] = upd(T[k], v)` cell
  `k` holds the fold of `upd` over exactly the values fed to `k`, in order.  Core Lean only.
-/
import UxVerif.Model.Incidence

namespace UxVerif.Incidence
variable {C V : Type}

theorem keyedFold_cons (upd : C → V → C) (init : List C) (kv : Nat × V) (ev : List (Nat × V)) :
    keyedFold upd init (kv :: ev)
      = keyedFold upd (init.modify kv.1 (fun c => upd c kv.2)) ev := rfl

theorem feed_cons (kv : Nat × V) (ev : List (Nat × V)) (k : Nat) :
    feed (kv :: ev) k = if kv.1 = k then kv.2 :: feed ev k else feed ev k := by
  unfold feed
  by_cases h : kv.1 = k
  · simp [List.filter_cons, h]
  · simp [List.filter_cons, h]

theorem keyedFold_length (upd : C → V → C) (init : List C) (ev : List (Nat × V)) :
    (keyedFold upd init ev).length = init.length := by
  induction ev generalizing init with
  | nil => rfl
  | cons kv ev ih => rw [keyedFold_cons, ih]; simp

theorem keyedFold_get (upd : C → V → C) (init : List C) (ev : List (Nat × V)) (k : Nat) :
    (keyedFold upd init ev)[k]? = init[k]?.map (fun c => (feed ev k).foldl upd c) := by
  induction ev generalizing init with
  | nil => simp [keyedFold, feed]
  | cons kv ev ih =>
    rw [keyedFold_cons, ih, List.getElem?_modify, feed_cons]
    cases h : init[k]? with
    | none => simp
    | some c =>
      by_cases hk : kv.1 = k
      · simp [hk]
      · simp [hk]

theorem mem_feed (ev : List (Nat × V)) (k : Nat) (v : V) : v ∈ feed ev k ↔ (k, v) ∈ ev := by
  unfold feed
  simp only [List.mem_map, List.mem_filter, beq_iff_eq]
  constructor
  · rintro ⟨⟨k', v'⟩, ⟨h1, h2⟩, h3⟩
    simp only at h2 h3; subst h2; subst h3; exact h1
  · intro h; exact ⟨(k, v), ⟨h, rfl⟩, rfl⟩

end UxVerif.Incidence
