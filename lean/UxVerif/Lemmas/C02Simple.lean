/-
  C02, simple faces: a face whose corners are pairwise distinct and which has at least three of
  them has pairwise distinct boundary segments (as unordered pairs).  Consequences, for ANY edge
  tables meeting `Edges.Spec`: a face lists each of its edges once, so the edge→face loop of
  `_build_edge_face_connectivity` (C03's model `Incidence.edgeFace`) never writes the same face
  into both slots of an edge.  Core Lean only.
-/
import UxVerif.Lemmas.Rows
import UxVerif.Lemmas.Keyed

namespace UxVerif.Edges
open UxVerif

/-- pairwise distinct corners, at least three of them -/
def SimpleRow (r : List Int) : Prop := (faceOf r).Nodup ∧ 3 ≤ (faceOf r).length
def SimpleFaces (t : Table) : Prop := ∀ r ∈ t, SimpleRow r

instance (r) : Decidable (SimpleRow r) := by unfold SimpleRow; infer_instance
instance (t) : Decidable (SimpleFaces t) := by unfold SimpleFaces; infer_instance

/-! ### segments of a corner list by position -/

theorem getElem_segs (f : List Int) (i : Nat) (hi : i < (segs f).length) :
    (segs f)[i] = (f[i]'(by rw [length_segs] at hi; exact hi),
      if h : i + 1 < f.length then f[i + 1] else f[0]'(by rw [length_segs] at hi; omega)) := by
  cases f with
  | nil => simp [segs] at hi
  | cons a f =>
    simp only [segs_cons, List.getElem_zip]
    congr 1
    by_cases h : i + 1 < (a :: f).length
    · rw [dif_pos h]
      have h' : i < f.length := by simpa using h
      rw [List.getElem_append_left h']
      simp
    · rw [dif_neg h]
      have hi' : i < (a :: f).length := by rw [length_segs] at hi; exact hi
      have h' : f.length ≤ i := by simp at h; omega
      rw [List.getElem_append_right h']
      simp

theorem sortPair_eq_cases {p q : Int × Int} (h : sortPair p = sortPair q) :
    (p.1 = q.1 ∧ p.2 = q.2) ∨ (p.1 = q.2 ∧ p.2 = q.1) := by
  unfold sortPair at h
  split at h <;> split at h
  · left; exact ⟨congrArg Prod.fst h, congrArg Prod.snd h⟩
  · right
    have h1 := congrArg Prod.fst h
    have h2 := congrArg Prod.snd h
    exact ⟨h1, h2⟩
  · right
    have h1 := congrArg Prod.fst h
    have h2 := congrArg Prod.snd h
    exact ⟨h2, h1⟩
  · left
    have h1 := congrArg Prod.fst h
    have h2 := congrArg Prod.snd h
    exact ⟨h2, h1⟩

/-- **distinct corners, at least three ⇒ distinct boundary segments** (as unordered pairs) -/
theorem segs_sorted_nodup (f : List Int) (hnd : f.Nodup) (h3 : 3 ≤ f.length) :
    ((segs f).map sortPair).Nodup := by
  unfold List.Nodup
  rw [List.pairwise_iff_getElem]
  intro i j hi hj hij heq
  simp only [List.length_map, length_segs] at hi hj
  simp only [List.getElem_map] at heq
  rw [getElem_segs f i (by rw [length_segs]; exact hi),
      getElem_segs f j (by rw [length_segs]; exact hj)] at heq
  have inj := fun (a b : Nat) (ha : a < f.length) (hb : b < f.length) =>
    (List.getElem_inj (i := a) (j := b) (h₀ := ha) (h₁ := hb) hnd).mp
  rcases sortPair_eq_cases heq with ⟨h1, _⟩ | ⟨h1, h2⟩
  · have := inj i j hi hj h1
    omega
  · simp only at h1 h2
    -- next(i) = f[j] forces j = i + 1
    have hi1 : i + 1 < f.length := by omega
    rw [dif_pos hi1] at h2
    have hj' := inj (i + 1) j hi1 hj h2
    by_cases hj1 : j + 1 < f.length
    · rw [dif_pos hj1] at h1
      have := inj i (j + 1) hi hj1 h1
      omega
    · rw [dif_neg hj1] at h1
      have := inj i 0 hi (by omega) h1
      omega

theorem rowSegs_nodup_of_nodup {r : List Int} (h : SimpleRow r) : (rowSegs r).Nodup :=
  segs_sorted_nodup (faceOf r) h.1 h.2

/-! ### a face lists each of its edges once -/

theorem entry_eq_getElem (r : List Int) (j : Nat) (hj : j < r.length) : entry r j = r[j] := by
  simp [entry, List.getD, List.getElem?_eq_getElem hj]

theorem rowAt_getElem (t : Table) (i : Nat) (hi : i < t.length) : rowAt t i = t[i] := by
  simp [rowAt, List.getD, List.getElem?_eq_getElem hi]

theorem faceOf_le_width {n w : Nat} {r : List Int} (h : StdRow n w r) : (faceOf r).length ≤ w := by
  have h1 := h.1
  have h2 : (faceOf r).length ≤ r.length := length_takeWhile_le' _ _
  omega

/-- the real entries of the face-edge row of a simple face are pairwise distinct -/
theorem faceEdgeRow_nodup {E : List (Int × Int)} {w : Nat} {r fe : List Int}
    (hk : (faceOf r).length ≤ w) (hrow : FaceEdgeRow E w r fe) (hs : SimpleRow r) :
    (fe.take (faceOf r).length).Nodup := by
  obtain ⟨hlen, hslots⟩ := hrow
  have hsn := rowSegs_nodup_of_nodup hs
  unfold List.Nodup
  rw [List.pairwise_iff_getElem]
  intro i j hi hj hij heq
  simp only [List.length_take] at hi hj
  have hik : i < (faceOf r).length := by omega
  have hjk : j < (faceOf r).length := by omega
  simp only [List.getElem_take] at heq
  have e1 : entry fe i = fe[i]'(by omega) := entry_eq_getElem fe i (by omega)
  have e2 : entry fe j = fe[j]'(by omega) := entry_eq_getElem fe j (by omega)
  have s1 := hslots i (by omega)
  have s2 := hslots j (by omega)
  rw [if_pos hik, e1] at s1
  rw [if_pos hjk, e2, ← heq] at s2
  obtain ⟨a, ha, ea, hea, hsa⟩ := s1
  obtain ⟨b, hb, eb, heb, hsb⟩ := s2
  have hee : ea = eb := by
    have x := Option.mem_def.mp hea
    have y := Option.mem_def.mp heb
    rw [x] at y; exact Option.some.inj y
  have hab : a = b := by rw [← hsa, ← hsb, hee]
  have hi' : i < (rowSegs r).length := by rw [length_rowSegs]; exact hik
  have hj' : j < (rowSegs r).length := by rw [length_rowSegs]; exact hjk
  have ga : (rowSegs r)[i] = a := by
    have := Option.mem_def.mp ha
    rw [List.getElem?_eq_getElem hi'] at this; exact Option.some.inj this
  have gb : (rowSegs r)[j] = b := by
    have := Option.mem_def.mp hb
    rw [List.getElem?_eq_getElem hj'] at this; exact Option.some.inj this
  have := (List.getElem_inj (h₀ := hi') (h₁ := hj') hsn).mp (by rw [ga, gb, hab])
  omega

end UxVerif.Edges

namespace UxVerif.EdgeFaces
open UxVerif UxVerif.Edges UxVerif.Incidence

/-! ### the edge→face loop on such tables -/

theorem feed_append {V : Type} (a b : List (Nat × V)) (k : Nat) :
    feed (a ++ b) k = feed a k ++ feed b k := by
  unfold feed; simp

theorem feed_flatMap {V A : Type} (l : List A) (g : A → List (Nat × V)) (k : Nat) :
    feed (l.flatMap g) k = l.flatMap (fun a => feed (g a) k) := by
  induction l with
  | nil => simp [feed]
  | cons a l ih => simp only [List.flatMap_cons, feed_append, ih]

/-- what one face feeds into edge `k`: one copy of the face per occurrence of `k` in its row -/
theorem feed_face (l : List Int) (F : Int) (k : Nat) :
    feed (l.map (fun e => (e.toNat, F))) k
      = List.replicate ((l.filter (fun e => e.toNat == k)).length) F := by
  induction l with
  | nil => simp [feed]
  | cons a l ih =>
    rw [List.map_cons, feed_cons, ih]
    by_cases h : a.toNat = k
    · simp [h, List.replicate_succ]
    · simp [h]

/-- in a duplicate-free list of nonnegative integers at most one entry has a given `toNat` -/
theorem filter_toNat_le_one (l : List Int) (hnd : l.Nodup) (h0 : ∀ x ∈ l, 0 ≤ x) (k : Nat) :
    (l.filter (fun e => e.toNat == k)).length ≤ 1 := by
  induction l with
  | nil => simp
  | cons a l ih =>
    have hnd' := List.nodup_cons.mp hnd
    have ih' := ih hnd'.2 (fun x hx => h0 x (List.mem_cons_of_mem _ hx))
    by_cases h : a.toNat = k
    · have : l.filter (fun e => e.toNat == k) = [] := by
        rw [List.filter_eq_nil_iff]
        intro x hx hxk
        have hx0 := h0 x (List.mem_cons_of_mem _ hx)
        have ha0 := h0 a (by simp)
        have hxk' : x.toNat = k := by simpa using hxk
        have : x = a := by omega
        exact hnd'.1 (this ▸ hx)
      simp [h, this]
    · simp [h]; exact ih'

/-- the faces fed to an edge are listed in increasing face order, each at most once, whenever
    every face's real entries are duplicate-free and nonnegative -/
theorem feed_ef_nodup (FE : Table) (N : List Nat)
    (hrow : ∀ f, f < FE.length → (faceEdgesOf FE N f).Nodup ∧ ∀ x ∈ faceEdgesOf FE N f, 0 ≤ x)
    (k : Nat) : (feed (efEvents FE N) k).Nodup := by
  unfold efEvents
  rw [feed_flatMap]
  -- generalise the range to any strictly increasing list of valid faces
  have key : ∀ (L : List Nat), L.Pairwise (· < ·) → (∀ f ∈ L, f < FE.length) →
      (L.flatMap (fun f => feed ((faceEdgesOf FE N f).map (fun e => (e.toNat, Int.ofNat f))) k)).Nodup
        ∧ ∀ x ∈ L.flatMap (fun f => feed ((faceEdgesOf FE N f).map (fun e => (e.toNat, Int.ofNat f))) k),
            ∃ f ∈ L, x = Int.ofNat f := by
    intro L
    induction L with
    | nil => intro _ _; simp
    | cons a L ih =>
      intro hp hv
      have hp' := List.pairwise_cons.mp hp
      obtain ⟨ihn, ihm⟩ := ih hp'.2 (fun f hf => hv f (List.mem_cons_of_mem _ hf))
      obtain ⟨hnd, h0⟩ := hrow a (hv a (by simp))
      have hle := filter_toNat_le_one _ hnd h0 k
      simp only [List.flatMap_cons, feed_face]
      constructor
      · rw [List.nodup_append]
        refine ⟨?_, ?_, ?_⟩
        · generalize ((faceEdgesOf FE N a).filter (fun e => e.toNat == k)).length = c at hle
          match c, hle with
          | 0, _ => simp
          | 1, _ => simp
        · have := ihn; simpa only [feed_face] using this
        · intro x hx y hy hxy
          have hxa : x = Int.ofNat a := (List.mem_replicate.mp hx).2
          have := ihm y (by simpa only [feed_face] using hy)
          obtain ⟨f, hf, hyf⟩ := this
          have hlt := hp'.1 f hf
          rw [hxa, hyf] at hxy
          have := Int.ofNat.inj hxy
          omega
      · intro x hx
        rcases List.mem_append.mp hx with hx | hx
        · exact ⟨a, by simp, (List.mem_replicate.mp hx).2⟩
        · obtain ⟨f, hf, hxf⟩ := ihm x (by simpa only [feed_face] using hx)
          exact ⟨f, List.mem_cons_of_mem _ hf, hxf⟩
  have hr : (List.range FE.length).Pairwise (· < ·) := List.pairwise_lt_range
  exact (key _ hr (fun f hf => List.mem_range.mp hf)).1

/-- the last element of `l`, or `b` when there is none -/
def lastOr : List Int → Int → Int
  | [], b => b
  | c :: l, _ => lastOr l c

/-- the two slots after the loop: the first face fed, then the last other one (or padding) -/
theorem foldl_slotUpd_cons (a : Int) (ha : a ≠ FILL) (l : List Int) :
    (a :: l).foldl slotUpd (FILL, FILL) = (a, lastOr l FILL) := by
  have step : ∀ (l : List Int) (b : Int), l.foldl slotUpd (a, b) = (a, lastOr l b) := by
    intro l
    induction l with
    | nil => intro b; simp [lastOr]
    | cons c l ih =>
      intro b
      have : slotUpd (a, b) c = (a, c) := by simp [slotUpd, ha]
      rw [List.foldl_cons, this, ih]
      simp [lastOr]
  have h0 : slotUpd (FILL, FILL) a = (a, FILL) := by simp [slotUpd]
  rw [List.foldl_cons, h0, step]

theorem lastOr_mem_or (l : List Int) (b : Int) : (l = [] ∧ lastOr l b = b) ∨ lastOr l b ∈ l := by
  induction l generalizing b with
  | nil => left; simp [lastOr]
  | cons c l ih =>
    right
    have : lastOr (c :: l) b = lastOr l c := by simp [lastOr]
    rw [this]
    rcases ih c with ⟨h1, h2⟩ | h
    · rw [h2]; simp
    · exact List.mem_cons_of_mem _ h

/-- a duplicate-free, nonempty feed of faces (none of them the padding value) leaves two
    different entries in the row -/
theorem slots_distinct (l : List Int) (hne : l ≠ []) (hnd : l.Nodup) (hf : ∀ x ∈ l, x ≠ FILL) :
    (l.foldl slotUpd (FILL, FILL)).1 ≠ (l.foldl slotUpd (FILL, FILL)).2 := by
  cases l with
  | nil => exact absurd rfl hne
  | cons a l =>
    have ha := hf a (by simp)
    rw [foldl_slotUpd_cons a ha l]
    simp only
    rcases lastOr_mem_or l FILL with ⟨_, h2⟩ | h
    · rw [h2]; exact ha
    · intro hab
      exact (List.nodup_cons.mp hnd).1 (hab ▸ h)

theorem edgeFace_getElem (FE : Table) (N : List Nat) (nEdge e : Nat) (he : e < nEdge) :
    (edgeFace FE N nEdge)[e]? = some ((feed (efEvents FE N) e).foldl slotUpd (FILL, FILL)) := by
  unfold edgeFace
  rw [keyedFold_get]; simp [he]

theorem edgeFace_len (FE : Table) (N : List Nat) (nEdge : Nat) :
    (edgeFace FE N nEdge).length = nEdge := by
  unfold edgeFace; rw [keyedFold_length]; simp

end UxVerif.EdgeFaces
