/-
  Lemmas for C07 (Model/Encode.lean): rows and fills, the stable sort by length, counts per size
  and the block loop of `_encode_exodus`, `np.unique` round trip of `_read_scrip`.  Core Lean only.
-/
import UxVerif.Lemmas.SortUniq
import UxVerif.Model.Encode

namespace UxVerif.Encode
open UxVerif

/-! ### rows -/

theorem FILL_neg : FILL < 0 := by decide

theorem take_idxOf_eq_takeWhile (a : Int) (r : List Int) :
    r.take (r.idxOf a) = r.takeWhile (fun x => x != a) := by
  induction r with
  | nil => simp
  | cons x xs ih =>
    rw [List.idxOf_cons, List.takeWhile_cons]
    by_cases h : x = a
    · subst h; simp
    · have h1 : (x == a) = false := by simpa using h
      have h2 : (x != a) = true := by simpa using h
      simp only [h1, cond_false, List.take_succ_cons, h2, if_true, ih]

theorem faceOf_no_fill (r : List Int) : ∀ x ∈ faceOf r, x ≠ FILL := by
  unfold faceOf
  induction r with
  | nil => simp
  | cons a r ih =>
    intro x hx
    rw [List.takeWhile_cons] at hx
    split at hx
    · rename_i ha
      rcases List.mem_cons.mp hx with rfl | hx
      · simpa using ha
      · exact ih x hx
    · cases hx

theorem faceOf_append_fill (f : List Int) (k : Nat) (h : ∀ x ∈ f, x ≠ FILL) :
    faceOf (f ++ List.replicate k FILL) = f := by
  unfold faceOf
  induction f with
  | nil => cases k <;> simp [List.replicate_succ]
  | cons a f ih =>
    have ha : (a != FILL) = true := by simpa using h a (by simp)
    simp only [List.cons_append, List.takeWhile_cons, ha, if_true]
    rw [ih (fun x hx => h x (by simp [hx]))]

theorem mem_faceOf_or_drop (r : List Int) (x : Int) (hx : x ∈ r) :
    x ∈ faceOf r ∨ x ∈ r.drop (faceOf r).length := by
  unfold faceOf
  induction r with
  | nil => cases hx
  | cons a r ih =>
    rw [List.takeWhile_cons]
    split
    · rcases List.mem_cons.mp hx with rfl | hx
      · left; simp
      · rcases ih hx with h | h
        · left; simp [h]
        · right; simpa using h
    · right; simpa using hx

theorem faceOf_length_le (r : List Int) : (faceOf r).length ≤ r.length := by
  unfold faceOf
  induction r with
  | nil => simp
  | cons a r ih =>
    rw [List.takeWhile_cons]
    split
    · simp only [List.length_cons]; omega
    · simp

/-! ### stable sort by length -/

def LenSorted (l : List (List Int)) : Prop := l.Pairwise (fun a b => a.length ≤ b.length)

theorem insLen_perm (x : List Int) (l : List (List Int)) : (insLen x l).Perm (x :: l) := by
  induction l with
  | nil => exact List.Perm.refl _
  | cons y ys ih =>
    unfold insLen
    split
    · exact List.Perm.refl _
    · exact ((List.Perm.cons y ih).trans (List.Perm.swap x y ys))

theorem sortLen_perm (l : List (List Int)) : (sortLen l).Perm l := by
  induction l with
  | nil => exact List.Perm.refl _
  | cons x xs ih =>
    have : sortLen (x :: xs) = insLen x (sortLen xs) := rfl
    rw [this]
    exact (insLen_perm x _).trans (List.Perm.cons x ih)

theorem mem_insLen (x a : List Int) (l : List (List Int)) : a ∈ insLen x l ↔ a = x ∨ a ∈ l := by
  rw [(insLen_perm x l).mem_iff]; simp

theorem insLen_sorted (x : List Int) (l : List (List Int)) (h : LenSorted l) :
    LenSorted (insLen x l) := by
  induction l with
  | nil => simp [insLen, LenSorted]
  | cons y ys ih =>
    have hy := List.pairwise_cons.mp h
    unfold insLen
    split
    · rename_i hle
      refine List.pairwise_cons.mpr ⟨?_, h⟩
      intro b hb
      rcases List.mem_cons.mp hb with rfl | hb
      · exact hle
      · exact Nat.le_trans hle (hy.1 b hb)
    · rename_i hnle
      refine List.pairwise_cons.mpr ⟨?_, ih hy.2⟩
      intro b hb
      rcases (mem_insLen x b ys).mp hb with rfl | hb
      · omega
      · exact hy.1 b hb

theorem sortLen_sorted (l : List (List Int)) : LenSorted (sortLen l) := by
  induction l with
  | nil => simp [sortLen, LenSorted]
  | cons x xs ih => exact insLen_sorted x _ ih

theorem sortLen_same_length (w : Nat) (l : List (List Int)) (h : ∀ r ∈ l, r.length = w) :
    sortLen l = l := by
  induction l with
  | nil => rfl
  | cons x xs ih =>
    have : sortLen (x :: xs) = insLen x (sortLen xs) := rfl
    rw [this, ih (fun r hr => h r (by simp [hr]))]
    cases xs with
    | nil => rfl
    | cons y ys =>
      unfold insLen
      have h1 := h x (by simp)
      have h2 := h y (by simp)
      simp [h1, h2]

/-! ### the prefix of a length-sorted list holding the smallest size -/

theorem sorted_split (k : Nat) (l : List (List Int)) (hs : LenSorted l) (hk : ∀ f ∈ l, k ≤ f.length) :
    let c := l.countP (fun f => f.length == k)
    (l.take c).length = c ∧ (∀ f ∈ l.take c, f.length = k) ∧ (∀ f ∈ l.drop c, f.length ≠ k) := by
  induction l with
  | nil => simp
  | cons f l ih =>
    have hf := List.pairwise_cons.mp hs
    have ih' := ih hf.2 (fun g hg => hk g (by simp [hg]))
    simp only at ih' ⊢
    by_cases hfk : f.length = k
    · have hc : List.countP (fun f => f.length == k) (f :: l)
          = List.countP (fun f => f.length == k) l + 1 := by
        rw [List.countP_cons]; simp [hfk]
      rw [hc, List.take_succ_cons, List.drop_succ_cons]
      refine ⟨by simp [ih'.1], ?_, ih'.2.2⟩
      intro g hg
      rcases List.mem_cons.mp hg with rfl | hg
      · exact hfk
      · exact ih'.2.1 g hg
    · have hgt : k < f.length := by
        have := hk f (by simp); omega
      have hz : List.countP (fun f => f.length == k) l = 0 := by
        rw [List.countP_eq_zero]
        intro g hg
        have := hf.1 g hg
        simp; omega
      have hc : List.countP (fun f => f.length == k) (f :: l) = 0 := by
        rw [List.countP_cons, hz]; simp [hfk]
      rw [hc]
      refine ⟨by simp, by simp, ?_⟩
      intro g hg
      rcases List.mem_cons.mp (by simpa using hg) with rfl | hg
      · exact hfk
      · have := hf.1 g hg; omega

/-! ### the block loop of `_encode_exodus` -/

/-- the non-zero counts, over sizes `keys`, of a list of rows -/
def sizeCounts (keys : List Nat) (l : List (List Int)) : List Nat :=
  (keys.map (fun k => l.countP (fun f => f.length == k))).filter (· != 0)

theorem sizeCounts_drop (k : Nat) (keys : List Nat) (hk : ∀ k' ∈ keys, k' ≠ k) (l : List (List Int))
    (c : Nat) (hc : ∀ f ∈ l.take c, f.length = k) : sizeCounts keys (l.drop c) = sizeCounts keys l := by
  unfold sizeCounts
  congr 1
  apply List.map_congr_left
  intro k' hk'
  conv => rhs; rw [← List.take_append_drop c l, List.countP_append]
  have : List.countP (fun f => f.length == k') (l.take c) = 0 := by
    rw [List.countP_eq_zero]
    intro f hf
    have := hc f hf
    have := hk k' hk'
    simp; omega
  omega

/-- With `start += num_faces`, for rows sorted by length the loop cuts the rows from `start` on
    into one block per occurring size: it does not raise, the blocks concatenate to those rows
    (1-based), and every block is rectangular. -/
theorem exoBlocks_ok (cfg : Cfg) (hacc : cfg.exoStartAccum = true) (s : List (List Int)) :
    ∀ (keys : List Nat) (start : Nat),
      keys.Pairwise (· < ·) →
      LenSorted (s.drop start) →
      (∀ f ∈ s.drop start, f.length ∈ keys) →
      (∀ f ∈ s.drop start, elemTypeKnown f.length = true) →
      ∃ bs, exoBlocks cfg s start (sizeCounts keys (s.drop start)) = some bs ∧
        bs.flatMap (·.connect) = (s.drop start).map (·.map (· + 1)) ∧
        ∀ b ∈ bs, ∀ r ∈ b.connect, r.length = b.nodesPerEl := by
  intro keys
  induction keys with
  | nil =>
    intro start _ _ hmem _
    have : s.drop start = [] := by
      cases h : s.drop start with
      | nil => rfl
      | cons f l => have := hmem f (by simp [h]); simp at this
    refine ⟨[], ?_, ?_, ?_⟩
    · simp [sizeCounts, this, exoBlocks]
    · simp [this]
    · simp
  | cons k ks ih =>
    intro start hkeys hsorted hmem hknown
    have hks := List.pairwise_cons.mp hkeys
    have hge : ∀ f ∈ s.drop start, k ≤ f.length := by
      intro f hf
      rcases List.mem_cons.mp (hmem f hf) with h | h
      · omega
      · have := hks.1 _ h; omega
    have hsp := sorted_split k (s.drop start) hsorted hge
    simp only at hsp
    generalize hc : List.countP (fun f => f.length == k) (s.drop start) = c at hsp
    obtain ⟨hlen, htake, hdrop⟩ := hsp
    have hne : ∀ k' ∈ ks, k' ≠ k := by
      intro k' hk'; have := hks.1 k' hk'; omega
    by_cases hc0 : c = 0
    · -- no face of this size: the count is dropped, nothing is consumed
      subst hc0
      have hcs : sizeCounts (k :: ks) (s.drop start) = sizeCounts ks (s.drop start) := by
        simp [sizeCounts, hc]
      rw [hcs]
      apply ih start hks.2 hsorted _ hknown
      intro f hf
      rcases List.mem_cons.mp (hmem f hf) with h | h
      · exact absurd h (hdrop f (by simpa using hf))
      · exact h
    · have hcs : sizeCounts (k :: ks) (s.drop start) = c :: sizeCounts ks (s.drop start) := by
        simp [sizeCounts, hc, hc0]
      have hdd : s.drop (start + c) = (s.drop start).drop c := by rw [List.drop_drop]
      have hsorted' : LenSorted (s.drop (start + c)) := by
        rw [hdd]; exact List.Pairwise.sublist (List.drop_sublist _ _) hsorted
      have hmem' : ∀ f ∈ s.drop (start + c), f.length ∈ ks := by
        intro f hf
        rw [hdd] at hf
        rcases List.mem_cons.mp (hmem f (List.mem_of_mem_drop hf)) with h | h
        · exact absurd h (hdrop f hf)
        · exact h
      have hknown' : ∀ f ∈ s.drop (start + c), elemTypeKnown f.length = true := by
        intro f hf; rw [hdd] at hf; exact hknown f (List.mem_of_mem_drop hf)
      obtain ⟨bs, hbs, hflat, hrect⟩ := ih (start + c) hks.2 hsorted' hmem' hknown'
      rw [hdd, sizeCounts_drop k ks hne (s.drop start) c htake] at hbs
      -- the first row of the block
      have hpos : 0 < ((s.drop start).take c).length := by omega
      obtain ⟨first, hfirst⟩ : ∃ first, (s.drop start)[0]? = some first := by
        cases h : s.drop start with
        | nil => simp [h] at hpos
        | cons f l => exact ⟨f, by simp⟩
      have hfirst_mem : first ∈ (s.drop start).take c := by
        cases h : s.drop start with
        | nil => simp [h] at hfirst
        | cons f l =>
          simp [h] at hfirst; subst hfirst
          cases c with
          | zero => exact absurd rfl hc0
          | succ c' => simp [List.take_succ_cons]
      have hfl : first.length = k := htake first hfirst_mem
      have hs0 : s[start]? = some first := by
        have := @List.getElem?_drop _ s start 0
        simpa [this] using hfirst
      have hall : ((s.drop start).take c).all (fun r => r.length == first.length) = true := by
        rw [List.all_eq_true]; intro r hr; simp [htake r hr, hfl]
      have hkn : elemTypeKnown first.length = true :=
        hknown first (List.mem_of_mem_take hfirst_mem)
      refine ⟨{ nodesPerEl := first.length, connect := ((s.drop start).take c).map (·.map (· + 1)),
                firstId := start + 1 } :: bs, ?_, ?_, ?_⟩
      · rw [hcs]
        simp only [exoBlocks, hs0, hkn, hlen, hall, beq_self_eq_true, Bool.and_self, if_true, hacc, hbs]
      · simp only [List.flatMap_cons, hflat]
        rw [hdd, ← List.map_append, List.take_append_drop]
      · intro b hb r hr
        rcases List.mem_cons.mp hb with rfl | hb
        · simp only at hr ⊢
          rcases List.mem_map.mp hr with ⟨f, hf, rfl⟩
          simp [htake f hf, hfl]
        · exact hrect b hb r hr

/-! ### decoding a `connect` row -/

theorem exoDecRow_shift (w : Nat) (f : List Int) (h : ∀ x ∈ f, 0 ≤ x) :
    faceOf (exoDecRow w (f.map (· + 1))) = f := by
  unfold exoDecRow
  have hz : (f.map (· + 1)).map (fun x => if x - 1 = -1 then FILL else x - 1) = f := by
    rw [List.map_map]
    conv => rhs; rw [← List.map_id f]
    apply List.map_congr_left
    intro x hx
    have := h x hx
    have h1 : ¬ (x + 1 - 1 = -1) := by omega
    simp only [Function.comp, h1, if_false, id]; omega
  simp only [hz]
  apply faceOf_append_fill
  intro x hx
  have := h x hx
  have := FILL_neg
  omega

/-! ### `np.unique` round trip -/

theorem getI?_rank {P} [DecidableEq P] (u : List P) (x : P) (hx : x ∈ u) :
    getI? u (rank u x) = some x := by
  unfold getI? rank
  have h : ¬ (Int.ofNat (u.idxOf x) < 0) := by simp
  rw [if_neg h]
  have hi : u.idxOf x < u.length := List.idxOf_lt_length_iff.mpr hx
  simp [List.getElem?_eq_getElem hi, List.getElem_idxOf]

theorem rank_inj {P} [DecidableEq P] (u : List P) (x y : P) (hx : x ∈ u) (hy : y ∈ u)
    (h : rank u x = rank u y) : x = y := by
  have h1 := getI?_rank u x hx
  have h2 := getI?_rank u y hy
  rw [h, h2] at h1
  exact (Option.some.inj h1).symm

theorem rank_ne_fill {P} [DecidableEq P] (u : List P) (x : P) : rank u x ≠ FILL := by
  unfold rank
  have : (0 : Int) ≤ Int.ofNat (u.idxOf x) := Int.natCast_nonneg _
  have := FILL_neg
  omega

/-! ### `mapM` in `Option` -/

theorem mapM_option_some {α β : Type} (f : α → Option β) (l : List α) (h : ∀ x ∈ l, ∃ y, f x = some y) :
    ∃ ys, l.mapM f = some ys ∧ ys.map some = l.map f := by
  induction l with
  | nil => exact ⟨[], by simp, rfl⟩
  | cons a l ih =>
    obtain ⟨y, hy⟩ := h a (by simp)
    obtain ⟨ys, hys, hm⟩ := ih (fun x hx => h x (by simp [hx]))
    refine ⟨y :: ys, ?_, ?_⟩
    · simp [List.mapM_cons, hy, hys]
    · simp [hy, hm]

theorem mapM2_option_some {α β : Type} (g : List α → α → Option β) (t : List (List α))
    (h : ∀ r ∈ t, ∀ x ∈ r, ∃ y, g r x = some y) :
    ∃ C, t.mapM (fun r => r.mapM (g r)) = some C ∧
      C.map (·.map some) = t.map (fun r => r.map (g r)) := by
  induction t with
  | nil => exact ⟨[], by simp, rfl⟩
  | cons r t ih =>
    obtain ⟨c, hc, hcm⟩ := mapM_option_some (g r) r (h r (by simp))
    obtain ⟨C, hC, hCm⟩ := ih (fun r' hr' => h r' (by simp [hr']))
    refine ⟨c :: C, ?_, ?_⟩
    · simp [List.mapM_cons, hc, hC]
    · simp [hcm, hCm]

/-! ### standard-form rows -/

theorem split_faceOf (r : List Int) : r = faceOf r ++ r.drop (faceOf r).length := by
  unfold faceOf
  induction r with
  | nil => simp
  | cons a r ih =>
    rw [List.takeWhile_cons]
    split
    · simp only [List.cons_append, List.length_cons, List.drop_succ_cons]
      rw [← ih]
    · simp

theorem stdRow_eq {n w : Nat} {r : List Int} (h : StdRow n w r) :
    r = faceOf r ++ List.replicate (w - (faceOf r).length) FILL := by
  obtain ⟨hl, _, _, hfill⟩ := h
  have hs := split_faceOf r
  have : r.drop (faceOf r).length = List.replicate (w - (faceOf r).length) FILL := by
    rw [List.eq_replicate_iff]
    exact ⟨by simp [hl], hfill⟩
  rw [this] at hs
  exact hs

theorem entry_last_mem (F D : List Int) (hF : 0 < F.length) :
    entry (F ++ D) (F.length - 1) ∈ F := by
  unfold entry
  have h : F.length - 1 < F.length := by omega
  simp [List.getD, List.getElem?_append_left h, List.getElem?_eq_getElem h]

theorem entry_last_eq (F D : List Int) (a : Int) (hF : F.getLast? = some a) :
    entry (F ++ D) (F.length - 1) = a := by
  obtain ⟨B, rfl⟩ := List.getLast?_eq_some_iff.mp hF
  unfold entry
  simp [List.getD]

/-! ### trailing repeats are padding -/

theorem collapseRow_pad (B : List Int) (a : Int) (j : Nat) (hB : B.getLast? ≠ some a) :
    collapseRow (B ++ List.replicate (j + 1) a) = B ++ [a] ++ List.replicate j FILL := by
  unfold collapseRow
  have hrev : (B ++ List.replicate (j + 1) a).reverse = a :: (List.replicate j a ++ B.reverse) := by
    rw [List.reverse_append, List.reverse_replicate, List.replicate_succ]; rfl
  rw [hrev]
  have htw : (List.replicate j a ++ B.reverse).takeWhile (· == a) = List.replicate j a := by
    rw [List.takeWhile_append, List.takeWhile_replicate]
    simp only [beq_self_eq_true, if_true]
    have : B.reverse.takeWhile (· == a) = [] := by
      cases hb : B.reverse with
      | nil => rfl
      | cons b bs =>
        have h1 : B.reverse.head? = some b := by simp [hb]
        rw [List.head?_reverse] at h1
        have : b ≠ a := fun h => hB (h ▸ h1)
        rw [List.takeWhile_cons_of_neg]; simpa using this
    simp [this]
  simp only [htw, List.length_replicate, List.length_append]
  have : B.length + (j + 1) - j = B.length + 1 := by omega
  rw [this]
  have : (B ++ List.replicate (j + 1) a).take (B.length + 1) = B ++ [a] := by
    rw [List.take_append]
    have h1 : List.take (B.length + 1) B = B := List.take_of_length_le (by omega)
    simp [List.replicate_succ, h1]
  rw [this]

theorem nodup_of_map {α β : Type} (f : α → β) (l : List α) (h : (l.map f).Nodup) : l.Nodup := by
  induction l with
  | nil => exact List.nodup_nil
  | cons a l ih =>
    rw [List.map_cons, List.nodup_cons] at h
    rw [List.nodup_cons]
    exact ⟨fun ha => h.1 (List.mem_map.mpr ⟨a, ha, rfl⟩), ih h.2⟩

/-- two maps of two lists agree when they agree wherever two other maps do -/
theorem map_rel {α β γ δ : Type} (h1 : α → γ) (h2 : β → γ) (f1 : α → δ) (f2 : β → δ) :
    ∀ (C : List α) (t : List β), C.map h1 = t.map h2 →
      (∀ c ∈ C, ∀ r ∈ t, h1 c = h2 r → f1 c = f2 r) → C.map f1 = t.map f2 := by
  intro C
  induction C with
  | nil => intro t h _; cases t with
    | nil => rfl
    | cons r t => simp at h
  | cons c C ih =>
    intro t h hrel
    cases t with
    | nil => simp at h
    | cons r t =>
      simp only [List.map_cons, List.cons.injEq] at h ⊢
      exact ⟨hrel c (by simp) r (by simp) h.1,
        ih t h.2 (fun c' hc' r' hr' => hrel c' (by simp [hc']) r' (by simp [hr']))⟩

end UxVerif.Encode
