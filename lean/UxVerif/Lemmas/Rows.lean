/-
  Structure of a standard-form row and of its closed / paired versions.  Core Lean only.
-/
import UxVerif.Model.Edges

namespace UxVerif.Edges
open UxVerif

theorem mem_takeWhile_imp' {α} (p : α → Bool) (l : List α) :
    ∀ x ∈ l.takeWhile p, p x = true := by
  induction l with
  | nil => simp
  | cons a l ih =>
    intro x hx
    rw [List.takeWhile_cons] at hx
    split at hx
    · rcases List.mem_cons.mp hx with rfl | h
      · assumption
      · exact ih x h
    · cases hx

theorem length_takeWhile_le' {α} (p : α → Bool) (l : List α) :
    (l.takeWhile p).length ≤ l.length := by
  induction l with
  | nil => simp
  | cons a l ih =>
    rw [List.takeWhile_cons]
    split <;> simp <;> omega

theorem faceOf_ne_fill (r : List Int) : ∀ x ∈ faceOf r, x ≠ FILL := by
  intro x hx
  have := mem_takeWhile_imp' _ _ x hx
  simpa using this

theorem stdRow_eq {n w : Nat} {r : List Int} (h : StdRow n w r) :
    r = faceOf r ++ List.replicate (w - (faceOf r).length) FILL := by
  obtain ⟨hlen, _, _, hfill⟩ := h
  have h1 : r = faceOf r ++ r.drop (faceOf r).length := by
    conv => lhs; rw [← List.take_append_drop (faceOf r).length r]
    congr 1
    unfold faceOf
    rw [List.takeWhile_eq_take_findIdx_not]
    congr 1
    rw [List.length_take]
    have := @List.findIdx_le_length _ (fun a => !(a != FILL)) r
    omega
  have h2 : r.drop (faceOf r).length = List.replicate (w - (faceOf r).length) FILL := by
    rw [List.eq_replicate_iff]
    refine ⟨by simp [hlen], hfill⟩
  rw [← h2]; exact h1

/-- first `FILL` of `f ++ FILL :: rest` when `f` has no `FILL` -/
theorem idxOf_fill_append (f rest : List Int) (hf : ∀ x ∈ f, x ≠ FILL) :
    (f ++ FILL :: rest).idxOf FILL = f.length := by
  induction f with
  | nil => simp
  | cons a f ih =>
    have ha : a ≠ FILL := hf a (by simp)
    have : (a == FILL) = false := by simpa using ha
    simp only [List.cons_append, List.idxOf_cons, this, cond_false, List.length_cons]
    rw [ih (fun x hx => hf x (by simp [hx]))]

theorem nNodesRow_std {n w : Nat} {r : List Int} (h : StdRow n w r) :
    nNodesRow r = (faceOf r).length := by
  unfold nNodesRow
  have e := stdRow_eq h
  generalize hm : w - (faceOf r).length = m at e
  have : r ++ [FILL] = faceOf r ++ FILL :: List.replicate m FILL := by
    conv => lhs; rw [e]
    rw [List.append_assoc]
    congr 1
    rw [← List.replicate_succ, ← List.replicate_succ']
  rw [this, idxOf_fill_append _ _ (faceOf_ne_fill r)]

theorem closeRow_std {n w : Nat} {r : List Int} (h : StdRow n w r) :
    closeRow r = faceOf r ++ (faceOf r).headD FILL ::
      List.replicate (w - (faceOf r).length) FILL := by
  unfold closeRow
  have e := stdRow_eq h
  have hpos := h.2.1
  generalize hm : w - (faceOf r).length = m at e
  have hc : r ++ [FILL] = faceOf r ++ FILL :: List.replicate m FILL := by
    conv => lhs; rw [e]
    rw [List.append_assoc]
    congr 1
    rw [← List.replicate_succ, ← List.replicate_succ']
  have hhead : r.headD FILL = (faceOf r).headD FILL := by
    conv => lhs; rw [e]
    cases hf : faceOf r with
    | nil => rw [hf] at hpos; simp at hpos
    | cons a f => simp
  simp only []
  rw [hc, idxOf_fill_append _ _ (faceOf_ne_fill r), hhead]
  rw [List.set_append_right _ _ (Nat.le_refl _)]
  simp

/-- `zip (a :: R) R` for `R = replicate m FILL` consists of fill pairs only -/
theorem zip_tail_fill (a : Int) (m : Nat) :
    ∀ p ∈ (List.zip (a :: List.replicate m FILL) (List.replicate m FILL)).map sortPair,
      hasFill p = true := by
  intro p hp
  rcases List.mem_map.mp hp with ⟨q, hq, rfl⟩
  have h2 : q.2 = FILL := by
    have := (List.of_mem_zip hq).2
    exact (List.mem_replicate.mp this).2
  unfold sortPair hasFill
  split <;> simp [h2]

theorem segs_cons {α} (a : α) (f : List α) : segs (a :: f) = List.zip (a :: f) (f ++ [a]) := rfl

theorem length_segs {α} (f : List α) : (segs f).length = f.length := by
  cases f with
  | nil => rfl
  | cons a f => simp [segs_cons]

/-- the pairs of a standard row are its boundary segments followed by fill pairs only -/
theorem rowPairs_std {n w : Nat} {r : List Int} (h : StdRow n w r) :
    ∃ tl, rowPairs r = rowSegs r ++ tl ∧ (∀ p ∈ tl, hasFill p = true) ∧
      tl.length = w - (faceOf r).length := by
  have hc := closeRow_std h
  have hpos := h.2.1
  have hle : (faceOf r).length ≤ w := by
    have := h.1
    have h2 : (faceOf r).length ≤ r.length := by
      unfold faceOf; exact length_takeWhile_le' _ _
    omega
  unfold rowPairs rowSegs
  simp only []
  rw [hc]
  cases hf : faceOf r with
  | nil => rw [hf] at hpos; simp at hpos
  | cons a f =>
    generalize hm : w - (a :: f).length = m
    refine ⟨(List.zip (a :: List.replicate m FILL) (List.replicate m FILL)).map sortPair,
      ?_, zip_tail_fill a m, ?_⟩
    · simp only [List.headD_cons, List.cons_append, List.tail_cons, segs_cons]
      rw [← List.map_append]
      congr 1
      have : f ++ a :: List.replicate m FILL = (f ++ [a]) ++ List.replicate m FILL := by simp
      rw [this]
      have : a :: (f ++ [a] ++ List.replicate m FILL)
          = (a :: f) ++ (a :: List.replicate m FILL) := by simp
      rw [this]
      rw [List.zip_append (by simp)]
    · simp

theorem sortPair_idem (p : Int × Int) : sortPair (sortPair p) = sortPair p := by
  unfold sortPair
  split
  · simp [*]
  · simp only []
    split
    · rfl
    · exfalso; omega

theorem rowSegs_sorted (r : List Int) : ∀ p ∈ rowSegs r, sortPair p = p := by
  intro p hp
  rcases List.mem_map.mp hp with ⟨q, _, rfl⟩
  exact sortPair_idem q

theorem rowSegs_noFill (r : List Int) : ∀ p ∈ rowSegs r, hasFill p = false := by
  intro p hp
  rcases List.mem_map.mp hp with ⟨q, hq, rfl⟩
  have hmem : q.1 ∈ faceOf r ∧ q.2 ∈ faceOf r := by
    cases hf : faceOf r with
    | nil => rw [hf] at hq; simp [segs] at hq
    | cons a f =>
      rw [hf, segs_cons] at hq
      have := List.of_mem_zip hq
      refine ⟨this.1, ?_⟩
      have h2 := this.2
      simp only [List.mem_append, List.mem_singleton] at h2
      rcases h2 with h2 | h2
      · exact List.mem_cons_of_mem _ h2
      · rw [h2]; exact List.mem_cons_self
  have h1 := faceOf_ne_fill r _ hmem.1
  have h2 := faceOf_ne_fill r _ hmem.2
  unfold sortPair hasFill
  split <;> simp [h1, h2]

theorem length_rowSegs (r : List Int) : (rowSegs r).length = (faceOf r).length := by
  unfold rowSegs; simp [length_segs]

end UxVerif.Edges
