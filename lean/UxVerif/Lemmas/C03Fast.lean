/-
  UxVerif.Lemmas.C03Fast — an efficient decision procedure for C03's `Incidence.Pre` and
  `Incidence.Spec`, executable (core Lean only: this file is linked into the driver `drv_c03`).
  `Props/C03.lean` proves `preFast = decide Pre`, `specFast = decide Spec` (under `Pre`) and
  `failingFast = failing` (unconditionally), so the driver's verdict on the implementation's
  tables is the specification's own Boolean, computed in O(size²) list steps instead of O(F³·E).
-/
import UxVerif.Model.Incidence

namespace UxVerif.Incidence
open UxVerif

/-! ### A fast decision procedure for `Pre` and `Spec`

  The decidable instances of `Pre` / `Spec` re-derive `incidence` (a scan of all face slots) for
  every edge and every pair of faces: O(F³·E) list steps.  The procedures below run each loop ONCE
  (the builders themselves, which `build_meets_spec` proves correct) and compare the candidate
  tables with the result row by row, up to what the specification leaves free (order inside a row,
  position of the padding, order of the two faces of an interior edge, order of the hole list).
  `Props/C03.lean` proves them EQUAL to `decide Pre` / `decide Spec` / `failing`. -/

/-- number of face slots of every edge, one pass over the face-edge table -/
def incCounts (FE : Table) (N : List Nat) (nEdge : Nat) : List Nat :=
  keyedFold (fun c (_ : Int) => c + 1) (List.replicate nEdge 0) (efEvents FE N)

def preFast (n : Nat) (t FE : Table) (N : List Nat) (nEdge : Nat) : Bool :=
  decide (FE.length = t.length) &&
  decide (∀ f, f < FE.length → ∀ e ∈ faceEdgesOf FE N f, 0 ≤ e ∧ e < nEdge) &&
  (incCounts FE N nEdge).all (fun c => decide (1 ≤ c ∧ c ≤ 2)) &&
  decide (∀ f, f < t.length → ∀ v ∈ real (rowAt t f), 0 ≤ v ∧ v < n)

def validFace (nFace : Nat) (x : Int) : Bool := decide (0 ≤ x) && decide (x < nFace)

/-- a candidate `node_face` row against the builder's row: valid entries, same set of faces -/
def nodeRowOK (nFace : Nat) (r mr : List Int) : Bool :=
  r.all (fun x => x == FILL || (validFace nFace x && mr.contains x)) &&
  mr.all (fun y => y == FILL || r.contains y)

def nodeFaceFast (n nFace : Nat) (M NF : Table) : Bool :=
  NF.length == n && (List.range n).all (fun v => nodeRowOK nFace (rowAt NF v) (rowAt M v))

/-- a candidate `edge_face` row against the builder's row: equal, or the two faces of an
    interior edge in the other order -/
def pairOK (p m : Int × Int) : Bool := p == m || (m.2 != FILL && p == (m.2, m.1))

def edgeFaceFast (nEdge : Nat) (M EF : List (Int × Int)) : Bool :=
  EF.length == nEdge &&
  (List.range nEdge).all (fun e => pairOK (EF.getD e (FILL, FILL)) (M.getD e (FILL, FILL)))

/-- entries of row `f` the face-face clauses say nothing about: `f` itself, and anything that is
    not a face number -/
def skipEntry (nFace f : Nat) (x : Int) : Bool := x == Int.ofNat f || !(validFace nFace x)

def ffMemRowOK (nFace f : Nat) (r mr : List Int) : Bool :=
  r.all (fun x => skipEntry nFace f x || mr.contains x) &&
  mr.all (fun y => skipEntry nFace f y || r.contains y)

def ffCountRowOK (nFace f : Nat) (r mr : List Int) : Bool :=
  (r ++ mr).all (fun x => skipEntry nFace f x || r.count x == mr.count x)

def faceFaceMemFast (nFace : Nat) (M FF : Table) : Bool :=
  FF.length == nFace && decide (EntriesOK nFace FF) &&
  (List.range nFace).all (fun f => ffMemRowOK nFace f (rowAt FF f) (rowAt M f))

def faceFaceCountFast (nFace : Nat) (M FF : Table) : Bool :=
  (List.range nFace).all (fun f => ffCountRowOK nFace f (rowAt FF f) (rowAt M f))

def holesFast (Hm H : List Nat) : Bool :=
  decide H.Nodup && H.all (fun e => Hm.contains e) && Hm.all (fun e => H.contains e)

/-- the clauses that fail, computed through the builders (one run of each loop) -/
def failingFast (n : Nat) (t FE : Table) (N : List Nat) (nEdge : Nat) (o : Out) : List String :=
  if preFast n t FE N nEdge then
    let m := build n 0 t FE N nEdge
    (if nodeFaceFast n t.length m.nodeFace o.nodeFace then [] else ["node_face"]) ++
    (if edgeFaceFast nEdge m.edgeFace o.edgeFace then [] else ["edge_face"]) ++
    (if faceFaceMemFast FE.length m.faceFace o.faceFace then [] else ["face_face_mem"]) ++
    (if faceFaceCountFast FE.length m.faceFace o.faceFace then [] else ["face_face_count"]) ++
    (if holesFast m.holes o.holes then [] else ["holes"])
  else failing n t FE N nEdge o

def specFast (n : Nat) (t FE : Table) (N : List Nat) (nEdge : Nat) (o : Out) : Bool :=
  let m := build n 0 t FE N nEdge
  nodeFaceFast n t.length m.nodeFace o.nodeFace && edgeFaceFast nEdge m.edgeFace o.edgeFace &&
  faceFaceMemFast FE.length m.faceFace o.faceFace && faceFaceCountFast FE.length m.faceFace o.faceFace &&
  holesFast m.holes o.holes

end UxVerif.Incidence
