/-
  The ten reductions of `NUMPY_AGGREGATIONS` as exact functions over ℚ (`Model/Aggregate.lean`):
  each depends only on the MULTISET of the row (permutation invariance), `min`/`max` are the least /
  greatest member, the sorted row is the sorted permutation, the rounding allowance is non-negative.
-/
import Mathlib.Tactic.Ring
import Mathlib.Tactic.Linarith
import Mathlib.Tactic.Positivity
import Mathlib.Algebra.Order.Field.Rat
import UxVerif.Model.Aggregate

namespace UxVerif.Aggregate
open UxVerif

/-! ### sum, product -/

theorem qsum_perm {l₁ l₂ : List Rat} (h : l₁.Perm l₂) : qsum l₁ = qsum l₂ := by
  induction h with
  | nil => rfl
  | cons x _ ih => simp only [qsum, List.foldr_cons] at ih ⊢; rw [ih]
  | swap x y l => simp only [qsum, List.foldr_cons]; ring
  | trans _ _ ih₁ ih₂ => exact ih₁.trans ih₂

theorem qprod_perm {l₁ l₂ : List Rat} (h : l₁.Perm l₂) : qprod l₁ = qprod l₂ := by
  induction h with
  | nil => rfl
  | cons x _ ih => simp only [qprod, List.foldr_cons] at ih ⊢; rw [ih]
  | swap x y l => simp only [qprod, List.foldr_cons]; ring
  | trans _ _ ih₁ ih₂ => exact ih₁.trans ih₂

theorem qsum_cons (a : Rat) (l : List Rat) : qsum (a :: l) = a + qsum l := rfl
theorem qprod_cons (a : Rat) (l : List Rat) : qprod (a :: l) = a * qprod l := rfl

/-! ### min, max: the least / greatest member -/

theorem qmin2_le_left (a b : Rat) : qmin2 a b ≤ a := by
  unfold qmin2; split
  · exact le_refl a
  · rename_i h; exact le_of_lt (not_le.mp h)

theorem qmin2_le_right (a b : Rat) : qmin2 a b ≤ b := by
  unfold qmin2; split
  · assumption
  · exact le_refl b

theorem qmin2_choice (a b : Rat) : qmin2 a b = a ∨ qmin2 a b = b := by
  unfold qmin2; split <;> simp

theorem le_qmax2_left (a b : Rat) : a ≤ qmax2 a b := by
  unfold qmax2; split
  · assumption
  · exact le_refl a

theorem le_qmax2_right (a b : Rat) : b ≤ qmax2 a b := by
  unfold qmax2; split
  · exact le_refl b
  · rename_i h; exact le_of_lt (not_le.mp h)

theorem qmax2_choice (a b : Rat) : qmax2 a b = a ∨ qmax2 a b = b := by
  unfold qmax2; split <;> simp

theorem foldl_qmin2_spec (xs : List Rat) (a : Rat) :
    (xs.foldl qmin2 a = a ∨ xs.foldl qmin2 a ∈ xs) ∧ xs.foldl qmin2 a ≤ a ∧
      ∀ x ∈ xs, xs.foldl qmin2 a ≤ x := by
  induction xs generalizing a with
  | nil => simp
  | cons b xs ih =>
    simp only [List.foldl_cons]
    obtain ⟨h1, h2, h3⟩ := ih (qmin2 a b)
    refine ⟨?_, le_trans h2 (qmin2_le_left a b), ?_⟩
    · rcases h1 with h1 | h1
      · rcases qmin2_choice a b with h | h
        · left; rw [h1, h]
        · right; rw [h1, h]; simp
      · right; exact List.mem_cons_of_mem _ h1
    · intro x hx
      rcases List.mem_cons.mp hx with rfl | hx
      · exact le_trans h2 (qmin2_le_right a x)
      · exact h3 x hx

theorem foldl_qmax2_spec (xs : List Rat) (a : Rat) :
    (xs.foldl qmax2 a = a ∨ xs.foldl qmax2 a ∈ xs) ∧ a ≤ xs.foldl qmax2 a ∧
      ∀ x ∈ xs, x ≤ xs.foldl qmax2 a := by
  induction xs generalizing a with
  | nil => simp
  | cons b xs ih =>
    simp only [List.foldl_cons]
    obtain ⟨h1, h2, h3⟩ := ih (qmax2 a b)
    refine ⟨?_, le_trans (le_qmax2_left a b) h2, ?_⟩
    · rcases h1 with h1 | h1
      · rcases qmax2_choice a b with h | h
        · left; rw [h1, h]
        · right; rw [h1, h]; simp
      · right; exact List.mem_cons_of_mem _ h1
    · intro x hx
      rcases List.mem_cons.mp hx with rfl | hx
      · exact le_trans (le_qmax2_right a x) h2
      · exact h3 x hx

/-- `np.min` of a row is its least member -/
theorem qmin_spec (l : List Rat) (m : Rat) :
    qmin l = some m ↔ m ∈ l ∧ ∀ x ∈ l, m ≤ x := by
  cases l with
  | nil => simp [qmin]
  | cons a xs =>
    obtain ⟨h1, h2, h3⟩ := foldl_qmin2_spec xs a
    simp only [qmin, Option.some.injEq]
    constructor
    · rintro rfl
      refine ⟨?_, ?_⟩
      · rcases h1 with h | h
        · rw [h]; simp
        · exact List.mem_cons_of_mem _ h
      · intro x hx
        rcases List.mem_cons.mp hx with rfl | hx
        · exact h2
        · exact h3 x hx
    · rintro ⟨hm, hle⟩
      apply le_antisymm
      · rcases List.mem_cons.mp hm with rfl | hm
        · exact h2
        · exact h3 m hm
      · apply hle
        rcases h1 with h | h
        · rw [h]; simp
        · exact List.mem_cons_of_mem _ h

/-- `np.max` of a row is its greatest member -/
theorem qmax_spec (l : List Rat) (m : Rat) :
    qmax l = some m ↔ m ∈ l ∧ ∀ x ∈ l, x ≤ m := by
  cases l with
  | nil => simp [qmax]
  | cons a xs =>
    obtain ⟨h1, h2, h3⟩ := foldl_qmax2_spec xs a
    simp only [qmax, Option.some.injEq]
    constructor
    · rintro rfl
      refine ⟨?_, ?_⟩
      · rcases h1 with h | h
        · rw [h]; simp
        · exact List.mem_cons_of_mem _ h
      · intro x hx
        rcases List.mem_cons.mp hx with rfl | hx
        · exact h2
        · exact h3 x hx
    · rintro ⟨hm, hle⟩
      apply le_antisymm
      · apply hle
        rcases h1 with h | h
        · rw [h]; simp
        · exact List.mem_cons_of_mem _ h
      · rcases List.mem_cons.mp hm with rfl | hm
        · exact h2
        · exact h3 m hm

theorem qmin_isSome (l : List Rat) (h : l ≠ []) : ∃ m, qmin l = some m := by
  cases l with
  | nil => exact absurd rfl h
  | cons a xs => exact ⟨_, rfl⟩

theorem qmax_isSome (l : List Rat) (h : l ≠ []) : ∃ m, qmax l = some m := by
  cases l with
  | nil => exact absurd rfl h
  | cons a xs => exact ⟨_, rfl⟩

theorem qmin_perm {l₁ l₂ : List Rat} (h : l₁.Perm l₂) : qmin l₁ = qmin l₂ := by
  by_cases h1 : l₁ = []
  · subst h1; rw [List.nil_perm.mp h]
  · have h2 : l₂ ≠ [] := fun e => h1 (by subst e; exact List.perm_nil.mp h)
    obtain ⟨m, hm⟩ := qmin_isSome l₁ h1
    rw [hm]; symm
    rw [qmin_spec]
    obtain ⟨a, b⟩ := (qmin_spec l₁ m).mp hm
    exact ⟨h.mem_iff.mp a, fun x hx => b x (h.mem_iff.mpr hx)⟩

theorem qmax_perm {l₁ l₂ : List Rat} (h : l₁.Perm l₂) : qmax l₁ = qmax l₂ := by
  by_cases h1 : l₁ = []
  · subst h1; rw [List.nil_perm.mp h]
  · have h2 : l₂ ≠ [] := fun e => h1 (by subst e; exact List.perm_nil.mp h)
    obtain ⟨m, hm⟩ := qmax_isSome l₁ h1
    rw [hm]; symm
    rw [qmax_spec]
    obtain ⟨a, b⟩ := (qmax_spec l₁ m).mp hm
    exact ⟨h.mem_iff.mp a, fun x hx => b x (h.mem_iff.mpr hx)⟩

/-! ### the sorted row (median) -/

theorem insertQ_perm (a : Rat) (l : List Rat) : (insertQ a l).Perm (a :: l) := by
  induction l with
  | nil => exact List.Perm.refl _
  | cons b l ih =>
    unfold insertQ; split
    · exact List.Perm.refl _
    · exact ((List.Perm.cons b ih).trans (List.Perm.swap a b l))

theorem sortQ_perm_self (l : List Rat) : (sortQ l).Perm l := by
  induction l with
  | nil => exact List.Perm.refl _
  | cons a l ih => exact (insertQ_perm a (sortQ l)).trans (List.Perm.cons a ih)

theorem insertQ_sorted (a : Rat) (l : List Rat) (h : l.Pairwise (· ≤ ·)) :
    (insertQ a l).Pairwise (· ≤ ·) := by
  induction l with
  | nil => simp [insertQ]
  | cons b l ih =>
    unfold insertQ; split
    · rename_i hab
      refine List.Pairwise.cons ?_ h
      intro x hx
      rcases List.mem_cons.mp hx with rfl | hx
      · exact hab
      · exact le_trans hab (List.rel_of_pairwise_cons h hx)
    · rename_i hab
      have hba : b ≤ a := le_of_lt (not_le.mp hab)
      refine List.Pairwise.cons ?_ (ih (List.Pairwise.of_cons h))
      intro x hx
      rcases List.mem_cons.mp ((insertQ_perm a l).mem_iff.mp hx) with rfl | hx
      · exact hba
      · exact List.rel_of_pairwise_cons h hx

theorem sortQ_sorted (l : List Rat) : (sortQ l).Pairwise (· ≤ ·) := by
  induction l with
  | nil => exact List.Pairwise.nil
  | cons a l ih => exact insertQ_sorted a _ ih

/-- the sorted row depends only on the multiset of the row -/
theorem sortQ_perm {l₁ l₂ : List Rat} (h : l₁.Perm l₂) : sortQ l₁ = sortQ l₂ :=
  List.Perm.eq_of_pairwise (fun _ _ _ _ h1 h2 => le_antisymm h1 h2) (sortQ_sorted l₁)
    (sortQ_sorted l₂) ((sortQ_perm_self l₁).trans (h.trans (sortQ_perm_self l₂).symm))

theorem sortQ_length (l : List Rat) : (sortQ l).length = l.length := (sortQ_perm_self l).length_eq

theorem qmedian_perm {l₁ l₂ : List Rat} (h : l₁.Perm l₂) : qmedian l₁ = qmedian l₂ := by
  unfold qmedian; rw [sortQ_perm h]

/-- the median is a member of the row (odd length) or the midpoint of two members -/
theorem qmedian_odd_mem (l : List Rat) (m : Rat) (hodd : l.length % 2 = 1)
    (h : qmedian l = some m) : m ∈ l := by
  unfold qmedian at h
  simp only [sortQ_length] at h
  have h0 : ¬ l.length = 0 := by omega
  simp only [h0, hodd, if_true, if_false] at h
  exact (sortQ_perm_self l).mem_iff.mp (List.mem_of_getElem? h)

/-! ### mean, variance -/

theorem qmean_perm {l₁ l₂ : List Rat} (h : l₁.Perm l₂) : qmean l₁ = qmean l₂ := by
  unfold qmean; rw [qsum_perm h, h.length_eq]

theorem qvar_perm (ddof : Nat) {l₁ l₂ : List Rat} (h : l₁.Perm l₂) :
    qvar ddof l₁ = qvar ddof l₂ := by
  unfold qvar
  rw [h.length_eq, qsum_perm h]
  simp only
  rw [qsum_perm (h.map _)]

/-! ### all, any -/

theorem all_perm {l₁ l₂ : List Rat} (p : Rat → Bool) (h : l₁.Perm l₂) : l₁.all p = l₂.all p := by
  rw [Bool.eq_iff_iff]
  simp only [List.all_eq_true]
  exact ⟨fun H x hx => H x (h.mem_iff.mpr hx), fun H x hx => H x (h.mem_iff.mp hx)⟩

theorem any_perm {l₁ l₂ : List Rat} (p : Rat → Bool) (h : l₁.Perm l₂) : l₁.any p = l₂.any p := by
  rw [Bool.eq_iff_iff]
  simp only [List.any_eq_true]
  exact ⟨fun ⟨x, hx, hp⟩ => ⟨x, h.mem_iff.mp hx, hp⟩, fun ⟨x, hx, hp⟩ => ⟨x, h.mem_iff.mpr hx, hp⟩⟩

/-! ### all ten -/

theorem core_perm (op : Red) (ddof : Nat) {l₁ l₂ : List Rat} (h : l₁.Perm l₂) :
    core op ddof l₁ = core op ddof l₂ := by
  cases op <;> simp only [core]
  · exact qmean_perm h
  · exact qmax_perm h
  · exact qmin_perm h
  · rw [qprod_perm h]
  · rw [qsum_perm h]
  · exact qvar_perm ddof h
  · exact qvar_perm ddof h
  · exact qmedian_perm h
  · rw [all_perm _ h]
  · rw [any_perm _ h]

theorem absSum_perm {l₁ l₂ : List Rat} (h : l₁.Perm l₂) : absSum l₁ = absSum l₂ :=
  qsum_perm (h.map _)

theorem tol_perm (op : Red) (ddof : Nat) {l₁ l₂ : List Rat} (h : l₁.Perm l₂) :
    tol op ddof l₁ = tol op ddof l₂ := by
  unfold tol
  rw [h.length_eq, absSum_perm h, qprod_perm h]

theorem accepts_perm (op : Red) (ddof : Nat) {l₁ l₂ : List Rat} (h : l₁.Perm l₂) (y : Rat) :
    accepts op ddof l₁ y = accepts op ddof l₂ y := by
  unfold accepts
  rw [core_perm op ddof h, tol_perm op ddof h]

/-! ### the rounding allowance is non-negative; the exact value is accepted -/

theorem qabs_nonneg (a : Rat) : 0 ≤ qabs a := by
  unfold qabs; split
  · assumption
  · rename_i h; linarith [not_le.mp h]

theorem qabs_zero : qabs 0 = 0 := by simp [qabs]

theorem qabs_le_zero {a : Rat} (h : qabs a ≤ 0) : a = 0 := by
  unfold qabs at h; split at h
  · linarith
  · rename_i h'; linarith [not_le.mp h']

theorem qsum_nonneg (l : List Rat) (h : ∀ x ∈ l, 0 ≤ x) : 0 ≤ qsum l := by
  induction l with
  | nil => simp [qsum]
  | cons a l ih =>
    rw [qsum_cons]
    have := ih (fun x hx => h x (List.mem_cons_of_mem _ hx))
    have := h a (by simp)
    linarith

theorem absSum_nonneg (l : List Rat) : 0 ≤ absSum l := by
  apply qsum_nonneg
  intro x hx
  obtain ⟨a, _, rfl⟩ := List.mem_map.mp hx
  exact qabs_nonneg a

theorem eps_pos : 0 < eps := by unfold eps; norm_num

theorem tol_nonneg (op : Red) (ddof : Nat) (row : List Rat) : 0 ≤ tol op ddof row := by
  have hA := absSum_nonneg row
  have he := le_of_lt eps_pos
  have hn : (0 : Rat) ≤ (row.length : Rat) := Nat.cast_nonneg _
  have hd : (0 : Rat) ≤ ((row.length - ddof : Nat) : Rat) := Nat.cast_nonneg _
  have hp := qabs_nonneg (qprod row)
  cases op <;> simp only [tol] <;> first | exact le_refl 0 | positivity

/-- the exact value of the reduction is never rejected: a rejection is a deviation beyond
    rounding -/
theorem accepts_of_isValue (op : Red) (ddof : Nat) (row : List Rat) (y : Rat)
    (h : IsValue op ddof row y) : accepts op ddof row y = true := by
  have ht := tol_nonneg op ddof row
  cases op <;> simp only [IsValue] at h
  case std =>
    obtain ⟨h0, hv⟩ := h
    simp only [accepts, hv, Bool.and_eq_true, decide_eq_true_eq]
    refine ⟨h0, ?_⟩
    have : y * y - y * y = 0 := by ring
    rw [this, qabs_zero]
    have := mul_nonneg h0 h0
    have := le_of_lt eps_pos
    positivity
  all_goals
    simp only [accepts, h, decide_eq_true_eq]
    have : y - y = 0 := by ring
    rw [this, qabs_zero]
    exact ht

/-- for the four exact reductions the judge accepts exactly the true value -/
theorem accepts_exact_iff (op : Red) (ddof : Nat) (row : List Rat) (y : Rat)
    (hop : op = .min ∨ op = .max ∨ op = .all ∨ op = .any) :
    accepts op ddof row y = true ↔ IsValue op ddof row y := by
  constructor
  · intro h
    rcases hop with rfl | rfl | rfl | rfl <;>
    · simp only [accepts, tol] at h
      simp only [IsValue]
      split at h
      · exact absurd h (by simp)
      · rename_i v hv
        rw [hv]
        have := qabs_le_zero (of_decide_eq_true h)
        congr 1; linarith
  · exact accepts_of_isValue op ddof row y

end UxVerif.Aggregate
