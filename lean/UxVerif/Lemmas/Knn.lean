/-
  Helper lemmas for C11 (core Lean only): the stable insertion sort is a sorted permutation,
  it commutes with order-preserving re-keying, slot bookkeeping of the tree cache.
-/
import UxVerif.Model.Knn

namespace UxVerif.Knn

variable {K : Type}

/-- the comparison is total -/
def Total (le : K → K → Bool) : Prop := ∀ a b, le a b = true ∨ le b a = true
/-- the comparison is transitive -/
def Trans (le : K → K → Bool) : Prop := ∀ a b c, le a b = true → le b c = true → le a c = true

/-- sorted by the first component -/
def SortedK (le : K → K → Bool) (l : List (K × Nat)) : Prop :=
  l.Pairwise (fun a b => le a.1 b.1 = true)

theorem insertBy_perm (le : K → K → Bool) (x : K × Nat) (l : List (K × Nat)) :
    (insertBy le x l).Perm (x :: l) := by
  induction l with
  | nil => exact List.Perm.refl _
  | cons y ys ih =>
    simp only [insertBy]
    split
    · exact List.Perm.refl _
    · exact (List.Perm.cons y ih).trans (List.Perm.swap x y ys)

theorem sortBy_cons (le : K → K → Bool) (a : K × Nat) (l : List (K × Nat)) :
    sortBy le (a :: l) = insertBy le a (sortBy le l) := rfl

theorem sortBy_perm (le : K → K → Bool) (l : List (K × Nat)) : (sortBy le l).Perm l := by
  induction l with
  | nil => exact List.Perm.refl _
  | cons a l ih =>
    rw [sortBy_cons]
    exact (insertBy_perm le a _).trans (List.Perm.cons a ih)

theorem insertBy_sorted {le : K → K → Bool} (htot : Total le) (htr : Trans le) (x : K × Nat)
    (l : List (K × Nat)) (h : SortedK le l) : SortedK le (insertBy le x l) := by
  induction l with
  | nil => simp [insertBy, SortedK]
  | cons y ys ih =>
    have hy := List.pairwise_cons.mp h
    simp only [insertBy]
    split
    · rename_i hxy
      refine List.pairwise_cons.mpr ⟨?_, h⟩
      intro z hz
      rcases List.mem_cons.mp hz with rfl | hz
      · exact hxy
      · exact htr _ _ _ hxy (hy.1 z hz)
    · rename_i hxy
      have hyx : le y.1 x.1 = true := by
        rcases htot x.1 y.1 with h1 | h1
        · exact absurd h1 hxy
        · exact h1
      refine List.pairwise_cons.mpr ⟨?_, ih hy.2⟩
      intro z hz
      rcases List.mem_cons.mp ((insertBy_perm le x ys).mem_iff.mp hz) with rfl | hz
      · exact hyx
      · exact hy.1 z hz

theorem sortBy_sorted {le : K → K → Bool} (htot : Total le) (htr : Trans le)
    (l : List (K × Nat)) : SortedK le (sortBy le l) := by
  induction l with
  | nil => exact List.Pairwise.nil
  | cons a l ih => rw [sortBy_cons]; exact insertBy_sorted htot htr a _ ih

/-! re-keying by a map that preserves the comparison on the keys that occur -/

theorem insertBy_map {K' : Type} (le : K → K → Bool) (le' : K' → K' → Bool) (f : K → K')
    (x : K × Nat) (s : List (K × Nat))
    (h : ∀ y ∈ s, le' (f x.1) (f y.1) = le x.1 y.1) :
    insertBy le' (f x.1, x.2) (s.map (fun p => (f p.1, p.2)))
      = (insertBy le x s).map (fun p => (f p.1, p.2)) := by
  induction s with
  | nil => rfl
  | cons y ys ih =>
    simp only [List.map_cons, insertBy]
    rw [h y (by simp)]
    split
    · simp
    · simp only [List.map_cons]
      rw [ih (fun z hz => h z (List.mem_cons_of_mem _ hz))]

theorem sortBy_map {K' : Type} (le : K → K → Bool) (le' : K' → K' → Bool) (f : K → K')
    (l : List (K × Nat))
    (h : ∀ x ∈ l, ∀ y ∈ l, le' (f x.1) (f y.1) = le x.1 y.1) :
    sortBy le' (l.map (fun p => (f p.1, p.2))) = (sortBy le l).map (fun p => (f p.1, p.2)) := by
  induction l with
  | nil => rfl
  | cons a l ih =>
    simp only [List.map_cons, sortBy_cons]
    rw [ih (fun x hx y hy => h x (List.mem_cons_of_mem _ hx) y (List.mem_cons_of_mem _ hy))]
    apply insertBy_map
    intro y hy
    exact h a (by simp) y (List.mem_cons_of_mem _ ((sortBy_perm le l).mem_iff.mp hy))

/-! Boolean `pairwiseB` reflects `List.Pairwise` -/

theorem pairwiseB_iff {α : Type} (R : α → α → Bool) (l : List α) :
    pairwiseB R l = true ↔ l.Pairwise (fun a b => R a b = true) := by
  induction l with
  | nil => simp [pairwiseB]
  | cons a l ih =>
    simp only [pairwiseB, Bool.and_eq_true, List.all_eq_true, List.pairwise_cons, ih]

/-! tree-cache slot bookkeeping -/

theorem slot_setSlot_same (t : TreeObj) (e : Elem) (b : Built) : (t.setSlot e b).slot e = some b := by
  cases e <;> rfl

theorem slot_setSlot_ne (t : TreeObj) (e e' : Elem) (b : Built) (h : e' ≠ e) :
    (t.setSlot e b).slot e' = t.slot e' := by
  cases e <;> cases e' <;> first | rfl | exact absurd rfl h

theorem setSlot_coords (t : TreeObj) (e : Elem) (b : Built) : (t.setSlot e b).coords = t.coords := by
  cases e <;> rfl
theorem setSlot_count (t : TreeObj) (e : Elem) (b : Built) : (t.setSlot e b).count = t.count := by
  cases e <;> rfl
theorem setSlot_sys (t : TreeObj) (e : Elem) (b : Built) : (t.setSlot e b).sys = t.sys := by
  cases e <;> rfl
theorem setSlot_metric (t : TreeObj) (e : Elem) (b : Built) : (t.setSlot e b).metric = t.metric := by
  cases e <;> rfl

end UxVerif.Knn
