/-
  Basic facts about the edge-face loop shared by `Props/C03.lean` and `Lemmas/C03Transport.lean`
  (moved here from `Props/C03.lean` so that the transport lemmas can be imported by it).
  Core Lean only.
-/
import UxVerif.Lemmas.Keyed

namespace UxVerif.C03
open UxVerif UxVerif.Incidence

theorem FILL_neg : FILL < 0 := by decide

theorem ofNat_ne_fill (k : Nat) : Int.ofNat k ≠ FILL := by
  have h := FILL_neg
  have : (0 : Int) ≤ Int.ofNat k := Int.natCast_nonneg k
  omega

theorem mem_efEvents (FE : Table) (N : List Nat) (e : Nat) (x : Int) :
    (e, x) ∈ efEvents FE N ↔ ∃ f, f < FE.length ∧ x = Int.ofNat f ∧
      ∃ y ∈ faceEdgesOf FE N f, y.toNat = e := by
  unfold efEvents
  simp only [List.mem_flatMap, List.mem_range, List.mem_map, Prod.mk.injEq]
  constructor
  · rintro ⟨f, hf, y, hy, h1, h2⟩
    exact ⟨f, hf, h2.symm, y, hy, h1⟩
  · rintro ⟨f, hf, h2, y, hy, h1⟩
    exact ⟨f, hf, y, hy, h1, h2.symm⟩

/-- under the precondition, the faces fed to edge `e` are exactly the faces having `e` -/
theorem mem_feed_ef {n : Nat} {t FE : Table} {N : List Nat} {nEdge : Nat}
    (h : Pre n t FE N nEdge) (e : Nat) (x : Int) :
    x ∈ feed (efEvents FE N) e ↔
      ∃ f, f < FE.length ∧ x = Int.ofNat f ∧ Int.ofNat e ∈ faceEdgesOf FE N f := by
  rw [mem_feed, mem_efEvents]
  constructor
  · rintro ⟨f, hf, hx, y, hy, hye⟩
    refine ⟨f, hf, hx, ?_⟩
    have hy0 := (h.2.1 f hf y hy).1
    have : y = Int.ofNat e := by
      have := Int.toNat_of_nonneg hy0; simp only [Int.ofNat_eq_natCast]; omega
    rw [← this]; exact hy
  · rintro ⟨f, hf, hx, hmem⟩
    exact ⟨f, hf, hx, Int.ofNat e, hmem, by simp⟩

theorem edgeFace_length (FE : Table) (N : List Nat) (nEdge : Nat) :
    (edgeFace FE N nEdge).length = nEdge := by
  unfold edgeFace; rw [keyedFold_length]; simp

theorem edgeFace_get (FE : Table) (N : List Nat) (nEdge e : Nat) (he : e < nEdge) :
    (edgeFace FE N nEdge).getD e (FILL, FILL)
      = (feed (efEvents FE N) e).foldl slotUpd (FILL, FILL) := by
  have : (edgeFace FE N nEdge)[e]? = some ((feed (efEvents FE N) e).foldl slotUpd (FILL, FILL)) := by
    unfold edgeFace
    rw [keyedFold_get]; simp [he]
  simp [List.getD, this]

theorem slot_one (a : Int) : [a].foldl slotUpd (FILL, FILL) = (a, FILL) := by
  simp [slotUpd]

theorem slot_two (a b : Int) (ha : a ≠ FILL) : [a, b].foldl slotUpd (FILL, FILL) = (a, b) := by
  simp [slotUpd, ha]

end UxVerif.C03
