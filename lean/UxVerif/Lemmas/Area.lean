/-
  Helper lemmas for C05 (areas): left-to-right sums, the fan of triangles, dot products under an
  orthogonal map, the closed form of the Jacobian's radicand.
-/
import Mathlib.Tactic.Ring
import Mathlib.Tactic.LinearCombination
import Mathlib.Tactic.Linarith
import Mathlib.Algebra.Order.Field.Basic
import UxVerif.Model.Area

namespace UxVerif.Area

/-! ### left-to-right sums -/
section sums
variable {K : Type} [AddCommMonoid K]

theorem sumFrom_eq (acc : K) (l : List K) : sumFrom acc l = acc + sumL l := by
  unfold sumL sumFrom
  induction l generalizing acc with
  | nil => simp
  | cons a l ih =>
    simp only [List.foldl_cons]
    rw [ih (acc + a), ih (0 + a), zero_add, add_assoc]

@[simp] theorem sumL_nil : sumL ([] : List K) = 0 := rfl

theorem sumL_cons (a : K) (l : List K) : sumL (a :: l) = a + sumL l := by
  show sumFrom (0 + a) l = _
  rw [sumFrom_eq, zero_add]

theorem sumL_append (l₁ l₂ : List K) : sumL (l₁ ++ l₂) = sumL l₁ + sumL l₂ := by
  induction l₁ with
  | nil => simp
  | cons a l ih => rw [List.cons_append, sumL_cons, sumL_cons, ih, add_assoc]

theorem sumL_flatMap {β : Type} (l : List β) (f : β → List K) :
    sumL (l.flatMap f) = sumL (l.map fun x => sumL (f x)) := by
  induction l with
  | nil => rfl
  | cons a l ih => rw [List.flatMap_cons, sumL_append, List.map_cons, sumL_cons, ih]

theorem sumL_map_zero {β : Type} (l : List β) (f : β → K) (h : ∀ x ∈ l, f x = 0) :
    sumL (l.map f) = 0 := by
  induction l with
  | nil => rfl
  | cons a l ih =>
    rw [List.map_cons, sumL_cons, h a (by simp), ih (fun x hx => h x (by simp [hx])), add_zero]

theorem sumL_zero (l : List K) (h : ∀ x ∈ l, x = 0) : sumL l = 0 := by
  have := sumL_map_zero l id (by simpa using h)
  simpa using this

end sums

section order
variable {K : Type} [Field K] [LinearOrder K] [IsStrictOrderedRing K]

theorem sumL_nonneg (l : List K) (h : ∀ x ∈ l, 0 ≤ x) : 0 ≤ sumL l := by
  induction l with
  | nil => simp
  | cons a l ih =>
    rw [sumL_cons]
    exact add_nonneg (h a (by simp)) (ih (fun x hx => h x (by simp [hx])))

/-- two sums whose addends are pairwise `ε`-close differ by at most `length · ε` -/
theorem sumL_map_close {β : Type} (l : List β) (f g : β → K) (ε : K)
    (h : ∀ x ∈ l, |f x - g x| ≤ ε) :
    |sumL (l.map f) - sumL (l.map g)| ≤ (l.length : K) * ε := by
  induction l with
  | nil => simp
  | cons a l ih =>
    rw [List.map_cons, List.map_cons, sumL_cons, sumL_cons]
    have h1 := h a (by simp)
    have h2 := ih (fun x hx => h x (by simp [hx]))
    have : f a + sumL (l.map f) - (g a + sumL (l.map g))
        = (f a - g a) + (sumL (l.map f) - sumL (l.map g)) := by ring
    rw [this]
    calc |(f a - g a) + (sumL (l.map f) - sumL (l.map g))|
        ≤ |f a - g a| + |sumL (l.map f) - sumL (l.map g)| := abs_add_le _ _
      _ ≤ ε + (l.length : K) * ε := add_le_add h1 h2
      _ = ((a :: l).length : K) * ε := by simp [List.length_cons]; ring

end order

/-! ### the fan of triangles -/
section fan
variable {α : Type}

theorem fanTris_cons3 (a b c : α) (r : List α) :
    fanTris (a :: b :: c :: r) = (a, b, c) :: fanTris (a :: c :: r) := by
  simp [fanTris]

@[simp] theorem fanTris_two (a b : α) : fanTris [a, b] = [] := by simp [fanTris]
@[simp] theorem fanTris_one (a : α) : fanTris [a] = [] := by simp [fanTris]

theorem fanTris_length (a b : α) (r : List α) : (fanTris (a :: b :: r)).length = r.length := by
  induction r generalizing b with
  | nil => simp
  | cons c r ih => rw [fanTris_cons3, List.length_cons, ih, List.length_cons]

theorem fanTris_map {β : Type} (f : α → β) (l : List α) :
    fanTris (l.map f) = (fanTris l).map fun t => (f t.1, f t.2.1, f t.2.2) := by
  cases l with
  | nil => rfl
  | cons a rest =>
    simp only [fanTris, List.map_cons, List.map_map]
    rw [← List.map_tail, List.zip_map, List.map_map]
    rfl

/-- every triangle of the fan has its three corners among the polygon's corners -/
theorem mem_fanTris {l : List α} {t : α × α × α} (h : t ∈ fanTris l) :
    t.1 ∈ l ∧ t.2.1 ∈ l ∧ t.2.2 ∈ l := by
  cases l with
  | nil => simp [fanTris] at h
  | cons a rest =>
    simp only [fanTris, List.mem_map] at h
    obtain ⟨bc, hbc, rfl⟩ := h
    have h1 := (List.of_mem_zip hbc).1
    have h2 := List.mem_of_mem_tail (List.of_mem_zip hbc).2
    simp [h1, h2]

variable {K : Type} [AddCommMonoid K]

theorem fan_cons3 (T : α → α → α → K) (a b c : α) (r : List α) :
    fan T (a :: b :: c :: r) = T a b c + fan T (a :: c :: r) := by
  unfold fan
  rw [fanTris_cons3, List.map_cons, sumL_cons]

@[simp] theorem fan_two (T : α → α → α → K) (a b : α) : fan T [a, b] = 0 := by simp [fan]

theorem fan_three (T : α → α → α → K) (a b c : α) : fan T [a, b, c] = T a b c := by
  rw [fan_cons3, fan_two, add_zero]

/-- peeling the LAST corner off a fan -/
theorem fan_snoc (T : α → α → α → K) (a : α) (l : List α) (x y : α) :
    fan T (a :: (l ++ [x, y])) = fan T (a :: (l ++ [x])) + T a x y := by
  induction l with
  | nil => simp [fan_three]
  | cons b l ih =>
    cases l with
    | nil =>
      simp only [List.cons_append, List.nil_append]
      rw [fan_cons3, fan_three, fan_three]
    | cons c l =>
      simp only [List.cons_append] at ih ⊢
      rw [fan_cons3, ih, fan_cons3, add_assoc]

/-- **additivity along a diagonal from the start corner** (exact, for ANY triangle functional,
    in particular for every quadrature rule): cutting the polygon `a, l₁…, d, l₂…` along the
    diagonal `a–d` gives two polygons whose fans add up to the fan of the whole. -/
theorem fan_split (T : α → α → α → K) (a d : α) (l₁ l₂ : List α) :
    fan T (a :: (l₁ ++ d :: l₂)) = fan T (a :: (l₁ ++ [d])) + fan T (a :: d :: l₂) := by
  induction l₁ with
  | nil => simp
  | cons b l ih =>
    cases l with
    | nil =>
      simp only [List.cons_append, List.nil_append]
      rw [fan_cons3, fan_three]
    | cons c l =>
      simp only [List.cons_append] at ih ⊢
      rw [fan_cons3, ih, fan_cons3, add_assoc]

end fan

/-! ### vectors, orthogonal maps -/
section vec
variable {K : Type} [Field K]

/-- a 3×3 matrix, row major -/
structure M3 (K : Type) where
  a11 : K
  a12 : K
  a13 : K
  a21 : K
  a22 : K
  a23 : K
  a31 : K
  a32 : K
  a33 : K

def M3.apply (R : M3 K) (v : V3 K) : V3 K :=
  ⟨R.a11 * v.x + R.a12 * v.y + R.a13 * v.z,
   R.a21 * v.x + R.a22 * v.y + R.a23 * v.z,
   R.a31 * v.x + R.a32 * v.y + R.a33 * v.z⟩

/-- `Rᵀ R = I` (rotations and reflections) -/
structure M3.Orthogonal (R : M3 K) : Prop where
  c11 : R.a11 * R.a11 + R.a21 * R.a21 + R.a31 * R.a31 = 1
  c22 : R.a12 * R.a12 + R.a22 * R.a22 + R.a32 * R.a32 = 1
  c33 : R.a13 * R.a13 + R.a23 * R.a23 + R.a33 * R.a33 = 1
  c12 : R.a11 * R.a12 + R.a21 * R.a22 + R.a31 * R.a32 = 0
  c13 : R.a11 * R.a13 + R.a21 * R.a23 + R.a31 * R.a33 = 0
  c23 : R.a12 * R.a13 + R.a22 * R.a23 + R.a32 * R.a33 = 0

/-- an orthogonal map preserves dot products -/
theorem dot_apply {R : M3 K} (h : R.Orthogonal) (u v : V3 K) :
    dot (R.apply u) (R.apply v) = dot u v := by
  simp only [dot, M3.apply]
  linear_combination (u.x * v.x) * h.c11 + (u.y * v.y) * h.c22 + (u.z * v.z) * h.c33
    + (u.x * v.y + u.y * v.x) * h.c12 + (u.x * v.z + u.z * v.x) * h.c13
    + (u.y * v.z + u.z * v.y) * h.c23

/-- the radicand of `jacCore` in terms of dot products only: with `s = F·F`, `ta = A·F`,
    `tb = B·F`, the projected tangents are `gₐ = s A − ta F`, `g_b = s B − tb F`, and
    `|gₐ × g_b|² = |gₐ|²|g_b|² − (gₐ·g_b)²` (Lagrange). -/
def radicand (s ta tb aa ab bb den : K) : K :=
  den ^ 4 * ((s ^ 2 * aa - s * ta ^ 2) * (s ^ 2 * bb - s * tb ^ 2) - (s ^ 2 * ab - s * ta * tb) ^ 2)

set_option maxRecDepth 20000 in
theorem jacCore_eq (sqrt : K → K) (F A B : V3 K) :
    jacCore sqrt F A B =
      sqrt (radicand (dot F F) (dot A F) (dot B F) (dot A A) (dot A B) (dot B B)
        (1 / sqrt (dot F F) * (1 / sqrt (dot F F)) * (1 / sqrt (dot F F)))) := by
  unfold jacCore radicand dot
  dsimp only
  congr 1
  ring

theorem jacCore_apply {R : M3 K} (h : R.Orthogonal) (sqrt : K → K) (F A B : V3 K) :
    jacCore sqrt (R.apply F) (R.apply A) (R.apply B) = jacCore sqrt F A B := by
  rw [jacCore_eq, jacCore_eq sqrt F A B]
  rw [dot_apply h, dot_apply h, dot_apply h, dot_apply h, dot_apply h, dot_apply h]

/-- planar input (all `z = 0`, what `dim = 2` feeds the Cartesian path): the radicand vanishes -/
theorem jacCore_planar (sqrt : K → K) (F A B : V3 K) (hF : F.z = 0) (hA : A.z = 0)
    (hB : B.z = 0) : jacCore sqrt F A B = sqrt 0 := by
  rw [jacCore_eq]
  congr 1
  unfold radicand dot
  rw [hF, hA, hB]
  ring

end vec

end UxVerif.Area
