/-
  C02, the ORDER of the derived edges: facts about strictly sorted lists used to show that the
  model of `np.unique(axis=0)` (`sortUniqBy pairLt` = sort + dedup) lists the edges in the
  lexicographic order of their sorted pairs, and that a strictly sorted list is determined by
  its members (so "same edge set + sorted" means "same edge NUMBERING").  Core Lean only.
-/
import UxVerif.Lemmas.SortUniq

namespace UxVerif
variable {α : Type}

instance (lt : α → α → Bool) (l : List α) : Decidable (SortedBy lt l) := by
  unfold SortedBy; infer_instance

/-- dropping rows (`edge_nodes_unique[non_fill_value_mask]`) keeps the order -/
theorem sortedBy_filter {lt : α → α → Bool} (p : α → Bool) {l : List α} (h : SortedBy lt l) :
    SortedBy lt (l.filter p) := List.Pairwise.filter p h

theorem StrictTotal.asymm {lt : α → α → Bool} (h : StrictTotal lt) {a b : α}
    (h1 : lt a b = true) (h2 : lt b a = true) : False := by
  have := h.trans a b a h1 h2
  rw [h.irrefl] at this
  cases this

/-- a strictly sorted list is determined by its set of members -/
theorem sortedBy_ext {lt : α → α → Bool} (h : StrictTotal lt) {l₁ l₂ : List α}
    (h1 : SortedBy lt l₁) (h2 : SortedBy lt l₂) (hm : ∀ a, a ∈ l₁ ↔ a ∈ l₂) : l₁ = l₂ := by
  induction l₁ generalizing l₂ with
  | nil =>
    cases l₂ with
    | nil => rfl
    | cons b l₂ => exact absurd ((hm b).mpr (by simp)) (by simp)
  | cons a l₁ ih =>
    cases l₂ with
    | nil => exact absurd ((hm a).mp (by simp)) (by simp)
    | cons b l₂ =>
      have p1 := List.pairwise_cons.mp h1
      have p2 := List.pairwise_cons.mp h2
      have hab : a = b := by
        rcases List.mem_cons.mp ((hm a).mp (by simp)) with e | ha
        · exact e
        · rcases List.mem_cons.mp ((hm b).mpr (by simp)) with e | hb
          · exact e.symm
          · exact (h.asymm (p1.1 b hb) (p2.1 a ha)).elim
      subst hab
      congr 1
      apply ih p1.2 p2.2
      intro x
      constructor
      · intro hx
        rcases List.mem_cons.mp ((hm x).mp (List.mem_cons_of_mem _ hx)) with e | hx2
        · subst e
          have := p1.1 x hx
          rw [h.irrefl] at this; cases this
        · exact hx2
      · intro hx
        rcases List.mem_cons.mp ((hm x).mpr (List.mem_cons_of_mem _ hx)) with e | hx1
        · subst e
          have := p2.1 x hx
          rw [h.irrefl] at this; cases this
        · exact hx1

/-- index form of sortedness: earlier position, smaller element -/
theorem sortedBy_getElem {lt : α → α → Bool} {l : List α} (h : SortedBy lt l)
    (i j : Nat) (hij : i < j) (hj : j < l.length) :
    lt (l[i]'(Nat.lt_trans hij hj)) l[j] = true :=
  (List.pairwise_iff_getElem.mp h) i j (Nat.lt_trans hij hj) hj hij

end UxVerif
