/-
  Lemmas about the reference heap of `Model/Heap.lean` (C19): reachability as a least closed set,
  frames, the general "modify one own cell and allocate" step, appends, relocated duplicates.
-/
import UxVerif.Model.Heap

namespace UxVerif.Heap

/-! ### reachability -/

/-- reachable cells lie in every set that contains the root and is closed under references -/
theorem reach_closed {h : Heap} {r : Nat} (S : Nat → Prop) (h0 : S r)
    (hs : ∀ a, S a → ∀ b ∈ succs h a, S b) : ∀ {x}, Reach h r x → S x := by
  intro x hx
  induction hx with
  | refl => exact h0
  | step _ hb ih => exact hs _ ih _ hb

theorem reach_trans {h : Heap} {r a x : Nat} (h1 : Reach h r a) (h2 : Reach h a x) : Reach h r x := by
  induction h2 with
  | refl => exact h1
  | step _ hb ih => exact Reach.step ih hb

theorem succs_lt {h : Heap} {a b : Nat} (hb : b ∈ succs h a) : a < h.length := by
  unfold succs at hb
  cases hc : h[a]? with
  | none => simp [hc] at hb
  | some c =>
    have := List.getElem?_eq_some_iff.mp hc
    exact this.1

theorem reach_lt {h : Heap} {r : Nat} (wf : WF h) (hr : r < h.length) :
    ∀ {x}, Reach h r x → x < h.length :=
  reach_closed (fun x => x < h.length) hr (fun a _ b hb => wf a b hb)

theorem succs_congr {h h' : Heap} {a : Nat} (e : h'[a]? = h[a]?) : succs h' a = succs h a := by
  unfold succs; rw [e]

/-- a frame preserves the reachable set -/
theorem frame_reach {h h' : Heap} {r : Nat} (fr : Frame h h' r) {x : Nat} :
    Reach h' r x ↔ Reach h r x := by
  constructor
  · intro hx
    refine reach_closed (h := h') (fun x => Reach h r x) Reach.refl ?_ hx
    intro a ha b hb
    rw [succs_congr (fr a ha)] at hb
    exact Reach.step ha hb
  · intro hx
    have : Reach h r x ∧ Reach h' r x := by
      refine reach_closed (h := h) (fun x => Reach h r x ∧ Reach h' r x) ⟨Reach.refl, Reach.refl⟩ ?_ hx
      intro a ha b hb
      refine ⟨Reach.step ha.1 hb, Reach.step ha.2 ?_⟩
      rw [succs_congr (fr a ha.1)]; exact hb
    exact this.2

theorem frame_refl (h : Heap) (r : Nat) : Frame h h r := fun _ _ => rfl

theorem frame_trans {h h1 h2 : Heap} {r : Nat} (f1 : Frame h h1 r) (f2 : Frame h1 h2 r) :
    Frame h h2 r := by
  intro x hx
  rw [f2 x ((frame_reach f1).mpr hx), f1 x hx]

theorem sep_symm {h : Heap} {r s : Nat} (sp : Sep h r s) : Sep h s r := fun x a b => sp x b a

/-! ### paths -/

theorem look_mem {k b : Nat} : ∀ {l : List (Nat × Nat)}, look k l = some b → (k, b) ∈ l
  | [], e => by simp [look] at e
  | (k', b') :: l, e => by
    unfold look at e
    split at e
    · next hk => cases e; subst hk; simp
    · exact List.mem_cons_of_mem _ (look_mem e)

theorem field_succs {h : Heap} {a k b : Nat} (e : field h a k = some b) : b ∈ succs h a := by
  unfold field at e
  unfold succs
  cases hc : h[a]? with
  | none => simp [hc] at e
  | some c =>
    simp only [hc] at e ⊢
    exact List.mem_map.mpr ⟨(k, b), look_mem e, rfl⟩

theorem follow_reach {h : Heap} : ∀ {p : Path} {r a : Nat}, follow h r p = some a → Reach h r a
  | [], r, a, e => by simp [follow] at e; subst e; exact Reach.refl
  | k :: p, r, a, e => by
    unfold follow at e
    cases hf : field h r k with
    | none => simp [hf] at e
    | some b =>
      simp only [hf] at e
      exact reach_trans (Reach.step Reach.refl (field_succs hf)) (follow_reach e)

theorem resolveKids_reach {h : Heap} {r : Nat} :
    ∀ {kids : List (Nat × Path)} {y : Nat}, y ∈ (resolveKids h r kids).map Prod.snd → Reach h r y
  | [], y, hy => by simp [resolveKids] at hy
  | (k, q) :: l, y, hy => by
    unfold resolveKids at hy
    cases hf : follow h r q with
    | none => simp only [hf] at hy; exact resolveKids_reach hy
    | some b =>
      simp only [hf, List.map_cons, List.mem_cons] at hy
      rcases hy with rfl | hy
      · exact follow_reach hf
      · exact resolveKids_reach hy

/-! ### the general own-cell update -/

/-- invariant of two live objects: no dangling references, valid roots, no shared cell -/
def Inv (h : Heap) (r s : Nat) : Prop := WF h ∧ r < h.length ∧ s < h.length ∧ Sep h r s

theorem inv_symm {h : Heap} {r s : Nat} (i : Inv h r s) : Inv h s r :=
  ⟨i.1, i.2.2.1, i.2.1, sep_symm i.2.2.2⟩

theorem getElem?_upd_low {h : Heap} {a x : Nat} {c' : Cell} {ext : List Cell}
    (hx : x < h.length) (hne : x ≠ a) : (upd h a c' ext)[x]? = h[x]? := by
  unfold upd
  rw [List.getElem?_append_left (by simpa using hx), List.getElem?_set]
  simp [Ne.symm hne]

theorem getElem?_upd_at {h : Heap} {a : Nat} {c' : Cell} {ext : List Cell}
    (ha : a < h.length) : (upd h a c' ext)[a]? = some c' := by
  unfold upd
  rw [List.getElem?_append_left (by simpa using ha), List.getElem?_set]
  simp [ha]

theorem getElem?_upd_high {h : Heap} {a x : Nat} {c' : Cell} {ext : List Cell}
    (hx : h.length ≤ x) : (upd h a c' ext)[x]? = ext[x - h.length]? := by
  unfold upd
  rw [List.getElem?_append_right (by simpa using hx)]
  simp

theorem length_upd {h : Heap} {a : Nat} {c' : Cell} {ext : List Cell} :
    (upd h a c' ext).length = h.length + ext.length := by simp [upd]

/-- what an own-cell update may introduce: references of the modified cell `a` (reachable from `r`)
    go to old targets, to cells reachable from `r`, or to freshly allocated cells; the allocated
    cells refer only to cells reachable from `r` or to freshly allocated ones. -/
structure OwnUpd (h : Heap) (r a : Nat) (c c' : Cell) (ext : List Cell) : Prop where
  reach : Reach h r a
  cell : h[a]? = some c
  refs : ∀ y ∈ c'.refs.map Prod.snd, y ∈ c.refs.map Prod.snd ∨ Reach h r y ∨
    (h.length ≤ y ∧ y < h.length + ext.length)
  ext : ∀ e ∈ ext, ∀ y ∈ e.refs.map Prod.snd, Reach h r y ∨ (h.length ≤ y ∧ y < h.length + ext.length)

theorem succs_upd_high {h : Heap} {a x : Nat} {c' : Cell} {ext : List Cell} (hx : h.length ≤ x)
    {y : Nat} (hy : y ∈ succs (upd h a c' ext) x) : ∃ e ∈ ext, y ∈ e.refs.map Prod.snd := by
  unfold succs at hy
  rw [getElem?_upd_high hx] at hy
  cases he : ext[x - h.length]? with
  | none => simp [he] at hy
  | some e =>
    simp only [he] at hy
    exact ⟨e, List.mem_of_getElem? he, hy⟩

/-- **one step**: an own-cell update by the object `r` leaves everything the separated object `s`
    can reach untouched, and keeps the two objects separated. -/
theorem ownUpd_preserves {h : Heap} {r s a : Nat} {c c' : Cell} {ext : List Cell}
    (inv : Inv h r s) (u : OwnUpd h r a c c' ext) :
    Frame h (upd h a c' ext) s ∧ Inv (upd h a c' ext) r s := by
  obtain ⟨wf, hr, hs, sp⟩ := inv
  have ha : a < h.length := (List.getElem?_eq_some_iff.mp u.cell).1
  have hsuccs_a : succs h a = c.refs.map Prod.snd := by unfold succs; rw [u.cell]
  -- frame for s
  have fr : Frame h (upd h a c' ext) s := by
    intro x hx
    have hxl : x < h.length := reach_lt wf hs hx
    have hne : x ≠ a := by
      intro e; subst e; exact sp x u.reach hx
    exact getElem?_upd_low hxl hne
  refine ⟨fr, ?_, ?_, ?_, ?_⟩
  · -- WF
    intro x y hy
    rw [length_upd]
    by_cases hxl : x < h.length
    · by_cases hxa : x = a
      · subst hxa
        have : y ∈ c'.refs.map Prod.snd := by
          unfold succs at hy; rw [getElem?_upd_at ha] at hy; exact hy
        rcases u.refs y this with h1 | h1 | h1
        · have := wf x y (by rw [hsuccs_a]; exact h1); omega
        · have := reach_lt wf hr h1; omega
        · exact h1.2
      · have : y ∈ succs h x := by
          rw [← succs_congr (getElem?_upd_low hxl hxa)]; exact hy
        have := wf x y this; omega
    · obtain ⟨e, he, hye⟩ := succs_upd_high (Nat.le_of_not_lt hxl) hy
      rcases u.ext e he y hye with h1 | h1
      · have := reach_lt wf hr h1; omega
      · exact h1.2
  · rw [length_upd]; omega
  · rw [length_upd]; omega
  · -- Sep
    intro x hxr hxs
    have hxs' : Reach h s x := (frame_reach fr).mp hxs
    have hxl : x < h.length := reach_lt wf hs hxs'
    have P : Reach h r x ∨ h.length ≤ x := by
      refine reach_closed (h := upd h a c' ext) (fun x => Reach h r x ∨ h.length ≤ x)
        (Or.inl Reach.refl) ?_ hxr
      intro z hz y hy
      by_cases hzl : z < h.length
      · have hz' : Reach h r z := by
          rcases hz with hz | hz
          · exact hz
          · omega
        by_cases hza : z = a
        · subst hza
          have : y ∈ c'.refs.map Prod.snd := by
            unfold succs at hy; rw [getElem?_upd_at ha] at hy; exact hy
          rcases u.refs y this with h1 | h1 | h1
          · exact Or.inl (Reach.step hz' (by rw [hsuccs_a]; exact h1))
          · exact Or.inl h1
          · exact Or.inr h1.1
        · have : y ∈ succs h z := by
            rw [← succs_congr (getElem?_upd_low hzl hza)]; exact hy
          exact Or.inl (Reach.step hz' this)
      · obtain ⟨e, he, hye⟩ := succs_upd_high (Nat.le_of_not_lt hzl) hy
        rcases u.ext e he y hye with h1 | h1
        · exact Or.inl h1
        · exact Or.inr h1.1
    rcases P with h1 | h1
    · exact sp x h1 hxs'
    · omega

/-! ### every action is an own-cell update -/

theorem mem_filter_snd {l : List (Nat × Nat)} {q : Nat × Nat → Bool} {y : Nat}
    (hy : y ∈ (l.filter q).map Prod.snd) : y ∈ l.map Prod.snd := by
  obtain ⟨p, hp, rfl⟩ := List.mem_map.mp hy
  exact List.mem_map.mpr ⟨p, (List.mem_filter.mp hp).1, rfl⟩

/-- **one action of the object `r`** leaves the separated object `s` untouched and separated -/
theorem act_preserves {h : Heap} {r s : Nat} (inv : Inv h r s) (act : Act) :
    Frame h (applyAct h r act) s ∧ Inv (applyAct h r act) r s := by
  have triv : Frame h h s ∧ Inv h r s := ⟨frame_refl h s, inv⟩
  cases act with
  | write p d =>
    cases hf : follow h r p with
    | none => simpa only [applyAct, hf] using triv
    | some a =>
      cases hc : h[a]? with
      | none => simpa only [applyAct, hf, hc] using triv
      | some c =>
        simp only [applyAct, hf, hc]
        refine ownUpd_preserves inv ⟨follow_reach hf, hc, ?_, ?_⟩
        · intro y hy; exact Or.inl hy
        · intro e he; simp at he
  | unlink p k =>
    cases hf : follow h r p with
    | none => simpa only [applyAct, hf] using triv
    | some a =>
      cases hc : h[a]? with
      | none => simpa only [applyAct, hf, hc] using triv
      | some c =>
        simp only [applyAct, hf, hc]
        refine ownUpd_preserves inv ⟨follow_reach hf, hc, ?_, ?_⟩
        · intro y hy; exact Or.inl (mem_filter_snd hy)
        · intro e he; simp at he
  | link p k q =>
    cases hf : follow h r p with
    | none => simpa only [applyAct, hf] using triv
    | some a =>
      cases hg : follow h r q with
      | none => simpa only [applyAct, hf, hg] using triv
      | some b =>
        cases hc : h[a]? with
        | none => simpa only [applyAct, hf, hg, hc] using triv
        | some c =>
          simp only [applyAct, hf, hg, hc]
          refine ownUpd_preserves inv ⟨follow_reach hf, hc, ?_, ?_⟩
          · intro y hy
            simp only [setRef, List.map_cons, List.mem_cons] at hy
            rcases hy with rfl | hy
            · exact Or.inr (Or.inl (follow_reach hg))
            · exact Or.inl (mem_filter_snd hy)
          · intro e he; simp at he
  | fresh p k d kids =>
    cases hf : follow h r p with
    | none => simpa only [applyAct, hf] using triv
    | some a =>
      cases hc : h[a]? with
      | none => simpa only [applyAct, hf, hc] using triv
      | some c =>
        simp only [applyAct, hf, hc]
        refine ownUpd_preserves inv ⟨follow_reach hf, hc, ?_, ?_⟩
        · intro y hy
          simp only [setRef, List.map_cons, List.mem_cons] at hy
          rcases hy with rfl | hy
          · exact Or.inr (Or.inr ⟨Nat.le_refl _, by simp⟩)
          · exact Or.inl (mem_filter_snd hy)
        · intro e he y hy
          simp only [List.mem_singleton] at he
          subst he
          exact Or.inl (resolveKids_reach hy)


/-! ### histories -/

/-- **any history of actions of the object `r`** leaves the separated object `s` untouched -/
theorem runActs_preserves {r s : Nat} : ∀ (acts : List Act) {h : Heap}, Inv h r s →
    Frame h (runActs h r acts) s ∧ Inv (runActs h r acts) r s
  | [], h, inv => ⟨frame_refl h s, inv⟩
  | a :: acts, h, inv => by
    obtain ⟨f1, i1⟩ := act_preserves inv a
    obtain ⟨f2, i2⟩ := runActs_preserves acts i1
    exact ⟨frame_trans f1 f2, i2⟩

/-- the invariant survives any interleaved history on the two objects -/
theorem runBoth_inv {r s : Nat} : ∀ (acts : List (Bool × Act)) {h : Heap}, Inv h r s →
    Inv (runBoth h r s acts) r s
  | [], _, inv => inv
  | a :: acts, h, inv => by
    have i1 : Inv (applyAct h (if a.1 then s else r) a.2) r s := by
      cases hb : a.1 with
      | false => simpa [hb] using (act_preserves inv a.2).2
      | true => simpa [hb] using inv_symm (act_preserves (inv_symm inv) a.2).2
    exact runBoth_inv acts i1

/-! ### allocation: low part unchanged, high part closed -/

def LowSame (h h' : Heap) : Prop := ∀ a, a < h.length → h'[a]? = h[a]?
def HighClosed (n : Nat) (h' : Heap) : Prop := ∀ a, n ≤ a → ∀ b ∈ succs h' a, n ≤ b

theorem lowSame_frame {h h' : Heap} {r : Nat} (wf : WF h) (hr : r < h.length) (ls : LowSame h h') :
    Frame h h' r := fun x hx => ls x (reach_lt wf hr hx)

theorem lowSame_append (h ext : Heap) : LowSame h (h ++ ext) :=
  fun _ ha => List.getElem?_append_left ha

theorem lowSame_trans {h h1 h2 : Heap} (a : LowSame h h1) (b : LowSame h1 h2)
    (hl : h.length ≤ h1.length) : LowSame h h2 :=
  fun x hx => by rw [b x (Nat.lt_of_lt_of_le hx hl), a x hx]

theorem high_reach {n r' : Nat} {h' : Heap} (hc : HighClosed n h') (hr : n ≤ r') :
    ∀ {x}, Reach h' r' x → n ≤ x :=
  reach_closed (fun x => n ≤ x) hr (fun a ha b hb => hc a ha b hb)

/-- an object allocated entirely above the old heap is separated from every old object -/
theorem alloc_sep {h h' : Heap} {r r' : Nat} (wf : WF h) (hr : r < h.length) (ls : LowSame h h')
    (hc : HighClosed h.length h') (hr' : h.length ≤ r') : Sep h' r r' := by
  intro x hx hx'
  have h1 : x < h.length := reach_lt wf hr ((frame_reach (lowSame_frame wf hr ls)).mp hx)
  have h2 : h.length ≤ x := high_reach hc hr' hx'
  omega

theorem succs_append_high {h1 ext : Heap} {a y : Nat} (ha : h1.length ≤ a)
    (hy : y ∈ succs (h1 ++ ext) a) : ∃ e ∈ ext, y ∈ e.refs.map Prod.snd := by
  unfold succs at hy
  rw [List.getElem?_append_right ha] at hy
  cases he : ext[a - h1.length]? with
  | none => simp [he] at hy
  | some e => simp only [he] at hy; exact ⟨e, List.mem_of_getElem? he, hy⟩

theorem highClosed_append {n : Nat} {h1 ext : Heap} (hc : HighClosed n h1)
    (he : ∀ e ∈ ext, ∀ y ∈ e.refs.map Prod.snd, n ≤ y) : HighClosed n (h1 ++ ext) := by
  intro a ha b hb
  by_cases hl : a < h1.length
  · rw [succs_congr (List.getElem?_append_left hl)] at hb
    exact hc a ha b hb
  · obtain ⟨e, hm, hy⟩ := succs_append_high (Nat.le_of_not_lt hl) hb
    exact he e hm b hy

theorem wf_append {h1 ext : Heap} (wf : WF h1)
    (he : ∀ e ∈ ext, ∀ y ∈ e.refs.map Prod.snd, y < h1.length + ext.length) : WF (h1 ++ ext) := by
  intro a b hb
  rw [List.length_append]
  by_cases hl : a < h1.length
  · rw [succs_congr (List.getElem?_append_left hl)] at hb
    have := wf a b hb; omega
  · obtain ⟨e, hm, hy⟩ := succs_append_high (Nat.le_of_not_lt hl) hb
    exact he e hm b hy

/-! ### the relocated duplicate -/

theorem dup_low {h : Heap} : LowSame h (dup h) := lowSame_append h _

theorem dup_high {h : Heap} (a : Nat) :
    (dup h)[a + h.length]? = (h[a]?).map (shiftCell h.length) := by
  unfold dup
  rw [List.getElem?_append_right (by omega)]
  simp

theorem length_dup {h : Heap} : (dup h).length = 2 * h.length := by simp [dup]; omega

theorem succs_dup_high {h : Heap} (a : Nat) :
    succs (dup h) (a + h.length) = (succs h a).map (· + h.length) := by
  unfold succs
  rw [dup_high]
  cases h[a]? with
  | none => simp
  | some c => simp [shiftCell, List.map_map, Function.comp_def]

theorem dup_highClosed {h : Heap} : HighClosed h.length (dup h) := by
  intro a ha b hb
  obtain ⟨a', rfl⟩ : ∃ a', a = a' + h.length := ⟨a - h.length, by omega⟩
  rw [succs_dup_high] at hb
  obtain ⟨y, _, rfl⟩ := List.mem_map.mp hb
  omega

theorem dup_wf {h : Heap} (wf : WF h) : WF (dup h) := by
  intro a b hb
  rw [length_dup]
  by_cases hl : a < h.length
  · rw [succs_congr (dup_low a hl)] at hb
    have := wf a b hb; omega
  · obtain ⟨a', rfl⟩ : ∃ a', a = a' + h.length := ⟨a - h.length, by omega⟩
    rw [succs_dup_high] at hb
    obtain ⟨y, hy, rfl⟩ := List.mem_map.mp hb
    have := wf a' y hy; omega

/-- the duplicate has the shape of the original: whatever `r` reaches, `r + n` reaches shifted -/
theorem dup_iso {h : Heap} {r : Nat} : ∀ {x}, Reach h r x → Reach (dup h) (r + h.length) (x + h.length) := by
  intro x hx
  induction hx with
  | refl => exact Reach.refl
  | step _ hb ih =>
    refine Reach.step ih ?_
    rw [succs_dup_high]
    exact List.mem_map.mpr ⟨_, hb, rfl⟩

/-! ### soundness of the checkers -/

theorem wfB_sound {h : Heap} (e : wfB h = true) : WF h := by
  intro a b hb
  unfold succs at hb
  cases hc : h[a]? with
  | none => simp [hc] at hb
  | some c =>
    simp only [hc] at hb
    obtain ⟨p, hp, rfl⟩ := List.mem_map.mp hb
    unfold wfB at e
    have h1 := List.all_eq_true.mp e c (List.mem_of_getElem? hc)
    have h2 := List.all_eq_true.mp h1 p hp
    exact of_decide_eq_true h2

theorem closedB_sound {h : Heap} {S : List Nat} {r : Nat} (e : closedB h S = true) (hr : r ∈ S) :
    ∀ {x}, Reach h r x → x ∈ S := by
  refine reach_closed (fun x => x ∈ S) hr ?_
  intro a ha b hb
  unfold closedB at e
  have h1 := List.all_eq_true.mp e a ha
  have h2 := List.all_eq_true.mp h1 b hb
  simpa using h2


/-! ### allocation of variables / datasets / grids -/

/-- what a block of freshly appended cells looks like, relative to a base `n0`:
    the result extends the heap; with no aliasing every reference of the block stays inside
    `[n0, new length)`; with valid aliases every reference is a valid address. -/
structure Ext (n0 : Nat) (h h' : Heap) (noAlias okAlias : Prop) : Prop where
  ext : ∃ ext, h' = h ++ ext ∧
    (noAlias → ∀ e ∈ ext, ∀ y ∈ e.refs.map Prod.snd, n0 ≤ y ∧ y < h'.length) ∧
    (okAlias → ∀ e ∈ ext, ∀ y ∈ e.refs.map Prod.snd, y < h'.length)

theorem allocVar_spec (n0 : Nat) (h : Heap) (v : VarSpec) (hn : n0 ≤ h.length) :
    Ext n0 h (allocVar h v).1 (v.alias = none) (∀ b, v.alias = some b → b < h.length) ∧
    n0 ≤ (allocVar h v).2 ∧ (allocVar h v).2 < (allocVar h v).1.length := by
  unfold allocVar
  cases ha : v.alias with
  | some b =>
    refine ⟨⟨⟨_, rfl, ?_, ?_⟩⟩, ?_, ?_⟩
    · intro hno; simp at hno
    · intro hok e he y hy
      have hb := hok b rfl
      simp only [List.mem_cons, List.not_mem_nil, or_false] at he
      rcases he with rfl | rfl
      · simp at hy
      · simp only [List.map_cons, List.map_nil, List.mem_cons, List.not_mem_nil, or_false] at hy
        simp only [List.length_append, List.length_cons, List.length_nil]
        rcases hy with rfl | rfl <;> omega
    · simp only []; omega
    · simp
  | none =>
    refine ⟨⟨⟨_, rfl, ?_, ?_⟩⟩, ?_, ?_⟩
    · intro _ e he y hy
      simp only [List.mem_cons, List.not_mem_nil, or_false] at he
      simp only [List.length_append, List.length_cons, List.length_nil]
      rcases he with rfl | rfl | rfl
      · simp at hy
      · simp at hy
      · simp only [List.map_cons, List.map_nil, List.mem_cons, List.not_mem_nil, or_false] at hy
        rcases hy with rfl | rfl <;> omega
    · intro _ e he y hy
      simp only [List.mem_cons, List.not_mem_nil, or_false] at he
      simp only [List.length_append, List.length_cons, List.length_nil]
      rcases he with rfl | rfl | rfl
      · simp at hy
      · simp at hy
      · simp only [List.map_cons, List.map_nil, List.mem_cons, List.not_mem_nil, or_false] at hy
        rcases hy with rfl | rfl <;> omega
    · simp only []; omega
    · simp

theorem ext_trans {n0 : Nat} {h h1 h2 : Heap} {A1 A2 B1 B2 : Prop}
    (e1 : Ext n0 h h1 A1 B1) (e2 : Ext n0 h1 h2 A2 B2) : Ext n0 h h2 (A1 ∧ A2) (B1 ∧ B2) := by
  obtain ⟨x1, rfl, a1, b1⟩ := e1.ext
  obtain ⟨x2, rfl, a2, b2⟩ := e2.ext
  refine ⟨⟨x1 ++ x2, by simp, ?_, ?_⟩⟩
  · intro hA e he y hy
    rcases List.mem_append.mp he with he | he
    · have := a1 hA.1 e he y hy
      simp only [List.length_append] at this ⊢; omega
    · exact a2 hA.2 e he y hy
  · intro hB e he y hy
    rcases List.mem_append.mp he with he | he
    · have := b1 hB.1 e he y hy
      simp only [List.length_append] at this ⊢; omega
    · exact b2 hB.2 e he y hy

theorem ext_length {n0 : Nat} {h h' : Heap} {A B : Prop} (e : Ext n0 h h' A B) : h.length ≤ h'.length := by
  obtain ⟨x, rfl, _, _⟩ := e.ext; simp

theorem allocVars_spec (n0 : Nat) : ∀ (vs : List VarSpec) (h : Heap), n0 ≤ h.length →
    Ext n0 h (allocVars h vs).1 (∀ v ∈ vs, v.alias = none)
      (∀ v ∈ vs, ∀ b, v.alias = some b → b < h.length) ∧
    ∀ p ∈ (allocVars h vs).2, n0 ≤ p.2 ∧ p.2 < (allocVars h vs).1.length
  | [], h, _ => by
    refine ⟨⟨⟨[], by simp [allocVars], ?_, ?_⟩⟩, ?_⟩ <;> simp [allocVars]
  | v :: vs, h, hn => by
    obtain ⟨e1, r1, r2⟩ := allocVar_spec n0 h v hn
    have hl := ext_length e1
    obtain ⟨e2, q⟩ := allocVars_spec n0 vs (allocVar h v).1 (Nat.le_trans hn hl)
    have hl2 := ext_length e2
    have e := ext_trans e1 e2
    refine ⟨⟨?_⟩, ?_⟩
    · obtain ⟨x, hx, a, b⟩ := e.ext
      refine ⟨x, by simpa [allocVars] using hx, ?_, ?_⟩
      · intro hA
        simp only [allocVars]
        exact a ⟨hA v (by simp), fun w hw => hA w (List.mem_cons_of_mem _ hw)⟩
      · intro hB
        simp only [allocVars]
        refine b ⟨hB v (by simp), fun w hw c hc => ?_⟩
        have := hB w (List.mem_cons_of_mem _ hw) c hc
        omega
    · intro p hp
      simp only [allocVars, List.mem_cons] at hp ⊢
      rcases hp with rfl | hp
      · simp only []; omega
      · exact q p hp

theorem allocDs_spec (n0 : Nat) (h : Heap) (vs : List VarSpec) (attrs : List Int) (hn : n0 ≤ h.length) :
    Ext n0 h (allocDs h vs attrs).1 (∀ v ∈ vs, v.alias = none)
      (∀ v ∈ vs, ∀ b, v.alias = some b → b < h.length) ∧
    n0 ≤ (allocDs h vs attrs).2 ∧ (allocDs h vs attrs).2 < (allocDs h vs attrs).1.length := by
  obtain ⟨e1, q⟩ := allocVars_spec n0 vs h hn
  have hl := ext_length e1
  have e2 : Ext n0 (allocVars h vs).1 (allocDs h vs attrs).1 True True := by
    refine ⟨⟨_, rfl, ?_, ?_⟩⟩
    · intro _ e he y hy
      simp only [List.mem_cons, List.not_mem_nil, or_false] at he
      simp only [allocDs, List.length_append, List.length_cons, List.length_nil]
      rcases he with rfl | rfl
      · simp at hy
      · simp only [List.map_cons, List.mem_cons] at hy
        rcases hy with rfl | hy
        · omega
        · obtain ⟨p, hp, rfl⟩ := List.mem_map.mp hy
          have := q p hp; omega
    · intro _ e he y hy
      simp only [List.mem_cons, List.not_mem_nil, or_false] at he
      simp only [allocDs, List.length_append, List.length_cons, List.length_nil]
      rcases he with rfl | rfl
      · simp at hy
      · simp only [List.map_cons, List.mem_cons] at hy
        rcases hy with rfl | hy
        · omega
        · obtain ⟨p, hp, rfl⟩ := List.mem_map.mp hy
          have := q p hp; omega
  have e := ext_trans e1 e2
  refine ⟨⟨?_⟩, ?_, ?_⟩
  · obtain ⟨x, hx, a, b⟩ := e.ext
    exact ⟨x, hx, fun hA => a ⟨hA, trivial⟩, fun hB => b ⟨hB, trivial⟩⟩
  · simp only [allocDs]; omega
  · simp [allocDs]

theorem allocGrid_spec (n0 : Nat) (h : Heap) (vs : List VarSpec) (attrs spec : List Int)
    (hn : n0 ≤ h.length) :
    Ext n0 h (allocGrid h vs attrs spec).1 (∀ v ∈ vs, v.alias = none)
      (∀ v ∈ vs, ∀ b, v.alias = some b → b < h.length) ∧
    n0 ≤ (allocGrid h vs attrs spec).2 ∧
    (allocGrid h vs attrs spec).2 < (allocGrid h vs attrs spec).1.length := by
  obtain ⟨e1, r1, r2⟩ := allocDs_spec n0 h vs attrs hn
  have hl := ext_length e1
  have e2 : Ext n0 (allocDs h vs attrs).1 (allocGrid h vs attrs spec).1 True True := by
    refine ⟨⟨_, rfl, ?_, ?_⟩⟩
    · intro _ e he y hy
      simp only [List.mem_cons, List.not_mem_nil, or_false] at he
      simp only [allocGrid, List.length_append, List.length_cons, List.length_nil]
      rcases he with rfl | rfl
      · simp at hy
      · simp only [List.map_cons, List.map_nil, List.mem_cons, List.not_mem_nil, or_false] at hy
        rcases hy with rfl | rfl <;> omega
    · intro _ e he y hy
      simp only [List.mem_cons, List.not_mem_nil, or_false] at he
      simp only [allocGrid, List.length_append, List.length_cons, List.length_nil]
      rcases he with rfl | rfl
      · simp at hy
      · simp only [List.map_cons, List.map_nil, List.mem_cons, List.not_mem_nil, or_false] at hy
        rcases hy with rfl | rfl <;> omega
  have e := ext_trans e1 e2
  refine ⟨⟨?_⟩, ?_, ?_⟩
  · obtain ⟨x, hx, a, b⟩ := e.ext
    exact ⟨x, hx, fun hA => a ⟨hA, trivial⟩, fun hB => b ⟨hB, trivial⟩⟩
  · simp only [allocGrid]; omega
  · simp [allocGrid]

/-- consequences of `Ext` used by the property theorems -/
theorem ext_lowSame {n0 : Nat} {h h' : Heap} {A B : Prop} (e : Ext n0 h h' A B) : LowSame h h' := by
  obtain ⟨x, rfl, _, _⟩ := e.ext; exact lowSame_append h x

theorem ext_wf {n0 : Nat} {h h' : Heap} {A B : Prop} (e : Ext n0 h h' A B) (hb : B) (wf : WF h) : WF h' := by
  obtain ⟨x, rfl, _, b⟩ := e.ext
  refine wf_append wf ?_
  intro c hc y hy
  simpa using b hb c hc y hy

theorem ext_highClosed {h h' : Heap} {A B : Prop} (e : Ext h.length h h' A B) (ha : A) :
    HighClosed h.length h' := by
  obtain ⟨x, rfl, a, _⟩ := e.ext
  intro c hc b hb
  obtain ⟨e', hm, hy⟩ := succs_append_high hc hb
  exact (a ha e' hm b hy).1


/-! ### actions that stay above a watermark never touch the cells below it

  Used for the shallow adoption `Grid(ds)`: the grid's own Dataset / Variable / attrs cells are
  allocated above the caller's objects; only array buffers are shared (zero-copy). -/

theorem length_applyAct_ge (h : Heap) (r : Nat) (act : Act) : h.length ≤ (applyAct h r act).length := by
  cases act <;> simp only [applyAct] <;> (repeat' split) <;> simp [upd]

theorem applyAct_low {h : Heap} {r n0 : Nat} (hn : n0 ≤ h.length) (act : Act)
    (ht : ∀ t, actTarget h r act = some t → n0 ≤ t) :
    ∀ a, a < n0 → (applyAct h r act)[a]? = h[a]? := by
  intro a ha
  have key : ∀ (t : Nat) (c' : Cell) (ext : List Cell), n0 ≤ t → (upd h t c' ext)[a]? = h[a]? :=
    fun t c' ext hge => getElem?_upd_low (by omega) (by omega)
  cases act with
  | write p d =>
    simp only [actTarget] at ht
    simp only [applyAct]
    split
    · next t hf => split
                   · exact key _ _ _ (ht t hf)
                   · rfl
    · rfl
  | unlink p k =>
    simp only [actTarget] at ht
    simp only [applyAct]
    split
    · next t hf => split
                   · exact key _ _ _ (ht t hf)
                   · rfl
    · rfl
  | link p k q =>
    simp only [actTarget] at ht
    simp only [applyAct]
    split
    · next t b hf _ => split
                       · exact key _ _ _ (ht t hf)
                       · rfl
    · rfl
  | fresh p k d kids =>
    simp only [actTarget] at ht
    simp only [applyAct]
    split
    · next t hf => split
                   · exact key _ _ _ (ht t hf)
                   · rfl
    · rfl

/-- **any history whose actions all modify cells at or above `n0`** leaves every cell below `n0` as it was -/
theorem runActs_lowSame {r n0 : Nat} : ∀ (acts : List Act) {h : Heap}, n0 ≤ h.length →
    HighTargets n0 r h acts → ∀ a, a < n0 → (runActs h r acts)[a]? = h[a]?
  | [], _, _, _, _, _ => rfl
  | act :: acts, h, hn, ht, a, ha => by
    have h1 := applyAct_low hn act ht.1 a ha
    have h2 := runActs_lowSame acts (Nat.le_trans hn (length_applyAct_ge h r act)) ht.2 a ha
    simp only [runActs, List.foldl_cons] at h2 ⊢
    rw [h2, h1]

theorem highTargetsB_sound {r n0 : Nat} : ∀ (acts : List Act) {h : Heap},
    highTargetsB n0 r h acts = true → HighTargets n0 r h acts
  | [], _, _ => trivial
  | act :: acts, h, e => by
    simp only [highTargetsB, Bool.and_eq_true] at e
    refine ⟨?_, highTargetsB_sound acts e.2⟩
    intro t ht
    rw [ht] at e
    exact of_decide_eq_true e.1


/-! ### clean actions: never through a data reference -/

theorem follow_clean_high {n0 : Nat} {h : Heap} (Q : DataOnlyLow n0 h) :
    ∀ {p : Path} {a t : Nat}, n0 ≤ a → cleanPath p → follow h a p = some t → n0 ≤ t
  | [], a, t, ha, _, e => by simp [follow] at e; omega
  | k :: p, a, t, ha, cl, e => by
    unfold follow at e
    cases hf : field h a k with
    | none => simp [hf] at e
    | some b =>
      simp only [hf] at e
      have hb : n0 ≤ b := by
        unfold field at hf
        cases hc : h[a]? with
        | none => simp [hc] at hf
        | some c =>
          simp only [hc] at hf
          exact Q a c ha hc (k, b) (look_mem hf) (cl k (by simp))
      exact follow_clean_high Q hb (fun k' hk' => cl k' (List.mem_cons_of_mem _ hk')) e

theorem resolveKids_mem {h : Heap} {r : Nat} :
    ∀ {kids : List (Nat × Path)} {p : Nat × Nat}, p ∈ resolveKids h r kids →
      ∃ q, (p.1, q) ∈ kids ∧ follow h r q = some p.2
  | [], p, hp => by simp [resolveKids] at hp
  | (k, q) :: l, p, hp => by
    unfold resolveKids at hp
    cases hf : follow h r q with
    | none =>
      simp only [hf] at hp
      obtain ⟨q', hm, e⟩ := resolveKids_mem hp
      exact ⟨q', List.mem_cons_of_mem _ hm, e⟩
    | some b =>
      simp only [hf, List.mem_cons] at hp
      rcases hp with rfl | hp
      · exact ⟨q, by simp, hf⟩
      · obtain ⟨q', hm, e⟩ := resolveKids_mem hp
        exact ⟨q', List.mem_cons_of_mem _ hm, e⟩

theorem dataOnlyLow_upd {n0 t : Nat} {h : Heap} {c c' : Cell} {ext : List Cell} (Q : DataOnlyLow n0 h)
    (hc : h[t]? = some c) (h1 : ∀ p ∈ c'.refs, p.1 ≠ kData → n0 ≤ p.2)
    (h2 : ∀ e ∈ ext, ∀ p ∈ e.refs, p.1 ≠ kData → n0 ≤ p.2) : DataOnlyLow n0 (upd h t c' ext) := by
  have ht : t < h.length := (List.getElem?_eq_some_iff.mp hc).1
  intro a ca ha hca p hp hk
  by_cases hl : a < h.length
  · by_cases hat : a = t
    · subst hat
      rw [getElem?_upd_at ht] at hca
      cases hca
      exact h1 p hp hk
    · rw [getElem?_upd_low hl hat] at hca
      exact Q a ca ha hca p hp hk
  · rw [getElem?_upd_high (Nat.le_of_not_lt hl)] at hca
    exact h2 ca (List.mem_of_getElem? hca) p hp hk

/-- a clean action of an object rooted at or above `n0` modifies a cell at or above `n0` and keeps
    the "only data references point below" shape -/
theorem cleanAct_preserves {n0 r : Nat} {h : Heap} (Q : DataOnlyLow n0 h) (hr : n0 ≤ r)
    (act : Act) (cl : CleanAct act) :
    (∀ t, actTarget h r act = some t → n0 ≤ t) ∧ DataOnlyLow n0 (applyAct h r act) := by
  cases act with
  | write p d =>
    have tg : ∀ t, follow h r p = some t → n0 ≤ t := fun t e => follow_clean_high Q hr cl e
    refine ⟨tg, ?_⟩
    cases hf : follow h r p with
    | none => simpa only [applyAct, hf] using Q
    | some t =>
      cases hc : h[t]? with
      | none => simpa only [applyAct, hf, hc] using Q
      | some c =>
        simp only [applyAct, hf, hc]
        exact dataOnlyLow_upd Q hc (fun p hp hk => Q t c (tg t hf) hc p hp hk) (by intro e he; simp at he)
  | unlink p k =>
    have tg : ∀ t, follow h r p = some t → n0 ≤ t := fun t e => follow_clean_high Q hr cl e
    refine ⟨tg, ?_⟩
    cases hf : follow h r p with
    | none => simpa only [applyAct, hf] using Q
    | some t =>
      cases hc : h[t]? with
      | none => simpa only [applyAct, hf, hc] using Q
      | some c =>
        simp only [applyAct, hf, hc]
        refine dataOnlyLow_upd Q hc ?_ (by intro e he; simp at he)
        intro p hp hk
        exact Q t c (tg t hf) hc p (List.mem_filter.mp hp).1 hk
  | link p k q =>
    have tg : ∀ t, follow h r p = some t → n0 ≤ t := fun t e => follow_clean_high Q hr cl.1 e
    refine ⟨tg, ?_⟩
    cases hf : follow h r p with
    | none => simpa only [applyAct, hf] using Q
    | some t =>
      cases hg : follow h r q with
      | none => simpa only [applyAct, hf, hg] using Q
      | some b =>
        cases hc : h[t]? with
        | none => simpa only [applyAct, hf, hg, hc] using Q
        | some c =>
          simp only [applyAct, hf, hg, hc]
          refine dataOnlyLow_upd Q hc ?_ (by intro e he; simp at he)
          intro p hp hk
          simp only [setRef, List.mem_cons] at hp
          rcases hp with rfl | hp
          · exact follow_clean_high Q hr (cl.2 hk) hg
          · exact Q t c (tg t hf) hc p (List.mem_filter.mp hp).1 hk
  | fresh p k d kids =>
    have tg : ∀ t, follow h r p = some t → n0 ≤ t := fun t e => follow_clean_high Q hr cl.1 e
    refine ⟨tg, ?_⟩
    cases hf : follow h r p with
    | none => simpa only [applyAct, hf] using Q
    | some t =>
      cases hc : h[t]? with
      | none => simpa only [applyAct, hf, hc] using Q
      | some c =>
        simp only [applyAct, hf, hc]
        have ht : t < h.length := (List.getElem?_eq_some_iff.mp hc).1
        refine dataOnlyLow_upd Q hc ?_ ?_
        · intro p hp hk
          simp only [setRef, List.mem_cons] at hp
          rcases hp with rfl | hp
          · have := tg t hf; simp only []; omega
          · exact Q t c (tg t hf) hc p (List.mem_filter.mp hp).1 hk
        · intro e he p hp hk
          simp only [List.mem_singleton] at he
          subst he
          obtain ⟨q, hm, e⟩ := resolveKids_mem hp
          exact follow_clean_high Q hr (cl.2 (p.1, q) hm hk) e

/-- **any history of clean actions** modifies only cells at or above `n0` -/
theorem runActs_clean {n0 r : Nat} (hr : n0 ≤ r) : ∀ (acts : List Act) {h : Heap}, DataOnlyLow n0 h →
    (∀ a ∈ acts, CleanAct a) → HighTargets n0 r h acts ∧ DataOnlyLow n0 (runActs h r acts)
  | [], _, Q, _ => ⟨trivial, Q⟩
  | act :: acts, h, Q, cl => by
    obtain ⟨t1, Q1⟩ := cleanAct_preserves Q hr act (cl act (by simp))
    obtain ⟨t2, Q2⟩ := runActs_clean hr acts Q1 (fun a ha => cl a (List.mem_cons_of_mem _ ha))
    exact ⟨⟨t1, t2⟩, by simpa only [runActs, List.foldl_cons] using Q2⟩

/-! ### the freshly allocated grid refers below only through data references -/

def RefsOK (n0 : Nat) (ext : List Cell) : Prop := ∀ e ∈ ext, ∀ p ∈ e.refs, p.1 ≠ kData → n0 ≤ p.2

theorem refsOK_append {n0 : Nat} {a b : List Cell} (ha : RefsOK n0 a) (hb : RefsOK n0 b) : RefsOK n0 (a ++ b) := by
  intro e he
  rcases List.mem_append.mp he with h | h
  · exact ha e h
  · exact hb e h

theorem allocVar_refsOK (n0 : Nat) (h : Heap) (v : VarSpec) (hn : n0 ≤ h.length) :
    ∃ ext, (allocVar h v).1 = h ++ ext ∧ RefsOK n0 ext := by
  unfold allocVar
  cases v.alias with
  | some b =>
    refine ⟨_, rfl, ?_⟩
    intro e he p hp hk
    simp only [List.mem_cons, List.not_mem_nil, or_false] at he
    rcases he with rfl | rfl
    · simp at hp
    · simp only [List.mem_cons, List.not_mem_nil, or_false] at hp
      rcases hp with rfl | rfl
      · simp only []; omega
      · exact absurd rfl hk
  | none =>
    refine ⟨_, rfl, ?_⟩
    intro e he p hp hk
    simp only [List.mem_cons, List.not_mem_nil, or_false] at he
    rcases he with rfl | rfl | rfl
    · simp at hp
    · simp at hp
    · simp only [List.mem_cons, List.not_mem_nil, or_false] at hp
      rcases hp with rfl | rfl
      · simp only []; omega
      · exact absurd rfl hk

theorem allocVars_refsOK (n0 : Nat) : ∀ (vs : List VarSpec) (h : Heap), n0 ≤ h.length →
    ∃ ext, (allocVars h vs).1 = h ++ ext ∧ RefsOK n0 ext
  | [], h, _ => ⟨[], by simp [allocVars], by intro e he; simp at he⟩
  | v :: vs, h, hn => by
    obtain ⟨x1, e1, r1⟩ := allocVar_refsOK n0 h v hn
    obtain ⟨x2, e2, r2⟩ := allocVars_refsOK n0 vs (allocVar h v).1 (by rw [e1]; simp; omega)
    refine ⟨x1 ++ x2, ?_, refsOK_append r1 r2⟩
    simp only [allocVars]
    rw [e2, e1, List.append_assoc]

theorem allocGrid_refsOK (h : Heap) (vs : List VarSpec) (attrs spec : List Int) :
    ∃ ext, (allocGrid h vs attrs spec).1 = h ++ ext ∧ RefsOK h.length ext := by
  obtain ⟨x, e, r⟩ := allocVars_refsOK h.length vs h (Nat.le_refl _)
  obtain ⟨_, q⟩ := allocVars_spec h.length vs h (Nat.le_refl _)
  refine ⟨x ++ [⟨attrs, []⟩, ⟨[], (kAttrs, (allocVars h vs).1.length) :: (allocVars h vs).2⟩] ++
    [⟨[], []⟩, ⟨spec, [(kDs, (allocVars h vs).1.length + 1), (kDims, (allocVars h vs).1.length + 2)]⟩], ?_, ?_⟩
  · simp only [allocGrid, allocDs]
    rw [e]
    simp [List.append_assoc]
    omega
  · have hl : h.length ≤ (allocVars h vs).1.length := by rw [e]; simp
    refine refsOK_append (refsOK_append r ?_) ?_
    · intro c hc p hp _
      simp only [List.mem_cons, List.not_mem_nil, or_false] at hc
      rcases hc with rfl | rfl
      · simp at hp
      · simp only [List.mem_cons] at hp
        rcases hp with rfl | hp
        · exact hl
        · exact (q p hp).1
    · intro c hc p hp _
      simp only [List.mem_cons, List.not_mem_nil, or_false] at hc
      rcases hc with rfl | rfl
      · simp at hp
      · simp only [List.mem_cons, List.not_mem_nil, or_false] at hp
        rcases hp with rfl | rfl <;> (simp only []; omega)

theorem allocGrid_dataOnlyLow (h : Heap) (vs : List VarSpec) (attrs spec : List Int) :
    DataOnlyLow h.length (allocGrid h vs attrs spec).1 := by
  obtain ⟨ext, e, r⟩ := allocGrid_refsOK h vs attrs spec
  intro a c ha hc p hp hk
  rw [e, List.getElem?_append_right ha] at hc
  exact r c (List.mem_of_getElem? hc) p hp hk

end UxVerif.Heap
