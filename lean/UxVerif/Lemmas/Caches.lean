/-
  C08 — the memoisation theorem behind "reading never changes what a grid reports".

  For EVERY population table `T` and source signature `sig` passing the decidable check `wfB`,
  the lazily populated store is a sound memo of the pure recursion `fresh`:

    `getV_sound` : from any store satisfying `Inv` (every stored entry is its reference value,
    supplied variables are present, units are closed), a getter returns `fr v`, leaves the module
    globals alone, only ADDS entries, and re-establishes `Inv`.

  Core Lean only.
-/
import UxVerif.Model.Caches

namespace UxVerif.Caches

theorem Var.mem_all (v : Var) : v ∈ Var.all := by
  cases v <;> simp [Var.all]

/-! ## well-formedness as propositions -/

structure WF (T : Table) (sig : Var → Bool) : Prop where
  own : ∀ v w, w ∈ (T.unitOf v).writes → T.unitOf w.var = T.unitOf v
  rank : ∀ v w, w ∈ (T.unitOf v).writes → T.rk w.var = T.rk v
  plain : ∀ v w, w ∈ (T.unitOf v).writes → w.force = false ∧ w.leak = false ∧ w.ranged = true ∧ w.drops = []
  side : ∀ v w, w ∈ (T.unitOf v).writes → w.withSide = T.sided w.var
  guards : ∀ v w, w ∈ (T.unitOf v).writes → ∀ c ∈ w.guard, condOwn T v c = true
  args : ∀ v w, w ∈ (T.unitOf v).writes → ∀ a ∈ w.args, argOK T v w a = true
  some : ∀ v, sig v = false → ∃ w ∈ (T.unitOf v).writes, applicable T sig v w = true
  reads : ∀ v, sig v = false → ∀ r ∈ (T.unitOf v).reads, sig r = true ∨ T.rk r < T.rk v

theorem wf_of_wfB {T : Table} {sig : Var → Bool} (h : wfB T sig = true) : WF T sig := by
  have hv : ∀ v, wfVar T sig v = true := by
    intro v
    exact (List.all_eq_true.mp h) v (Var.mem_all v)
  have hw : ∀ v w, w ∈ (T.unitOf v).writes →
      (T.unitOf w.var == T.unitOf v && T.rk w.var == T.rk v && !w.force && !w.leak && w.ranged
        && w.drops.isEmpty && w.withSide == T.sided w.var && w.guard.all (condOwn T v) && w.args.all (argOK T v w)) = true := by
    intro v w hmem
    have := hv v
    simp only [wfVar, Bool.and_eq_true] at this
    exact (List.all_eq_true.mp this.1) w hmem
  refine ⟨?_, ?_, ?_, ?_, ?_, ?_, ?_, ?_⟩
  · intro v w hm; have := hw v w hm; simp only [Bool.and_eq_true, beq_iff_eq] at this; exact this.1.1.1.1.1.1.1.1
  · intro v w hm; have := hw v w hm; simp only [Bool.and_eq_true, beq_iff_eq] at this; exact this.1.1.1.1.1.1.1.2
  · intro v w hm; have := hw v w hm
    simp only [Bool.and_eq_true, beq_iff_eq, Bool.not_eq_true', List.isEmpty_iff] at this
    exact ⟨this.1.1.1.1.1.1.2, this.1.1.1.1.1.2, this.1.1.1.1.2, this.1.1.1.2⟩
  · intro v w hm; have := hw v w hm; simp only [Bool.and_eq_true, beq_iff_eq] at this; exact this.1.1.2
  · intro v w hm c hc; have := hw v w hm; simp only [Bool.and_eq_true] at this
    exact (List.all_eq_true.mp this.1.2) c hc
  · intro v w hm a ha; have := hw v w hm; simp only [Bool.and_eq_true] at this
    exact (List.all_eq_true.mp this.2) a ha
  · intro v hs
    have := hv v
    simp only [wfVar, Bool.and_eq_true, Bool.or_eq_true, hs] at this
    rcases this.2 with h | h
    · exact absurd h (by simp)
    · obtain ⟨w, hw1, hw2⟩ := List.any_eq_true.mp h.1
      exact ⟨w, hw1, hw2⟩
  · intro v hs r hr
    have := hv v
    simp only [wfVar, Bool.and_eq_true, Bool.or_eq_true, hs] at this
    rcases this.2 with h | h
    · exact absurd h (by simp)
    · have := (List.all_eq_true.mp h.2) r hr
      simpa using this

/-! ## the invariant -/

def sideExp (T : Table) (sig : Var → Bool) (s : Nat) (v : Var) : Option Term :=
  if !sig v && T.sided v then some (fr T sig s v) else none

structure Inv (T : Table) (sig : Var → Bool) (s : Nat) (st : Store) : Prop where
  srcp : ∀ v, sig v = true → (st v).isSome = true
  sound : ∀ v e, st v = some e → e.val = fr T sig s v ∧ e.ranged = true ∧ e.side = sideExp T sig s v
  closed : ∀ v, (st v).isSome = true → sig v = false → ∀ w ∈ (T.unitOf v).writes,
      w.guard.all (staticCond T sig) = true → (st w.var).isSome = true

/-- the store only grows, and what is there stays as it is -/
def Le (a b : Store) : Prop := ∀ v e, a v = some e → b v = some e

theorem Le.refl (a : Store) : Le a a := fun _ _ h => h
theorem Le.trans {a b c : Store} (h1 : Le a b) (h2 : Le b c) : Le a c := fun v e h => h2 v e (h1 v e h)

theorem Le.isSome {a b : Store} (h : Le a b) {v : Var} (hv : (a v).isSome = true) : (b v).isSome = true := by
  cases hav : a v with
  | none => simp [hav] at hv
  | some e => simp [h v e hav]

theorem wrapAll_id {T : Table} {sig : Var → Bool} {s : Nat} {st : Store} (h : Inv T sig s st) :
    wrapAll st = st := by
  funext v
  unfold wrapAll
  split
  · cases hv : st v with
    | none => rfl
    | some e =>
      have := (h.sound v e hv).2.1
      cases e with
      | mk val side ranged chunked =>
        simp only at this
        subst this
        rfl
  · rfl

/-! ## the reference recursion does not depend on the fuel -/

theorem fresh_src {T : Table} {sig : Var → Bool} {s n : Nat} {v : Var} (h : sig v = true) :
    fresh T sig s n v = .src s v := by
  cases n <;> simp [fresh, h]

theorem fresh_succ {T : Table} {sig : Var → Bool} {s n : Nat} {v : Var} (h : sig v = false) :
    fresh T sig s (n + 1) v =
      match (T.unitOf v).writes.find? (applicable T sig v) with
      | none => .bad
      | some w => mkApp w.fn (w.args.map (fun a => fresh T sig s n a.var)) := by
  rw [fresh]; simp only [h, Bool.false_eq_true, ↓reduceIte]
  cases (T.unitOf v).writes.find? (applicable T sig v) <;> rfl

theorem argOK_cases {T : Table} {sig : Var → Bool} {v : Var} {w : Write} {a : Arg}
    (hok : argOK T v w a = true) (hg : w.guard.all (staticCond T sig) = true) :
    a.var ∈ (T.unitOf v).reads ∨ sig a.var = true := by
  cases a with
  | val x =>
    simp only [argOK, Bool.or_eq_true, List.contains_iff_mem] at hok
    rcases hok with h | h
    · exact Or.inl h
    · right
      have := (List.all_eq_true.mp hg) _ h
      simpa [staticCond, Arg.var] using this
  | side x =>
    simp only [argOK, Bool.and_eq_true, List.contains_iff_mem] at hok
    exact Or.inl hok.1

theorem fresh_stable {T : Table} {sig : Var → Bool} (s : Nat) (wf : WF T sig) :
    ∀ n m v, (sig v = true ∨ T.rk v < n) → (sig v = true ∨ T.rk v < m) →
      fresh T sig s n v = fresh T sig s m v := by
  intro n
  induction n with
  | zero =>
    intro m v h1 h2
    rcases h1 with h1 | h1
    · rw [fresh_src h1, fresh_src h1]
    · omega
  | succ n ih =>
    intro m v h1 h2
    cases hs : sig v with
    | true => rw [fresh_src hs, fresh_src hs]
    | false =>
      have h1' : T.rk v < n + 1 := by
        rcases h1 with h | h
        · simp [hs] at h
        · exact h
      have h2' : T.rk v < m := by
        rcases h2 with h | h
        · simp [hs] at h
        · exact h
      obtain ⟨m', rfl⟩ : ∃ m', m = m' + 1 := ⟨m - 1, by omega⟩
      rw [fresh_succ hs, fresh_succ hs]
      cases hf : (T.unitOf v).writes.find? (applicable T sig v) with
      | none => rfl
      | some w =>
        simp only
        congr 1
        apply List.map_congr_left
        intro a ha
        have hwm : w ∈ (T.unitOf v).writes := List.mem_of_find?_eq_some hf
        have happ := List.find?_some hf
        simp only [applicable, Bool.and_eq_true, beq_iff_eq] at happ
        have hok := wf.args v w hwm a ha
        rcases argOK_cases hok happ.2 with hr | hsg
        · rcases wf.reads v hs a.var hr with h | h
          · exact ih m' a.var (Or.inl h) (Or.inl h)
          · exact ih m' a.var (Or.inr (by omega)) (Or.inr (by omega))
        · exact ih m' a.var (Or.inl hsg) (Or.inl hsg)

/-! ## unfolding the getter -/

def finish (T : Table) (v : Var) (σ1 : St) : St × Term :=
  let σ2 : St := if T.wrapGet v then (wrapAll σ1.1, σ1.2) else σ1
  (σ2, obsOf (σ2.1 v))

theorem getV_present {T : Table} {n : Nat} {v : Var} {σ : St} {e : Entry} (h : σ.1 v = some e) :
    getV T n v σ = finish T v σ := by
  rw [getV.eq_def]; simp [h, finish]

theorem getV_absent_zero {T : Table} {v : Var} {σ : St} (h : σ.1 v = none) :
    getV T 0 v σ = finish T v σ := by
  rw [getV.eq_def]; simp [h, finish]

def populate (T : Table) (n : Nat) (v : Var) (σ : St) : St :=
  let u := T.unitOf v
  let σr := u.reads.foldl (fun s r => (getV T n r s).1) σ
  let σw := u.writes.foldl (doWrite σr.1) σr
  if T.wrapPop v then (wrapAll σw.1, σw.2) else σw

theorem getV_absent_succ {T : Table} {n : Nat} {v : Var} {σ : St} (h : σ.1 v = none) :
    getV T (n + 1) v σ = finish T v (populate T n v σ) := by
  rw [getV.eq_def]; simp [h, finish, populate]

/-! ## one write -/

theorem doWrite_globals {st0 : Store} {σ : St} {w : Write} (hl : w.leak = false) :
    (doWrite st0 σ w).2 = σ.2 := by
  unfold doWrite
  split <;> simp [hl]

theorem erase_nil (st : Store) : st.erase [] = st := by
  funext x; simp [Store.erase]

theorem doWrite_other {st0 : Store} {σ : St} {w : Write} {x : Var} (hx : x ≠ w.var)
    (hd : w.drops = []) : (doWrite st0 σ w).1 x = σ.1 x := by
  unfold doWrite
  split
  · simp [Store.set, hx, hd, erase_nil]
  · rfl

theorem doWrite_le {st0 : Store} {σ : St} {w : Write} (hf : w.force = false) (hd : w.drops = []) :
    Le σ.1 (doWrite st0 σ w).1 := by
  intro v e hv
  unfold doWrite
  split
  · rename_i hc
    simp only [hf, Bool.false_or, Bool.and_eq_true] at hc
    have : v ≠ w.var := by
      intro heq; subst heq; simp [hv] at hc
    simp [Store.set, this, hv, hd, erase_nil]
  · exact hv

theorem doWrite_globals_fold {st0 : Store} (ws : List Write) (hl : ∀ w ∈ ws, w.leak = false) :
    ∀ σ : St, (ws.foldl (doWrite st0) σ).2 = σ.2 := by
  induction ws with
  | nil => intro σ; rfl
  | cons w ws ih =>
    intro σ
    simp only [List.foldl_cons]
    rw [ih (fun w' hw' => hl w' (List.mem_cons_of_mem _ hw'))]
    exact doWrite_globals (hl w (List.mem_cons_self ..))

/-! ## what a getter guarantees -/

structure Post (T : Table) (sig : Var → Bool) (s : Nat) (v : Var) (σ : St) (r : St × Term) : Prop where
  inv : Inv T sig s r.1.1
  le : Le σ.1 r.1.1
  gl : r.1.2 = σ.2
  pres : (r.1.1 v).isSome = true
  val : r.2 = fr T sig s v
  frame : ∀ x, T.rk v < T.rk x → r.1.1 x = σ.1 x
  same : (σ.1 v).isSome = true → r.1.1 = σ.1

theorem finish_inv {T : Table} {sig : Var → Bool} {s : Nat} {v : Var} {σ1 : St}
    (h : Inv T sig s σ1.1) : finish T v σ1 = (σ1, obsOf (σ1.1 v)) := by
  unfold finish
  split
  · simp [wrapAll_id h]
  · rfl

theorem obs_sound {T : Table} {sig : Var → Bool} {s : Nat} {st : Store} {v : Var} {e : Entry}
    (h : Inv T sig s st) (hv : st v = some e) : obsOf (st v) = fr T sig s v := by
  have := h.sound v e hv
  simp [hv, obsOf, Entry.obs, this.1, this.2.1]

/-- reading a list of variables, given the getter guarantee at fuel `n` -/
theorem reads_fold {T : Table} {sig : Var → Bool} {s : Nat} (n : Nat)
    (H : ∀ v σ, Inv T sig s σ.1 → (sig v = true ∨ T.rk v < n) → Post T sig s v σ (getV T n v σ))
    (k : Nat) :
    ∀ (rs : List Var) (σ : St), Inv T sig s σ.1 →
      (∀ r ∈ rs, sig r = true ∨ (T.rk r < n ∧ T.rk r < k)) →
      Inv T sig s (rs.foldl (fun st r => (getV T n r st).1) σ).1 ∧
      Le σ.1 (rs.foldl (fun st r => (getV T n r st).1) σ).1 ∧
      (rs.foldl (fun st r => (getV T n r st).1) σ).2 = σ.2 ∧
      (∀ r ∈ rs, ((rs.foldl (fun st r => (getV T n r st).1) σ).1 r).isSome = true) ∧
      (∀ x, k ≤ T.rk x → (rs.foldl (fun st r => (getV T n r st).1) σ).1 x = σ.1 x) := by
  intro rs
  induction rs with
  | nil =>
    intro σ hinv _
    exact ⟨hinv, Le.refl _, rfl, by simp, fun _ _ => rfl⟩
  | cons r rs ih =>
    intro σ hinv hr
    simp only [List.foldl_cons]
    have hr0 := hr r (List.mem_cons_self ..)
    have P := H r σ hinv (by rcases hr0 with h | h; exact Or.inl h; exact Or.inr h.1)
    have I := ih (getV T n r σ).1 P.inv (fun r' hr' => hr r' (List.mem_cons_of_mem _ hr'))
    refine ⟨I.1, Le.trans P.le I.2.1, by rw [I.2.2.1, P.gl], ?_, ?_⟩
    · intro r' hr'
      rcases List.mem_cons.mp hr' with h | h
      · subst h; exact Le.isSome I.2.1 P.pres
      · exact I.2.2.2.1 r' h
    · intro x hx
      rw [I.2.2.2.2 x hx]
      rcases hr0 with h | h
      · rw [P.same (hinv.srcp r h)]
      · exact P.frame x (by omega)

/-! ## the writes of a unit -/

theorem all_congr_mem {α : Type} {p q : α → Bool} :
    ∀ (l : List α), (∀ x ∈ l, p x = q x) → l.all p = l.all q := by
  intro l
  induction l with
  | nil => intro _; rfl
  | cons a l ih =>
    intro h
    simp only [List.all_cons]
    rw [h a (List.mem_cons_self ..), ih (fun x hx => h x (List.mem_cons_of_mem _ hx))]

section Writes
variable {T : Table} {sig : Var → Bool} {s : Nat}

theorem own_presence (wf : WF T sig) {v : Var} (hs : sig v = false) {st : Store}
    (hinv : Inv T sig s st) (hv : st v = none) {x : Var} (hx : T.unitOf x = T.unitOf v) :
    (st x).isSome = sig x := by
  cases hsx : sig x with
  | true => exact hinv.srcp x hsx
  | false =>
    cases hp : (st x).isSome with
    | false => rfl
    | true =>
      exfalso
      obtain ⟨w, hw, happ⟩ := wf.some v hs
      simp only [applicable, Bool.and_eq_true, beq_iff_eq] at happ
      have := hinv.closed x hp hsx w (hx ▸ hw) happ.2
      rw [happ.1, hv] at this
      simp at this

theorem guards_static (wf : WF T sig) {v : Var} (hs : sig v = false) {st : Store}
    (hinv : Inv T sig s st) (hv : st v = none)
    (hreads : ∀ r ∈ (T.unitOf v).reads, (st r).isSome = true)
    {w : Write} (hw : w ∈ (T.unitOf v).writes) :
    w.guard.all (evalCond st) = w.guard.all (staticCond T sig) := by
  apply all_congr_mem
  intro c hc
  have hown := wf.guards v w hw c hc
  cases c with
  | absent x =>
    simp only [condOwn, beq_iff_eq] at hown
    have := own_presence wf hs hinv hv hown
    simp only [evalCond, staticCond]
    cases hx : st x <;> simp [hx] at this ⊢ <;> simp [← this]
  | present x =>
    simp only [condOwn, beq_iff_eq] at hown
    have := own_presence wf hs hinv hv hown
    simp only [evalCond, staticCond]
    exact this
  | hasSide x =>
    simp only [condOwn, List.contains_iff_mem] at hown
    have hp := hreads x hown
    cases hx : st x with
    | none => simp [hx] at hp
    | some e =>
      have := (hinv.sound x e hx).2.2
      simp only [evalCond, staticCond, hx, this, sideExp]
      split <;> simp_all
  | noSide x =>
    simp only [condOwn, List.contains_iff_mem] at hown
    have hp := hreads x hown
    cases hx : st x with
    | none => simp [hx] at hp
    | some e =>
      have := (hinv.sound x e hx).2.2
      simp only [evalCond, staticCond, hx, this, sideExp]
      cases sig x <;> cases T.sided x <;> simp

/-- the values a write takes from the store are the reference values of its inputs -/
theorem arg_agree (wf : WF T sig) {v : Var} (hs : sig v = false) {str stp : Store}
    (_hinv : Inv T sig s str) (hle : Le str stp)
    (hsrcp : ∀ y, sig y = true → (stp y).isSome = true)
    (hsound : ∀ y e, stp y = some e → e.val = fr T sig s y ∧ e.ranged = true ∧ e.side = sideExp T sig s y)
    (hreads : ∀ r ∈ (T.unitOf v).reads, (str r).isSome = true)
    {w : Write} (hw : w ∈ (T.unitOf v).writes) (hg : w.guard.all (staticCond T sig) = true)
    {a : Arg} (ha : a ∈ w.args) :
    argVal stp a = fresh T sig s (T.rk v) a.var := by
  have hok := wf.args v w hw a ha
  have readCase : ∀ y, y ∈ (T.unitOf v).reads → ∀ e, stp y = some e →
      e.val = fresh T sig s (T.rk v) y := by
    intro y hy e he
    rw [(hsound y e he).1, fr]
    apply fresh_stable s wf
    · exact Or.inr (by omega)
    · rcases wf.reads v hs y hy with h | h
      · exact Or.inl h
      · exact Or.inr h
  cases a with
  | val y =>
    simp only [argOK, Bool.or_eq_true, List.contains_iff_mem] at hok
    simp only [argVal, Arg.var]
    rcases hok with hy | hy
    · have hp := Le.isSome hle (hreads y hy)
      cases he : stp y with
      | none => simp [he] at hp
      | some e => exact readCase y hy e he
    · have hsy : sig y = true := by
        have := (List.all_eq_true.mp hg) _ hy
        simpa [staticCond] using this
      have hp := hsrcp y hsy
      cases he : stp y with
      | none => simp [he] at hp
      | some e =>
        simp only
        rw [(hsound y e he).1, fr, fresh_src hsy, fresh_src hsy]
  | side y =>
    simp only [argOK, Bool.and_eq_true, List.contains_iff_mem] at hok
    simp only [argVal, Arg.var]
    have hst : (!sig y && T.sided y) = true := by
      have := (List.all_eq_true.mp hg) _ hok.2
      simpa [staticCond] using this
    have hp := Le.isSome hle (hreads y hok.1)
    cases he : stp y with
    | none => simp [he] at hp
    | some e =>
      have hside := (hsound y e he).2.2
      simp only [sideExp, hst, ↓reduceIte] at hside
      simp only [hside]
      have := readCase y hok.1 e he
      rw [← this, (hsound y e he).1]

/-- state of the fold over a unit's writes after the prefix `pre` -/
structure WInv (T : Table) (sig : Var → Bool) (s : Nat) (str : St) (pre : List Write) (σp : St) : Prop where
  srcp : ∀ y, sig y = true → (σp.1 y).isSome = true
  sound : ∀ y e, σp.1 y = some e → e.val = fr T sig s y ∧ e.ranged = true ∧ e.side = sideExp T sig s y
  le : Le str.1 σp.1
  gl : σp.2 = str.2
  done : ∀ w ∈ pre, w.guard.all (staticCond T sig) = true → (σp.1 w.var).isSome = true
  only : ∀ x, (∀ w ∈ pre, w.var ≠ x) → σp.1 x = str.1 x

theorem write_step (wf : WF T sig) {v : Var} (hs : sig v = false) {σr : St}
    (hinv : Inv T sig s σr.1) (hv : σr.1 v = none)
    (hreads : ∀ r ∈ (T.unitOf v).reads, (σr.1 r).isSome = true)
    {pre post : List Write} {w : Write} (hsplit : (T.unitOf v).writes = pre ++ w :: post)
    {σp : St} (P : WInv T sig s σr pre σp) :
    WInv T sig s σr (pre ++ [w]) (doWrite σr.1 σp w) := by
  have hw : w ∈ (T.unitOf v).writes := by rw [hsplit]; simp
  have hpl := wf.plain v w hw
  have hgs := guards_static wf hs hinv hv hreads hw
  have hle' : Le σp.1 (doWrite σr.1 σp w).1 := doWrite_le hpl.1 hpl.2.2.2
  by_cases hc : (w.guard.all (evalCond σr.1) && (w.force || (σp.1 w.var).isNone)) = true
  · -- the write happens
    have hg : w.guard.all (staticCond T sig) = true := by
      rw [← hgs]; simp only [Bool.and_eq_true] at hc; exact hc.1
    have habs : σp.1 w.var = none := by
      simp only [Bool.and_eq_true, hpl.1, Bool.false_or, Option.isNone_iff_eq_none] at hc
      exact hc.2
    have hsx : sig w.var = false := by
      cases h : sig w.var with
      | false => rfl
      | true => have := P.srcp _ h; simp [habs] at this
    have hunit : T.unitOf w.var = T.unitOf v := wf.own v w hw
    have hrk : T.rk w.var = T.rk v := wf.rank v w hw
    -- `w` is the branch the reference recursion takes for `w.var`
    have hfind : (T.unitOf w.var).writes.find? (applicable T sig w.var) = some w := by
      rw [hunit, hsplit, List.find?_append]
      have hnone : pre.find? (applicable T sig w.var) = none := by
        rw [List.find?_eq_none]
        intro w' hw' happ
        simp only [applicable, Bool.and_eq_true, beq_iff_eq] at happ
        have := P.done w' hw' happ.2
        rw [happ.1, habs] at this
        simp at this
      rw [hnone]
      simp [applicable, hg]
    have hval : mkApp w.fn (w.args.map (argVal σp.1)) = fr T sig s w.var := by
      rw [fr, fresh_succ hsx, hfind]
      simp only
      congr 1
      apply List.map_congr_left
      intro a ha
      rw [hrk]
      exact arg_agree wf hs hinv P.le P.srcp P.sound hreads hw hg ha
    have hdw : doWrite σr.1 σp w =
        (σp.1.set w.var { val := mkApp w.fn (w.args.map (argVal σp.1)),
                          side := if w.withSide then some (mkApp w.fn (w.args.map (argVal σp.1))) else none,
                          ranged := w.ranged, chunked := false },
         if w.leak then { σp.2 with edgeSide := some (mkApp w.fn (w.args.map (argVal σp.1))) } else σp.2) := by
      unfold doWrite; rw [if_pos hc]; simp only [hpl.2.2.2, erase_nil]
    refine ⟨?_, ?_, Le.trans P.le hle', ?_, ?_, ?_⟩
    · intro y hy; exact Le.isSome hle' (P.srcp y hy)
    · intro y e he
      by_cases hyx : y = w.var
      · subst hyx
        rw [hdw] at he
        simp only [Store.set, ↓reduceIte, Option.some.injEq] at he
        subst he
        refine ⟨hval, hpl.2.2.1, ?_⟩
        simp only [sideExp, hsx, Bool.not_false, Bool.true_and, wf.side v w hw, hval]
      · rw [doWrite_other hyx hpl.2.2.2] at he
        exact P.sound y e he
    · rw [doWrite_globals hpl.2.1]; exact P.gl
    · intro w' hw' hg'
      rcases List.mem_append.mp hw' with h | h
      · exact Le.isSome hle' (P.done w' h hg')
      · simp only [List.mem_singleton] at h
        subst h
        rw [hdw]; simp [Store.set]
    · intro x hx
      have hxw : x ≠ w.var := fun h => hx w (by simp) h.symm
      rw [doWrite_other hxw hpl.2.2.2]
      exact P.only x (fun w' hw' => hx w' (List.mem_append_left _ hw'))
  · -- nothing is stored
    have hdw : doWrite σr.1 σp w = σp := by unfold doWrite; rw [if_neg hc]
    rw [hdw]
    refine ⟨P.srcp, P.sound, P.le, P.gl, ?_, ?_⟩
    · intro w' hw' hg'
      rcases List.mem_append.mp hw' with h | h
      · exact P.done w' h hg'
      · simp only [List.mem_singleton] at h
        subst h
        rw [← hgs] at hg'
        simp only [hg', hpl.1, Bool.false_or, Bool.true_and, Bool.not_eq_true,
          Option.isNone_eq_false_iff] at hc
        exact hc
    · intro x hx
      exact P.only x (fun w' hw' => hx w' (List.mem_append_left _ hw'))

theorem writes_fold (wf : WF T sig) {v : Var} (hs : sig v = false) {σr : St}
    (hinv : Inv T sig s σr.1) (hv : σr.1 v = none)
    (hreads : ∀ r ∈ (T.unitOf v).reads, (σr.1 r).isSome = true) :
    ∀ (post pre : List Write) (σp : St), (T.unitOf v).writes = pre ++ post →
      WInv T sig s σr pre σp →
      WInv T sig s σr (T.unitOf v).writes (post.foldl (doWrite σr.1) σp) := by
  intro post
  induction post with
  | nil =>
    intro pre σp hsplit P
    simp only [List.append_nil] at hsplit
    rw [hsplit]; exact P
  | cons w post ih =>
    intro pre σp hsplit P
    simp only [List.foldl_cons]
    apply ih (pre ++ [w])
    · rw [hsplit]; simp
    · exact write_step wf hs hinv hv hreads hsplit P

end Writes

/-! ## the getter is a sound memo of the reference recursion -/

theorem getV_sound {T : Table} {sig : Var → Bool} (s : Nat) (wf : WF T sig) :
    ∀ n v (σ : St), Inv T sig s σ.1 → (sig v = true ∨ T.rk v < n) →
      Post T sig s v σ (getV T n v σ) := by
  intro n
  induction n with
  | zero =>
    intro v σ hinv hfuel
    have hsv : sig v = true := by rcases hfuel with h | h; exact h; omega
    have hp := hinv.srcp v hsv
    cases he : σ.1 v with
    | none => simp [he] at hp
    | some e =>
      rw [getV_present he, finish_inv hinv]
      exact ⟨hinv, Le.refl _, rfl, by simp [he], obs_sound hinv he, fun _ _ => rfl, fun _ => rfl⟩
  | succ n ih =>
    intro v σ hinv hfuel
    cases he : σ.1 v with
    | some e =>
      rw [getV_present he, finish_inv hinv]
      exact ⟨hinv, Le.refl _, rfl, by simp [he], obs_sound hinv he, fun _ _ => rfl, fun _ => rfl⟩
    | none =>
      have hs : sig v = false := by
        cases h : sig v with
        | false => rfl
        | true => have := hinv.srcp v h; simp [he] at this
      have hrk : T.rk v < n + 1 := by rcases hfuel with h | h; simp [hs] at h; exact h
      rw [getV_absent_succ he]
      -- the reads
      have R := reads_fold n ih (T.rk v) (T.unitOf v).reads σ hinv (by
        intro r hr
        rcases wf.reads v hs r hr with h | h
        · exact Or.inl h
        · exact Or.inr ⟨by omega, h⟩)
      generalize hσr : (T.unitOf v).reads.foldl (fun st r => (getV T n r st).1) σ = σr at R
      obtain ⟨Rinv, Rle, Rgl, Rpres, Rframe⟩ := R
      have hvr : σr.1 v = none := by rw [Rframe v (Nat.le_refl _)]; exact he
      -- the writes
      have W := writes_fold wf hs Rinv hvr Rpres (T.unitOf v).writes [] σr (by simp)
        ⟨Rinv.srcp, Rinv.sound, Le.refl _, rfl, by simp, fun _ _ => rfl⟩
      generalize hσw : (T.unitOf v).writes.foldl (doWrite σr.1) σr = σw at W
      have Winv : Inv T sig s σw.1 := by
        refine ⟨W.srcp, W.sound, ?_⟩
        intro y hy hsy w' hw' hg'
        by_cases hu : T.unitOf y = T.unitOf v
        · exact W.done w' (hu ▸ hw') hg'
        · have hsame : σw.1 y = σr.1 y := by
            apply W.only
            intro w hw hwy
            exact hu (hwy ▸ wf.own v w hw)
          rw [hsame] at hy
          exact Le.isSome W.le (Rinv.closed y hy hsy w' hw' hg')
      have hpop : populate T n v σ = σw := by
        unfold populate
        simp only [hσr, hσw]
        split
        · rw [wrapAll_id Winv]
        · rfl
      rw [hpop, finish_inv Winv]
      obtain ⟨w0, hw0, happ0⟩ := wf.some v hs
      simp only [applicable, Bool.and_eq_true, beq_iff_eq] at happ0
      have hpv : (σw.1 v).isSome = true := by
        have := W.done w0 hw0 happ0.2
        rwa [happ0.1] at this
      refine ⟨Winv, Le.trans Rle W.le, by rw [W.gl, Rgl], hpv, ?_, ?_, ?_⟩
      · cases hev : σw.1 v with
        | none => simp [hev] at hpv
        | some e' => simp only; rw [← hev]; exact obs_sound Winv hev
      · intro x hx
        have h1 : σw.1 x = σr.1 x := by
          apply W.only
          intro w hw hwx
          have := wf.rank v w hw
          rw [hwx] at this
          omega
        rw [h1, Rframe x (by omega)]
      · intro hp; simp [he] at hp

/-! ## reading several variables -/

theorem getMany_sound {T : Table} {sig : Var → Bool} (s : Nat) (wf : WF T sig) (n : Nat) :
    ∀ (vs : List Var) (σ : St), Inv T sig s σ.1 → (∀ v ∈ vs, sig v = true ∨ T.rk v < n) →
      Inv T sig s (getMany T n vs σ).1.1 ∧ Le σ.1 (getMany T n vs σ).1.1 ∧
      (getMany T n vs σ).1.2 = σ.2 ∧ (getMany T n vs σ).2 = vs.map (fr T sig s) ∧
      (∀ v ∈ vs, ((getMany T n vs σ).1.1 v).isSome = true) := by
  intro vs
  induction vs with
  | nil => intro σ h _; exact ⟨h, Le.refl _, rfl, rfl, by simp⟩
  | cons v vs ih =>
    intro σ h hf
    have P := getV_sound s wf n v σ h (hf v (List.mem_cons_self ..))
    have I := ih (getV T n v σ).1 P.inv (fun x hx => hf x (List.mem_cons_of_mem _ hx))
    simp only [getMany]
    refine ⟨I.1, Le.trans P.le I.2.1, by rw [I.2.2.1, P.gl], by rw [I.2.2.2.1, P.val]; rfl, ?_⟩
    intro x hx
    rcases List.mem_cons.mp hx with h' | h'
    · subst h'; exact Le.isSome I.2.1 P.pres
    · exact I.2.2.2.2 x h'

/-! ## models, grids, worlds -/

/-- a cache may be reused only for a request it would have computed the same object for -/
def SoundPolicy (P : CachePolicy) : Prop :=
  ∀ k k', P.keyEq (P.keyStored k) k' = true → P.fn k = P.fn k' ∧ P.reads k = P.reads k'

def peekOK (T : Table) (sig : Var → Bool) (reads : List Var) (p : Peek) : Bool :=
  sig p.var ||
    (p.args.all (fun a => reads.contains a || sig a) &&
      match (T.unitOf p.var).writes.find? (applicable T sig p.var) with
      | some w => w.fn == p.fn && w.args == p.args.map Arg.val
      | none => false)

def methodOK (T : Table) (sig : Var → Bool) (md : Method) : Bool :=
  md.forced.isEmpty && md.numpyOnly.isEmpty && md.peek.all (peekOK T sig md.reads)

/-- a well-formed model for a source signature: the repaired library -/
structure MWF (M : Model) (sig : Var → Bool) : Prop where
  wf : WF (M.table sig) sig
  fuel : ∀ v, (M.table sig).rk v < FUEL
  meth : ∀ m, methodOK (M.table sig) sig (M.method m) = true
  pol : ∀ c, SoundPolicy (M.cache c)
  fresh_guard : ∀ c, (M.cache c).staleGuard = false
  noSide : M.openSide = false

def cacheRef (M : Model) (sig : Var → Bool) (s : Nat) (c : CacheId) (k : Key) : Term :=
  mkApp ((M.cache c).fn k) (((M.cache c).reads k).map (fr (M.table sig) sig s))

structure GInv (M : Model) (g : Grid) : Prop where
  inv : Inv (M.table g.sigF) g.sigF g.sid g.st
  cache : ∀ c ks t, (ks, t) ∈ g.caches c →
      ∃ k, ks = (M.cache c).keyStored k ∧ t = cacheRef M g.sigF g.sid c k

/-- the reference result of every value operation, straight from the reference recursion -/
def spec (M : Model) (sig : Var → Bool) (s : Nat) : Op → Res
  | .get v => .val (fr (M.table sig) sig s v)
  | .method m =>
      .val (mkApp (M.method m).fn (((M.method m).reads.map (fr (M.table sig) sig s)) ++
        (M.method m).peek.map (fun p => fr (M.table sig) sig s p.var)))
  | .cached c k _ _ => .val (handback (cacheRef M sig s c k) (guardTerm (M.cache c) s k))
  | .export_ => .unit
  | .inventory => .unit
  | .chunk => .unit

def Op.isValue : Op → Bool
  | .export_ | .inventory => false
  | _ => true

theorem chunk_inv {T : Table} {sig : Var → Bool} {s : Nat} {st : Store} (h : Inv T sig s st) :
    Inv T sig s (chunkStore st) := by
  have hsome : ∀ v, ((chunkStore st) v).isSome = (st v).isSome := by
    intro v; unfold chunkStore; split <;> cases st v <;> rfl
  refine ⟨fun v hv => by rw [hsome]; exact h.srcp v hv, ?_, ?_⟩
  · intro v e he
    unfold chunkStore at he
    split at he
    · cases hv : st v with
      | none => simp [hv] at he
      | some e0 =>
        simp only [hv, Option.map_some, Option.some.injEq] at he
        subst he
        exact h.sound v e0 hv
    · exact h.sound v e he
  · intro v hv hs w hw hg
    rw [hsome] at hv ⊢
    exact h.closed v hv hs w hw hg

theorem sigF_openGrid (M : Model) (gl : Globals) (sig : List Var) (sid : Nat) :
    (openGrid M gl sig sid).sigF = sigOf sig := rfl

theorem open_inv {M : Model} {sig : List Var} (sid : Nat) (gl : Globals) (hm : MWF M (sigOf sig)) :
    GInv M (openGrid M gl sig sid) := by
  have hst : ∀ v, (openGrid M gl sig sid).st v =
      if sig.contains v then
        some { val := .src sid v,
               side := if M.openSide && v == .edgeNode then gl.edgeSide else none }
      else none := fun _ => rfl
  refine ⟨⟨?_, ?_, ?_⟩, ?_⟩
  · intro v hv
    have hv' : sig.contains v = true := hv
    rw [hst, if_pos hv']; rfl
  · intro v e he
    rw [hst] at he
    split at he
    · rename_i hc
      simp only [Option.some.injEq] at he
      subst he
      have hs : sigOf sig v = true := hc
      refine ⟨?_, rfl, ?_⟩
      · show Term.src sid v = fr (M.table (sigOf sig)) (sigOf sig) sid v
        rw [fr, fresh_src hs]
      · show (if M.openSide && v == .edgeNode then gl.edgeSide else none) =
          sideExp (M.table (sigOf sig)) (sigOf sig) sid v
        simp [sideExp, hs, hm.noSide]
    · simp at he
  · intro v hv hs
    have hs' : sig.contains v = false := hs
    rw [hst, hs'] at hv
    simp at hv
  · intro c ks t h
    simp [openGrid] at h

theorem peek_sound {T : Table} {sig : Var → Bool} {s : Nat} (wf : WF T sig) {st : Store}
    (h : Inv T sig s st) {reads : List Var} (hreads : ∀ r ∈ reads, (st r).isSome = true)
    {p : Peek} (hok : peekOK T sig reads p = true) : peekVal st p = fr T sig s p.var := by
  unfold peekVal
  cases hv : st p.var with
  | some e => have := obs_sound h hv; simpa [hv, obsOf] using this
  | none =>
    have hs : sig p.var = false := by
      cases hsv : sig p.var with
      | false => rfl
      | true => have := h.srcp _ hsv; simp [hv] at this
    simp only [peekOK, hs, Bool.false_or, Bool.and_eq_true] at hok
    cases hf : (T.unitOf p.var).writes.find? (applicable T sig p.var) with
    | none => simp [hf] at hok
    | some w =>
      simp only [hf, Bool.and_eq_true, beq_iff_eq] at hok
      have hwm : w ∈ (T.unitOf p.var).writes := List.mem_of_find?_eq_some hf
      have happ := List.find?_some hf
      simp only [applicable, Bool.and_eq_true, beq_iff_eq] at happ
      simp only
      rw [fr, fresh_succ hs, hf]
      simp only
      rw [hok.2.1, hok.2.2, List.map_map]
      congr 1
      apply List.map_congr_left
      intro a ha
      have hp : (st a).isSome = true := by
        have := (List.all_eq_true.mp hok.1) a ha
        simp only [Bool.or_eq_true, List.contains_iff_mem] at this
        rcases this with hmem | hsa
        · exact hreads a hmem
        · exact h.srcp a hsa
      cases hav : st a with
      | none => simp [hav] at hp
      | some e =>
        simp only [argVal, hav, Function.comp, Arg.var]
        rw [(h.sound a e hav).1, fr]
        apply fresh_stable s wf
        · exact Or.inr (by omega)
        · have haw : Arg.val a ∈ w.args := by rw [hok.2.2]; exact List.mem_map_of_mem ha
          have hargok := wf.args p.var w hwm _ haw
          rcases argOK_cases hargok happ.2 with hr | hsg
          · rcases wf.reads p.var hs a hr with h' | h'
            · exact Or.inl h'
            · exact Or.inr h'
          · exact Or.inl hsg

/-- one operation on one grid of the repaired library: the result is the reference result, the
    grid stays consistent, the module globals stay as they are -/
theorem stepGrid_spec {M : Model} {g : Grid} (hm : MWF M g.sigF) (hg : GInv M g) (gl : Globals)
    (o : Op) :
    GInv M (stepGrid M g gl o).1 ∧ (stepGrid M g gl o).2.1 = gl ∧
    (stepGrid M g gl o).1.sig = g.sig ∧ (stepGrid M g gl o).1.sid = g.sid ∧
    (∀ v, (g.st v).isSome = true → ((stepGrid M g gl o).1.st v).isSome = true) ∧
    (o.isValue = true → (stepGrid M g gl o).2.2 = spec M g.sigF g.sid o) := by
  have fuelOK : ∀ vs : List Var, ∀ v ∈ vs, g.sigF v = true ∨ (M.table g.sigF).rk v < FUEL :=
    fun _ v _ => Or.inr (hm.fuel v)
  cases o with
  | get v =>
    have P := getV_sound g.sid hm.wf FUEL v (g.st, gl) hg.inv (Or.inr (hm.fuel v))
    refine ⟨⟨P.inv, hg.cache⟩, P.gl, rfl, rfl, fun _ h => Le.isSome P.le h, ?_⟩
    intro _
    simp only [stepGrid, spec, P.val]
  | method m =>
    have hmeth := hm.meth m
    simp only [methodOK, Bool.and_eq_true, List.isEmpty_iff] at hmeth
    have G0 := getMany_sound g.sid hm.wf FUEL
      ((M.method m).whenPresent.flatMap (fun p => if (g.st p.1).isSome then p.2 else []))
      (g.st, gl) hg.inv (fuelOK _)
    have G := getMany_sound g.sid hm.wf FUEL (M.method m).reads _ G0.1 (fuelOK _)
    have hnum : anyChunked (getMany (M.table g.sigF) FUEL (M.method m).reads
        (getMany (M.table g.sigF) FUEL
          ((M.method m).whenPresent.flatMap (fun p => if (g.st p.1).isSome then p.2 else []))
          (g.st, gl)).1).1.1 (M.method m).numpyOnly = false := by
      rw [hmeth.1.2]; rfl
    simp only [stepGrid, hnum, hmeth.1.1, List.foldl_nil, Bool.false_eq_true, ↓reduceIte]
    refine ⟨⟨G.1, hg.cache⟩, by rw [G.2.2.1, G0.2.2.1], by first | rfl | trivial, by first | rfl | trivial,
      fun _ h => Le.isSome G.2.1 (Le.isSome G0.2.1 h), ?_⟩
    intro _
    simp only [spec, G.2.2.2.1]
    congr 3
    apply List.map_congr_left
    intro p hp
    exact peek_sound hm.wf G.1 G.2.2.2.2 ((List.all_eq_true.mp hmeth.2) p hp)
  | cached c k force store =>
    simp only [stepGrid]
    split
    · -- served from an existing slot
      rename_i e hhit
      have hsg := hm.fresh_guard c
      simp only [hsg, Bool.false_eq_true, ↓reduceIte]
      refine ⟨⟨hg.inv, hg.cache⟩, by first | rfl | trivial, by first | rfl | trivial, by first | rfl | trivial,
        fun _ h => h, ?_⟩
      intro _
      simp only [spec]
      split at hhit
      · simp at hhit
      · have hmem := List.mem_of_find?_eq_some hhit
        have hk := List.find?_some hhit
        obtain ⟨k0, hk0, ht⟩ := hg.cache c e.1 e.2 hmem
        rw [hk0] at hk
        have := hm.pol c k0 k hk
        rw [ht, cacheRef, cacheRef, this.1, this.2]
    · -- built
      have G := getMany_sound g.sid hm.wf FUEL ((M.cache c).reads k) (g.st, gl) hg.inv (fuelOK _)
      refine ⟨⟨G.1, ?_⟩, G.2.2.1, rfl, rfl, fun _ h => Le.isSome G.2.1 h, ?_⟩
      · intro c' ks t hct
        by_cases hst : store = true
        · simp only [hst, ↓reduceIte] at hct
          by_cases hcc : c' = c
          · subst hcc
            simp only [↓reduceIte, List.mem_cons, Prod.mk.injEq] at hct
            rcases hct with h | h
            · exact ⟨k, h.1, by rw [h.2, G.2.2.2.1]; rfl⟩
            · exact hg.cache c' ks t (List.mem_filter.mp h).1
          · simp only [hcc, ↓reduceIte] at hct
            exact hg.cache c' ks t hct
        · simp only [hst, Bool.false_eq_true, ↓reduceIte] at hct
          exact hg.cache c' ks t hct
      · intro _
        simp only [spec, cacheRef, G.2.2.2.1]
  | export_ => exact ⟨hg, rfl, rfl, rfl, fun _ h => h, by intro h; simp [Op.isValue] at h⟩
  | inventory => exact ⟨hg, rfl, rfl, rfl, fun _ h => h, by intro h; simp [Op.isValue] at h⟩
  | chunk =>
    refine ⟨⟨chunk_inv hg.inv, hg.cache⟩, rfl, rfl, rfl, ?_, fun _ => rfl⟩
    intro v hv
    simp only [stepGrid]
    unfold chunkStore
    split <;> cases hgv : g.st v <;> simp_all

end UxVerif.Caches
