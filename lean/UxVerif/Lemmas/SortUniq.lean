/-
  Lemmas about `insUniq` / `sortUniqBy` (the model of `np.unique`) and about positions in a
  filtered list (the model of the `searchsorted` renumbering).  Core Lean only.
-/
import UxVerif.Model.Basic

namespace UxVerif
variable {α : Type} [DecidableEq α]

theorem mem_insUniq (lt : α → α → Bool) (x a : α) (l : List α) :
    a ∈ insUniq lt x l ↔ a = x ∨ a ∈ l := by
  induction l with
  | nil => simp [insUniq]
  | cons y ys ih =>
    unfold insUniq
    by_cases h1 : lt x y = true
    · simp [h1]
    · by_cases h2 : x = y
      · subst h2; simp [h1]
      · simp [h1, h2, ih]
        constructor
        · rintro (h | h | h) <;> simp [h]
        · rintro (h | h | h) <;> simp [h]

theorem mem_sortUniqBy (lt : α → α → Bool) (a : α) (l : List α) :
    a ∈ sortUniqBy lt l ↔ a ∈ l := by
  induction l with
  | nil => simp [sortUniqBy]
  | cons y ys ih =>
    have : sortUniqBy lt (y :: ys) = insUniq lt y (sortUniqBy lt ys) := rfl
    rw [this, mem_insUniq, ih]; simp

/-- the laws of a strict total order given as a `Bool` relation -/
structure StrictTotal (lt : α → α → Bool) : Prop where
  irrefl : ∀ a, lt a a = false
  trans : ∀ a b c, lt a b = true → lt b c = true → lt a c = true
  tri : ∀ a b, lt a b = false → a ≠ b → lt b a = true

def SortedBy (lt : α → α → Bool) (l : List α) : Prop := l.Pairwise (fun a b => lt a b = true)

theorem sorted_insUniq {lt : α → α → Bool} (h : StrictTotal lt) (x : α) (l : List α)
    (hs : SortedBy lt l) : SortedBy lt (insUniq lt x l) := by
  induction l with
  | nil => simp [insUniq, SortedBy]
  | cons y ys ih =>
    unfold insUniq
    have hy := List.pairwise_cons.mp hs
    by_cases h1 : lt x y = true
    · simp only [h1, if_true]
      refine List.pairwise_cons.mpr ⟨?_, hs⟩
      intro b hb
      rcases List.mem_cons.mp hb with rfl | hb
      · exact h1
      · exact h.trans _ _ _ h1 (hy.1 b hb)
    · by_cases h2 : x = y
      · subst h2; simp only [h1]; simpa using hs
      · simp only [h1, h2, if_false]
        refine List.pairwise_cons.mpr ⟨?_, ih hy.2⟩
        intro b hb
        rcases (mem_insUniq lt x b ys).mp hb with rfl | hb
        · exact h.tri _ _ (by simpa using h1) h2
        · exact hy.1 b hb

theorem sorted_sortUniqBy {lt : α → α → Bool} (h : StrictTotal lt) (l : List α) :
    SortedBy lt (sortUniqBy lt l) := by
  induction l with
  | nil => simp [sortUniqBy, SortedBy]
  | cons y ys ih => exact sorted_insUniq h y _ ih

omit [DecidableEq α] in
theorem nodup_of_sorted {lt : α → α → Bool} (h : StrictTotal lt) (l : List α)
    (hs : SortedBy lt l) : l.Nodup := by
  unfold SortedBy at hs
  refine List.Pairwise.imp ?_ hs
  intro a b hab heq
  subst heq
  rw [h.irrefl] at hab
  cases hab

theorem nodup_sortUniqBy {lt : α → α → Bool} (h : StrictTotal lt) (l : List α) :
    (sortUniqBy lt l).Nodup := nodup_of_sorted h _ (sorted_sortUniqBy h l)

theorem pairLt_strictTotal : StrictTotal pairLt := by
  refine ⟨?_, ?_, ?_⟩
  · intro a; simp [pairLt]
  · intro a b c; simp only [pairLt, Bool.or_eq_true, Bool.and_eq_true, decide_eq_true_eq]
    intro h1 h2; omega
  · intro a b h1 h2
    have : a.1 ≠ b.1 ∨ a.2 ≠ b.2 := by
      by_cases h : a.1 = b.1
      · right; intro h'; exact h2 (Prod.ext h h')
      · left; exact h
    simp only [pairLt, Bool.or_eq_false_iff, Bool.and_eq_false_iff, decide_eq_false_iff_not] at h1
    simp only [pairLt, Bool.or_eq_true, Bool.and_eq_true, decide_eq_true_eq]
    omega

theorem intLt_strictTotal : StrictTotal intLt := by
  refine ⟨?_, ?_, ?_⟩
  · intro a; simp [intLt]
  · intro a b c; simp only [intLt, decide_eq_true_eq]; omega
  · intro a b; simp only [intLt, decide_eq_true_eq, decide_eq_false_iff_not]; omega

theorem mem_uniqPair (a) (l : List (Int × Int)) : a ∈ uniqPair l ↔ a ∈ l := mem_sortUniqBy _ _ _
theorem nodup_uniqPair (l : List (Int × Int)) : (uniqPair l).Nodup :=
  nodup_sortUniqBy pairLt_strictTotal l
theorem mem_uniqInt (a) (l : List Int) : a ∈ uniqInt l ↔ a ∈ l := mem_sortUniqBy _ _ _
theorem nodup_uniqInt (l : List Int) : (uniqInt l).Nodup :=
  nodup_sortUniqBy intLt_strictTotal l

/-! ### position of an element inside a filtered list -/

/-- A kept element sits in the filtered list at its old (first) position minus the number
    of dropped elements at positions `≤` it.  This is the fact the
    `searchsorted(side='right')` renumbering of `inverse_indices` relies on. -/
theorem filter_index {β : Type} [BEq β] [LawfulBEq β] (bad : β → Bool) (u : List β) (p : β)
    (hp : p ∈ u) (hgood : bad p = false) :
    (u.filter (fun q => !bad q))[u.idxOf p - ((u.take (u.idxOf p + 1)).filter bad).length]?
      = some p := by
  induction u with
  | nil => cases hp
  | cons y ys ih =>
    cases hyp : (y == p) with
    | true =>
      have hy : y = p := eq_of_beq hyp
      subst hy
      simp [hgood]
    | false =>
      have hy : y ≠ p := by intro h; subst h; simp at hyp
      have hp' : p ∈ ys := by
        rcases List.mem_cons.mp hp with h | h
        · exact absurd h.symm hy
        · exact h
      have ih' := ih hp'
      rw [List.idxOf_cons, hyp]
      simp only [cond_false, List.take_succ_cons]
      cases hb : bad y with
      | true =>
        simp only [List.filter_cons, hb, if_true, Bool.not_true, Bool.false_eq_true, if_false,
          List.length_cons]
        have : ys.idxOf p + 1 - (((ys.take (ys.idxOf p + 1)).filter bad).length + 1)
            = ys.idxOf p - ((ys.take (ys.idxOf p + 1)).filter bad).length := by omega
        rw [this]; exact ih'
      | false =>
        simp only [List.filter_cons, hb, Bool.not_false, if_true, Bool.false_eq_true, if_false]
        have hle : ((ys.take (ys.idxOf p + 1)).filter bad).length ≤ ys.idxOf p := by
          -- the last taken element is `p`, which is kept out of the bad count
          have h1 : ys.idxOf p < ys.length := List.idxOf_lt_length_iff.mpr hp'
          have h2 : ys.take (ys.idxOf p + 1) = ys.take (ys.idxOf p) ++ [p] := by
            rw [List.take_succ_eq_append_getElem h1]
            simp [List.getElem_idxOf]
          rw [h2, List.filter_append]
          simp only [List.filter_cons, hgood, Bool.false_eq_true, if_false, List.filter_nil,
            List.append_nil]
          calc ((ys.take (ys.idxOf p)).filter bad).length
              ≤ (ys.take (ys.idxOf p)).length := List.length_filter_le _ _
            _ ≤ ys.idxOf p := by simp [List.length_take]; omega
        have : ys.idxOf p + 1 - ((ys.take (ys.idxOf p + 1)).filter bad).length
            = (ys.idxOf p - ((ys.take (ys.idxOf p + 1)).filter bad).length) + 1 := by omega
        rw [this, List.getElem?_cons_succ]; exact ih'

end UxVerif
