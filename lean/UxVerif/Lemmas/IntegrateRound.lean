/-
  Rounding-error analysis of the weighted sum of C06, for ANY order of summation.

  `SumTree` is an arbitrary bracketing of the products area·value (left-to-right loop, pairwise
  summation, SIMD lanes that are combined at the end, BLAS blocks … are all such trees, over any
  permutation of the terms).  `Rounded u t x` is the standard model of floating-point arithmetic
  with unit round-off `u`: every product and every addition of the tree is delivered with a
  relative error of at most `u` (a fused multiply-add is the case "product error 0").

  Main results (over every linearly ordered commutative ring: ℚ, ℝ, …):
  * `rounded_err`      |x − exact| ≤ ((1+u)^(height+1) − 1)·Σ|terms|
  * `rounded_err_size` |x − exact| ≤ ((1+u)^n − 1)·Σ|terms|,  n = number of terms
  * `pow_sub_one_le`   (1+u)^n − 1 ≤ 2·n·u   when n·u ≤ 1
  * `rounded_err_linear` |x − exact| ≤ 2·n·u·Σ|terms|
-/
import Mathlib.Algebra.Order.Ring.Abs
import Mathlib.Tactic.Ring
import Mathlib.Tactic.Linarith
import Mathlib.Tactic.Positivity
import UxVerif.Lemmas.Integrate

namespace UxVerif.Integrate

/-- a summation order: any binary tree whose leaves are (area, value) pairs -/
inductive SumTree (K : Type) where
  | leaf (a v : K)
  | add (l r : SumTree K)

namespace SumTree
variable {K : Type}

/-- the terms in tree order -/
def leaves : SumTree K → List (K × K)
  | leaf a v => [(a, v)]
  | add l r => l.leaves ++ r.leaves

def height : SumTree K → Nat
  | leaf _ _ => 0
  | add l r => max l.height r.height + 1

/-- the left-to-right loop `((0 + a₀v₀) + a₁v₁) + …` over a non-empty list of pairs -/
def chain (p : K × K) : List (K × K) → SumTree K
  | [] => leaf p.1 p.2
  | q :: qs => chain' (leaf p.1 p.2) (q :: qs)
where
  chain' (acc : SumTree K) : List (K × K) → SumTree K
    | [] => acc
    | q :: qs => chain' (add acc (leaf q.1 q.2)) qs

variable [CommRing K] [LinearOrder K] [IsStrictOrderedRing K]

/-- the exact value Σ a·v -/
def exact : SumTree K → K
  | leaf a v => a * v
  | add l r => l.exact + r.exact

/-- Σ |a·v| -/
def absSum : SumTree K → K
  | leaf a v => |a * v|
  | add l r => l.absSum + r.absSum

end SumTree

open SumTree

section Ordered
variable {K : Type} [CommRing K] [LinearOrder K] [IsStrictOrderedRing K]

/-- **standard model of floating-point arithmetic** with unit round-off `u`: `x` is a possible
    computed value of the bracketing `t` -/
inductive Rounded (u : K) : SumTree K → K → Prop
  | leaf (a v δ : K) : |δ| ≤ u → Rounded u (.leaf a v) (a * v * (1 + δ))
  | add {l r : SumTree K} {xl xr : K} (δ : K) : Rounded u l xl → Rounded u r xr → |δ| ≤ u →
      Rounded u (.add l r) ((xl + xr) * (1 + δ))

theorem absSum_nonneg (t : SumTree K) : 0 ≤ t.absSum := by
  induction t with
  | leaf a v => exact abs_nonneg _
  | add l r ihl ihr => simp only [absSum]; linarith

theorem abs_exact_le (t : SumTree K) : |t.exact| ≤ t.absSum := by
  induction t with
  | leaf a v => exact le_refl _
  | add l r ihl ihr =>
    simp only [exact, absSum]
    exact (abs_add_le _ _).trans (add_le_add ihl ihr)

omit [CommRing K] [LinearOrder K] [IsStrictOrderedRing K] in
theorem height_lt_leaves (t : SumTree K) : t.height + 1 ≤ t.leaves.length := by
  induction t with
  | leaf a v => simp [height, leaves]
  | add l r ihl ihr => simp only [height, leaves, List.length_append]; omega

omit [LinearOrder K] [IsStrictOrderedRing K] in
theorem exact_eq_sum (t : SumTree K) : t.exact = sumL (t.leaves.map (fun p => p.1 * p.2)) := by
  induction t with
  | leaf a v => simp [exact, leaves, sumL]
  | add l r ihl ihr =>
    simp only [exact, leaves, List.map_append, ihl, ihr]
    generalize List.map (fun p : K × K => p.1 * p.2) l.leaves = xs
    induction xs with
    | nil => simp [sumL]
    | cons x xs ih => simp only [List.cons_append, sumL, ← ih]; ring

theorem absSum_eq_sum (t : SumTree K) : t.absSum = sumL (t.leaves.map (fun p => |p.1 * p.2|)) := by
  induction t with
  | leaf a v => simp [absSum, leaves, sumL]
  | add l r ihl ihr =>
    simp only [absSum, leaves, List.map_append, ihl, ihr]
    generalize List.map (fun p : K × K => |p.1 * p.2|) l.leaves = xs
    induction xs with
    | nil => simp [sumL]
    | cons x xs ih => simp only [List.cons_append, sumL, ← ih]; ring

omit [CommRing K] [LinearOrder K] [IsStrictOrderedRing K] in
theorem chain'_leaves (acc : SumTree K) (qs : List (K × K)) :
    (chain.chain' acc qs).leaves = acc.leaves ++ qs := by
  induction qs generalizing acc with
  | nil => simp [chain.chain']
  | cons q qs ih => simp [chain.chain', ih, leaves]

omit [CommRing K] [LinearOrder K] [IsStrictOrderedRing K] in
/-- the left-to-right loop is one of the bracketings, with the terms in list order -/
theorem chain_leaves (p : K × K) (qs : List (K × K)) : (chain p qs).leaves = p :: qs := by
  cases qs with
  | nil => simp [chain, leaves]
  | cons q qs => simp [chain, chain'_leaves, leaves]

/-- non-vacuity for every bracketing: the exact value is one of the possible computed values -/
theorem rounded_exact {u : K} (hu : 0 ≤ u) (t : SumTree K) : Rounded u t t.exact := by
  induction t with
  | leaf a v =>
    have := Rounded.leaf (u := u) a v 0 (by simpa using hu)
    simpa [exact] using this
  | add l r ihl ihr =>
    have := Rounded.add (u := u) 0 ihl ihr (by simpa using hu)
    simpa [exact] using this

/-- **error of any summation order, by the depth of the bracketing** -/
theorem rounded_err {u : K} (hu : 0 ≤ u) {t : SumTree K} {x : K} (h : Rounded u t x) :
    |x - t.exact| ≤ ((1 + u) ^ (t.height + 1) - 1) * t.absSum := by
  have h1u : (1 : K) ≤ 1 + u := by linarith
  induction h with
  | leaf a v δ hδ =>
    simp only [exact, height, absSum, zero_add, pow_one]
    have e1 : a * v * (1 + δ) - a * v = δ * (a * v) := by ring
    have e2 : (1 + u - 1 : K) = u := by ring
    rw [e1, e2, abs_mul]
    exact mul_le_mul_of_nonneg_right hδ (abs_nonneg _)
  | @add l r xl xr δ _ _ hδ ihl ihr =>
    simp only [exact, height, absSum]
    set k := max l.height r.height + 1 with hk
    set γ : K := (1 + u) ^ k - 1 with hγ
    have hSl := absSum_nonneg l
    have hSr := absSum_nonneg r
    have hγl : (1 + u) ^ (l.height + 1) - 1 ≤ γ :=
      sub_le_sub_right (pow_le_pow_right₀ h1u (by omega)) 1
    have hγr : (1 + u) ^ (r.height + 1) - 1 ≤ γ :=
      sub_le_sub_right (pow_le_pow_right₀ h1u (by omega)) 1
    have hγ0 : 0 ≤ γ := sub_nonneg.mpr (one_le_pow₀ h1u)
    have el : |xl - l.exact| ≤ γ * l.absSum :=
      ihl.trans (mul_le_mul_of_nonneg_right hγl hSl)
    have er : |xr - r.exact| ≤ γ * r.absSum :=
      ihr.trans (mul_le_mul_of_nonneg_right hγr hSr)
    have al := abs_exact_le l
    have ar := abs_exact_le r
    have hsum : |xl + xr| ≤ (1 + γ) * (l.absSum + r.absSum) := by
      have e : xl + xr = (xl - l.exact) + (xr - r.exact) + (l.exact + r.exact) := by ring
      rw [e]
      calc |xl - l.exact + (xr - r.exact) + (l.exact + r.exact)|
          ≤ |xl - l.exact + (xr - r.exact)| + |l.exact + r.exact| := abs_add_le _ _
        _ ≤ (|xl - l.exact| + |xr - r.exact|) + (|l.exact| + |r.exact|) :=
            add_le_add (abs_add_le _ _) (abs_add_le _ _)
        _ ≤ (1 + γ) * (l.absSum + r.absSum) := by linarith
    have hprod : |δ * (xl + xr)| ≤ u * ((1 + γ) * (l.absSum + r.absSum)) := by
      rw [abs_mul]
      exact mul_le_mul hδ hsum (abs_nonneg _) hu
    have e : (xl + xr) * (1 + δ) - (l.exact + r.exact)
        = (xl - l.exact) + (xr - r.exact) + δ * (xl + xr) := by ring
    have hpow : (1 + u) ^ (k + 1) - 1 = γ + u * (1 + γ) := by
      rw [hγ, pow_succ]; ring
    rw [e, hpow]
    calc |xl - l.exact + (xr - r.exact) + δ * (xl + xr)|
        ≤ |xl - l.exact + (xr - r.exact)| + |δ * (xl + xr)| := abs_add_le _ _
      _ ≤ (|xl - l.exact| + |xr - r.exact|) + |δ * (xl + xr)| :=
          add_le_add (abs_add_le _ _) (le_refl _)
      _ ≤ (γ + u * (1 + γ)) * (l.absSum + r.absSum) := by
          have : (γ + u * (1 + γ)) * (l.absSum + r.absSum)
              = γ * l.absSum + γ * r.absSum + u * ((1 + γ) * (l.absSum + r.absSum)) := by ring
          rw [this]; linarith

/-- … by the number of terms (weaker, independent of the bracketing) -/
theorem rounded_err_size {u : K} (hu : 0 ≤ u) {t : SumTree K} {x : K} (h : Rounded u t x) :
    |x - t.exact| ≤ ((1 + u) ^ t.leaves.length - 1) * t.absSum := by
  have h1u : (1 : K) ≤ 1 + u := by linarith
  exact (rounded_err hu h).trans (mul_le_mul_of_nonneg_right
    (sub_le_sub_right (pow_le_pow_right₀ h1u (height_lt_leaves t)) 1) (absSum_nonneg t))

/-- `(1+u)ⁿ ≤ 1 + n·u + (n·u)²` as long as `n·u ≤ 1` -/
theorem pow_le_quadratic {u : K} (hu : 0 ≤ u) (n : Nat) (hn : (n : K) * u ≤ 1) :
    (1 + u) ^ n ≤ 1 + n * u + (n * u) ^ 2 := by
  induction n with
  | zero => simp
  | succ n ih =>
    have hn' : (n : K) * u ≤ 1 := by
      have : (n : K) * u ≤ ((n + 1 : Nat) : K) * u := by
        apply mul_le_mul_of_nonneg_right _ hu
        exact_mod_cast Nat.le_succ n
      linarith
    have ih := ih hn'
    have hn0 : (0 : K) ≤ n := Nat.cast_nonneg n
    have h1u : (0 : K) ≤ 1 + u := by linarith
    rw [pow_succ]
    have step : (1 + u) ^ n * (1 + u) ≤ (1 + n * u + (n * u) ^ 2) * (1 + u) :=
      mul_le_mul_of_nonneg_right ih h1u
    refine step.trans ?_
    push_cast
    -- n²u³ ≤ n·u²  because n·u ≤ 1
    have key : (n : K) * u * ((n : K) * u * u) ≤ 1 * ((n : K) * u * u) :=
      mul_le_mul_of_nonneg_right hn' (by positivity)
    have hu2 : 0 ≤ u * u := by positivity
    nlinarith [key, hu2]

/-- **(1+u)ⁿ − 1 ≤ 2·n·u** when `n·u ≤ 1` -/
theorem pow_sub_one_le {u : K} (hu : 0 ≤ u) (n : Nat) (hn : (n : K) * u ≤ 1) :
    (1 + u) ^ n - 1 ≤ 2 * n * u := by
  have h := pow_le_quadratic hu n hn
  have hnu : (0 : K) ≤ n * u := by positivity
  have : ((n : K) * u) ^ 2 ≤ n * u := by
    rw [pow_two]
    calc (n : K) * u * (n * u) ≤ 1 * (n * u) := mul_le_mul_of_nonneg_right hn hnu
      _ = n * u := one_mul _
  linarith

/-- **|computed − exact| ≤ 2·n·u·Σ|terms| for every order of summation** -/
theorem rounded_err_linear {u : K} (hu : 0 ≤ u) {t : SumTree K} {x : K} (h : Rounded u t x)
    (hn : (t.leaves.length : K) * u ≤ 1) :
    |x - t.exact| ≤ 2 * t.leaves.length * u * t.absSum :=
  (rounded_err_size hu h).trans
    (mul_le_mul_of_nonneg_right (pow_sub_one_le hu _ hn) (absSum_nonneg t))

end Ordered

end UxVerif.Integrate
