/-
  C02 → C03: the edge tables the C02 model builds from ANY standard-form face table meet C03's
  precondition `Incidence.Pre`, except for the manifold clause (an edge in at most two faces),
  which is a hypothesis about the mesh, not about the code.
-/
import UxVerif.Props.C02
import UxVerif.Lemmas.Keyed

namespace UxVerif.Pipeline
open UxVerif UxVerif.Edges UxVerif.Incidence UxVerif.C02

theorem real_of_std {n w : Nat} {r : List Int} (h : StdRow n w r) : real r = faceOf r := by
  have e := stdRow_eq h
  have hne := faceOf_ne_fill r
  generalize hk : faceOf r = k at e hne
  unfold real
  rw [e, List.filter_append]
  have h1 : k.filter (fun x => x != FILL) = k := by
    rw [List.filter_eq_self]; intro x hx; simpa using hne x hx
  have h2 : (List.replicate (w - k.length) FILL).filter (fun x => x != FILL) = [] := by
    rw [List.filter_eq_nil_iff]; intro x hx
    have := List.eq_of_mem_replicate hx
    simp [this]
  rw [h1, h2, List.append_nil]

theorem rowAt_eq_getElem (t : Table) (i : Nat) (hi : i < t.length) : rowAt t i = t[i] := by
  simp [rowAt, List.getD, List.getElem?_eq_getElem hi]

theorem nPerFace_getD {n w : Nat} {t : Table} (h : StdForm n w t) (f : Nat) (hf : f < t.length) :
    (nNodesPerFace t).getD f 0 = (faceOf (rowAt t f)).length := by
  have hN := nPerFace_ok h
  unfold NPerFaceOK at hN
  rw [hN, rowAt_eq_getElem t f hf]
  simp [List.getD, List.getElem?_eq_getElem hf]

/-- a real face-edge entry of the C02 model is a valid edge number -/
theorem faceEdges_valid {n w : Nat} {t : Table} (h : StdForm n w t) (f : Nat) (hf : f < t.length)
    (e : Int) (he : e ∈ faceEdgesOf (faceEdges t) (nNodesPerFace t) f) :
    0 ≤ e ∧ e < ((edges t).length : Int) := by
  obtain ⟨_, hrows⟩ := faceEdges_ok h
  obtain ⟨hlen, hrow⟩ := hrows f hf
  unfold faceEdgesOf at he
  rw [nPerFace_getD h f hf] at he
  obtain ⟨j, hj, rfl⟩ := List.getElem_of_mem he
  have hjk : j < (faceOf (rowAt t f)).length := by
    have := hj; simp [List.length_take] at this; omega
  have hjw : j < w := by
    have hstd := h _ (List.getElem_mem hf)
    rw [← rowAt_eq_getElem t f hf] at hstd
    have := length_takeWhile_le' (fun x => x != FILL) (rowAt t f)
    have hl := hstd.1
    unfold faceOf at hjk; omega
  have hr := hrow j hjw
  rw [if_pos hjk] at hr
  obtain ⟨s, _, e', he', _⟩ := hr
  have hent : entry (rowAt (faceEdges t) f) j
      = ((rowAt (faceEdges t) f).take (faceOf (rowAt t f)).length)[j] := by
    have hjl : j < (rowAt (faceEdges t) f).length := by rw [hlen]; exact hjw
    simp [entry, List.getD, List.getElem?_eq_getElem hjl, List.getElem_take]
  rw [← hent]
  unfold getI? at he'
  by_cases hneg : entry (rowAt (faceEdges t) f) j < 0
  · simp [hneg] at he'
  · simp only [hneg, if_false] at he'
    have hlt := (List.getElem?_eq_some_iff.mp he').1
    constructor
    · omega
    · omega

/-- every derived edge is the edge of some face slot (`1 ≤ incidence`) -/
theorem incidence_pos {n w : Nat} {t : Table} (h : StdForm n w t) (e : Nat)
    (he : e < (edges t).length) :
    1 ≤ incidence (faceEdges t) (nNodesPerFace t) e := by
  obtain ⟨hFElen, hrows⟩ := faceEdges_ok h
  -- the edge is a boundary segment of some row
  obtain ⟨r, hr, hseg⟩ := edge_is_seg h (edges t)[e] (List.getElem_mem he)
  obtain ⟨f, hf, rfl⟩ := List.getElem_of_mem hr
  obtain ⟨j, hj, hjs⟩ := List.getElem_of_mem hseg
  rw [length_rowSegs] at hj
  obtain ⟨hlen, hrow⟩ := hrows f hf
  have hrf := rowAt_eq_getElem t f hf
  have hstd := h _ (List.getElem_mem hf)
  have hjw : j < w := by
    have := length_takeWhile_le' (fun x => x != FILL) t[f]
    have hl := hstd.1
    unfold faceOf at hj; omega
  have hr' := hrow j hjw
  rw [hrf, if_pos hj] at hr'
  obtain ⟨s, hs, e', he', hse⟩ := hr'
  -- `s` is the j-th segment, i.e. the edge itself
  have hs' : s = (edges t)[e] := by
    have : (rowSegs t[f])[j]? = some (rowSegs t[f])[j] :=
      List.getElem?_eq_getElem (by rw [length_rowSegs]; exact hj)
    rw [this] at hs
    have := Option.mem_some_iff.mp hs
    rw [← this, hjs]
  -- the entry points at an edge equal (as a sorted pair) to the edge: same index by nodup
  have hnd : (edges t).Nodup := by
    have := edges_once h
    unfold EdgesOnce at this
    rwa [edges_map_sortPair h] at this
  unfold getI? at he'
  by_cases hneg : entry (rowAt (faceEdges t) f) j < 0
  · simp [hneg] at he'
  · simp only [hneg, if_false] at he'
    obtain ⟨hlt, hget⟩ := List.getElem?_eq_some_iff.mp he'
    have hfix : sortPair e' = e' := by
      have hmem : e' ∈ edges t := by rw [← hget]; exact List.getElem_mem hlt
      obtain ⟨r2, _, hs2⟩ := edge_is_seg h e' hmem
      exact rowSegs_sorted r2 e' hs2
    have heq : (edges t)[(entry (rowAt (faceEdges t) f) j).toNat] = (edges t)[e] := by
      rw [hget, ← hfix, hse, hs']
    have hidx : (entry (rowAt (faceEdges t) f) j).toNat = e :=
      (List.Nodup.getElem_inj_iff hnd).mp heq
    -- so `(e, f)` is one of the loop's events
    have hmemFE : entry (rowAt (faceEdges t) f) j
        ∈ faceEdgesOf (faceEdges t) (nNodesPerFace t) f := by
      unfold faceEdgesOf
      rw [nPerFace_getD h f hf, hrf]
      have hjl : j < (rowAt (faceEdges t) f).length := by rw [hlen]; exact hjw
      have : entry (rowAt (faceEdges t) f) j
          = ((rowAt (faceEdges t) f).take (faceOf t[f]).length)[j]'(by
              simp [List.length_take]; omega) := by
        simp [entry, List.getD, List.getElem?_eq_getElem hjl, List.getElem_take]
      rw [this]; exact List.getElem_mem _
    have hev : (e, Int.ofNat f) ∈ efEvents (faceEdges t) (nNodesPerFace t) := by
      unfold efEvents
      simp only [List.mem_flatMap, List.mem_range, List.mem_map, Prod.mk.injEq]
      exact ⟨f, by omega, _, hmemFE, hidx, rfl⟩
    have : Int.ofNat f ∈ feed (efEvents (faceEdges t) (nNodesPerFace t)) e :=
      (mem_feed _ _ _).mpr hev
    unfold incidence
    exact List.length_pos_of_mem this

end UxVerif.Pipeline
