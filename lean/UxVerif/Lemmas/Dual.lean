/-
  Helper lemmas for C18 (core Lean only): the selection loop of `_order_nodes` and the
  `correction` bookkeeping of `construct_faces`.
-/
import UxVerif.Model.Dual

namespace UxVerif.Dual
open UxVerif UxVerif.Incidence

/-- the laws of a strict total order given as a `Bool` relation (what `<` on the angle keys is
    assumed to be; IEEE `<` satisfies them on non-NaN values) -/
structure StrictOrder {K : Type} (lt : K → K → Bool) : Prop where
  irrefl : ∀ a, lt a a = false
  trans : ∀ a b c, lt a b = true → lt b c = true → lt a c = true
  total : ∀ a b, lt a b = true ∨ a = b ∨ lt b a = true

section order
variable {K : Type} {lt : K → K → Bool}

theorem StrictOrder.asymm (h : StrictOrder lt) {a b : K} (hab : lt a b = true) : lt b a = false := by
  cases hba : lt b a with
  | false => rfl
  | true =>
    have := h.trans a b a hab hba
    rw [h.irrefl] at this
    cases this

/-- `¬ b < a` and `¬ c < b` give `¬ c < a` -/
theorem StrictOrder.le_trans (h : StrictOrder lt) {a b c : K}
    (hab : lt b a = false) (hbc : lt c b = false) : lt c a = false := by
  cases hca : lt c a with
  | false => rfl
  | true =>
    rcases h.total a b with h1 | h1 | h1
    · have := h.trans c a b hca h1
      rw [hbc] at this; cases this
    · subst h1; rw [hbc] at hca; cases hca
    · rw [hab] at h1; cases h1

/-- recursive form of the inner loop -/
def pickFrom (lt : K → K → Bool) (cur : K) (best : Option (K × Int)) (B : K) :
    List (K × Int) → Option (K × Int)
  | [] => best
  | it :: rest =>
    if lt cur it.1 && lt it.1 B then pickFrom lt cur (some it) it.1 rest
    else pickFrom lt cur best B rest

theorem foldl_pickStep (cur : K) (items : List (K × Int)) (best : Option (K × Int)) (B : K) :
    (items.foldl (pickStep lt cur) (best, B)).1 = pickFrom lt cur best B items := by
  induction items generalizing best B with
  | nil => rfl
  | cons it rest ih =>
    simp only [List.foldl_cons, pickFrom, pickStep]
    split
    · exact ih _ _
    · exact ih _ _

theorem pick_eq_pickFrom (cur twoPi : K) (items : List (K × Int)) :
    pick lt cur twoPi items = pickFrom lt cur none twoPi items := foldl_pickStep cur items none twoPi

/-- what the inner loop returns: either the incoming candidate, or an item strictly between
    `cur` and the incoming bound; and it is not above any item in that window. -/
theorem pickFrom_spec (h : StrictOrder lt) (cur : K) (items : List (K × Int)) :
    ∀ (best : Option (K × Int)) (B : K),
      (pickFrom lt cur best B items = best ∨
        ∃ m ∈ items, pickFrom lt cur best B items = some m ∧ lt cur m.1 = true ∧ lt m.1 B = true) ∧
      (∀ x ∈ items, lt cur x.1 = true → lt x.1 B = true →
        ∃ m ∈ items, pickFrom lt cur best B items = some m ∧ lt cur m.1 = true ∧ lt m.1 B = true ∧
          lt x.1 m.1 = false) := by
  induction items with
  | nil => intro best B; exact ⟨Or.inl rfl, by intro x hx; cases hx⟩
  | cons it rest ih =>
    intro best B
    unfold pickFrom
    by_cases hc : (lt cur it.1 && lt it.1 B) = true
    · rw [if_pos hc]
      have hc' := Bool.and_eq_true_iff.mp hc
      obtain ⟨ha, hb⟩ := ih (some it) it.1
      -- the result is `some m` with `m = it` or `m ∈ rest` below `it`
      have hres : ∃ m ∈ it :: rest, pickFrom lt cur (some it) it.1 rest = some m ∧
          lt cur m.1 = true ∧ lt m.1 B = true ∧ lt it.1 m.1 = false := by
        rcases ha with ha | ⟨m, hm, hr, h1, h2⟩
        · exact ⟨it, List.mem_cons_self, ha, hc'.1, hc'.2, h.irrefl _⟩
        · exact ⟨m, List.mem_cons_of_mem _ hm, hr, h1, h.trans _ _ _ h2 hc'.2, h.asymm h2⟩
      refine ⟨Or.inr ?_, ?_⟩
      · obtain ⟨m, hm, hr, h1, h2, _⟩ := hres
        exact ⟨m, hm, hr, h1, h2⟩
      · intro x hx hx1 hx2
        rcases List.mem_cons.mp hx with rfl | hx
        · obtain ⟨m, hm, hr, h1, h2, h3⟩ := hres
          exact ⟨m, hm, hr, h1, h2, h3⟩
        · cases hxi : lt x.1 it.1 with
          | true =>
            obtain ⟨m, hm, hr, h1, h2, h3⟩ := hb x hx hx1 hxi
            exact ⟨m, List.mem_cons_of_mem _ hm, hr, h1, h.trans _ _ _ h2 hc'.2, h3⟩
          | false =>
            obtain ⟨m, hm, hr, h1, h2, h3⟩ := hres
            exact ⟨m, hm, hr, h1, h2, h.le_trans h3 hxi⟩
    · rw [if_neg hc]
      obtain ⟨ha, hb⟩ := ih best B
      refine ⟨?_, ?_⟩
      · rcases ha with ha | ⟨m, hm, hr⟩
        · exact Or.inl ha
        · exact Or.inr ⟨m, List.mem_cons_of_mem _ hm, hr⟩
      · intro x hx hx1 hx2
        rcases List.mem_cons.mp hx with rfl | hx
        · exact absurd (Bool.and_eq_true_iff.mpr ⟨hx1, hx2⟩) hc
        · obtain ⟨m, hm, hr⟩ := hb x hx hx1 hx2
          exact ⟨m, List.mem_cons_of_mem _ hm, hr⟩

/-- the inner loop returns THE smallest item above `cur` when it is unique -/
theorem pick_eq_some (h : StrictOrder lt) (cur twoPi : K) (items : List (K × Int)) (m : K × Int)
    (hm : m ∈ items) (h1 : lt cur m.1 = true) (h2 : lt m.1 twoPi = true)
    (hmin : ∀ x ∈ items, lt cur x.1 = true → lt x.1 m.1 = false ∧ (x.1 = m.1 → x = m)) :
    pick lt cur twoPi items = some m := by
  rw [pick_eq_pickFrom]
  obtain ⟨m', hm', hr, h1', _, h3⟩ := (pickFrom_spec h cur items none twoPi).2 m hm h1 h2
  obtain ⟨h4, h5⟩ := hmin m' hm' h1'
  rcases h.total m.1 m'.1 with h6 | h6 | h6
  · rw [h3] at h6; cases h6
  · rw [hr, h5 h6.symm]
  · rw [h4] at h6; cases h6

/-- the inner loop finds nothing when no key lies strictly between `cur` and `2π` -/
theorem pick_eq_none (h : StrictOrder lt) (cur twoPi : K) (items : List (K × Int))
    (hno : ∀ x ∈ items, ¬ (lt cur x.1 = true ∧ lt x.1 twoPi = true)) :
    pick lt cur twoPi items = none := by
  rw [pick_eq_pickFrom]
  rcases (pickFrom_spec h cur items none twoPi).1 with h1 | ⟨m, hm, _, h2, h3⟩
  · exact h1
  · exact absurd ⟨h2, h3⟩ (hno m hm)

/-- **selection = sorting.**  If `S` lists the items in strictly increasing key order, the outer
    loop started below a suffix of `S` (and not below anything before it) emits that suffix. -/
theorem steps_suffix (h : StrictOrder lt) (twoPi : K) (items S : List (K × Int))
    (hperm : S.Perm items) (hsorted : S.Pairwise (fun a b => lt a.1 b.1 = true))
    (hub : ∀ x ∈ items, lt x.1 twoPi = true) :
    ∀ (suf pre : List (K × Int)) (cur : K), S = pre ++ suf →
      (∀ x ∈ pre, lt cur x.1 = false) → (∀ x ∈ suf, lt cur x.1 = true) →
      steps lt twoPi items suf.length cur = suf.map (·.2) := by
  intro suf
  induction suf with
  | nil => intro pre cur _ _ _; rfl
  | cons m suf ih =>
    intro pre cur hS hpre hsuf
    have hsp : (pre ++ m :: suf).Pairwise (fun a b => lt a.1 b.1 = true) := hS ▸ hsorted
    have hp := List.pairwise_append.mp hsp
    have hms := List.pairwise_cons.mp hp.2.1
    have hmS : m ∈ S := by rw [hS]; simp
    have hmi : m ∈ items := hperm.mem_iff.mp hmS
    have hcm : lt cur m.1 = true := hsuf m List.mem_cons_self
    have hpick : pick lt cur twoPi items = some m := by
      refine pick_eq_some h cur twoPi items m hmi hcm (hub m hmi) ?_
      intro x hx hcx
      have hxS : x ∈ pre ++ m :: suf := hS ▸ hperm.mem_iff.mpr hx
      rcases List.mem_append.mp hxS with hx' | hx'
      · rw [hpre x hx'] at hcx; cases hcx
      · rcases List.mem_cons.mp hx' with rfl | hx''
        · exact ⟨h.irrefl _, fun _ => rfl⟩
        · have hlt := hms.1 x hx''
          refine ⟨h.asymm hlt, fun he => ?_⟩
          rw [he, h.irrefl] at hlt; cases hlt
    simp only [List.length_cons, steps, hpick, List.map_cons]
    congr 1
    refine ih (pre ++ [m]) m.1 (by rw [hS]; simp) ?_ hms.1
    intro x hx
    rcases List.mem_append.mp hx with hx | hx
    · exact h.asymm (hp.2.2 x hx m List.mem_cons_self)
    · rw [List.mem_singleton.mp hx]; exact h.irrefl _

/-- once nothing is found, every later position stays `FILL` -/
theorem steps_none (twoPi : K) (items : List (K × Int)) (cur : K)
    (hn : pick lt cur twoPi items = none) :
    ∀ f, steps lt twoPi items f cur = List.replicate f FILL := by
  intro f
  induction f with
  | zero => rfl
  | succ f ih => simp only [steps, hn, ih, List.replicate_succ]

/-- sorting the items by key (only used to STATE what the loop computes) -/
def sortByKey (lt : K → K → Bool) (items : List (K × Int)) : List (K × Int) :=
  items.mergeSort (fun a b => !lt b.1 a.1)

theorem sortByKey_perm (items : List (K × Int)) : (sortByKey lt items).Perm items :=
  List.mergeSort_perm _ _

theorem sortByKey_sorted (h : StrictOrder lt) (items : List (K × Int))
    (hkeys : items.Pairwise (fun a b => a.1 ≠ b.1)) :
    (sortByKey lt items).Pairwise (fun a b => lt a.1 b.1 = true) := by
  have hle : (sortByKey lt items).Pairwise (fun a b => (!lt b.1 a.1) = true) := by
    unfold sortByKey
    apply List.pairwise_mergeSort
    · intro a b c hab hbc
      simp only [Bool.not_eq_true'] at hab hbc ⊢
      exact h.le_trans hab hbc
    · intro a b
      cases hba : lt b.1 a.1 with
      | false => simp
      | true => simp [h.asymm hba]
  have hne : (sortByKey lt items).Pairwise (fun a b => a.1 ≠ b.1) :=
    ((sortByKey_perm items).pairwise_iff (fun hxy => Ne.symm hxy)).mpr hkeys
  refine (hle.and hne).imp ?_
  intro a b ⟨h1, h2⟩
  simp only [Bool.not_eq_true'] at h1
  rcases h.total a.1 b.1 with h3 | h3 | h3
  · exact h3
  · exact absurd h3 h2
  · rw [h1] at h3; cases h3

end order

/-! ### rows with padding only at the end -/

theorem mem_takeWhile_holds {α} (p : α → Bool) (l : List α) :
    ∀ x ∈ l.takeWhile p, p x = true := by
  induction l with
  | nil => simp
  | cons a l ih =>
    intro x hx
    rw [List.takeWhile_cons] at hx
    split at hx
    · rcases List.mem_cons.mp hx with rfl | h
      · assumption
      · exact ih x h
    · cases hx

theorem dropWhile_all {α} (p : α → Bool) (l : List α) (h : ∀ x ∈ l, p x = true) :
    l.dropWhile p = [] := by
  induction l with
  | nil => rfl
  | cons a l ih =>
    rw [List.dropWhile_cons, if_pos (h a List.mem_cons_self)]
    exact ih (fun x hx => h x (List.mem_cons_of_mem _ hx))

theorem endPadded_split (r : List Int) (h : EndPadded r) :
    real r = r.takeWhile (fun x => x != FILL) ∧ r.take (valence r) = real r := by
  have hsplit := List.takeWhile_append_dropWhile (p := fun x => x != FILL) (l := r)
  have h1 : (r.takeWhile (fun x => x != FILL)).filter (fun x => x != FILL)
      = r.takeWhile (fun x => x != FILL) := by
    rw [List.filter_eq_self]
    intro a ha
    exact mem_takeWhile_holds _ _ a ha
  have h2 : (r.dropWhile (fun x => x != FILL)).filter (fun x => x != FILL) = [] := by
    rw [List.filter_eq_nil_iff]
    intro a ha
    have := h a ha
    simp [this]
  have hreal : real r = r.takeWhile (fun x => x != FILL) := by
    unfold real
    conv => lhs; rw [← hsplit]
    rw [List.filter_append, h1, h2, List.append_nil]
  refine ⟨hreal, ?_⟩
  have hv : valence r = (r.takeWhile (fun x => x != FILL)).length := by
    unfold valence; rw [← hreal]; rfl
  rw [hv, hreal]
  conv => lhs; arg 2; rw [← hsplit]
  rw [List.take_left']
  rfl

theorem real_ne_fill (r : List Int) : ∀ x ∈ real r, x ≠ FILL := by
  intro x hx
  unfold real at hx
  have := (List.mem_filter.mp hx).2
  simpa using this

theorem endPadded_append_fill (l : List Int) (k : Nat) (hl : ∀ x ∈ l, x ≠ FILL) :
    EndPadded (l ++ List.replicate k FILL) ∧ real (l ++ List.replicate k FILL) = l := by
  constructor
  · unfold EndPadded
    intro x hx
    have : (l ++ List.replicate k FILL).dropWhile (fun x => x != FILL) = List.replicate k FILL := by
      rw [List.dropWhile_append]
      have hd : l.dropWhile (fun x => x != FILL) = [] := by
        apply dropWhile_all
        intro a ha; simpa using hl a ha
      rw [hd]
      simp only [List.isEmpty_nil, if_true]
      cases k with
      | zero => rfl
      | succ k => simp [List.replicate_succ]
    rw [this] at hx
    exact (List.mem_replicate.mp hx).2
  · unfold real
    rw [List.filter_append]
    have h1 : l.filter (fun x => x != FILL) = l := by
      rw [List.filter_eq_self]; intro a ha; simpa using hl a ha
    have h2 : (List.replicate k FILL).filter (fun x => x != FILL) = [] := by
      rw [List.filter_eq_nil_iff]; intro a ha
      simp [(List.mem_replicate.mp ha).2]
    rw [h1, h2, List.append_nil]

/-! ### the `correction` bookkeeping of `construct_faces` -/

/-- the per-node step of the loop -/
def cfStep (rowOf : Nat → Nat → List Int → List Int) (NF : Table) (W : Nat)
    (st : Nat × Table) (i : Nat) : Nat × Table :=
  let r := rowAt NF i
  if valence r < 3 then (st.1 + 1, st.2) else (st.1, st.2.set (i - st.1) (rowOf W i r))

def keptUpTo (NF : Table) (m : Nat) : List Nat :=
  (List.range m).filter (fun i => decide (3 ≤ valence (rowAt NF i)))

theorem keptUpTo_succ (NF : Table) (m : Nat) :
    keptUpTo NF (m + 1) = keptUpTo NF m ++ (if 3 ≤ valence (rowAt NF m) then [m] else []) := by
  unfold keptUpTo
  rw [List.range_succ, List.filter_append]
  congr 1
  by_cases h : 3 ≤ valence (rowAt NF m) <;> simp [h]

theorem keptUpTo_length_le (NF : Table) (m : Nat) : (keptUpTo NF m).length ≤ m := by
  unfold keptUpTo
  calc _ ≤ (List.range m).length := List.length_filter_le _ _
    _ = m := List.length_range

theorem keptUpTo_mono (NF : Table) {m n : Nat} (h : m ≤ n) :
    (keptUpTo NF m).length ≤ (keptUpTo NF n).length := by
  induction n with
  | zero => have : m = 0 := by omega
            subst this; exact Nat.le_refl _
  | succ n ih =>
    by_cases hm : m = n + 1
    · subst hm; exact Nat.le_refl _
    · have := ih (by omega)
      rw [keptUpTo_succ, List.length_append]; omega

/-- loop invariant: after the first `m` nodes, `correction = m − kept`, and the table holds the
    rows built so far followed by the still untouched `FILL` rows. -/
theorem cf_invariant (rowOf : Nat → Nat → List Int → List Int) (NF : Table) (W cnt : Nat)
    (fillRow : List Int) (n : Nat) (hcnt : cnt = (keptUpTo NF n).length) :
    ∀ m, m ≤ n →
      (List.range m).foldl (cfStep rowOf NF W) (0, List.replicate cnt fillRow)
        = (m - (keptUpTo NF m).length,
           (keptUpTo NF m).map (fun i => rowOf W i (rowAt NF i))
             ++ List.replicate (cnt - (keptUpTo NF m).length) fillRow) := by
  intro m
  induction m with
  | zero => intro _; simp [keptUpTo]
  | succ m ih =>
    intro hm
    rw [List.range_succ, List.foldl_append, ih (by omega)]
    simp only [List.foldl_cons, List.foldl_nil]
    have hle := keptUpTo_length_le NF m
    have hmono := keptUpTo_mono NF hm
    rw [keptUpTo_succ] at hmono ⊢
    unfold cfStep
    by_cases hv : valence (rowAt NF m) < 3
    · have h3 : ¬ 3 ≤ valence (rowAt NF m) := by omega
      simp only [hv, if_true, h3, if_false, List.append_nil]
      congr 1
      omega
    · have h3 : 3 ≤ valence (rowAt NF m) := by omega
      simp only [hv, if_false, h3, if_true, List.length_append, List.length_cons, List.length_nil,
        List.map_append, List.map_cons, List.map_nil] at hmono ⊢
      have hidx : m - (m - (keptUpTo NF m).length) = (keptUpTo NF m).length := by omega
      rw [hidx]
      congr 1
      · omega
      · have hk : cnt - (keptUpTo NF m).length = (cnt - ((keptUpTo NF m).length + 1)) + 1 := by
          omega
        rw [hk, List.replicate_succ]
        have hl : ((keptUpTo NF m).map (fun i => rowOf W i (rowAt NF i))).length
            = (keptUpTo NF m).length := List.length_map _
        rw [List.set_append_right _ _ (by rw [hl]; exact Nat.le_refl _), hl, Nat.sub_self]
        simp

theorem countP_eq_keptUpTo (NF : Table) :
    NF.countP (fun r => decide (2 < valence r)) = (keptUpTo NF NF.length).length := by
  have hNF : NF = (List.range NF.length).map (rowAt NF) := by
    apply List.ext_getElem
    · simp
    · intro i h1 h2
      simp [rowAt, List.getD, h1]
  conv => lhs; rw [hNF]
  rw [List.countP_map, List.countP_eq_length_filter]
  unfold keptUpTo
  congr 1

/-! ### any schedule of the per-node iterations gives the same table -/

theorem keptBefore_eq (NF : Table) (i : Nat) : keptBefore NF i = (keptUpTo NF i).length := rfl

theorem keptBefore_lt_of_lt (NF : Table) {j i : Nat} (hji : j < i)
    (hj : 3 ≤ valence (rowAt NF j)) : keptBefore NF j < keptBefore NF i := by
  rw [keptBefore_eq, keptBefore_eq]
  have h1 := keptUpTo_mono NF (show j + 1 ≤ i by omega)
  rw [keptUpTo_succ, List.length_append] at h1
  simp only [hj, if_true, List.length_cons, List.length_nil] at h1
  omega

theorem keptBefore_inj (NF : Table) {i j : Nat} (hi : 3 ≤ valence (rowAt NF i))
    (hj : 3 ≤ valence (rowAt NF j)) (h : keptBefore NF i = keptBefore NF j) : i = j := by
  rcases Nat.lt_trichotomy i j with hlt | heq | hlt
  · have := keptBefore_lt_of_lt NF hlt hi; omega
  · exact heq
  · have := keptBefore_lt_of_lt NF hlt hj; omega

/-- the kept node written at position `keptBefore NF i` of the kept list is `i` itself -/
theorem keptUpTo_get (NF : Table) (n i : Nat) (hin : i < n) (hi : 3 ≤ valence (rowAt NF i)) :
    (keptUpTo NF n)[keptBefore NF i]? = some i := by
  have hsplit : List.range n = List.range (i + 1)
      ++ List.map (fun x => i + 1 + x) (List.range (n - (i + 1))) := by
    have := @List.range_add (i + 1) (n - (i + 1))
    rw [show i + 1 + (n - (i + 1)) = n by omega] at this
    exact this
  have h1 : keptUpTo NF n = keptUpTo NF (i + 1)
      ++ (List.map (fun x => i + 1 + x) (List.range (n - (i + 1)))).filter
          (fun j => decide (3 ≤ valence (rowAt NF j))) := by
    unfold keptUpTo
    rw [hsplit, List.filter_append]
  rw [h1, keptUpTo_succ]
  simp only [hi, if_true, keptBefore_eq]
  rw [List.append_assoc, List.getElem?_append_right (Nat.le_refl _), Nat.sub_self]
  rfl

theorem schedStep_length (rowOf : Nat → Nat → List Int → List Int) (NF : Table) (W : Nat)
    (T : Table) (i : Nat) : (schedStep rowOf NF W T i).length = T.length := by
  unfold schedStep; split <;> simp

theorem sched_fold_length (rowOf : Nat → Nat → List Int → List Int) (NF : Table) (W : Nat)
    (l : List Nat) (T : Table) : (l.foldl (schedStep rowOf NF W) T).length = T.length := by
  induction l generalizing T with
  | nil => rfl
  | cons j l ih => rw [List.foldl_cons, ih, schedStep_length]

/-- positions nobody in `l` writes to keep their content -/
theorem sched_fold_untouched (rowOf : Nat → Nat → List Int → List Int) (NF : Table) (W : Nat)
    (l : List Nat) (T : Table) (k : Nat)
    (h : ∀ j ∈ l, 3 ≤ valence (rowAt NF j) → keptBefore NF j ≠ k) :
    (l.foldl (schedStep rowOf NF W) T)[k]? = T[k]? := by
  induction l generalizing T with
  | nil => rfl
  | cons j l ih =>
    rw [List.foldl_cons, ih _ (fun j' hj' => h j' (List.mem_cons_of_mem _ hj'))]
    unfold schedStep
    split
    · rfl
    · rename_i hv
      have := h j List.mem_cons_self (by omega)
      rw [List.getElem?_set_ne this]

/-- a kept node of the schedule finds its own row at its own position, whatever ran before or after -/
theorem sched_fold_get (rowOf : Nat → Nat → List Int → List Int) (NF : Table) (W : Nat)
    (l : List Nat) (T : Table) (i : Nat) (hi : 3 ≤ valence (rowAt NF i)) (hmem : i ∈ l)
    (hlen : keptBefore NF i < T.length) :
    (l.foldl (schedStep rowOf NF W) T)[keptBefore NF i]? = some (rowOf W i (rowAt NF i)) := by
  induction l generalizing T with
  | nil => cases hmem
  | cons j l ih =>
    rw [List.foldl_cons]
    by_cases hin : i ∈ l
    · exact ih _ hin (by rw [schedStep_length]; exact hlen)
    · have hji : j = i := by
        rcases List.mem_cons.mp hmem with h | h
        · exact h.symm
        · exact absurd h hin
      subst hji
      rw [sched_fold_untouched]
      · unfold schedStep
        have : ¬ valence (rowAt NF j) < 3 := by omega
        rw [if_neg this, List.getElem?_set_self hlen]
      · intro j' hj' hk heq
        exact hin (keptBefore_inj NF hk hi heq ▸ hj')

end UxVerif.Dual
