/-
  Double counting: if a duplicate-free list `L` covers every element of `S`, then summing over
  `L` the number of occurrences in `S` gives `|S|`.  (The handshake lemma of C02.)
-/
import Mathlib.Algebra.BigOperators.Group.List.Lemmas

namespace UxVerif

theorem sum_count_cover {α : Type} [BEq α] [LawfulBEq α] (L S : List α) (hL : L.Nodup)
    (hcov : ∀ x ∈ S, x ∈ L) : (L.map (fun x => S.count x)).sum = S.length := by
  induction S with
  | nil => simp
  | cons a S ih =>
    have ih' := ih (fun x hx => hcov x (List.mem_cons_of_mem _ hx))
    have ha : a ∈ L := hcov a (by simp)
    have h1 : (L.map (fun x => (a :: S).count x))
        = L.map (fun x => S.count x + (if a == x then 1 else 0)) := by
      apply List.map_congr_left
      intro x _
      rw [List.count_cons]
    rw [h1, List.sum_map_add, ih']
    have h2 : (L.map (fun x => if a == x then 1 else 0)).sum = L.count a := by
      clear h1 ih ih' hcov hL ha
      induction L with
      | nil => simp
      | cons b L ihL =>
        simp only [List.map_cons, List.sum_cons, ihL, List.count_cons]
        have : (a == b) = (b == a) := BEq.comm
        rw [this]; omega
    rw [h2, List.count_eq_one_of_mem hL ha]
    simp

end UxVerif
