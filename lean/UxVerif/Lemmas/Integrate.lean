/-
  Helper lemmas for C06: the weighted sum `dot`, the row-major reshape `rowsOf`, index
  arithmetic of `ravel`, re-indexing by a permutation.  Everything is proved for unbounded lists
  over an arbitrary commutative semiring.
-/
import Mathlib.Tactic.Ring
import UxVerif.Model.Integrate

namespace UxVerif.Integrate

section Semiring
variable {K : Type} [CommSemiring K]

@[simp] theorem dot_nil_left (r : List K) : dot ([] : List K) r = 0 := by
  cases r <;> rfl

@[simp] theorem dot_nil_right (a : List K) : dot a ([] : List K) = 0 := by
  cases a <;> rfl

@[simp] theorem dot_cons (x y : K) (a r : List K) : dot (x :: a) (y :: r) = x * y + dot a r := rfl

/-- additivity of the weighted sum in the data -/
theorem dot_add (a : List K) : ∀ (r1 r2 : List K), r1.length = r2.length →
    dot a (List.zipWith (· + ·) r1 r2) = dot a r1 + dot a r2 := by
  induction a with
  | nil => intro r1 r2 _; simp
  | cons x a ih =>
    intro r1 r2 h
    cases r1 with
    | nil => cases r2 with
      | nil => simp
      | cons _ _ => simp at h
    | cons y1 r1 => cases r2 with
      | nil => simp at h
      | cons y2 r2 =>
        simp only [List.zipWith_cons_cons, dot_cons]
        rw [ih r1 r2 (by simpa using h)]
        ring

/-- homogeneity of the weighted sum in the data -/
theorem dot_smul (c : K) (a : List K) : ∀ (r : List K),
    dot a (r.map (c * ·)) = c * dot a r := by
  induction a with
  | nil => intro r; simp
  | cons x a ih =>
    intro r
    cases r with
    | nil => simp
    | cons y r =>
      simp only [List.map_cons, dot_cons]
      rw [ih r]; ring

/-- the weighted sum of the constant 1 is the sum of the weights -/
theorem dot_ones (a : List K) : dot a (List.replicate a.length (1 : K)) = sumL a := by
  induction a with
  | nil => rfl
  | cons x a ih =>
    simp only [List.length_cons, List.replicate_succ, dot_cons, sumL]
    rw [ih]; ring

/-- the weighted sum as the sum of the products of the zipped pairs -/
theorem dot_eq_sum_zip (a : List K) : ∀ (r : List K),
    dot a r = sumL ((a.zip r).map (fun q => q.1 * q.2)) := by
  induction a with
  | nil => intro r; simp [sumL]
  | cons x a ih =>
    intro r
    cases r with
    | nil => simp [sumL]
    | cons y r => simp only [List.zip_cons_cons, List.map_cons, dot_cons, sumL]; rw [ih r]

theorem sumL_perm {l l' : List K} (h : l.Perm l') : sumL l = sumL l' := by
  induction h with
  | nil => rfl
  | cons x _ ih => simp only [sumL]; rw [ih]
  | swap x y l => simp only [sumL]; ring
  | trans _ _ ih1 ih2 => rw [ih1, ih2]

/-- **the weighted sum only depends on the multiset of (area, value) pairs** -/
theorem dot_perm {a r a' r' : List K} (h : (a.zip r).Perm (a'.zip r')) : dot a r = dot a' r' := by
  rw [dot_eq_sum_zip, dot_eq_sum_zip]
  exact sumL_perm (h.map _)

end Semiring

/-! ### `rowsOf` (reshape) -/
section Rows
variable {K : Type}

@[simp] theorem rowsOf_length (m n : Nat) (l : List K) : (rowsOf m n l).length = m := by
  induction m generalizing l with
  | zero => rfl
  | succ m ih => simp [rowsOf, ih]

theorem rowsOf_getElem? (m n : Nat) (l : List K) (i : Nat) (hi : i < m) :
    (rowsOf m n l)[i]? = some (rowAt n l i) := by
  induction m generalizing l i with
  | zero => omega
  | succ m ih =>
    cases i with
    | zero => simp [rowsOf, rowAt]
    | succ i =>
      simp only [rowsOf, List.getElem?_cons_succ]
      rw [ih (l.drop n) i (by omega)]
      simp only [rowAt, List.drop_drop]
      congr 3
      rw [Nat.succ_mul]; omega

theorem rowsOf_map {L : Type} (f : K → L) (m n : Nat) (l : List K) :
    rowsOf m n (l.map f) = (rowsOf m n l).map (List.map f) := by
  induction m generalizing l with
  | zero => rfl
  | succ m ih =>
    simp only [rowsOf, List.map_cons]
    rw [← List.map_drop, ih, List.map_take]

theorem rowsOf_row_length (m n : Nat) (l : List K) (h : l.length = m * n) :
    ∀ r ∈ rowsOf m n l, r.length = n := by
  induction m generalizing l with
  | zero => intro r hr; simp [rowsOf] at hr
  | succ m ih =>
    intro r hr
    simp only [rowsOf, List.mem_cons] at hr
    rw [Nat.succ_mul] at h
    rcases hr with rfl | hr
    · simp; omega
    · exact ih (l.drop n) (by simp; omega) r hr

theorem rowsOf_flatten (n : Nat) (rows : List (List K)) (h : ∀ r ∈ rows, r.length = n) :
    rowsOf rows.length n rows.flatten = rows := by
  induction rows with
  | nil => rfl
  | cons r rs ih =>
    have hr : r.length = n := h r (by simp)
    simp only [List.length_cons, rowsOf, List.flatten_cons]
    rw [List.take_left' hr, List.drop_left' hr, ih (fun x hx => h x (by simp [hx]))]

theorem rowAt_length (n : Nat) (l : List K) (i m : Nat) (h : l.length = m * n) (hi : i < m) :
    (rowAt n l i).length = n := by
  have hmem : rowAt n l i ∈ rowsOf m n l := by
    have := rowsOf_getElem? m n l i hi
    exact List.mem_of_getElem? this
  exact rowsOf_row_length m n l h _ hmem

theorem rowAt_getElem? (n : Nat) (l : List K) (i f : Nat) (hf : f < n) :
    (rowAt n l i)[f]? = l[i * n + f]? := by
  simp [rowAt, hf]

end Rows

/-! ### shapes and row-major indices -/

theorem prodL_append (s t : List Nat) : prodL (s ++ t) = prodL s * prodL t := by
  induction s with
  | nil => simp [prodL]
  | cons x s ih => simp [prodL, ih, Nat.mul_assoc]

theorem ravel_lt (s idx : List Nat) (h : InShape s idx) : ravel s idx < prodL s := by
  induction s generalizing idx with
  | nil => cases idx <;> simp [ravel, prodL]
  | cons x s ih =>
    cases idx with
    | nil => simp [InShape] at h
    | cons i is =>
      obtain ⟨hi, hr⟩ := h
      have := ih is hr
      simp only [ravel, prodL]
      calc i * prodL s + ravel s is < i * prodL s + prodL s := by omega
        _ = (i + 1) * prodL s := by rw [Nat.succ_mul]
        _ ≤ x * prodL s := Nat.mul_le_mul_right _ hi

/-- the flat index of `(idx, f)` in shape `lead ++ [n]` is `ravel lead idx · n + f` -/
theorem ravel_snoc (lead idx : List Nat) (n f : Nat) (h : InShape lead idx) :
    ravel (lead ++ [n]) (idx ++ [f]) = ravel lead idx * n + f := by
  induction lead generalizing idx with
  | nil =>
    cases idx with
    | nil => simp [ravel, prodL]
    | cons _ _ => simp [InShape] at h
  | cons x s ih =>
    cases idx with
    | nil => simp [InShape] at h
    | cons i is =>
      obtain ⟨_, hr⟩ := h
      simp only [List.cons_append, ravel, prodL_append, prodL, Nat.mul_one]
      rw [ih is hr, Nat.add_mul, Nat.mul_assoc, Nat.add_assoc]

theorem dropLast_getLast {α} (l : List α) (x : α) (h : l.getLast? = some x) :
    l = l.dropLast ++ [x] := by
  induction l with
  | nil => simp at h
  | cons a l ih =>
    cases l with
    | nil => simp at h; simp [h]
    | cons b l =>
      have : (b :: l).getLast? = some x := by simpa [List.getLast?_cons_cons] using h
      have := ih this
      simp only [List.dropLast_cons_cons, List.cons_append]
      rw [← this]

/-! ### re-indexing by a list of positions -/
section Reindex
variable {K : Type}

/-- `l[p]` (NumPy fancy indexing by the position list `p`) -/
def reindex (p : List Nat) (l : List K) : List K := p.filterMap (l[·]?)

theorem reindex_range (l : List K) : reindex (List.range l.length) l = l := by
  induction l with
  | nil => rfl
  | cons x xs ih =>
    unfold reindex at ih ⊢
    rw [List.length_cons, List.range_succ_eq_map, List.filterMap_cons]
    simp only [List.getElem?_cons_zero, List.filterMap_map]
    congr 1

theorem reindex_perm {p : List Nat} {n : Nat} (hp : p.Perm (List.range n)) (l : List K)
    (hl : l.length = n) : (reindex p l).Perm l := by
  have := hp.filterMap (l[·]?)
  subst hl
  unfold reindex
  rw [show List.filterMap (l[·]?) (List.range l.length) = l from reindex_range l] at this
  exact this

theorem reindex_length {p : List Nat} {n : Nat} (hp : p.Perm (List.range n)) (l : List K)
    (hl : l.length = n) : (reindex p l).length = n := by
  rw [(reindex_perm hp l hl).length_eq, hl]

theorem reindex_zip (p : List Nat) (a r : List K) (h : a.length = r.length) :
    (reindex p a).zip (reindex p r) = reindex p (a.zip r) := by
  induction p with
  | nil => rfl
  | cons i p ih =>
    unfold reindex at ih ⊢
    simp only [List.filterMap_cons]
    by_cases hi : i < a.length
    · have hi' : i < r.length := h ▸ hi
      have hz : i < (a.zip r).length := by simp; omega
      simp only [List.getElem?_eq_getElem hi, List.getElem?_eq_getElem hi',
        List.getElem?_eq_getElem hz, List.zip_cons_cons, ih, List.getElem_zip]
    · have hi' : ¬ i < r.length := h ▸ hi
      have hz : ¬ i < (a.zip r).length := by simp; omega
      simp only [List.getElem?_eq_none (Nat.le_of_not_lt hi),
        List.getElem?_eq_none (Nat.le_of_not_lt hi'),
        List.getElem?_eq_none (Nat.le_of_not_lt hz), ih]

end Reindex

/-- **relabelling the faces by any permutation `p`, simultaneously in the areas and in the data
    row, does not change the weighted sum** -/
theorem dot_reindex {K : Type} [CommSemiring K] {p : List Nat} {n : Nat}
    (hp : p.Perm (List.range n)) (a r : List K) (ha : a.length = n) (hr : r.length = n) :
    dot (reindex p a) (reindex p r) = dot a r := by
  apply dot_perm
  rw [reindex_zip p a r (by omega)]
  exact reindex_perm hp (a.zip r) (by simp; omega)

end UxVerif.Integrate
