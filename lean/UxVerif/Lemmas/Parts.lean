/-
  `get_face_node_partitions` is correct for EVERY sorting permutation (any `argsort`
  tie-breaking): `SortsBy N perm → PartsOK N.length N (partsOf N perm)`.
-/
import Mathlib.Algebra.BigOperators.Group.List.Lemmas
import Mathlib.Data.List.SplitLengths
import UxVerif.Lemmas.SortUniq
import UxVerif.Model.Aggregate

namespace UxVerif.Aggregate
open UxVerif

/-- running sums starting after `s` -/
def runSums (s : Nat) : List Nat → List Nat
  | [] => []
  | c :: cs => (s + c) :: runSums (s + c) cs

theorem foldl_change (cnt : Nat → Nat) (sizes : List Nat) (acc : List Nat) :
    sizes.foldl (fun acc e => acc ++ [acc.getLastD 0 + cnt e]) acc
      = acc ++ runSums (acc.getLastD 0) (sizes.map cnt) := by
  induction sizes generalizing acc with
  | nil => simp [runSums]
  | cons e es ih =>
    simp only [List.foldl_cons, List.map_cons, runSums]
    rw [ih]
    simp

theorem changeOf_eq (N sizes : List Nat) :
    changeOf N sizes = 0 :: runSums 0 (sizes.map (fun e => N.count e)) := by
  unfold changeOf
  rw [foldl_change (fun e => N.count e)]
  simp

theorem runSums_getD (cs : List Nat) (s k : Nat) (hk : k ≤ cs.length) :
    (s :: runSums s cs).getD k 0 = s + (cs.take k).sum := by
  induction cs generalizing s k with
  | nil =>
    have : k = 0 := by simpa using hk
    subst this; simp
  | cons c cs ih =>
    cases k with
    | zero => simp
    | succ k =>
      have hk' : k ≤ cs.length := by simpa using hk
      have := ih (s + c) k hk'
      simp only [runSums, List.getD_cons_succ, List.take_succ_cons, List.sum_cons]
      rw [this]; omega

/-- a `≤`-sorted list whose elements are all `≥ e`: the copies of `e` come first -/
theorem sorted_split_min (e : Nat) (vals : List Nat) (hv : vals.Pairwise (· ≤ ·))
    (hge : ∀ v ∈ vals, e ≤ v) :
    vals = List.replicate (vals.count e) e ++ vals.filter (fun v => v ≠ e) := by
  induction vals with
  | nil => simp
  | cons v vs ih =>
    have hp := List.pairwise_cons.mp hv
    by_cases hve : v = e
    · subst hve
      have := ih hp.2 (fun w hw => hge w (List.mem_cons_of_mem _ hw))
      simp only [List.count_cons_self, List.replicate_succ, List.cons_append, ne_eq,
        not_true_eq_false, decide_false, Bool.false_eq_true, not_false_eq_true, List.filter_cons_of_neg]
      exact congrArg _ this
    · have hlt : e < v := by
        have := hge v (by simp); omega
      have hc : (v :: vs).count e = 0 := by
        rw [List.count_eq_zero]
        intro hmem
        rcases List.mem_cons.mp hmem with h | h
        · exact hve h.symm
        · have := hp.1 e h; omega
      have hf : (v :: vs).filter (fun w => w ≠ e) = v :: vs := by
        rw [List.filter_eq_self]
        intro w hw
        rcases List.mem_cons.mp hw with h | h
        · subst h; simpa using hve
        · have := hp.1 w h
          have : w ≠ e := by omega
          simpa using this
      rw [hc, hf]; simp

/-- a `≤`-sorted list all of whose values occur in the strictly increasing list `sizes` is the
    concatenation, in that order, of its blocks of equal values -/
theorem sorted_decomp (sizes vals : List Nat) (hs : sizes.Pairwise (· < ·))
    (hv : vals.Pairwise (· ≤ ·)) (hm : ∀ v ∈ vals, v ∈ sizes) :
    vals = (sizes.map (fun e => List.replicate (vals.count e) e)).flatten := by
  induction sizes generalizing vals with
  | nil =>
    cases vals with
    | nil => rfl
    | cons v vs => exact absurd (hm v (by simp)) (by simp)
  | cons e rest ih =>
    have hs' := List.pairwise_cons.mp hs
    have hge : ∀ v ∈ vals, e ≤ v := by
      intro v hvm
      rcases List.mem_cons.mp (hm v hvm) with h | h
      · omega
      · have := hs'.1 v h; omega
    have hsplit := sorted_split_min e vals hv hge
    have hv' : (vals.filter (fun v => v ≠ e)).Pairwise (· ≤ ·) := hv.filter _
    have hm' : ∀ v ∈ vals.filter (fun v => v ≠ e), v ∈ rest := by
      intro v hvm
      have h1 := List.mem_filter.mp hvm
      rcases List.mem_cons.mp (hm v h1.1) with h | h
      · have : v ≠ e := by simpa using h1.2
        exact absurd h this
      · exact h
    have ih' := ih (vals.filter (fun v => v ≠ e)) hs'.2 hv' hm'
    have hcount : rest.map (fun e' => List.replicate ((vals.filter (fun v => v ≠ e)).count e') e')
        = rest.map (fun e' => List.replicate (vals.count e') e') := by
      apply List.map_congr_left
      intro e' he'
      have hne : e' ≠ e := by have := hs'.1 e' he'; omega
      have : (vals.filter (fun v => v ≠ e)).count e' = vals.count e' := by
        rw [List.count_filter]; simpa using hne
      rw [this]
    rw [hcount] at ih'
    simp only [List.map_cons, List.flatten_cons]
    rw [← ih']
    exact hsplit

theorem uniqNat_mem (N : List Nat) (e : Nat) : e ∈ uniqNat N ↔ e ∈ N := by
  unfold uniqNat
  simp only [List.mem_map, mem_uniqInt]
  constructor
  · rintro ⟨a, ⟨b, hb, rfl⟩, rfl⟩; simpa using hb
  · intro h; exact ⟨(e : Int), ⟨e, h, rfl⟩, by simp⟩

theorem uniqNat_sorted (N : List Nat) : (uniqNat N).Pairwise (· < ·) := by
  unfold uniqNat
  rw [List.pairwise_map]
  have hs : SortedBy intLt (uniqInt (N.map Int.ofNat)) := sorted_sortUniqBy intLt_strictTotal _
  unfold SortedBy at hs
  refine List.Pairwise.imp_of_mem ?_ hs
  intro a b ha hb hab
  have ha' := (mem_uniqInt a _).mp ha
  have hb' := (mem_uniqInt b _).mp hb
  obtain ⟨x, _, rfl⟩ := List.mem_map.mp ha'
  obtain ⟨y, _, rfl⟩ := List.mem_map.mp hb'
  simp only [intLt, decide_eq_true_eq, Int.ofNat_eq_natCast] at hab
  simp only [Int.ofNat_eq_natCast, Int.toNat_natCast]
  omega

theorem slice_flatten (L : List (List Nat)) (k : Nat) (hk : k < L.length) :
    slice L.flatten ((L.map List.length).take k).sum ((L.map List.length).take (k + 1)).sum
      = L[k] := by
  unfold slice
  rw [← List.drop_take]
  exact List.drop_take_succ_flatten_eq_getElem L k hk

/-- **`get_face_node_partitions` groups the faces by size for every sorting permutation.** -/
theorem partsOf_ok (N perm : List Nat) (h : SortsBy N perm) :
    PartsOK N.length N (partsOf N perm) := by
  obtain ⟨hlen, hall, hsorted⟩ := h
  -- `perm` is a permutation of the face numbers
  have hperm : (List.range N.length).Perm perm := by
    apply List.Subperm.perm_of_length_le
    · exact List.subperm_of_subset List.nodup_range (fun f hf => hall f (List.mem_range.mp hf))
    · simp [hlen]
  let g : Nat → Nat := fun f => N.getD f 0
  have hN : (List.range N.length).map g = N := by
    apply List.ext_getElem
    · simp
    · intro i h1 h2; simp [g, List.getD, List.getElem?_eq_getElem (by simpa using h1 : i < N.length)]
  have hvalsPerm : (perm.map g).Perm N := by
    have := (hperm.map g).symm
    rwa [hN] at this
  have hcnt : ∀ e, (perm.map g).count e = N.count e := fun e => hvalsPerm.count_eq e
  have hmem : ∀ v ∈ perm.map g, v ∈ uniqNat N := by
    intro v hv; exact (uniqNat_mem N v).mpr (hvalsPerm.mem_iff.mp hv)
  have hdec := sorted_decomp (uniqNat N) (perm.map g) (uniqNat_sorted N) hsorted hmem
  simp only [hcnt] at hdec
  -- the blocks and their lengths
  set sizes := uniqNat N with hsizes
  set Ls := sizes.map (fun e => List.replicate (N.count e) e) with hLs
  have hLsLen : Ls.map List.length = sizes.map (fun e => N.count e) := by
    simp [hLs, List.map_map, Function.comp_def]
  set cs := sizes.map (fun e => N.count e) with hcs
  have hsum : cs.sum = perm.length := by
    have := congrArg List.length hdec
    rw [List.length_map, List.length_flatten, hLsLen] at this
    exact this.symm
  -- the change indices are the prefix sums of the counts
  have hch : ∀ k, k ≤ sizes.length → (partsOf N perm).change.getD k 0 = (cs.take k).sum := by
    intro k hk
    show (changeOf N sizes).getD k 0 = _
    rw [changeOf_eq, runSums_getD _ _ _ (by simpa [hcs] using hk)]
    simp [hcs]
  -- the same split of `perm`
  set P := cs.splitLengths perm with hP
  have hPflat : P.flatten = perm := List.flatten_splitLengths perm cs (by omega)
  have hPlen : P.map List.length = cs := List.map_splitLengths_length perm cs (by omega)
  have hPl : P.length = sizes.length := by
    have := congrArg List.length hPlen; simpa [hcs] using this
  have hslicePerm : ∀ k (hk : k < sizes.length),
      slice perm ((partsOf N perm).change.getD k 0) ((partsOf N perm).change.getD (k + 1) 0)
        = P[k]'(by omega) := by
    intro k hk
    rw [hch k (by omega), hch (k + 1) (by omega)]
    have := slice_flatten P k (by omega)
    rw [hPflat, hPlen] at this
    exact this
  have hsliceVals : ∀ k (hk : k < sizes.length),
      (slice perm ((partsOf N perm).change.getD k 0)
        ((partsOf N perm).change.getD (k + 1) 0)).map g = Ls[k]'(by simp [hLs]; omega) := by
    intro k hk
    have h1 : (slice perm ((partsOf N perm).change.getD k 0)
        ((partsOf N perm).change.getD (k + 1) 0)).map g
        = slice (perm.map g) ((partsOf N perm).change.getD k 0)
            ((partsOf N perm).change.getD (k + 1) 0) := by
      simp [slice, List.map_take, List.map_drop]
    rw [h1, hch k (by omega), hch (k + 1) (by omega), hdec]
    have := slice_flatten Ls k (by simp [hLs]; omega)
    rw [hLsLen] at this
    exact this
  refine ⟨?_, ?_⟩
  · intro k hk f hf
    have hk' : k < sizes.length := hk
    change f ∈ slice perm _ _ at hf
    have hfperm : f ∈ perm := by
      rw [hslicePerm k hk'] at hf
      rw [← hPflat]
      exact List.mem_flatten.mpr ⟨_, List.getElem_mem _, hf⟩
    refine ⟨List.mem_range.mp (hperm.mem_iff.mpr hfperm), ?_⟩
    have hm : g f ∈ (slice perm ((partsOf N perm).change.getD k 0)
        ((partsOf N perm).change.getD (k + 1) 0)).map g := List.mem_map_of_mem hf
    rw [hsliceVals k hk'] at hm
    simp only [hLs, List.getElem_map] at hm
    have := List.eq_of_mem_replicate hm
    show N.getD f 0 = sizes.getD k 0
    have h2 : sizes.getD k 0 = sizes[k] := by
      simp [List.getD, List.getElem?_eq_getElem hk']
    rw [h2]
    exact this
  · intro f hf
    have hfperm : f ∈ perm := hall f hf
    rw [← hPflat] at hfperm
    obtain ⟨L, hL, hfL⟩ := List.mem_flatten.mp hfperm
    obtain ⟨k, hk, rfl⟩ := List.getElem_of_mem hL
    have hk' : k < sizes.length := by omega
    refine ⟨k, List.mem_range.mpr hk', ?_⟩
    change f ∈ slice perm _ _
    rw [hslicePerm k hk']
    exact hfL

end UxVerif.Aggregate
