/-
  Helper lemmas for C15: the NumPy index algebra of `Model/Polys.lean`
  (`np.delete` by an index list, `np.where(mask)[0]`, fancy indexing) reduces to plain `filter`s.
  Core Lean only.
-/
import UxVerif.Model.Polys

namespace UxVerif.Polys

/-! ### shells -/

theorem adj_cons_cons {α} (a b : α) (l : List α) : adj (a :: b :: l) = (a, b) :: adj (b :: l) := by
  simp [adj]

/-- pairs of `l ++ b :: t` = cyclic-style pairs of `l` closed by `b`, then the pairs of `b :: t` -/
theorem adj_append_cons {α} (a : α) (l : List α) (b : α) (t : List α) :
    adj ((a :: l) ++ b :: t) = List.zip (a :: l) (l ++ [b]) ++ adj (b :: t) := by
  induction l generalizing a with
  | nil => simp [adj]
  | cons x l ih =>
    have := ih x
    simp only [List.cons_append] at this ⊢
    rw [adj_cons_cons, this]
    simp

theorem adj_replicate {α} (a : α) (m : Nat) :
    ∀ p ∈ adj (a :: List.replicate m a), p = (a, a) := by
  induction m with
  | zero => simp [adj]
  | succ m ih =>
    intro p hp
    rw [List.replicate_succ, adj_cons_cons] at hp
    rcases List.mem_cons.mp hp with h | h
    · exact h
    · exact ih p h

/-! ### index algebra -/

theorem mem_idxWhere (p : Nat → Bool) (n i : Nat) : i ∈ idxWhere p n ↔ i < n ∧ p i = true := by
  simp [idxWhere]

theorem contains_idxWhere (p : Nat → Bool) (n i : Nat) (hi : i < n) :
    (idxWhere p n).contains i = p i := by
  cases h : p i with
  | true => simpa using (mem_idxWhere p n i).mpr ⟨hi, h⟩
  | false =>
    have : ¬ i ∈ idxWhere p n := by
      intro hm; have := ((mem_idxWhere p n i).mp hm).2; rw [h] at this; cases this
    simpa using this

/-- `np.delete(l, np.where(mask)[0])` keeps exactly the positions where the mask is false -/
theorem deleteIdx_idxWhere {β} (l : List β) (p : Nat → Bool) :
    deleteIdx l (idxWhere p l.length)
      = ((List.range l.length).filter (fun i => !p i)).filterMap (fun i => l[i]?) := by
  unfold deleteIdx
  congr 1
  apply List.filter_congr
  intro i hi
  rw [contains_idxWhere p _ i (List.mem_range.mp hi)]

theorem filterMap_getElem?_range (n : Nat) (l : List Nat) (h : ∀ i ∈ l, i < n) :
    l.filterMap (fun i => (List.range n)[i]?) = l := by
  induction l with
  | nil => rfl
  | cons a l ih =>
    have ha : a < n := h a (by simp)
    have : (List.range n)[a]? = some a := by simp [ha]
    rw [List.filterMap_cons, this]
    simp only
    rw [ih (fun i hi => h i (List.mem_cons_of_mem _ hi))]

theorem posWhere_cons {β} (p : β → Bool) (a : β) (l : List β) :
    posWhere p (a :: l) = (if p a then [0] else []) ++ (posWhere p l).map (· + 1) := by
  unfold posWhere
  rw [List.length_cons, List.range_succ_eq_map, List.filter_cons, List.filter_map]
  by_cases h : p a = true <;> simp [h, Function.comp_def]

theorem gather_append {β} (l : List β) (i j : List Nat) :
    gather l (i ++ j) = gather l i ++ gather l j := by
  simp [gather]

theorem gather_cons_succ {β} (a : β) (l : List β) (idx : List Nat) :
    gather (a :: l) (idx.map (· + 1)) = gather l idx := by
  unfold gather
  rw [List.filterMap_map]
  congr 1

/-- `l[np.where(good(l))[0]]` is `filter good l` -/
theorem gather_posWhere {β} (p : β → Bool) (l : List β) :
    gather l (posWhere p l) = l.filter p := by
  induction l with
  | nil => rfl
  | cons a l ih =>
    rw [posWhere_cons, gather_append, gather_cons_succ, ih]
    by_cases h : p a = true <;> simp [h, gather]

/-- the same positions select the corresponding entries of any array derived entry-by-entry
    (`np.delete(values, am)[non_nan]` follows `np.delete(arange, am)[non_nan]`) -/
theorem gather_filterMap_posWhere {β γ} (q : β → Bool) (f : β → Option γ) (l : List β)
    (hf : ∀ x ∈ l, ∃ y, f x = some y) :
    gather (l.filterMap f) (posWhere q l) = (l.filter q).filterMap f := by
  induction l with
  | nil => rfl
  | cons a l ih =>
    obtain ⟨y, hy⟩ := hf a (by simp)
    have ih' := ih (fun x hx => hf x (List.mem_cons_of_mem _ hx))
    rw [posWhere_cons, List.filterMap_cons, hy]
    simp only
    rw [gather_append, gather_cons_succ, ih']
    by_cases h : q a = true <;> simp [h, hy, gather]

theorem gather_map_some {β} (l : List β) (idx : List Nat) (h : ∀ i ∈ idx, i < l.length) :
    (gather l idx).map some = idx.map (fun i => l[i]?) := by
  induction idx with
  | nil => rfl
  | cons a idx ih =>
    have ha : a < l.length := h a (by simp)
    have ih' := ih (fun i hi => h i (List.mem_cons_of_mem _ hi))
    unfold gather at *
    rw [List.filterMap_cons, List.getElem?_eq_getElem ha]
    simp only [List.map_cons, ih', List.getElem?_eq_getElem ha]

theorem filterMap_map_some {β} (l : List β) (idx : List Nat) (h : ∀ i ∈ idx, i < l.length) :
    (idx.filterMap (fun i => l[i]?)).map some = idx.map (fun i => l[i]?) :=
  gather_map_some l idx h

theorem filterMap_getElem?_self {β} (l : List β) :
    (List.range l.length).filterMap (fun i => l[i]?) = l := by
  induction l with
  | nil => rfl
  | cons a l ih =>
    rw [List.length_cons, List.range_succ_eq_map, List.filterMap_cons]
    simp only [List.getElem?_cons_zero, List.filterMap_map]
    congr 1

theorem deleteIdx_nil {β} (l : List β) : deleteIdx l [] = l := by
  unfold deleteIdx
  have : (List.range l.length).filter (fun i => !([] : List Nat).contains i) = List.range l.length := by
    apply List.filter_eq_self.mpr; intro i _; simp
  rw [this]
  exact filterMap_getElem?_self l

theorem length_gather {β} (l : List β) (idx : List Nat) (h : ∀ i ∈ idx, i < l.length) :
    (gather l idx).length = idx.length := by
  have := congrArg List.length (gather_map_some l idx h)
  simpa using this

/-! ### frames, columns -/

theorem setCol_cons_ne {β} (c : Nat × List β) (cs : List (Nat × List β)) (v : Nat) (d : List β)
    (h : (c.1 == v) = false) : setCol (c :: cs) v d = c :: setCol cs v d := by
  have hne : ¬ c.1 = v := by simpa using h
  unfold setCol
  by_cases ha : cs.any (fun c => c.1 == v) = true
  · simp [h, ha, hne]
  · simp [h, ha]

theorem col_cons_ne {β} (c : Nat × List β) (cs : List (Nat × List β)) (v : Nat)
    (h : (c.1 == v) = false) : col (c :: cs) v = col cs v := by
  simp [col, h]

/-- the column just written is the column read back -/
theorem col_setCol {β} (cols : List (Nat × List β)) (v : Nat) (d : List β) :
    col (setCol cols v d) v = some d := by
  induction cols with
  | nil => simp [setCol, col]
  | cons c cs ih =>
    cases h : (c.1 == v) with
    | false => rw [setCol_cons_ne c cs v d h, col_cons_ne _ _ _ h, ih]
    | true =>
      have he : c.1 = v := by simpa using h
      simp [setCol, col, he]

/-- writing a column never touches geometry, and touches no other frame -/
theorem writeCol_get {β} (heap : List (Frame β)) (id v : Nat) (d : List β) (j : Nat) (fr : Frame β)
    (h : heap[j]? = some fr) :
    ∃ fr', (writeCol heap id v d)[j]? = some fr' ∧ fr'.rows = fr.rows ∧ fr'.tag = fr.tag ∧
      fr'.eng = fr.eng ∧ (j ≠ id → fr' = fr) ∧ (j = id → fr'.cols = setCol fr.cols v d) := by
  unfold writeCol
  cases hid : heap[id]? with
  | none => exact ⟨fr, h, rfl, rfl, rfl, fun _ => rfl, fun e => by subst e; rw [h] at hid; cases hid⟩
  | some f0 =>
    simp only
    by_cases e : j = id
    · subst e
      rw [h] at hid; cases hid
      have hj : j < heap.length := by
        rcases Nat.lt_or_ge j heap.length with hlt | hge
        · exact hlt
        · rw [List.getElem?_eq_none hge] at h; cases h
      refine ⟨{ fr with cols := setCol fr.cols v d }, ?_, rfl, rfl, rfl, fun hne => absurd rfl hne,
        fun _ => rfl⟩
      simp [hj]
    · refine ⟨fr, ?_, rfl, rfl, rfl, fun _ => rfl, fun e' => absurd e' e⟩
      rw [List.getElem?_set]
      have : ¬ id = j := fun e' => e e'.symm
      simp [this, h]

theorem writeCol_length {β} (heap : List (Frame β)) (id v : Nat) (d : List β) :
    (writeCol heap id v d).length = heap.length := by
  unfold writeCol
  cases heap[id]? <;> simp

end UxVerif.Polys
