/-
  UxVerif.Lemmas.C03Transport — incidence transport: manifoldness is inherited by sub-meshes.

  Statement in words.  Take a mesh given by its face-edge table `(FE, N, nEdge)` (C03's input) and
  carve a sub-mesh out of it: pick a duplicate-free list `idx` of faces, pick the duplicate-free list
  `es` of exactly those edges that some picked face uses, and renumber: sub-face `i` is source face
  `idx[i]`, sub-edge `k` is source edge `es[k]` (`SubMesh`).  Nothing is assumed about the order of `idx`
  or `es`, about padding layout, or about how the renumbering `ren` behaves off `es`.  Then

  * every (face, slot) place that sub-edge `k` occupies in the sub-mesh is a place its source edge `es[k]`
    occupies in a SELECTED source face (`incidence_sub_eq`), so the sub-edge occupies no more places than
    the source edge does (`incidence_sub_le`), and at least one (`incidence_sub_pos`);
  * hence "every edge lies in at most two face slots" passes from the source to the sub-mesh
    (`manifold_sub`), and C03's whole precondition `Incidence.Pre` for the sub-mesh is a THEOREM once it
    holds for the source (`pre_sub`): it need not be assumed separately for the subset;
  * "the two faces listed for an edge are distinct" is the same as "no face lists an edge twice"
    (`distinctFaces_iff_rows_nodup`), which also passes to sub-meshes (`rows_nodup_sub`,
    `distinctFaces_sub`).

  All lists are unbounded; `decide` is used only in the non-vacuity `example`s.
-/
import Mathlib.Data.List.Nodup
import Mathlib.Data.List.Perm.Subperm
import UxVerif.Lemmas.C03Basic

namespace UxVerif.Incidence
open UxVerif

/-- sub-mesh `(FE', N', nEdge')` of `(FE, N, nEdge)`: face `i` of the sub-mesh is source face `idx[i]` with its
    real edges renumbered by `ren`; sub-edge `k` is source edge `es[k]` -/
structure SubMesh (FE : Table) (N : List Nat) (FE' : Table) (N' : List Nat) (nEdge' : Nat)
    (idx : List Nat) (es : List Int) (ren : Int → Int) : Prop where
  /-- one sub-face per selected face -/
  faces     : FE'.length = idx.length
  /-- injective face map -/
  idx_nodup : idx.Nodup
  idx_lt    : ∀ f ∈ idx, f < FE.length
  es_len    : es.length = nEdge'
  /-- injective edge map -/
  es_nodup  : es.Nodup
  /-- the real edges of sub-face `i` are the renumbered real edges of source face `idx[i]` -/
  rows      : ∀ i (hi : i < idx.length), faceEdgesOf FE' N' i = (faceEdgesOf FE N idx[i]).map ren
  /-- selected edge number `k` is renumbered to `k` -/
  ren_es    : ∀ k (hk : k < es.length), ren es[k] = Int.ofNat k
  /-- every real edge of a selected face is selected -/
  covered   : ∀ f ∈ idx, ∀ x ∈ faceEdgesOf FE N f, x ∈ es
  /-- every selected edge is a real edge of a selected face -/
  used      : ∀ e ∈ es, ∃ f ∈ idx, e ∈ faceEdgesOf FE N f

/-! ### list helpers (core Lean only) -/
namespace Transport

theorem feed_append {V : Type} (a b : List (Nat × V)) (k : Nat) :
    feed (a ++ b) k = feed a k ++ feed b k := by
  simp [feed]

/-- the events of one face row feed edge `e` one copy of the face per slot holding `e` -/
theorem feed_row (r : List Int) (c : Int) (e : Nat) :
    feed (r.map (fun y => (y.toNat, c))) e
      = List.replicate (r.countP (fun y => y.toNat == e)) c := by
  induction r with
  | nil => simp [feed]
  | cons y r ih =>
    rw [List.map_cons, feed_cons, List.countP_cons, ih]
    by_cases h : y.toNat = e
    · simp [h, List.replicate_succ]
    · simp [h]

theorem sublist_sum_le {l₁ l₂ : List Nat} (h : l₁.Sublist l₂) : l₁.sum ≤ l₂.sum := by
  induction h with
  | slnil => simp
  | cons a _ ih => simp only [List.sum_cons]; omega
  | cons_cons a _ ih => simp only [List.sum_cons]; omega

/-- a sum over a duplicate-free list of indices `< n` is at most the sum over all indices `< n` -/
theorem sum_map_le_range {idx : List Nat} {n : Nat} (g : Nat → Nat) (hnd : idx.Nodup)
    (hlt : ∀ f ∈ idx, f < n) : (idx.map g).sum ≤ ((List.range n).map g).sum := by
  obtain ⟨l, hp, hs⟩ := List.subperm_of_subset hnd (fun f hf => List.mem_range.mpr (hlt f hf))
  rw [← (hp.map g).sum_nat]
  exact sublist_sum_le (hs.map g)

theorem sum_map_le_sum_map {l : List Nat} (g g' : Nat → Nat) (h : ∀ f ∈ l, g f ≤ g' f) :
    (l.map g).sum ≤ (l.map g').sum := by
  induction l with
  | nil => simp
  | cons a l ih =>
    simp only [List.map_cons, List.sum_cons]
    have h1 := h a List.mem_cons_self
    have h2 := ih (fun f hf => h f (List.mem_cons_of_mem _ hf))
    omega

theorem le_sum_map_of_mem {l : List Nat} (g : Nat → Nat) {f : Nat} (h : f ∈ l) :
    g f ≤ (l.map g).sum := by
  induction l with
  | nil => cases h
  | cons a l ih =>
    simp only [List.map_cons, List.sum_cons]
    rcases List.mem_cons.mp h with rfl | h
    · omega
    · have := ih h; omega

theorem map_range_eq_map {l : List Nat} (F G : Nat → Nat)
    (h : ∀ i (hi : i < l.length), F i = G l[i]) : (List.range l.length).map F = l.map G := by
  apply List.ext_getElem
  · simp
  · intro i h1 h2
    have hi : i < l.length := by simpa using h1
    simp [h i hi]

/-- an occurrence of `x` is an occurrence of something with the same event key -/
theorem count_le_countP_toNat (r : List Int) (x : Int) :
    r.count x ≤ r.countP (fun y => y.toNat == x.toNat) := by
  rw [List.count_eq_countP]
  apply List.countP_mono_left
  intro y _ hy
  have : y = x := by simpa using hy
  simp [this]

end Transport

open Transport

/-! ### incidence as a sum over faces -/

/-- **the number of (face, slot) places of edge `e` is the sum, over all faces, of the number of slots of that
    face holding `e`** -/
theorem incidence_eq_sum (FE : Table) (N : List Nat) (e : Nat) :
    incidence FE N e
      = ((List.range FE.length).map
          (fun f => (faceEdgesOf FE N f).countP (fun y => y.toNat == e))).sum := by
  unfold incidence efEvents
  generalize List.range FE.length = L
  induction L with
  | nil => simp [feed]
  | cons f L ih =>
    rw [List.flatMap_cons, feed_append, List.length_append, ih, feed_row]
    simp

section Sub
variable {FE FE' : Table} {N N' : List Nat} {nEdge' : Nat}
  {idx : List Nat} {es : List Int} {ren : Int → Int}

/-- on selected edges, "is renumbered to `k`" means "is source edge `es[k]`" -/
theorem SubMesh.ren_key (hS : SubMesh FE N FE' N' nEdge' idx es ren) {x : Int} (hx : x ∈ es)
    {k : Nat} (hk : k < es.length) : (ren x).toNat = k ↔ x = es[k] := by
  obtain ⟨j, hj, rfl⟩ := List.getElem_of_mem hx
  rw [hS.ren_es j hj, hS.es_nodup.getElem_inj_iff]
  simp

/-- an entry of a sub-face row is the new number of a selected edge -/
theorem SubMesh.mem_row (hS : SubMesh FE N FE' N' nEdge' idx es ren) {i : Nat} (hi : i < idx.length)
    {e : Int} (he : e ∈ faceEdgesOf FE' N' i) :
    ∃ j, ∃ hj : j < es.length, e = Int.ofNat j ∧ es[j] ∈ faceEdgesOf FE N idx[i] := by
  rw [hS.rows i hi] at he
  obtain ⟨x, hx, rfl⟩ := List.mem_map.mp he
  obtain ⟨j, hj, rfl⟩ := List.getElem_of_mem (hS.covered _ (List.getElem_mem hi) x hx)
  exact ⟨j, hj, hS.ren_es j hj, hx⟩

/-- **every face-slot incidence of sub-edge `k` is an incidence of its source edge `es[k]` in a SELECTED
    source face** -/
theorem incidence_sub_eq (hS : SubMesh FE N FE' N' nEdge' idx es ren) {k : Nat} (hk : k < nEdge') :
    incidence FE' N' k
      = (idx.map (fun f => (faceEdgesOf FE N f).count (es[k]'(hS.es_len ▸ hk)))).sum := by
  have hk' : k < es.length := hS.es_len ▸ hk
  rw [incidence_eq_sum, hS.faces]
  congr 1
  apply map_range_eq_map
  intro i hi
  rw [hS.rows i hi, List.countP_map, List.count_eq_countP]
  apply List.countP_congr
  intro x hx
  have hxs : x ∈ es := hS.covered _ (List.getElem_mem hi) x hx
  simp only [Function.comp, beq_iff_eq]
  exact hS.ren_key hxs hk'

/-- **a sub-edge occupies at most as many (face, slot) places as its source edge** (no assumption on the
    source beyond `SubMesh`: an occurrence of `es[k]` is in particular an event with key `es[k].toNat`) -/
theorem incidence_sub_le (hS : SubMesh FE N FE' N' nEdge' idx es ren) {k : Nat} (hk : k < nEdge') :
    incidence FE' N' k ≤ incidence FE N (es[k]'(hS.es_len ▸ hk)).toNat := by
  rw [incidence_sub_eq hS hk, incidence_eq_sum]
  exact Nat.le_trans
    (sum_map_le_sum_map _ _ (fun f _ => count_le_countP_toNat (faceEdgesOf FE N f) _))
    (sum_map_le_range _ hS.idx_nodup hS.idx_lt)

/-- **every sub-edge lies in at least one sub-face** -/
theorem incidence_sub_pos (hS : SubMesh FE N FE' N' nEdge' idx es ren) {k : Nat} (hk : k < nEdge') :
    1 ≤ incidence FE' N' k := by
  have hk' : k < es.length := hS.es_len ▸ hk
  rw [incidence_sub_eq hS hk]
  obtain ⟨f, hf, hm⟩ := hS.used _ (List.getElem_mem hk')
  exact Nat.le_trans (List.count_pos_iff.mpr hm)
    (le_sum_map_of_mem (fun f => (faceEdgesOf FE N f).count es[k]) hf)

/-- **manifoldness is inherited**: if no source edge lies in more than two face slots, no sub-edge does -/
theorem manifold_sub {nEdge : Nat} (hS : SubMesh FE N FE' N' nEdge' idx es ren)
    (hman : ∀ e, e < nEdge → incidence FE N e ≤ 2) (hes : ∀ e ∈ es, e.toNat < nEdge) :
    ∀ k, k < nEdge' → incidence FE' N' k ≤ 2 := by
  intro k hk
  have hk' : k < es.length := hS.es_len ▸ hk
  exact Nat.le_trans (incidence_sub_le hS hk) (hman _ (hes _ (List.getElem_mem hk')))

/-- the same, with the bound on the selected edges derived from validity of the source's real entries -/
theorem manifold_sub_of_valid {nEdge : Nat} (hS : SubMesh FE N FE' N' nEdge' idx es ren)
    (hval : ∀ f, f < FE.length → ∀ e ∈ faceEdgesOf FE N f, 0 ≤ e ∧ e < nEdge)
    (hman : ∀ e, e < nEdge → incidence FE N e ≤ 2) :
    ∀ k, k < nEdge' → incidence FE' N' k ≤ 2 := by
  refine manifold_sub hS hman ?_
  intro e he
  obtain ⟨f, hf, hm⟩ := hS.used e he
  have := hval f (hS.idx_lt f hf) e hm
  omega

/-- real entries of the sub-mesh's face-edge table are valid sub-edge numbers -/
theorem entries_sub (hS : SubMesh FE N FE' N' nEdge' idx es ren) :
    ∀ f, f < FE'.length → ∀ e ∈ faceEdgesOf FE' N' f, 0 ≤ e ∧ e < nEdge' := by
  intro f hf e he
  obtain ⟨j, hj, rfl, _⟩ := hS.mem_row (hS.faces ▸ hf) he
  have : j < nEdge' := hS.es_len ▸ hj
  exact ⟨Int.natCast_nonneg j, Int.ofNat_lt.mpr this⟩

/-- **C03's precondition is inherited by sub-meshes**: valid entries and "every edge in one or two face
    slots" for the source give the same for every sub-mesh; only the facts about the sub-mesh's own
    face-node table (`hlen`, `hnodes`) remain to be supplied -/
theorem pre_sub {n n' nEdge : Nat} {t t' : Table}
    (hP : Pre n t FE N nEdge) (hS : SubMesh FE N FE' N' nEdge' idx es ren)
    (hlen : FE'.length = t'.length)
    (hnodes : ∀ f, f < t'.length → ∀ v ∈ real (rowAt t' f), 0 ≤ v ∧ v < n') :
    Pre n' t' FE' N' nEdge' :=
  ⟨hlen, entries_sub hS,
    fun k hk => ⟨incidence_sub_pos hS hk,
      manifold_sub_of_valid hS hP.2.1 (fun e he => (hP.2.2.1 e he).2) k hk⟩,
    hnodes⟩

end Sub

/-! ### non-vacuity: two triangles sharing edge 1, plus an isolated triangle (C03's example mesh) -/
section Examples

/-- keep only face 1: its edges `1, 3, 4` become `0, 1, 2` -/
private def ren1 : Int → Int :=
  fun x => if x = 1 then 0 else if x = 3 then 1 else if x = 4 then 2 else FILL

/-- the hypotheses of `pre_sub` can be met (a `SubMesh` exists), and `pre_sub` instantiated on it: the
    sub-mesh's precondition is obtained from the source's -/
example :
    SubMesh [[0, 1, 2], [1, 3, 4], [5, 6, 7]] [3, 3, 3] [[0, 1, 2]] [3] 3 [1] [1, 3, 4] ren1 ∧
    Pre 4 [[2, 1, 3]] [[0, 1, 2]] [3] 3 := by
  have hS : SubMesh [[0, 1, 2], [1, 3, 4], [5, 6, 7]] [3, 3, 3] [[0, 1, 2]] [3] 3 [1] [1, 3, 4] ren1 :=
    { faces := by decide, idx_nodup := by decide, idx_lt := by decide, es_len := by decide,
      es_nodup := by decide, rows := by decide, ren_es := by decide, covered := by decide,
      used := by decide }
  exact ⟨hS, pre_sub (n := 7) (t := [[0, 1, 2], [2, 1, 3], [4, 5, 6]]) (nEdge := 8) (by decide) hS
    (by decide) (by decide)⟩

/-- the inequality of `incidence_sub_le` can be strict: source edge 1 lies in two faces, its image (sub-edge
    0) in one, because the other face was not selected -/
example : incidence [[0, 1, 2], [1, 3, 4], [5, 6, 7]] [3, 3, 3] 1 = 2 ∧
    incidence [[0, 1, 2]] [3] 0 = 1 := by decide

/-- keep faces 2 and 0, in that order (reordered, not adjacent); selected edges in sorted order -/
private def ren20 : Int → Int :=
  fun x => if x = 0 then 0 else if x = 1 then 1 else if x = 2 then 2
    else if x = 5 then 3 else if x = 6 then 4 else if x = 7 then 5 else FILL

/-- … a `SubMesh` exists, and `pre_sub` instantiated on it -/
example :
    SubMesh [[0, 1, 2], [1, 3, 4], [5, 6, 7]] [3, 3, 3] [[3, 4, 5], [0, 1, 2]] [3, 3] 6 [2, 0]
      [0, 1, 2, 5, 6, 7] ren20 ∧
    Pre 6 [[3, 4, 5], [0, 1, 2]] [[3, 4, 5], [0, 1, 2]] [3, 3] 6 := by
  have hS : SubMesh [[0, 1, 2], [1, 3, 4], [5, 6, 7]] [3, 3, 3] [[3, 4, 5], [0, 1, 2]] [3, 3] 6 [2, 0]
      [0, 1, 2, 5, 6, 7] ren20 :=
    { faces := by decide, idx_nodup := by decide, idx_lt := by decide, es_len := by decide,
      es_nodup := by decide, rows := by decide, ren_es := by decide, covered := by decide,
      used := by decide }
  exact ⟨hS, pre_sub (n := 7) (t := [[0, 1, 2], [2, 1, 3], [4, 5, 6]]) (nEdge := 8) (by decide) hS
    (by decide) (by decide)⟩

/-- `SubMesh` is not trivially true: dropping a used edge from `es` (here edge 4) violates `covered` -/
example : ¬ SubMesh [[0, 1, 2], [1, 3, 4], [5, 6, 7]] [3, 3, 3] [[0, 1, 2]] [3] 2 [1] [1, 3] ren1 :=
  fun h => absurd (h.covered 1 (by decide) 4 (by decide)) (by decide)

/-- … and the conclusion is not trivially true: a sub-table whose edge 0 is listed by three faces is not
    manifold -/
example : ¬ Pre 3 [[0, 1, 2], [0, 1, 2], [0, 1, 2]] [[0, 1, 2], [0, 3, 4], [0, 5, 6]] [3, 3, 3] 7 := by
  decide

end Examples

/-! ### "the two faces of an edge are distinct" = "no face lists an edge twice", and its inheritance -/

namespace Transport

/-- how often face `f` is fed to edge `e`: once per slot of row `f` holding `e` -/
theorem count_feed_face (FE : Table) (N : List Nat) (e f : Nat) :
    (feed (efEvents FE N) e).count (Int.ofNat f)
      = if f < FE.length then (faceEdgesOf FE N f).countP (fun y => y.toNat == e) else 0 := by
  have key : ∀ L : List Nat,
      (feed (L.flatMap (fun g => (faceEdgesOf FE N g).map (fun y => (y.toNat, Int.ofNat g)))) e).count
          (Int.ofNat f)
        = L.count f * (faceEdgesOf FE N f).countP (fun y => y.toNat == e) := by
    intro L
    induction L with
    | nil => simp [feed]
    | cons g L ih =>
      rw [List.flatMap_cons, feed_append, List.count_append, ih, feed_row, List.count_replicate,
        List.count_cons]
      by_cases h : g = f
      · subst h; simp [Nat.add_mul]; omega
      · have h' : ¬ ((g : Int) = (f : Int)) := fun hh => h (by omega)
        simp [h, h']
  unfold efEvents
  rw [key, List.count_range]
  split <;> simp

/-- for a row of non-negative entries, "has event key `e`" is "equals `e`" -/
theorem countP_toNat_eq_count {r : List Int} (h0 : ∀ y ∈ r, 0 ≤ y) (e : Nat) :
    r.countP (fun y => y.toNat == e) = r.count (Int.ofNat e) := by
  rw [List.count_eq_countP]
  apply List.countP_congr
  intro y hy
  have := h0 y hy
  simp only [beq_iff_eq, Int.ofNat_eq_natCast]
  omega

/-- a cell fed one or two faces holds the same face in both slots iff it was fed the same face twice -/
theorem slot_distinct_iff {l : List Int} (h1 : 1 ≤ l.length) (h2 : l.length ≤ 2)
    (hne : ∀ a ∈ l, a ≠ FILL) :
    (l.foldl slotUpd (FILL, FILL)).1 ≠ (l.foldl slotUpd (FILL, FILL)).2 ↔ l.Nodup := by
  match l, h1, h2, hne with
  | [a], _, _, hne =>
    rw [C03.slot_one]
    have := hne a List.mem_cons_self
    simp [this]
  | [a, b], _, _, hne =>
    rw [C03.slot_two _ _ (hne a List.mem_cons_self)]
    simp
  | [], h1, _, _ => simp at h1
  | _ :: _ :: _ :: _, _, h2, _ => simp at h2

theorem row_nodup_iff {r : List Int} {nEdge : Nat} (hval : ∀ e ∈ r, 0 ≤ e ∧ e < nEdge) :
    r.Nodup ↔ ∀ e, e < nEdge → r.count (Int.ofNat e) ≤ 1 := by
  rw [List.nodup_iff_count]
  constructor
  · intro h e _; exact h _
  · intro h x
    by_cases hx : x ∈ r
    · have hv := hval x hx
      have : x = Int.ofNat x.toNat := by simp only [Int.ofNat_eq_natCast]; omega
      rw [this]
      exact h _ (by omega)
    · rw [List.count_eq_zero_of_not_mem hx]; omega

end Transport

section Distinct
variable {n nEdge : Nat} {t FE : Table} {N : List Nat}

/-- the faces fed to edge `e` are pairwise distinct iff no face lists `e` twice -/
theorem feed_nodup_iff (hP : Pre n t FE N nEdge) (e : Nat) :
    (feed (efEvents FE N) e).Nodup
      ↔ ∀ f, f < FE.length → (faceEdgesOf FE N f).count (Int.ofNat e) ≤ 1 := by
  have h0 : ∀ f, f < FE.length → ∀ y ∈ faceEdgesOf FE N f, 0 ≤ y :=
    fun f hf y hy => (hP.2.1 f hf y hy).1
  rw [List.nodup_iff_count]
  constructor
  · intro h f hf
    have := h (Int.ofNat f)
    rwa [count_feed_face, if_pos hf, countP_toNat_eq_count (h0 f hf)] at this
  · intro h a
    by_cases ha : a ∈ feed (efEvents FE N) e
    · obtain ⟨f, hf, rfl, _⟩ := (C03.mem_feed_ef hP e a).mp ha
      rw [count_feed_face, if_pos hf, countP_toNat_eq_count (h0 f hf)]
      exact h f hf
    · rw [List.count_eq_zero_of_not_mem ha]; omega

/-- the two slots of every row of `edge_face_connectivity` differ iff every edge is fed distinct faces -/
theorem distinctFaces_iff_feed_nodup (hP : Pre n t FE N nEdge) :
    (∀ p ∈ edgeFace FE N nEdge, p.1 ≠ p.2)
      ↔ ∀ e, e < nEdge → (feed (efEvents FE N) e).Nodup := by
  have hslot : ∀ e, e < nEdge →
      (((edgeFace FE N nEdge).getD e (FILL, FILL)).1 ≠ ((edgeFace FE N nEdge).getD e (FILL, FILL)).2
        ↔ (feed (efEvents FE N) e).Nodup) := by
    intro e he
    rw [C03.edgeFace_get FE N nEdge e he]
    have hinc := hP.2.2.1 e he
    unfold incidence at hinc
    refine slot_distinct_iff hinc.1 hinc.2 ?_
    intro a ha
    obtain ⟨f, _, rfl, _⟩ := (C03.mem_feed_ef hP e a).mp ha
    exact C03.ofNat_ne_fill f
  have hlen := C03.edgeFace_length FE N nEdge
  constructor
  · intro h e he
    refine (hslot e he).mp (h _ ?_)
    have : e < (edgeFace FE N nEdge).length := by omega
    simp [List.getD, List.getElem?_eq_getElem this]
  · intro h p hp
    obtain ⟨e, he, rfl⟩ := List.getElem_of_mem hp
    have he' : e < nEdge := by omega
    have := (hslot e he').mpr (h e he')
    simpa [List.getD, List.getElem?_eq_getElem he] using this

/-- **an edge gets the same face in both slots iff that face lists the edge twice**: the two faces of every
    edge are distinct iff every face's real edges are pairwise distinct -/
theorem distinctFaces_iff_rows_nodup (hP : Pre n t FE N nEdge) :
    (∀ p ∈ edgeFace FE N nEdge, p.1 ≠ p.2)
      ↔ (∀ f, f < FE.length → (faceEdgesOf FE N f).Nodup) := by
  rw [distinctFaces_iff_feed_nodup hP]
  constructor
  · intro h f hf
    rw [row_nodup_iff (hP.2.1 f hf)]
    intro e he
    exact (feed_nodup_iff hP e).mp (h e he) f hf
  · intro h e he
    rw [feed_nodup_iff hP e]
    intro f hf
    exact (row_nodup_iff (hP.2.1 f hf)).mp (h f hf) e he

end Distinct

section DistinctSub
variable {FE FE' : Table} {N N' : List Nat} {nEdge' : Nat}
  {idx : List Nat} {es : List Int} {ren : Int → Int}

/-- **"no face lists an edge twice" is inherited**: the renumbering is injective on the selected edges -/
theorem rows_nodup_sub (hS : SubMesh FE N FE' N' nEdge' idx es ren)
    (hnd : ∀ f ∈ idx, (faceEdgesOf FE N f).Nodup) :
    ∀ i, i < FE'.length → (faceEdgesOf FE' N' i).Nodup := by
  intro i hi
  have hi' : i < idx.length := hS.faces ▸ hi
  have hmem := List.getElem_mem hi'
  rw [hS.rows i hi']
  unfold List.Nodup
  rw [List.pairwise_map]
  refine List.Pairwise.imp_of_mem ?_ (hnd _ hmem)
  intro a b ha hb hab heq
  have has := hS.covered _ hmem a ha
  obtain ⟨j, hj, rfl⟩ := List.getElem_of_mem (hS.covered _ hmem b hb)
  apply hab
  refine (hS.ren_key has hj).mp ?_
  rw [heq, hS.ren_es j hj]
  simp

/-- **"the two faces of an edge are distinct" is inherited by sub-meshes** (nothing about the sub-mesh's
    face-node table is needed) -/
theorem distinctFaces_sub {n nEdge : Nat} {t : Table}
    (hP : Pre n t FE N nEdge) (hS : SubMesh FE N FE' N' nEdge' idx es ren)
    (hD : ∀ p ∈ edgeFace FE N nEdge, p.1 ≠ p.2) :
    ∀ p ∈ edgeFace FE' N' nEdge', p.1 ≠ p.2 := by
  have hP' : Pre 0 (List.replicate FE'.length []) FE' N' nEdge' := by
    refine pre_sub hP hS (by simp) ?_
    intro f _ v hv
    have : rowAt (List.replicate FE'.length ([] : List Int)) f = [] := by
      simp only [rowAt, List.getD, List.getElem?_replicate]
      split <;> rfl
    rw [this] at hv
    simp [real] at hv
  refine (distinctFaces_iff_rows_nodup hP').mpr (rows_nodup_sub hS ?_)
  intro f hf
  exact (distinctFaces_iff_rows_nodup hP).mp hD f (hS.idx_lt f hf)

end DistinctSub

/-! ### non-vacuity of the distinct-faces part -/
section Examples2

/-- both sides of `distinctFaces_iff_rows_nodup` hold on the example mesh … -/
example : (∀ p ∈ edgeFace [[0, 1, 2], [1, 3, 4], [5, 6, 7]] [3, 3, 3] 8, p.1 ≠ p.2) ∧
    (∀ f, f < 3 → (faceEdgesOf [[0, 1, 2], [1, 3, 4], [5, 6, 7]] [3, 3, 3] f).Nodup) := by decide

/-- … and both fail on a mesh meeting `Pre` whose face 0 lists edge 0 twice -/
example : Pre 3 [[0, 1, 2]] [[0, 0, 1]] [3] 2 ∧
    ¬ (∀ p ∈ edgeFace [[0, 0, 1]] [3] 2, p.1 ≠ p.2) ∧
    ¬ (∀ f, f < 1 → (faceEdgesOf [[0, 0, 1]] [3] f).Nodup) := by decide

/-- `distinctFaces_sub` instantiated on the reordered two-face subset -/
example : ∀ p ∈ edgeFace [[3, 4, 5], [0, 1, 2]] [3, 3] 6, p.1 ≠ p.2 := by
  have hS : SubMesh [[0, 1, 2], [1, 3, 4], [5, 6, 7]] [3, 3, 3] [[3, 4, 5], [0, 1, 2]] [3, 3] 6 [2, 0]
      [0, 1, 2, 5, 6, 7] ren20 :=
    { faces := by decide, idx_nodup := by decide, idx_lt := by decide, es_len := by decide,
      es_nodup := by decide, rows := by decide, ren_es := by decide, covered := by decide,
      used := by decide }
  exact distinctFaces_sub (n := 7) (t := [[0, 1, 2], [2, 1, 3], [4, 5, 6]]) (nEdge := 8) (by decide) hS
    (by decide)

end Examples2

end UxVerif.Incidence
