/-
  Helper lemmas for C04 over ℝ: the real instantiation `R` of `Coords.Ops`, normalisation,
  the exact round trip xyz → (arg, arcsin) → xyz, periodicity of the code's `mod 2π` / ±180 wrap,
  and the per-element conversion lemma `lonlat_of_unit` (range + same direction, pole snap included).
-/
import Mathlib.Analysis.SpecialFunctions.Complex.Arg
import Mathlib.Analysis.SpecialFunctions.Trigonometric.Inverse
import Mathlib.Analysis.Real.Pi.Bounds
import Mathlib.Tactic.Linarith
import Mathlib.Tactic.FieldSimp
import Mathlib.Tactic.Ring
import UxVerif.Model.Coords

namespace UxVerif.CoordsR
open UxVerif.Coords

/-- the real-number instantiation of the operations -/
noncomputable def R (tol closeTol : ℝ) : Ops ℝ where
  sin := Real.sin
  cos := Real.cos
  atan2 := fun y x => Complex.arg ⟨x, y⟩
  asin := Real.arcsin
  sqrt := Real.sqrt
  abs := fun x => |x|
  pi := Real.pi
  fmod := fun a b => a - b * (⌊a / b⌋ : ℤ)
  lt := fun a b => decide (a < b)
  ofNat := fun n => (n : ℝ)
  tol := tol
  closeTol := closeTol

variable {tol ct : ℝ}

theorem V3.ext' {a b : V3 ℝ} (hx : a.x = b.x) (hy : a.y = b.y) (hz : a.z = b.z) : a = b := by
  cases a; cases b; simp_all

theorem normSq_nonneg (v : V3 ℝ) : 0 ≤ normSq v := by
  simp only [normSq, dot]; nlinarith [sq_nonneg v.x, sq_nonneg v.y, sq_nonneg v.z]

theorem xyz_unit (lon lat : Rad ℝ) : normSq (xyzOfLonLatRad (R tol ct) lon lat) = 1 := by
  simp only [normSq, dot, xyzOfLonLatRad, R]
  have h1 := Real.sin_sq_add_cos_sq lon.val
  have h2 := Real.sin_sq_add_cos_sq lat.val
  nlinarith [h1, h2]

theorem normalize_unit (v : V3 ℝ) (hv : normSq v ≠ 0) : normSq (normalizeV (R tol ct) v) = 1 := by
  have hpos : 0 < normSq v := lt_of_le_of_ne (normSq_nonneg v) (Ne.symm hv)
  have hs : Real.sqrt (normSq v) * Real.sqrt (normSq v) = normSq v := Real.mul_self_sqrt hpos.le
  have hs0 : Real.sqrt (normSq v) ≠ 0 := (Real.sqrt_pos.mpr hpos).ne'
  simp only [normalizeV, V3.divS, R]
  generalize Real.sqrt (normSq v) = d at *
  simp only [normSq, dot] at *
  field_simp
  nlinarith [hs]

/-- unit vectors are fixed by normalisation -/
theorem normalize_of_unit (v : V3 ℝ) (hv : normSq v = 1) : normalizeV (R tol ct) v = v := by
  simp only [normalizeV, V3.divS, R, hv, Real.sqrt_one, div_one]

/-- normalising changes lengths only: the result is a positive multiple of the input -/
theorem normalize_dir (v : V3 ℝ) (hv : normSq v ≠ 0) :
    ∃ c : ℝ, 0 < c ∧ normalizeV (R tol ct) v = V3.smul c v := by
  have hpos : 0 < normSq v := lt_of_le_of_ne (normSq_nonneg v) (Ne.symm hv)
  refine ⟨1 / Real.sqrt (normSq v), by positivity, ?_⟩
  simp only [normalizeV, V3.divS, V3.smul, R]
  apply V3.ext' <;> simp <;> ring

theorem normalize_smul (c : ℝ) (hc : 0 < c) (v : V3 ℝ) (hv : normSq v ≠ 0) :
    normalizeV (R tol ct) (V3.smul c v) = normalizeV (R tol ct) v := by
  have hpos : 0 < normSq v := lt_of_le_of_ne (normSq_nonneg v) (Ne.symm hv)
  have h1 : normSq (V3.smul c v) = c ^ 2 * normSq v := by simp only [normSq, dot, V3.smul]; ring
  have h2 : Real.sqrt (c ^ 2 * normSq v) = c * Real.sqrt (normSq v) := by
    rw [Real.sqrt_mul (sq_nonneg c), Real.sqrt_sq hc.le]
  have hs0 : Real.sqrt (normSq v) ≠ 0 := (Real.sqrt_pos.mpr hpos).ne'
  simp only [normalizeV, V3.divS, R] at *
  rw [h1, h2]
  apply V3.ext' <;> simp only [V3.smul] <;> field_simp

theorem normalize_idem (v : V3 ℝ) (hv : normSq v ≠ 0) :
    normalizeV (R tol ct) (normalizeV (R tol ct) v) = normalizeV (R tol ct) v :=
  normalize_of_unit _ (normalize_unit v hv)


theorem xyz_of_lonlat_of_xyz (v : V3 ℝ) (hu : normSq v = 1) (hxy : v.x ^ 2 + v.y ^ 2 ≠ 0) :
    xyzOfLonLatRad (R tol ct) ⟨Complex.arg ⟨v.x, v.y⟩⟩ ⟨Real.arcsin v.z⟩ = v := by
  have hu' : v.x ^ 2 + v.y ^ 2 + v.z ^ 2 = 1 := by
    simp only [normSq, dot] at hu; nlinarith [hu]
  obtain ⟨w, hw⟩ : ∃ w : ℂ, w = ⟨v.x, v.y⟩ := ⟨_, rfl⟩
  have hre : w.re = v.x := by rw [hw]
  have him : w.im = v.y := by rw [hw]
  have hw0 : w ≠ 0 := by
    intro h
    have hx : v.x = 0 := by rw [← hre, h]; rfl
    have hy : v.y = 0 := by rw [← him, h]; rfl
    apply hxy; rw [hx, hy]; ring
  have hn : ‖w‖ = Real.sqrt (v.x ^ 2 + v.y ^ 2) := by
    rw [Complex.norm_def, Complex.normSq_apply]; rw [hre, him]; congr 1; ring
  have hn0 : ‖w‖ ≠ 0 := norm_ne_zero_iff.mpr hw0
  have hc : Real.cos (Real.arcsin v.z) = ‖w‖ := by
    rw [Real.cos_arcsin, hn]; congr 1; linarith
  have hz1 : -1 ≤ v.z := by nlinarith [sq_nonneg v.x, sq_nonneg v.y]
  have hz2 : v.z ≤ 1 := by nlinarith [sq_nonneg v.x, sq_nonneg v.y]
  have hs : Real.sin (Real.arcsin v.z) = v.z := Real.sin_arcsin hz1 hz2
  apply V3.ext'
  · simp only [xyzOfLonLatRad, R]
    rw [← hw, Complex.cos_arg hw0, hc, div_mul_cancel₀ _ hn0, hre]
  · simp only [xyzOfLonLatRad, R]
    rw [← hw, Complex.sin_arg, hc, div_mul_cancel₀ _ hn0, him]
  · simp only [xyzOfLonLatRad, R]; exact hs


/-! ### periodicity: `mod 2π`, `rad2deg ∘ deg2rad`, ±180 wrap -/

theorem fmod_def (a b : ℝ) : (R tol ct).fmod a b = a - b * (⌊a / b⌋ : ℤ) := rfl

theorem wrap180_eq (d : ℝ) : wrap180 (R tol ct) d = d - (⌊(d + 180) / 360⌋ : ℤ) * 360 := by
  simp only [wrap180, fmod_def]; ring

theorem wrap180_range (d : ℝ) : -180 ≤ wrap180 (R tol ct) d ∧ wrap180 (R tol ct) d < 180 := by
  rw [wrap180_eq]
  have h1 := Int.floor_le ((d + 180) / 360)
  have h2 := Int.lt_floor_add_one ((d + 180) / 360)
  rw [le_div_iff₀ (by norm_num)] at h1
  rw [div_lt_iff₀ (by norm_num)] at h2
  constructor <;> linarith

theorem deg2rad_rad2deg (r : Rad ℝ) : deg2rad (R tol ct) (rad2deg (R tol ct) r) = r := by
  cases r with | mk a =>
  simp only [deg2rad, rad2deg, R]
  congr 1
  have := Real.pi_ne_zero
  field_simp

theorem xyz_lon_periodic (lon lat : ℝ) (n : ℤ) :
    xyzOfLonLatRad (R tol ct) ⟨lon - n * (2 * Real.pi)⟩ ⟨lat⟩ = xyzOfLonLatRad (R tol ct) ⟨lon⟩ ⟨lat⟩ := by
  simp only [xyzOfLonLatRad, R, Real.cos_sub_int_mul_two_pi, Real.sin_sub_int_mul_two_pi]

/-- the code's `mod 2π` does not change the point -/
theorem xyz_mod_two_pi (lon lat : ℝ) :
    xyzOfLonLatRad (R tol ct) ⟨(R tol ct).fmod lon (2 * (R tol ct).pi)⟩ ⟨lat⟩
      = xyzOfLonLatRad (R tol ct) ⟨lon⟩ ⟨lat⟩ := by
  rw [fmod_def]
  have : lon - 2 * (R tol ct).pi * (⌊lon / (2 * (R tol ct).pi)⌋ : ℤ)
       = lon - (⌊lon / (2 * (R tol ct).pi)⌋ : ℤ) * (2 * Real.pi) := by simp only [R]; ring
  rw [this, xyz_lon_periodic]

/-- the ±180 wrap does not change the point -/
theorem dirDeg_wrap180 (d : ℝ) (lat : Deg ℝ) :
    dirDeg (R tol ct) (⟨wrap180 (R tol ct) d⟩, lat) = dirDeg (R tol ct) (⟨d⟩, lat) := by
  simp only [dirDeg, deg2rad]
  rw [wrap180_eq]
  have : (d - (⌊(d + 180) / 360⌋ : ℤ) * 360) * ((R tol ct).pi / 180)
       = d * ((R tol ct).pi / 180) - (⌊(d + 180) / 360⌋ : ℤ) * (2 * Real.pi) := by simp only [R]; ring
  rw [this, xyz_lon_periodic]


/-- `p` (what a reported lon/lat denotes) and the unit vector `q` are the same direction: equal, or
    `p` is a pole and `q` lies in that pole's snapping cap `|z| > 1 − snap` -/
def SameDir (snap : ℝ) (p q : V3 ℝ) : Prop :=
  p = q ∨ (1 - snap < q.z ∧ p = ⟨0, 0, 1⟩) ∨ (1 - snap < -q.z ∧ p = ⟨0, 0, -1⟩)

def InRange (p : Deg ℝ × Deg ℝ) : Prop :=
  -180 ≤ p.1.val ∧ p.1.val ≤ 180 ∧ -90 ≤ p.2.val ∧ p.2.val ≤ 90

theorem lonLatRad_mask (t : V3 ℝ) (hm : 1 - tol < |t.z|) :
    lonLatRadOfXyz (R tol ct) false t = (⟨0⟩, ⟨signK (R tol ct) t.z * Real.pi / 2⟩) := by
  simp [lonLatRadOfXyz, R, hm]

theorem lonLatRad_nomask (t : V3 ℝ) (hm : ¬ 1 - tol < |t.z|) :
    lonLatRadOfXyz (R tol ct) false t
      = (⟨(R tol ct).fmod (Complex.arg ⟨t.x, t.y⟩) (2 * (R tol ct).pi)⟩, ⟨Real.arcsin t.z⟩) := by
  simp [lonLatRadOfXyz, R, hm]

theorem wrap180_zero : wrap180 (R tol ct) 0 = 0 := by
  rw [wrap180_eq]
  have : ⌊((0:ℝ) + 180) / 360⌋ = 0 := by
    rw [Int.floor_eq_iff]; norm_num
  rw [this]; simp

theorem lonlat_of_unit (h0 : 0 < tol) (h1 : tol < 1) (t : V3 ℝ) (hu : normSq t = 1) :
    InRange (lonLatDegOfXyz (R tol ct) false t) ∧
    SameDir tol (dirDeg (R tol ct) (lonLatDegOfXyz (R tol ct) false t)) t := by
  have hu' : t.x ^ 2 + t.y ^ 2 + t.z ^ 2 = 1 := by
    simp only [normSq, dot] at hu; nlinarith [hu]
  have hpi := Real.pi_pos
  by_cases hm : 1 - tol < |t.z|
  · -- pole snap
    have hz0 : t.z ≠ 0 := by
      intro h; rw [h, abs_zero] at hm; linarith
    simp only [lonLatDegOfXyz, lonLatRad_mask t hm, rad2deg]
    have hw : wrap180 (R tol ct) (0 * (180 / (R tol ct).pi)) = 0 := by rw [zero_mul, wrap180_zero]
    rw [hw]
    rcases lt_or_gt_of_ne hz0 with hneg | hpos
    · have hs : signK (R tol ct) t.z = -1 := by
        simp [signK, R, hneg, not_lt.mpr hneg.le]
      rw [hs]
      have hlat : (-1 * Real.pi / 2 * (180 / (R tol ct).pi)) = -90 := by
        simp only [R]; field_simp; norm_num
      rw [hlat]
      refine ⟨⟨by norm_num, by norm_num, by norm_num, by norm_num⟩, Or.inr (Or.inr ⟨?_, ?_⟩)⟩
      · rw [abs_of_neg hneg] at hm; exact hm
      · simp only [dirDeg, deg2rad, xyzOfLonLatRad, R]
        have : (-90 : ℝ) * (Real.pi / 180) = -(Real.pi / 2) := by ring
        rw [this]
        apply V3.ext' <;> simp
    · have hs : signK (R tol ct) t.z = 1 := by
        simp [signK, R, hpos]
      rw [hs]
      have hlat : (1 * Real.pi / 2 * (180 / (R tol ct).pi)) = 90 := by
        simp only [R]; field_simp; norm_num
      rw [hlat]
      refine ⟨⟨by norm_num, by norm_num, by norm_num, by norm_num⟩, Or.inr (Or.inl ⟨?_, ?_⟩)⟩
      · rw [abs_of_pos hpos] at hm; exact hm
      · simp only [dirDeg, deg2rad, xyzOfLonLatRad, R]
        have : (90 : ℝ) * (Real.pi / 180) = Real.pi / 2 := by ring
        rw [this]
        apply V3.ext' <;> simp
  · -- ordinary point: exact round trip
    have hz : |t.z| < 1 := by
      have := not_lt.mp hm; linarith
    have hxy : t.x ^ 2 + t.y ^ 2 ≠ 0 := by
      have : t.z ^ 2 < 1 := by
        have := (sq_lt_one_iff_abs_lt_one t.z).mpr hz; exact this
      intro h; nlinarith
    simp only [lonLatDegOfXyz, lonLatRad_nomask t hm]
    refine ⟨⟨(wrap180_range _).1, (wrap180_range _).2.le, ?_, ?_⟩, Or.inl ?_⟩
    · simp only [rad2deg, R]
      have := Real.neg_pi_div_two_le_arcsin t.z
      have h180 : 0 < 180 / Real.pi := by positivity
      have : -(Real.pi / 2) * (180 / Real.pi) ≤ Real.arcsin t.z * (180 / Real.pi) :=
        mul_le_mul_of_nonneg_right this h180.le
      have e : -(Real.pi / 2) * (180 / Real.pi) = -90 := by field_simp; norm_num
      linarith
    · simp only [rad2deg, R]
      have := Real.arcsin_le_pi_div_two t.z
      have h180 : 0 < 180 / Real.pi := by positivity
      have : Real.arcsin t.z * (180 / Real.pi) ≤ (Real.pi / 2) * (180 / Real.pi) :=
        mul_le_mul_of_nonneg_right this h180.le
      have e : (Real.pi / 2) * (180 / Real.pi) = 90 := by field_simp; norm_num
      linarith
    · rw [dirDeg_wrap180]
      have e1 : dirDeg (R tol ct) (rad2deg (R tol ct) ⟨(R tol ct).fmod (Complex.arg ⟨t.x, t.y⟩) (2 * (R tol ct).pi)⟩,
                  rad2deg (R tol ct) ⟨Real.arcsin t.z⟩)
              = xyzOfLonLatRad (R tol ct) ⟨(R tol ct).fmod (Complex.arg ⟨t.x, t.y⟩) (2 * (R tol ct).pi)⟩ ⟨Real.arcsin t.z⟩ := by
        simp only [dirDeg, deg2rad_rad2deg]
      have e0 : (⟨(rad2deg (R tol ct) ⟨(R tol ct).fmod (Complex.arg ⟨t.x, t.y⟩) (2 * (R tol ct).pi)⟩).val⟩ : Deg ℝ)
              = rad2deg (R tol ct) ⟨(R tol ct).fmod (Complex.arg ⟨t.x, t.y⟩) (2 * (R tol ct).pi)⟩ := rfl
      rw [e0, e1, xyz_mod_two_pi, xyz_of_lonlat_of_xyz t hu hxy]


/-- `_populate_node_latlon` on a positive multiple of the unit vector `t`: the longitude is ≥ 0 (it
    is NOT wrapped: it lies in [0, 360)), the latitude is in range, and the pair denotes `t` -/
theorem nodeLL_of_unit (h0 : 0 < tol) (h1 : tol < 1) (t : V3 ℝ) (hu : normSq t = 1) :
    let p : Deg ℝ × Deg ℝ := (rad2deg (R tol ct) (lonLatRadOfXyz (R tol ct) false t).1,
                              rad2deg (R tol ct) (lonLatRadOfXyz (R tol ct) false t).2)
    (-180 ≤ p.1.val ∧ -90 ≤ p.2.val ∧ p.2.val ≤ 90) ∧ SameDir tol (dirDeg (R tol ct) p) t := by
  intro p
  have hu' : t.x ^ 2 + t.y ^ 2 + t.z ^ 2 = 1 := by
    simp only [normSq, dot] at hu; nlinarith [hu]
  have hpi := Real.pi_pos
  have hdir : dirDeg (R tol ct) p
      = xyzOfLonLatRad (R tol ct) (lonLatRadOfXyz (R tol ct) false t).1 (lonLatRadOfXyz (R tol ct) false t).2 := by
    simp only [p, dirDeg, deg2rad_rad2deg]
  rw [hdir]
  by_cases hm : 1 - tol < |t.z|
  · have hz0 : t.z ≠ 0 := by
      intro h; rw [h, abs_zero] at hm; linarith
    simp only [p, lonLatRad_mask t hm, rad2deg]
    rcases lt_or_gt_of_ne hz0 with hneg | hpos
    · have hs : signK (R tol ct) t.z = -1 := by
        simp [signK, R, hneg, not_lt.mpr hneg.le]
      rw [hs]
      have hlat : (-1 * Real.pi / 2 * (180 / (R tol ct).pi)) = -90 := by
        simp only [R]; field_simp; norm_num
      rw [hlat]
      refine ⟨⟨by norm_num, by norm_num, by norm_num⟩, Or.inr (Or.inr ⟨?_, ?_⟩)⟩
      · rw [abs_of_neg hneg] at hm; exact hm
      · simp only [xyzOfLonLatRad, R]
        have : (-1 : ℝ) * Real.pi / 2 = -(Real.pi / 2) := by ring
        rw [this]
        apply V3.ext' <;> simp
    · have hs : signK (R tol ct) t.z = 1 := by
        simp [signK, R, hpos]
      rw [hs]
      have hlat : (1 * Real.pi / 2 * (180 / (R tol ct).pi)) = 90 := by
        simp only [R]; field_simp; norm_num
      rw [hlat]
      refine ⟨⟨by norm_num, by norm_num, by norm_num⟩, Or.inr (Or.inl ⟨?_, ?_⟩)⟩
      · rw [abs_of_pos hpos] at hm; exact hm
      · simp only [xyzOfLonLatRad, R]
        have : (1 : ℝ) * Real.pi / 2 = Real.pi / 2 := by ring
        rw [this]
        apply V3.ext' <;> simp
  · have hz : |t.z| < 1 := by
      have := not_lt.mp hm; linarith
    have hxy : t.x ^ 2 + t.y ^ 2 ≠ 0 := by
      have : t.z ^ 2 < 1 := (sq_lt_one_iff_abs_lt_one t.z).mpr hz
      intro h; nlinarith
    simp only [p, lonLatRad_nomask t hm]
    have h180 : 0 < 180 / Real.pi := by positivity
    refine ⟨⟨?_, ?_, ?_⟩, Or.inl ?_⟩
    · simp only [rad2deg, fmod_def]
      have h2pi : (0:ℝ) < 2 * (R tol ct).pi := by simp only [R]; positivity
      have hfl := Int.floor_le (Complex.arg ⟨t.x, t.y⟩ / (2 * (R tol ct).pi))
      rw [le_div_iff₀ h2pi] at hfl
      have hnn : 0 ≤ Complex.arg ⟨t.x, t.y⟩ - 2 * (R tol ct).pi * (⌊Complex.arg ⟨t.x, t.y⟩ / (2 * (R tol ct).pi)⌋ : ℤ) := by
        linarith
      have : 0 ≤ (Complex.arg ⟨t.x, t.y⟩ - 2 * (R tol ct).pi * (⌊Complex.arg ⟨t.x, t.y⟩ / (2 * (R tol ct).pi)⌋ : ℤ)) * (180 / (R tol ct).pi) :=
        mul_nonneg hnn (by simp only [R]; exact h180.le)
      linarith
    · simp only [rad2deg, R]
      have := Real.neg_pi_div_two_le_arcsin t.z
      have : -(Real.pi / 2) * (180 / Real.pi) ≤ Real.arcsin t.z * (180 / Real.pi) :=
        mul_le_mul_of_nonneg_right this h180.le
      have e : -(Real.pi / 2) * (180 / Real.pi) = -90 := by field_simp; norm_num
      linarith
    · simp only [rad2deg, R]
      have := Real.arcsin_le_pi_div_two t.z
      have : Real.arcsin t.z * (180 / Real.pi) ≤ (Real.pi / 2) * (180 / Real.pi) :=
        mul_le_mul_of_nonneg_right this h180.le
      have e : (Real.pi / 2) * (180 / Real.pi) = 90 := by field_simp; norm_num
      linarith
    · rw [xyz_mod_two_pi, xyz_of_lonlat_of_xyz t hu hxy]

/-! ### `normalize=True`: the double normalisation is the identity on the normalised vector -/

theorem lonLatRad_norm (v : V3 ℝ) (hv : normSq v ≠ 0) :
    lonLatRadOfXyz (R tol ct) true v = lonLatRadOfXyz (R tol ct) false (normalizeV (R tol ct) v) := by
  have h := normalize_unit (tol := tol) (ct := ct) v hv
  simp only [lonLatRadOfXyz, if_true, h]
  simp [R, V3.divS]

theorem lonLatDeg_norm (v : V3 ℝ) (hv : normSq v ≠ 0) :
    lonLatDegOfXyz (R tol ct) true v = lonLatDegOfXyz (R tol ct) false (normalizeV (R tol ct) v) := by
  simp only [lonLatDegOfXyz, lonLatRad_norm v hv]

theorem smul_one (t : V3 ℝ) : V3.smul 1 t = t := by
  apply V3.ext' <;> simp [V3.smul]

theorem normSq_smul (c : ℝ) (t : V3 ℝ) : normSq (V3.smul c t) = c ^ 2 * normSq t := by
  simp only [normSq, dot, V3.smul]; ring

/-- a positive multiple of a unit vector normalises to that unit vector -/
theorem normalize_posmul (c : ℝ) (hc : 0 < c) (t : V3 ℝ) (ht : normSq t = 1) :
    normalizeV (R tol ct) (V3.smul c t) = t := by
  rw [normalize_smul c hc t (by rw [ht]; norm_num), normalize_of_unit t ht]

theorem normSq_posmul_ne (c : ℝ) (hc : 0 < c) (t : V3 ℝ) (ht : normSq t = 1) :
    normSq (V3.smul c t) ≠ 0 := by
  rw [normSq_smul, ht]; positivity

/-! ### centroids are invariant under a common rescaling of the corners -/

theorem smul_zero' (r : ℝ) : V3.smul r (V3.zero : V3 ℝ) = V3.zero := by
  apply V3.ext' <;> simp [V3.smul, V3.zero]

theorem nodeAt_map_smul (r : ℝ) (tn : List (V3 ℝ)) (i : Nat) :
    nodeAt (tn.map (V3.smul r)) i = V3.smul r (nodeAt tn i) := by
  simp only [nodeAt, List.getD_eq_getElem?_getD, List.getElem?_map]
  cases h : tn[i]? with
  | none => simp [smul_zero']
  | some v => simp

theorem sumV_map_smul (r : ℝ) (l : List (V3 ℝ)) :
    sumV (l.map (V3.smul r)) = V3.smul r (sumV l) := by
  induction l with
  | nil => simp [sumV, smul_zero']
  | cons a l ih =>
    simp only [sumV, List.map_cons, List.foldr_cons] at *
    rw [ih]; apply V3.ext' <;> simp [V3.add, V3.smul] <;> ring

theorem meanV_map_smul (r : ℝ) (l : List (V3 ℝ)) :
    meanV (R tol ct) (l.map (V3.smul r)) = V3.smul r (meanV (R tol ct) l) := by
  simp only [meanV, sumV_map_smul, List.length_map]
  apply V3.ext' <;> simp [V3.divS, V3.smul] <;> ring

theorem faceCentroid_scaled (r : ℝ) (hr : 0 < r) (tn : List (V3 ℝ)) (f : List Nat)
    (hnz : normSq (meanV (R tol ct) (f.map (nodeAt tn))) ≠ 0) :
    faceCentroid (R tol ct) (tn.map (V3.smul r)) f = faceCentroid (R tol ct) tn f := by
  simp only [faceCentroid]
  have : f.map (nodeAt (tn.map (V3.smul r))) = (f.map (nodeAt tn)).map (V3.smul r) := by
    simp [List.map_map, Function.comp_def, nodeAt_map_smul]
  rw [this, meanV_map_smul, normalize_smul r hr _ hnz]

theorem edgeCentroid_scaled (r : ℝ) (hr : 0 < r) (tn : List (V3 ℝ)) (e : Nat × Nat)
    (hnz : normSq (meanV (R tol ct) [nodeAt tn e.1, nodeAt tn e.2]) ≠ 0) :
    edgeCentroid (R tol ct) (tn.map (V3.smul r)) e = edgeCentroid (R tol ct) tn e := by
  simp only [edgeCentroid]
  have : [nodeAt (tn.map (V3.smul r)) e.1, nodeAt (tn.map (V3.smul r)) e.2]
       = [nodeAt tn e.1, nodeAt tn e.2].map (V3.smul r) := by
    simp [nodeAt_map_smul]
  rw [this, meanV_map_smul, normalize_smul r hr _ hnz]

end UxVerif.CoordsR
