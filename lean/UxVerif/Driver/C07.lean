import UxVerif.Model.Proto
import UxVerif.Model.Encode

/-!
  Driver for C07.  Names cross the integer-only protocol as indices into `Gen.Conv.NAMES`
  (an index beyond the table stands for the otherwise unknown name `?<index>`).
  Positions are abstract: node `i` of a grid is the integer `i`; "converted to Cartesian the right
  way" is `i + XYZ_OK`, "degrees handed to the radians function" is `i`.
-/
namespace UxVerif.Driver.C07
open UxVerif UxVerif.Proto UxVerif.Encode

def XYZ_OK : Int := 1000000000

def nameOf (i : Nat) : String := Gen.Conv.NAMES.getD i s!"?{i}"

def idxOf (s : String) : Nat :=
  match Gen.Conv.NAMES.idxOf? s with
  | some i => i
  | none => ((s.drop 1).toNat?).getD 999999

def nameP : P String := do return nameOf (← nat)
def namesP : P (List String) := list nameP

def cfgP : P Cfg := do
  let a ← bool; let b ← bool; let c ← bool; let d ← bool; let e ← bool; let f ← bool; let g ← bool
  let h ← bool
  pure ⟨a, b, c, d, e, f, g, h⟩

def varP : P Var := do
  let n ← nameP; let ds ← namesP
  let ats ← list (do let k ← nameP; let kd ← nat; pure (k, AttrKind.ofCode kd))
  pure ⟨n, ds, ats⟩

def topoP : P Topo := list (do let k ← nameP; let v ← namesP; pure (k, v))
def encodingsP : P Encodings := list (do let k ← nameP; let v ← namesP; pure (k, v))

def dsP : P (Ds Int) := do
  let t ← rows; let n ← nat; let ll ← bool; let ex ← list varP; let en ← encodingsP
  let hasS ← bool; let sv ← int
  pure { table := t, nodes := (List.range n).map Int.ofNat, lonlat := ll, extras := ex, encoding := en,
         fnStart := if hasS then some sv else none }

def fmtP : P Fmt := do
  match (← nat) with
  | 0 => pure .ugrid
  | 1 => pure .exodus
  | 2 => pure .scrip
  | _ => failure

def opP : P Op := do
  match (← nat) with
  | 0 => do let g ← nat; let vs ← list varP; pure (.materialise g vs)
  | 1 => do let g ← nat; let f ← fmtP; pure (.encode g f)
  | _ => failure

def blockP : P Block := do
  let k ← nat; let fid ← nat; let c ← rows
  pure ⟨k, c, fid⟩

/-! encoders -/
def encNames (l : List String) : String := encNats (l.map idxOf)
def encTopo (t : Topo) : String :=
  " ".intercalate (toString t.length :: t.map (fun e => s!"{idxOf e.1} {encNames e.2}"))
def encVar (v : Var) : String :=
  s!"{idxOf v.name} {encNames v.dims} " ++
  " ".intercalate (toString v.attrs.length :: v.attrs.map (fun a => s!"{idxOf a.1} {a.2.toCode}"))
def encVars (vs : List Var) : String := " ".intercalate (toString vs.length :: vs.map encVar)
def encBlock (b : Block) : String := s!"{b.nodesPerEl} {b.firstId} {encRows b.connect}"
def encBlocks (bs : List Block) : String := " ".intercalate (toString bs.length :: bs.map encBlock)

def env : Env Int Int := { radToXyz := id, deg2rad := (· + XYZ_OK), toXyz := (· + XYZ_OK) }

def encOut : Out Int Int → String
  | .nothing => "0"
  | .ugrid o =>
    let st := match o.fnStart with | some v => s!"1 {v}" | none => "0 0"
    s!"1 {encTopo o.topo} {encVars o.vars} {encTopo o.encoding} {st}"
  | .exodus none => "2 0"
  | .exodus (some o) => s!"2 1 {encInts o.coord} {encBlocks o.blocks}"
  | .scrip none => "3 0"
  | .scrip (some c) => s!"3 1 {encRows c}"

def handle (cmd : String) (args : List Int) : Option String :=
  match cmd with
  | "C07.run" => do
      -- whole history through the model: outputs of every operation, then the final template
      let (cfg, tmpl, grids, ops) ← run (do
        let c ← cfgP; let t ← topoP; let g ← list dsP; let o ← list opP; pure (c, t, g, o)) args
      let r := Encode.run cfg env { tmpl := tmpl, grids := grids } ops
      pure (" ".intercalate (toString r.2.length :: r.2.map encOut) ++ " " ++ encTopo r.1.tmpl)
  | "C07.exototal" => do
      let _ ← run eof args
      pure (encBool exoTotalFrom3)
  | "C07.template" => do
      let _ ← run eof args
      pure (encTopo Gen.Conv.BASE_GRID_TOPOLOGY_ATTRS)
  | "C07.ugridspec" => do
      -- the implementation's UGRID export, judged by the model's predicates
      let (vs, topo, en) ← run (do let v ← list varP; let t ← topoP; let e ← encodingsP; pure (v, t, e)) args
      let o : UgridOut Int := { table := [], nodes := [], vars := vs, topo := topo, encoding := en }
      let fl := (if decide (ClosedIn o.topo o.vars) then [] else ["topology_closed"]) ++
        (if o.serialisable then [] else ["serialisable"]) ++
        (if o.writable || !o.serialisable then [] else ["encoding_conflict"]) ++
        (if (decodeUgrid o).isSome then [] else ["readable"])
      pure (if fl.isEmpty then "ok" else "fail " ++ ",".intercalate fl)
  | "C07.exospec" => do
      -- the implementation's connect blocks: does a reader of all blocks / of the last block get
      -- the faces of the table back (as a multiset, same corner order)?
      let (t, bs) ← run (do let t ← rows; let b ← list blockP; pure (t, b)) args
      let faces := t.map faceOf
      let all := (decodeExodusAll bs).map faceOf
      let last := (decodeExodusLast bs).map faceOf
      let rect := bs.all (fun b => b.connect.all (fun r => r.length == b.nodesPerEl))
      let eqms (a b : List (List Int)) : Bool :=
        a.length == b.length && (a ++ b).all (fun f => a.count f == b.count f)
      pure s!"{encBool (rect && eqms faces all)} {encBool (rect && eqms faces last)}"
  | "C07.scripspec" => do
      -- the implementation's corner table (corner positions named by the node they coincide with):
      -- once trailing repeats are read as padding, every row is the face it encodes
      let (t, c) ← run (do let t ← rows; let c ← rows; pure (t, c)) args
      pure (encBool (t.length == c.length &&
        (List.zip t c).all (fun p => p.2.length == p.1.length && faceOf (collapseRow p.2) == faceOf p.1)))
  | "C07.tables" => do
      -- carried-over connectivity tables of a re-opened grid: name, start_index attribute of the
      -- export (flag, value), the grid's table, the re-opened grid's table
      let ts ← run (list (do
        let n ← nameP; let has ← bool; let sv ← int; let a ← rows; let b ← rows
        pure (n, (if has then some sv else none), a, b))) args
      let f1 := carriedFailing ts
      let f2 := carriedModelDiffers ts
      pure (s!"{encNames f1} {encNames f2}")
  | "C07.rt" => do
      let (f, orig, got) ← run (do let f ← fmtP; let a ← rows; let b ← rows; pure (f, a, b)) args
      let fl := failing f orig got
      pure (if fl.isEmpty then "ok" else "fail " ++ ",".intercalate fl)
  | "C07.std" => do
      let (n, w, t) ← run (do let n ← nat; let w ← nat; let t ← rows; pure (n, w, t)) args
      pure (encBool (decide (StdForm n w t)))
  | _ => none

end UxVerif.Driver.C07
