import UxVerif.Model.Proto
import UxVerif.Model.EdgeOps

/-
  Driver for C16.  Every verdict on the implementation's output is computed here, by the Lean
  definitions of `Model/EdgeOps.lean` run at `Float`:

  * exact clauses (`diffFaceSpecB`, `diffNodeSpecB`, `gradSpecB`, boundary zeros, dims, dispatch,
    source-supplied pass-through) — IEEE `−`, `abs`, `/` are correctly rounded, so the model's
    value and NumPy's are bit-identical;
  * float clauses (distance = geodesic, unit norm) — compared with the independent `atan2`
    oracle under a conditioning-aware tolerance (`tolOf`).

  Arrays arrive as lists; an out-of-range read yields NaN (never a silent 0), and `C16.wf`
  (`TablesWF`) is asked first.
-/
namespace UxVerif.Driver.C16
open UxVerif UxVerif.Proto UxVerif.EdgeOps

def nan : Float := 0.0 / 0.0

def floatTrig : Trig Float :=
  { sin := Float.sin, cos := Float.cos, acos := Float.acos,
    deg2rad := fun x => x * (3.141592653589793 / 180.0) }

def nodeArr (l : List Float) : NodeArr Float := fun i => l.getD i.n nan
def faceArr (l : List Float) : FaceArr Float := fun i => l.getD i.n nan

def nodeV3 (x y z : List Float) : NodeIx → V3 Float :=
  fun i => ⟨x.getD i.n nan, y.getD i.n nan, z.getD i.n nan⟩
def faceV3 (x y z : List Float) : FaceIx → V3 Float :=
  fun i => ⟨x.getD i.n nan, y.getD i.n nan, z.getD i.n nan⟩

/-- oracle on raw Cartesian positions of any radius (scale invariant:
    `UxVerif.C16.oracleAngle_scale_invariant`) -/
def oracleFaceXYZ (c : FaceIx → V3 Float) (ef : EdgeFaces) : List Float :=
  ef.map (fun p => match p.2 with
    | some g => oracleAngle Float.sqrt Float.atan2 (c p.1) (c g)
    | none => 0.0)

def enP : P EdgeNodes := do
  let l ← list (do let a ← nat; let b ← nat; pure ((⟨a⟩ : NodeIx), (⟨b⟩ : NodeIx)))
  pure l

def efP : P EdgeFaces := do
  let l ← list (do
    let a ← nat
    let b ← int
    if b == FILL then pure ((⟨a⟩ : FaceIx), (none : Option FaceIx))
    else if b < 0 then failure
    else pure ((⟨a⟩ : FaceIx), some (⟨b.toNat⟩ : FaceIx)))
  pure l

/-- split a flat row-major array into its leading slices of length `n` -/
def chunks (n : Nat) (l : List Float) : Nat → List (List Float)
  | 0 => []
  | k + 1 => l.take n :: chunks n (l.drop n) k

/-- tolerance of an `arccos`-of-cosine evaluation of the angle `d` at unit round-off `eps`:
    an error of a few `eps` in the cosine is amplified by `1 / sin d` -/
def tolOf (eps d : Float) : Float :=
  let s := Float.abs (Float.sin d)
  let s := if s < Float.sqrt eps then Float.sqrt eps else s
  64.0 * eps / s + 64.0 * eps * (1.0 + d)

def leB (a b : Float) : Bool := a <= b   -- false when either side is NaN

def fmax (a b : Float) : Float := if a < b then b else if a == a then a else b

/-- per-edge judgement of a distance table: `(clause, edge)` of the first failure per clause,
    the largest error and the largest model difference -/
structure DistVerdict where
  bad : List (String × Nat)
  maxErr : Float
  maxModel : Float

def judgeDist (eps : Float) (oracle model impl : List Float) (boundary : List Bool) : DistVerdict :=
  let n := oracle.length
  let init : DistVerdict := { bad := if impl.length == n then [] else [("length", 0)], maxErr := 0.0, maxModel := 0.0 }
  (List.range n).foldl (fun v e =>
    let o := oracle.getD e nan
    let m := model.getD e nan
    let x := impl.getD e nan
    if boundary.getD e false then
      if x == 0.0 then v
      else if v.bad.any (·.1 == "boundary_zero") then v
      else { v with bad := v.bad ++ [("boundary_zero", e)] }
    else
      let err := Float.abs (x - o)
      let v := { v with maxErr := fmax v.maxErr err, maxModel := fmax v.maxModel (Float.abs (x - m)) }
      if leB err (tolOf eps o) then v
      else if v.bad.any (·.1 == "is_geodesic") then v
      else { v with bad := v.bad ++ [("is_geodesic", e)] }) init

def encVerdict (v : DistVerdict) : String :=
  let head := if v.bad.isEmpty then "ok -" else "fail " ++ ",".intercalate (v.bad.map (·.1))
  let edge := match v.bad with | [] => "-1" | b :: _ => toString b.2
  s!"{head} {edge} {encFloat v.maxErr} {encFloat v.maxModel}"

def fSqrt := Float.sqrt
def fAtan2 := Float.atan2
def fAbs := Float.abs

/-- first leading slice on which `ok` fails -/
def firstBad (n : Nat) (ok : Nat → Bool) : Option Nat := (List.range n).find? (fun i => !ok i)

def centreCode : Centre → String
  | .face => "face" | .node => "node" | .edge => "edge" | .other => "other"
def destOf : Nat → Dest | 0 => .node | 1 => .edge | 2 => .face | _ => .bad
def centreOfCode : Nat → Centre | 0 => .face | 1 => .node | 2 => .edge | _ => .other
def outcomeCode : Outcome → String
  | .edgeFaceDifference => "edge_face_difference" | .edgeNodeDifference => "edge_node_difference"
  | .gradient => "gradient" | .valueError => "ValueError" | .notImplemented => "NotImplementedError"

/-- every command of this driver, by name: the dispatch below IS a lookup in this table, so
    `C16.commands` (what the harness's start-up self-test asks for) cannot drift from it -/
def table : List (String × (List Int → Option String)) :=
  [ ("C16.wf", fun args => do
      let (nn, nf, en, ef) ← run (do let a ← nat; let b ← nat; let en ← enP; let ef ← efP; pure (a, b, en, ef)) args
      pure (encBool (decide (TablesWF nn nf en ef))))
  -- distance tables -----------------------------------------------------------------------
  , ("C16.dist.node", fun args => do
      let (eps, lon, lat, en, impl) ← run (do
        let eps ← float; let lon ← floats; let lat ← floats; let en ← enP; let impl ← floats
        pure (eps, lon, lat, en, impl)) args
      let oracle := en.map (fun p => oracleDist floatTrig fSqrt fAtan2
        (nodeArr lon p.1) (nodeArr lat p.1) (nodeArr lon p.2) (nodeArr lat p.2))
      let model := edgeNodeDist floatTrig (nodeArr lon) (nodeArr lat) en
      pure (encVerdict (judgeDist eps oracle model impl (en.map (fun _ => false)))))
  , ("C16.dist.face", fun args => do
      let (eps, lon, lat, ef, impl) ← run (do
        let eps ← float; let lon ← floats; let lat ← floats; let ef ← efP; let impl ← floats
        pure (eps, lon, lat, ef, impl)) args
      let oracle := ef.map (fun p => match p.2 with
        | some g => oracleDist floatTrig fSqrt fAtan2
            (faceArr lon p.1) (faceArr lat p.1) (faceArr lon g) (faceArr lat g)
        | none => 0.0)
      let model := edgeFaceDist floatTrig (faceArr lon) (faceArr lat) ef
      pure (encVerdict (judgeDist eps oracle model impl (ef.map (fun p => p.2.isNone)))))
  -- the same judgements against DIRECTIONS given as Cartesian positions of any radius
  , ("C16.dist.node.xyz", fun args => do
      let (eps, x, y, z, en, impl) ← run (do
        let eps ← float; let x ← floats; let y ← floats; let z ← floats; let en ← enP; let impl ← floats
        pure (eps, x, y, z, en, impl)) args
      let c := nodeV3 x y z
      let oracle := en.map (fun p => oracleAngle Float.sqrt Float.atan2 (c p.1) (c p.2))
      let model := edgeNodeDistXYZ Float.acos Float.sqrt c en
      pure (encVerdict (judgeDist eps oracle model impl (en.map (fun _ => false)))))
  , ("C16.dist.face.xyz", fun args => do
      let (eps, x, y, z, ef, impl) ← run (do
        let eps ← float; let x ← floats; let y ← floats; let z ← floats; let ef ← efP; let impl ← floats
        pure (eps, x, y, z, ef, impl)) args
      let c := faceV3 x y z
      let model := edgeFaceDistXYZ Float.acos Float.sqrt c ef
      pure (encVerdict (judgeDist eps (oracleFaceXYZ c ef) model impl (ef.map (fun p => p.2.isNone)))))
  , ("C16.oracle.face.xyz", fun args => do
      let (x, y, z, ef) ← run (do
        let x ← floats; let y ← floats; let z ← floats; let ef ← efP; pure (x, y, z, ef)) args
      pure (encFloats (oracleFaceXYZ (faceV3 x y z) ef)))
  , ("C16.oracle.node.xyz", fun args => do
      let (x, y, z, en) ← run (do
        let x ← floats; let y ← floats; let z ← floats; let en ← enP; pure (x, y, z, en)) args
      let c := nodeV3 x y z
      pure (encFloats (en.map (fun p => oracleAngle Float.sqrt Float.atan2 (c p.1) (c p.2)))))
  , ("C16.oracle.face", fun args => do
      let (lon, lat, ef) ← run (do let lon ← floats; let lat ← floats; let ef ← efP; pure (lon, lat, ef)) args
      pure (encFloats (ef.map (fun p => match p.2 with
        | some g => oracleDist floatTrig fSqrt fAtan2
            (faceArr lon p.1) (faceArr lat p.1) (faceArr lon g) (faceArr lat g)
        | none => 0.0))))
  , ("C16.oracle.node", fun args => do
      let (lon, lat, en) ← run (do let lon ← floats; let lat ← floats; let en ← enP; pure (lon, lat, en)) args
      pure (encFloats (en.map (fun p => oracleDist floatTrig fSqrt fAtan2
        (nodeArr lon p.1) (nodeArr lat p.1) (nodeArr lon p.2) (nodeArr lat p.2)))))
  , ("C16.model.face", fun args => do
      let (lon, lat, ef) ← run (do let lon ← floats; let lat ← floats; let ef ← efP; pure (lon, lat, ef)) args
      pure (encFloats (edgeFaceDist floatTrig (faceArr lon) (faceArr lat) ef)))
  , ("C16.model.face.asis", fun args => do
      let (lon, lat, ef) ← run (do let lon ← floats; let lat ← floats; let ef ← efP; pure (lon, lat, ef)) args
      pure (encFloats (edgeFaceDistAsIs floatTrig (nodeArr lon) (nodeArr lat) ef)))
  , ("C16.model.node", fun args => do
      let (lon, lat, en) ← run (do let lon ← floats; let lat ← floats; let en ← enP; pure (lon, lat, en)) args
      pure (encFloats (edgeNodeDist floatTrig (nodeArr lon) (nodeArr lat) en)))
  -- differences (exact) -------------------------------------------------------------------
  , ("C16.diff.face", fun args => do
      let (ef, nLead, nElem, data, impl) ← run (do
        let ef ← efP; let a ← nat; let b ← nat; let d ← floats; let i ← floats; pure (ef, a, b, d, i)) args
      if data.length != nLead * nElem || impl.length != nLead * ef.length then pure "fail shape 0"
      else
        let ds := chunks nElem data nLead
        let os := chunks ef.length impl nLead
        match firstBad nLead (fun s => diffFaceSpecB fAbs ef (faceArr (ds.getD s [])) (os.getD s [])) with
        | none => pure "ok"
        | some s => pure s!"fail diff_face {s}")
  , ("C16.diff.node", fun args => do
      let (en, nLead, nElem, data, impl) ← run (do
        let en ← enP; let a ← nat; let b ← nat; let d ← floats; let i ← floats; pure (en, a, b, d, i)) args
      if data.length != nLead * nElem || impl.length != nLead * en.length then pure "fail shape 0"
      else
        let ds := chunks nElem data nLead
        let os := chunks en.length impl nLead
        match firstBad nLead (fun s => diffNodeSpecB fAbs en (nodeArr (ds.getD s [])) (os.getD s [])) with
        | none => pure "ok"
        | some s => pure s!"fail diff_node {s}")
  -- gradient ------------------------------------------------------------------------------
  -- exact: `dist` is the table the gradient must divide by, bit for bit
  , ("C16.grad.exact", fun args => do
      let (ef, dist, nLead, nElem, data, impl) ← run (do
        let ef ← efP; let ds ← floats; let a ← nat; let b ← nat; let d ← floats; let i ← floats
        pure (ef, ds, a, b, d, i)) args
      if data.length != nLead * nElem || impl.length != nLead * ef.length || dist.length != ef.length then
        pure "fail shape 0"
      else
        let ds := chunks nElem data nLead
        let os := chunks ef.length impl nLead
        match firstBad nLead (fun s => gradSpecB fAbs ef dist (faceArr (ds.getD s [])) (os.getD s [])) with
        | none => pure "ok"
        | some s => pure s!"fail grad_eq_diff_div_dist {s}")
  -- tolerant: `dist` are oracle centre-to-centre arcs in radians
  , ("C16.grad.oracle", fun args => do
      let (eps, ef, dist, nLead, nElem, data, impl) ← run (do
        let eps ← float; let ef ← efP; let ds ← floats; let a ← nat; let b ← nat; let d ← floats; let i ← floats
        pure (eps, ef, ds, a, b, d, i)) args
      if data.length != nLead * nElem || impl.length != nLead * ef.length || dist.length != ef.length then
        pure "fail shape 0"
      else
        let ds := chunks nElem data nLead
        let os := chunks ef.length impl nLead
        let okSlice (s : Nat) : Option String :=
          let d := faceArr (ds.getD s [])
          let o := os.getD s []
          let want := List.zipWith (gradOf fAbs d) ef dist
          (List.range ef.length).findSome? (fun e =>
            let w := want.getD e nan
            let x := o.getD e nan
            let δ := dist.getD e nan
            match (ef.getD e (⟨0⟩, none)).2 with
            | none => if x == 0.0 then none else some "grad_boundary_zero"
            | some _ =>
              if w == 0.0 then (if x == 0.0 then none else some "grad_const_zero")
              else
                let rel := tolOf eps δ / δ + 8.0 * eps
                if leB (Float.abs (x - w)) (rel * Float.abs w) then none
                else some "grad_eq_diff_div_centre_dist")
        match (List.range nLead).findSome? (fun s => (okSlice s).map (fun c => (c, s))) with
        | none => pure "ok"
        | some (c, s) => pure s!"fail {c} {s}")
  -- normalised: per leading slice, against the model's own normalisation of diff / dist
  , ("C16.grad.norm", fun args => do
      let (tol, ef, dist, nLead, nElem, data, impl) ← run (do
        let tol ← float; let ef ← efP; let ds ← floats; let a ← nat; let b ← nat; let d ← floats; let i ← floats
        pure (tol, ef, ds, a, b, d, i)) args
      if data.length != nLead * nElem || impl.length != nLead * ef.length || dist.length != ef.length then
        pure "fail shape 0 0"
      else
        let ds := chunks nElem data nLead
        let os := chunks ef.length impl nLead
        let judge (s : Nat) : Option String × Bool :=
          let g := gradEdge fAbs ef dist (faceArr (ds.getD s []))
          let o := os.getD s []
          let n2 := sumsq g
          if !(n2 == n2) || n2 == (1.0 / 0.0) then (none, true)   -- non-finite gradient: not judged
          else if n2 == 0.0 then
            -- zero gradient (constant slice / no two-face edge): the quotient is 0/0.  What the code
            -- returns there is the IEEE value of the model, NaN on every edge; the only other value
            -- compatible with "zero for constant fields" is 0 on every edge.  Anything else is wrong.
            let allNaN := o.length == ef.length && o.all (fun x => !(x == x))
            let allZero := o.length == ef.length && o.all (fun x => x == 0.0)
            if allNaN || allZero then (none, true) else (some "normalized_zero_gradient_slice", true)
          else
            let want := normalizeRow fSqrt g
            let unit := leB (Float.abs (fSqrt (sumsq o) - 1.0)) tol
            let vals := (List.range ef.length).all (fun e =>
              leB (Float.abs (o.getD e nan - want.getD e nan)) tol)
            if !unit then (some "normalized_unit_norm", false)
            else if !vals then (some "normalized_value", false)
            else (none, false)
        let rs := (List.range nLead).map judge
        let degenerate := (rs.filter (·.2)).length
        match (List.range nLead).findSome? (fun s => ((rs.getD s (none, false)).1).map (fun c => (c, s))) with
        | none => pure s!"ok - 0 {degenerate}"
        | some (c, s) => pure s!"fail {c} {s} {degenerate}")
  -- the as-is model of the normalisation, to confirm a diagnosis
  , ("C16.grad.norm.asis", fun args => do
      let (ef, dist, nLead, nElem, data) ← run (do
        let ef ← efP; let ds ← floats; let a ← nat; let b ← nat; let d ← floats
        pure (ef, ds, a, b, d)) args
      let ds := chunks nElem data nLead
      pure (encFloats (gradientNDAsIs fAbs fSqrt true ef dist (ds.map faceArr)).flatten))
  -- dims / dispatch -----------------------------------------------------------------------
  , ("C16.dims", fun args => do
      let (dims, impl) ← run (do let a ← ints; let b ← ints; pure (a, b)) args
      -- codes: 0 n_face, 1 n_node, 2 n_edge, ≥ 10 a leading dimension
      pure (encBool (impl == resultDims (2 : Int) dims)))
  , ("C16.centre", fun args => do
      let dims ← run ints args
      pure (centreCode (centreOf (0 : Int) 1 2 dims)))
  , ("C16.dispatch.diff", fun args => do
      let (c, d) ← run (do let c ← nat; let d ← nat; pure (c, d)) args
      pure (outcomeCode (differenceDispatch (centreOfCode c) (destOf d))))
  , ("C16.dispatch.grad", fun args => do
      let c ← run nat args
      pure (outcomeCode (gradientDispatch (centreOfCode c))))
  -- source-supplied distances -------------------------------------------------------------
  , ("C16.mpas", fun args => do
      let (dual, dv, dc, en, ef) ← run (do
        let dual ← bool; let dv ← floats; let dc ← floats; let en ← floats; let ef ← floats
        pure (dual, dv, dc, en, ef)) args
      let want := mpasDistances dual dv dc
      let bad := (if en == want.1 then [] else ["supplied_edge_node_distances"]) ++
                 (if ef == want.2 then [] else ["supplied_edge_face_distances"])
      let asis := mpasDistancesAsIs dual dv dc
      let isAsIs := en == asis.1 && ef == asis.2
      pure (if bad.isEmpty then "ok" else s!"fail {",".intercalate bad} {encBool isAsIs}"))
  ]

def handle (cmd : String) (args : List Int) : Option String :=
  if cmd == "C16.commands" then some (" ".intercalate (table.map (·.1)))
  else match table.lookup cmd with
    | some f => f args
    | none => none


end UxVerif.Driver.C16
