import UxVerif.Model.Proto
import UxVerif.Model.Dual

namespace UxVerif.Driver.C18
open UxVerif UxVerif.Proto UxVerif.Dual

/-- the run-time functions at `Float` (platform libm; NumPy uses its own kernels) -/
def numF : Num Float :=
  { sqrt := Float.sqrt, acos := Float.acos, lt := fun a b => decide (a < b),
    twoPi := 2.0 * 3.141592653589793 }

/-- `3k` floats as `k` vectors -/
def vecs : List Float → List (V3 Float)
  | x :: y :: z :: r => ⟨x, y, z⟩ :: vecs r
  | _ => []

structure In where
  NF : Table
  nodes : List (V3 Float)
  cents : List (V3 Float)

def inP : P In := do
  let NF ← rows; let a ← floats; let b ← floats
  pure ⟨NF, vecs a, vecs b⟩

def topoP : P Topo := do
  let FE ← rows; let N ← nats; let nEdge ← nat; let E ← pairs
  pure ⟨FE, N, nEdge, E⟩

/-- the ring / counter-clockwise oracle works on DIRECTIONS: every coordinate vector is scaled
    to unit length first (grids may carry Cartesian coordinates on a sphere of any radius) -/
def unitV (v : V3 Float) : V3 Float :=
  let n := Float.sqrt (v.x * v.x + v.y * v.y + v.z * v.z)
  if n > 0.0 then ⟨v.x / n, v.y / n, v.z / n⟩ else v

def encVerdict (v : Verdict) : String :=
  let cl := (if v.count then [] else ["count"]) ++ (if v.rows then [] else ["rows"]) ++
            (if v.ringBad.isEmpty then [] else ["ring"]) ++ (if v.ccwBad.isEmpty then [] else ["ccw"])
  let head := if cl.isEmpty then "ok -" else "fail " ++ ",".intercalate cl
  s!"{head} {v.judged} {v.geomSkipped} {v.tieSkipped} {v.gapSkipped} {encNats v.ringBad} {encNats v.ccwBad}"

def handle (cmd : String) (args : List Int) : Option String :=
  match cmd with
  | "C18.model" => do
      -- flags (1 = tangent-plane key, 2 = gather non-fill entries; 3 = repaired algorithm; 4 = unit-normal helper) NF nodes cents
      let (rep, i) ← run (do let r ← nat; let i ← inP; pure (r, i)) args
      if rep == 4 then pure (encRows (constructDualUnitHelper numF i.nodes i.cents i.NF))
      else pure (encRows (constructDual numF (rep % 2 == 1) (rep / 2 % 2 == 1) i.nodes i.cents i.NF))
  | "C18.discrete" => do
      let (NF, D) ← run (do let a ← rows; let b ← rows; pure (a, b)) args
      pure (encBool (decide (DiscreteSpec NF D)))
  | "C18.spec" => do
      -- NF nodes cents FE N nEdge E eps D
      let (i, t, eps, D) ← run (do
        let i ← inP; let t ← topoP; let eps ← float; let D ← rows; pure (i, t, eps, D)) args
      pure (encVerdict (verdict numF ⟨i.nodes.map unitV, i.cents.map unitV, eps⟩ t i.NF D))
  | "C18.nodeface" => do
      -- n face_node_table: the transpose computed by C03's proved model (rows padded at the end)
      let (n, t) ← run (do let n ← nat; let t ← rows; pure (n, t)) args
      pure (encRows (Incidence.nodeFace n t))
  | "C18.kept" => do
      let NF ← run rows args
      pure (encNats (keptNodes NF))
  | "C18.data" => do
      -- dims (codes) values (float bit patterns, passed through untouched)
      let (dims, vals) ← run (do let d ← nats; let v ← ints; pure (d, v)) args
      let o := dualData dims vals
      pure s!"{encNats o.1} {encInts o.2}"
  | "C18.order" => do
      -- abstract-key selection on integer keys: zero twoPi maxEdges first keys values
      let (z, tp, w, first, ks, vs) ← run (do
        let z ← int; let tp ← int; let w ← nat; let f ← int; let ks ← ints; let vs ← ints
        pure (z, tp, w, f, ks, vs)) args
      pure (encInts (orderNodes (fun a b => decide (a < b)) z tp w first (List.zip ks vs)))
  | _ => none

end UxVerif.Driver.C18
