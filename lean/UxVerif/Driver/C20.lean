import UxVerif.Model.Proto
import UxVerif.Model.GridEq

namespace UxVerif.Driver.C20
open UxVerif UxVerif.Proto UxVerif.GridEq

/-- wire format of a grid: `spec(list nat) lon(list nat) lat(list nat) nFace width conn(list int) cLon cLat cConn` where a coordinate list is `k (name(list nat) vals(list nat))*` -/
def coordP : P Coord := do
  let n ← nats; let v ← nats
  pure { name := n, vals := v }

def gridP : P Grid := do
  let s ← nats; let lo ← nats; let la ← nats
  let nf ← nat; let w ← nat; let c ← ints
  let c1 ← list coordP; let c2 ← list coordP; let c3 ← list coordP
  pure { spec := s, lon := lo, lat := la, nFace := nf, width := w, conn := c, cLon := c1, cLat := c2, cConn := c3 }

/-- backing of one variable: `0` (numpy) or `1 name chunks(list nat)` (dask) -/
def backingP : P Backing := do
  let k ← nat
  if k == 0 then pure .numpy else do
    let n ← nat; let c ← nats
    pure (.dask n c)

/-- a grid followed by the backings of node_lon, node_lat, face_node_connectivity -/
def bgridP : P BGrid := do
  let g ← gridP; let x ← backingP; let y ← backingP; let z ← backingP
  pure { g := g, bLon := x, bLat := y, bConn := z }

def verdict (fl : List String) : String :=
  if fl.isEmpty then "ok" else "fail " ++ ",".intercalate fl

def handle (cmd : String) (args : List Int) : Option String :=
  match cmd with
  | "C20.model" => do
      -- outputs of the repaired `==`, of `!=`, and of the as-is (`or`) `==`
      let (a, b) ← run (do let a ← gridP; let b ← gridP; pure (a, b)) args
      pure s!"{encBool (pyEq a (.grid b))} {encBool (pyNe a (.grid b))} {encBool (gridEqAsIs a b)}"
  | "C20.spec" => do
      -- Spec evaluated on the implementation's outputs of `a == b`, `a != b`
      let (a, b, e, n) ← run (do let a ← gridP; let b ← gridP; let e ← bool; let n ← bool; pure (a, b, e, n)) args
      pure (verdict (failing a b e n))
  | "C20.diff" => do
      let (a, b) ← run (do let a ← gridP; let b ← gridP; pure (a, b)) args
      let d := differing a b
      pure ((if d.isEmpty then "none" else "+".intercalate d) ++
        (if sameCoords a b then " coords-same" else " coords-differ"))
  | "C20.pair" => do
      -- one round trip per observed pair: `a b (a==b) (a!=b) (b==a) (b!=a)` →
      -- `<differing> <coords>;<Spec a b>;<Spec b a>;<symm>;<model == != asis>`
      let (a, b, e1, n1, e2, n2) ← run (do
        let a ← gridP; let b ← gridP
        let e1 ← bool; let n1 ← bool; let e2 ← bool; let n2 ← bool
        pure (a, b, e1, n1, e2, n2)) args
      let d := differing a b
      let ds := (if d.isEmpty then "none" else "+".intercalate d) ++
        (if sameCoords a b then " coords-same" else " coords-differ")
      let m := s!"{encBool (pyEq a (.grid b))} {encBool (pyNe a (.grid b))} {encBool (gridEqAsIs a b)}"
      pure (";".intercalate [ds, verdict (failing a b e1 n1), verdict (failing b a e2 n2),
        verdict (if symmOK e1 e2 then [] else ["eq_symm"]), m])
  | "C20.bpair" => do
      -- as `C20.pair`, the grids given with their backing state; two more fields:
      -- `<gridEqB a b> <gridEqB b a> <namesFaithful a b> <namesFaithful b a>` and `<kind a>+<kind b>`.
      -- The Spec and the value-level model never see the backing.
      let (a, b, e1, n1, e2, n2) ← run (do
        let a ← bgridP; let b ← bgridP
        let e1 ← bool; let n1 ← bool; let e2 ← bool; let n2 ← bool
        pure (a, b, e1, n1, e2, n2)) args
      let d := differing a.g b.g
      let ds := (if d.isEmpty then "none" else "+".intercalate d) ++
        (if sameCoords a.g b.g then " coords-same" else " coords-differ")
      let m := s!"{encBool (pyEq a.g (.grid b.g))} {encBool (pyNe a.g (.grid b.g))} {encBool (gridEqAsIs a.g b.g)}"
      let bm := s!"{encBool (gridEqB a b)} {encBool (gridEqB b a)} {encBool (namesFaithful a b)} {encBool (namesFaithful b a)} {encBool (gridEqCoords a.g b.g)} {encBool (gridEqConnDA a.g b.g)}"
      pure (";".intercalate [ds, verdict (failing a.g b.g e1 n1), verdict (failing b.g a.g e2 n2),
        verdict (if symmOK e1 e2 then [] else ["eq_symm"]), m, bm, a.kind ++ "+" ++ b.kind])
  | "C20.source" => do
      -- a pair of SOURCE descriptions in one dialect: `hasFill fill start tA tB storedA storedB e1 n1 e2 n2`
      let (hf, f, st, tA, tB, sA, sB, e1, n1, e2, n2) ← run (do
        let hf ← bool; let f ← int; let st ← int
        let tA ← rows; let tB ← rows; let sA ← rows; let sB ← rows
        let e1 ← bool; let n1 ← bool; let e2 ← bool; let n2 ← bool
        pure (hf, f, st, tA, tB, sA, sB, e1, n1, e2, n2)) args
      let fill : Option Int := if hf then some f else none
      let valid := validTable fill st tA && validTable fill st tB
      pure (";".intercalate [encBool valid, verdict (sourceFailing fill st tA tB sA sB e1 n1 e2 n2),
        encRows (procTable fill st tA), encRows (procTable fill st tB)])
  | "C20.wf" => do
      let a ← run gridP args
      pure (encBool a.wf)
  | "C20.refl" => do
      let (e, n) ← run (do let e ← bool; let n ← bool; pure (e, n)) args
      pure (verdict (if reflOK e n then [] else ["eq_refl"]))
  | "C20.symm" => do
      let (e1, e2) ← run (do let e ← bool; let n ← bool; pure (e, n)) args
      pure (verdict (if symmOK e1 e2 then [] else ["eq_symm"]))
  | "C20.copy" => do
      let (a, b, c, d) ← run (do let a ← bool; let b ← bool; let c ← bool; let d ← bool; pure (a, b, c, d)) args
      pure (verdict (if copyOK a b c d then [] else ["copy_eq"]))
  | "C20.nongrid" => do
      let (e, n) ← run (do let e ← bool; let n ← bool; pure (e, n)) args
      pure (verdict (if nonGridOK e n then [] else ["non_grid_false"]))
  | "C20.nongrid_model" => do
      let t ← run nat args
      let a : Grid := ⟨[], [], [], 0, 0, [], [], [], []⟩
      pure s!"{encBool (pyEq a (.other t))} {encBool (pyNe a (.other t))}"
  | "C20.ieee" => do
      -- bit-level model of IEEE `==` / NaN / NaN-aware equality next to Lean's own `Float`
      let (x, y) ← run (do let x ← nat; let y ← nat; pure (x, y)) args
      let fx := Float.ofBits x.toUInt64
      let fy := Float.ofBits y.toUInt64
      pure s!"{encBool (ieeeEq x y)} {encBool (fx == fy)} {encBool (isNaN x)} {encBool fx.isNaN} {encBool (valEq x y)}"
  | _ => none

end UxVerif.Driver.C20
