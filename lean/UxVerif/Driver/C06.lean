/-
  Driver for C06.  Floats arrive as IEEE-754 bit patterns and are converted EXACTLY to `Rat`
  (every finite double is a dyadic rational), so the model's weighted sum is exact and the
  verdict on the implementation's output is `Integrate.Spec` evaluated by Lean.
-/
import UxVerif.Model.Proto
import UxVerif.Model.Integrate

namespace UxVerif.Driver.C06
open UxVerif UxVerif.Proto UxVerif.Integrate

/-- exact value of a finite double given by its bit pattern; `none` for NaN/±inf -/
def ratOfBits (b : Nat) : Option Rat :=
  let sign : Nat := b / 2 ^ 63 % 2
  let e : Nat := b / 2 ^ 52 % 2048
  let m : Nat := b % 2 ^ 52
  let full : Nat := 2 ^ 52 + m
  if e = 2047 then none
  else
    let mag : Rat :=
      if e = 0 then (m : Rat) / ((2 : Rat) ^ (1074 : Nat))
      else if e ≥ 1075 then (full : Rat) * ((2 : Rat) ^ (e - 1075))
      else (full : Rat) / ((2 : Rat) ^ (1075 - e))
    some (if sign = 1 then -mag else mag)

def ratBits : P Rat := do
  let b ← nat
  match ratOfBits b with
  | some r => pure r
  | none => failure

/-- any double, special values included -/
def extOfBits (b : Nat) : ExtVal :=
  match ratOfBits b with
  | some q => .fin q
  | none => if b % 2 ^ 52 ≠ 0 then .nan else if b / 2 ^ 63 % 2 = 1 then .ninf else .pinf

def extBits : P ExtVal := do return extOfBits (← nat)

def dimOf : Nat → Dim
  | 0 => .face | 1 => .node | 2 => .edge | k + 3 => .other k

def nameP : P (Option Nat) := do
  let x ← int
  pure (if x < 0 then none else some x.toNat)

def arrP : P (Arr Rat) := do
  let dims ← nats; let shape ← nats; let data ← list ratBits; let name ← nameP; let grid ← nat
  pure { dims := dims.map dimOf, shape := shape, data := data, name := name, grid := grid }

def obsP : P Obs := do
  let tag ← nat
  if tag = 0 then pure .rejected else do
    let r ← arrP
    pure (.returned r)

def gridP : P Grid := do
  let f ← nat; let n ← nat; let e ← nat; let i ← nat
  pure { nFace := f, nNode := n, nEdge := e, gid := i }

def outcomeCode {K} : Outcome K → String
  | .ok _ => "ok" | .error .node => "node" | .error .edge => "edge" | .error .other => "other"

def arrEP : P (Arr ExtVal) := do
  let dims ← nats; let shape ← nats; let data ← list extBits; let name ← nameP; let grid ← nat
  pure { dims := dims.map dimOf, shape := shape, data := data, name := name, grid := grid }

def obsEP : P ObsE := do
  let tag ← nat
  if tag = 0 then pure .rejected else do
    let r ← arrEP
    pure (.returned r)

/-- `tag num den`: 0 finite, 1 NaN, 2 +inf, 3 -inf -/
def encExt : ExtVal → String
  | .fin q => s!"0 {q.num} {q.den}" | .nan => "1 0 1" | .pinf => "2 0 1" | .ninf => "3 0 1"

def encExts (l : List ExtVal) : String :=
  " ".intercalate ((toString l.length) :: l.map encExt)

def encRats (l : List Rat) : String :=
  " ".intercalate ((toString l.length) :: l.map (fun q => s!"{q.num} {q.den}"))

def handle (cmd : String) (args : List Int) : Option String :=
  match cmd with
  | "C06.judge" => do
      let (g, areas, a, o) ← run (do
        let g ← gridP; let areas ← list ratBits; let a ← arrP; let o ← obsP
        pure (g, areas, a, o)) args
      let bad := failedClauses g areas a o
      let m := integrate g areas a
      let vals := match m with | .ok r => r.data | .error _ => []
      -- sanity of the tie: the proved-correct model's own output must satisfy the Spec
      let self := failedClauses g areas a (obsOf m)
      pure (s!"spec {bad.length} " ++ " ".intercalate bad ++ s!" model {outcomeCode m} asis "
            ++ s!"{outcomeCode (integrateAsIs g areas a)} dsasis {outcomeCode (datasetIntegrateAsIs g areas a)} lenfb {outcomeCode (integrateLenFallback g areas a)} "
            ++ s!"self {self.length} vals {encRats vals}")
  | "C06.judgeext" => do
      -- data and/or output contain NaN / ±inf: the same model function run over extended values
      let (g, areas, a, o) ← run (do
        let g ← gridP; let areas ← list ratBits; let a ← arrEP; let o ← obsEP
        pure (g, areas, a, o)) args
      let bad := failedClausesE g areas a o
      let m := integrate g (areas.map ExtVal.fin) a
      let vals := match m with | .ok r => r.data | .error _ => []
      let self := failedClausesE g areas a (obsEOf m)
      -- what a NaN-skipping sum (xarray skipna) would give, row by row (diagnosis only)
      let skip := match m with
        | .ok _ => (rowsOf (prodL a.shape.dropLast) areas.length a.data).map (dotSkipNaN areas)
        | .error _ => []
      pure (s!"spec {bad.length} " ++ " ".intercalate bad ++ s!" model {outcomeCode m} "
            ++ s!"self {self.length} vals {encExts vals} skip {encExts skip}")
  | "C06.total" => do
      -- Σ areas (what integrating the constant 1 must give), exact
      let areas ← run (list ratBits) args
      let t : Rat := sumL areas
      pure s!"{t.num} {t.den}"
  | "C06.rat" => do
      let q ← run ratBits args
      pure s!"{q.num} {q.den}"
  | _ => none

end UxVerif.Driver.C06
