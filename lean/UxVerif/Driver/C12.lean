import UxVerif.Model.Proto
import UxVerif.Model.Remap
import UxVerif.Gen.Defaults

namespace UxVerif.Driver.C12
open UxVerif UxVerif.Proto UxVerif.Remap

/-- libm instance of the primitives -/
def F : Fns Float :=
  { sin := Float.sin, cos := Float.cos, asin := Float.asin, sqrt := Float.sqrt,
    pi := 3.141592653589793 }

def sysOf : Nat → Sys | 0 => .spherical | _ => .cartesian
def kindOf : Nat → Kind | 0 => .node | 1 => .face | _ => .edge
def kindC : Kind → Int | .node => 0 | .face => 1 | .edge => 2
def dimOf : Nat → Dim | 0 => .node | 1 => .face | 2 => .edge | n + 3 => .other n
def dimC : Dim → Nat | .node => 0 | .face => 1 | .edge => 2 | .other n => n + 3
def okindC : Option Kind → Int | some k => kindC k | none => -1

def ptP : P (Float × Float) := do let a ← float; let b ← float; pure (a, b)
def ptsP : P (List (Float × Float)) := list ptP
def rowsP : P (List (List Float)) := list floats

/-- gap below which two candidate distances are a near-tie (discarded, not judged).  The
    haversine formula loses accuracy next to the antipode (asin near 1). -/
def tieTol (sys : Sys) (tol d : Float) : Float :=
  if sys == .spherical && d > 179.9 then (if tol < 1e-6 then 1e-6 else tol) else tol

/-- is the choice of the `k` nearest ambiguous at float precision? -/
def isTie (sys : Sys) (tol : Float) (D : List Float) (k : Nat) : Bool :=
  match (kDists D (k + 1)).drop (k - 1) with
  | a :: b :: _ => decide (b - a ≤ tieTol sys tol b)
  | _ => false

def column (rows : List (List Float)) (j : Nat) : List Float := rows.map (fun r => r.getD j (0.0 / 0.0))

def maxAbs (l : List Float) : Float := l.foldl (fun m x => if m < Float.abs x then Float.abs x else m) 0.0

def encNatsL (l : List Nat) : String := encNats l

/-- judge one destination point of a nearest-neighbour remap: 0 ok, 1 near-tie, 2 fails -/
def judgeNN (sys : Sys) (tol : Float) (src : List (Float × Float)) (rows out : List (List Float))
    (q : Float × Float) (j : Nat) : Nat × Nat × Nat :=
  let D := distances F sys src q
  let near := (kNearest D 1).headD 0
  if isTie sys tol D 1 then (j, near, 1)
  else
    let ok := (List.zip rows out).all (fun (ro : List Float × List Float) =>
      match ro.2[j]? with
      | some v => nnSpecB D ro.1 v
      | none => false)
    (j, near, if ok then 0 else 2)

/-- judge one destination point of an IDW remap: (j, 0 ok | 1 near-tie | 2 fails, max |out − model|) -/
def judgeIDW (sys : Sys) (pw : Float → Float) (eps : Float) (k : Nat) (tol tolV : Float)
    (src : List (Float × Float)) (rows out : List (List Float)) (q : Float × Float) (j : Nat) :
    Nat × Nat × Float :=
  let D := distances F sys src q
  if isTie sys tol D k then (j, 1, 0.0)
  else
    let idx := kNearest D k
    let judged : List (Bool × Float) := (List.zip rows out).map (fun (ro : List Float × List Float) =>
      match ro.2[j]? with
      | some v =>
        let m := idwAt pw eps k D ro.1
        (withinB tolV (gather ro.1 idx) v, Float.abs (v - m))
      | none => (false, 0.0))
    let ok := judged.all (·.1)
    (j, if ok then 0 else 2, maxAbs (judged.map (·.2)))

/-- judge the observed weight column of one destination point:
    (j, 0 ok | 1 near-tie | +2 support wrong | +4 weights wrong, max |w − model|) -/
def judgeW (sys : Sys) (pw : Float → Float) (eps : Float) (k : Nat) (tol tolW : Float)
    (src : List (Float × Float)) (W : List (List Float)) (q : Float × Float) (j : Nat) :
    Nat × Nat × Float :=
  let D := distances F sys src q
  if isTie sys tol D k then (j, 1, 0.0)
  else
    let idx := kNearest D k
    let col := column W j
    let ws := gather col idx
    let supp := (List.range col.length).all (fun i =>
      idx.contains i || (match col[i]? with | some w => w == 0.0 | none => false))
      && ws.all (fun w => decide (0 < w))
    let wok := ws.length == idx.length && weightsOkB tolW ws
    let m := weightColumn pw eps k D
    let diff := maxAbs (List.zipWith (· - ·) col m)
    (j, (if supp then 0 else 2) + (if wok then 0 else 4), diff)

/-- judge the TREE's answer for one destination point and the value the implementation made of
    it: (j, 0 ok | 1 near-tie | +2 answer fails `knnAnswerB` | +4 value ≠ formula(answer), |Δ|) -/
def judgeTree (sys : Sys) (isNN : Bool) (pw : Float → Float) (eps : Float) (k : Nat)
    (tol tolD tolV : Float) (src : List (Float × Float)) (rows out : List (List Float))
    (q : Float × Float) (j : Nat) (idx : List Nat) (ds : List Float) : Nat × Nat × Float :=
  let D := distances F sys src q
  if isTie sys tol D k then (j, 1, 0.0)
  else
    let tolD' := if sys == .spherical && D.any (fun d => d > 179.9) && tolD < 1e-5 then 1e-5 else tolD
    let aok := knnAnswerB tolD' D k idx ds
    let diffs : List Float := (List.zip rows out).map (fun (ro : List Float × List Float) =>
      match ro.2[j]? with
      | some v =>
        if isNN then
          (match nnFrom idx ro.1 with | some m => (if m == v then 0.0 else 1.0 + Float.abs (v - m)) | none => 1.0 / 0.0)
        else Float.abs (v - idwFrom pw eps idx ds ro.1)
      | none => 1.0 / 0.0)
    let diff := maxAbs diffs
    let vok := decide (diff ≤ (if isNN then 0.0 else tolV))
    (j, (if aok then 0 else 2) + (if vok then 0 else 4), diff)

def remapToC (s : String) : Int :=
  if s == "nodes" then 0 else if s == "face centers" then 1 else if s == "edge centers" then 2 else -1
def coordC (s : String) : Int := if s == "spherical" then 0 else if s == "cartesian" then 1 else -1

def handle (cmd : String) (args : List Int) : Option String :=
  match cmd with
  /- C12.kind nNode nFace nEdge len dims… → repaired asIs   (kind codes, -1 = refused) -/
  | "C12.kind" => do
      let (c, len, dims) ← run (do
        let a ← nat; let b ← nat; let e ← nat; let len ← nat; let dims ← nats
        pure (({ nNode := a, nFace := b, nEdge := e } : Counts), len, dims.map dimOf)) args
      pure s!"{okindC (sourceKind c dims len)} {okindC (sourceKindAsIs c dims len)}"
  /- C12.dims dest dims… → none | ok dims… -/
  | "C12.dims" => do
      let (dest, dims) ← run (do let d ← nat; let dims ← nats; pure (kindOf d, dims.map dimOf)) args
      match outDims dims dest with
      | none => pure "none"
      | some o => pure s!"ok {encNats (o.map dimC)}"
  /- C12.shape nDst lead… → repaired | asIsNN | asIsIDW(len -1 = raises) -/
  | "C12.shape" => do
      let (n, lead) ← run (do let n ← nat; let lead ← nats; pure (n, lead)) args
      let idw := match outShapeIDWAsIs lead n with | some s => encNats s | none => "-1"
      pure s!"{encNats (outShape lead n)} {encNats (outShapeNNAsIs lead n)} {idw}"
  /- C12.guard k nSrc nNode → repaired asIs -/
  | "C12.guard" => do
      let (k, ns, nn) ← run (do let k ← nat; let a ← nat; let b ← nat; pure (k, a, b)) args
      pure s!"{encBool (kAdmissible k ns)} {encBool (kAcceptedAsIs k ns nn)}"
  /- C12.nn sys tolTie src dst rows out → fails ties nearest
     for every destination point: near-tie ⇒ discarded; else `nnSpecB` on every leading index -/
  | "C12.nn" => do
      let (sys, tol, src, dst, rows, out) ← run (do
        let s ← nat; let tol ← float; let src ← ptsP; let dst ← ptsP; let rows ← rowsP; let out ← rowsP
        pure (sysOf s, tol, src, dst, rows, out)) args
      if rows.length != out.length || out.any (fun r => r.length != dst.length)
          || rows.any (fun r => r.length != src.length) || src.isEmpty then pure "shape"
      else
        let res := dst.zipIdx.map (fun (qj : (Float × Float) × Nat) => judgeNN sys tol src rows out qj.1 qj.2)
        let fails := (res.filter (·.2.2 == 2)).map (·.1)
        let ties := (res.filter (·.2.2 == 1)).map (·.1)
        pure s!"ok {encNats fails} {encNats ties} {encNats (res.map (·.2.1))}"
  /- C12.idw sys power eps k tolTie tolVal src dst rows out → fails ties maxdiff model…
     convexity (`withinB`) of every output entry w.r.t. the values of the k nearest sources of
     the brute-force oracle; `maxdiff` = largest |out − model| over the judged entries -/
  | "C12.idw" => do
      let (sys, p, eps, k, tol, tolV, src, dst, rows, out) ← run (do
        let s ← nat; let p ← float; let eps ← float; let k ← nat; let tol ← float; let tolV ← float
        let src ← ptsP; let dst ← ptsP; let rows ← rowsP; let out ← rowsP
        pure (sysOf s, p, eps, k, tol, tolV, src, dst, rows, out)) args
      if rows.length != out.length || out.any (fun r => r.length != dst.length)
          || rows.any (fun r => r.length != src.length) || src.isEmpty || k == 0 then pure "shape"
      else
        let pw := fun d : Float => Float.pow d p
        let res := dst.zipIdx.map (fun (qj : (Float × Float) × Nat) => judgeIDW sys pw eps k tol tolV src rows out qj.1 qj.2)
        let fails := (res.filter (·.2.1 == 2)).map (·.1)
        let ties := (res.filter (·.2.1 == 1)).map (·.1)
        pure s!"ok {encNats fails} {encNats ties} {encFloat (maxAbs (res.map (·.2.2)))}"
  /- C12.weights sys power eps k tolTie tolW src dst W → failSupport failWeights ties maxdiff
     `W[i][j]` = what remapping the one-hot field of source element `i` returned at destination
     `j`, i.e. the weight the implementation gave to `i`.  support = exactly the k nearest
     (zero elsewhere); listed nearest first: ≥ 0, sum 1, never increasing (`weightsOkB`). -/
  | "C12.weights" => do
      let (sys, p, eps, k, tol, tolW, src, dst, W) ← run (do
        let s ← nat; let p ← float; let eps ← float; let k ← nat; let tol ← float; let tolW ← float
        let src ← ptsP; let dst ← ptsP; let W ← rowsP
        pure (sysOf s, p, eps, k, tol, tolW, src, dst, W)) args
      if W.length != src.length || W.any (fun r => r.length != dst.length) || src.isEmpty || k == 0
      then pure "shape"
      else
        let pw := fun d : Float => Float.pow d p
        let res := dst.zipIdx.map (fun (qj : (Float × Float) × Nat) => judgeW sys pw eps k tol tolW src W qj.1 qj.2)
        let fs := (res.filter (fun r => r.2.1 == 2 || r.2.1 == 6)).map (·.1)
        let fw := (res.filter (fun r => r.2.1 == 4 || r.2.1 == 6)).map (·.1)
        let ties := (res.filter (·.2.1 == 1)).map (·.1)
        pure s!"ok {encNats fs} {encNats fw} {encNats ties} {encFloat (maxAbs (res.map (·.2.2)))}"
  /- C12.model sys power eps k src dst rows → nn rows…, idw rows…  (model outputs, for replays) -/
  | "C12.model" => do
      let (sys, p, eps, k, src, dst, rows) ← run (do
        let s ← nat; let p ← float; let eps ← float; let k ← nat
        let src ← ptsP; let dst ← ptsP; let rows ← rowsP
        pure (sysOf s, p, eps, k, src, dst, rows)) args
      let pw := fun d : Float => Float.pow d p
      let nn := remapRows (fun row => (nnRow (dist F sys) src dst row).map (·.getD (0.0 / 0.0))) rows
      let idw := remapRows (idwRow (dist F sys) pw eps k src dst) rows
      pure s!"{" ".intercalate (nn.map encFloats)} {" ".intercalate (idw.map encFloats)}"
  /- C12.tree sys isNN power eps k tolTie tolD tolV src dst idx ds rows out
       → failAnswer failValue ties maxdiff
     idx/ds = what `BallTree.query(dest_coords, k)` returned (one row per destination point) -/
  | "C12.tree" => do
      let (sys, isNN, p, eps, k, tol, tolD, tolV, src, dst, idx, ds, rows, out) ← run (do
        let s ← nat; let nn ← bool; let p ← float; let eps ← float; let k ← nat
        let tol ← float; let tolD ← float; let tolV ← float
        let src ← ptsP; let dst ← ptsP; let idx ← list nats; let ds ← rowsP
        let rows ← rowsP; let out ← rowsP
        pure (sysOf s, nn, p, eps, k, tol, tolD, tolV, src, dst, idx, ds, rows, out)) args
      if idx.length != dst.length || ds.length != dst.length || rows.length != out.length
          || out.any (fun r => r.length != dst.length) || rows.any (fun r => r.length != src.length)
          || src.isEmpty || k == 0 then pure "shape"
      else
        let pw := fun d : Float => Float.pow d p
        let res := (List.zip dst.zipIdx (List.zip idx ds)).map
          (fun (x : ((Float × Float) × Nat) × (List Nat × List Float)) =>
            judgeTree sys isNN pw eps k tol tolD tolV src rows out x.1.1 x.1.2 x.2.1 x.2.2)
        let fa := (res.filter (fun r => r.2.1 == 2 || r.2.1 == 6)).map (·.1)
        let fv := (res.filter (fun r => r.2.1 == 4 || r.2.1 == 6)).map (·.1)
        let ties := (res.filter (·.2.1 == 1)).map (·.1)
        pure s!"ok {encNats fa} {encNats fv} {encNats ties} {encFloat (maxAbs ((res.filter (·.2.1 != 1)).map (·.2.2)))}"
  /- C12.wrap destGrid destKind nDst srcGrid srcDims srcShape obsGrid obsDims obsShape
       → none | ok | fail <clauses>   followed by the model's grid dims shape -/
  | "C12.wrap" => do
      let (dg, dk, n, sg, sd, ss, og, od, os) ← run (do
        let dg ← nat; let dk ← nat; let n ← nat; let sg ← nat; let sd ← nats; let ss ← nats
        let og ← nat; let od ← nats; let os ← nats
        pure (dg, kindOf dk, n, sg, sd.map dimOf, ss, og, od.map dimOf, os)) args
      match wrapResult { dims := sd, shape := ss, grid := sg } dg dk n with
      | none => pure "none"
      | some r =>
        let bad := (if r.dims == od then [] else ["remap_dims"]) ++ (if r.shape == os then [] else ["remap_shape"])
          ++ (if r.grid == og then [] else ["remap_result_grid_is_destination"])
        let v := if bad.isEmpty then "ok" else "fail " ++ ",".intercalate bad
        pure s!"{v} {r.grid} {encNats (r.dims.map dimC)} {encNats r.shape}"
  /- C12.defaults → idw: power k remap_to coord   nn: remap_to coord   (regenerated Gen/Defaults) -/
  | "C12.defaults" => do
      let _ ← run (pure ()) args
      pure s!"{Gen.Defaults.idw_power} {Gen.Defaults.idw_k} {remapToC Gen.Defaults.idw_remap_to} {coordC Gen.Defaults.idw_coord_type} {remapToC Gen.Defaults.nn_remap_to} {coordC Gen.Defaults.nn_coord_type}"
  /- C12.dists sys src q → D… -/
  | "C12.dists" => do
      let (sys, src, q) ← run (do let s ← nat; let src ← ptsP; let q ← ptP; pure (sysOf s, src, q)) args
      pure (encFloats (distances F sys src q))
  | _ => none

end UxVerif.Driver.C12
