import UxVerif.Model.Proto
import UxVerif.Model.Incidence

namespace UxVerif.Driver.C03
open UxVerif UxVerif.Proto UxVerif.Incidence

structure In where
  n : Nat
  w : Nat
  t : Table
  FE : Table
  N : List Nat
  nEdge : Nat

def inP : P In := do
  let n ← nat; let w ← nat; let t ← rows; let FE ← rows; let N ← nats; let nEdge ← nat
  pure ⟨n, w, t, FE, N, nEdge⟩

def outP : P Out := do
  let nf ← rows; let ef ← pairs; let ff ← rows; let h ← nats
  pure { nodeFace := nf, edgeFace := ef, faceFace := ff, holes := h }

def encOut (o : Out) : String :=
  s!"{encRows o.nodeFace} {encPairs o.edgeFace} {encRows o.faceFace} {encNats o.holes}"

def handle (cmd : String) (args : List Int) : Option String :=
  match cmd with
  | "C03.model" => do
      let i ← run inP args
      pure (encOut (build i.n i.w i.t i.FE i.N i.nEdge))
  | "C03.pre" => do
      let i ← run inP args
      pure (encBool (decide (Pre i.n i.t i.FE i.N i.nEdge)))
  | "C03.spec" => do
      let (i, o) ← run (do let i ← inP; let o ← outP; pure (i, o)) args
      let fl := failing i.n i.t i.FE i.N i.nEdge o
      pure (if fl.isEmpty then "ok" else "fail " ++ ",".intercalate fl)
  | _ => none

end UxVerif.Driver.C03
