import UxVerif.Model.Proto
import UxVerif.Model.Incidence
import UxVerif.Lemmas.C03Fast

namespace UxVerif.Driver.C03
open UxVerif UxVerif.Proto UxVerif.Incidence

structure In where
  n : Nat
  w : Nat
  t : Table
  FE : Table
  N : List Nat
  nEdge : Nat

def inP : P In := do
  let n ← nat; let w ← nat; let t ← rows; let FE ← rows; let N ← nats; let nEdge ← nat
  pure ⟨n, w, t, FE, N, nEdge⟩

/-- the implementation's output; `holes` arrive as integers: a negative entry (e.g. `FILL`) is not
    an edge number at all, so the `holes` clause fails by type (second component `false`) -/
def outP : P (Out × Bool) := do
  let nf ← rows; let ef ← pairs; let ff ← rows; let h ← ints
  pure ({ nodeFace := nf, edgeFace := ef, faceFace := ff, holes := h.map Int.toNat },
        h.all (fun x => decide (0 ≤ x)))

def encOut (o : Out) : String :=
  s!"{encRows o.nodeFace} {encPairs o.edgeFace} {encRows o.faceFace} {encNats o.holes}"

def handle (cmd : String) (args : List Int) : Option String :=
  match cmd with
  | "C03.model" => do
      let i ← run inP args
      pure (encOut (build i.n i.w i.t i.FE i.N i.nEdge))
  -- `preFast = decide Pre` (C03.preFast_eq), `failingFast = failing` (C03.failingFast_eq): the
  -- verdicts are the specification's own Booleans, computed without re-scanning the face table
  -- for every edge / pair of faces
  | "C03.pre" => do
      let i ← run inP args
      pure (encBool (preFast i.n i.t i.FE i.N i.nEdge))
  | "C03.pre_ref" => do
      let i ← run inP args
      pure (encBool (decide (Pre i.n i.t i.FE i.N i.nEdge)))
  | "C03.spec" => do
      let (i, (o, holesNat)) ← run (do let i ← inP; let o ← outP; pure (i, o)) args
      let fl0 := failingFast i.n i.t i.FE i.N i.nEdge o
      let fl := if holesNat || fl0.contains "holes" then fl0 else fl0 ++ ["holes"]
      pure (if fl.isEmpty then "ok" else "fail " ++ ",".intercalate fl)
  -- the specification's decidable instance itself (O(F³·E)): small cases only, cross-check
  | "C03.spec_ref" => do
      let (i, (o, holesNat)) ← run (do let i ← inP; let o ← outP; pure (i, o)) args
      let fl0 := failing i.n i.t i.FE i.N i.nEdge o
      let fl := if holesNat || fl0.contains "holes" then fl0 else fl0 ++ ["holes"]
      pure (if fl.isEmpty then "ok" else "fail " ++ ",".intercalate fl)
  | _ => none

end UxVerif.Driver.C03
