import UxVerif.Model.Proto
import UxVerif.Model.Polys

namespace UxVerif.Driver.C15
open UxVerif UxVerif.Proto UxVerif.Polys

def peOf : Nat → Pe | 0 => .exclude | 1 => .split | _ => .ignore

def bools : P (List Bool) := list bool

/-- grid parameters as tables indexed `[projection][face]` -/
def gP : P G := do
  let n ← nat
  let am ← list bools
  let nan ← list bools
  let pieces ← list nats
  pure { n := n,
         am := fun p i => (am.getD p []).getD i false,
         nan := fun p i => (nan.getD p []).getD i false,
         pieces := fun p i => (pieces.getD p []).getD i 1 }

/-- `kind pe proj eng cache override var nvals vals…` -/
def opP : P (Op Int) := do
  let kind ← nat; let pe ← nat; let proj ← nat; let eng ← nat
  let c ← bool; let o ← bool; let var ← nat; let vals ← ints
  let k : Key := { pe := peOf pe, proj := proj, eng := eng }
  pure (match kind with
    | 0 => .gridGdf k c o
    | 1 => .daGdf var vals k c o
    | 2 => .gridPoly (peOf pe) proj c o
    | 3 => .daPoly vals (peOf pe) proj c o
    | _ => .gridLine (peOf pe) proj c o)

def encView (v : View Int) : String :=
  let d := match v.data with
    | none => "0 0"
    | some d => s!"1 {encInts d}"
  s!"{encBool v.err} {v.tag} {encNats v.rows} {d}"

def retId : Ret Int → Int
  | .frame id => Int.ofNat id
  | _ => -1

/-- run a history; per step: the view and the id of the returned frame (-1: not a frame);
    then the final heap (columns of every frame) -/
def hist (R : Repairs) (g : G) (ops : List (Op Int)) : String :=
  let rec go (s : St Int) (ops : List (Op Int)) (acc : List String) : St Int × List String :=
    match ops with
    | [] => (s, acc.reverse)
    | op :: rest =>
      let r := step R g s op
      go r.1 rest (s!"{encView (view r.1 op r.2)} {retId r.2}" :: acc)
  let (s, outs) := go St.init ops []
  let heap := s.heap.map (fun fr =>
    s!"{encNats fr.rows} {fr.cols.length} " ++
      " ".intercalate (fr.cols.map (fun c => s!"{c.1} {encInts c.2}")))
  s!"{outs.length} " ++ " ".intercalate outs ++ s!" {s.heap.length} " ++ " ".intercalate heap

def caseP : P (Case Int) := do
  let kind ← nat; let pe ← nat; let proj ← nat; let n ← nat
  let am ← bools; let nan ← bools; let dataIn ← ints
  pure { kind := kind, pe := peOf pe, proj := proj, n := n, am := am, nan := nan, dataIn := dataIn }

def obsP : P (Obs Int) := do
  let err ← bool; let tag ← int; let rows ← ints; let has ← bool; let d ← ints
  pure { err := err, rows := rows, tag := tag, dataOut := if has then some d else none }

def handle (cmd : String) (args : List Int) : Option String :=
  match cmd with
  | "C15.am" => do
      -- width, then the (float32-rounded) longitudes of every face's real corners
      let (w, faces) ← run (do let w ← nat; let f ← list floats; pure (w, f)) args
      let shell := amFlags crossF w faces
      let face := faces.map (crossesFace crossF)
      pure s!"{encInts (shell.map (fun b => if b then 1 else 0))} {encInts (face.map (fun b => if b then 1 else 0))}"
  | "C15.spec" => do
      let (c, o) ← run (do let c ← caseP; let o ← obsP; pure (c, o)) args
      let fl := failing c o
      pure (if fl.isEmpty then (if decide (Unsupported c) then "ok unsupported" else "ok")
            else "fail " ++ ",".intercalate fl)
  | "C15.hist" => do
      -- repair switches (ignoreProj sideRestore copyFrame), grid parameters, the history
      let (R, g, ops) ← run (do
        let a ← bool; let b ← bool; let c ← bool
        let g ← gP; let ops ← list opP
        pure (({ ignoreProj := a, sideRestore := b, copyFrame := c } : Repairs), g, ops)) args
      pure (hist R g ops)
  | _ => none

end UxVerif.Driver.C15
