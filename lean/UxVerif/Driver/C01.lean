import UxVerif.Model.Proto
import UxVerif.Model.Readers

namespace UxVerif.Driver.C01
open UxVerif UxVerif.Proto UxVerif.Readers

/-- a cell travels as `kind value` (`kind` 0 = value, 1 = NaN) -/
def cellP : P Cell := do
  let k ← int; let v ← int
  pure (if k = 0 then .val v else .nan)

def rawP : P Raw := list (list cellP)

def optCellP : P (Option Cell) := do
  let k ← int; let v ← int
  pure (if k = 0 then none else if k = 1 then some (.val v) else some .nan)

def optIntP : P (Option Int) := do
  let k ← int; let v ← int
  pure (if k = 0 then none else some v)

def storeP : P Store := do
  let k ← int
  pure (if k = 0 then .i32 else if k = 1 then .i64 else .f64)

def fillP : P Fill := do
  let k ← int; let v ← int
  pure (if k = 0 then .none else if k = 1 then .int v else if k = 2 then .nan else .nanAttr)

def meshP : P Mesh := list nats

def keyRowP : P (List Key) := list pair

def encCell : Cell → String
  | .val v => s!"0 {v}"
  | .nan => "1 0"
def encOptCell : Option Cell → String
  | none => "0 0"
  | some (.val v) => s!"1 {v}"
  | some .nan => "2 0"
def encOptInt : Option Int → String
  | none => "0 0"
  | some v => s!"1 {v}"
def encRaw (r : Raw) : String :=
  " ".intercalate ((toString r.length) :: r.map (fun row =>
    " ".intercalate ((toString row.length) :: row.map encCell)))

def encRes : Except String Table → String
  | .ok t => "ok " ++ encRows t
  | .error _ => "err"

def usrcP : P USource := do
  let st ← storeP; let fa ← optCellP; let sa ← optIntP; let c ← rawP
  pure { cells := c, fillAttr := fa, startAttr := sa, store := st }

def dialectP : P UDialect := do
  let b ← int; let d ← bool; let f ← fillP; let st ← storeP
  pure { base := b, declared := d, fill := f, store := st }

def handle (cmd : String) (args : List Int) : Option String :=
  match cmd with
  | "C01.spec" => do
      let (n, w, m, nm, out) ← run (do
        let n ← nat; let w ← nat; let m ← meshP; let nm ← ints; let out ← rows
        pure (n, w, m, nm, out)) args
      let fl := failing n w m nm out
      pure (if fl.isEmpty then "ok" else "fail " ++ ",".intercalate fl)
  | "C01.wf" => do
      let (n, w, m) ← run (do let n ← nat; let w ← nat; let m ← meshP; pure (n, w, m)) args
      pure (encBool (decide (WFMesh n w m)))
  | "C01.ugrid" => do
      let s ← run usrcP args
      pure (encRes (decodeUgrid s))
  | "C01.ugrid_asis" => do
      let s ← run usrcP args
      pure (encRes (decodeUgridAsIs s))
  | "C01.dialectok" => do
      let (d, n, w, m) ← run (do
        let d ← dialectP; let n ← nat; let w ← nat; let m ← meshP; pure (d, n, w, m)) args
      pure (encBool (decide (DialectOK d n w m)))
  | "C01.ugrid_enc" => do
      let (d, w, m) ← run (do let d ← dialectP; let w ← nat; let m ← meshP; pure (d, w, m)) args
      let s := encodeUgrid d w m
      pure s!"{encOptCell s.fillAttr} {encOptInt s.startAttr} {encRaw s.cells}"
  | "C01.sniff" => do
      let b ← run (many bool 13) args
      match b with
      | [a1, a2, a3, a4, a5, a6, a7, a8, a9, a10, a11, a12, a13] =>
        let k : Markers := ⟨a1, a2, a3, a4, a5, a6, a7, a8, a9, a10, a11, a12, a13⟩
        pure (match sniff k with
          | none => "0" | some .exodus => "1" | some .scrip => "2" | some .ugrid => "3" | some .mpas => "4"
          | some .esmf => "5" | some .geos => "6" | some .icon => "7")
      | _ => none
  | "C01.undeclared" => do
      -- right-hand side of `ugrid_undeclared_decodes`: the element lists counted from their lowest index
      let (w, m) ← run (do let w ← nat; let m ← meshP; pure (w, m)) args
      pure (encRows (pad w (rebase (lowest m) m)))
  | "C01.topology" => do
      let (fv, start, c) ← run (do
        let fv ← optCellP; let s ← int; let c ← rawP; pure (fv, s, c)) args
      pure (encRes (decodeTopology c fv start))
  | "C01.topook" => do
      let (b, f, n, w, m) ← run (do
        let b ← int; let f ← fillP; let n ← nat; let w ← nat; let m ← meshP
        pure (b, f, n, w, m)) args
      pure (encBool (decide (TopoOK b f n w m)))
  | "C01.topo_enc" => do
      let (b, f, w, m) ← run (do
        let b ← int; let f ← fillP; let w ← nat; let m ← meshP; pure (b, f, w, m)) args
      pure s!"{encOptCell (fillArgOf f)} {encRaw (encodeTopology b f w m)}"
  | "C01.mpas" => do
      let (t, k) ← run (do let t ← rows; let k ← nats; pure (t, k)) args
      pure (encRows (decodeMpas t k))
  | "C01.mpasz" => do
      let t ← run rows args
      pure (encRows (decodeMpasZeros t))
  | "C01.esmf" => do
      let (sa, t, k) ← run (do let sa ← optIntP; let t ← rows; let k ← nats; pure (sa, t, k)) args
      pure (encRows (decodeEsmf sa t k))
  | "C01.esmf_asis" => do
      let (sa, t, k) ← run (do let sa ← optIntP; let t ← rows; let k ← nats; pure (sa, t, k)) args
      pure (encRows (decodeEsmfAsIs sa t k))
  | "C01.exodus" => do
      let b ← run (list rows) args
      pure (encRows (decodeExodus b))
  | "C01.exodus_asis" => do
      let b ← run (list rows) args
      pure (encRows (decodeExodusAsIs b))
  | "C01.geos" => do
      let (nf, nx, ny) ← run (do let a ← nat; let b ← nat; let c ← nat; pure (a, b, c)) args
      pure (encRows (decodeGeos nf nx ny))
  | "C01.icon" => do
      let (nc, cols) ← run (do let nc ← nat; let c ← rows; pure (nc, c)) args
      pure (encRows (decodeIcon cols nc))
  | "C01.scrip" => do
      let c ← run (list keyRowP) args
      pure s!"{encPairs (scripNodes c)} {encRows (decodeScrip c)}"
  | "C01.scrip_wf" => do
      -- hypothesis of `scrip_positions` + the rows sent are Lean's `encScripRow w` of the faces
      let (w, faces, rows) ← run (do
        let w ← nat; let f ← list keyRowP; let r ← list keyRowP; pure (w, f, r)) args
      pure (encBool (faces.all (fun f => !f.isEmpty && decide (f.length ≤ w) && LastDistinct f)
        && rows == faces.map (encScripRow w)))
  | "C01.scrip_asis" => do
      let c ← run (list keyRowP) args
      pure s!"{encPairs (scripNodes c)} {encRows (decodeScripAsIs c)}"
  | "C01.verts" => do
      let c ← run (list keyRowP) args
      let (nodes, t) := vertsDecode c
      pure s!"{encPairs nodes} {encRows t}"
  | "C01.rings" => do
      let s ← run nats args
      pure (encRows (decodeRings s))
  | "C01.normlon" => do
      let l ← run floats args
      pure (encFloats (setRange Float.floor (fun x => x > 180) l))
  | _ => none

end UxVerif.Driver.C01
