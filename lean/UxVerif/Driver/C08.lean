import UxVerif.Model.Proto
import UxVerif.Model.Caches

/-!
  Driver for C08.

  * `C08.spec  n  step…`       — the decidable Spec on an observed trace (value identifiers are
                                 digests mapped to integers by the harness).  A step is
                                 `0 obs ref` | `1 obsPairs refPairs derivedPairs` | `2 before after init`.
                                 Answer: `ok` or `fail <index of the first bad step>`.
  * `C08.model flags n ev…`    — run the model on a history.  An event is `0 sig` (open a source) or
                                 `1 i op`; an op is `0 v` get | `1 m` method | `2 c key force store`
                                 cached | `3` export | `4` inventory | `5` chunk.
                                 Answer, per event: `eq clean` then per grid `present chunked`.
  * `C08.wf sig`               — the table check of the repaired model for a source signature.
-/
namespace UxVerif.Driver.C08
open UxVerif UxVerif.Proto UxVerif.Caches

def varP : P Var := do return Var.decode (← nat)
def sigP : P (List Var) := list varP

def pairsNatP : P (List (Nat × Int)) := list (do let a ← nat; let b ← int; pure (a, b))

def stepP : P (Step Int) := do
  match (← nat) with
  | 0 => do let o ← int; let r ← int; pure (.value o r)
  | 1 => do let o ← pairsNatP; let r ← pairsNatP; let d ← pairsNatP; pure (.super o r d)
  | _ => do let b ← int; let a ← int; let i ← int; pure (.globals b a i)

def cacheIdP : P CacheId := do
  match (← nat) with
  | 0 => pure .ball | 1 => pure .kd | 2 => pure .gdf | 3 => pure .poly | _ => pure .line

def opP : P Op := do
  match (← nat) with
  | 0 => do return .get (← varP)
  | 1 => do return .method (← nat)
  | 2 => do let c ← cacheIdP; let k ← nats; let f ← bool; let s ← bool; pure (.cached c k f s)
  | 3 => pure .export_
  | 4 => pure .inventory
  | _ => pure .chunk

def evP : P Ev := do
  match (← nat) with
  | 0 => do return .open_ (← sigP)
  | _ => do let i ← nat; let o ← opP; pure (.on i o)

def flagsOf (b : Nat) : Flags :=
  { leak := b.testBit 0, replace := b.testBit 1, numpyAreas := b.testBit 2, jacWrite := b.testBit 3,
    treeKey := b.testBit 4, lineKey := b.testBit 5, rawNodeLon := b.testBit 6,
    staleCount := b.testBit 7, incompleteEdges := b.testBit 8 }

def presentOf (g : Grid) : List Nat :=
  (Var.all.filter (fun v => (g.st v).isSome)).map Var.code
def chunkedOf (g : Grid) : List Nat :=
  (Var.all.filter (fun v => match g.st v with | some e => e.chunked | none => false)).map Var.code

/-- does the result equal what a fresh copy returns (exports: superset with reference values) -/
def agrees (M : Model) (g : Grid) (o : Op) (r : Res) : Bool :=
  let ref := refRes M g.sig g.sid o
  match r, ref with
  | .vars l, .vars p =>
      p.all (fun x => l.contains x) &&
      l.all (fun x => x.2 == fr (M.table g.sigF) g.sigF g.sid x.1)
  | .names l, .names p => p.all (fun x => l.contains x)
  | a, b => a == b

def runModel (M : Model) : World → List Ev → List String → List String
  | _, [], acc => acc.reverse
  | w, e :: rest, acc =>
    let r := w.step M e
    let eq : Bool := match e with
      | .on i o => (match w.grids[i]? with
          | some g => agrees M g o r.2
          | none => false)
      | .open_ _ => true
    let line := s!"{encBool eq} {encBool (r.1.gl == ({} : Globals))} {r.1.grids.length} " ++
      " ".intercalate (r.1.grids.map (fun g => s!"{encNats (presentOf g)} {encNats (chunkedOf g)}"))
    runModel M r.1 rest (line :: acc)

def handle (cmd : String) (args : List Int) : Option String :=
  match cmd with
  | "C08.spec" => do
      let t ← run (list stepP) args
      pure (match firstBad t with
        | none => "ok"
        | some i => s!"fail {i}")
  | "C08.model" => do
      let (fl, evs) ← run (do let f ← nat; let e ← list evP; pure (f, e)) args
      let M := uxModel (flagsOf fl)
      pure (" ".intercalate (runModel M { grids := [] } evs []))
  | "C08.wf" => do
      let sig ← run sigP args
      pure (encBool (wfB (uxTable repaired (sigOf sig)) (sigOf sig)
        && sigOf sig .faceNode && (sigOf sig .nodeLL || sigOf sig .nodeXYZ)))
  | _ => none

end UxVerif.Driver.C08
