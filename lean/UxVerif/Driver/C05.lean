import UxVerif.Model.Proto
import UxVerif.Model.Area

namespace UxVerif.Driver.C05
open UxVerif UxVerif.Proto UxVerif.Area

/-- a regenerated table entry `num / 2^k` as the double it came from (exact: the numerator has
    at most 53 significant bits and the denominator is a power of two) -/
def f (n : Int) : Float := Float.ofInt n / Float.ofNat Gen.Quad.DEN

/-- rule 0 = "gaussian", 1 = "triangular" -/
def quadOf (rule order : Nat) : Option (Quad Float) :=
  if rule == 1 then
    if Gen.Quad.TRI_ORDERS.contains order then
      some (.tri ((Gen.Quad.tri order).map fun (r : TriRow) => (f r.g0, f r.g1, f r.g2, f r.w)))
    else none
  else if rule == 0 then
    if Gen.Quad.GAUSS_ORDERS.contains order then
      some (.gauss ((Gen.Quad.gauss order).map fun r => (f r.1, f r.2)))
    else none
  else none

def flatOf : Quad Float → List Float
  | .tri rows => rows.flatMap fun r => [r.1, r.2.1, r.2.2.1, r.2.2.2]
  | .gauss rows => rows.flatMap fun r => [r.1, r.2]

def pi : Float := Float.ofBits 0x400921FB54442D18
/-- `np.deg2rad(x) = x * (π / 180)` -/
def d2r : Float := pi / 180

def v3s : List Float → List (V3 Float)
  | x :: y :: z :: r => ⟨x, y, z⟩ :: v3s r
  | _ => []
def pairs2 : List Float → List (Float × Float)
  | a :: b :: r => (a, b) :: pairs2 r
  | _ => []

def at' {α} (l : Array α) (d : α) (i : Int) : α := if i < 0 then d else l.getD i.toNat d

/-- mode 0: lon/lat input; 1: Cartesian input, repaired (`dim = 3`); 2: Cartesian input as the
    code stands (`dim = 2`) -/
def areasOf (q : Quad Float) (mode : Nat) (t : Table) (N : List Nat) (c : List Float) :
    List Float :=
  if mode == 0 then
    let a := (pairs2 c).toArray
    computeLatLon Float.sqrt Float.sin Float.cos d2r q (at' a (0, 0)) t N
  else
    let a := (v3s c).toArray
    computeXYZ (if mode == 1 then 3 else 2) Float.sqrt q (at' a ⟨0, 0, 0⟩) t N

def paramsP : P Params := do let r ← nat; let o ← nat; let l ← bool; pure (r, o, l)

def opP : P Op := do
  match (← nat) with
  | 0 => pure .read
  | 1 => do let p ← paramsP; pure (.compute p)
  | 2 => pure .computeDefault
  | 3 => do let r ← nat; let o ← nat; pure (.total r o)
  | 4 => pure .totalDefault
  | _ => failure

def encParams (p : Params) : String := s!"{p.1} {p.2.1} {encBool p.2.2}"

def handle (cmd : String) (args : List Int) : Option String :=
  match cmd with
  | "C05.orders" => pure s!"{encNats Gen.Quad.TRI_ORDERS} {encNats Gen.Quad.GAUSS_ORDERS}"
  | "C05.supported" => do
      let (r, o) ← run (do let r ← nat; let o ← nat; pure (r, o)) args
      pure (encBool (supported r o))
  | "C05.table" => do
      let (r, o) ← run (do let r ← nat; let o ← nat; pure (r, o)) args
      match quadOf r o with
      | some q => pure (encFloats (flatOf q))
      | none => pure "unsupported"
  | "C05.tablecheck" => do
      -- native evaluation of the table checkers (names the failing monomial when a table theorem
      -- stops checking; the informational facts are reported, not demanded)
      let (r, o) ← run (do let r ← nat; let o ← nat; pure (r, o)) args
      let D := Gen.Quad.DEN
      let T := 10 ^ 12
      if r == 1 then
        let t := Gen.Quad.tri o
        let bad := match triFirstBad D t (triDeg o) T with
          | some (a, b, c) => s!"{a},{b},{c}" | none => "none"
        pure s!"firstbad={bad} wsum={encBool (triWeightsSumB D t T)} pos={encBool (triWeightsPosB t)} sym={encBool (triSymmetricB t)} bary={encBool (triBaryB D t T)} inside={encBool (triPointsNonnegB t)} sharp={encBool (triInexactAtB D t (triDeg o + 1) (10 ^ 13))} deg={triDeg o} npts={t.length}"
      else
        let t := Gen.Quad.gauss o
        let bad := match gaussFirstBad D t (gaussDeg o) T with
          | some d => s!"{d}" | none => "none"
        pure s!"firstbad={bad} wsum={encBool (gaussMomentOK D t T 0)} pos={encBool (gaussWeightsPosB t)} sym={encBool (gaussSymmetricB D t T)} bary=1 inside={encBool (gaussNodesInUnitB D t)} sharp={encBool (!gaussMomentOK D t (10 ^ 13) (gaussDeg o + 1))} deg={gaussDeg o} npts={t.length}"
  | "C05.areas" => do
      let (r, o, mode, t, N, c) ← run (do
        let r ← nat; let o ← nat; let m ← nat; let t ← rows; let N ← nats; let c ← floats
        pure (r, o, m, t, N, c)) args
      match quadOf r o with
      | some q =>
        let a := areasOf q mode t N c
        pure s!"{encFloats a} {encFloat (totalArea a)}"
      | none => pure "unsupported"
  | "C05.excess" => do
      let c ← run floats args
      pure (encFloat (polyExcess (v3s c)))
  | "C05.judge" => do
      let (cls, dflt, area, ctr, c) ← run (do
        let cls ← nat; let d ← bool; let a ← float; let ctr ← floats; let c ← floats
        pure (cls, d, a, ctr, c)) args
      let l := v3s c
      match v3s ctr with
      | [centre] =>
        if !wfFace centre (cosHalfOfClass cls) l then pure "wf-reject"
        else
          let bad := faceSpec cls dflt area l
          let ex := encFloat (polyExcess l)
          pure (if bad.isEmpty then s!"ok {ex}" else s!"fail {",".intercalate bad} {ex}")
      | _ => none
  | "C05.close" => do
      let (tol, a, e) ← run (do let t ← float; let a ← float; let e ← float; pure (t, a, e)) args
      pure (encBool (relClose tol a e))
  | "C05.cache" => do
      let (d, td, ops) ← run (do
        let d ← paramsP; let td ← paramsP; let ops ← list opP; pure (d, td, ops)) args
      let out := runOps (fun p => p) d td { ds := none, last := none } ops
      pure (" ".intercalate (out.map encParams))
  | _ => none

end UxVerif.Driver.C05
