import UxVerif.Model.Proto
import UxVerif.Model.Slice

namespace UxVerif.Driver.C09
open UxVerif UxVerif.Proto UxVerif.Slice

def srcP : P Src := do
  let t ← rows; let en ← pairs; let fe ← rows
  pure { t := t, EN := en, FE := fe }

def obsP : P Obs := do
  let ni ← ints; let fi ← ints; let ei ← ints
  let t ← rows; let en ← pairs; let fe ← rows; let N ← nats
  pure { nodeIdx := ni, faceIdx := fi, edgeIdx := ei, t := t, EN := en, FE := fe, N := N }

def fpairs : P (List (Float × Float)) := list (do let a ← float; let b ← float; pure (a, b))

def varOf : Nat → Var
  | 0 => .edgeNode | 1 => .faceEdge | 2 => .nPerFace | 3 => .nodeFace | 4 => .edgeFace
  | 5 => .faceFace | 6 => .holes | 7 => .edgeFaceDist | _ => .chunk

def encView (v : View) : String :=
  s!"ok {encPairs v.en} {encRows v.fe} {encNats v.npf} {encRows v.nf} {encPairs v.ef} {encRows v.ff} {encNats v.holes}"

def incOutP : P Incidence.Out := do
  let nf ← rows; let ef ← pairs; let ff ← rows; let h ← nats
  pure { nodeFace := nf, edgeFace := ef, faceFace := ff, holes := h }

def okOr (fl : List String) : String := if fl.isEmpty then "ok" else "fail " ++ ",".intercalate fl

def handle (cmd : String) (args : List Int) : Option String :=
  match cmd with
  | "C09.slice" => do
      let (s, idx) ← run (do let s ← srcP; let idx ← nats; pure (s, idx)) args
      let u := sliceFaces s idx
      pure s!"{encInts u.nodeIdx} {encNats u.faceIdx} {encInts u.edgeIdx} {encRows u.t} {encPairs u.EN} {encRows u.FE}"
  | "C09.pre" => do
      let (n, w, s, idx) ← run (do let n ← nat; let w ← nat; let s ← srcP; let idx ← nats; pure (n, w, s, idx)) args
      pure (encBool (decide (Pre n w s idx)))
  | "C09.spec" => do
      let (w, s, idx, o) ← run (do let w ← nat; let s ← srcP; let idx ← nats; let o ← obsP; pure (w, s, idx, o)) args
      pure (okOr (failing s w idx o))
  | "C09.restrict" => do
      -- the restriction clauses only (sources whose own edge tables do not follow C02's slot convention)
      let (w, s, idx, o) ← run (do let w ← nat; let s ← srcP; let idx ← nats; let o ← obsP; pure (w, s, idx, o)) args
      pure (okOr ((failing s w idx o).filter (fun c => !c.startsWith "functional:")))
  | "C09.inc" => do
      let (n, t, FE, N, nEdge, o) ← run (do
        let n ← nat; let t ← rows; let FE ← rows; let N ← nats; let nEdge ← nat; let o ← incOutP
        pure (n, t, FE, N, nEdge, o)) args
      if decide (Incidence.Pre n t FE N nEdge) then
        pure (okOr (Incidence.failing n t FE N nEdge o))
      else pure "nopre"
  | "C09.facesOfNodes" => do
      let (NF, ind) ← run (do let a ← rows; let b ← nats; pure (a, b)) args
      pure (encInts (facesOfNodes NF ind))
  | "C09.facesOfEdges" => do
      let (EF, ind) ← run (do let a ← pairs; let b ← nats; pure (a, b)) args
      pure (encInts (facesOfEdges EF ind))
  | "C09.touch" => do
      let (rws, ind, faces) ← run (do let a ← rows; let b ← nats; let c ← ints; pure (a, b, c)) args
      pure (encBool (decide (Touching rws ind faces)))
  | "C09.sameset" => do
      let (want, got) ← run (do let a ← nats; let b ← ints; pure (a, b)) args
      pure (encBool (decide (SameSet want got)))
  | "C09.data" => do
      let (ri, src, sub) ← run (do let a ← nats; let b ← rows; let c ← rows; pure (a, b, c)) args
      pure (encBool (decide (DataAligned ri src sub)))
  | "C09.lat" => do
      let (c, Z, order, EF) ← run (do let c ← float; let Z ← fpairs; let o ← nats; let EF ← pairs; pure (c, Z, o, EF)) args
      pure s!"{encNats (crossingEdges c Z order)} {encInts (facesAt c Z order EF)}"
  | "C09.latspec" => do
      let (c, δ, Z, FE, N, faces) ← run (do
        let c ← float; let δ ← float; let Z ← fpairs; let FE ← rows; let N ← nats; let f ← ints
        pure (c, δ, Z, FE, N, f)) args
      pure (encBool (decide (CrossSpec c δ Z FE N faces)))
  | "C09.latexact" => do
      let (c, Z, FE, N, faces) ← run (do
        let c ← float; let Z ← fpairs; let FE ← rows; let N ← nats; let f ← ints
        pure (c, Z, FE, N, f)) args
      pure (encBool (decide (CrossExact c Z FE N faces)))
  | "C09.box" => do
      let (b, lon, lat) ← run (do
        let a ← float; let b ← float; let c ← float; let d ← float
        let lon ← floats; let lat ← floats
        pure (({ lon0 := a, lon1 := b, lat0 := c, lat1 := d, m180 := -180.0, p180 := 180.0 } : Box Float), lon, lat)) args
      pure (encNats (boxSel b lon lat))
  | "C09.circle" => do
      let (d, r) ← run (do let d ← floats; let r ← float; pure (d, r)) args
      pure (encNats (circleSel d r))
  | "C09.knn" => do
      let (d, k) ← run (do let d ← floats; let k ← nat; pure (d, k)) args
      pure (encNats (knnSel d k))
  | "C09.efdtransport" => do
      -- hypothesis of efd_history_independent on this case's tables (edge_face as the model derives it)
      let (w, s, idx) ← run (do let w ← nat; let s ← srcP; let idx ← nats; pure (w, s, idx)) args
      let g : State := { w := w, t := s.t, en := some s.EN, fe := some s.FE }
      let r := do
        let g ← getEF g
        let u ← g.slice idx
        let u ← getEF u
        pure (travelEFD true idx (edgeSel s idx) (efdOf (g.ef.getD [])) == efdOf (u.ef.getD []))
      pure (match r with | some b => encBool b | none => "raises")
  | "C09.lookupfe" => do
      let (t, en) ← run (do let t ← rows; let en ← pairs; pure (t, en)) args
      pure (match lookupFE t en with | some F => "ok " ++ encRows F | none => "none")
  | "C09.edgeface" => do
      let (FE, N, nEdge) ← run (do let a ← rows; let b ← nats; let c ← nat; pure (a, b, c)) args
      pure (encPairs (Incidence.edgeFace FE N nEdge))
  | "C09.view" => do
      -- state machine: source (w, t, optional supplied en/fe) → history → slice (asis?) → requests → view
      let (w, t, sup, en, fe, hist, asis, idx, order) ← run (do
        let w ← nat; let t ← rows; let sup ← nat; let en ← pairs; let fe ← rows
        let hist ← nats; let asis ← nat; let idx ← nats; let order ← nats
        pure (w, t, sup, en, fe, hist, asis, idx, order)) args
      -- sup: 0 = nothing supplied, 1 = edge_node and face_edge supplied, 2 = only edge_node supplied
      let g0 : State := if sup == 1 then { w := w, t := t, en := some en, fe := some fe }
                        else if sup == 2 then { w := w, t := t, en := some en } else { w := w, t := t }
      let r := do
        let g ← runHist g0 (hist.map varOf)
        -- asis: 0 = repaired, 1 = the original /repo, 2 = fixes/C09-1 only, 3 = C09-1 + C09-2 (no C09-3)
        let u ← g.sliceWith (asis == 1) (asis == 1 || asis == 2) (asis != 0) idx
        let v ← u.view (order.map varOf)
        let e ← u.viewEFD (order.map varOf)
        pure (v, e)
      pure (match r with
        | some (v, e) => encView v ++ " " ++ encPairs (e.map (fun o => o.getD (FILL, FILL)))
        | none => "raises")
  | _ => none

end UxVerif.Driver.C09
