import UxVerif.Model.Proto
import UxVerif.Model.Knn

namespace UxVerif.Driver.C11
open UxVerif UxVerif.Proto UxVerif.Knn

/-- libm instance of the primitives -/
def F : Fns Float :=
  { sin := Float.sin, cos := Float.cos, asin := Float.asin, sqrt := Float.sqrt, abs := Float.abs,
    max := fun a b => if a ≤ b then b else a, pi := 3.141592653589793 }

def fle (a b : Float) : Bool := decide (a ≤ b)

def kindOf : Nat → TreeKind | 0 => .ball | _ => .kd
def sysOf : Nat → Sys | 0 => .spherical | _ => .cartesian
def metricOf : Nat → Metric | 0 => .haversine | 1 => .l2 | 2 => .l1 | _ => .linf
def elemOf : Nat → Elem | 0 => .nodes | 1 => .faces | _ => .edges
def variantOf : Nat → Variant | 0 => .repaired | _ => .asIs
def kindC : TreeKind → Nat | .ball => 0 | .kd => 1
def sysC : Sys → Nat | .spherical => 0 | .cartesian => 1
def metricC : Metric → Nat | .haversine => 0 | .l2 => 1 | .l1 => 2 | .linf => 3
def elemC : Elem → Nat | .nodes => 0 | .faces => 1 | .edges => 2

def cfgP : P Cfg := do
  let k ← nat; let s ← nat; let m ← nat; let r ← bool
  pure { kind := kindOf k, sys := sysOf s, metric := metricOf m, inRad := r }

/-- `n dim v…` -/
def elsP : P (List (List Float)) := do
  let n ← nat; let d ← nat
  many (many float d) n

def reqP : P Req := do
  let k ← nat; let e ← nat; let s ← nat; let m ← nat; let r ← bool
  pure { kind := kindOf k, elem := elemOf e, sys := sysOf s, metric := metricOf m, recon := r }

/-- smallest difference between consecutive entries of a sorted list (`none` if < 2 entries) -/
def minGap : List Float → Option Float
  | a :: b :: rest =>
    let g := b - a
    match minGap (b :: rest) with
    | some h => some (if g ≤ h then g else h)
    | none => some g
  | _ => none

def tieEps : Float := 1e-9

/-- tolerance of the float clause "distance in the documented unit" -/
def distTol (c : Cfg) (model : Float) : Float :=
  1e-7 * (1 + Float.abs model) * (if !c.inRad && c.sys == .spherical then 60 else 1)

def distsOk (c : Cfg) (D : List Float) (idx : List Nat) (ds : List Float) : Bool :=
  idx.length == ds.length &&
  (List.zip idx ds).all (fun p =>
    match D[p.1]? with
    | some d => let m := reportDist F c.sys c.inRad d; decide (Float.abs (p.2 - m) ≤ distTol c m)
    | none => false)

def encB (b : Bool) : String := encBool b

def encTree (t : TreeObj) : String :=
  let occ (o : Option Built) : String :=
    match o with
    | none => "0 0 0 0"
    | some b => s!"1 {elemC b.elem} {sysC b.sys} {metricC b.metric}"
  s!"{elemC t.coords} {sysC t.sys} {metricC t.metric} {encB t.recon} {occ t.slotN} {occ t.slotF} {occ t.slotE} {t.count}"

def sizesP : P Sizes := do
  let a ← nat; let b ← nat; let c ← nat
  pure ⟨a, b, c⟩

def handle (cmd : String) (args : List Int) : Option String :=
  match cmd with
  /- C11.knn cfg k q els implIdx implDist
     → err | ok tie spec len range nodup sorted minimal dist  modelIdx modelDist gap -/
  | "C11.knn" => do
      let (c, k, q, els, idx, ds) ← run (do
        let c ← cfgP; let k ← nat; let q ← floats; let els ← elsP; let idx ← nats; let ds ← floats
        pure (c, k, q, els, idx, ds)) args
      match modelQuery F fle c els q k, distances F c els q with
      | some ans, some D =>
        let sorted := (sortBy fle D.zipIdx).map (·.1)
        let gap := (minGap (sorted.take (k + 1))).getD 1.0
        let tie := decide (gap < tieEps)
        let spec := knnSpecB fle D k idx
        let bLen := idx.length == min k D.length
        let bRange := idx.all (fun i => decide (i < D.length))
        let bNodup := decide idx.Nodup
        let bSorted := sortedIdx fle D idx
        let bMin := idx.all (fun i => (List.range D.length).all (fun j => idx.contains j || leO fle D[i]? D[j]?))
        let bDist := ds.isEmpty || distsOk c D idx ds
        -- rows with near-ties are judged by the specification up to `tieEps` (Props: knn_tol_profile)
        let specTol := knnSpecB (leTol fle tieEps) D k idx
        -- the float haversine formula is ill-conditioned within ~1e-6 of the antipode
        let illcond := c.metric == .haversine && (sorted.take (k + 1)).any (fun d => decide (F.pi - 1e-6 < d))
        pure s!"ok {encB tie} {encB spec} {encB bLen} {encB bRange} {encB bNodup} {encB bSorted} {encB bMin} {encB bDist} {encNats (ans.map (·.2))} {encFloats (ans.map (·.1))} {encFloat gap} {encB specTol} {encB illcond}"
      | _, _ => pure "err"
  /- C11.radius variant cfg r q els implIdx implDist
     → err | ok tie spec range nodup dist modelIdx modelDist rin -/
  | "C11.radius" => do
      let (v, c, r, q, els, idx, ds) ← run (do
        let v ← nat; let c ← cfgP; let r ← float; let q ← floats; let els ← elsP
        let idx ← nats; let ds ← floats
        pure (variantOf v, c, r, q, els, idx, ds)) args
      match modelRadius F fle v c els q r, distances F c els q with
      | some ans, some D =>
        let rin := radiusIn F v c.kind c.sys r
        -- boundary of the answer set: `rin`, or π for haversine radii beyond π (no great-circle
        -- distance exceeds π — `hav_range` — so every such radius is the same query as π; an
        -- element within 1e-9 of the antipode is then a boundary tie, where the float haversine
        -- formula is ill-conditioned)
        let rt := if c.metric == .haversine && decide (F.pi < rin) then F.pi else rin
        let tie := D.any (fun d => decide (Float.abs (d - rt) < tieEps))
        let spec := radiusSpecB fle D rin idx
        let bRange := idx.all (fun i => decide (i < D.length))
        let bNodup := decide idx.Nodup
        let bDist := ds.isEmpty || distsOk c D idx ds
        -- boundary ties are judged by the radius specification up to `tieEps` (radius_tol_sandwich)
        let specTol := radiusSpecTolB fle tieEps D rt idx
        pure s!"ok {encB tie} {encB spec} {encB bRange} {encB bNodup} {encB bDist} {encNats (ans.map (·.2))} {encFloats (ans.map (·.1))} {encFloat rin} {encB specTol}"
      | _, _ => pure "err"
  /- C11.dists cfg q els → err | ok D… (tree-unit distances, for diagnostics / radius choice) -/
  | "C11.dists" => do
      let (c, q, els) ← run (do let c ← cfgP; let q ← floats; let els ← elsP; pure (c, q, els)) args
      match distances F c els q with
      | some D => pure s!"ok {encFloats D}"
      | none => pure "err"
  /- C11.cache nNode nFace nEdge variant n req… → for every request: reflects-bit and the wrapper
     handed back (incl. its element count) -/
  | "C11.cache" => do
      let (z, v, rs) ← run (do let z ← sizesP; let v ← nat; let rs ← list reqP; pure (z, variantOf v, rs)) args
      let (_, ts) := runReqs z v Cache.empty rs
      pure (" ".intercalate ((List.zip rs ts).map (fun p => s!"{encB (reflects z p.1 p.2)} {encTree p.2}")))
  /- C11.guard nNode nFace nEdge variant n req… k → does the `k` guard of the wrapper handed back
     for the LAST request of the history accept `k` (model: iff 1 ≤ k ≤ n of the requested kind,
     `handback_guard`) -/
  | "C11.guard" => do
      let (z, v, rs, k) ← run (do
        let z ← sizesP; let v ← nat; let rs ← list reqP; let k ← int
        pure (z, variantOf v, rs, k)) args
      let (_, ts) := runReqs z v Cache.empty rs
      match ts.getLast? with
      | some t => pure (encB (t.accepts k))
      | none => none
  /- C11.reflects nNode nFace nEdge req coords sys metric builtElem builtSys builtMetric count
     the Lean predicate on an OBSERVED wrapper (its current sklearn tree described by what the
     harness could observe of it) -/
  | "C11.reflects" => do
      let (z, r, e, s, m, be, bs, bm, cnt) ← run (do
        let z ← sizesP
        let r ← reqP; let e ← nat; let s ← nat; let m ← nat; let be ← nat; let bs ← nat; let bm ← nat
        let cnt ← nat
        pure (z, r, e, s, m, be, bs, bm, cnt)) args
      let b : Built := ⟨elemOf be, sysOf bs, metricOf bm⟩
      let t : TreeObj := ({ coords := elemOf e, count := cnt, sys := sysOf s, metric := metricOf m,
                            recon := false, slotN := none, slotF := none, slotE := none }
                          : TreeObj).setSlot (elemOf e) b
      pure (encB (reflects z r t))
  | _ => none

end UxVerif.Driver.C11
