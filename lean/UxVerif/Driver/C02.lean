import UxVerif.Model.Proto
import UxVerif.Model.Edges

namespace UxVerif.Driver.C02
open UxVerif UxVerif.Proto UxVerif.Edges

def outP : P Out := do
  let e ← pairs; let fe ← rows; let n ← nats
  pure { edges := e, faceEdges := fe, nPerFace := n }

def encOut (o : Out) : String :=
  s!"{encPairs o.edges} {encRows o.faceEdges} {encNats o.nPerFace}"

def handle (cmd : String) (args : List Int) : Option String :=
  match cmd with
  | "C02.model" => do
      let t ← run rows args
      pure (encOut (build t))
  | "C02.spec" => do
      let (w, t, o) ← run (do let w ← nat; let t ← rows; let o ← outP; pure (w, t, o)) args
      let fl := failing t w o
      pure (if fl.isEmpty then "ok" else "fail " ++ ",".intercalate fl)
  | "C02.modelGiven" => do
      let (t, G) ← run (do let t ← rows; let G ← pairs; pure (t, G)) args
      pure s!"{encBool (coversGiven G t)} {encOut (buildGiven G t)}"
  | "C02.specGiven" => do
      let (w, t, G, o) ← run (do let w ← nat; let t ← rows; let G ← pairs; let o ← outP; pure (w, t, G, o)) args
      let fl := failingGiven t w G o
      pure (if fl.isEmpty then "ok" else "fail " ++ ",".intercalate fl)
  | "C02.std" => do
      let (n, w, t) ← run (do let n ← nat; let w ← nat; let t ← rows; pure (n, w, t)) args
      pure (encBool (decide (StdForm n w t)))
  | _ => none

end UxVerif.Driver.C02
