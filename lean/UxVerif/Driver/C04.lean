/-
  Driver for C04.  The generic definitions of `Model/Coords.lean` instantiated at `Float`
  (libm `sin/cos/atan2/asin/sqrt`, `ERROR_TOLERANCE` from the regenerated `Gen/Constants.lean`).

  * `C04.run  <variant> <source> <conn> <ops>`  — the provenance state machine; answers every report
  * `C04.spec <sup> <truth> <reports>`          — the decidable specification on the IMPLEMENTATION's
                                                  reports (range, lon/lat vs truth, xyz vs truth,
                                                  lon/lat vs xyz, unit length of derived xyz)
  * `C04.centres <nodes> <conn>`                — normalised corner means (truth of unsupplied centres)
  * `C04.tol`                                   — echo of the tolerance constants
  * `C04.conv …`                                — the single conversions (for direct probes)
-/
import UxVerif.Model.Proto
import UxVerif.Model.Coords

namespace UxVerif.Driver.C04
open UxVerif UxVerif.Proto UxVerif.Coords

def errTol : Float := Float.ofInt Gen.ERROR_TOLERANCE_num / Float.ofNat Gen.ERROR_TOLERANCE_den

/-- comparison tolerance on unit-vector components -/
def eps : Float := 1e-12
/-- the property's pole-snapping tolerance -/
def snap : Float := 1e-8

/-- the `Float` instantiation (np.mod(a, b) for b > 0 as `a − b·⌊a/b⌋`) -/
def F : Ops Float where
  sin := Float.sin
  cos := Float.cos
  atan2 := Float.atan2
  asin := Float.asin
  sqrt := Float.sqrt
  abs := Float.abs
  pi := 3.141592653589793
  fmod := fun a b => a - b * Float.floor (a / b)
  lt := fun a b => a < b
  ofNat := Float.ofNat
  tol := errTol
  closeTol := errTol + 1e-5

/-! ### protocol -/

def v3sP : P (List (V3 Float)) := do
  let x ← floats; let y ← floats; let z ← floats
  if x.length = y.length ∧ y.length = z.length then
    pure ((x.zip (y.zip z)).map (fun t => ⟨t.1, t.2.1, t.2.2⟩))
  else failure

def llP : P (LL Float) := do
  let lon ← floats; let lat ← floats
  if lon.length = lat.length then pure ((lon.zip lat).map (fun t => (⟨t.1⟩, ⟨t.2⟩))) else failure

def optP {α} (p : P α) : P (Option α) := do
  let f ← nat
  if f = 0 then pure none else do let a ← p; pure (some a)

def srcP : P (St Float) := do
  let nl ← optP llP; let nx ← optP v3sP
  let el ← optP llP; let ex ← optP v3sP
  let fl ← optP llP; let fx ← optP v3sP
  pure { nodeLL := nl, nodeXYZ := nx, edgeLL := el, edgeXYZ := ex, faceLL := fl, faceXYZ := fx,
         normalized := false }

def natRowsP : P (List (List Nat)) := list nats

def connP : P Conn := do
  let f ← natRowsP
  let e ← list (do let a ← nat; let b ← nat; pure (a, b))
  pure { faces := f, edges := e }

def kindOf : Nat → Option Kind
  | 0 => some .node | 1 => some .edge | 2 => some .face | _ => none

def kindCode : Kind → Nat
  | .node => 0 | .edge => 1 | .face => 2

def kindName : Kind → String
  | .node => "node" | .edge => "edge" | .face => "face"

def opOf (n : Nat) : Option Op :=
  if n = 6 then some .normalize
  else if n < 3 then (kindOf n).map .getLL
  else (kindOf (n - 3)).map .getXYZ

def opsP : P (List Op) := do
  let l ← nats
  match l.mapM opOf with
  | some o => pure o
  | none => failure

def variantP : P Variant := do
  let a ← bool; let b ← bool; let c ← bool
  pure ⟨a, b, c⟩

def encV3s (l : List (V3 Float)) : String :=
  s!"{encFloats (l.map (·.x))} {encFloats (l.map (·.y))} {encFloats (l.map (·.z))}"

def encLL (l : LL Float) : String :=
  s!"{encFloats (l.map (·.1.val))} {encFloats (l.map (·.2.val))}"

def encReport : Report Float → String
  | .ll k none => s!"0 {kindCode k} 0"
  | .ll k (some l) => s!"0 {kindCode k} 1 {encLL l}"
  | .xyz k none => s!"1 {kindCode k} 0"
  | .xyz k (some l) => s!"1 {kindCode k} 1 {encV3s l}"
  | .unit => "2"

def reportP : P (Report Float) := do
  let tag ← nat
  if tag = 2 then pure .unit
  else do
    let k ← nat
    match kindOf k with
    | none => failure
    | some kd =>
      if tag = 0 then do let v ← optP llP; pure (.ll kd v)
      else if tag = 1 then do let v ← optP v3sP; pure (.xyz kd v)
      else failure

/-! ### the specification on a list of reports -/

structure TruthF where
  node : List (V3 Float)
  edge : List (V3 Float)
  face : List (V3 Float)

def TruthF.of (t : TruthF) : Kind → List (V3 Float)
  | .node => t.node | .edge => t.edge | .face => t.face

/-- failing clauses of one report against the truth -/
def reportFails (sup : Kind → Bool) (t : TruthF) : Report Float → List String
  | .unit => []
  | .ll k none => [s!"missing/{kindName k}/lonlat"]
  | .xyz k none => [s!"missing/{kindName k}/xyz"]
  | .ll k (some l) =>
    (if l.all (rangeB F) then [] else [s!"range/{kindName k}"]) ++
    (if all₂ (llAgreesB F eps snap) l (t.of k) then [] else [s!"lonlat-vs-truth/{kindName k}"])
  | .xyz k (some xs) =>
    (if all₂ (xyzAgreesB F eps) xs (t.of k) then [] else [s!"xyz-vs-truth/{kindName k}"]) ++
    (if sup k || xs.all (unitLenB F eps) then [] else [s!"unit/{kindName k}"])

/-- the headline clause: every reported lon/lat array and every reported xyz array of the same
    kind denote the same directions -/
def pairFails (rs : List (Report Float)) : List String :=
  rs.foldr (fun r acc =>
    match r with
    | .ll k (some l) =>
      rs.foldr (fun r' acc' =>
        match r' with
        | .xyz k' (some xs) =>
          if k = k' && !(all₂ (fun p v => F.lt 0 (normSq v) && llAgreesB F eps snap p (normalizeV F v)) l xs)
          then s!"lonlat-vs-xyz/{kindName k}" :: acc' else acc'
        | _ => acc') acc
    | _ => acc) []

def dedup (l : List String) : List String :=
  l.foldl (fun acc s => if acc.contains s then acc else acc ++ [s]) []

def specFails (sup : Kind → Bool) (t : TruthF) (rs : List (Report Float)) : List String :=
  dedup ((rs.map (reportFails sup t)).flatten ++ pairFails rs)

def supP : P (Kind → Bool) := do
  let a ← bool; let b ← bool; let c ← bool
  pure (fun k => match k with | .node => a | .edge => b | .face => c)

def truthP : P TruthF := do
  let n ← v3sP; let e ← v3sP; let f ← v3sP
  pure ⟨n, e, f⟩

def handle (cmd : String) (args : List Int) : Option String :=
  match cmd with
  | "C04.run" => do
      let (v, src, c, ops) ← run (do
        let v ← variantP; let s ← srcP; let c ← connP; let o ← opsP; pure (v, s, c, o)) args
      let n := match src.nodeLL, src.nodeXYZ with
        | some l, _ => l.length
        | none, some xs => xs.length
        | none, none => 0
      if !(decide (ConnOK n c)) then pure "bad-conn" else
      let r := Coords.run F v c (init F src) ops
      pure (s!"{r.2.length} " ++ " ".intercalate (r.2.map encReport))
  | "C04.spec" => do
      let (sup, t, rs) ← run (do
        let s ← supP; let t ← truthP; let rs ← list reportP; pure (s, t, rs)) args
      let fl := specFails sup t rs
      pure (if fl.isEmpty then "ok" else "fail " ++ ",".intercalate fl)
  | "C04.centres" => do
      -- the property's definition of a centre the source does not supply, evaluated by Lean from
      -- the true node positions and the element's own real corners
      let (nodes, c) ← run (do let n ← v3sP; let c ← connP; pure (n, c)) args
      if !(decide (ConnOK nodes.length c)) then pure "bad-conn" else
      pure (s!"{encV3s (c.faces.map (faceCentroid F nodes))} {encV3s (c.edges.map (edgeCentroid F nodes))}")
  | "C04.tol" => do
      let _ ← run eof args
      pure s!"{encFloat errTol} {encFloat eps} {encFloat snap} {encFloat F.closeTol}"
  | "C04.conv" => do
      -- 0: xyz of lon/lat (degrees); 1: lon/lat (degrees) of xyz, normalize flag; 2: normalise
      let (which, a, b, c, flag) ← run (do
        let w ← nat; let a ← float; let b ← float; let c ← float; let f ← bool; pure (w, a, b, c, f)) args
      match which with
      | 0 => let v := dirDeg F (⟨a⟩, ⟨b⟩); pure (encFloats [v.x, v.y, v.z])
      | 1 => let p := lonLatDegOfXyz F flag ⟨a, b, c⟩; pure (encFloats [p.1.val, p.2.val])
      | 2 => let v := normalizeV F ⟨a, b, c⟩; pure (encFloats [v.x, v.y, v.z])
      | _ => none
  | _ => none

end UxVerif.Driver.C04
