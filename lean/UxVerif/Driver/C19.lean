import UxVerif.Model.Proto
import UxVerif.Model.Heap

namespace UxVerif.Driver.C19
open UxVerif UxVerif.Proto UxVerif.Heap

def cellP : P Cell := do
  let d ← ints
  let r ← pairs
  if r.any (fun p => p.1 < 0 || p.2 < 0) then failure
  pure ⟨d, r.map fun p => (p.1.toNat, p.2.toNat)⟩

def heapP : P Heap := list cellP

def encPath (p : Path) : String := encNats p

def encVerdict : Verdict → String
  | .sep => "sep"
  | .shared x pa pb => s!"shared {x} {encPath pa} {encPath pb}"
  | .unknown => "unknown"

def encFrame : FrameV → String
  | .ok => "ok"
  | .changed x p => s!"changed {x} {encPath p}"
  | .unknown => "unknown"

def vcode : Verdict → Nat | .sep => 0 | .shared .. => 1 | .unknown => 2
def fcode : FrameV → Nat | .ok => 0 | .changed .. => 1 | .unknown => 2

/-! the model run: one scenario = build, optional copy, optional export, mutation steps -/

structure St where
  h : Heap
  inputs : List Nat
  g : Nat
  c : Option Nat := none
  e : Option Nat := none

def copyApiOf : Nat → Option CopyApi
  | 0 => some .gridCopy | 1 => some .uxdaDeepCopy | 2 => some .pyDeepcopy | _ => none
def exportApiOf : Nat → Option ExportApi
  | 0 => some .ugrid | 1 => some .exodus | 2 => some .scrip | 3 => some .gdf | 4 => some .gdfNoCache
  | 5 => some .poly | 6 => some .line | _ => none

/-- payloads of the three standard variables (0 = node_lon, 1 = node_lat, 2 = face_node_connectivity) -/
def lonRaw : List Int := [200, 10, 20]
def lonStd : List Int := [-160, 10, 20]
def latRaw : List Int := [5, 6, 7]
def connRaw : List Int := [1, 2, 3, -1]
def connStd : List Int := [0, 1, 2, -9223372036854775808]

/-- `kind`: 0 arrays (`from_topology`), 1 dataset through a reader, 2 adopted dataset, 3 face vertices.
    `flags`: bit0 the connectivity needs standardising and is int64 (in-place path of the as-is code),
             bit1 a longitude exceeds 180, bit2 the reader keeps `grid_topology` in the dataset. -/
def buildOp (asIs : Bool) (kind flags : Nat) : St :=
  let inplace := flags % 2 = 1
  let wrap := (flags / 2) % 2 = 1
  let topo := (flags / 4) % 2 = 1
  let lonOut : VarSpec := if wrap then ⟨0, lonStd, [7], none⟩ else ⟨0, [], [7], some 0⟩
  match kind with
  | 0 =>
    let h0 : Heap := [⟨if wrap then lonRaw else lonStd, []⟩, ⟨latRaw, []⟩, ⟨if inplace then connRaw else connStd, []⟩]
    let vs : List VarSpec := [lonOut, ⟨1, [], [8], some 1⟩]
    if asIs && inplace then
      let r := buildAsIs h0 2 connStd (vs ++ [⟨2, [], [9], some 2⟩]) [42] [1]
      { h := r.1, inputs := [0, 1, 2], g := r.2 }
    else
      let r := build h0 (vs ++ [if asIs then ⟨2, [], [9], some 2⟩ else ⟨2, connStd, [9], none⟩]) [42] [1]
      { h := r.1, inputs := [0, 1, 2], g := r.2 }
  | 1 =>
    let d := allocDs [] [⟨0, if wrap then lonRaw else lonStd, [7], none⟩, ⟨1, latRaw, [8], none⟩,
                         ⟨2, if inplace then connRaw else connStd, [9], none⟩] [42]
    let lonB := (follow d.1 d.2 [kVar 0, kData]).getD 0
    let latB := (follow d.1 d.2 [kVar 1, kData]).getD 0
    let conB := (follow d.1 d.2 [kVar 2, kData]).getD 0
    let extra : List VarSpec := if topo then [⟨vTopo, [0], [3], none⟩] else []
    let vs : List VarSpec := [if wrap then ⟨0, lonStd, [7], none⟩ else ⟨0, [], [7], some lonB⟩, ⟨1, [], [8], some latB⟩]
    if asIs && inplace then
      let r := buildAsIs d.1 conB connStd (vs ++ [⟨2, [], [9], some conB⟩] ++ extra) [42] [1]
      { h := r.1, inputs := [d.2], g := r.2 }
    else
      let r := build d.1 (vs ++ [if inplace then ⟨2, connStd, [9], none⟩ else ⟨2, [], [9], some conB⟩] ++ extra) [42] [1]
      { h := r.1, inputs := [d.2], g := r.2 }
  | 2 =>
    let d := allocDs [] [⟨0, if wrap then lonRaw else lonStd, [7], none⟩, ⟨1, latRaw, [8], none⟩,
                         ⟨2, connStd, [9], none⟩] [42]
    let r := if asIs then adopt d.1 d.2 0 (if wrap then some lonStd else none) [1]
             else adoptShallow d.1 d.2 0 (if wrap then some lonStd else none) [1]
    { h := r.1, inputs := [d.2], g := r.2 }
  | _ =>
    let h0 : Heap := [⟨[200, 5, 10, 6, 20, 7], []⟩]
    let r := build h0 [⟨0, lonStd, [7], none⟩, ⟨1, latRaw, [8], none⟩, ⟨2, connStd, [9], none⟩] [42] [1]
    { h := r.1, inputs := [0], g := r.2 }

/-- the heap before construction (the caller's objects only) for the read-only verdict -/
def inputsBefore (kind flags : Nat) : Heap :=
  let s := buildOp false kind flags
  -- inputs are allocated first and the repaired constructor only appends: a prefix of the final heap
  s.h.take (match kind with | 0 => 3 | 1 => 11 | 2 => 11 | _ => 1)

def mutOf (kind var step : Nat) : Mut :=
  let d : List Int := [1000 + step]
  match kind with
  | 0 => .setVar var d d
  | 1 => .writeVar var d
  | 2 => .rebind var d
  | 3 => .varAttr var d
  | 4 => .dsAttr d
  | 5 => .delVar var
  | _ => .writeRoot d

/-- kinds 0–6: dataset mutators; 7 fill the cache `var`, 8 switch it in place, 9 drop it (grid roots only) -/
def actsOf (onGrid : Bool) (kind var step : Nat) : List Act :=
  let d : List Int := [2000 + step]
  if onGrid then
    match kind with
    | 7 => (CacheOp.fill var d).acts
    | 8 => (CacheOp.switch var d).acts
    | 9 => (CacheOp.drop var).acts
    | _ => (mutOf kind var step).actsGrid
  else (mutOf kind var step).actsDs

def optFrame (h h' : Heap) : Option Nat → Nat
  | some r => fcode (frameJ h h' r)
  | none => 3

/-- one mutation step by `side` (0 grid, 1 copy, 2 export, 3 first input); answers, for each of
    grid / copy / export / first input, whether everything it reaches is unchanged -/
def stepOp (s : St) (side kind var step : Nat) : St × List Nat :=
  let h' := match side with
    | 0 => runActs s.h s.g (actsOf true kind var step)
    | 1 => match s.c with | some c => runActs s.h c (actsOf true kind var step) | none => s.h
    | 2 => match s.e with | some e => runActs s.h e (actsOf false kind var step) | none => s.h
    | _ => match s.inputs.head? with | some i => runActs s.h i (actsOf false kind var step) | none => s.h
  ({ s with h := h' },
   [optFrame s.h h' (some s.g), optFrame s.h h' s.c, optFrame s.h h' s.e, optFrame s.h h' s.inputs.head?])

def steps (s : St) : Nat → List (Nat × Nat × Nat) → List (List Nat)
  | _, [] => []
  | i, (side, kind, var) :: l =>
    let r := stepOp s side kind var i
    r.2 :: steps r.1 (i + 1) l

def triple : P (Nat × Nat × Nat) := do
  let a ← nat; let b ← nat; let c ← nat
  pure (a, b, c)

def preSteps (s : St) : Nat → List (Nat × Nat × Nat) → St
  | _, [] => s
  | i, (_, kind, var) :: l => preSteps { s with h := runActs s.h s.g (actsOf true kind var (500 + i)) } (i + 1) l

/-- `pre`: what happens to the grid BEFORE it is copied / exported (derivations, cache fills) -/
def modelRun (asIs : Bool) (kind flags copyApi exportApi : Nat) (pre prog : List (Nat × Nat × Nat)) : String :=
  let before := inputsBefore kind flags
  let sb := buildOp asIs kind flags
  let ro := sb.inputs.map fun i => fcode (frameJ before sb.h i)
  let s0 := preSteps sb 0 pre
  let (s1, jc) := match copyApiOf copyApi with
    | some api => let r := copyOp asIs api s0.h s0.g
                  ({ s0 with h := r.1, c := some r.2 }, vcode (judge r.1 s0.g r.2))
    | none => (s0, 3)
  -- exporting must not modify the grid either
  let (s2, je, fe) := match exportApiOf exportApi with
    | some api => let r := exportOp asIs api s1.h s1.g
                  ({ s1 with h := r.1, e := some r.2 }, vcode (judge r.1 s1.g r.2), 0)
    | none => (s1, 3, 3)
  let st := steps s2 0 prog
  let wf := if wfB s2.h then 1 else 0
  s!"{encNats ro} {jc} {je} {fe} {wf} " ++ " ".intercalate (st.map encNats)

def handle (cmd : String) (args : List Int) : Option String :=
  match cmd with
  | "C19.wf" => do
      let h ← run heapP args
      pure (encBool (wfB h))
  | "C19.judge" => do
      let (h, a, b) ← run (do let h ← heapP; let a ← nat; let b ← nat; pure (h, a, b)) args
      pure (encVerdict (judge h a b))
  | "C19.frame" => do
      let (h, h', r) ← run (do let h ← heapP; let h' ← heapP; let r ← nat; pure (h, h', r)) args
      pure (encFrame (frameJ h h' r))
  | "C19.model" => do
      let (m, k, f, ca, ea, pre, prog) ← run (do
        let m ← nat; let k ← nat; let f ← nat; let ca ← int; let ea ← int
        let pre ← list triple
        let prog ← list triple
        pure (m, k, f, ca, ea, pre, prog)) args
      pure (modelRun (m != 0) k f (if ca < 0 then 99 else ca.toNat) (if ea < 0 then 99 else ea.toNat) pre prog)
  | _ => none

end UxVerif.Driver.C19
