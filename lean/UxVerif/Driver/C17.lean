import UxVerif.Model.Proto
import UxVerif.Model.Aggregate
import UxVerif.Model.Edges

namespace UxVerif.Driver.C17
open UxVerif UxVerif.Proto UxVerif.Aggregate

/-- exact integer reductions used to compare the model with the implementation -/
def redOf (op : Nat) : List Int → Int
  | l => match op with
    | 0 => l.foldl (· + ·) 0                       -- sum
    | 1 => l.foldl (· * ·) 1                       -- prod
    | 2 => l.foldl min (l.headD 0)                 -- min
    | 3 => l.foldl max (l.headD 0)                 -- max
    | 4 => if l.all (· != 0) then 1 else 0         -- all
    | _ => if l.any (· != 0) then 1 else 0         -- any

def partsP : P Parts := do
  let c ← nats; let p ← nats; let s ← nats
  pure { change := c, perm := p, sizes := s }

def dataOf (d : List Int) : Int → Int := fun i => if i < 0 then 0 else d.getD i.toNat 0

def encOpt (l : List (Option Int)) : String :=
  " ".intercalate ((toString l.length) :: l.map (fun o => match o with | none => "n" | some v => toString v))

def centreOf : Nat → Centre | 0 => .node | 1 => .edge | 2 => .face | _ => .other
def destOf : Nat → Dest | 0 => .node | 1 => .edge | 2 => .face | 3 => .none | _ => .bad
def outcomeCode : Outcome → String
  | .toFace => "toFace" | .toEdge => "toEdge" | .valueError => "ValueError"
  | .notImplemented => "NotImplementedError"

/-! exact rational protocol: a value is `num den`; `den = 0` marks a non-finite output -/
def ratP : P Rat := do let a ← int; let b ← nat; if b = 0 then failure else pure (mkRat a b)
def oratP : P (Option Rat) := do let a ← int; let b ← nat; pure (if b = 0 then none else some (mkRat a b))
def dataQ (d : List Rat) : Int → Rat := fun i => if i < 0 then 0 else d.getD i.toNat 0

def redCode : Nat → Option Red
  | 0 => some .mean | 1 => some .max | 2 => some .min | 3 => some .prod | 4 => some .sum
  | 5 => some .std | 6 => some .var | 7 => some .median | 8 => some .all | 9 => some .any
  | _ => none

def encORat (l : List (Option Rat)) : String :=
  " ".intercalate ((toString l.length) :: l.map (fun o => match o with
    | none => "0 0" | some v => s!"{v.num} {v.den}"))

/-- index of the first rejected element (for the report), `-1` if none -/
def firstBad (op : Red) (ddof : Nat) (rows : List (List Rat)) (out : List (Option Rat)) : Int :=
  match ((rows.zip out).zipIdx.find? (fun ryi => !(judgeRows op ddof [ryi.1.1] [ryi.1.2]))) with
  | some ryi => Int.ofNat ryi.2
  | none => -1

def handle (cmd : String) (args : List Int) : Option String :=
  match cmd with
  | "C17.parts" => do
      let (nf, N, p) ← run (do let nf ← nat; let N ← nats; let p ← partsP; pure (nf, N, p)) args
      pure (encBool (decide (PartsOK nf N p)))
  | "C17.sorts" => do
      let (N, perm) ← run (do let N ← nats; let p ← nats; pure (N, p)) args
      pure (encBool (decide (SortsBy N perm)))
  | "C17.modelparts" => do
      let (N, perm) ← run (do let N ← nats; let p ← nats; pure (N, p)) args
      let p := partsOf N perm
      pure s!"{encNats p.change} {encNats p.sizes}"
  | "C17.face" => do
      let (op, t, p, d) ← run (do let op ← nat; let t ← rows; let p ← partsP; let d ← ints; pure (op, t, p, d)) args
      pure (encOpt (aggFace (redOf op) (dataOf d) t p))
  | "C17.ref" => do
      let (op, t, N, d) ← run (do let op ← nat; let t ← rows; let N ← nats; let d ← ints; pure (op, t, N, d)) args
      pure (encOpt (faceRef (redOf op) (dataOf d) t N))
  | "C17.edge" => do
      let (op, E, d) ← run (do let op ← nat; let E ← pairs; let d ← ints; pure (op, E, d)) args
      pure (encInts (aggEdge (redOf op) (dataOf d) E))
  | "C17.qface" => do
      -- verdict on a node→face result: the rows are the values on each face's real corners;
      -- plus the model's partition loop on the real partition arrays
      let (opc, ddof, t, p, d, out) ← run (do
        let op ← nat; let dd ← nat; let t ← rows; let p ← partsP; let d ← list ratP; let o ← list oratP
        pure (op, dd, t, p, d, o)) args
      let op ← redCode opc
      let ref := cornerRows (dataQ d) t
      let loop := loopRows (dataQ d) t p
      let verdict := judgeRows op ddof ref out
      let same := decide (loop = ref.map some)
      let vals := ref.map (core op ddof)
      pure s!"{encBool verdict} {encBool same} {firstBad op ddof ref out} {encORat vals}"
  | "C17.qref" => do
      let (opc, ddof, t, d, out) ← run (do
        let op ← nat; let dd ← nat; let t ← rows; let d ← list ratP; let o ← list oratP
        pure (op, dd, t, d, o)) args
      let op ← redCode opc
      let ref := cornerRows (dataQ d) t
      pure s!"{encBool (judgeRows op ddof ref out)} {firstBad op ddof ref out} {encORat (ref.map (core op ddof))}"
  | "C17.qedge" => do
      let (opc, ddof, E, d, out) ← run (do
        let op ← nat; let dd ← nat; let E ← pairs; let d ← list ratP; let o ← list oratP
        pure (op, dd, E, d, o)) args
      let op ← redCode opc
      let ref := edgeRows (dataQ d) E
      pure s!"{encBool (judgeRows op ddof ref out)} {firstBad op ddof ref out} {encORat (ref.map (core op ddof))}"
  | "C17.qrow" => do
      -- one row: exact value, allowance and verdict (used to cross-check the model of the
      -- reductions against NumPy applied to the same row)
      let (opc, ddof, row, y) ← run (do
        let op ← nat; let dd ← nat; let r ← list ratP; let y ← oratP; pure (op, dd, r, y)) args
      let op ← redCode opc
      let acc := match y with | some y => accepts op ddof row y | none => false
      let tl := tol op ddof row
      pure s!"{encBool acc} {encORat [core op ddof row]} {tl.num} {tl.den}"
  | "C17.subtable" => do
      -- the sub-grid table the model derives: selected parent rows, nodes renumbered
      let (t, idx, ren) ← run (do let t ← rows; let i ← nats; let r ← ints; pure (t, i, r)) args
      let renF : Int → Int := fun x => if x < 0 then FILL else ren.getD x.toNat FILL
      pure (encRows (subTable t idx renF))
  | "C17.hyps" => do
      -- the hypotheses of the end-to-end theorems on the REAL tables: the face table is in standard
      -- form (`StdForm`), every edge joins two real nodes that are consecutive corners of some
      -- face (C02's `EdgesSound`)
      let (n, w, t, E) ← run (do let n ← nat; let w ← nat; let t ← rows; let E ← pairs; pure (n, w, t, E)) args
      pure s!"{encBool (decide (Edges.StdForm n w t))} {encBool (decide (Edges.EdgesSound t E))}"
  | "C17.dispatch" => do
      let (c, d) ← run (do let c ← nat; let d ← nat; pure (c, d)) args
      pure (outcomeCode (dispatch (centreOf c) (destOf d)))
  | _ => none

end UxVerif.Driver.C17
