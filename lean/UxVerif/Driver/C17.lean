import UxVerif.Model.Proto
import UxVerif.Model.Aggregate

namespace UxVerif.Driver.C17
open UxVerif UxVerif.Proto UxVerif.Aggregate

/-- exact integer reductions used to compare the model with the implementation -/
def redOf (op : Nat) : List Int → Int
  | l => match op with
    | 0 => l.foldl (· + ·) 0                       -- sum
    | 1 => l.foldl (· * ·) 1                       -- prod
    | 2 => l.foldl min (l.headD 0)                 -- min
    | 3 => l.foldl max (l.headD 0)                 -- max
    | 4 => if l.all (· != 0) then 1 else 0         -- all
    | _ => if l.any (· != 0) then 1 else 0         -- any

def partsP : P Parts := do
  let c ← nats; let p ← nats; let s ← nats
  pure { change := c, perm := p, sizes := s }

def dataOf (d : List Int) : Int → Int := fun i => if i < 0 then 0 else d.getD i.toNat 0

def encOpt (l : List (Option Int)) : String :=
  " ".intercalate ((toString l.length) :: l.map (fun o => match o with | none => "n" | some v => toString v))

def centreOf : Nat → Centre | 0 => .node | 1 => .edge | 2 => .face | _ => .other
def destOf : Nat → Dest | 0 => .node | 1 => .edge | 2 => .face | 3 => .none | _ => .bad
def outcomeCode : Outcome → String
  | .toFace => "toFace" | .toEdge => "toEdge" | .valueError => "ValueError"
  | .notImplemented => "NotImplementedError"

def handle (cmd : String) (args : List Int) : Option String :=
  match cmd with
  | "C17.parts" => do
      let (nf, N, p) ← run (do let nf ← nat; let N ← nats; let p ← partsP; pure (nf, N, p)) args
      pure (encBool (decide (PartsOK nf N p)))
  | "C17.sorts" => do
      let (N, perm) ← run (do let N ← nats; let p ← nats; pure (N, p)) args
      pure (encBool (decide (SortsBy N perm)))
  | "C17.modelparts" => do
      let (N, perm) ← run (do let N ← nats; let p ← nats; pure (N, p)) args
      let p := partsOf N perm
      pure s!"{encNats p.change} {encNats p.sizes}"
  | "C17.face" => do
      let (op, t, p, d) ← run (do let op ← nat; let t ← rows; let p ← partsP; let d ← ints; pure (op, t, p, d)) args
      pure (encOpt (aggFace (redOf op) (dataOf d) t p))
  | "C17.ref" => do
      let (op, t, N, d) ← run (do let op ← nat; let t ← rows; let N ← nats; let d ← ints; pure (op, t, N, d)) args
      pure (encOpt (faceRef (redOf op) (dataOf d) t N))
  | "C17.edge" => do
      let (op, E, d) ← run (do let op ← nat; let E ← pairs; let d ← ints; pure (op, E, d)) args
      pure (encInts (aggEdge (redOf op) (dataOf d) E))
  | "C17.dispatch" => do
      let (c, d) ← run (do let c ← nat; let d ← nat; pure (c, d)) args
      pure (outcomeCode (dispatch (centreOf c) (destOf d)))
  | _ => none

end UxVerif.Driver.C17
