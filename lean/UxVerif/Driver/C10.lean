import UxVerif.Model.Proto
import UxVerif.Model.UxdaAlgebra

/-!
  Driver for C10.  Encodings (all integers):
  * dim      0 node, 1 edge, 2 face, 3+k other k
  * dims     `n (dim len)*`
  * state    `nheap (node edge face store)*  isUx grid(-1 = None) dims`
  * table    15 path codes (0 replace, 1 copy, 2 plainCtor, 3 classCtor) in `XKind` order
  * op       opcode + parameters, see `opP`
-/
namespace UxVerif.Driver.C10
open UxVerif UxVerif.Proto UxVerif.UxdaAlgebra

def dimOf (n : Nat) : Dim :=
  match n with
  | 0 => .node | 1 => .edge | 2 => .face | k + 3 => .other k

def dimCode : Dim → Nat
  | .node => 0 | .edge => 1 | .face => 2 | .other k => k + 3

def dimP : P Dim := do return dimOf (← nat)
def dimsP : P Dims := list (do let d ← dimP; let n ← nat; pure (d, n))
def countsP : P Counts := do let a ← nat; let b ← nat; let c ← nat; pure ⟨a, b, c⟩

def stateP : P State := do
  let h ← list (do let c ← countsP; let st ← nat; pure (⟨c, st⟩ : GridRec))
  let u ← bool
  let g ← int
  let ds ← dimsP
  pure ⟨h, ⟨u, if g < 0 then none else some g.toNat, ds⟩⟩

def kindOf : Nat → Option XKind
  | 0 => some .arith | 1 => some .ufunc | 2 => some .whereOp | 3 => some .clip | 4 => some .fillna
  | 5 => some .astype | 6 => some .indexOther | 7 => some .indexGrid | 8 => some .reduce
  | 9 => some .cumulative | 10 => some .rolling | 11 => some .transpose | 12 => some .rename
  | 13 => some .assignCoords | 14 => some .concat | _ => none

def kindCode : XKind → Nat
  | .arith => 0 | .ufunc => 1 | .whereOp => 2 | .clip => 3 | .fillna => 4 | .astype => 5
  | .indexOther => 6 | .indexGrid => 7 | .reduce => 8 | .cumulative => 9 | .rolling => 10
  | .transpose => 11 | .rename => 12 | .assignCoords => 13 | .concat => 14

def allKinds : List XKind :=
  [.arith, .ufunc, .whereOp, .clip, .fillna, .astype, .indexOther, .indexGrid, .reduce, .cumulative,
   .rolling, .transpose, .rename, .assignCoords, .concat]

def pathOf : Nat → Option Path
  | 0 => some .replace | 1 => some .copy | 2 => some .plainCtor | 3 => some .classCtor | _ => none

def pathCode : Path → Nat
  | .replace => 0 | .copy => 1 | .plainCtor => 2 | .classCtor => 3

def kindP : P XKind := do
  match kindOf (← nat) with
  | some k => pure k
  | none => failure

def tableP : P UxdaAlgebra.Table := do
  let l ← many nat 15
  match l.mapM pathOf with
  | some ps => pure (fun k => ps.getD (kindCode k) .replace)
  | none => failure

def copyApiOf : Nat → Option CopyApi
  | 0 => some .default | 1 => some .deepTrue | 2 => some .deepFalse | 3 => some .data
  | 4 => some .deepTrueData | 5 => some .deepFalseData | 6 => some .pyCopy | 7 => some .pyDeepcopy
  | _ => none

def allCopyApis : List CopyApi :=
  [.default, .deepTrue, .deepFalse, .data, .deepTrueData, .deepFalseData, .pyCopy, .pyDeepcopy]

def elemOf : Nat → Option Elem
  | 0 => some .node | 1 => some .edge | 2 => some .face | _ => none

def aggOf : Nat → Option Agg
  | 0 => some .mean | 1 => some .max | 2 => some .min | 3 => some .prod | 4 => some .sum
  | 5 => some .std | 6 => some .var | 7 => some .median | 8 => some .all | 9 => some .any | _ => none

def elemP : P Elem := do
  match elemOf (← nat) with
  | some e => pure e
  | none => failure

/-- a public uxarray call: `code params…` (see `uxCallNames` for the codes) -/
def uxCallP : P UxCall := do
  match (← nat) with
  | 0 => do let g ← nat; let e ← elemP; return .remapNN g e
  | 1 => do let g ← nat; let e ← elemP; return .remapIDW g e
  | 2 => do
      let a ← nat; let e ← elemP
      match aggOf a with
      | some ag => return .topo ag e
      | none => failure
  | 3 => pure .gradient
  | 4 => pure .difference
  | 5 => pure .integrate
  | 6 => do let e ← elemP; let c ← countsP; return .isel e c
  | 7 => do let e ← elemP; let c ← countsP; return .subsetNN e c
  | 8 => do let e ← elemP; let c ← countsP; return .subsetCircle e c
  | 9 => do let e ← elemP; let c ← countsP; return .subsetBox e c
  | 10 => do let c ← countsP; return .crossSectionLat c
  | 11 => do let b ← bool; let c ← countsP; return .getDual b c
  | 12 => do let c ← countsP; return .getDualR c
  | _ => failure

/-- names of the public calls of the model's table, in code order (compared by the harness with the
    constructor sites it finds in the source) -/
def uxCallNames : List String :=
  ["remap.nearest_neighbor", "remap.inverse_distance_weighted", "topological_*", "gradient", "difference",
   "integrate", "isel", "subset.nearest_neighbor", "subset.bounding_circle", "subset.bounding_box",
   "cross_section.constant_latitude", "get_dual", "get_dual(repaired)"]

def opP : P Op := do
  match (← nat) with
  | 0 => do return .elem (← kindP)
  | 1 => do let k ← kindP; let d ← nat; return .along k d
  | 2 => do
      let d ← dimP; let n ← int
      return .index d (if n < 0 then .drop else .len n.toNat)
  | 3 => do return .reduce (← list dimP)
  | 4 => do return .transpose (← dimsP)
  | 5 => do let a ← nat; let b ← nat; return .renameDim a b
  | 6 => pure .renameName
  | 7 => do let a ← nat; let b ← nat; return .concatAlong a b
  | 8 => do let a ← nat; let b ← nat; return .concatNew a b
  | 9 => do let a ← bool; let b ← bool; return .copy a b
  | 10 => do return .gridIsel (← countsP)
  | 11 => pure .integrate
  | 12 => pure .gradient
  | 13 => pure .difference
  | 14 => do return .topoAgg (← dimP)
  | 15 => do let g ← nat; let d ← dimP; return .remap g d
  | 16 => do let c ← bool; let k ← countsP; return .getDual c k
  | 17 => do let k ← nat; let l ← bool; return .expandDims k l
  | 19 => do return (← uxCallP).op
  | 18 => do
      let a ← nat; let f ← bool
      match copyApiOf a with
      | some api => return Op.ofCopy api f
      | none => failure
  | _ => failure

def encDims (ds : Dims) : String :=
  " ".intercalate (toString ds.length :: ds.map (fun p => s!"{dimCode p.1} {p.2}"))

def encState (s : State) : String :=
  let h := " ".intercalate (toString s.heap.length ::
    s.heap.map (fun r => s!"{r.counts.node} {r.counts.edge} {r.counts.face} {r.store}"))
  let g : Int := match s.arr.grid with | some g => g | none => -1
  s!"{h} {encBool s.arr.isUx} {g} {encDims s.arr.dims}"

def handle (cmd : String) (args : List Int) : Option String :=
  match cmd with
  | "C10.step" => do
      let (t, s, op) ← run (do let t ← tableP; let s ← stateP; let op ← opP; pure (t, s, op)) args
      match step t s op with
      | some s' => pure ("some " ++ encState s')
      | none => pure "none"
  | "C10.run" => do
      let (t, s, p) ← run (do let t ← tableP; let s ← stateP; let p ← list opP; pure (t, s, p)) args
      match UxdaAlgebra.run t s p with
      | some s' => pure ("some " ++ encState s')
      | none => pure "none"
  | "C10.spec" => do
      let (s, op, s', xd) ← run (do
        let s ← stateP; let op ← opP; let s' ← stateP; let xd ← dimsP; pure (s, op, s', xd)) args
      let fl := failing s op s' xd
      pure (if fl.isEmpty then "ok" else "fail " ++ ",".intercalate fl)
  | "C10.inv" => do
      let s ← run stateP args
      pure (encBool (attachedB s))
  | "C10.normidx" => do
      -- `n form payload`: form 0 = integers `len v…`; 1 = mask `len b…`; 2 = slice `hasStart start hasStop stop step`
      let (n, idx) ← run (do
        let n ← nat
        let idx ← (do
          match (← nat) with
          | 0 => do return Idx.ints (← ints)
          | 1 => do return Idx.mask ((← ints).map (· != 0))
          | 2 => do
              let hs ← bool; let a ← int; let he ← bool; let b ← int; let st ← int
              return Idx.slice (if hs then some a else none) (if he then some b else none) st
          | _ => failure : P Idx)
        pure (n, idx)) args
      match normIdx n idx with
      | some l => pure ("some " ++ encNats l)
      | none => pure "none"
  | "C10.uxcalls" => do
      run (pure ()) args
      pure (" ".intercalate uxCallNames)
  | "C10.copydeep" => do
      run (pure ()) args
      pure (encNats (allCopyApis.map (fun a => if a.deep then 1 else 0)))
  | "C10.asis" => do
      run (pure ()) args
      pure (encNats (allKinds.map (fun k => pathCode (asIs k))))
  | "C10.cover" => do
      -- is the step inside the hypotheses of `program_inv` for this table / of the as-is partial theorem
      let (t, op) ← run (do let t ← tableP; let op ← opP; pure (t, op)) args
      let good := match op.kind with | some k => (t k).good | none => true
      pure s!"{encBool (Scoped op)} {encBool good} {encBool (safeAsIs op)} {encBool op.sameGrid} {encBool op.isX}"
  | _ => none

end UxVerif.Driver.C10
