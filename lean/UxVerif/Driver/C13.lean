import UxVerif.Model.Proto
import UxVerif.Model.Bounds

/-
  Driver for C13.  One request judges one face:

    C13.judge variant k tol margin n  (lon lat x y z)×n  (x y z)×n  latLo latHi lonLo lonHi

  (`tol`: tolerance of the five clauses in radians — 1e-9 for float64 / integer coordinates, scaled to
   float32 round-off for float32 coordinates; `margin`: smallest pole determinant that counts as inside)

  * `(lon lat x y z)×n` — the corners as the implementation sees them (grid arrays; longitude
    already reduced by `np.mod(·, 2π)`), fed to the Lean transcription `faceBounds` (run at `Float`);
  * `(x y z)×n` — the corners as the harness generated them, fed to the independent oracle
    `Oracle.judge`, which decides the five clauses of the property on the implementation's box
    (`latLo … lonHi`) and on the model's box.

  Answer (all integers; floats as IEEE bit patterns):
    hasN hasS  mLatLo mLatHi mLonLo mLonHi  failsImpl failsModel  poleN poleS
    needLatLo needLatHi needLonLo needLonHi
-/
namespace UxVerif.Driver.C13
open UxVerif UxVerif.Proto UxVerif.Bounds

def nan : Float := 0.0 / 0.0

def consts : Consts Float := { halfPi := Oracle.halfPi, twoPi := Oracle.twoPi, norm := id }

/-- `np.isclose(a, b, rtol=1e-5, atol=1e-8)` -/
def isclose (a b : Float) : Bool := Float.abs (a - b) <= 1e-8 + 1e-5 * Float.abs b

def fn : Fn Float :=
  { sqrt := Float.sqrt, asin := Float.asin, abs := Float.abs, close := isclose,
    tol := 1e-8, eps := 1e-12,
    normalize := normalizeBy Float.sqrt, samePt := samePtBy isclose,
    nearPt := nearPtBy Float.sqrt 1e-8, atan2 := Float.atan2, pi := Oracle.pi }

def variantOf : Nat → Variant | 0 => .asIs | _ => .repaired

def cornerP : P (Float × Float × V3 Float) := do
  let lon ← float; let lat ← float; let x ← float; let y ← float; let z ← float
  pure (lon, lat, ⟨x, y, z⟩)

def v3P : P (V3 Float) := do
  let x ← float; let y ← float; let z ← float
  pure ⟨x, y, z⟩

def edgesOf (cs : List (Float × Float × V3 Float)) : List (Edge Float) :=
  (Oracle.cyc cs).map fun e =>
    { a := e.1.2.2, b := e.2.2.2, lon1 := e.1.1, lat1 := e.1.2.1, lon2 := e.2.1, lat2 := e.2.2.1 }

def pairOr (o : Option (Float × Float)) : Float × Float := o.getD (nan, nan)

def handle (cmd : String) (args : List Int) : Option String :=
  match cmd with
  | "C13.judge" => do
      let (v, k, tol, margin, cs, os, box) ← run (do
        let v ← nat; let k ← nat; let tol ← float; let margin ← float; let n ← nat
        let cs ← many cornerP n
        let os ← many v3P n
        let a ← float; let b ← float; let c ← float; let d ← float
        pure (v, k, tol, margin, cs, os, (a, b, c, d))) args
      let edges := edgesOf cs
      let fl := poleFlags fn (variantOf v) edges
      let hasN := fl.1
      let hasS := fl.2
      let mb := faceBounds consts fn (variantOf v) edges
      let (mla, mlb) := pairOr mb.lat
      let (mlo, mhi) := pairOr mb.lon
      let vi := Oracle.judge k tol margin os box.1 box.2.1 box.2.2.1 box.2.2.2
      let vm := Oracle.judge k tol margin os mla mlb mlo mhi
      pure (" ".intercalate
        [encBool hasN, encBool hasS, encFloat mla, encFloat mlb, encFloat mlo, encFloat mhi,
         toString vi.fails, toString vm.fails, encFloat vi.poleN, encFloat vi.poleS,
         encFloat vi.latLo, encFloat vi.latHi, encFloat vi.lonLo, encFloat vi.lonHi])
  | "C13.extreme" => do
      -- extreme_gca_latitude on one arc: isMax ax ay az bx by bz
      let (m, a, b) ← run (do let m ← nat; let a ← v3P; let b ← v3P; pure (m, a, b)) args
      pure (encFloat (extremeLat fn consts.halfPi (m != 0) a b))
  | "C13.insert" => do
      -- fold `_insert_pt_in_latlonbox` over points `(kind lat lon)`; kind 0 = at, 1 = north pole, 2 = south pole
      let pts ← run (list (do let k ← nat; let la ← float; let lo ← float; pure (k, la, lo))) args
      let b := pts.foldl (fun b p => insertPt consts b
        (match p.1 with | 0 => Pt.at p.2.1 p.2.2 | 1 => Pt.pole true | _ => Pt.pole false)) Box.empty
      let (la, lb) := pairOr b.lat
      let (lo, hi) := pairOr b.lon
      pure (" ".intercalate [encFloat la, encFloat lb, encFloat lo, encFloat hi])
  | _ => none

end UxVerif.Driver.C13
