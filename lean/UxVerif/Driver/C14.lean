import UxVerif.Model.Proto
import UxVerif.Model.Arcs

/-
  Driver for C14.  Every request carries integers only: points of the sphere as integer
  direction vectors (exact rationals up to a positive scale, which no predicate depends on),
  unit vectors as `X Y Z R` with `X²+Y²+Z² = R²`, floats returned by the implementation as IEEE
  bit patterns which are decoded to the exact (dyadic) rational they denote.  All decisions are
  taken by `UxVerif.Arcs` at `Rat`.
-/
namespace UxVerif.Driver.C14
open UxVerif UxVerif.Proto UxVerif.Arcs

/-- (1e-6)²: the property's margin from every decision boundary, as a squared sine -/
def tolMargin2 : Rat := mkRat 1 (10 ^ 12)
/-- (1e-9)²: tolerance for returned points -/
def tolNear2 : Rat := mkRat 1 (10 ^ 18)

def vecP : P (V3 Rat) := do
  let x ← int; let y ← int; let z ← int
  pure ⟨(x : Rat), (y : Rat), (z : Rat)⟩

/-- `X Y Z R` ↦ the unit vector `(X/R, Y/R, Z/R)`; refuses when `X²+Y²+Z² ≠ R²` or `R ≤ 0` -/
def unitP : P (V3 Rat) := do
  let x ← int; let y ← int; let z ← int; let r ← int
  if r ≤ 0 || x * x + y * y + z * z != r * r then failure
  else pure ⟨mkRat x r.toNat, mkRat y r.toNat, mkRat z r.toNat⟩

/-- the exact rational denoted by a finite IEEE-754 double given by its bit pattern -/
def ratOfBits (n : Nat) : Option Rat :=
  let sign : Nat := n / 2 ^ 63
  let e : Nat := (n / 2 ^ 52) % 2048
  let m : Nat := n % 2 ^ 52
  if e = 2047 then none
  else
    let (mant, ex) : Nat × Int := if e = 0 then (m, -1074) else (2 ^ 52 + m, (e : Int) - 1075)
    let mag : Rat := if ex ≥ 0 then ((mant * 2 ^ ex.toNat : Nat) : Rat) else mkRat mant (2 ^ (-ex).toNat)
    some (if sign = 1 then -mag else mag)

def floatRatP : P Rat := do
  let n ← nat
  match ratOfBits n with
  | some r => pure r
  | none => failure

def fvecP : P (V3 Rat) := do
  let x ← floatRatP; let y ← floatRatP; let z ← floatRatP
  pure ⟨x, y, z⟩

def b2s (b : Bool) : String := if b then "1" else "0"

def ratS (r : Rat) : String := s!"{r.num} {r.den}"

def absR (r : Rat) : Rat := if r < 0 then -r else r

def handle (cmd : String) (args : List Int) : Option String :=
  match cmd with
  /- exact membership: `valid exact class margin` -/
  | "C14.onarc" => do
      let (a, b, p) ← run (do let a ← vecP; let b ← vecP; let p ← vecP; pure (a, b, p)) args
      let valid := decide (ValidArc a b) && decide (p ≠ zero)
      pure s!"{b2s valid} {b2s (decide (OnArc a b p))} {classify a b p} {b2s (onArcMargin tolMargin2 a b p && arcLenMargin tolMargin2 a b)}"
  /- exact intersection of two arcs: `valid diff margin count [x y z]` (direction, integer input
     gives an integer direction) -/
  | "C14.meet" => do
      let (a, b, c, d) ← run (do let a ← vecP; let b ← vecP; let c ← vecP; let d ← vecP; pure (a, b, c, d)) args
      let valid := decide (ValidArc a b) && decide (ValidArc c d)
      let diff := decide (DiffCircles a b c d)
      let l := intersections a b c d
      let pts := " ".intercalate (l.map (fun v => s!"{v.x.num} {v.y.num} {v.z.num}"))
      pure s!"{b2s valid} {b2s diff} {b2s (meetMargin tolMargin2 a b c d && arcLenMargin tolMargin2 a b && arcLenMargin tolMargin2 c d)} {l.length} {pts}".trimAscii.toString
  /- is the returned floating-point point on both arcs up to 1e-9 and of unit length up to 1e-9 -/
  | "C14.near" => do
      let (a, b, c, d, x) ← run (do
        let a ← vecP; let b ← vecP; let c ← vecP; let d ← vecP; let x ← fvecP; pure (a, b, c, d, x)) args
      let fl : List String :=
        (if nearArc tolNear2 a b x then [] else ["on_first_arc"]) ++
        (if nearArc tolNear2 c d x then [] else ["on_second_arc"]) ++
        (if absR (normSq x - 1) ≤ mkRat 1 (10 ^ 9) then [] else ["unit_length"])
      pure (if fl.isEmpty then "ok" else "fail " ++ ",".intercalate fl)
  /- exact extreme latitude of the arc between two unit vectors:
     `valid margin maxApex maxNum maxDen minApex minNum minDen`
     (apex flag 1: the value is sin² of the extreme latitude; 0: it is sin of it) -/
  | "C14.extreme" => do
      let (a, b) ← run (do let a ← unitP; let b ← unitP; pure (a, b)) args
      let mx := extremeMax a b
      let mn := extremeMin a b
      pure s!"{b2s (decide (ValidArc a b))} {b2s (extremeMargin tolMargin2 a b && arcLenMargin tolMargin2 a b)} {b2s mx.1} {ratS mx.2} {b2s mn.1} {ratS mn.2}"
  /- the closed form of the code evaluated exactly: `interior` and whether it agrees with
     ApexInside ∨ NadirInside (theorem `code_dmax_iff`, re-checked on every input) -/
  | "C14.codeform" => do
      let (a, b) ← run (do let a ← unitP; let b ← unitP; pure (a, b)) args
      let den := (a.z + b.z) * (dot a b - 1)
      let ci := decide (den ≠ 0) && decide (codeInterior a b)
      pure s!"{b2s ci} {b2s (decide (ApexInside a b ∨ NadirInside a b))}"
  | _ => none

end UxVerif.Driver.C14
