/-
  C10 — xarray operations keep a UxDataArray attached to a consistent grid.

  Model: `UxVerif.Model.UxdaAlgebra` (abstract array state {isUx, grid slot, named dims}, heap of grid
  objects with element counts and backing-store identity, constructor paths, and the table
  `T : XKind → Path` saying through which path the installed xarray builds the result of each class of
  operation — an OBSERVED parameter: the harness measures it on every run, see harness/c10.py).

  Proved here for ALL tables, heaps, states, operations and programs of ANY length:

  * `step_preserves_inv`           every in-scope operation (`Scoped`) whose class is built through a
                                   re-attaching path (`OpGood`) keeps
                                     Inv s := isUx ∧ ∃ g r, grid = some g ∧ heap[g]? = some r ∧
                                              ∀ (d,len) ∈ dims, d.isGrid → len = r.counts.get d
  * `program_inv`, `program_inv_every_prefix`
                                   hence every program of such operations, and every prefix of it
                                   (induction on the program)
  * `program_inv_good_table`       … every in-scope program when the whole table re-attaches
  * `program_inv_asis_partial`     … and, for the table observed with the installed xarray (`asIs`), every
                                   in-scope program that avoids the six plain-constructor classes.
                                   *_partial*: the full statement (all operations of the property's list)
                                   is FALSE for the code as it stands — `asis_program_inv_false`.
  * `same_grid`, `program_same_grid`
                                   operations other than deep copy / grid-`isel` / remap / `get_dual` return
                                   an array attached to THE SAME grid object and allocate no grid
  * `deep_copy_independent`        a deep copy whose `Grid.copy` allocates its own store: new grid object,
                                   equal counts, store used by no earlier grid, earlier grids untouched,
                                   invariant kept;  `asis_deep_copy_shares_store`: the code as it stands
                                   (same `_ds`) does not meet that, for every state
  * `specB_iff`, `model_meets_spec`
                                   the decidable step specification the driver evaluates on the
                                   IMPLEMENTATION's results reflects `Spec`, and the model meets it under the
                                   same hypotheses (incl. "remap ends on the destination grid" and "shape =
                                   plain xarray's shape")
  * `plain_path_loses_grid`, `class_path_loses_grid`, `lost_stays_lost`
                                   conversely ANY operation built through one of the other two paths breaks
                                   the invariant, under every table, and no xarray operation repairs it
  * `asis_*`                       counterexamples of the code as it stands (regression witnesses; the same
                                   inputs are in corpus/C10 and are replayed on the real code by the harness)

  Not proved (differential test only): which path a public method takes, value equality with plain
  xarray, what `Grid.isel` / `get_dual` build (their element counts enter the model as observed
  parameters of the operation), `Grid.__eq__`.
-/
import UxVerif.Model.UxdaAlgebra

namespace UxVerif.C10
open UxVerif.UxdaAlgebra

/-! ## the invariant -/

def DimsOK (c : Counts) (ds : Dims) : Prop := ∀ p ∈ ds, p.1.isGrid = true → p.2 = c.get p.1

def Attached (s : State) : Prop :=
  ∃ g r, s.arr.grid = some g ∧ s.heap[g]? = some r ∧ DimsOK r.counts s.arr.dims

/-- the property's invariant: a `UxDataArray`, attached to a live grid, whose node / edge / face
    dimensions have that grid's element counts -/
def Inv (s : State) : Prop := s.arr.isUx = true ∧ Attached s

theorem dimsOKB_iff {c : Counts} {ds : Dims} : dimsOKB c ds = true ↔ DimsOK c ds := by
  unfold dimsOKB DimsOK
  simp only [List.all_eq_true, Bool.or_eq_true, Bool.not_eq_true', beq_iff_eq]
  constructor
  · intro h p hp hg
    rcases h p hp with h | h
    · simp [hg] at h
    · exact h
  · intro h p hp
    cases hg : p.1.isGrid
    · exact Or.inl rfl
    · exact Or.inr (h p hp hg)

theorem attachedB_iff {s : State} : attachedB s = true ↔ Inv s := by
  unfold attachedB Inv Attached
  constructor
  · intro h
    simp only [Bool.and_eq_true] at h
    obtain ⟨hu, h⟩ := h
    refine ⟨hu, ?_⟩
    cases hg : s.arr.grid with
    | none => simp [hg] at h
    | some g =>
      simp only [hg] at h
      cases hr : s.heap[g]? with
      | none => simp [hr] at h
      | some r =>
        simp only [hr] at h
        exact ⟨g, r, rfl, hr, dimsOKB_iff.mp h⟩
  · rintro ⟨hu, g, r, hg, hr, hd⟩
    simp [hu, hg, hr, dimsOKB_iff.mpr hd]

/-! ## shape lemmas -/

theorem DimsOK.sub {c : Counts} {ds ds' : Dims} (h : ∀ p ∈ ds', p ∈ ds) (hd : DimsOK c ds) :
    DimsOK c ds' := fun p hp hg => hd p (h p hp) hg

theorem dimsOK_setLen_other {c : Counts} {ds : Dims} {d : Dim} (n : Nat) (hd : d.isGrid = false)
    (h : DimsOK c ds) : DimsOK c (setLen ds d n) := by
  intro p hp hg
  simp only [setLen, List.mem_map] at hp
  obtain ⟨q, hq, rfl⟩ := hp
  by_cases hqd : q.1 = d
  · simp only [hqd, if_true] at hg
    rw [hd] at hg; cases hg
  · simp only [hqd, if_false] at hg ⊢
    exact h q hq hg

theorem dimsOK_renameD_other {c : Counts} {ds : Dims} {d d' : Dim} (hd : d'.isGrid = false)
    (h : DimsOK c ds) : DimsOK c (renameD ds d d') := by
  intro p hp hg
  simp only [renameD, List.mem_map] at hp
  obtain ⟨q, hq, rfl⟩ := hp
  by_cases hqd : q.1 = d
  · simp only [hqd, if_true] at hg
    rw [hd] at hg; cases hg
  · simp only [hqd, if_false] at hg ⊢
    exact h q hq hg

theorem dimsOK_setLast {c : Counts} {ds : Dims} (d : Dim) (h : DimsOK c ds) :
    DimsOK c (setLast ds d (c.get d)) := by
  intro p hp hg
  simp only [setLast, List.mem_append, List.mem_singleton] at hp
  rcases hp with hp | rfl
  · exact h p (List.dropLast_subset _ hp) hg
  · rfl

theorem xdims_ok {c : Counts} {op : Op} {ds ds' : Dims} (hs : Scoped op = true)
    (hx : xdims op ds = some ds') (h : DimsOK c ds) : DimsOK c ds' := by
  cases op with
  | elem k => simp [xdims] at hx; subst hx; exact h
  | along k d =>
    simp only [xdims] at hx
    split at hx
    · cases hx; exact h
    · cases hx
  | index d sel =>
    cases sel with
    | drop =>
      simp only [xdims] at hx
      split at hx
      · cases hx
        exact h.sub (fun p hp => (List.mem_filter.mp hp).1)
      · cases hx
    | len n =>
      simp only [xdims] at hx
      split at hx
      · cases hx
        have hd : d.isGrid = false := by simpa [Scoped] using hs
        exact dimsOK_setLen_other n hd h
      · cases hx
  | reduce l =>
    simp only [xdims] at hx
    split at hx
    · cases hx
      exact h.sub (fun p hp => (List.mem_filter.mp hp).1)
    · cases hx
  | transpose nd =>
    simp only [xdims] at hx
    split at hx
    · rename_i hp
      cases hx
      have hperm := List.isPerm_iff.mp hp
      exact h.sub (fun p hp' => hperm.mem_iff.mp hp')
    · cases hx
  | renameDim k k' =>
    simp only [xdims] at hx
    split at hx
    · cases hx
      exact dimsOK_renameD_other rfl h
    · cases hx
  | renameName => simp [xdims] at hx; subst hx; exact h
  | concatAlong k n =>
    simp only [xdims] at hx
    split at hx
    · cases hx
      exact dimsOK_setLen_other n rfl h
    · cases hx
  | concatNew k n =>
    simp only [xdims] at hx
    split at hx
    · cases hx
    · cases hx
      intro p hp hg
      rcases List.mem_cons.mp hp with rfl | hp
      · cases hg
      · exact h p hp hg
  | expandDims k last =>
    simp only [xdims] at hx
    split at hx
    · cases hx
    · cases hx
      intro p hp hg
      cases last with
      | false =>
        rcases List.mem_cons.mp hp with rfl | hp
        · cases hg
        · exact h p hp hg
      | true =>
        simp only [if_true, List.mem_append, List.mem_singleton] at hp
        rcases hp with hp | rfl
        · exact h p hp hg
        · cases hg
  | copy deep fresh => simp [xdims] at hx; subst hx; exact h
  | gridIsel c => simp [xdims] at hx
  | integrate => simp [xdims] at hx
  | gradient => simp [xdims] at hx
  | difference => simp [xdims] at hx
  | topoAgg d => simp [xdims] at hx
  | remap g d => simp [xdims] at hx
  | getDual cl c => simp [xdims] at hx
  | getDualR c => simp [xdims] at hx

/-! ## one step -/

/-- the operation is in scope and (if it is an xarray operation) its class is built through a path
    that re-attaches the grid -/
def OpGood (T : Table) (op : Op) : Prop :=
  Scoped op = true ∧ ∀ k, op.kind = some k → (T k).good = true

theorem build_good {p : Path} {a : Arr} {ds : Dims} (hp : p.good = true) (ha : a.isUx = true) :
    build p a ds = ⟨true, a.grid, ds⟩ := by
  cases p <;> simp_all [build, Path.good]

theorem cur_some {s : State} {g : Nat} {r : GridRec} (h : cur s = some (g, r)) :
    s.arr.isUx = true ∧ s.arr.grid = some g ∧ s.heap[g]? = some r := by
  unfold cur at h
  split at h
  · rename_i hu
    split at h
    · rename_i g' hg
      cases hr : s.heap[g']? with
      | none => simp [hr] at h
      | some r' =>
        simp [hr] at h
        obtain ⟨rfl, rfl⟩ := h
        exact ⟨hu, hg, hr⟩
    · cases h
  · cases h

theorem cur_of_inv {s : State} (h : Inv s) :
    ∃ g r, cur s = some (g, r) ∧ DimsOK r.counts s.arr.dims := by
  obtain ⟨hu, g, r, hg, hr, hd⟩ := h
  exact ⟨g, r, by simp [cur, hu, hg, hr], hd⟩

theorem stepX_inv {T : Table} {s s' : State} {op : Op} (hg : OpGood T op) (hi : Inv s)
    (h : stepX T s op = some s') : Inv s' := by
  obtain ⟨hu, g, r, hgr, hr, hd⟩ := hi
  unfold stepX at h
  split at h
  · rename_i k ds hk hx
    cases h
    rw [build_good (hg.2 k hk) hu]
    exact ⟨rfl, g, r, hgr, hr, xdims_ok hg.1 hx hd⟩
  · cases h

theorem heap_append_last (h : Heap) (r : GridRec) : (h ++ [r])[h.length]? = some r := by
  simp

theorem heap_append_old {h : Heap} {g : Nat} {r q : GridRec} (hg : h[g]? = some r) :
    (h ++ [q])[g]? = some r := by
  have hl : g < h.length := by
    rcases Nat.lt_or_ge g h.length with hl | hl
    · exact hl
    · rw [List.getElem?_eq_none hl] at hg; cases hg
  rw [List.getElem?_append_left hl]; exact hg

theorem centred_only {ds : Dims} {d : Dim} (hc : centred ds = some d) :
    ∀ p ∈ ds, p.1.isGrid = true → p.1 = d := by
  intro p hp hg
  unfold centred at hc
  split at hc
  · rename_i q hq
    cases hc
    have : p ∈ ds.filter (fun p => p.1.isGrid) := List.mem_filter.mpr ⟨hp, hg⟩
    rw [hq] at this
    simp at this
    rw [this]
  · cases hc

theorem centred_isGrid {ds : Dims} {d : Dim} (hc : centred ds = some d) : d.isGrid = true := by
  unfold centred at hc
  split at hc
  · rename_i q hq
    cases hc
    have : q ∈ ds.filter (fun p => p.1.isGrid) := by rw [hq]; simp
    exact (List.mem_filter.mp this).2
  · cases hc

/-- when the last dimension is the only grid dimension, the leading ones are not grid dimensions -/
theorem leading_not_grid {ds : Dims} {d : Dim} {n : Nat} (hc : centred ds = some d)
    (hl : ds.getLast? = some (d, n)) (hd : d.isGrid = true) :
    ∀ p ∈ ds.dropLast, p.1.isGrid = false := by
  intro p hp
  have hds : ds.dropLast ++ [(d, n)] = ds := by
    obtain ⟨ys, rfl⟩ := List.getLast?_eq_some_iff.mp hl
    simp
  unfold centred at hc
  split at hc
  · rename_i q hq
    rw [← hds, List.filter_append] at hq
    simp only [List.filter_cons, hd, if_true, List.filter_nil] at hq
    have hnil : ds.dropLast.filter (fun p => p.1.isGrid) = [] := by
      cases hf : ds.dropLast.filter (fun p => p.1.isGrid) with
      | nil => rfl
      | cons a l => rw [hf] at hq; simp at hq
    cases hpg : p.1.isGrid with
    | false => rfl
    | true =>
      have : p ∈ ds.dropLast.filter (fun p => p.1.isGrid) := List.mem_filter.mpr ⟨hp, hpg⟩
      rw [hnil] at this; cases this
  · cases hc

theorem lastIs_eq {s : State} {r : GridRec} {d : Dim} (h : lastIs s r d = true) :
    s.arr.dims.getLast? = some (d, r.counts.get d) := by
  simpa [lastIs] using h

/-- **Every in-scope operation built through a re-attaching path keeps the invariant.** -/
theorem step_preserves_inv {T : Table} {s s' : State} {op : Op} (hg : OpGood T op) (hi : Inv s)
    (h : step T s op = some s') : Inv s' := by
  have hi' := hi
  obtain ⟨g, r, hc, hd⟩ := cur_of_inv hi
  obtain ⟨hu, hgr, hr⟩ := cur_some hc
  cases op with
  | elem k => exact stepX_inv hg hi' (by simpa [step] using h)
  | along k d => exact stepX_inv hg hi' (by simpa [step] using h)
  | index d sel => exact stepX_inv hg hi' (by simpa [step] using h)
  | reduce l => exact stepX_inv hg hi' (by simpa [step] using h)
  | transpose nd => exact stepX_inv hg hi' (by simpa [step] using h)
  | renameDim k k' => exact stepX_inv hg hi' (by simpa [step] using h)
  | renameName => exact stepX_inv hg hi' (by simpa [step] using h)
  | concatAlong k n => exact stepX_inv hg hi' (by simpa [step] using h)
  | concatNew k n => exact stepX_inv hg hi' (by simpa [step] using h)
  | expandDims k l => exact stepX_inv hg hi' (by simpa [step] using h)
  | copy deep fresh =>
    cases deep with
    | false =>
      simp only [step] at h
      cases h
      rw [build_good rfl hu]
      exact ⟨rfl, g, r, hgr, hr, hd⟩
    | true =>
      simp only [step, hu, hc, if_true] at h
      cases h
      exact ⟨rfl, s.heap.length, _, rfl, heap_append_last _ _, hd⟩
  | gridIsel c =>
    simp only [step, hc] at h
    split at h
    · rename_i x d hx hcd
      cases h
      refine ⟨rfl, s.heap.length, _, rfl, heap_append_last _ _, ?_⟩
      intro p hp hpg
      simp only [setLen, List.mem_map] at hp
      obtain ⟨q, hq, rfl⟩ := hp
      by_cases hqd : q.1 = d
      · simp [hqd]
      · simp only [hqd, if_false] at hpg
        exact absurd (centred_only hcd q hq hpg) hqd
    · cases h
  | integrate =>
    simp only [step, hc] at h
    split at h
    · cases h
      exact ⟨rfl, g, r, rfl, hr, hd.sub (fun p hp => List.dropLast_subset _ hp)⟩
    · cases h
  | gradient =>
    simp only [step, hc] at h
    split at h
    · cases h
      exact ⟨rfl, g, r, rfl, hr, dimsOK_setLast .edge hd⟩
    · cases h
  | difference =>
    simp only [step, hc] at h
    split at h
    · cases h
      exact ⟨rfl, g, r, rfl, hr, dimsOK_setLast .edge hd⟩
    · cases h
  | topoAgg dest =>
    simp only [step, hc] at h
    split at h
    · cases h
      exact ⟨rfl, g, r, rfl, hr, dimsOK_setLast dest hd⟩
    · cases h
  | remap g2 dest =>
    simp only [step, hc] at h
    split at h
    · rename_i x r2 d hx h2 hcd
      split at h
      · rename_i hcond
        cases h
        simp only [Bool.and_eq_true] at hcond
        refine ⟨rfl, g2, r2, rfl, h2, ?_⟩
        intro p hp hpg
        simp only [setLast, List.mem_append, List.mem_singleton] at hp
        rcases hp with hp | rfl
        · have := leading_not_grid hcd (lastIs_eq hcond.2) (centred_isGrid hcd) p hp
          rw [this] at hpg; cases hpg
        · rfl
      · cases h
    · cases h
  | getDual closed c =>
    have hcl : closed = true := by simpa [Scoped] using hg.1
    subst hcl
    simp only [step, hc, if_true] at h
    cases h
    refine ⟨rfl, s.heap.length, _, rfl, heap_append_last _ _, ?_⟩
    intro p hp hpg
    simp only [List.mem_map] at hp
    obtain ⟨q, hq, rfl⟩ := hp
    have hq' := hd q hq
    cases hqd : q.1 with
    | node => simp [hqd, Dim.isGrid] at hq'; simp [Dim.swap, Counts.dual, Counts.get, hq']
    | edge => simp [hqd, Dim.isGrid] at hq'; simp [Dim.swap, Counts.dual, Counts.get, hq']
    | face => simp [hqd, Dim.isGrid] at hq'; simp [Dim.swap, Counts.dual, Counts.get, hq']
    | other k => simp [hqd, Dim.swap, Dim.isGrid] at hpg
  | getDualR c =>
    simp only [step, hc] at h
    split at h
    · rename_i x d hx hcd
      cases hx
      split at h
      · cases h
      · rename_i hne
        cases h
        refine ⟨rfl, s.heap.length, _, rfl, heap_append_last _ _, ?_⟩
        intro p hp hpg
        simp only [List.mem_map] at hp
        obtain ⟨q, hq, rfl⟩ := hp
        by_cases hqn : q.1 = .node
        · simp [hqn, Counts.get]
        · simp only [hqn, if_false] at hpg ⊢
          have hq' := hd q hq
          cases hqd : q.1 with
          | node => exact absurd hqd hqn
          | edge =>
            -- the only grid dimension is `d`, and `d ≠ edge`
            have := centred_only hcd q hq (by simp [hqd, Dim.isGrid])
            rw [hqd] at this
            subst this
            simp at hne
          | face => simp [hqd, Dim.isGrid] at hq'; simp [Dim.swap, Counts.get, hq']
          | other k => simp [hqd, Dim.swap, Dim.isGrid] at hpg
    · cases h


/-! ## programs of any length -/

/-- **The invariant holds after every program**, whatever its length, as long as each operation is
    in scope and built through a re-attaching path.  (By induction on the program; every prefix of
    a program is a program, so the invariant holds after every prefix.) -/
theorem program_inv {T : Table} : ∀ (p : List Op) (s s' : State),
    (∀ op ∈ p, OpGood T op) → Inv s → run T s p = some s' → Inv s'
  | [], s, s', _, hi, h => by simp [run] at h; subst h; exact hi
  | op :: p, s, s', hg, hi, h => by
    simp only [run] at h
    split at h
    · rename_i s1 h1
      exact program_inv p s1 s' (fun o ho => hg o (List.mem_cons_of_mem _ ho))
        (step_preserves_inv (hg op (List.mem_cons_self ..)) hi h1) h
    · cases h

theorem run_append {T : Table} : ∀ (p q : List Op) (s : State),
    run T s (p ++ q) = (run T s p).bind (fun s1 => run T s1 q)
  | [], q, s => by simp [run]
  | op :: p, q, s => by
    simp only [List.cons_append, run]
    cases step T s op with
    | none => rfl
    | some s1 => exact run_append p q s1

/-- … and after EVERY PREFIX of a program that runs to completion -/
theorem program_inv_every_prefix {T : Table} (p q : List Op) (s s' : State)
    (hg : ∀ op ∈ p ++ q, OpGood T op) (hi : Inv s) (h : run T s (p ++ q) = some s') :
    ∃ s1, run T s p = some s1 ∧ Inv s1 := by
  rw [run_append] at h
  cases h1 : run T s p with
  | none => simp [h1] at h
  | some s1 =>
    exact ⟨s1, rfl, program_inv p s s1 (fun op ho => hg op (List.mem_append_left _ ho)) hi h1⟩

/-- every re-attaching table: the property's invariant for ALL in-scope programs -/
theorem program_inv_good_table {T : Table} (hT : ∀ k, (T k).good = true) (p : List Op)
    (s s' : State) (hp : ∀ op ∈ p, Scoped op = true) (hi : Inv s) (h : run T s p = some s') :
    Inv s' :=
  program_inv p s s' (fun op ho => ⟨hp op ho, fun k _ => hT k⟩) hi h

/-- FULL statement (false as the code stands — `asis_program_inv_false`):
      ∀ p s s', Inv s → run asIs s p = some s' → Inv s'
    PARTIAL: programs avoiding NumPy functions / where / clip / fillna / astype / rolling (built by
    xarray as plain `DataArray`s), length-changing positional indexing of a grid dimension, and the
    dual of a partial mesh. -/
theorem program_inv_asis_partial (p : List Op) (s s' : State)
    (hp : ∀ op ∈ p, Scoped op = true ∧ safeAsIs op = true) (hi : Inv s)
    (h : run asIs s p = some s') : Inv s' :=
  program_inv p s s'
    (fun op ho => ⟨(hp op ho).1, fun k hk => by
      have := (hp op ho).2
      simpa [safeAsIs, hk] using this⟩) hi h

/-- exactly six classes are built through a path that loses the grid with the installed xarray -/
theorem asis_bad_kinds (k : XKind) :
    (asIs k).good = false ↔ k ∈ [XKind.ufunc, .whereOp, .clip, .fillna, .astype, .rolling] := by
  cases k <;> simp [asIs, Path.good]

/-! ## same grid -/

theorem stepX_same {T : Table} {s s' : State} {op : Op} (hg : OpGood T op)
    (hu : s.arr.isUx = true) (h : stepX T s op = some s') :
    s'.arr.grid = s.arr.grid ∧ s'.heap = s.heap := by
  unfold stepX at h
  split at h
  · rename_i k ds hk hx
    cases h
    rw [build_good (hg.2 k hk) hu]
    exact ⟨rfl, rfl⟩
  · cases h

/-- **Operations other than deep copy, grid-`isel`, remap and `get_dual` return an array attached to
    THE SAME grid object, and allocate no grid.** -/
theorem same_grid {T : Table} {s s' : State} {op : Op} (hg : OpGood T op)
    (hs : op.sameGrid = true) (hi : Inv s) (h : step T s op = some s') :
    s'.arr.grid = s.arr.grid ∧ s'.heap = s.heap := by
  obtain ⟨g, r, hc, hd⟩ := cur_of_inv hi
  obtain ⟨hu, hgr, hr⟩ := cur_some hc
  cases op with
  | elem k => exact stepX_same hg hu (by simpa [step] using h)
  | along k d => exact stepX_same hg hu (by simpa [step] using h)
  | index d sel => exact stepX_same hg hu (by simpa [step] using h)
  | reduce l => exact stepX_same hg hu (by simpa [step] using h)
  | transpose nd => exact stepX_same hg hu (by simpa [step] using h)
  | renameDim k k' => exact stepX_same hg hu (by simpa [step] using h)
  | renameName => exact stepX_same hg hu (by simpa [step] using h)
  | concatAlong k n => exact stepX_same hg hu (by simpa [step] using h)
  | concatNew k n => exact stepX_same hg hu (by simpa [step] using h)
  | expandDims k l => exact stepX_same hg hu (by simpa [step] using h)
  | copy deep fresh =>
    cases deep with
    | false =>
      simp only [step] at h
      cases h
      rw [build_good rfl hu]
      exact ⟨rfl, rfl⟩
    | true => simp [Op.sameGrid] at hs
  | gridIsel c => simp [Op.sameGrid] at hs
  | integrate =>
    simp only [step, hc] at h
    split at h
    · cases h; exact ⟨hgr.symm, rfl⟩
    · cases h
  | gradient =>
    simp only [step, hc] at h
    split at h
    · cases h; exact ⟨hgr.symm, rfl⟩
    · cases h
  | difference =>
    simp only [step, hc] at h
    split at h
    · cases h; exact ⟨hgr.symm, rfl⟩
    · cases h
  | topoAgg dest =>
    simp only [step, hc] at h
    split at h
    · cases h; exact ⟨hgr.symm, rfl⟩
    · cases h
  | remap g2 dest => simp [Op.sameGrid] at hs
  | getDual cl c => simp [Op.sameGrid] at hs
  | getDualR c => simp [Op.sameGrid] at hs

/-- a whole program of same-grid operations ends on the grid it started on -/
theorem program_same_grid {T : Table} : ∀ (p : List Op) (s s' : State),
    (∀ op ∈ p, OpGood T op ∧ op.sameGrid = true) → Inv s → run T s p = some s' →
    s'.arr.grid = s.arr.grid ∧ s'.heap = s.heap
  | [], s, s', _, _, h => by simp [run] at h; subst h; exact ⟨rfl, rfl⟩
  | op :: p, s, s', hg, hi, h => by
    simp only [run] at h
    split at h
    · rename_i s1 h1
      have ho := hg op (List.mem_cons_self ..)
      have h1s := same_grid ho.1 ho.2 hi h1
      have := program_same_grid p s1 s' (fun o hm => hg o (List.mem_cons_of_mem _ hm))
        (step_preserves_inv ho.1 hi h1) h
      exact ⟨this.1.trans h1s.1, this.2.trans h1s.2⟩
    · cases h

/-! ## deep copies -/

/-- a deep copy's grid: a NEW object with equal counts whose backing store no earlier grid uses;
    the earlier grids are untouched -/
def DeepCopyOK (s s' : State) : Prop :=
  ∃ g r r', cur s = some (g, r) ∧ s'.arr.grid = some s.heap.length ∧ s'.heap = s.heap ++ [r'] ∧
    r'.counts = r.counts ∧ ∀ q ∈ s.heap, q.store ≠ r'.store

/-- witness state for the copy theorems: `(t: 3, n_face: 6)` on grid 0 -/
def w0c : State :=
  { heap := [⟨⟨8, 12, 6⟩, 0⟩, ⟨⟨12, 17, 6⟩, 1⟩],
    arr := ⟨true, some 0, [(.other 0, 3), (.face, 6)]⟩ }

theorem le_foldl_max (l : List Nat) (a : Nat) : a ≤ l.foldl max a ∧ ∀ x ∈ l, x ≤ l.foldl max a := by
  induction l generalizing a with
  | nil => simp
  | cons y l ih =>
    simp only [List.foldl_cons, List.mem_cons]
    obtain ⟨h1, h2⟩ := ih (max a y)
    refine ⟨Nat.le_trans (Nat.le_max_left a y) h1, ?_⟩
    rintro x (rfl | hx)
    · exact Nat.le_trans (Nat.le_max_right a x) h1
    · exact h2 x hx

theorem freshStore_fresh (h : Heap) : ∀ q ∈ h, q.store ≠ freshStore h := by
  intro q hq
  have := (le_foldl_max (h.map (·.store)) 0).2 q.store (List.mem_map.mpr ⟨q, hq, rfl⟩)
  unfold freshStore
  omega

/-- **A deep copy whose `Grid.copy` allocates its own store yields an equal but independent grid**;
    the new grid id differs from the old one, and the array keeps the invariant. -/
theorem deep_copy_independent {T : Table} {s s' : State} (hi : Inv s)
    (h : step T s (.copy true true) = some s') :
    DeepCopyOK s s' ∧ s'.arr.grid ≠ s.arr.grid ∧ s'.arr.dims = s.arr.dims ∧ Inv s' := by
  obtain ⟨g, r, hc, hd⟩ := cur_of_inv hi
  obtain ⟨hu, hgr, hr⟩ := cur_some hc
  have hlt : g < s.heap.length := by
    rcases Nat.lt_or_ge g s.heap.length with hl | hl
    · exact hl
    · rw [List.getElem?_eq_none hl] at hr; cases hr
  simp only [step, hu, hc, if_true] at h
  cases h
  refine ⟨⟨g, r, _, hc, rfl, rfl, rfl, freshStore_fresh s.heap⟩, ?_, rfl,
    ⟨rfl, s.heap.length, _, rfl, heap_append_last _ _, hd⟩⟩
  simp only [hgr, ne_eq, Option.some.injEq]
  omega

/-- **Every deep way of copying** — `copy()`, `copy(deep=True)`, `copy(data=x)`, `copy(deep=True, data=x)`,
    `copy.deepcopy` — at any point of a program (any state satisfying the invariant) yields an equal,
    independent grid when `Grid.copy` allocates; `data=` plays no role. -/
theorem copy_api_deep_independent {T : Table} {s s' : State} (api : CopyApi) (hd : api.deep = true)
    (hi : Inv s) (h : step T s (Op.ofCopy api true) = some s') :
    DeepCopyOK s s' ∧ s'.arr.grid ≠ s.arr.grid ∧ s'.arr.dims = s.arr.dims ∧ Inv s' := by
  unfold Op.ofCopy at h
  rw [hd] at h
  exact deep_copy_independent hi h

/-- the shallow ways — `copy(deep=False)`, `copy(deep=False, data=x)`, `copy.copy` — keep THE SAME grid -/
theorem copy_api_shallow_same_grid {T : Table} {s s' : State} (api : CopyApi) (f : Bool)
    (hd : api.deep = false) (hi : Inv s) (h : step T s (Op.ofCopy api f) = some s') :
    s'.arr.grid = s.arr.grid ∧ s'.heap = s.heap ∧ Inv s' := by
  unfold Op.ofCopy at h
  rw [hd] at h
  have hg : OpGood T (.copy false f) := ⟨rfl, fun k hk => by cases hk⟩
  have := same_grid hg rfl hi h
  exact ⟨this.1, this.2, step_preserves_inv hg hi h⟩

theorem copy_api_deep_iff (api : CopyApi) :
    api.deep = false ↔ api ∈ [CopyApi.deepFalse, .deepFalseData, .pyCopy] := by
  cases api <;> simp [CopyApi.deep]

/-- a "deep" copy that re-uses the original's grid OBJECT (what a `_copy` that looks at `data=` would do)
    fails the step specification -/
theorem deep_copy_same_object_violates_spec :
    specB w0c (Op.ofCopy .deepTrueData true) w0c w0c.arr.dims = false := by decide

/-- as the code stands `Grid.copy` hands the SAME `_ds` to the new `Grid` (grid/grid.py:1406-1413):
    the copy is a new object but not independent -/
theorem asis_deep_copy_shares_store {T : Table} {s s' : State} (hi : Inv s)
    (h : step T s (.copy true false) = some s') : ¬ DeepCopyOK s s' := by
  obtain ⟨g, r, hc, hd⟩ := cur_of_inv hi
  obtain ⟨hu, hgr, hr⟩ := cur_some hc
  simp only [step, hu, hc, if_true] at h
  cases h
  rintro ⟨g', r1, r', hc', _, hh, _, hfresh⟩
  have : r' = ⟨r.counts, r.store⟩ := by
    have := List.append_cancel_left hh
    simpa using this.symm
  subst this
  exact hfresh r (List.mem_of_getElem? hr) rfl

/-! ## the decidable step specification and its reflection -/

/-- The property for one step `s --op--> s'`, with `xd` the dimensions plain xarray computes. -/
structure Spec (s : State) (op : Op) (s' : State) (xd : Dims) : Prop where
  isUx : s'.arr.isUx = true
  attached : Attached s'
  same : op.sameGrid = true → s'.arr.grid = s.arr.grid ∧ s'.heap = s.heap
  deep : (∃ f, op = .copy true f) → DeepCopyOK s s'
  dest : ∀ g2 d, op = .remap g2 d → s'.arr.grid = some g2
  byName : ∀ c, op = .gridIsel c →
    ∃ d, centred s.arr.dims = some d ∧ s'.arr.dims = setLen s.arr.dims d (c.get d)
  shape : op.isX = true → s'.arr.dims = xd

theorem Spec.inv {s s' : State} {op : Op} {xd : Dims} (h : Spec s op s' xd) : Inv s' :=
  ⟨h.isUx, h.attached⟩

theorem deepCopyB_iff {s s' : State} : deepCopyB s s' = true ↔ DeepCopyOK s s' := by
  unfold deepCopyB DeepCopyOK
  constructor
  · intro h
    split at h
    · rename_i g r g' hc hg'
      simp only [Bool.and_eq_true, beq_iff_eq] at h
      obtain ⟨hlen, h⟩ := h
      subst hlen
      split at h
      · rename_i r' hr'
        simp only [Bool.and_eq_true, beq_iff_eq, Bool.not_eq_true', List.contains_eq_mem,
          decide_eq_false_iff_not, List.mem_map, not_exists, not_and] at h
        obtain ⟨⟨hcnt, hst⟩, hheap⟩ := h
        exact ⟨g, r, r', hc, hg', hheap, hcnt, fun q hq he => hst q hq he⟩
      · cases h
    · cases h
  · rintro ⟨g, r, r', hc, hg', hheap, hcnt, hst⟩
    have hr' : s'.heap[s.heap.length]? = some r' := by rw [hheap]; simp
    simp only [hc, hg', hr', BEq.rfl, Bool.true_and, Bool.and_eq_true, beq_iff_eq, hcnt,
      Bool.not_eq_true', List.contains_eq_mem, decide_eq_false_iff_not, List.mem_map, not_exists,
      not_and]
    exact ⟨fun q hq he => hst q hq he, hheap⟩

theorem specB_iff {s s' : State} {op : Op} {xd : Dims} :
    specB s op s' xd = true ↔ Spec s op s' xd := by
  unfold specB failing
  simp only [List.isEmpty_iff, List.append_eq_nil_iff]
  constructor
  · rintro ⟨⟨⟨⟨⟨h1, h2⟩, h3⟩, h4⟩, h5⟩, h6⟩
    have hu : s'.arr.isUx = true := by
      cases hx : s'.arr.isUx with
      | true => rfl
      | false => simp [hx] at h1
    have hg : s'.arr.grid.isSome = true := by
      cases hx : s'.arr.grid.isSome with
      | true => rfl
      | false => simp [hx] at h2
    have hgn : s'.arr.grid.isNone = false := by
      cases hx : s'.arr.grid with
      | none => simp [hx] at hg
      | some _ => rfl
    have ha : attachedB s' = true := by
      cases hx : attachedB s' with
      | true => rfl
      | false => simp [hu, hgn, hx] at h3
    refine ⟨hu, (attachedB_iff.mp ha).2, ?_, ?_, ?_, ?_, ?_⟩
    · intro hs
      simp only [hs, if_true, hgn, Bool.false_or] at h4
      cases hx : (s'.arr.grid == s.arr.grid && s'.heap == s.heap) with
      | true => simpa using hx
      | false => simp [hx] at h4
    · rintro ⟨f, rfl⟩
      simp only [hgn, Bool.false_or] at h5
      cases hx : deepCopyB s s' with
      | true => exact deepCopyB_iff.mp hx
      | false => simp [hx] at h5
    · rintro g2 d rfl
      simp only [hgn, Bool.false_or] at h5
      cases hx : (s'.arr.grid == some g2) with
      | true => simpa using hx
      | false => simp [hx] at h5
    · rintro c rfl
      simp only [hgn, Bool.false_or] at h5
      cases hx : gridIselShapeB s c s' with
      | false => simp [hx] at h5
      | true =>
        unfold gridIselShapeB at hx
        split at hx
        · rename_i d hd
          exact ⟨d, hd, by simpa using hx⟩
        · cases hx
    · intro hx
      simp only [hx, if_true] at h6
      by_cases hd : s'.arr.dims = xd
      · exact hd
      · simp [hd] at h6
  · intro h
    have hgn : s'.arr.grid.isNone = false := by
      obtain ⟨g, r, hg, _⟩ := h.attached
      simp [hg]
    have hgs : s'.arr.grid.isSome = true := by
      obtain ⟨g, r, hg, _⟩ := h.attached
      simp [hg]
    have ha : attachedB s' = true := attachedB_iff.mpr h.inv
    refine ⟨⟨⟨⟨⟨by simp [h.isUx], by simp [hgs]⟩, by simp [ha]⟩, ?_⟩, ?_⟩, ?_⟩
    · cases hs : op.sameGrid with
      | false => simp
      | true =>
        obtain ⟨e1, e2⟩ := h.same hs
        simp [e1, e2]
    · cases op with
      | copy deep f =>
        cases deep with
        | true => simp [deepCopyB_iff.mpr (h.deep ⟨f, rfl⟩)]
        | false => rfl
      | remap g2 d => simp [h.dest g2 d rfl]
      | gridIsel c =>
        obtain ⟨d, hd, he⟩ := h.byName c rfl
        simp [gridIselShapeB, hd, he]
      | _ => rfl
    · cases hx : op.isX with
      | false => simp
      | true => simp [h.shape hx]

/-- the hypotheses under which the MODEL meets the step specification: the operation is in scope, its
    path re-attaches, and a deep copy's grid gets its own store -/
def OpGoodS (T : Table) (op : Op) : Prop := OpGood T op ∧ op ≠ .copy true false

theorem xdims_of_kind {op : Op} {k : XKind} {T : Table} {s s' : State} (hk : op.kind = some k)
    (h : step T s op = some s') : ∃ ds, xdims op s.arr.dims = some ds ∧ s'.arr.dims = ds := by
  have hx : stepX T s op = some s' := by
    cases op <;> simp_all [step, Op.kind]
  unfold stepX at hx
  split at hx
  · rename_i k' ds hk' hxd
    cases hx
    refine ⟨ds, hxd, ?_⟩
    unfold build
    split
    · split <;> rfl
    · rfl
  · cases hx

/-- **The model meets the specification the driver evaluates on the implementation**: for every
    table, state and operation satisfying `OpGoodS`, the step's result is a `UxDataArray` attached to
    a live grid with matching element counts; the same grid where the property says so; an equal,
    independent grid after a deep copy; and the shape plain xarray computes. -/
theorem model_meets_spec {T : Table} {s s' : State} {op : Op} (hg : OpGoodS T op) (hi : Inv s)
    (h : step T s op = some s') :
    ∀ xd, (op.isX = true → xdims op s.arr.dims = some xd) → Spec s op s' xd := by
  intro xd hxd
  have hinv := step_preserves_inv hg.1 hi h
  refine ⟨hinv.1, hinv.2, fun hs => same_grid hg.1 hs hi h, ?_, ?_, ?_, ?_⟩
  · rintro ⟨f, rfl⟩
    have hf : f = true := by
      cases f with
      | true => rfl
      | false => exact absurd rfl hg.2
    subst hf
    exact (deep_copy_independent hi h).1
  · rintro g2 d rfl
    obtain ⟨g, r, hc, hd⟩ := cur_of_inv hi
    simp only [step, hc] at h
    split at h
    · split at h
      · cases h; rfl
      · cases h
    · cases h
  · rintro c rfl
    obtain ⟨g, r, hc, hd⟩ := cur_of_inv hi
    simp only [step, hc] at h
    split at h
    · rename_i x d hx hcd
      cases h
      exact ⟨d, hcd, rfl⟩
    · cases h
  · intro hx
    have hxd' := hxd hx
    cases hk : op.kind with
    | some k =>
      obtain ⟨ds, h1, h2⟩ := xdims_of_kind hk h
      rw [h1] at hxd'; cases hxd'; exact h2
    | none =>
      cases op with
      | copy deep f =>
        simp only [xdims, Option.some.injEq] at hxd'
        subst hxd'
        obtain ⟨g, r, hc, hd⟩ := cur_of_inv hi
        obtain ⟨hu, hgr, hr⟩ := cur_some hc
        cases deep with
        | false =>
          simp only [step] at h; cases h
          rw [build_good rfl hu]
        | true =>
          simp only [step, hu, hc, if_true] at h; cases h; rfl
      | _ => simp_all [Op.isX, Op.kind]

/-! ## every public uxarray call that returns a `UxDataArray` -/

/-- **Every public call of the table keeps the invariant** (for every value of its kind-selecting
    keywords, every table, every state): remap × {nodes, edge centers, face centers}, the ten
    aggregations × destination, gradient, difference, integrate, isel × dimension, the three subset
    accessors × element, the cross-section, get_dual (of a mesh whose nodes all have ≥ 3 faces). -/
theorem uxcall_preserves_inv {T : Table} {s s' : State} (c : UxCall) (hs : Scoped c.op = true)
    (hi : Inv s) (h : step T s c.op = some s') : Inv s' :=
  step_preserves_inv ⟨hs, fun k hk => by cases c <;> cases hk⟩ hi h

/-- … hence so does a public call followed by ANY program of in-scope operations built through
    re-attaching paths -/
theorem uxcall_then_program_inv {T : Table} {s s' : State} (c : UxCall) (p : List Op)
    (hs : Scoped c.op = true) (hp : ∀ op ∈ p, OpGood T op) (hi : Inv s)
    (h : run T s (c.op :: p) = some s') : Inv s' :=
  program_inv (c.op :: p) s s'
    (fun op ho => by
      rcases List.mem_cons.mp ho with rfl | ho
      · exact ⟨hs, fun k hk => by cases c <;> cases hk⟩
      · exact hp op ho) hi h

/-- **remap names the element dimension after `remap_to`'s kind and gives it the DESTINATION grid's count
    of that kind**, and attaches the destination grid: "edge centers" ↦ `(n_edge, dest.n_edge)`, never a
    dimension named for another kind. -/
theorem remap_result_dim {T : Table} {s s' : State} {g2 : Nat} {to : Elem}
    (h : step T s (UxCall.remapNN g2 to).op = some s') :
    ∃ r2, s.heap[g2]? = some r2 ∧ s'.arr.grid = some g2 ∧
      s'.arr.dims.getLast? = some (to.dim, r2.counts.get to.dim) ∧
      s'.arr.dims.dropLast = s.arr.dims.dropLast := by
  simp only [UxCall.op, step] at h
  split at h
  · rename_i x r r2 d hc h2 hcd
    split at h
    · cases h
      exact ⟨r2, h2, rfl, by simp [setLast], by simp [setLast]⟩
    · cases h
  · cases h

/-- the same for the aggregations: the result's element dimension is the DESTINATION kind's, same grid -/
theorem topo_result_dim {T : Table} {s s' : State} {a : Agg} {dest : Elem}
    (h : step T s (UxCall.topo a dest).op = some s') :
    ∃ g r, cur s = some (g, r) ∧ s'.arr.grid = some g ∧
      s'.arr.dims.getLast? = some (dest.dim, r.counts.get dest.dim) := by
  simp only [UxCall.op, step] at h
  split at h
  · rename_i g r hc
    split at h
    · cases h
      exact ⟨g, r, hc, rfl, by simp [setLast]⟩
    · cases h
  · cases h

/-- a result whose element dimension is named for one kind but has another kind's count (what a
    mis-keyed `remap_to` table produces) violates the step specification whenever the two counts differ -/
theorem mislabelled_remap_violates_spec :
    specB w0c (UxCall.remapNN 1 .edge).op ⟨w0c.heap, ⟨true, some 1, [(.other 0, 3), (.face, 17)]⟩⟩ [] = false := by
  decide

/-! ## indexer forms: every form selects a list of positions `< n`; a mask selects its `true` positions -/

theorem maskPos_length : ∀ (k : Nat) (m : List Bool), (maskPos k m).length = m.count true
  | _, [] => rfl
  | k, b :: m => by
    cases b with
    | true => simp [maskPos, maskPos_length (k + 1) m]
    | false => simp [maskPos, maskPos_length (k + 1) m]

theorem maskPos_mem : ∀ (k : Nat) (m : List Bool) (i : Nat),
    i ∈ maskPos k m ↔ k ≤ i ∧ m[i - k]? = some true
  | _, [], i => by simp [maskPos]
  | k, b :: m, i => by
    have ih := maskPos_mem (k + 1) m i
    cases b with
    | true =>
      simp only [maskPos, if_true, List.mem_cons, ih]
      constructor
      · rintro (rfl | ⟨h1, h2⟩)
        · simp
        · refine ⟨by omega, ?_⟩
          have : i - k = (i - (k + 1)) + 1 := by omega
          rw [this]; simpa using h2
      · rintro ⟨h1, h2⟩
        by_cases hik : i = k
        · exact Or.inl hik
        · refine Or.inr ⟨by omega, ?_⟩
          have : i - k = (i - (k + 1)) + 1 := by omega
          rw [this] at h2; simpa using h2
    | false =>
      simp only [maskPos, Bool.false_eq_true, if_false, ih]
      constructor
      · rintro ⟨h1, h2⟩
        refine ⟨by omega, ?_⟩
        have : i - k = (i - (k + 1)) + 1 := by omega
        rw [this]; simpa using h2
      · rintro ⟨h1, h2⟩
        by_cases hik : i = k
        · subst hik; simp at h2
        · refine ⟨by omega, ?_⟩
          have : i - k = (i - (k + 1)) + 1 := by omega
          rw [this] at h2; simpa using h2

theorem intPos_lt {n : Nat} {i : Int} {p : Nat} (h : intPos n i = some p) : p < n := by
  unfold intPos at h
  split at h
  · cases h; omega
  · split at h
    · cases h; omega
    · cases h

theorem mapM_intPos {n : Nat} : ∀ (l : List Int) (r : List Nat), l.mapM (intPos n) = some r →
    r.length = l.length ∧ ∀ p ∈ r, p < n
  | [], r, h => by simp at h; subst h; simp
  | i :: l, r, h => by
    rw [List.mapM_cons] at h
    cases hi : intPos n i with
    | none => simp [hi] at h
    | some p =>
      cases hl : l.mapM (intPos n) with
      | none => simp [hi, hl] at h
      | some r' =>
        simp [hi, hl] at h
        subst h
        obtain ⟨h1, h2⟩ := mapM_intPos l r' hl
        refine ⟨by simp [h1], ?_⟩
        intro q hq
        rcases List.mem_cons.mp hq with rfl | hq
        · exact intPos_lt hi
        · exact h2 q hq

/-- **Every form of indexer selects positions inside the dimension** -/
theorem normIdx_lt {n : Nat} {idx : Idx} {l : List Nat} (h : normIdx n idx = some l) : ∀ p ∈ l, p < n := by
  cases idx with
  | ints li => exact (mapM_intPos li l h).2
  | slice a b st =>
    simp only [normIdx, sliceIdx] at h
    split at h
    · cases h
    · split at h
      · cases h
        intro p hp
        exact List.mem_range.mp (List.mem_filter.mp hp).1
      · cases h
        intro p hp
        exact List.mem_range.mp (List.mem_filter.mp (List.mem_reverse.mp hp)).1
  | mask m =>
    simp only [normIdx] at h
    split at h
    · rename_i hn
      cases h
      intro p hp
      have := (maskPos_mem 0 m p).mp hp
      have hlt : p - 0 < m.length := by
        rcases Nat.lt_or_ge (p - 0) m.length with h1 | h1
        · exact h1
        · rw [List.getElem?_eq_none h1] at this; cases this.2
      omega
    · cases h

/-- an integer list (negative entries, duplicates, any NumPy integer dtype) selects as many elements as it has
    entries -/
theorem normIdx_ints_length {n : Nat} {li : List Int} {l : List Nat} (h : normIdx n (.ints li) = some l) :
    l.length = li.length := (mapM_intPos li l h).1

/-- **a boolean mask selects exactly its `true` positions** (as many elements as it has `true` entries),
    in increasing order of position -/
theorem normIdx_mask {n : Nat} {m : List Bool} {l : List Nat} (h : normIdx n (.mask m) = some l) :
    l.length = m.count true ∧ ∀ i, i ∈ l ↔ m[i]? = some true := by
  simp only [normIdx] at h
  split at h
  · cases h
    exact ⟨maskPos_length 0 m, fun i => by simpa using maskPos_mem 0 m i⟩
  · cases h

/-- **grid-`isel` after normalisation has the shape "number of selected elements" for every form**: on face
    data attached to a consistent grid, slicing to the sub-grid of the selected faces (whose face count is the
    length of the normalised list, `sub_node` / `sub_edge` whatever the selection touches) gives `n_face` that
    length — for a mask its number of `true` entries — in the place `n_face` had. -/
theorem isel_norm_shape {T : Table} {s s' : State} {n : Nat} {idx : Idx} {l : List Nat} {cn ce : Nat}
    (_hn : normIdx n idx = some l) (hc : centred s.arr.dims = some .face)
    (h : step T s (.gridIsel ⟨cn, ce, l.length⟩) = some s') :
    s'.arr.dims = setLen s.arr.dims .face l.length := by
  simp only [step] at h
  split at h
  · rename_i x d hx hcd
    rw [hc] at hcd
    cases hcd
    cases h
    rfl
  · cases h

/-- a mask CAST to integers is another selection: `n` entries (copies of elements 0 and 1) instead of the `true`
    positions — the regression witness of the seeded change C10f and of `Grid.isel(n_face=mask)` as it stood -/
theorem mask_cast_to_ints_is_wrong :
    normIdx 8 (.mask [false, false, false, false, true, true, true, true]) = some [4, 5, 6, 7] ∧
    normIdx 8 (maskAsInts [false, false, false, false, true, true, true, true]) = some [0, 0, 0, 0, 1, 1, 1, 1] := by
  decide

theorem count_true_lt : ∀ {m : List Bool}, false ∈ m → m.count true < m.length
  | [], h => by cases h
  | b :: m, h => by
    have hle : m.count true ≤ m.length := List.count_le_length
    cases b with
    | false => simp; omega
    | true =>
      have : false ∈ m := by
        rcases List.mem_cons.mp h with h | h
        · cases h
        · exact h
      have := count_true_lt this
      simp; omega

/-- for EVERY mask that is not all-`true`, the cast selects a different number of elements -/
theorem mask_cast_length_differs {n : Nat} {m : List Bool} {l l' : List Nat}
    (h : normIdx n (.mask m) = some l) (h' : normIdx n (maskAsInts m) = some l') (hf : false ∈ m) :
    l.length < l'.length := by
  have h1 := (normIdx_mask h).1
  have h2 := normIdx_ints_length h'
  rw [h1, h2, List.length_map]
  exact count_true_lt hf

example : normIdx 6 (.ints [-1, 1, 1]) = some [5, 1, 1] := by decide
example : normIdx 6 (.slice none none (-1)) = some [5, 4, 3, 2, 1, 0] := by decide
example : normIdx 6 (.slice (some 1) (some (-1)) 2) = some [1, 3] := by decide
example : normIdx 6 (.slice (some 3) (some 3) 1) = some [] := by decide
example : normIdx 6 (.ints [6]) = none := by decide

/-! ## grid-`isel` is by name: it commutes with transposition -/

theorem centred_perm {ds nd : Dims} (hp : nd.Perm ds) : centred nd = centred ds := by
  unfold centred
  have hf := hp.filter (fun p => p.1.isGrid)
  cases h1 : ds.filter (fun p => p.1.isGrid) with
  | nil => rw [h1] at hf; rw [List.perm_nil.mp hf]
  | cons a l =>
    cases l with
    | nil => rw [h1] at hf; rw [List.perm_singleton.mp hf]
    | cons b l =>
      rw [h1] at hf
      have hl := hf.length_eq
      cases h2 : nd.filter (fun p => p.1.isGrid) with
      | nil => simp [h2] at hl
      | cons a' l' =>
        cases l' with
        | nil => simp [h2] at hl
        | cons b' l'' => rfl

/-- **"transpose then isel" = "isel then transpose"**: for every table with a re-attaching transpose
    path, every state satisfying the invariant, every layout `nd` of its dimensions and every sub-grid
    `c`, slicing the transposed array gives the transposed slice — same heap, same new grid, and the
    dimensions are `nd` with the grid dimension's length replaced (the element dimension need not be
    last, or anywhere in particular). -/
theorem isel_commutes_with_transpose {T : Table} (hT : (T .transpose).good = true) {s s1 s2 : State}
    {nd : Dims} {c : Counts} (hi : Inv s)
    (h1 : step T s (.transpose nd) = some s1) (h2 : step T s1 (.gridIsel c) = some s2) :
    ∃ d s3, centred s.arr.dims = some d ∧ step T s (.gridIsel c) = some s3 ∧
      step T s3 (.transpose (setLen nd d (c.get d))) = some s2 := by
  obtain ⟨g, r, hc, hd⟩ := cur_of_inv hi
  obtain ⟨hu, hgr, hr⟩ := cur_some hc
  -- the transposed state
  have hx1 : stepX T s (.transpose nd) = some s1 := by simpa [step] using h1
  unfold stepX at hx1
  simp only [Op.kind, xdims] at hx1
  split at hx1
  · rename_i k ds hk hxd
    cases hk
    split at hxd
    · rename_i hperm
      cases hxd
      cases hx1
      rw [build_good hT hu] at h2
      have hp := List.isPerm_iff.mp hperm
      have hc1 : cur ⟨s.heap, ⟨true, s.arr.grid, nd⟩⟩ = some (g, r) := by simp [cur, hgr, hr]
      simp only [step, hc1] at h2
      split at h2
      · rename_i x d hx hcd
        cases h2
        have hcd' : centred s.arr.dims = some d := by rw [← centred_perm hp]; exact hcd
        refine ⟨d, ⟨s.heap ++ [⟨c, freshStore s.heap⟩],
          ⟨true, some s.heap.length, setLen s.arr.dims d (c.get d)⟩⟩, hcd', by simp only [step, hc, hcd'], ?_⟩
        have hperm2 : (setLen nd d (c.get d)).isPerm (setLen s.arr.dims d (c.get d)) = true :=
          List.isPerm_iff.mpr (hp.map _)
        simp only [step, stepX, Op.kind, xdims, hperm2, if_true]
        rw [build_good hT rfl]
      · cases h2
    · cases hxd
  · cases hx1

/-! ## the converse: the other two paths break the invariant, and nothing repairs it -/

/-- ANY operation xarray builds as a plain `DataArray` loses the subclass and the grid -/
theorem plain_path_loses_grid {T : Table} {s s' : State} {op : Op} {k : XKind}
    (hk : op.kind = some k) (hT : T k = .plainCtor) (h : step T s op = some s') :
    s'.arr.isUx = false ∧ s'.arr.grid = none ∧ ¬ Inv s' := by
  have hx : stepX T s op = some s' := by
    cases op <;> simp_all [step, Op.kind]
  unfold stepX at hx
  rw [hk] at hx
  cases hxd : xdims op s.arr.dims with
  | none => simp [hxd] at hx
  | some ds =>
    simp only [hxd, Option.some.injEq] at hx
    subst hx
    have : (build (T k) s.arr ds).isUx = false ∧ (build (T k) s.arr ds).grid = none := by
      rw [hT]; unfold build; split <;> exact ⟨rfl, rfl⟩
    refine ⟨this.1, this.2, fun hi => ?_⟩
    have h1 := hi.1
    rw [this.1] at h1
    cases h1

/-- ANY operation built by calling the class outside `_replace` yields a `UxDataArray` whose slot is
    `None` -/
theorem class_path_loses_grid {T : Table} {s s' : State} {op : Op} {k : XKind}
    (hk : op.kind = some k) (hT : T k = .classCtor) (h : step T s op = some s') :
    s'.arr.grid = none ∧ ¬ Inv s' := by
  have hx : stepX T s op = some s' := by
    cases op <;> simp_all [step, Op.kind]
  unfold stepX at hx
  rw [hk] at hx
  cases hxd : xdims op s.arr.dims with
  | none => simp [hxd] at hx
  | some ds =>
    simp only [hxd, Option.some.injEq] at hx
    subst hx
    have : (build (T k) s.arr ds).grid = none := by
      rw [hT]; unfold build; split <;> rfl
    refine ⟨this, fun hi => ?_⟩
    obtain ⟨_, g, r, hg, _⟩ := hi
    rw [this] at hg
    cases hg

/-- once the array is a plain `DataArray`, every further xarray operation and copy leaves it one,
    under every table: a program that contains one plain-path step never satisfies the invariant again
    through xarray operations -/
theorem lost_stays_lost {T : Table} : ∀ (p : List Op) (s s' : State),
    (∀ op ∈ p, op.isX = true) → s.arr.isUx = false → run T s p = some s' → s'.arr.isUx = false
  | [], s, s', _, hu, h => by simp [run] at h; subst h; exact hu
  | op :: p, s, s', hp, hu, h => by
    simp only [run] at h
    split at h
    · rename_i s1 h1
      refine lost_stays_lost p s1 s' (fun o ho => hp o (List.mem_cons_of_mem _ ho)) ?_ h
      have hx := hp op (List.mem_cons_self ..)
      cases op with
      | copy deep f =>
        cases deep with
        | false => simp only [step] at h1; cases h1; simp [build, hu]
        | true => simp only [step, hu] at h1; simp at h1; subst h1; exact hu
      | elem k => simp only [step, stepX] at h1; split at h1 <;> cases h1; simp [build, hu]
      | along k d => simp only [step, stepX] at h1; split at h1 <;> cases h1; simp [build, hu]
      | index d sel => simp only [step, stepX] at h1; split at h1 <;> cases h1; simp [build, hu]
      | reduce l => simp only [step, stepX] at h1; split at h1 <;> cases h1; simp [build, hu]
      | transpose nd => simp only [step, stepX] at h1; split at h1 <;> cases h1; simp [build, hu]
      | renameDim k k' => simp only [step, stepX] at h1; split at h1 <;> cases h1; simp [build, hu]
      | renameName => simp only [step, stepX] at h1; split at h1 <;> cases h1; simp [build, hu]
      | concatAlong k n => simp only [step, stepX] at h1; split at h1 <;> cases h1; simp [build, hu]
      | concatNew k n => simp only [step, stepX] at h1; split at h1 <;> cases h1; simp [build, hu]
      | expandDims k l => simp only [step, stepX] at h1; split at h1 <;> cases h1; simp [build, hu]
      | _ => simp [Op.isX, Op.kind] at hx
    · cases h

/-! ## the code as it stands: counterexamples (regression witnesses) and non-vacuity -/

/-- a face-centred array `(t: 3, n_face: 6)` on grid 0 of a two-grid heap -/
def w0 : State :=
  { heap := [⟨⟨8, 12, 6⟩, 0⟩, ⟨⟨12, 17, 6⟩, 1⟩],
    arr := ⟨true, some 0, [(.other 0, 3), (.face, 6)]⟩ }

example : Inv w0 := attachedB_iff.mp (by decide)

/-- `where` (and every other apply_ufunc-based method) returns a plain `DataArray` -/
theorem asis_where_drops_grid :
    ∃ s', step asIs w0 (.elem .whereOp) = some s' ∧ s'.arr.isUx = false ∧ s'.arr.grid = none :=
  ⟨_, rfl, rfl, rfl⟩

theorem asis_ufunc_drops_grid :
    ∃ s', step asIs w0 (.elem .ufunc) = some s' ∧ s'.arr.isUx = false ∧ s'.arr.grid = none :=
  ⟨_, rfl, rfl, rfl⟩

theorem asis_rolling_drops_grid :
    ∃ s', step asIs w0 (.along .rolling 0) = some s' ∧ s'.arr.isUx = false ∧ s'.arr.grid = none :=
  ⟨_, rfl, rfl, rfl⟩

/-- the full-strength program statement is false for the observed table -/
theorem asis_program_inv_false :
    ¬ (∀ (p : List Op) (s s' : State), Inv s → run asIs s p = some s' → Inv s') := by
  intro h
  have := h [.elem .arith, .elem .astype, .reduce [.other 0]] w0 _ (attachedB_iff.mp (by decide)) rfl
  exact absurd (attachedB_iff.mpr this) (by decide)

/-- positional slicing of a grid dimension through xarray's own path goes through `_replace`: the result
    keeps the UN-sliced grid, for every table.  AS IT STOOD this was every non-keyword form; with
    fixes/C10-positional-face-indexing-slices-grid.patch the forms that reach `UxDataArray.isel`
    (`uxda[..., faces]`, `isel(indexers=…)`) are the operation `gridIsel` for FACES (covered by
    `uxcall_preserves_inv`); it remains the behaviour of `sel` / `head` / `tail` / `thin` and of n_node /
    n_edge (no exact sub-grid exists for a set of nodes or edges). -/
theorem asis_positional_slice_stale_grid (T : Table) (hT : (T .indexGrid).good = true) :
    ∃ s', step T w0 (.index .face (.len 3)) = some s' ∧ s'.arr.grid = some 0 ∧ ¬ Inv s' := by
  refine ⟨⟨w0.heap, ⟨true, some 0, [(.other 0, 3), (.face, 3)]⟩⟩, ?_, rfl, ?_⟩
  · have hb : build (T .indexGrid) w0.arr [(.other 0, 3), (.face, 3)] =
        ⟨true, some 0, [(.other 0, 3), (.face, 3)]⟩ := build_good hT rfl
    have hx : xdims (Op.index Dim.face (Sel.len 3)) w0.arr.dims = some [(.other 0, 3), (.face, 3)] := by
      decide
    simp only [step, stepX, Op.kind, Dim.isGrid, if_true, hx, hb]
  · intro hi
    exact absurd (attachedB_iff.mpr hi) (by decide)

/-- **`get_dual` REPAIRED keeps the invariant on EVERY mesh** — no hypothesis on the mesh (closed or partial,
    hanging nodes or not), for node- and face-centred data with any leading dimensions in any order -/
theorem get_dual_repaired_inv {T : Table} {s s' : State} {c : Counts} (hi : Inv s)
    (h : step T s (.getDualR c) = some s') : Inv s' :=
  step_preserves_inv ⟨rfl, fun k hk => by cases hk⟩ hi h

/-- the partial-mesh witness of `asis_get_dual_partial`, repaired: 12 node values → the 2 faces of the dual -/
theorem get_dual_repaired_witness :
    (step asIs ⟨[⟨⟨12, 17, 6⟩, 0⟩], ⟨true, some 0, [(.other 0, 2), (.node, 12)]⟩⟩ (.getDualR ⟨6, 7, 2⟩)).map (·.arr)
      = some ⟨true, some 1, [(.other 0, 2), (.face, 2)]⟩ := by decide

/-- AS IT STOOD for every centring (still the behaviour for edge-centred data):
    `get_dual` of a partial mesh: node-centred data keep their length but the dual has fewer faces -/
theorem asis_get_dual_partial :
    ∃ s', step asIs ⟨[⟨⟨12, 17, 6⟩, 0⟩], ⟨true, some 0, [(.node, 12)]⟩⟩ (.getDual false ⟨6, 7, 2⟩) = some s'
      ∧ ¬ Inv s' :=
  ⟨_, rfl, fun hi => absurd (attachedB_iff.mpr hi) (by decide)⟩

/-- the as-is deep copy on the witness: new grid object 2, same store 0 -/
theorem asis_deep_copy_witness :
    ∃ s', step asIs w0 (.copy true false) = some s' ∧ s'.arr.grid = some 2 ∧
      s'.heap[2]? = some ⟨⟨8, 12, 6⟩, 0⟩ ∧ specB w0 (.copy true false) s' w0.arr.dims = false :=
  ⟨_, rfl, rfl, rfl, by decide⟩

/-! non-vacuity: a six-step program mixing xarray operations with uxarray's own, run under the
    observed table, satisfies every hypothesis of `program_inv_asis_partial` and ends attached to the
    remap destination; a deep copy with its own store meets the step specification. -/
def progW : List Op :=
  [.elem .arith, .index (.other 0) .drop, .copy false false, .gradient, .remap 1 .node,
   .concatNew 5 2, .transpose [(.node, 12), (.other 5, 2)], .gridIsel ⟨4, 4, 1⟩]

example : ∀ op ∈ progW, Scoped op = true ∧ safeAsIs op = true := by decide
example : (run asIs w0 progW).map (·.arr) =
    some ⟨true, some 2, [(.node, 4), (.other 5, 2)]⟩ := by decide
example : ∃ s', run asIs w0 progW = some s' ∧ Inv s' :=
  ⟨_, rfl, attachedB_iff.mp (by decide)⟩
example : ∃ s', step asIs w0 (.copy true true) = some s' ∧ specB w0 (.copy true true) s' w0.arr.dims = true :=
  ⟨_, rfl, by decide⟩
example : ∃ s', step asIs w0 (.getDual true ⟨0, 0, 0⟩) = some s' ∧ Inv s' :=
  ⟨_, rfl, attachedB_iff.mp (by decide)⟩
example : ∀ k, ((fun _ => Path.replace : Table) k).good = true := fun _ => rfl
example : (run asIs w0 [(UxCall.remapIDW 1 .edge).op, .elem .arith, .reduce [.other 0]]).map (·.arr) =
    some ⟨true, some 1, [(.edge, 17)]⟩ := by decide
example : ∃ s', step asIs w0 (Op.ofCopy .data true) = some s' ∧ s'.arr.grid = some 2 ∧
    specB w0 (Op.ofCopy .data true) s' w0.arr.dims = true := ⟨_, rfl, rfl, by decide⟩
example : ∃ s', run asIs w0 [.elem .arith, .transpose [(.face, 6), (.other 0, 3)], Op.ofCopy .deepTrueData true]
    = some s' ∧ s'.arr.grid = some 2 ∧ Inv s' := ⟨_, rfl, rfl, attachedB_iff.mp (by decide)⟩
/-- element dimension FIRST: `(n_face: 6, t: 3)` sliced to a 2-face sub-grid is `(n_face: 2, t: 3)` -/
example : (run asIs w0 [.transpose [(.face, 6), (.other 0, 3)], .gridIsel ⟨6, 7, 2⟩]).map (·.arr) =
    some ⟨true, some 2, [(.face, 2), (.other 0, 3)]⟩ := by decide
example : (run asIs w0 [.expandDims 4 true, .gridIsel ⟨6, 7, 2⟩]).map (·.arr) =
    some ⟨true, some 2, [(.other 0, 3), (.face, 2), (.other 4, 1)]⟩ := by decide
example : OpGoodS asIs (.remap 1 .node) ∧ OpGoodS asIs (.copy true true) ∧ OpGoodS asIs (.index .face .drop) :=
  ⟨⟨⟨rfl, fun _ h => by cases h⟩, by decide⟩, ⟨⟨rfl, fun _ h => by cases h⟩, by decide⟩,
   ⟨⟨rfl, fun k h => by cases h; rfl⟩, by decide⟩⟩

end UxVerif.C10
