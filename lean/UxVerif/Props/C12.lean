/-
  C12 — Remapping picks true nearest sources and never invents values.

  Theorems about `UxVerif.Remap` (Model/Remap.lean), for lists of ANY length:

  * search      `kNearest_length/valid/nodup/minimal`, `kDists_sorted`, `kPairs_consistent`:
                the brute-force oracle used by the driver really returns the k nearest
                (over every linear order);
  * nearest     `nn_is_argmin`, `nn_meets_spec`, `nnSpecB_iff` (reflection of the decidable
                spec), `nn_identity_on_self`, `nnRow_identity` (distinct source points ⇒ remapping
                onto the source's own elements is the identity), `chordSq_pos` (the chord metric
                meets the hypotheses);
  * IDW         (every linear ordered field, every ε > 0, every monotone `d ↦ dᵖ`)
                `idw_weights_pos/nonneg`, `idw_weights_sum_one`, `idw_antitone`,
                `idw_weights_sorted`, `idw_between`, `idw_between_min_max`, `idw_const`,
                `idwAt_between_min_max`, `idwAt_const` (end to end: k-nearest selection + gather
                + weights), `natPow_ok` (every natural power is admissible),
                `idw_weights_meet_spec` / `idwAt_weights_meet_spec` / `idw_meets_within` (the
                decidable driver specs hold of the model with tolerance 0), `rpow_ok` (every real
                power p ≥ 0 is admissible over ℝ);
  * metric      `chord_le_iff_arc_le`: on unit vectors chord order = great-circle order (so the
                cartesian remap selects the great-circle-nearest elements);
  * coordinates `remapNN_depends_only_on_coords`, `remapIDW_depends_only_on_coords` (a remap sees the
                two grids only through the centre coordinates they report — not identity, not
                `Grid.__eq__`), `remapNN_identity_of_same_points` (the sound identity case is keyed
                on coordinate lists), `shortcut_on_equal_grids_wrong` (counterexample to a shortcut
                keyed on grid equality);
  * tree answer `knnAnswerB_sound`, `kNearest_is_answer`, `nn_from_tree_meets_spec`,
                `idw_from_tree_between`, `answer_unique`, `value_from_tree_eq_model`: NOTHING is assumed
                about sklearn — from the per-case judgement of the tree's answer (`knnAnswerB`) follow the
                nearest-neighbour spec, convexity and the weight spec of what the code computes from it,
                and (no equally distant sources) equality with the model;
  * wrapper     `remap_result_grid_is_destination` (dims/shape/attached grid OBJECT for every size),
                counterexample `fastpath_keeps_source_grid`;
  * dims/kind   `remap_dims`, `kind_by_dim`, `remap_shape`, `k_guard`, and the as-is
                counterexamples `asis_kind_by_length`, `asis_single_destination_drops_axis`,
                `asis_idw_single_destination_raises`, `asis_k_guard_refuses_admissible`, with the
                partial theorem `asis_kind_partial`.
-/
import Mathlib.Tactic.Ring
import Mathlib.Tactic.Linarith
import Mathlib.Tactic.FieldSimp
import Mathlib.Tactic.Positivity
import Mathlib.Algebra.Order.Field.Basic
import Mathlib.Algebra.Order.Field.Rat
import Mathlib.Algebra.BigOperators.Group.List.Lemmas
import Mathlib.Data.List.Perm.Subperm
import Mathlib.Data.List.Perm.Basic
import Mathlib.Analysis.SpecialFunctions.Trigonometric.Inverse
import Mathlib.Analysis.SpecialFunctions.Pow.Real
import UxVerif.Model.Remap
import UxVerif.Gen.Defaults

namespace UxVerif.C12
open UxVerif UxVerif.Remap

set_option linter.unusedSectionVars false

/-! ## 1. the brute-force k-nearest oracle is correct -/

section Search
variable {K : Type} [LinearOrder K]

theorem perm_insertBy (x : K × Nat) (l : List (K × Nat)) : (insertBy x l).Perm (x :: l) := by
  induction l with
  | nil => exact List.Perm.refl _
  | cons y ys ih =>
    unfold insertBy
    split
    · exact List.Perm.refl _
    · exact (List.Perm.cons y ih).trans (List.Perm.swap x y ys)

theorem sortBy_perm (l : List (K × Nat)) : (sortBy l).Perm l := by
  induction l with
  | nil => exact List.Perm.refl _
  | cons x xs ih =>
    show (insertBy x (sortBy xs)).Perm (x :: xs)
    exact (perm_insertBy x _).trans (List.Perm.cons x ih)

theorem pairwise_insertBy (x : K × Nat) (l : List (K × Nat))
    (h : l.Pairwise (fun a b => a.1 ≤ b.1)) : (insertBy x l).Pairwise (fun a b => a.1 ≤ b.1) := by
  induction l with
  | nil => simp [insertBy]
  | cons y ys ih =>
    rw [List.pairwise_cons] at h
    unfold insertBy
    split
    · rename_i hxy
      refine List.pairwise_cons.mpr ⟨?_, List.pairwise_cons.mpr h⟩
      intro z hz
      rcases List.mem_cons.mp hz with rfl | hz
      · exact hxy
      · exact le_trans hxy (h.1 z hz)
    · rename_i hxy
      refine List.pairwise_cons.mpr ⟨?_, ih h.2⟩
      intro z hz
      rcases List.mem_cons.mp ((perm_insertBy x ys).mem_iff.mp hz) with rfl | hz
      · exact le_of_lt (not_le.mp hxy)
      · exact h.1 z hz

theorem sortBy_pairwise (l : List (K × Nat)) : (sortBy l).Pairwise (fun a b => a.1 ≤ b.1) := by
  induction l with
  | nil => simp [sortBy]
  | cons x xs ih => exact pairwise_insertBy x _ ih

/-- every listed pair is a real `(D[i], i)` -/
theorem kPairs_consistent (D : List K) (k : Nat) (p : K × Nat) (hp : p ∈ kPairs D k) :
    D[p.2]? = some p.1 := by
  have : p ∈ D.zipIdx := (sortBy_perm _).mem_iff.mp (List.mem_of_mem_take hp)
  exact List.mem_zipIdx_iff_getElem?.mp this

theorem kNearest_length (D : List K) (k : Nat) : (kNearest D k).length = min k D.length := by
  simp [kNearest, kPairs, (sortBy_perm D.zipIdx).length_eq]

theorem kNearest_valid (D : List K) (k : Nat) (i : Nat) (hi : i ∈ kNearest D k) : i < D.length := by
  obtain ⟨p, hp, rfl⟩ := List.mem_map.mp hi
  have := kPairs_consistent D k p hp
  exact (List.getElem?_eq_some_iff.mp this).1

theorem kNearest_nodup (D : List K) (k : Nat) : (kNearest D k).Nodup := by
  have h1 : ((sortBy D.zipIdx).map (·.2)).Nodup := by
    have hp : ((sortBy D.zipIdx).map (·.2)).Perm (D.zipIdx.map (·.2)) := (sortBy_perm _).map _
    refine hp.nodup_iff.mpr ?_
    rw [List.zipIdx_map_snd]
    exact List.nodup_range'
  have : (kNearest D k) = (((sortBy D.zipIdx).map (·.2)).take k) := by
    simp [kNearest, kPairs, List.map_take]
  rw [this]
  exact h1.sublist (List.take_sublist _ _)

/-- **k-nearest, minimality**: every source element that was NOT selected is at least as far
    as every selected one. -/
theorem kNearest_minimal (D : List K) (k : Nat) (i j : Nat) (hi : i ∈ kNearest D k)
    (hj : j < D.length) (hnj : j ∉ kNearest D k) (hi' : i < D.length := kNearest_valid D k i hi) :
    D[i] ≤ D[j] := by
  obtain ⟨p, hp, rfl⟩ := List.mem_map.mp hi
  have hpD := kPairs_consistent D k p hp
  have hq : (D[j], j) ∈ sortBy D.zipIdx :=
    (sortBy_perm _).mem_iff.mpr (List.mem_zipIdx_iff_getElem?.mpr (by simp [hj]))
  rw [← List.take_append_drop k (sortBy D.zipIdx)] at hq
  have hsorted := sortBy_pairwise D.zipIdx
  rw [← List.take_append_drop k (sortBy D.zipIdx)] at hsorted
  rcases List.mem_append.mp hq with hq | hq
  · exact absurd (List.mem_map.mpr ⟨(D[j], j), hq, rfl⟩) hnj
  · have := (List.pairwise_append.mp hsorted).2.2 p hp (D[j], j) hq
    have e : D[p.2] = p.1 := by
      have := List.getElem?_eq_some_iff.mp hpD
      exact this.2
    simpa [e] using this

/-- nearest first -/
theorem kDists_sorted (D : List K) (k : Nat) : (kDists D k).Pairwise (· ≤ ·) := by
  have h := (sortBy_pairwise D.zipIdx).sublist (List.take_sublist k _)
  exact List.pairwise_map.mpr h

theorem kDists_length (D : List K) (k : Nat) : (kDists D k).length = min k D.length := by
  simp [kDists, kPairs, (sortBy_perm D.zipIdx).length_eq]

/-- the distances listed are the distances of the indices listed -/
theorem kDists_eq (D : List K) (k : Nat) : (kDists D k).map some = (kNearest D k).map (D[·]?) := by
  simp only [kDists, kNearest, List.map_map]
  apply List.map_congr_left
  intro p hp
  simp [kPairs_consistent D k p hp]

theorem kDists_mem (D : List K) (k : Nat) (d : K) (hd : d ∈ kDists D k) : d ∈ D := by
  obtain ⟨p, hp, rfl⟩ := List.mem_map.mp hd
  exact List.mem_of_getElem? (kPairs_consistent D k p hp)

end Search

/-! ## 2. nearest neighbour -/

section NN
variable {K : Type} [LinearOrder K]

/-- **nn_is_argmin**: with at least one source element, `query(k = 1)` of the model is one valid
    index, and no source element is nearer than it. -/
theorem nn_is_argmin (D : List K) (hD : D ≠ []) :
    ∃ i, kNearest D 1 = [i] ∧ ∃ h : i < D.length, ∀ j (hj : j < D.length), D[i] ≤ D[j] := by
  have hlen : (kNearest D 1).length = 1 := by
    rw [kNearest_length]
    have : 0 < D.length := List.length_pos_iff.mpr hD
    omega
  obtain ⟨i, hi⟩ := List.length_eq_one_iff.mp hlen
  have hmem : i ∈ kNearest D 1 := by simp [hi]
  have hv := kNearest_valid D 1 i hmem
  refine ⟨i, hi, hv, ?_⟩
  intro j hj
  by_cases hji : j = i
  · subst hji; exact le_refl _
  · exact kNearest_minimal D 1 i j hmem hj (by simp [hi, hji])

theorem isMinAt_iff (D : List K) (i : Nat) :
    isMinAt D i = true ↔ ∃ h : i < D.length, ∀ j (hj : j < D.length), D[i] ≤ D[j] := by
  unfold isMinAt
  constructor
  · intro h
    split at h
    · exact absurd h (by simp)
    · rename_i d hd
      obtain ⟨hi, rfl⟩ := List.getElem?_eq_some_iff.mp hd
      refine ⟨hi, fun j hj => ?_⟩
      have := List.all_eq_true.mp h D[j] (List.getElem_mem hj)
      simpa using this
  · rintro ⟨hi, h⟩
    rw [List.getElem?_eq_getElem hi]
    simp only [List.all_eq_true, decide_eq_true_eq]
    intro x hx
    obtain ⟨j, hj, rfl⟩ := List.getElem_of_mem hx
    exact h j hj

/-- reflection of the decidable nearest-neighbour specification evaluated by the driver -/
theorem nnSpecB_iff (D row : List K) (v : K) :
    nnSpecB D row v = true ↔
      ∃ i, ∃ (h : i < D.length) (h' : i < row.length),
        (∀ j (hj : j < D.length), D[i] ≤ D[j]) ∧ row[i] = v := by
  unfold nnSpecB
  simp only [List.any_eq_true, List.mem_range, Bool.and_eq_true]
  constructor
  · rintro ⟨i, _, hmin, hv⟩
    obtain ⟨hi, hmin⟩ := (isMinAt_iff D i).mp hmin
    split at hv
    · rename_i x hx
      obtain ⟨hi', rfl⟩ := List.getElem?_eq_some_iff.mp hx
      exact ⟨i, hi, hi', hmin, by simpa using hv⟩
    · exact absurd hv (by simp)
  · rintro ⟨i, hi, hi', hmin, rfl⟩
    refine ⟨i, hi, (isMinAt_iff D i).mpr ⟨hi, hmin⟩, ?_⟩
    rw [List.getElem?_eq_getElem hi']
    simp

/-- **the model meets the specification**: what the model returns at a destination point is the
    value of a nearest source element (for every data row of the right length). -/
theorem nn_meets_spec (D row : List K) (hD : D ≠ []) (hlen : row.length = D.length) :
    ∃ v, nnAt D row = some v ∧ nnSpecB D row v = true := by
  obtain ⟨i, hi, hv, hmin⟩ := nn_is_argmin D hD
  have hi' : i < row.length := by omega
  refine ⟨row[i], ?_, (nnSpecB_iff D row _).mpr ⟨i, hv, hi', hmin, rfl⟩⟩
  simp [nnAt, hi, List.getElem?_eq_getElem hi']

variable [Zero K]

/-- **nn_identity_on_self**: if the source points are pairwise distinct and the metric separates
    points, the nearest source element to source point `i` is `i` itself. -/
theorem nn_identity_on_self {P : Type} (dist : P → P → K) (h0 : ∀ a, dist a a = 0)
    (hpos : ∀ a b, a ≠ b → 0 < dist a b) (pts : List P) (hnd : pts.Nodup)
    (i : Nat) (hi : i < pts.length) :
    kNearest (pts.map (dist pts[i])) 1 = [i] := by
  have hD : pts.map (dist pts[i]) ≠ [] := by
    have : pts ≠ [] := by
      intro h
      subst h
      simp at hi
    simpa using this
  obtain ⟨i', hi', hv, hmin⟩ := nn_is_argmin _ hD
  rw [hi']
  have hv' : i' < pts.length := by simpa using hv
  have h1 := hmin i (by simpa using hi)
  simp only [List.getElem_map] at h1
  rw [h0] at h1
  by_cases hii : i' = i
  · rw [hii]
  · have hne : pts[i] ≠ pts[i'] := by
      intro he
      exact hii ((hnd.getElem_inj_iff).mp he).symm
    exact absurd (hpos _ _ hne) (not_lt.mpr h1)

/-- **remapping onto the source's own elements is the identity** (any row, any number of points) -/
theorem nnRow_identity {P : Type} (dist : P → P → K) (h0 : ∀ a, dist a a = 0)
    (hpos : ∀ a b, a ≠ b → 0 < dist a b) (pts : List P) (hnd : pts.Nodup)
    (row : List K) (hlen : row.length = pts.length) :
    nnRow dist pts pts row = row.map some := by
  apply List.ext_getElem
  · simp [nnRow, hlen]
  · intro j h1 h2
    have hj : j < pts.length := by simpa [nnRow] using h1
    simp only [nnRow, List.getElem_map]
    simp [nnAt, nn_identity_on_self dist h0 hpos pts hnd j hj, List.getElem?_eq_getElem (hlen ▸ hj)]

end NN

/-- the (squared) chord metric on 3-space separates points: the hypotheses of
    `nn_identity_on_self` are satisfiable by the metric the cartesian remap uses. -/
theorem chordSq_self {K : Type} [CommRing K] (a : K × K × K) : chordSq a a = 0 := by
  simp [chordSq, Remap.sq]

theorem chordSq_pos {K : Type} [CommRing K] [LinearOrder K] [IsStrictOrderedRing K]
    (a b : K × K × K) (h : a ≠ b) : 0 < chordSq a b := by
  rcases lt_or_ge 0 (chordSq a b) with hp | hn
  · exact hp
  · exfalso
    apply h
    simp only [chordSq, Remap.sq] at hn
    have h1 := mul_self_nonneg (a.1 - b.1)
    have h2 := mul_self_nonneg (a.2.1 - b.2.1)
    have h3 := mul_self_nonneg (a.2.2 - b.2.2)
    have e1 : (a.1 - b.1) * (a.1 - b.1) = 0 := by linarith
    have e2 : (a.2.1 - b.2.1) * (a.2.1 - b.2.1) = 0 := by linarith
    have e3 : (a.2.2 - b.2.2) * (a.2.2 - b.2.2) = 0 := by linarith
    have f1 := sub_eq_zero.mp (mul_self_eq_zero.mp e1)
    have f2 := sub_eq_zero.mp (mul_self_eq_zero.mp e2)
    have f3 := sub_eq_zero.mp (mul_self_eq_zero.mp e3)
    exact Prod.ext f1 (Prod.ext f2 f3)

/-- non-vacuity: three distinct points of ℚ³, nearest-neighbour remap onto themselves -/
example : nnRow (K := ℚ) chordSq [(1, 0, 0), (0, 1, 0), (0, 0, 1)] [(1, 0, 0), (0, 1, 0), (0, 0, 1)]
    [10, 20, 30] = [some 10, some 20, some 30] :=
  nnRow_identity chordSq chordSq_self chordSq_pos _ (by decide) _ rfl
example : kNearest ([5, 3, 9, 3, 7] : List ℚ) 3 = [1, 3, 0] := by decide +kernel
example : nnSpecB ([5, 3, 9, 3, 7] : List ℚ) [50, 30, 90, 31, 70] 31 = true := by decide +kernel
example : nnSpecB ([5, 3, 9, 3, 7] : List ℚ) [50, 30, 90, 31, 70] 50 = false := by decide +kernel

/-! ## 3. inverse-distance weighting -/

section MinMax
variable {K : Type} [LinearOrder K]

theorem minL_le_init (a : K) (l : List K) : minL a l ≤ a := by
  induction l generalizing a with
  | nil => exact le_refl _
  | cons x xs ih =>
    simp only [minL, List.foldl_cons]
    split
    · rename_i h; exact le_trans (ih x) h
    · exact ih a

theorem minL_le_mem (a : K) (l : List K) (v : K) (hv : v ∈ l) : minL a l ≤ v := by
  induction l generalizing a with
  | nil => simp at hv
  | cons x xs ih =>
    simp only [minL, List.foldl_cons]
    rcases List.mem_cons.mp hv with rfl | hv
    · split
      · exact minL_le_init _ xs
      · rename_i h; exact le_trans (minL_le_init a xs) (le_of_lt (not_le.mp h))
    · exact ih _ hv

theorem le_maxL_init (a : K) (l : List K) : a ≤ maxL a l := by
  induction l generalizing a with
  | nil => exact le_refl _
  | cons x xs ih =>
    simp only [maxL, List.foldl_cons]
    split
    · rename_i h; exact le_trans h (ih x)
    · exact ih a

theorem mem_le_maxL (a : K) (l : List K) (v : K) (hv : v ∈ l) : v ≤ maxL a l := by
  induction l generalizing a with
  | nil => simp at hv
  | cons x xs ih =>
    simp only [maxL, List.foldl_cons]
    rcases List.mem_cons.mp hv with rfl | hv
    · split
      · exact le_maxL_init _ xs
      · rename_i h; exact le_trans (le_of_lt (not_le.mp h)) (le_maxL_init a xs)
    · exact ih _ hv

/-- the minimum / maximum are attained: the interval `[minL, maxL]` is the tight one -/
theorem minL_mem (a : K) (l : List K) : minL a l ∈ a :: l := by
  induction l generalizing a with
  | nil => simp [minL]
  | cons x xs ih =>
    simp only [minL, List.foldl_cons]
    split
    · exact List.mem_cons_of_mem _ (ih x)
    · rcases List.mem_cons.mp (ih a) with h | h
      · rw [show List.foldl (fun m x => if x ≤ m then x else m) a xs = a from h]; simp
      · exact List.mem_cons_of_mem _ (List.mem_cons_of_mem _ h)

theorem maxL_mem (a : K) (l : List K) : maxL a l ∈ a :: l := by
  induction l generalizing a with
  | nil => simp [maxL]
  | cons x xs ih =>
    simp only [maxL, List.foldl_cons]
    split
    · exact List.mem_cons_of_mem _ (ih x)
    · rcases List.mem_cons.mp (ih a) with h | h
      · rw [show List.foldl (fun m x => if m ≤ x then x else m) a xs = a from h]; simp
      · exact List.mem_cons_of_mem _ (List.mem_cons_of_mem _ h)

end MinMax

section IDW
variable {K : Type} [Field K] [LinearOrder K] [IsStrictOrderedRing K]

/-- what is assumed of `d ↦ d ** power` on non-negative distances -/
structure PowOK (pw : K → K) : Prop where
  nonneg : ∀ a, 0 ≤ a → 0 ≤ pw a
  mono : ∀ a b, 0 ≤ a → a ≤ b → pw a ≤ pw b

/-- every natural power is admissible -/
theorem natPow_ok (n : ℕ) : PowOK (fun d : K => d ^ n) :=
  ⟨fun _ h => pow_nonneg h n, fun _ _ ha hab => pow_le_pow_left₀ ha hab n⟩

theorem sumL_eq_sum (l : List K) : sumL l = l.sum := by
  induction l with
  | nil => rfl
  | cons x xs ih => simp [sumL] at ih ⊢; rw [ih]

theorem sumL_cons (x : K) (l : List K) : sumL (x :: l) = x + sumL l := rfl

theorem sumL_pos (l : List K) (hl : l ≠ []) (h : ∀ x ∈ l, 0 < x) : 0 < sumL l := by
  induction l with
  | nil => exact absurd rfl hl
  | cons x xs ih =>
    rw [sumL_cons]
    by_cases hx : xs = []
    · subst hx; simpa [sumL] using h x (by simp)
    · exact add_pos (h x (by simp)) (ih hx (fun y hy => h y (List.mem_cons_of_mem _ hy)))

theorem sumL_map_div (l : List K) (s : K) : sumL (l.map (· / s)) = sumL l / s := by
  induction l with
  | nil => simp [sumL]
  | cons x xs ih => simp only [List.map_cons, sumL_cons, ih, add_div]

variable {pw : K → K} {eps : K}

theorem idwRaw_length (D : List K) : (idwRaw pw eps D).length = D.length := by simp [idwRaw]
theorem idwWeights_length (D : List K) : (idwWeights pw eps D).length = D.length := by
  simp [idwWeights, idwRaw]

theorem idwRaw_pos (hp : PowOK pw) (heps : 0 < eps) (D : List K) (hD : ∀ d ∈ D, 0 ≤ d) :
    ∀ r ∈ idwRaw pw eps D, 0 < r := by
  intro r hr
  obtain ⟨d, hd, rfl⟩ := List.mem_map.mp hr
  have : 0 < pw d + eps := add_pos_of_nonneg_of_pos (hp.nonneg d (hD d hd)) heps
  exact one_div_pos.mpr this

theorem idwRaw_sum_pos (hp : PowOK pw) (heps : 0 < eps) (D : List K) (hne : D ≠ [])
    (hD : ∀ d ∈ D, 0 ≤ d) : 0 < sumL (idwRaw pw eps D) :=
  sumL_pos _ (by simpa [idwRaw] using hne) (idwRaw_pos hp heps D hD)

/-- **idw_weights_pos**: every weight is strictly positive (so: non-negative) -/
theorem idw_weights_pos (hp : PowOK pw) (heps : 0 < eps) (D : List K) (hD : ∀ d ∈ D, 0 ≤ d) :
    ∀ w ∈ idwWeights pw eps D, 0 < w := by
  intro w hw
  obtain ⟨r, hr, rfl⟩ := List.mem_map.mp hw
  have hne : D ≠ [] := by
    intro h; subst h; simp [idwRaw] at hr
  exact div_pos (idwRaw_pos hp heps D hD r hr) (idwRaw_sum_pos hp heps D hne hD)

theorem idw_weights_nonneg (hp : PowOK pw) (heps : 0 < eps) (D : List K) (hD : ∀ d ∈ D, 0 ≤ d) :
    ∀ w ∈ idwWeights pw eps D, 0 ≤ w :=
  fun w hw => le_of_lt (idw_weights_pos hp heps D hD w hw)

/-- **idw_weights_sum_one** -/
theorem idw_weights_sum_one (hp : PowOK pw) (heps : 0 < eps) (D : List K) (hne : D ≠ [])
    (hD : ∀ d ∈ D, 0 ≤ d) : sumL (idwWeights pw eps D) = 1 := by
  simp only [idwWeights]
  rw [sumL_map_div]
  exact div_self (ne_of_gt (idwRaw_sum_pos hp heps D hne hD))

theorem idwWeights_getElem (D : List K) (i : Nat) (hi : i < D.length) :
    (idwWeights pw eps D)[i]'(by rw [idwWeights_length]; exact hi) =
      (1 / (pw D[i] + eps)) / sumL (idwRaw pw eps D) := by
  simp [idwWeights, idwRaw]

/-- **idw_antitone**: a source that is not farther never gets a smaller weight
    (`dᵢ ≤ dⱼ → wᵢ ≥ wⱼ`), whatever the length of the list -/
theorem idw_antitone (hp : PowOK pw) (heps : 0 < eps) (D : List K) (hD : ∀ d ∈ D, 0 ≤ d)
    (i j : Nat) (hi : i < D.length) (hj : j < D.length) (hij : D[i] ≤ D[j]) :
    (idwWeights pw eps D)[j]'(by rw [idwWeights_length]; exact hj) ≤
      (idwWeights pw eps D)[i]'(by rw [idwWeights_length]; exact hi) := by
  rw [idwWeights_getElem D i hi, idwWeights_getElem D j hj]
  have hne : D ≠ [] := by intro h; subst h; simp at hi
  have hS := idwRaw_sum_pos hp heps D hne hD
  have hdi := hD _ (List.getElem_mem hi)
  have h1 : 0 < pw D[i] + eps := add_pos_of_nonneg_of_pos (hp.nonneg _ hdi) heps
  have h2 : pw D[i] + eps ≤ pw D[j] + eps := by
    have := hp.mono _ _ hdi hij
    linarith
  exact div_le_div_of_nonneg_right (one_div_le_one_div_of_le h1 h2) (le_of_lt hS)

/-- listed nearest first, the weights never increase -/
theorem idw_weights_sorted (hp : PowOK pw) (heps : 0 < eps) (D : List K) (hD : ∀ d ∈ D, 0 ≤ d)
    (hs : D.Pairwise (· ≤ ·)) : (idwWeights pw eps D).Pairwise (· ≥ ·) := by
  rw [List.pairwise_iff_getElem]
  intro i j hi hj hij
  rw [idwWeights_length] at hi hj
  exact idw_antitone hp heps D hD i j hi hj (List.pairwise_iff_getElem.mp hs i j hi hj hij)

theorem dotL_cons (v w : K) (vs ws : List K) : dotL (v :: vs) (w :: ws) = v * w + dotL vs ws := rfl

theorem dotL_lower (lo : K) (vals ws : List K) (hlen : vals.length = ws.length)
    (hw : ∀ w ∈ ws, 0 ≤ w) (hv : ∀ v ∈ vals, lo ≤ v) : lo * sumL ws ≤ dotL vals ws := by
  induction vals generalizing ws with
  | nil =>
    cases ws with
    | nil => simp [dotL, sumL]
    | cons _ _ => simp at hlen
  | cons v vs ih =>
    cases ws with
    | nil => simp at hlen
    | cons w ws =>
      rw [dotL_cons, sumL_cons, mul_add]
      have h1 : lo * w ≤ v * w := mul_le_mul_of_nonneg_right (hv v (by simp)) (hw w (by simp))
      have h2 := ih ws (by simpa using hlen) (fun x hx => hw x (List.mem_cons_of_mem _ hx))
        (fun x hx => hv x (List.mem_cons_of_mem _ hx))
      linarith

theorem dotL_upper (hi : K) (vals ws : List K) (hlen : vals.length = ws.length)
    (hw : ∀ w ∈ ws, 0 ≤ w) (hv : ∀ v ∈ vals, v ≤ hi) : dotL vals ws ≤ hi * sumL ws := by
  induction vals generalizing ws with
  | nil =>
    cases ws with
    | nil => simp [dotL, sumL]
    | cons _ _ => simp at hlen
  | cons v vs ih =>
    cases ws with
    | nil => simp at hlen
    | cons w ws =>
      rw [dotL_cons, sumL_cons, mul_add]
      have h1 : v * w ≤ hi * w := mul_le_mul_of_nonneg_right (hv v (by simp)) (hw w (by simp))
      have h2 := ih ws (by simpa using hlen) (fun x hx => hw x (List.mem_cons_of_mem _ hx))
        (fun x hx => hv x (List.mem_cons_of_mem _ hx))
      linarith

theorem dotL_const (c : K) (vals ws : List K) (hlen : vals.length = ws.length)
    (hv : ∀ v ∈ vals, v = c) : dotL vals ws = c * sumL ws := by
  induction vals generalizing ws with
  | nil =>
    cases ws with
    | nil => simp [dotL, sumL]
    | cons _ _ => simp at hlen
  | cons v vs ih =>
    cases ws with
    | nil => simp at hlen
    | cons w ws =>
      rw [dotL_cons, sumL_cons, mul_add, hv v (by simp),
        ih ws (by simpa using hlen) (fun x hx => hv x (List.mem_cons_of_mem _ hx))]

/-- **convexity**: the IDW value lies between any lower and upper bound of the neighbour values -/
theorem idw_between (hp : PowOK pw) (heps : 0 < eps) (D vals : List K) (hne : D ≠ [])
    (hD : ∀ d ∈ D, 0 ≤ d) (hlen : vals.length = D.length) (lo hi : K)
    (hv : ∀ v ∈ vals, lo ≤ v ∧ v ≤ hi) :
    lo ≤ idwValue pw eps D vals ∧ idwValue pw eps D vals ≤ hi := by
  have hlen' : vals.length = (idwWeights pw eps D).length := by rw [idwWeights_length, hlen]
  have hw := idw_weights_nonneg hp heps D hD
  have h1 := idw_weights_sum_one hp heps D hne hD
  constructor
  · have := dotL_lower lo vals _ hlen' hw (fun v h => (hv v h).1)
    rw [h1, mul_one] at this
    exact this
  · have := dotL_upper hi vals _ hlen' hw (fun v h => (hv v h).2)
    rw [h1, mul_one] at this
    exact this

/-- **idw_between_min_max**: the result lies within `[min, max]` of the neighbour values, and
    that minimum and maximum are themselves neighbour values (nothing is invented) -/
theorem idw_between_min_max (hp : PowOK pw) (heps : 0 < eps) (D : List K) (v : K) (vs : List K)
    (hD : ∀ d ∈ D, 0 ≤ d) (hlen : (v :: vs).length = D.length) :
    minL v vs ≤ idwValue pw eps D (v :: vs) ∧ idwValue pw eps D (v :: vs) ≤ maxL v vs ∧
      minL v vs ∈ v :: vs ∧ maxL v vs ∈ v :: vs := by
  have hne : D ≠ [] := by
    intro h; subst h; simp at hlen
  have hb := idw_between hp heps D (v :: vs) hne hD hlen (minL v vs) (maxL v vs) (by
    intro x hx
    rcases List.mem_cons.mp hx with rfl | hx
    · exact ⟨minL_le_init _ _, le_maxL_init _ _⟩
    · exact ⟨minL_le_mem _ _ _ hx, mem_le_maxL _ _ _ hx⟩)
  exact ⟨hb.1, hb.2, minL_mem _ _, maxL_mem _ _⟩

/-- **idw_const**: a constant field is reproduced -/
theorem idw_const (hp : PowOK pw) (heps : 0 < eps) (D vals : List K) (hne : D ≠ [])
    (hD : ∀ d ∈ D, 0 ≤ d) (hlen : vals.length = D.length) (c : K) (hv : ∀ v ∈ vals, v = c) :
    idwValue pw eps D vals = c := by
  have hlen' : vals.length = (idwWeights pw eps D).length := by rw [idwWeights_length, hlen]
  unfold idwValue
  rw [dotL_const c vals _ hlen' hv, idw_weights_sum_one hp heps D hne hD, mul_one]

/-! ### the decidable driver specifications hold of the model with tolerance 0 -/

theorem withinB_iff (tol : K) (vals : List K) (x : K) :
    withinB tol vals x = true ↔
      ∃ v vs, vals = v :: vs ∧ minL v vs - tol ≤ x ∧ x ≤ maxL v vs + tol := by
  cases vals with
  | nil => simp [withinB]
  | cons v vs => simp [withinB]

theorem idw_meets_within (hp : PowOK pw) (heps : 0 < eps) (D vals : List K) (hne : D ≠ [])
    (hD : ∀ d ∈ D, 0 ≤ d) (hlen : vals.length = D.length) :
    withinB 0 vals (idwValue pw eps D vals) = true := by
  cases vals with
  | nil => exact absurd (List.length_eq_zero_iff.mp (by simpa using hlen.symm)) hne
  | cons v vs =>
    have h := idw_between_min_max hp heps D v vs hD hlen
    simp [withinB, h.1, h.2.1]

theorem pairwiseB_iff {α : Type} (R : α → α → Bool) (l : List α) :
    pairwiseB R l = true ↔ l.Pairwise (fun a b => R a b = true) := by
  induction l with
  | nil => simp [pairwiseB]
  | cons a l ih => simp [pairwiseB, ih, List.pairwise_cons]

theorem idw_weights_meet_spec (hp : PowOK pw) (heps : 0 < eps) (D : List K) (hne : D ≠ [])
    (hD : ∀ d ∈ D, 0 ≤ d) (hs : D.Pairwise (· ≤ ·)) :
    weightsOkB 0 (idwWeights pw eps D) = true := by
  have h1 := idw_weights_sum_one hp heps D hne hD
  have h2 := idw_weights_nonneg hp heps D hD
  have h3 := idw_weights_sorted hp heps D hD hs
  simp only [weightsOkB, Bool.and_eq_true, List.all_eq_true, decide_eq_true_eq, pairwiseB_iff,
    h1, sub_zero, add_zero, le_refl, and_true]
  exact ⟨h2, h3.imp (fun h => h)⟩

end IDW

/-! ## 4. end to end at one destination point: selection + gather + weights -/

section EndToEnd
variable {K : Type} [Field K] [LinearOrder K] [IsStrictOrderedRing K] {pw : K → K} {eps : K}

theorem gather_length (row : List K) (idx : List Nat) (h : ∀ i ∈ idx, i < row.length) :
    (gather row idx).length = idx.length := by
  induction idx with
  | nil => rfl
  | cons i is ih =>
    have hi : i < row.length := h i (by simp)
    simp only [gather, List.filterMap_cons, List.getElem?_eq_getElem hi, List.length_cons]
    exact congrArg (· + 1) (ih (fun j hj => h j (List.mem_cons_of_mem _ hj)))

theorem gather_mem (row : List K) (idx : List Nat) (v : K) (hv : v ∈ gather row idx) : v ∈ row := by
  obtain ⟨i, _, hi⟩ := List.mem_filterMap.mp hv
  exact List.mem_of_getElem? hi

/-- by definition the value is the weighted sum over exactly the `k` nearest source elements -/
theorem idwAt_eq (k : Nat) (D row : List K) :
    idwAt pw eps k D row = dotL (gather row (kNearest D k)) (idwWeights pw eps (kDists D k)) := rfl

/-- **IDW end to end**: for every distance list, every `k ≥ 1` and every data row, the value at
    a destination point lies between the minimum and the maximum of the values of the
    `min k n` nearest source elements, which are entries of the data row. -/
theorem idwAt_between_min_max (hp : PowOK pw) (heps : 0 < eps) (k : Nat) (hk : 1 ≤ k)
    (D row : List K) (hne : D ≠ []) (hD : ∀ d ∈ D, 0 ≤ d) (hlen : row.length = D.length) :
    ∃ v vs, gather row (kNearest D k) = v :: vs ∧ (v :: vs).length = min k D.length ∧
      minL v vs ≤ idwAt pw eps k D row ∧ idwAt pw eps k D row ≤ maxL v vs ∧
      minL v vs ∈ row ∧ maxL v vs ∈ row := by
  have hgl : (gather row (kNearest D k)).length = min k D.length := by
    rw [gather_length _ _ (fun i hi => hlen ▸ kNearest_valid D k i hi), kNearest_length]
  have hpos : 0 < D.length := List.length_pos_iff.mpr hne
  cases hg : gather row (kNearest D k) with
  | nil => rw [hg] at hgl; simp at hgl; omega
  | cons v vs =>
    rw [hg] at hgl
    have hDk : ∀ d ∈ kDists D k, 0 ≤ d := fun d hd => hD d (kDists_mem D k d hd)
    have hl : (v :: vs).length = (kDists D k).length := by rw [hgl, kDists_length]
    have h := idw_between_min_max (pw := pw) hp heps (kDists D k) v vs hDk hl
    have hmem : ∀ x ∈ v :: vs, x ∈ row := fun x hx => gather_mem row _ x (hg ▸ hx)
    refine ⟨v, vs, rfl, hgl, ?_, ?_, hmem _ h.2.2.1, hmem _ h.2.2.2⟩
    · simpa [idwAt, hg] using h.1
    · simpa [idwAt, hg] using h.2.1

/-- **constant fields are reproduced** end to end -/
theorem idwAt_const (hp : PowOK pw) (heps : 0 < eps) (k : Nat) (hk : 1 ≤ k)
    (D row : List K) (hne : D ≠ []) (hD : ∀ d ∈ D, 0 ≤ d) (hlen : row.length = D.length)
    (c : K) (hc : ∀ v ∈ row, v = c) : idwAt pw eps k D row = c := by
  have hpos : 0 < D.length := List.length_pos_iff.mpr hne
  have hDk : ∀ d ∈ kDists D k, 0 ≤ d := fun d hd => hD d (kDists_mem D k d hd)
  have hkne : kDists D k ≠ [] := by
    intro h
    have := kDists_length D k
    rw [h, List.length_nil] at this
    omega
  apply idw_const hp heps _ _ hkne hDk
  · rw [gather_length _ _ (fun i hi => hlen ▸ kNearest_valid D k i hi), kNearest_length,
      kDists_length]
  · exact fun v hv => hc v (gather_mem row _ v hv)

/-- the weights the model attaches to the `k` nearest (listed nearest first) meet the decidable
    weight specification the driver evaluates on the implementation's weights -/
theorem idwAt_weights_meet_spec (hp : PowOK pw) (heps : 0 < eps) (k : Nat) (hk : 1 ≤ k)
    (D : List K) (hne : D ≠ []) (hD : ∀ d ∈ D, 0 ≤ d) :
    weightsOkB 0 (idwWeights pw eps (kDists D k)) = true := by
  have hpos : 0 < D.length := List.length_pos_iff.mpr hne
  have hkne : kDists D k ≠ [] := by
    intro h
    have := kDists_length D k
    rw [h, List.length_nil] at this
    omega
  exact idw_weights_meet_spec hp heps _ hkne (fun d hd => hD d (kDists_mem D k d hd))
    (kDists_sorted D k)

/-- every leading-dimension index is remapped by the same rule -/
theorem remap_rows {α β : Type} (f : List α → β) (rows : List (List α)) (r : Nat)
    (h : r < rows.length) : (remapRows f rows)[r]'(by simpa [remapRows] using h) = f rows[r] := by
  simp [remapRows]

end EndToEnd

/-- non-vacuity: the hypotheses of the end-to-end theorems are met by a concrete input
    (ℚ, power 2, ε = 10⁻⁶, 3 nearest of 5 sources) -/
example : ∃ v vs, gather ([50, 30, 90, 31, 70] : List ℚ) (kNearest [5, 3, 9, 0, 7] 3) = v :: vs ∧
    (v :: vs).length = min 3 5 ∧
    minL v vs ≤ idwAt (fun d => d ^ 2) (1 / 1000000) 3 [5, 3, 9, 0, 7] [50, 30, 90, 31, 70] ∧
    idwAt (fun d => d ^ 2) (1 / 1000000) 3 [5, 3, 9, 0, 7] [50, 30, 90, 31, 70] ≤ maxL v vs ∧
    minL v vs ∈ ([50, 30, 90, 31, 70] : List ℚ) ∧ maxL v vs ∈ ([50, 30, 90, 31, 70] : List ℚ) :=
  idwAt_between_min_max (K := ℚ) (pw := fun d => d ^ 2) (eps := 1 / 1000000) (natPow_ok 2)
    (by norm_num) 3 (by norm_num) [5, 3, 9, 0, 7] [50, 30, 90, 31, 70] (by simp)
    (by intro d hd; simp at hd; rcases hd with rfl | rfl | rfl | rfl | rfl <;> norm_num) rfl
/-- non-vacuity (ℚ, power 2, ε = 10⁻⁶): 3 nearest of 5 sources -/
example : idwAt (K := ℚ) (fun d => d ^ 2) (1 / 1000000) 3 [5, 3, 9, 0, 7] [50, 30, 90, 31, 70]
    = 6975002254000111 / 225000068000003 := by decide +kernel
example : withinB (0 : ℚ) (gather [50, 30, 90, 31, 70] (kNearest ([5, 3, 9, 0, 7] : List ℚ) 3))
    (idwAt (K := ℚ) (fun d => d ^ 2) (1 / 1000000) 3 [5, 3, 9, 0, 7] [50, 30, 90, 31, 70]) = true := by
  decide +kernel
example : weightsOkB (0 : ℚ) (idwWeights (fun d => d ^ 2) (1 / 1000000) [0, 3, 5]) = true := by
  decide +kernel
example : withinB (0 : ℚ) [30, 31, 50] 51 = false := by decide +kernel
example : weightsOkB (0 : ℚ) [1/4, 1/2, 1/4] = false := by decide +kernel

/-! ## 5. dimensions, element kind, shape, `k` guard -/

/-- **remap_dims**: the output dimensions are the input's with the last one replaced by the
    destination's; nothing else changes. -/
theorem remap_dims (dims : List Dim) (dest : Kind) (h : dims ≠ []) :
    ∃ o, outDims dims dest = some o ∧ o.length = dims.length ∧ o.dropLast = dims.dropLast ∧
      o.getLast? = some dest.dim := by
  refine ⟨dims.dropLast ++ [dest.dim], ?_, ?_, ?_, ?_⟩
  · simp [outDims, h]
  · have : 0 < dims.length := List.length_pos_iff.mpr h
    simp; omega
  · simp
  · simp

theorem remap_dims_scalar (dest : Kind) : outDims [] dest = none := rfl

theorem remap_shape (lead : List Nat) (nDst : Nat) :
    (outShape lead nDst).dropLast = lead ∧ (outShape lead nDst).getLast? = some nDst := by
  simp [outShape]

/-- **kind_by_dim**: the source element kind is determined by the NAME of the data's last
    dimension — for every grid size and every length. -/
theorem kind_by_dim (c : Counts) (dims : List Dim) (len : Nat) (k : Kind)
    (h : dims.getLast? = some k.dim) : sourceKind c dims len = some k := by
  cases k <;> simp [sourceKind, h, Kind.dim, Dim.kind?]

/-- only when the last dimension is not a grid dimension is the length consulted -/
theorem kind_fallback (c : Counts) (dims : List Dim) (len : Nat) (n : Nat)
    (h : dims.getLast? = some (.other n)) : sourceKind c dims len = kindByLen c len := by
  simp [sourceKind, h, Dim.kind?]

/-- as-is counterexample (tetrahedron, `n_node = n_face = 4`, `n_edge = 6`): face-centred data
    are taken for node-centred data. -/
theorem asis_kind_by_length :
    ¬ (∀ (c : Counts) (dims : List Dim) (len : Nat) (k : Kind),
        dims.getLast? = some k.dim → len = c.of k → sourceKindAsIs c dims len = some k) := by
  intro h
  have := h ⟨4, 4, 6⟩ [.face] 4 .face rfl rfl
  revert this
  decide

/-- single polygon / isolated polygons (`n_node = n_edge`): edge data are taken for node data -/
theorem asis_kind_by_length_edge : sourceKindAsIs ⟨3, 1, 3⟩ [.edge] 3 = some .node := by decide

/-- the as-is rule is right on grids whose three element counts are pairwise different -/
theorem asis_kind_partial (c : Counts) (dims : List Dim) (len : Nat) (k : Kind)
    (hlen : len = c.of k) (h1 : c.nNode ≠ c.nFace) (h2 : c.nNode ≠ c.nEdge) (h3 : c.nFace ≠ c.nEdge) :
    sourceKindAsIs c dims len = some k := by
  cases k <;> simp [sourceKindAsIs, kindByLen, Counts.of] at * <;> subst hlen <;> simp [*, Ne.symm]

theorem asis_single_destination_drops_axis : outShapeNNAsIs [2] 1 ≠ outShape [2] 1 := by decide
theorem asis_idw_single_destination_raises (lead : List Nat) : outShapeIDWAsIs lead 1 = none := rfl
theorem asis_shape_partial (lead : List Nat) (nDst : Nat) (h : nDst ≠ 1) :
    outShapeNNAsIs lead nDst = outShape lead nDst ∧
      outShapeIDWAsIs lead nDst = some (outShape lead nDst) := by
  simp [outShapeNNAsIs, outShapeIDWAsIs, outShape, h]

/-- **k guard** (repaired): accepted exactly for `2 ≤ k ≤` number of source elements -/
theorem k_guard (k nSrc : Nat) : kAdmissible k nSrc = true ↔ 2 ≤ k ∧ k ≤ nSrc := by
  simp [kAdmissible]

/-- as-is counterexample: face data on a 12-node / 20-face triangulation, `k = 15` is refused -/
theorem asis_k_guard_refuses_admissible :
    kAdmissible 15 20 = true ∧ kAcceptedAsIs 15 20 12 = false := by decide

theorem asis_k_guard_partial (k nSrc nNode : Nat) (h : nSrc ≤ nNode) :
    kAcceptedAsIs k nSrc nNode = kAdmissible k nSrc := by
  simp only [kAcceptedAsIs, kAdmissible]
  by_cases h1 : k ≤ nSrc
  · have : k ≤ nNode := le_trans h1 h
    simp [h1, this]
  · simp [h1]

example : outDims [.other 0, .other 1, .face] .node = some [.other 0, .other 1, .node] := by decide
example : sourceKind ⟨4, 4, 6⟩ [.other 0, .face] 4 = some .face := by decide

/-! ## 6. real exponents; chord-nearest = great-circle-nearest on unit vectors -/

/-- every real power `p ≥ 0` is admissible (`distances ** power` with a float `power`) -/
theorem rpow_ok (p : ℝ) (hp : 0 ≤ p) : PowOK (fun d : ℝ => d ^ p) :=
  ⟨fun _ h => Real.rpow_nonneg h p, fun _ _ ha hab => Real.rpow_le_rpow ha hab hp⟩

def dot3 {K : Type} [Add K] [Mul K] (a b : K × K × K) : K := a.1 * b.1 + a.2.1 * b.2.1 + a.2.2 * b.2.2

/-- for unit vectors the squared chord is `2 − 2 a·b` -/
theorem chordSq_unit {K : Type} [CommRing K] (a b : K × K × K) (ha : dot3 a a = 1) (hb : dot3 b b = 1) :
    chordSq a b = 2 - 2 * dot3 a b := by
  simp only [chordSq, Remap.sq, dot3] at *
  linear_combination ha + hb

/-- the cartesian remap's order of candidates (chord) is the order by great-circle angle
    `arccos (q·p)`: for unit vectors, `p₁` is not farther from `q` than `p₂` by chord iff it is
    not farther by great-circle distance.  (So both coordinate types select the same nearest
    elements whenever the grid's xyz are the unit vectors of its lon/lat.) -/
theorem chord_le_iff_arc_le (q p₁ p₂ : ℝ × ℝ × ℝ) (hq : dot3 q q = 1) (h1 : dot3 p₁ p₁ = 1)
    (h2 : dot3 p₂ p₂ = 1) :
    chordSq q p₁ ≤ chordSq q p₂ ↔ Real.arccos (dot3 q p₁) ≤ Real.arccos (dot3 q p₂) := by
  have bound : ∀ p : ℝ × ℝ × ℝ, dot3 p p = 1 → dot3 q p ∈ Set.Icc (-1 : ℝ) 1 := by
    intro p hp
    have e1 := chordSq_unit q p hq hp
    have n1 : 0 ≤ chordSq q p := by
      simp only [chordSq, Remap.sq]
      have a1 := mul_self_nonneg (q.1 - p.1)
      have a2 := mul_self_nonneg (q.2.1 - p.2.1)
      have a3 := mul_self_nonneg (q.2.2 - p.2.2)
      linarith
    have n2 : 0 ≤ (q.1 + p.1) * (q.1 + p.1) + (q.2.1 + p.2.1) * (q.2.1 + p.2.1)
        + (q.2.2 + p.2.2) * (q.2.2 + p.2.2) := by
      have a1 := mul_self_nonneg (q.1 + p.1)
      have a2 := mul_self_nonneg (q.2.1 + p.2.1)
      have a3 := mul_self_nonneg (q.2.2 + p.2.2)
      linarith
    have e2 : (q.1 + p.1) * (q.1 + p.1) + (q.2.1 + p.2.1) * (q.2.1 + p.2.1)
        + (q.2.2 + p.2.2) * (q.2.2 + p.2.2) = 2 + 2 * dot3 q p := by
      simp only [dot3] at *
      linear_combination hq + hp
    constructor <;> linarith
  rw [Real.strictAntiOn_arccos.le_iff_ge (bound p₁ h1) (bound p₂ h2),
    chordSq_unit q p₁ hq h1, chordSq_unit q p₂ hq h2]
  constructor <;> intro h <;> linarith

/-- non-vacuity: unit vectors exist (the three coordinate axes) -/
example : chordSq ((1 : ℝ), (0 : ℝ), (0 : ℝ)) (0, 1, 0) ≤ chordSq ((1 : ℝ), (0 : ℝ), (0 : ℝ)) (0, 0, 1) ↔
    Real.arccos (dot3 ((1 : ℝ), (0 : ℝ), (0 : ℝ)) (0, 1, 0)) ≤ Real.arccos (dot3 ((1 : ℝ), (0 : ℝ), (0 : ℝ)) (0, 0, 1)) :=
  chord_le_iff_arc_le _ _ _ (by simp [dot3]) (by simp [dot3]) (by simp [dot3])

/-! ### the default arguments (regenerated from `inspect.signature` on every run) -/

/-- the default `k` passes the guard on every source with at least that many elements, the default
    `power` is a natural number (so `natPow_ok` applies and the convexity theorems cover the
    default call), and both remappers default to the same destination and coordinate type. -/
theorem idw_defaults_admissible :
    (∀ nSrc : Nat, Gen.Defaults.idw_k.toNat ≤ nSrc → kAdmissible Gen.Defaults.idw_k.toNat nSrc = true) ∧
    0 ≤ Gen.Defaults.idw_power ∧ 2 ≤ Gen.Defaults.idw_k ∧
    Gen.Defaults.idw_remap_to = Gen.Defaults.nn_remap_to ∧
    Gen.Defaults.idw_coord_type = Gen.Defaults.nn_coord_type := by
  refine ⟨?_, by decide, by decide, by decide, by decide⟩
  intro nSrc h
  rw [k_guard]
  exact ⟨by decide, h⟩

/-! ## 7. a remap depends on the two grids only through the centre coordinates they report -/

section Views
variable {K : Type} [LinearOrder K] {P : Type}

/-- **coordinates only (nearest neighbour)**: two source grids reporting the same centres for the
    data's kind, and two destination grids reporting the same centres for the requested kind, give
    the same result — whatever their identity, their `__eq__` key and all their other tables. -/
theorem remapNN_depends_only_on_coords (dist : P → P → K) (S S' D D' : GridView P) (sk dk : Kind)
    (hs : S.pts sk = S'.pts sk) (hd : D.pts dk = D'.pts dk) (row : List K) :
    remapNN dist S D sk dk row = remapNN dist S' D' sk dk row := by
  simp [remapNN, hs, hd]

/-- the only sound "identity" case is keyed on the COORDINATES: the destination reports, for the
    requested kind, exactly the (pairwise distinct) points the source reports for the data's kind -/
theorem remapNN_identity_of_same_points [Zero K] (dist : P → P → K) (h0 : ∀ a, dist a a = 0)
    (hpos : ∀ a b, a ≠ b → 0 < dist a b) (S D : GridView P) (sk dk : Kind)
    (hpts : D.pts dk = S.pts sk) (hnd : (S.pts sk).Nodup) (row : List K)
    (hlen : row.length = (S.pts sk).length) :
    remapNN dist S D sk dk row = row.map some := by
  simp only [remapNN, hpts]
  exact nnRow_identity dist h0 hpos _ hnd row hlen

end Views

/-- **coordinates only (IDW)** -/
theorem remapIDW_depends_only_on_coords {K : Type} [Field K] [LinearOrder K] {P : Type}
    (dist : P → P → K) (pw : K → K) (eps : K) (k : Nat) (S S' D D' : GridView P) (sk dk : Kind)
    (hs : S.pts sk = S'.pts sk) (hd : D.pts dk = D'.pts dk) (row : List K) :
    remapIDW dist pw eps k S D sk dk row = remapIDW dist pw eps k S' D' sk dk row := by
  simp [remapIDW, hs, hd]

/-- counterexample to any shortcut keyed on grid EQUALITY: two grids with the same `__eq__` key
    (same nodes and face table) whose edge centres are listed in another order (a source-supplied
    edge table).  Edge data `[10, 20]`: the nearest-neighbour remap gives `[20, 10]`, the shortcut
    returns `[10, 20]`. -/
theorem shortcut_on_equal_grids_wrong :
    ∃ (S D : GridView ℚ) (row : List ℚ), S.eqKey = D.eqKey ∧ S.ident ≠ D.ident ∧
      remapNN (fun a b => (a - b) * (a - b)) S D .edge .edge row = [some 20, some 10] ∧
      remapNNShortcut (fun a b => (a - b) * (a - b)) S D .edge .edge row = [some 10, some 20] := by
  refine ⟨⟨0, 7, fun _ => [0, 1]⟩, ⟨1, 7, fun _ => [1, 0]⟩, [10, 20], rfl, by decide, ?_, ?_⟩
  · decide +kernel
  · decide +kernel

/-! ## 8. nothing is assumed about the tree: everything follows from the per-case judgement of
       its answer (`knnAnswerB`, evaluated by the driver on what `BallTree.query` returned) -/

section TreeAnswer
variable {K : Type} [Field K] [LinearOrder K] [IsStrictOrderedRing K]

/-- the tree's answer for one destination point meets the k-nearest specification (exact form) -/
structure KnnAnswer (D : List K) (k : Nat) (idx : List Nat) (ds : List K) : Prop where
  len : idx.length = min k D.length
  nodup : idx.Nodup
  dists : ds.map some = idx.map (D[·]?)
  sorted : ds.Pairwise (· ≤ ·)
  minimal : ∀ i ∈ idx, ∀ j, j < D.length → j ∉ idx → ∀ a b, D[i]? = some a → D[j]? = some b → a ≤ b

/-- the decidable judgement the driver evaluates (tolerance 0) implies the specification -/
theorem knnAnswerB_sound (D : List K) (k : Nat) (idx : List Nat) (ds : List K)
    (h : knnAnswerB 0 D k idx ds = true) : KnnAnswer D k idx ds := by
  simp only [knnAnswerB, Bool.and_eq_true, beq_iff_eq, decide_eq_true_eq, List.all_eq_true,
    pairwiseB_iff, sub_zero, add_zero, List.mem_range, Bool.or_eq_true, List.contains_iff_mem] at h
  obtain ⟨⟨⟨⟨⟨h1, h2⟩, h3⟩, h4⟩, h5⟩, h6⟩ := h
  refine ⟨h1, h3, ?_, h5, ?_⟩
  · apply List.ext_getElem
    · simp [h2]
    · intro n hn1 hn2
      simp only [List.getElem_map]
      have hn : n < idx.length := by simpa using hn2
      have hn' : n < ds.length := by simpa using hn1
      have hz : (idx[n], ds[n]) ∈ List.zip idx ds := by
        have : (List.zip idx ds)[n]'(by simp [hn, hn']) = (idx[n], ds[n]) := by simp
        rw [← this]; exact List.getElem_mem _
      have := h4 _ hz
      split at this
      · rename_i d hd
        simp only [Bool.and_eq_true, decide_eq_true_eq] at this
        have : d = ds[n] := le_antisymm this.1 this.2
        simp [hd, this]
      · exact absurd this (by simp)
  · intro i hi j hj hnj a b ha hb
    rcases h6 i hi j hj with hc | hc
    · exact absurd hc hnj
    · simpa [ha, hb] using hc

/-- the model's own brute-force answer meets the specification (so the hypothesis is satisfiable
    for every distance list and every `k`) -/
theorem kNearest_is_answer (D : List K) (k : Nat) : KnnAnswer D k (kNearest D k) (kDists D k) := by
  refine ⟨kNearest_length D k, kNearest_nodup D k, kDists_eq D k, kDists_sorted D k, ?_⟩
  intro i hi j hj hnj a b ha hb
  have hi' := kNearest_valid D k i hi
  have := kNearest_minimal D k i j hi hj hnj
  rw [List.getElem?_eq_getElem hi'] at ha
  rw [List.getElem?_eq_getElem hj] at hb
  simp only [Option.some.injEq] at ha hb
  rw [← ha, ← hb]; exact this

variable {D : List K} {k : Nat} {idx : List Nat} {ds : List K}

theorem KnnAnswer.valid (h : KnnAnswer D k idx ds) (i : Nat) (hi : i ∈ idx) : i < D.length := by
  obtain ⟨n, hn, rfl⟩ := List.getElem_of_mem hi
  have := congrArg (·[n]?) h.dists
  simp only [List.getElem?_map, List.getElem?_eq_getElem hn, Option.map_some] at this
  cases hd : ds[n]? with
  | none => simp [hd] at this
  | some d =>
    simp only [hd, Option.map_some] at this
    exact (List.getElem?_eq_some_iff.mp (Option.some.inj this).symm).1

theorem KnnAnswer.ds_length (h : KnnAnswer D k idx ds) : ds.length = idx.length := by
  simpa using congrArg List.length h.dists

theorem KnnAnswer.ds_mem (h : KnnAnswer D k idx ds) (d : K) (hd : d ∈ ds) : d ∈ D := by
  have : some d ∈ ds.map some := List.mem_map_of_mem hd
  rw [h.dists] at this
  obtain ⟨i, _, hi⟩ := List.mem_map.mp this
  exact List.mem_of_getElem? hi

/-- **nearest neighbour from the tree's answer**: if the answer to `query(k = 1)` meets the
    specification, the value the code takes (`source_data[idx[:, 0]]`) is the value of a nearest
    source element — whichever of several equally near ones the tree picked. -/
theorem nn_from_tree_meets_spec (h : KnnAnswer D 1 idx ds) (hD : D ≠ []) (row : List K)
    (hlen : row.length = D.length) : ∃ v, nnFrom idx row = some v ∧ nnSpecB D row v = true := by
  have hpos : 0 < D.length := List.length_pos_iff.mpr hD
  have hl : idx.length = 1 := by rw [h.len]; omega
  obtain ⟨i, rfl⟩ := List.length_eq_one_iff.mp hl
  have hi : i < D.length := h.valid i (by simp)
  have hi' : i < row.length := by omega
  refine ⟨row[i], by simp [nnFrom, List.getElem?_eq_getElem hi'], ?_⟩
  refine (nnSpecB_iff D row _).mpr ⟨i, hi, hi', ?_, rfl⟩
  intro j hj
  by_cases hji : j = i
  · subst hji; exact le_refl _
  · exact h.minimal i (by simp) j hj (by simp [hji]) _ _ (List.getElem?_eq_getElem hi)
      (List.getElem?_eq_getElem hj)

variable {pw : K → K} {eps : K}

/-- **IDW from the tree's answer**: if the answer meets the specification, the value the code
    computes from it lies within [min, max] of the values of the returned sources (entries of the
    data row), and the weights it uses meet the decidable weight specification. -/
theorem idw_from_tree_between (h : KnnAnswer D k idx ds) (hp : PowOK pw) (heps : 0 < eps)
    (hk : 1 ≤ k) (hD : D ≠ []) (hnn : ∀ d ∈ D, 0 ≤ d) (row : List K) (hlen : row.length = D.length) :
    ∃ v vs, gather row idx = v :: vs ∧ (v :: vs).length = min k D.length ∧
      minL v vs ≤ idwFrom pw eps idx ds row ∧ idwFrom pw eps idx ds row ≤ maxL v vs ∧
      minL v vs ∈ row ∧ maxL v vs ∈ row ∧ weightsOkB 0 (idwWeights pw eps ds) = true := by
  have hpos : 0 < D.length := List.length_pos_iff.mpr hD
  have hgl : (gather row idx).length = min k D.length := by
    rw [gather_length _ _ (fun i hi => hlen ▸ h.valid i hi), h.len]
  have hds : ∀ d ∈ ds, 0 ≤ d := fun d hd => hnn d (h.ds_mem d hd)
  have hdne : ds ≠ [] := by
    intro he
    have := h.ds_length
    rw [he, h.len] at this
    simp at this; omega
  cases hg : gather row idx with
  | nil => rw [hg] at hgl; simp at hgl; omega
  | cons v vs =>
    rw [hg] at hgl
    have hl : (v :: vs).length = ds.length := by rw [hgl, h.ds_length, h.len]
    have hb := idw_between_min_max (pw := pw) hp heps ds v vs hds hl
    have hmem : ∀ x ∈ v :: vs, x ∈ row := fun x hx => gather_mem row _ x (hg ▸ hx)
    refine ⟨v, vs, rfl, hgl, ?_, ?_, hmem _ hb.2.2.1, hmem _ hb.2.2.2,
      idw_weights_meet_spec hp heps ds hdne hds h.sorted⟩
    · simpa [idwFrom, hg] using hb.1
    · simpa [idwFrom, hg] using hb.2.1

/-- **the answer is unique when no two sources are equally far**: any answer meeting the
    specification IS the model's brute-force answer. -/
theorem answer_unique (h : KnnAnswer D k idx ds) (hnd : D.Nodup) :
    idx = kNearest D k ∧ ds = kDists D k := by
  have h2 := kNearest_is_answer D k
  have hlen : idx.length = (kNearest D k).length := by rw [h.len, h2.len]
  -- membership is forced
  have sub : ∀ {L1 L2 : List Nat} {d1 d2 : List K}, KnnAnswer D k L1 d1 → KnnAnswer D k L2 d2 →
      L1 ⊆ L2 := by
    intro L1 L2 d1 d2 a1 a2 i hi
    by_contra hni
    have hl : L2.length = L1.length := by rw [a1.len, a2.len]
    have : ¬ L2 ⊆ L1 := by
      intro hsub
      have hp := (List.subperm_of_subset a2.nodup hsub).perm_of_length_le (by omega)
      exact hni (hp.symm.subset hi)
    obtain ⟨j, hj2, hj1⟩ : ∃ j, j ∈ L2 ∧ j ∉ L1 := by
      by_contra hc
      exact this (fun j hj => Classical.byContradiction (fun hn => hc ⟨j, hj, hn⟩))
    have hiv := a1.valid i hi
    have hjv := a2.valid j hj2
    have e1 := a1.minimal i hi j hjv hj1 _ _ (List.getElem?_eq_getElem hiv) (List.getElem?_eq_getElem hjv)
    have e2 := a2.minimal j hj2 i hiv hni _ _ (List.getElem?_eq_getElem hjv) (List.getElem?_eq_getElem hiv)
    have : i = j := (hnd.getElem_inj_iff).mp (le_antisymm e1 e2)
    exact hj1 (this ▸ hi)
  have hperm : idx.Perm (kNearest D k) :=
    (List.subperm_of_subset h.nodup (sub h h2)).perm_of_length_le (by omega)
  -- the sorted distance lists coincide
  have hdp : (ds.map some).Perm ((kDists D k).map some) := by
    rw [h.dists, h2.dists]; exact hperm.map _
  have hds : ds = kDists D k := by
    have hinj : Function.Injective (some : K → Option K) := fun _ _ => Option.some.inj
    have hp : ds.Perm (kDists D k) := (List.map_perm_map_iff hinj).mp hdp
    exact List.Perm.eq_of_pairwise (fun _ _ _ _ => le_antisymm) h.sorted h2.sorted hp
  refine ⟨?_, hds⟩
  apply List.ext_getElem hlen
  intro n hn1 hn2
  have e : (idx.map (D[·]?))[n]? = ((kNearest D k).map (D[·]?))[n]? := by
    rw [← h.dists, ← h2.dists, hds]
  simp only [List.getElem?_map, List.getElem?_eq_getElem hn1, List.getElem?_eq_getElem hn2,
    Option.map_some, Option.some.injEq] at e
  have v1 := h.valid _ (List.getElem_mem hn1)
  have v2 := h2.valid _ (List.getElem_mem hn2)
  rw [List.getElem?_eq_getElem v1, List.getElem?_eq_getElem v2, Option.some.injEq] at e
  exact (hnd.getElem_inj_iff).mp e

/-- **value from the tree = model value**: with no equally distant sources, whatever tree produced
    an answer meeting the specification, the values the code computes from it are exactly the
    model's — for nearest neighbour and for IDW, every `k`, every data row. -/
theorem value_from_tree_eq_model (h : KnnAnswer D k idx ds) (hnd : D.Nodup) (row : List K) :
    idwFrom pw eps idx ds row = idwAt pw eps k D row ∧
      (k = 1 → nnFrom idx row = nnAt D row) := by
  obtain ⟨e1, e2⟩ := answer_unique h hnd
  subst e1; subst e2
  exact ⟨rfl, fun hk => by subst hk; rfl⟩

end TreeAnswer

/-- non-vacuity: a concrete answer (ℚ) meeting the judgement, with all distances distinct -/
example : knnAnswerB (0 : ℚ) [5, 3, 9, 0, 7] 3 [3, 1, 0] [0, 3, 5] = true := by decide +kernel
example : knnAnswerB (0 : ℚ) [5, 3, 9, 0, 7] 3 [3, 1, 4] [0, 3, 7] = false := by decide +kernel
example : idwFrom (K := ℚ) (fun d => d ^ 2) (1 / 1000000) [3, 1, 0] [0, 3, 5] [50, 30, 90, 31, 70] =
    idwAt (fun d => d ^ 2) (1 / 1000000) 3 [5, 3, 9, 0, 7] [50, 30, 90, 31, 70] :=
  (value_from_tree_eq_model (knnAnswerB_sound _ _ _ _ (by decide +kernel)) (by decide) _).1
/-- with equally distant sources the tree may return either; both meet the NN specification -/
example : ∃ v, nnFrom [3] ([50, 30, 90, 31, 70] : List ℚ) = some v ∧
    nnSpecB ([5, 3, 9, 3, 7] : List ℚ) [50, 30, 90, 31, 70] v = true :=
  nn_from_tree_meets_spec (knnAnswerB_sound _ _ _ _ (by decide +kernel : knnAnswerB (0 : ℚ) [5, 3, 9, 3, 7] 1 [3] [3] = true))
    (by simp) _ rfl

/-! ## 9. what the wrappers return -/

/-- **remap_result_grid_is_destination**: for every input dims/shape (any sizes, equal element
    counts included) the result is attached to the DESTINATION grid object, its dims are the
    input's with the last replaced by the destination kind's, its shape the leading shape followed
    by the number of destination points. -/
theorem remap_result_grid_is_destination (src : Arr) (destGrid : Nat) (dest : Kind) (nDst : Nat)
    (h : src.dims ≠ []) :
    ∃ r, wrapResult src destGrid dest nDst = some r ∧ r.grid = destGrid ∧
      r.dims.length = src.dims.length ∧ r.dims.dropLast = src.dims.dropLast ∧
      r.dims.getLast? = some dest.dim ∧
      r.shape.dropLast = src.shape.dropLast ∧ r.shape.getLast? = some nDst := by
  obtain ⟨o, ho, h1, h2, h3⟩ := remap_dims src.dims dest h
  refine ⟨{ dims := o, shape := outShape src.shape.dropLast nDst, grid := destGrid }, ?_, rfl,
    h1, h2, h3, ?_, ?_⟩
  · simp [wrapResult, ho]
  · simp [outShape]
  · simp [outShape]

/-- counterexample to a "same layout ⇒ copy the source variable" fast path: face data on a grid
    remapped to the face centres of ANOTHER grid with as many faces keeps the source's grid -/
theorem fastpath_keeps_source_grid :
    ∃ (src : Arr) (destGrid : Nat), destGrid ≠ src.grid ∧
      (wrapResult src destGrid .face 4).map (·.grid) = some destGrid ∧
      (wrapResultFastPath src destGrid .face 4).map (·.grid) = some src.grid := by
  refine ⟨⟨[.other 0, .face], [2, 4], 0⟩, 1, by decide, by decide, by decide⟩

example : wrapResult ⟨[.other 0, .face], [2, 4], 0⟩ 1 .node 7 = some ⟨[.other 0, .node], [2, 7], 1⟩ := by
  decide

end UxVerif.C12
