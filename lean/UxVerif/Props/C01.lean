/-
  C01 — Readers decode every supported format to the faces the source describes.

  Theorems about the reader models of `Model/Readers.lean`, for meshes of ANY size, width and
  node count and for every dialect meeting the explicit decidable predicate `DialectOK`.
-/
import UxVerif.Model.Readers
import UxVerif.Lemmas.SortUniq
import UxVerif.Lemmas.Rows
import Mathlib.Algebra.Order.Floor.Ring
import Mathlib.Data.Rat.Floor
import Mathlib.Tactic.Linarith
import Mathlib.Tactic.FieldSimp
import Mathlib.Tactic.Ring

namespace UxVerif.C01
open UxVerif UxVerif.Readers

theorem FILL_neg : FILL < 0 := by decide

/-! ### small list facts -/

theorem minList_spec : ∀ (l : List Int) (m : Int), minList l = some m → m ∈ l ∧ ∀ y ∈ l, m ≤ y := by
  intro l
  induction l with
  | nil => intro m h; simp [minList] at h
  | cons x xs ih =>
    intro m h
    unfold minList at h
    cases hxs : minList xs with
    | none =>
      rw [hxs] at h
      have hx : xs = [] := by
        cases xs with
        | nil => rfl
        | cons y ys => unfold minList at hxs; cases h2 : minList ys <;> rw [h2] at hxs <;> simp at hxs
      subst hx
      simp at h; subst h; simp
    | some m' =>
      rw [hxs] at h
      obtain ⟨hm', hle⟩ := ih m' hxs
      simp only [Option.some.injEq] at h
      by_cases hc : x ≤ m'
      · rw [if_pos hc] at h; subst h
        refine ⟨by simp, ?_⟩
        intro y hy
        rcases List.mem_cons.mp hy with rfl | hy
        · exact Int.le_refl _
        · exact Int.le_trans hc (hle y hy)
      · rw [if_neg hc] at h; subst h
        refine ⟨List.mem_cons_of_mem _ hm', ?_⟩
        intro y hy
        rcases List.mem_cons.mp hy with rfl | hy
        · omega
        · exact hle y hy

theorem minList_eq_some (l : List Int) (a : Int) (ha : a ∈ l) (hle : ∀ x ∈ l, a ≤ x) :
    minList l = some a := by
  cases h : minList l with
  | none =>
    cases l with
    | nil => cases ha
    | cons y ys => unfold minList at h; cases h2 : minList ys <;> rw [h2] at h <;> simp at h
  | some m =>
    obtain ⟨hm, hm2⟩ := minList_spec l m h
    have h1 := hle m hm
    have h2 := hm2 a ha
    congr 1; omega

/-! ### rows -/

theorem shiftRow_append (s : Int) (a b : List Int) :
    shiftRow s (a ++ b) = shiftRow s a ++ shiftRow s b := by simp [shiftRow]

theorem shiftRow_fill (s : Int) (k : Nat) :
    shiftRow s (List.replicate k FILL) = List.replicate k FILL := by simp [shiftRow]

theorem shiftRow_real (s : Int) (hs : 0 ≤ s) (f : List Nat) :
    shiftRow s (f.map (fun v => Int.ofNat v + s)) = f.map Int.ofNat := by
  simp only [shiftRow, List.map_map]
  apply List.map_congr_left
  intro v _
  have hF := FILL_neg
  have : Int.ofNat v + s ≠ FILL := by
    have : (0 : Int) ≤ Int.ofNat v := Int.natCast_nonneg v
    omega
  simp only [Function.comp, if_neg this]
  omega

/-- shifting an encoded row by its base yields the standard row -/
theorem shiftRow_enc (s : Int) (hs : 0 ≤ s) (w : Nat) (f : List Nat) :
    shiftRow s (f.map (fun v => Int.ofNat v + s) ++ List.replicate (w - f.length) FILL)
      = padRow w f := by
  rw [shiftRow_append, shiftRow_fill, shiftRow_real s hs]; rfl

/-! ### UGRID dialect decoder -/

/-- what the integer image of an encoded row is, given the two facts about the located fill -/
theorem encRow_ok (fv : Option Cell) (base : Int) (fill : Fill) (n w : Nat) (f : List Nat)
    (hf : ∀ v ∈ f, v < n)
    (hA : ∀ x : Int, base ≤ x → x < base + Int.ofNat n → isFillCell fv (.val x) = false)
    (hB : f.length < w → isFillCell fv (padCell fill) = true) :
    (encRow base fill w f).map (cellInt fv)
        = f.map (fun v => Int.ofNat v + base) ++ List.replicate (w - f.length) FILL
      ∧ (encRow base fill w f).any (badCell fv) = false := by
  unfold encRow
  constructor
  · rw [List.map_append, List.map_map, List.map_replicate]
    congr 1
    · apply List.map_congr_left
      intro v hv
      have hv' := hf v hv
      have : isFillCell fv (.val (Int.ofNat v + base)) = false := by
        apply hA
        · have : (0 : Int) ≤ Int.ofNat v := Int.natCast_nonneg v
          omega
        · have : Int.ofNat v < Int.ofNat n := by simpa using hv'
          omega
      simp only [Function.comp, cellInt, this, Bool.false_eq_true, if_false]
    · by_cases hlt : f.length < w
      · simp [cellInt, hB hlt]
      · have : w - f.length = 0 := by omega
        simp [this]
  · rw [List.any_eq_false]
    intro c hc
    rcases List.mem_append.mp hc with hc | hc
    · rcases List.mem_map.mp hc with ⟨v, _, rfl⟩
      simp [badCell]
    · have hc' := List.mem_replicate.mp hc
      have hlt : f.length < w := by omega
      rw [hc'.2]
      simp [badCell, hB hlt]

theorem isFillCell_nan_val (x : Int) : isFillCell (some Cell.nan) (.val x) = false := rfl
theorem isFillCell_none (c : Cell) : isFillCell none c = false := by cases c <;> rfl

/-- the two facts hold for the fill the reader locates in an encoded source -/
theorem origFill_encode (d : UDialect) (n w : Nat) (m : Mesh) (hd : DialectOK d n w m) :
    (∀ x : Int, d.base ≤ x → x < d.base + Int.ofNat n →
        isFillCell (origFill (encodeUgrid d w m)) (.val x) = false) ∧
    (∀ f ∈ m, f.length < w →
        isFillCell (origFill (encodeUgrid d w m)) (padCell d.fill) = true) := by
  obtain ⟨base, declared, fill, store⟩ := d
  obtain ⟨_, hfill, _⟩ := hd
  cases fill with
  | int v =>
    simp only [] at hfill
    have h : origFill (encodeUgrid ⟨base, declared, .int v, store⟩ w m) = some (.val v) := rfl
    rw [h]
    refine ⟨?_, ?_⟩
    · intro x h1 h2
      simp only [isFillCell, beq_eq_false_iff_ne, ne_eq]
      intro hxv; subst hxv; exact hfill ⟨h1, h2⟩
    · intro f _ _; simp [isFillCell, padCell]
  | nanAttr =>
    have h : origFill (encodeUgrid ⟨base, declared, .nanAttr, store⟩ w m) = some .nan := rfl
    rw [h]
    exact ⟨fun x _ _ => rfl, fun f _ _ => rfl⟩
  | nan =>
    refine ⟨?_, ?_⟩
    · intro x _ _
      unfold origFill
      simp only [encodeUgrid, fillAttrOf]
      split <;> rfl
    · intro f hf hlt
      have : origFill (encodeUgrid ⟨base, declared, .nan, store⟩ w m) = some .nan := by
        unfold origFill
        simp only [encodeUgrid, fillAttrOf]
        rw [if_pos]
        rw [List.any_eq_true]
        refine ⟨encRow base .nan w f, List.mem_map.mpr ⟨f, hf, rfl⟩, ?_⟩
        rw [List.any_eq_true]
        refine ⟨Cell.nan, ?_, by decide⟩
        unfold encRow
        apply List.mem_append_right
        simp only [padCell, List.mem_replicate, and_true]
        omega
      rw [this]; rfl
  | none =>
    simp only [] at hfill
    refine ⟨?_, ?_⟩
    · intro x _ _
      unfold origFill
      simp only [encodeUgrid, fillAttrOf]
      split <;> rfl
    · intro f hf hlt
      have := hfill f hf
      omega

/-- the integer table after fill replacement -/
theorem replaceFill_encode (d : UDialect) (n w : Nat) (m : Mesh) (hm : WFMesh n w m)
    (hd : DialectOK d n w m) :
    replaceFill (origFill (encodeUgrid d w m)) (encodeUgrid d w m).cells
        = m.map (fun f => f.map (fun v => Int.ofNat v + d.base) ++ List.replicate (w - f.length) FILL)
      ∧ hasBad (origFill (encodeUgrid d w m)) (encodeUgrid d w m).cells = false := by
  obtain ⟨hA, hB⟩ := origFill_encode d n w m hd
  have hcells : (encodeUgrid d w m).cells = m.map (encRow d.base d.fill w) := rfl
  rw [hcells]
  constructor
  · unfold replaceFill
    rw [List.map_map]
    apply List.map_congr_left
    intro f hf
    exact (encRow_ok _ d.base d.fill n w f (hm f hf).2.2 hA (hB f hf)).1
  · unfold hasBad
    rw [List.any_eq_false]
    intro r hr
    rcases List.mem_map.mp hr with ⟨f, hf, rfl⟩
    simp [(encRow_ok _ d.base d.fill n w f (hm f hf).2.2 hA (hB f hf)).2]

theorem mem_nonFill (t : Table) (x : Int) : x ∈ nonFill t ↔ (∃ r ∈ t, x ∈ r) ∧ x ≠ FILL := by
  unfold nonFill
  rw [List.mem_filter, List.mem_flatten]
  simp

/-- the smallest real entry of the encoded table is the base when node 0 is a corner -/
theorem min_encoded (base : Int) (hb : 0 ≤ base) (w : Nat) (m : Mesh) (h0 : ∃ f ∈ m, 0 ∈ f) :
    minList (nonFill (m.map (fun f => f.map (fun v => Int.ofNat v + base)
        ++ List.replicate (w - f.length) FILL))) = some base := by
  have hF := FILL_neg
  apply minList_eq_some
  · rw [mem_nonFill]
    obtain ⟨f, hf, h0f⟩ := h0
    refine ⟨⟨_, List.mem_map.mpr ⟨f, hf, rfl⟩, ?_⟩, by omega⟩
    apply List.mem_append_left
    exact List.mem_map.mpr ⟨0, h0f, by simp⟩
  · intro x hx
    rw [mem_nonFill] at hx
    obtain ⟨⟨r, hr, hxr⟩, hne⟩ := hx
    rcases List.mem_map.mp hr with ⟨f, _, rfl⟩
    rcases List.mem_append.mp hxr with h | h
    · rcases List.mem_map.mp h with ⟨v, _, rfl⟩
      have : (0 : Int) ≤ Int.ofNat v := Int.natCast_nonneg v
      omega
    · exact absurd (List.mem_replicate.mp h).2 hne

/-- **UGRID round trip**: for every mesh and every dialect that can describe it, the reader
    returns the standard table of exactly that mesh. -/
theorem ugrid_roundtrip (d : UDialect) (n w : Nat) (m : Mesh) (hm : WFMesh n w m)
    (hd : DialectOK d n w m) :
    decodeUgrid (encodeUgrid d w m) = .ok (pad w m) := by
  obtain ⟨hrep, hbad⟩ := replaceFill_encode d n w m hm hd
  unfold decodeUgrid
  simp only [hbad, Bool.false_eq_true, if_false, hrep]
  congr 1
  have hstart : startOf (encodeUgrid d w m).startAttr (m.map (fun f => f.map (fun v => Int.ofNat v + d.base)
          ++ List.replicate (w - f.length) FILL)) = d.base := by
    have : (encodeUgrid d w m).startAttr = if d.declared then some d.base else none := rfl
    rw [this]
    unfold startOf
    cases hdec : d.declared with
    | true => simp
    | false =>
      simp only [Bool.false_eq_true, if_false]
      rw [min_encoded d.base hd.1 w m (hd.2.2 hdec)]; rfl
  rw [hstart]
  unfold shift pad
  rw [List.map_map]
  apply List.map_congr_left
  intro f _
  exact shiftRow_enc d.base hd.1 w f

/-- **locality**: what a connectivity table of a UGRID dataset decodes to depends only on that
    table's own variable (values, `_FillValue`, `start_index`, dtype), whatever tables stand
    before or after it in the dataset. -/
theorem decodeUgrid_table_local (pre post : List USource) (s : USource) :
    (decodeUgridAll (pre ++ s :: post))[pre.length]? = some (decodeUgrid s) := by
  unfold decodeUgridAll
  rw [List.map_append, List.map_cons,
    List.getElem?_append_right (by simp)]
  simp

/-- **UGRID round trip, per table**: a dataset whose tables are written each in its OWN dialect
    (index base, declared or not, fill value and its form, dtype, width — drawn independently)
    decodes table by table to the standard table of that table's element lists. -/
theorem ugrid_dataset_roundtrip (tabs : List (UDialect × Nat × Nat × Mesh))
    (h : ∀ t ∈ tabs, WFMesh t.2.1 t.2.2.1 t.2.2.2 ∧ DialectOK t.1 t.2.1 t.2.2.1 t.2.2.2) :
    decodeUgridAll (tabs.map (fun t => encodeUgrid t.1 t.2.2.1 t.2.2.2))
      = tabs.map (fun t => .ok (pad t.2.2.1 t.2.2.2)) := by
  unfold decodeUgridAll
  rw [List.map_map]
  apply List.map_congr_left
  intro t ht
  exact ugrid_roundtrip t.1 t.2.1 t.2.2.1 t.2.2.2 (h t ht).1 (h t ht).2

example : (decodeUgridAll [encodeUgrid ⟨1, true, .int (-1), .i32⟩ 4 [[0, 1, 2, 3], [1, 4, 5]],
      encodeUgrid ⟨0, false, .none, .i64⟩ 2 [[0, 1], [1, 2], [2, 0]]]).map Except.toOption
    = [some [[0, 1, 2, 3], [1, 4, 5, FILL]], some [[0, 1], [1, 2], [2, 0]]] := by decide

example : DialectOK ⟨1, false, .int (-1), .i32⟩ 6 4 [[0, 1, 2, 3], [1, 4, 5]]
    ∧ WFMesh 6 4 [[0, 1, 2, 3], [1, 4, 5]] := by decide
example : (decodeUgrid (encodeUgrid ⟨1, false, .nan, .f64⟩ 4 [[0, 1, 2, 3], [1, 4, 5]])).toOption
    = some [[0, 1, 2, 3], [1, 4, 5, FILL]] := by decide

/-- AS-IS counterexample 1 (kept as a regression witness): without a `start_index` attribute
    the snapshot subtracts `min()` taken over the padding as well. -/
theorem asis_ugrid_min_includes_fill :
    (decodeUgridAsIs (encodeUgrid ⟨0, false, .int (-1), .i32⟩ 4 [[0, 1, 2, 3], [1, 4, 5]])).toOption
      ≠ some (pad 4 [[0, 1, 2, 3], [1, 4, 5]]) := by decide

/-- AS-IS counterexample 2: standard dtype + standard fill skips the `start_index` shift. -/
theorem asis_ugrid_standard_skips_start_index :
    (decodeUgridAsIs (encodeUgrid ⟨1, true, .int FILL, .i64⟩ 4 [[0, 1, 2, 3], [1, 4, 5]])).toOption
      ≠ some (pad 4 [[0, 1, 2, 3], [1, 4, 5]]) := by decide

/-! ### explicit topology arrays -/

theorem topology_roundtrip (base : Int) (fill : Fill) (n w : Nat) (m : Mesh)
    (hm : WFMesh n w m) (hd : TopoOK base fill n w m) :
    decodeTopology (encodeTopology base fill w m) (fillArgOf fill) base = .ok (pad w m) := by
  obtain ⟨hb, hfill⟩ := hd
  have hA : ∀ x : Int, base ≤ x → x < base + Int.ofNat n →
      isFillCell (fillArgOf fill) (.val x) = false := by
    intro x h1 h2
    cases fill with
    | int v =>
      simp only [] at hfill
      simp only [fillArgOf, isFillCell, beq_eq_false_iff_ne, ne_eq]
      intro hxv; subst hxv; exact hfill ⟨h1, h2⟩
    | nan => rfl
    | nanAttr => rfl
    | none => rfl
  have hB : ∀ f ∈ m, f.length < w → isFillCell (fillArgOf fill) (padCell fill) = true := by
    intro f hf hlt
    cases fill with
    | int v => simp [fillArgOf, padCell, isFillCell]
    | nan => rfl
    | nanAttr => rfl
    | none => simp only [] at hfill; have := hfill f hf; omega
  have hrow := fun f hf => encRow_ok (fillArgOf fill) base fill n w f (hm f hf).2.2 hA (hB f hf)
  have hbad : hasBad (fillArgOf fill) (encodeTopology base fill w m) = false := by
    unfold hasBad encodeTopology
    rw [List.any_eq_false]
    intro r hr
    rcases List.mem_map.mp hr with ⟨f, hf, rfl⟩
    simp [(hrow f hf).2]
  unfold decodeTopology
  simp only [hbad, Bool.false_eq_true, if_false]
  congr 1
  unfold shift replaceFill encodeTopology pad
  rw [List.map_map, List.map_map]
  apply List.map_congr_left
  intro f hf
  simp only [Function.comp, (hrow f hf).1]
  exact shiftRow_enc base hb w f

example : TopoOK 1 (.int 999) 6 4 [[0, 1, 2, 3], [1, 4, 5]] := by decide

/-! ### MPAS -/

theorem zeroOne_real (v : Nat) : zeroOne (Int.ofNat v + 1) = Int.ofNat v := by
  have hF := FILL_neg
  have h0 : (0 : Int) ≤ Int.ofNat v := Int.natCast_nonneg v
  unfold zeroOne
  have h1 : Int.ofNat v + 1 ≠ 0 := by omega
  simp only [if_neg h1]
  have h2 : Int.ofNat v + 1 ≠ FILL := by omega
  rw [if_neg h2]; omega

theorem zeroOne_zero : zeroOne 0 = FILL := by decide
theorem zeroOne_fill : zeroOne FILL = FILL := by decide

theorem zip_map_same {α β γ : Type} (l : List α) (f : α → β) (g : α → γ) :
    (l.map f).zip (l.map g) = l.map (fun x => (f x, g x)) := by
  induction l with
  | nil => rfl
  | cons a l ih => simp [ih]

/-- one primal row: whatever the padding `tail` holds, the reader yields the standard row -/
theorem mpas_row (w : Nat) (f : List Nat) (tail : List Int) (h : f.length + tail.length = w) :
    decodeMpasRow (encMpasRow f tail) f.length = padRow w f := by
  unfold decodeMpasRow replacePadding encMpasRow padRow
  have hl : (f.map (fun v => Int.ofNat v + 1)).length = f.length := by simp
  rw [List.take_left' hl, List.map_append, List.map_map, List.map_replicate, zeroOne_fill]
  congr 1
  · apply List.map_congr_left; intro v _; exact zeroOne_real v
  · congr 1; simp; omega

/-- **MPAS primal round trip** (`verticesOnCell` + `nEdgesOnCell`; also `edgesOnCell`,
    `cellsOnCell`): for ANY content of the padding (zeros, repeated last index, garbage). -/
theorem mpas_primal_roundtrip (w : Nat) (src : List (List Nat × List Int))
    (h : ∀ p ∈ src, p.1.length + p.2.length = w) :
    decodeMpas (src.map (fun p => encMpasRow p.1 p.2)) (src.map (fun p => p.1.length))
      = pad w (src.map (·.1)) := by
  unfold decodeMpas pad
  rw [zip_map_same, List.map_map, List.map_map]
  apply List.map_congr_left
  intro p hp
  exact mpas_row w p.1 p.2 (h p hp)

example : decodeMpas [[1, 2, 3, 3], [2, 5, 6, 4]] [3, 4] = [[0, 1, 2, FILL], [1, 4, 5, 3]] := by decide

/-- a possibly missing one-based entry (`0` = missing) and its standard form -/
def enc1 : Option Nat → Int
  | none => 0
  | some v => Int.ofNat v + 1
def std1 : Option Nat → Int
  | none => FILL
  | some v => Int.ofNat v

/-- **MPAS zero-marked tables** (`cellsOnVertex` = dual faces, `cellsOnEdge`, `verticesOnEdge`,
    `edgesOnVertex`): every entry is carried over with the same meaning — the same element,
    re-based; a missing element becomes the standard fill, wherever it stands. -/
theorem mpas_zeros_reindex (t : List (List (Option Nat))) :
    decodeMpasZeros (t.map (·.map enc1)) = t.map (·.map std1) := by
  unfold decodeMpasZeros
  rw [List.map_map]
  apply List.map_congr_left
  intro r _
  simp only [Function.comp, List.map_map]
  apply List.map_congr_left
  intro o _
  cases o with
  | none => exact zeroOne_zero
  | some v => exact zeroOne_real v

/-- one per-cell row whose valid prefix may itself contain missing entries (`cellsOnCell` of a
    boundary cell: `0` INSIDE the first `nEdgesOnCell` entries), followed by any padding -/
theorem mpas_cell_row_reindex (pre : List (Option Nat)) (tail : List Int) :
    decodeMpasRow (pre.map enc1 ++ tail) pre.length
      = pre.map std1 ++ List.replicate tail.length FILL := by
  unfold decodeMpasRow replacePadding
  have hl : (pre.map enc1).length = pre.length := by simp
  rw [List.take_left' hl, List.map_append, List.map_map, List.map_replicate, zeroOne_fill]
  congr 1
  · apply List.map_congr_left
    intro o _
    cases o with
    | none => exact zeroOne_zero
    | some v => exact zeroOne_real v
  · congr 1; simp

/-- **MPAS per-cell tables with missing entries** (`cellsOnCell`, and `edgesOnCell` /
    `verticesOnCell` a fortiori): every entry of the valid prefix is carried over with the same
    meaning (`k ↦ k−1`, missing `0 ↦ FILL`, wherever it stands), everything past
    `nEdgesOnCell` becomes `FILL` whatever it held. -/
theorem mpas_cells_reindex (src : List (List (Option Nat) × List Int)) :
    decodeMpas (src.map (fun p => p.1.map enc1 ++ p.2)) (src.map (fun p => p.1.length))
      = src.map (fun p => p.1.map std1 ++ List.replicate p.2.length FILL) := by
  unfold decodeMpas
  rw [zip_map_same, List.map_map]
  apply List.map_congr_left
  intro p _
  exact mpas_cell_row_reindex p.1 p.2

example : decodeMpas [[2, 0, 5, 5], [1, 3, 0, 7]] [3, 4] = [[1, FILL, 4, FILL], [0, 2, FILL, 6]] := by decide

/-- **MPAS dual round trip**: `cellsOnVertex` one-based and zero-padded at the end. -/
theorem mpas_dual_roundtrip (w : Nat) (m : Mesh) :
    decodeMpasZeros (m.map (fun f => f.map (fun v => Int.ofNat v + 1)
        ++ List.replicate (w - f.length) 0)) = pad w m := by
  unfold decodeMpasZeros pad padRow
  rw [List.map_map]
  apply List.map_congr_left
  intro f _
  simp only [Function.comp, List.map_append, List.map_map, List.map_replicate, zeroOne_zero]
  congr 1
  apply List.map_congr_left; intro v _; exact zeroOne_real v

example : decodeMpasZeros [[1, 2, 3], [3, 2, 0]] = [[0, 1, 2], [2, 1, FILL]] := by decide

/-! ### ESMF -/

theorem esmf_row (base : Int) (w : Nat) (f : List Nat) (tail : List Int)
    (h : f.length + tail.length = w) :
    decodeEsmfRow base (encEsmfRow base f tail) f.length = padRow w f := by
  unfold decodeEsmfRow encEsmfRow padRow
  have hl : (f.map (fun v => Int.ofNat v + base)).length = f.length := by simp
  rw [List.take_left' hl, List.map_map]
  congr 1
  · apply List.map_congr_left; intro v _; simp only [Function.comp]; omega
  · congr 1; simp; omega

/-- **ESMF round trip**: `numElementConn` real entries per row, based at the `start_index`
    attribute (any base) or at 1 when the attribute is absent; ANY padding content. -/
theorem esmf_roundtrip (startAttr : Option Int) (w : Nat) (src : List (List Nat × List Int))
    (h : ∀ p ∈ src, p.1.length + p.2.length = w) :
    decodeEsmf startAttr (src.map (fun p => encEsmfRow (startAttr.getD 1) p.1 p.2))
        (src.map (fun p => p.1.length)) = pad w (src.map (·.1)) := by
  unfold decodeEsmf pad
  rw [zip_map_same, List.map_map, List.map_map]
  apply List.map_congr_left
  intro p hp
  exact esmf_row _ w p.1 p.2 (h p hp)

example : decodeEsmf (some 0) [[0, 1, 2, -1], [1, 4, 5, 3]] [3, 4]
    = [[0, 1, 2, FILL], [1, 4, 5, 3]] := by decide

/-- AS-IS counterexample: the `start_index` attribute is ignored (tested against the values). -/
theorem asis_esmf_ignores_start_index :
    decodeEsmfAsIs (some 0) [encEsmfRow 0 [0, 1, 2] []] [3] ≠ pad 3 [[0, 1, 2]] := by decide

/-! ### Exodus -/

theorem maxLen_eq {α : Type} (l : List (List α)) :
    maxLen l = (l.map List.length).foldl max 0 := by
  unfold maxLen; rw [List.foldl_map]

theorem exo_entry (v : Nat) :
    (fun x : Int => if x - 1 = -1 then FILL else x - 1) (Int.ofNat v + 1) = Int.ofNat v := by
  have h0 : (0 : Int) ≤ Int.ofNat v := Int.natCast_nonneg v
  have : ¬ (Int.ofNat v + 1 - 1 = -1) := by omega
  simp only [if_neg this]; omega

/-- **Exodus round trip**: one or several `connect` blocks, in any order, of any element sizes:
    the reader yields ALL elements, block after block, padded to the widest block. -/
theorem exodus_roundtrip (blocks : List Mesh) :
    decodeExodus (encodeExodus blocks) = pad (maxLen blocks.flatten) blocks.flatten := by
  have hflat : (encodeExodus blocks).flatten
      = blocks.flatten.map (·.map (fun v => Int.ofNat v + 1)) := by
    unfold encodeExodus; rw [List.map_flatten]
  have hw : maxLen (encodeExodus blocks).flatten = maxLen blocks.flatten := by
    rw [maxLen_eq, maxLen_eq, hflat, List.map_map]
    congr 1
    apply List.map_congr_left; intro f _; simp
  unfold decodeExodus
  simp only [hw]
  rw [List.flatMap_def, ← List.map_flatten, hflat, List.map_map, List.map_map]
  unfold pad padRow
  apply List.map_congr_left
  intro f _
  simp only [Function.comp, List.map_append, List.map_map, List.map_replicate, List.length_map]
  congr 1
  · apply List.map_congr_left; intro v _; exact exo_entry v

/-- the number of faces read is the total number of elements of all blocks -/
theorem exodus_count (blocks : List Mesh) :
    (decodeExodus (encodeExodus blocks)).length = (blocks.map List.length).sum := by
  rw [exodus_roundtrip]; unfold pad
  rw [List.length_map, List.length_flatten]

example : decodeExodus (encodeExodus [[[0, 1, 2, 3]], [[1, 4, 2], [4, 5, 2]]])
    = [[0, 1, 2, 3], [1, 4, 2, FILL], [4, 5, 2, FILL]] := by decide

/-- AS-IS counterexample: only the last `connect` block survives. -/
theorem asis_exodus_keeps_last_block :
    decodeExodusAsIs (encodeExodus [[[0, 1, 2, 3]], [[1, 4, 2]]])
      ≠ pad 4 [[0, 1, 2, 3], [1, 4, 2]] := by decide

/-! ### the standard table of a mesh meets the specification -/

theorem takeWhile_ne_fill_real (f : List Nat) (rest : List Int) :
    (f.map Int.ofNat ++ FILL :: rest).takeWhile (fun x => x != FILL) = f.map Int.ofNat := by
  have hF := FILL_neg
  induction f with
  | nil => simp
  | cons v f ih =>
    have h0 : (0 : Int) ≤ Int.ofNat v := Int.natCast_nonneg v
    have : (Int.ofNat v != FILL) = true := by simp; omega
    simp only [List.map_cons, List.cons_append, List.takeWhile_cons, this, if_true, ih]

theorem takeWhile_ne_fill_all (f : List Nat) :
    (f.map Int.ofNat).takeWhile (fun x => x != FILL) = f.map Int.ofNat := by
  have hF := FILL_neg
  induction f with
  | nil => simp
  | cons v f ih =>
    have h0 : (0 : Int) ≤ Int.ofNat v := Int.natCast_nonneg v
    have : (Int.ofNat v != FILL) = true := by simp; omega
    simp only [List.map_cons, List.takeWhile_cons, this, if_true, ih]

/-- the real corners of a standard row are the face -/
theorem faceOf_padRow (w : Nat) (f : List Nat) : faceOf (padRow w f) = f.map Int.ofNat := by
  unfold faceOf padRow
  cases h : w - f.length with
  | zero => simp [takeWhile_ne_fill_all]
  | succ k => rw [List.replicate_succ]; exact takeWhile_ne_fill_real f _

theorem stdRow_padRow (n w : Nat) (f : List Nat) (h0 : 0 < f.length) (hw : f.length ≤ w)
    (hn : ∀ v ∈ f, v < n) : Edges.StdRow n w (padRow w f) := by
  unfold Edges.StdRow
  rw [faceOf_padRow]
  refine ⟨by unfold padRow; simp; omega, by simpa using h0, ?_, ?_⟩
  · intro x hx
    rcases List.mem_map.mp hx with ⟨v, hv, rfl⟩
    have := hn v hv
    constructor
    · exact Int.natCast_nonneg v
    · show (v : Int) < (n : Int); omega
  · intro x hx
    unfold padRow at hx
    rw [List.length_map, List.drop_left' (by simp)] at hx
    exact (List.mem_replicate.mp hx).2

/-- **standard form**: zero-based indices `< n`, padding only at the end, only `FILL`. -/
theorem stdForm_pad (n w : Nat) (m : Mesh) (hm : WFMesh n w m) : Edges.StdForm n w (pad w m) := by
  intro r hr
  rcases List.mem_map.mp hr with ⟨f, hf, rfl⟩
  obtain ⟨h0, hw, hn⟩ := hm f hf
  exact stdRow_padRow n w f h0 hw hn

theorem getI?_idMap (n v : Nat) (h : v < n) : getI? (idMap n) (Int.ofNat v) = some (Int.ofNat v) := by
  unfold getI? idMap
  have : ¬ (Int.ofNat v < 0) := by show ¬ ((v : Int) < 0); omega
  rw [if_neg this]
  simp [h]

theorem isRotation_refl (a : List Int) : isRotation a a = true := by
  unfold isRotation
  simp only [beq_self_eq_true, Bool.true_and, List.any_eq_true]
  refine ⟨0, ?_, by simp⟩
  simp only [List.mem_range]; omega

theorem facesOK_pad (n w : Nat) (m : Mesh) (hm : WFMesh n w m) : FacesOK m (idMap n) (pad w m) := by
  refine ⟨by unfold pad; simp, ?_⟩
  intro i hi
  have hrow : rowAt (pad w m) i = padRow w m[i] := by
    unfold rowAt pad; simp [hi]
  have hget : m.getD i [] = m[i] := by simp [hi]
  rw [hrow, hget, faceOf_padRow, List.map_map]
  have : (m[i]).map ((fun x => (getI? (idMap n) x).getD (-1)) ∘ Int.ofNat) = (m[i]).map Int.ofNat := by
    apply List.map_congr_left
    intro v hv
    have := (hm m[i] (List.getElem_mem hi)).2.2 v hv
    simp only [Function.comp, getI?_idMap n v this, Option.getD_some]
  rw [this]
  exact isRotation_refl _

/-- the standard table of a well-formed mesh meets the specification the driver evaluates on
    the implementation's output -/
theorem spec_pad (n w : Nat) (m : Mesh) (hm : WFMesh n w m) : Spec n w m (idMap n) (pad w m) :=
  ⟨stdForm_pad n w m hm, facesOK_pad n w m hm⟩

/-- **decode_stdform / the UGRID reader meets the specification** -/
theorem ugrid_meets_spec (d : UDialect) (n w : Nat) (m : Mesh) (hm : WFMesh n w m)
    (hd : DialectOK d n w m) :
    ∃ t, decodeUgrid (encodeUgrid d w m) = .ok t ∧ Spec n w m (idMap n) t :=
  ⟨pad w m, ugrid_roundtrip d n w m hm hd, spec_pad n w m hm⟩

theorem topology_meets_spec (base : Int) (fill : Fill) (n w : Nat) (m : Mesh)
    (hm : WFMesh n w m) (hd : TopoOK base fill n w m) :
    ∃ t, decodeTopology (encodeTopology base fill w m) (fillArgOf fill) base = .ok t
      ∧ Spec n w m (idMap n) t :=
  ⟨pad w m, topology_roundtrip base fill n w m hm hd, spec_pad n w m hm⟩

example : Spec 6 4 [[0, 1, 2, 3], [1, 4, 5]] (idMap 6) [[1, 2, 3, 0], [4, 5, 1, FILL]] := by decide
example : ¬ Spec 6 4 [[0, 1, 2, 3], [1, 4, 5]] (idMap 6) [[0, 1, 2, 3], [1, 5, 4, FILL]] := by decide

/-! ### the undeclared-base rule ("the base is the smallest real entry") -/

theorem dialectOK_iff (d : UDialect) (n w : Nat) (m : Mesh) :
    DialectOK d n w m ↔ DialectCore d n w m ∧ (d.declared = false → ∃ f ∈ m, 0 ∈ f) := by
  unfold DialectOK DialectCore; exact (and_assoc).symm

theorem lowest_spec (m : Mesh) (hne : m.flatten ≠ []) :
    lowest m ∈ m.flatten ∧ ∀ v ∈ m.flatten, lowest m ≤ v := by
  unfold lowest
  cases h : minList (m.flatten.map Int.ofNat) with
  | none =>
    exfalso
    cases hf : m.flatten with
    | nil => exact hne hf
    | cons a l =>
      rw [hf] at h
      simp only [List.map_cons] at h
      unfold minList at h
      cases h2 : minList (l.map Int.ofNat) <;> rw [h2] at h <;> simp at h
  | some x =>
    obtain ⟨hx, hle⟩ := minList_spec _ _ h
    rcases List.mem_map.mp hx with ⟨v, hv, rfl⟩
    simp only [Option.getD_some]
    refine ⟨by simpa using hv, ?_⟩
    intro u hu
    have := hle (Int.ofNat u) (List.mem_map.mpr ⟨u, hu, rfl⟩)
    simp only [Int.ofNat_eq_natCast, Int.toNat_natCast] at *
    omega

theorem map_eq_self_mem {α : Type} (g : α → α) (l : List α) (h : l.map g = l) :
    ∀ x ∈ l, g x = x := by
  induction l with
  | nil => intro x hx; cases hx
  | cons a l ih =>
    simp only [List.map_cons, List.cons.injEq] at h
    intro x hx
    rcases List.mem_cons.mp hx with rfl | hx
    · exact h.1
    · exact ih h.2 x hx

theorem padRow_inj (w : Nat) (f g : List Nat) (h : padRow w f = padRow w g) : f = g := by
  have := congrArg faceOf h
  rw [faceOf_padRow, faceOf_padRow] at this
  exact List.map_injective_iff.mpr (fun a b hab => by simpa using hab) this

theorem pad_inj (w : Nat) (m1 m2 : Mesh) (h : pad w m1 = pad w m2) : m1 = m2 := by
  unfold pad at h
  exact List.map_injective_iff.mpr (fun a b hab => padRow_inj w a b hab) h

/-- **what the undeclared-base rule does**: a table written without `start_index` decodes to
    its element lists counted from the LOWEST INDEX IT USES (whatever base it was written in). -/
theorem ugrid_undeclared_decodes (d : UDialect) (n w : Nat) (m : Mesh) (hm : WFMesh n w m)
    (hc : DialectCore d n w m) (hdecl : d.declared = false) :
    decodeUgrid (encodeUgrid d w m) = .ok (pad w (rebase (lowest m) m)) := by
  obtain ⟨base, declared, fill, store⟩ := d
  simp only at hdecl
  subst hdecl
  have hok' : DialectOK ⟨base, true, fill, store⟩ n w m :=
    (dialectOK_iff _ n w m).mpr ⟨hc, fun h => by cases h⟩
  obtain ⟨hrep, hbad⟩ := replaceFill_encode ⟨base, true, fill, store⟩ n w m hm hok'
  have hrep' : replaceFill (origFill (encodeUgrid ⟨base, false, fill, store⟩ w m))
      (encodeUgrid ⟨base, false, fill, store⟩ w m).cells
      = m.map (fun f => f.map (fun v => Int.ofNat v + base) ++ List.replicate (w - f.length) FILL) := hrep
  have hbad' : hasBad (origFill (encodeUgrid ⟨base, false, fill, store⟩ w m))
      (encodeUgrid ⟨base, false, fill, store⟩ w m).cells = false := hbad
  have hb : 0 ≤ base := hc.1
  have hF := FILL_neg
  unfold decodeUgrid
  simp only [hbad', Bool.false_eq_true, if_false, hrep']
  congr 1
  have hsa : (encodeUgrid ⟨base, false, fill, store⟩ w m).startAttr = none := rfl
  rw [hsa]
  by_cases hne : m.flatten = []
  · -- no corner at all: every face is empty, impossible for a well-formed non-empty mesh
    have hm0 : m = [] := by
      cases m with
      | nil => rfl
      | cons f rest =>
        have := (hm f (by simp)).1
        cases f with
        | nil => simp at this
        | cons a f' => simp at hne
    subst hm0; rfl
  · obtain ⟨hmem, hle⟩ := lowest_spec m hne
    have hstart : startOf none (m.map (fun f => f.map (fun v => Int.ofNat v + base)
        ++ List.replicate (w - f.length) FILL)) = base + Int.ofNat (lowest m) := by
      unfold startOf
      simp only []
      rw [minList_eq_some _ (base + Int.ofNat (lowest m))]
      · rfl
      · rw [mem_nonFill]
        obtain ⟨f, hf, hvf⟩ := List.mem_flatten.mp hmem
        refine ⟨⟨_, List.mem_map.mpr ⟨f, hf, rfl⟩, ?_⟩, ?_⟩
        · apply List.mem_append_left
          exact List.mem_map.mpr ⟨lowest m, hvf, by omega⟩
        · have : (0 : Int) ≤ Int.ofNat (lowest m) := Int.natCast_nonneg _
          omega
      · intro x hx
        rw [mem_nonFill] at hx
        obtain ⟨⟨r, hr, hxr⟩, hnf⟩ := hx
        rcases List.mem_map.mp hr with ⟨f, hf, rfl⟩
        rcases List.mem_append.mp hxr with h | h
        · rcases List.mem_map.mp h with ⟨v, hv, rfl⟩
          have := hle v (List.mem_flatten.mpr ⟨f, hf, hv⟩)
          simp only [Int.ofNat_eq_natCast]; omega
        · exact absurd (List.mem_replicate.mp h).2 hnf
    rw [hstart]
    unfold shift pad rebase
    rw [List.map_map, List.map_map]
    apply List.map_congr_left
    intro f hf
    simp only [Function.comp]
    unfold padRow
    rw [shiftRow_append, shiftRow_fill, List.length_map, List.map_map]
    congr 1
    simp only [shiftRow, List.map_map]
    apply List.map_congr_left
    intro v hv
    have hlv := hle v (List.mem_flatten.mpr ⟨f, hf, hv⟩)
    have h0 : (0 : Int) ≤ Int.ofNat v := Int.natCast_nonneg v
    have hne' : Int.ofNat v + base ≠ FILL := by omega
    simp only [Function.comp, Int.ofNat_eq_natCast] at hne' ⊢
    rw [if_neg hne']
    omega

/-- **when the rule is harmless**: an undeclared-base table decodes to exactly its element lists
    IF AND ONLY IF it uses its lowest index 0 — this is the last clause of `DialectOK`, which is
    therefore not an assumption of convenience but the exact boundary of decodability. -/
theorem undeclared_base_unambiguous_iff (d : UDialect) (n w : Nat) (m : Mesh) (hm : WFMesh n w m)
    (hc : DialectCore d n w m) (hdecl : d.declared = false) (hne : m ≠ []) :
    decodeUgrid (encodeUgrid d w m) = .ok (pad w m) ↔ ∃ f ∈ m, 0 ∈ f := by
  constructor
  · intro h
    rw [ugrid_undeclared_decodes d n w m hm hc hdecl] at h
    have h2 : rebase (lowest m) m = m := pad_inj w _ _ (Except.ok.inj h)
    have hfl : m.flatten ≠ [] := by
      cases m with
      | nil => exact absurd rfl hne
      | cons f rest =>
        have := (hm f (by simp)).1
        cases f with
        | nil => simp at this
        | cons a f' => simp
    obtain ⟨hmem, _⟩ := lowest_spec m hfl
    obtain ⟨f, hf, hvf⟩ := List.mem_flatten.mp hmem
    refine ⟨f, hf, ?_⟩
    -- the row of `f` is unchanged by the rebasing, so its entry `lowest m` satisfies μ - μ = μ
    unfold rebase at h2
    have hrow : f.map (· - lowest m) = f := map_eq_self_mem _ _ h2 f hf
    have hμ : lowest m - lowest m = lowest m := map_eq_self_mem _ _ hrow _ hvf
    have : lowest m = 0 := by omega
    rw [this] at hvf; exact hvf
  · intro h0
    exact ugrid_roundtrip d n w m hm ((dialectOK_iff d n w m).mpr ⟨hc, fun _ => h0⟩)

example : (decodeUgrid (encodeUgrid ⟨1, false, .int (-1), .i32⟩ 3 [[2, 3, 4], [3, 5]])).toOption
    = some [[0, 1, 2], [1, 3, FILL]] := by decide
example : DialectCore ⟨1, false, .int (-1), .i32⟩ 6 3 [[2, 3, 4], [3, 5]] ∧ lowest [[2, 3, 4], [3, 5]] = 2
    ∧ ¬ ∃ f ∈ ([[2, 3, 4], [3, 5]] : Mesh), 0 ∈ f := by decide

/-! ### GEOS cube-sphere index arithmetic -/

theorem zipWith_flatMap {α β γ δ : Type} (g : β → γ → δ) (l : List α) (F : α → List β)
    (G : α → List γ) (h : ∀ x ∈ l, (F x).length = (G x).length) :
    List.zipWith g (l.flatMap F) (l.flatMap G) = l.flatMap (fun x => List.zipWith g (F x) (G x)) := by
  induction l with
  | nil => simp
  | cons a l ih =>
    simp only [List.flatMap_cons]
    rw [List.zipWith_append (h a (by simp)), ih (fun x hx => h x (by simp [hx]))]

theorem zipWith_map_same {α β γ δ : Type} (g : β → γ → δ) (l : List α) (F : α → β) (G : α → γ) :
    List.zipWith g (l.map F) (l.map G) = l.map (fun x => g (F x) (G x)) := by
  induction l with
  | nil => rfl
  | cons a l ih => simp [ih]

theorem length_flatMap_const {α β : Type} (l : List α) (F : α → List β) (c : Nat)
    (h : ∀ x ∈ l, (F x).length = c) : (l.flatMap F).length = l.length * c := by
  induction l with
  | nil => simp
  | cons a l ih =>
    simp only [List.flatMap_cons, List.length_append, List.length_cons]
    rw [h a (by simp), ih (fun x hx => h x (by simp [hx])), Nat.succ_mul]; omega

theorem getElem?_flatMap_const {α β : Type} (l : List α) (F : α → List β) (c : Nat)
    (h : ∀ x ∈ l, (F x).length = c) (i j : Nat) (hj : j < c) :
    (l.flatMap F)[i * c + j]? = (l[i]?).bind (fun x => (F x)[j]?) := by
  induction l generalizing i with
  | nil => simp
  | cons a l ih =>
    have ha := h a (by simp)
    simp only [List.flatMap_cons]
    cases i with
    | zero =>
      simp only [Nat.zero_mul, Nat.zero_add, List.getElem?_cons_zero, Option.bind_some]
      rw [List.getElem?_append_left (by omega)]
    | succ i =>
      have : (i + 1) * c + j = (F a).length + (i * c + j) := by rw [Nat.succ_mul, ha]; omega
      rw [this, List.getElem?_append_right (by omega)]
      simp only [Nat.add_sub_cancel_left, List.getElem?_cons_succ]
      exact ih (fun x hx => h x (by simp [hx])) i

theorem flatMap_congr_left {α β : Type} (l : List α) (F G : α → List β)
    (h : ∀ x ∈ l, F x = G x) : l.flatMap F = l.flatMap G := by
  induction l with
  | nil => rfl
  | cons a l ih =>
    simp only [List.flatMap_cons]
    rw [h a (by simp), ih (fun x hx => h x (by simp [hx]))]

/-- zipping two flattened `nf × a × b` arrays entry by entry -/
theorem zipWith_slab {β γ δ : Type} (g : β → γ → δ) (nf a b : Nat) (F : Nat → Nat → Nat → β)
    (G : Nat → Nat → Nat → γ) :
    List.zipWith g
        ((List.range nf).flatMap fun f => (List.range a).flatMap fun i => (List.range b).map (F f i))
        ((List.range nf).flatMap fun f => (List.range a).flatMap fun i => (List.range b).map (G f i))
      = (List.range nf).flatMap fun f => (List.range a).flatMap fun i =>
          (List.range b).map fun j => g (F f i j) (G f i j) := by
  rw [zipWith_flatMap _ _ _ _ (fun f _ => by
    rw [length_flatMap_const _ _ b (by intro x _; simp),
      length_flatMap_const _ _ b (by intro x _; simp)])]
  apply flatMap_congr_left
  intro f _
  rw [zipWith_flatMap _ _ _ _ (fun i _ => by simp)]
  apply flatMap_congr_left
  intro i _
  exact zipWith_map_same g _ _ _

/-- the four corners of lattice cell `(f, i, j)` in the order the reader lists them -/
def geosRow (nx ny f i j : Nat) : List Int :=
  [gidx nx ny f (i + 1) (j + 1), gidx nx ny f (i + 1) j, gidx nx ny f i j, gidx nx ny f i (j + 1)]

/-- **GEOS corners, closed form**: the reader's slicing/stacking yields, tile after tile and
    row-major inside a tile, one row per lattice cell holding that cell's four corners. -/
theorem geos_corners (nf nx ny : Nat) :
    decodeGeos nf nx ny = (List.range nf).flatMap fun f => (List.range (nx - 1)).flatMap fun i =>
      (List.range (ny - 1)).map fun j => geosRow nx ny f i j := by
  unfold decodeGeos gslab
  simp only []
  rw [zipWith_slab, zipWith_slab, zipWith_slab]
  rfl

/-- **count**: `n_face = nf · (nx−1) · (ny−1)` -/
theorem geos_count (nf nx ny : Nat) :
    (decodeGeos nf nx ny).length = nf * ((nx - 1) * (ny - 1)) := by
  rw [geos_corners]
  rw [length_flatMap_const _ _ ((nx - 1) * (ny - 1))]
  · simp
  · intro f _
    rw [length_flatMap_const _ _ (ny - 1) (by intro x _; simp)]; simp

/-- **order**: face number `f·(nx−1)(ny−1) + i·(ny−1) + j` is lattice cell `(f, i, j)` -/
theorem geos_order (nf nx ny f i j : Nat) (hf : f < nf) (hi : i < nx - 1) (hj : j < ny - 1) :
    (decodeGeos nf nx ny)[f * ((nx - 1) * (ny - 1)) + (i * (ny - 1) + j)]?
      = some (geosRow nx ny f i j) := by
  rw [geos_corners]
  have hinner : ∀ f, ((List.range (nx - 1)).flatMap fun i =>
      (List.range (ny - 1)).map fun j => geosRow nx ny f i j).length = (nx - 1) * (ny - 1) := by
    intro f
    rw [length_flatMap_const _ _ (ny - 1) (by intro x _; simp)]; simp
  have hlt : i * (ny - 1) + j < (nx - 1) * (ny - 1) := by
    have h1 : (i + 1) * (ny - 1) ≤ (nx - 1) * (ny - 1) := Nat.mul_le_mul_right _ hi
    rw [Nat.succ_mul] at h1; omega
  rw [getElem?_flatMap_const _ _ ((nx - 1) * (ny - 1)) (fun x _ => hinner x) f _ hlt]
  simp only [List.getElem?_range hf, Option.bind_some]
  rw [getElem?_flatMap_const _ _ (ny - 1) (by intro x _; simp) i j hj]
  simp [List.getElem?_range hi, hj]

/-- **in range**: every corner index is a node of the `nf·nx·ny` corner lattice -/
theorem geos_in_range (nf nx ny : Nat) :
    ∀ r ∈ decodeGeos nf nx ny, ∀ x ∈ r, 0 ≤ x ∧ x < Int.ofNat (nf * (nx * ny)) := by
  intro r hr x hx
  rw [geos_corners] at hr
  simp only [List.mem_flatMap, List.mem_map, List.mem_range] at hr
  obtain ⟨f, hf, i, hi, j, hj, rfl⟩ := hr
  have key : ∀ a b : Nat, a < nx → b < ny → f * (nx * ny) + a * ny + b < nf * (nx * ny) := by
    intro a b ha hb
    have h1 : (a + 1) * ny ≤ nx * ny := Nat.mul_le_mul_right _ ha
    have h2 : (f + 1) * (nx * ny) ≤ nf * (nx * ny) := Nat.mul_le_mul_right _ hf
    rw [Nat.succ_mul] at h1 h2
    omega
  unfold geosRow gidx at hx
  simp only [List.mem_cons, List.not_mem_nil, or_false] at hx
  rcases hx with rfl | rfl | rfl | rfl <;>
    exact ⟨Int.natCast_nonneg _, Int.ofNat_lt.mpr (key _ _ (by omega) (by omega))⟩

/-- two lattice nodes are neighbours along one lattice direction -/
def latticeAdj (ny : Nat) (x y : Int) : Prop :=
  x - y = 1 ∨ y - x = 1 ∨ x - y = Int.ofNat ny ∨ y - x = Int.ofNat ny

/-- **cyclic order**: consecutive corners of a row (closing pair included) are lattice
    neighbours, i.e. the row walks once around the cell's perimeter -/
theorem geos_cyclic (nx ny f i j : Nat) :
    ∀ p ∈ segs (geosRow nx ny f i j), latticeAdj ny p.1 p.2 := by
  have h1 : (i + 1) * ny = i * ny + ny := Nat.succ_mul i ny
  intro p hp
  simp only [geosRow, segs, List.tail_cons, List.cons_append, List.nil_append, List.zip_cons_cons,
    List.zip_nil_right, List.mem_cons, List.not_mem_nil, or_false] at hp
  rcases hp with rfl | rfl | rfl | rfl <;>
    (simp only [latticeAdj, gidx, Int.ofNat_eq_natCast]; omega)

example : decodeGeos 1 3 3 = [[4, 3, 0, 1], [5, 4, 1, 2], [7, 6, 3, 4], [8, 7, 4, 5]] := by decide

/-! ### ICON -/

theorem map_range_getD {α β : Type} (l : List α) (d : α) (F : α → β) :
    (List.range l.length).map (fun i => F (l.getD i d)) = l.map F := by
  apply List.ext_getElem
  · simp
  · intro i h1 h2
    simp at h1
    simp [h1]

/-- **ICON round trip**: `vertex_of_cell` is stored transposed `(w, n_cell)` and one-based. -/
theorem icon_roundtrip (w : Nat) (m : Mesh) (h : ∀ f ∈ m, f.length = w) :
    decodeIcon (encodeIcon w m) m.length = pad w m := by
  unfold decodeIcon encodeIcon pad
  rw [← map_range_getD m [] (padRow w)]
  apply List.map_congr_left
  intro c hc
  have hc' : c < m.length := List.mem_range.mp hc
  have hlen : (m.getD c []).length = w := by
    have : m.getD c [] = m[c] := by simp [hc']
    rw [this]; exact h _ (List.getElem_mem hc')
  rw [List.map_map]
  unfold padRow
  rw [hlen, Nat.sub_self, List.replicate_zero, List.append_nil, ← hlen,
    ← map_range_getD (m.getD c []) 0 Int.ofNat]
  apply List.map_congr_left
  intro j _
  simp only [Function.comp]
  have h0 : (0 : Int) ≤ Int.ofNat ((m.getD c []).getD j 0) := Int.natCast_nonneg _
  have : (List.map (fun f => Int.ofNat (f.getD j 0) + 1) m).getD c 0
      = Int.ofNat ((m.getD c []).getD j 0) + 1 := by simp [hc']
  rw [this, if_pos (by omega)]; omega

example : decodeIcon (encodeIcon 3 [[0, 1, 2], [2, 1, 3]]) 2 = [[0, 1, 2], [2, 1, 3]] := by decide
example : decodeIcon [[1, 0], [2, -1]] 2 = [[0, 1], [FILL, FILL]] := by decide

/-! ### SCRIP corners and polygon rings: decoded corner positions equal source positions -/

theorem getI?_ofNat {α : Type} (l : List α) (k : Nat) : getI? l (Int.ofNat k) = l[k]? := by
  unfold getI?
  have h : ¬ (Int.ofNat k < 0) := by show ¬ ((k : Int) < 0); omega
  rw [if_neg h]; simp

theorem getI?_fill {α : Type} (l : List α) : getI? l FILL = none := by
  unfold getI?; rw [if_pos FILL_neg]

theorem rank_spec (nodes : List Key) (k : Key) (hk : k ∈ nodes) :
    rank nodes k ≠ -1 ∧ getI? nodes (rank nodes k) = some k ∧
      0 ≤ rank nodes k ∧ rank nodes k < Int.ofNat nodes.length := by
  unfold rank
  have hlt : nodes.idxOf k < nodes.length := List.idxOf_lt_length_iff.mpr hk
  refine ⟨?_, ?_, Int.natCast_nonneg _, Int.ofNat_lt.mpr hlt⟩
  · have := Int.natCast_nonneg (nodes.idxOf k)
    show (↑(nodes.idxOf k) : Int) ≠ -1; omega
  · rw [getI?_ofNat, List.getElem?_eq_getElem hlt, List.getElem_idxOf hlt]

theorem rank_inj (nodes : List Key) (a b : Key) (ha : a ∈ nodes) (hb : b ∈ nodes)
    (h : rank nodes a = rank nodes b) : a = b := by
  unfold rank at h
  have h' : nodes.idxOf a = nodes.idxOf b := by simpa using h
  have hla : nodes.idxOf a < nodes.length := List.idxOf_lt_length_iff.mpr ha
  have hlb : nodes.idxOf b < nodes.length := List.idxOf_lt_length_iff.mpr hb
  have e1 : nodes[nodes.idxOf a] = a := List.getElem_idxOf hla
  have e2 : nodes[nodes.idxOf b] = b := List.getElem_idxOf hlb
  rw [← e1, ← e2]; simp [h']

theorem takeWhile_replicate_append (p : Int → Bool) (n : Nat) (x : Int) (l : List Int)
    (hx : p x = true) :
    (List.replicate n x ++ l).takeWhile p = List.replicate n x ++ l.takeWhile p := by
  induction n with
  | zero => simp
  | succ n ih => simp [List.replicate_succ, hx, ih]

/-- a row that ends in `k+1` copies of `y`, the entry before them being different: exactly the
    last `k` copies are turned into `-1` -/
theorem scripPad_run (pre : List Int) (y : Int) (k : Nat)
    (hpre : ∀ b, pre.getLast? = some b → b ≠ y) :
    scripPad (pre ++ List.replicate (k + 1) y) = pre ++ [y] ++ List.replicate k (-1) := by
  have hlast : (pre ++ List.replicate (k + 1) y).getLastD 0 = y := by
    rw [List.replicate_succ', ← List.append_assoc]; simp
  have htw : pre.reverse.takeWhile (fun x => x == y) = [] := by
    cases hr : pre.reverse with
    | nil => rfl
    | cons b rest =>
      have hb : pre.getLast? = some b := by rw [← List.head?_reverse, hr]; rfl
      have hne := hpre b hb
      simp [hne]
  have hrun : lastRun (pre ++ List.replicate (k + 1) y) = k + 1 := by
    unfold lastRun
    rw [hlast, List.reverse_append, List.reverse_replicate,
      takeWhile_replicate_append _ _ _ _ (by simp), htw]
    simp
  unfold scripPad
  rw [hrun]
  simp only [Nat.add_sub_cancel, List.length_append, List.length_replicate]
  congr 1
  have : pre ++ List.replicate (k + 1) y = (pre ++ [y]) ++ List.replicate k y := by
    rw [List.replicate_succ]; simp
  rw [this]
  apply List.take_left'
  simp; omega

/-- one SCRIP row: the face's corners, then its last corner repeated up to width `w` -/
theorem scrip_row (nodes : List Key) (w : Nat) (f : List Key) (hne : f ≠ [])
    (hd : LastDistinct f = true) (hmem : ∀ k ∈ f, k ∈ nodes) :
    ((scripPad ((encScripRow w f).map (rank nodes))).map (fun x => if x = -1 then FILL else x)).map
        (getI? nodes)
      = f.map some ++ List.replicate (w - f.length) none := by
  obtain ⟨g, a, rfl⟩ : ∃ g a, f = g ++ [a] :=
    ⟨_, _, (List.dropLast_concat_getLast hne).symm⟩
  generalize hk : w - (g ++ [a]).length = k
  have henc : (encScripRow w (g ++ [a])).map (rank nodes)
      = g.map (rank nodes) ++ List.replicate (k + 1) (rank nodes a) := by
    unfold encScripRow
    rw [hk]
    simp [List.replicate_succ]
  have hpre : ∀ b, (g.map (rank nodes)).getLast? = some b → b ≠ rank nodes a := by
    intro b hb
    rw [List.getLast?_map] at hb
    cases hc : g.getLast? with
    | none => rw [hc] at hb; cases hb
    | some c =>
      rw [hc] at hb
      simp only [Option.map_some, Option.some.injEq] at hb
      subst hb
      have hcg : c ∈ g := List.mem_of_getLast? hc
      have hrev : g.reverse.head? = some c := by rw [List.head?_reverse]; exact hc
      have hca : a ≠ c := by
        unfold LastDistinct at hd
        rw [List.reverse_append] at hd
        cases hr : g.reverse with
        | nil => rw [hr] at hrev; cases hrev
        | cons c' rest =>
          rw [hr] at hrev hd
          simp only [List.head?_cons, Option.some.injEq] at hrev
          subst hrev
          simpa using hd
      intro heq
      exact hca (rank_inj nodes a c (hmem a (by simp)) (hmem c (by simp [hcg])) heq.symm)
  rw [henc, scripPad_run _ _ _ hpre]
  simp only [List.map_append, List.map_map, List.map_replicate, List.map_cons, List.map_nil]
  have hkey : ∀ kk ∈ g ++ [a],
      getI? nodes (if rank nodes kk = -1 then FILL else rank nodes kk) = some kk := by
    intro kk hkk
    obtain ⟨h1, h2, _, _⟩ := rank_spec nodes kk (hmem kk hkk)
    rw [if_neg h1]; exact h2
  congr 1
  · congr 1
    · apply List.map_congr_left
      intro kk hkk
      exact hkey kk (by simp [hkk])
    · rw [hkey a (by simp)]

/-- **SCRIP positions** (repaired reader), for the dialect SCRIP uses for mixed meshes: a face
    with fewer corners than `grid_corners` repeats its last corner.  Looking every decoded index
    up in the decoded node list gives back exactly the face's real corners in order, then only
    the standard fill — for EVERY face (short or of full width) whose last two corners are
    different positions.  Faces keep their number and order; node numbering is the reader's. -/
theorem scrip_positions (w : Nat) (faces : List (List Key))
    (h : ∀ f ∈ faces, f ≠ [] ∧ f.length ≤ w ∧ LastDistinct f = true) :
    (decodeScrip (faces.map (encScripRow w))).map
        (·.map (getI? (scripNodes (faces.map (encScripRow w)))))
      = faces.map (fun f => f.map some ++ List.replicate (w - f.length) none) := by
  unfold decodeScrip
  simp only []
  rw [List.map_map, List.map_map]
  apply List.map_congr_left
  intro f hf
  simp only [Function.comp]
  apply scrip_row _ w f (h f hf).1 (h f hf).2.2
  intro k hk
  unfold scripNodes
  rw [mem_uniqPair, List.mem_flatten]
  exact ⟨encScripRow w f, List.mem_map.mpr ⟨f, hf, rfl⟩, by
    unfold encScripRow; exact List.mem_append_left _ hk⟩

/-- the decoded node coordinates are pairwise distinct -/
theorem scrip_nodes_nodup (corners : List (List Key)) : (scripNodes corners).Nodup :=
  nodup_uniqPair _

/-- for ANY corner table: every decoded entry is the standard fill or an index in range -/
theorem scrip_in_range (corners : List (List Key)) :
    ∀ r ∈ decodeScrip corners, ∀ x ∈ r,
      x = FILL ∨ (0 ≤ x ∧ x < Int.ofNat (scripNodes corners).length) := by
  intro r hr x hx
  unfold decodeScrip at hr
  simp only [] at hr
  rcases List.mem_map.mp hr with ⟨row, hrow, rfl⟩
  rcases List.mem_map.mp hx with ⟨y, hy, rfl⟩
  unfold scripPad at hy
  rcases List.mem_append.mp hy with hy | hy
  · have hy' := List.mem_of_mem_take hy
    rcases List.mem_map.mp hy' with ⟨k, hk, rfl⟩
    have hmem : k ∈ scripNodes corners := by
      unfold scripNodes
      rw [mem_uniqPair, List.mem_flatten]
      exact ⟨row, hrow, hk⟩
    obtain ⟨h1, _, h3, h4⟩ := rank_spec _ k hmem
    rw [if_neg h1]; exact Or.inr ⟨h3, h4⟩
  · have := (List.mem_replicate.mp hy).2
    subst this
    left; simp

example : decodeScrip [[(0, 0), (10, 0), (10, 10)], [(10, 0), (20, 0), (10, 10)]]
    = [[0, 1, 2], [1, 3, 2]] := by decide

example : decodeScrip [[(0, 0), (10, 0), (10, 10), (0, 10)], encScripRow 4 [(10, 0), (20, 0), (10, 10)]]
    = [[0, 2, 3, 1], [2, 4, 3, FILL]] := by decide

/-- AS-IS (regression witness, repaired in /repo by 92c49616): the snapshot's reader kept the
    repeated last corner of a short face as a fourth corner instead of padding. -/
theorem asis_scrip_keeps_repeated_corner :
    (decodeScripAsIs [[(0, 0), (10, 0), (10, 10), (0, 10)], [(10, 0), (20, 0), (10, 10), (10, 10)]]).map
      (fun r => (faceOf r).length) = [4, 4] := by decide

/-! ### polygon rings (GeoJSON / shapefile) -/

theorem ringRow_positions {α : Type} (w : Nat) (pre r rest : List α) :
    (ringRow w pre.length r.length).map (getI? (pre ++ r ++ rest))
      = r.map some ++ List.replicate (w - r.length) none := by
  unfold ringRow
  rw [List.map_append, List.map_map, List.map_replicate, getI?_fill]
  congr 1
  apply List.ext_getElem
  · simp
  · intro j h1 h2
    simp at h1
    simp only [List.getElem_map, List.getElem_range, Function.comp, getI?_ofNat]
    rw [List.append_assoc, List.getElem?_append_right (by omega)]
    simp only [Nat.add_sub_cancel_left]
    rw [List.getElem?_append_left h1, List.getElem?_eq_getElem h1]

theorem ringsGo_positions {α : Type} (w : Nat) (pre : List α) (rings : List (List α)) :
    (ringsGo w pre.length (rings.map List.length)).map (·.map (getI? (pre ++ rings.flatten)))
      = rings.map (fun r => r.map some ++ List.replicate (w - r.length) none) := by
  induction rings generalizing pre with
  | nil => rfl
  | cons r rings ih =>
    simp only [List.map_cons, ringsGo, List.flatten_cons]
    congr 1
    · rw [← List.append_assoc]; exact ringRow_positions w pre r _
    · have := ih (pre ++ r)
      rw [List.length_append, List.append_assoc] at this
      exact this

/-- **ring positions**: one face per exterior ring in file order; looking a row's entries up
    in the concatenated node list gives that ring's vertices in order, then only padding. -/
theorem rings_positions {α : Type} (rings : List (List α)) :
    (decodeRings (rings.map List.length)).map (·.map (getI? rings.flatten))
      = rings.map (fun r => r.map some
          ++ List.replicate ((rings.map List.length).foldl max 0 - r.length) none) := by
  unfold decodeRings
  exact ringsGo_positions _ [] rings

example : decodeRings [3, 4] = [[0, 1, 2, FILL], [3, 4, 5, 6]] := by decide

/-! ### face-vertex arrays -/

theorem filter_range_nil (n : Nat) (P : Nat → Bool) (h : ∀ i, i < n → P i = false) :
    (List.range n).filter P = [] := by
  rw [List.filter_eq_nil_iff]
  intro i hi
  rw [h i (List.mem_range.mp hi)]; simp

theorem filter_range_single (n i0 : Nat) (P : Nat → Bool) (h0 : i0 < n) (hP : P i0 = true)
    (hu : ∀ i, i < n → P i = true → i = i0) : (List.range n).filter P = [i0] := by
  induction n with
  | zero => omega
  | succ n ih =>
    rw [List.range_succ, List.filter_append]
    by_cases hn : i0 = n
    · subst hn
      rw [filter_range_nil i0 P (fun i hi => by
        cases hpi : P i with
        | false => rfl
        | true => have := hu i (by omega) hpi; omega)]
      simp [hP]
    · have hPn : P n = false := by
        cases hpn : P n with
        | false => rfl
        | true => have := hu n (by omega) hpn; omega
      rw [ih (by omega) (fun i hi => hu i (by omega))]
      simp [hPn]

/-- deleting the only bad element: `np.delete(unique_verts, false_indices)` -/
theorem filter_good_eraseIdx {α : Type} (bad : α → Bool) (l : List α) (i0 : Nat) (h0 : i0 < l.length)
    (hb : bad l[i0] = true) (hu : ∀ i (hi : i < l.length), bad l[i] = true → i = i0) :
    l.filter (fun k => !bad k) = l.eraseIdx i0 := by
  induction l generalizing i0 with
  | nil => simp at h0
  | cons a l ih =>
    cases i0 with
    | zero =>
      have ha : bad a = true := by simpa using hb
      simp only [List.filter_cons, ha, Bool.not_true, Bool.false_eq_true, if_false, List.eraseIdx_cons_zero]
      rw [List.filter_eq_self]
      intro x hx
      obtain ⟨i, hi, rfl⟩ := List.getElem_of_mem hx
      cases hbx : bad l[i] with
      | false => rfl
      | true =>
        have := hu (i + 1) (by simp; omega) (by simpa using hbx)
        omega
    | succ k =>
      have ha : bad a = false := by
        cases hba : bad a with
        | false => rfl
        | true => have := hu 0 (by simp) (by simpa using hba); omega
      simp only [List.filter_cons, ha, Bool.not_false, if_true, List.eraseIdx_cons_succ]
      congr 1
      apply ih k (by simpa using h0) (by simpa using hb)
      intro i hi hbi
      have := hu (i + 1) (by simp; omega) (by simpa using hbi)
      omega


theorem dropIdx_eq (i0 : Nat) : dropIdx (Int.ofNat i0) (Int.ofNat i0) = FILL := by
  unfold dropIdx; simp

theorem dropIdx_gt (i0 j : Nat) (h : j > i0) :
    dropIdx (Int.ofNat i0) (Int.ofNat j) = Int.ofNat (j - 1) := by
  unfold dropIdx
  have hF := FILL_neg
  have h1 : ¬ (Int.ofNat j = Int.ofNat i0) := by simp only [Int.ofNat_eq_natCast]; omega
  have h2 : Int.ofNat j > Int.ofNat i0 ∧ Int.ofNat j ≠ FILL := by
    simp only [Int.ofNat_eq_natCast]; omega
  rw [if_neg h1, if_pos h2]; simp only [Int.ofNat_eq_natCast]; omega

theorem dropIdx_lt (i0 j : Nat) (h : j < i0) :
    dropIdx (Int.ofNat i0) (Int.ofNat j) = Int.ofNat j := by
  unfold dropIdx
  have h1 : ¬ (Int.ofNat j = Int.ofNat i0) := by simp only [Int.ofNat_eq_natCast]; omega
  have h2 : ¬ (Int.ofNat j > Int.ofNat i0 ∧ Int.ofNat j ≠ FILL) := by
    simp only [Int.ofNat_eq_natCast]; omega
  rw [if_neg h1, if_neg h2]

/-- the padding vertex of a face-vertex array -/
def K0 : Key := (FILL, FILL)

theorem mem_encVertsRow (w : Nat) (f : List Key) (k : Key) (hk : k ∈ encVertsRow w f) :
    k ∈ f ∨ (k = K0 ∧ f.length < w) := by
  unfold encVertsRow at hk
  rcases List.mem_append.mp hk with h | h
  · exact Or.inl h
  · have := List.mem_replicate.mp h
    exact Or.inr ⟨this.2, by omega⟩

/-- **face-vertex arrays**: with rows padded by the fill vertex, every decoded index looked up
    in the decoded node list is the source vertex at that position, padding comes only at the
    end and is the standard fill, the decoded nodes are distinct and none is the fill vertex. -/
theorem vertices_positions (w : Nat) (faces : List (List Key))
    (h : ∀ f ∈ faces, f.length ≤ w ∧ ∀ k ∈ f, isFillKey k = false) :
    (vertsDecode (faces.map (encVertsRow w))).2.map
        (·.map (getI? (vertsDecode (faces.map (encVertsRow w))).1))
      = faces.map (fun f => f.map some ++ List.replicate (w - f.length) none)
    ∧ (vertsDecode (faces.map (encVertsRow w))).1.Nodup
    ∧ ∀ k ∈ (vertsDecode (faces.map (encVertsRow w))).1, isFillKey k = false := by
  have hK0 : isFillKey K0 = true := by decide
  -- notation
  generalize hn0 : uniqPair (faces.map (encVertsRow w)).flatten = nodes0
  have hN : nodes0.Nodup := by rw [← hn0]; exact nodup_uniqPair _
  have hmem : ∀ k, k ∈ nodes0 ↔ ∃ f ∈ faces, k ∈ encVertsRow w f := by
    intro k
    rw [← hn0, mem_uniqPair, List.mem_flatten]
    constructor
    · rintro ⟨r, hr, hk⟩
      rcases List.mem_map.mp hr with ⟨f, hf, rfl⟩
      exact ⟨f, hf, hk⟩
    · rintro ⟨f, hf, hk⟩
      exact ⟨_, List.mem_map.mpr ⟨f, hf, rfl⟩, hk⟩
  have hM : ∀ k ∈ nodes0, isFillKey k = false ∨ k = K0 := by
    intro k hk
    obtain ⟨f, hf, hkf⟩ := (hmem k).mp hk
    rcases mem_encVertsRow w f k hkf with h1 | h1
    · exact Or.inl ((h f hf).2 k h1)
    · exact Or.inr h1.1
  have hreal : ∀ f ∈ faces, ∀ k ∈ f, k ∈ nodes0 := by
    intro f hf k hk
    exact (hmem k).mpr ⟨f, hf, by unfold encVertsRow; exact List.mem_append_left _ hk⟩
  have hdec : vertsDecode (faces.map (encVertsRow w))
      = (nodes0.filter (fun k => !isFillKey k),
         ((List.range nodes0.length).filter (fun i => isFillKey (nodes0.getD i (0, 0)))).foldl
            (fun t idx => t.map (·.map (dropIdx (Int.ofNat idx))))
            ((faces.map (encVertsRow w)).map (·.map (rank nodes0)))) := by
    unfold vertsDecode; simp only [hn0]
  rw [hdec]
  simp only []
  have hgetD : ∀ i (hi : i < nodes0.length), nodes0.getD i (0, 0) = nodes0[i] := by
    intro i hi; simp [hi]
  by_cases hK : K0 ∈ nodes0
  · -- exactly one fill vertex, at index i0
    have hi0 : nodes0.idxOf K0 < nodes0.length := List.idxOf_lt_length_iff.mpr hK
    generalize hi0def : nodes0.idxOf K0 = i0 at hi0
    have hat : nodes0[i0] = K0 := by subst hi0def; exact List.getElem_idxOf _
    have huniq : ∀ i (hi : i < nodes0.length), isFillKey nodes0[i] = true → i = i0 := by
      intro i hi hb
      have : nodes0[i] = K0 := by
        rcases hM _ (List.getElem_mem hi) with h1 | h1
        · rw [h1] at hb; cases hb
        · exact h1
      rw [← hN.idxOf_getElem i hi, this, hi0def]
    have hfalse : (List.range nodes0.length).filter (fun i => isFillKey (nodes0.getD i (0, 0))) = [i0] := by
      apply filter_range_single _ _ _ hi0
      · simp only [hgetD i0 hi0, hat, hK0]
      · intro i hi hb
        rw [hgetD i hi] at hb
        exact huniq i hi hb
    have hnodes : nodes0.filter (fun k => !isFillKey k) = nodes0.eraseIdx i0 :=
      filter_good_eraseIdx isFillKey nodes0 i0 hi0 (by rw [hat]; exact hK0) huniq
    rw [hfalse, hnodes]
    simp only [List.foldl_cons, List.foldl_nil]
    refine ⟨?_, ?_, ?_⟩
    · rw [List.map_map, List.map_map, List.map_map]
      apply List.map_congr_left
      intro f hf
      simp only [Function.comp, List.map_map]
      unfold encVertsRow
      rw [List.map_append, List.map_replicate]
      congr 1
      · apply List.map_congr_left
        intro k hk
        have hkn := hreal f hf k hk
        have hj : nodes0.idxOf k < nodes0.length := List.idxOf_lt_length_iff.mpr hkn
        have hjk : nodes0[nodes0.idxOf k] = k := List.getElem_idxOf _
        have hne : nodes0.idxOf k ≠ i0 := by
          intro he
          have : k = K0 := by rw [← hjk, ← hat]; simp [he]
          have hg := (h f hf).2 k hk
          rw [this, hK0] at hg; cases hg
        have hr : rank nodes0 k = Int.ofNat (nodes0.idxOf k) := rfl
        simp only [Function.comp, hr]
        by_cases hgt : nodes0.idxOf k > i0
        · rw [dropIdx_gt _ _ hgt, getI?_ofNat, List.getElem?_eraseIdx, if_neg (by omega)]
          have : nodes0.idxOf k - 1 + 1 = nodes0.idxOf k := by omega
          rw [this, List.getElem?_eq_getElem hj, hjk]
        · rw [dropIdx_lt _ _ (by omega), getI?_ofNat, List.getElem?_eraseIdx, if_pos (by omega),
            List.getElem?_eq_getElem hj, hjk]
      · congr 1
        have : rank nodes0 (FILL, FILL) = Int.ofNat i0 := by
          unfold rank; rw [← hi0def]; rfl
        simp only [Function.comp, this, dropIdx_eq, getI?_fill]
    · rw [← hnodes]; exact List.Pairwise.filter _ hN
    · intro k hk
      rw [← hnodes] at hk
      have := (List.mem_filter.mp hk).2
      simpa using this
  · -- no padding anywhere
    have hgood : ∀ k ∈ nodes0, isFillKey k = false := by
      intro k hk
      rcases hM k hk with h1 | h1
      · exact h1
      · rw [h1] at hk; exact absurd hk hK
    have hfalse : (List.range nodes0.length).filter (fun i => isFillKey (nodes0.getD i (0, 0))) = [] := by
      apply filter_range_nil
      intro i hi
      rw [hgetD i hi]; exact hgood _ (List.getElem_mem hi)
    have hnodes : nodes0.filter (fun k => !isFillKey k) = nodes0 := by
      rw [List.filter_eq_self]
      intro k hk; simp [hgood k hk]
    rw [hfalse, hnodes]
    simp only [List.foldl_nil]
    refine ⟨?_, hN, hgood⟩
    rw [List.map_map, List.map_map]
    apply List.map_congr_left
    intro f hf
    have hfull : w - f.length = 0 := by
      by_cases hlt : f.length < w
      · exfalso; apply hK
        refine (hmem K0).mpr ⟨f, hf, ?_⟩
        unfold encVertsRow
        apply List.mem_append_right
        simp only [List.mem_replicate]; exact ⟨by omega, rfl⟩
      · omega
    simp only [Function.comp, List.map_map]
    unfold encVertsRow
    rw [hfull, List.replicate_zero, List.append_nil, List.replicate_zero, List.append_nil]
    apply List.map_congr_left
    intro k hk
    exact (rank_spec nodes0 k (hreal f hf k hk)).2.1

example : vertsDecode [encVertsRow 4 [(0, 0), (10, 0), (10, 10)], [(10, 0), (20, 0), (20, 10), (10, 10)]]
    = ([(0, 0), (10, 0), (10, 10), (20, 0), (20, 10)], [[0, 1, 2, FILL], [1, 3, 4, 2]]) := by decide


/-! ### format sniffing: what is rejected, and which reader an accepted dataset reaches -/

/-- **rejects iff**: a dataset is rejected as "unknown format" exactly when it carries none of
    the format markers (malformed-input stream of the harness). -/
theorem sniff_rejects_iff (k : Markers) :
    sniff k = none ↔
      k.coord = false ∧ k.coordx = false ∧ k.gridCenterLon = false ∧ k.isUgrid = false ∧
      k.verticesOnCell = false ∧ k.dimMaxNodePElement = false ∧
      (k.dimNf && k.dimYC && k.dimXC) = false ∧ k.vertexOfCell = false := by
  unfold sniff
  constructor
  · intro h
    repeat' (split at h <;> try cases h)
    simp_all
  · rintro ⟨h1, h2, h3, h4, h5, h6, h7, h8⟩
    simp [h1, h2, h3, h4, h5, h6, h7, h8]

/-- **priority**: a dataset reaches the MPAS reader exactly when it has `verticesOnCell` and
    none of the markers tested before it (Exodus, SCRIP, UGRID); likewise for the others. -/
theorem sniff_mpas_iff (k : Markers) :
    sniff k = some .mpas ↔
      k.coord = false ∧ k.coordx = false ∧ k.gridCenterLon = false ∧ k.isUgrid = false ∧
      k.verticesOnCell = true := by
  unfold sniff
  constructor
  · intro h
    repeat' (split at h <;> try cases h)
    simp_all
  · rintro ⟨h1, h2, h3, h4, h5⟩
    simp [h1, h2, h3, h4, h5]

theorem sniff_ugrid_iff (k : Markers) :
    sniff k = some .ugrid ↔
      k.coord = false ∧ k.coordx = false ∧ k.gridCenterLon = false ∧ k.isUgrid = true := by
  unfold sniff
  constructor
  · intro h
    repeat' (split at h <;> try cases h)
    simp_all
  · rintro ⟨h1, h2, h3, h4⟩
    simp [h1, h2, h3, h4]

example : sniff ⟨false, false, false, true, true, true, true, true, false, false, false, false, false⟩ = some .ugrid := by decide
example : sniff ⟨false, false, false, false, true, true, true, false, false, true, true, false, false⟩ = none := by decide

/-! ### longitude convention -/

section Lon
variable {K : Type} [Field K] [LinearOrder K] [IsStrictOrderedRing K] [FloorRing K]

/-- the floor function as an endomorphism of the field (what `np.floor` is on floats) -/
def fl (x : K) : K := ((⌊x⌋ : ℤ) : K)

omit [IsStrictOrderedRing K] in
theorem normLon_eq (x : K) : normLon fl x = x - 360 * fl ((x + 180) / 360) := by
  unfold normLon; ring

/-- **range**: the normalised longitude lies in `[-180, 180)` -/
theorem normLon_range (x : K) : -180 ≤ normLon fl x ∧ normLon fl x < 180 := by
  rw [normLon_eq]
  unfold fl
  have h1 := Int.floor_le ((x + 180) / 360)
  have h2 := Int.lt_floor_add_one ((x + 180) / 360)
  have h360 : (0 : K) < 360 := by norm_num
  rw [le_div_iff₀ h360] at h1
  rw [div_lt_iff₀ h360] at h2
  constructor <;> linarith

omit [IsStrictOrderedRing K] in
/-- **congruence**: it differs from the input by a whole number of turns -/
theorem normLon_congr (x : K) : ∃ k : ℤ, normLon fl x = x + 360 * (k : K) := by
  refine ⟨-⌊(x + 180) / 360⌋, ?_⟩
  rw [normLon_eq]; unfold fl; push_cast; ring

/-- a longitude already in `[-180, 180)` is left alone -/
theorem normLon_fix (x : K) (h1 : -180 ≤ x) (h2 : x < 180) : normLon fl x = x := by
  rw [normLon_eq]
  have h360 : (0 : K) < 360 := by norm_num
  have : ⌊(x + 180) / 360⌋ = 0 := by
    rw [Int.floor_eq_iff]
    constructor
    · rw [Int.cast_zero, le_div_iff₀ h360]; linarith
    · rw [Int.cast_zero, div_lt_iff₀ h360]; linarith
  unfold fl; rw [this]; simp

/-- **idempotence** -/
theorem normLon_idem (x : K) : normLon fl (normLon fl x) = normLon fl x :=
  normLon_fix _ (normLon_range x).1 (normLon_range x).2

/-- **`_set_desired_longitude_range`**: sources in either convention (`0..360` or `-180..180`)
    end in the closed interval `[-180, 180]` … -/
theorem setRange_ok (l : List K)
    (h : (∀ x ∈ l, 0 ≤ x ∧ x ≤ 360) ∨ (∀ x ∈ l, -180 ≤ x ∧ x ≤ 180)) :
    ∀ y ∈ setRange fl (fun x => decide (180 < x)) l, -180 ≤ y ∧ y ≤ 180 := by
  intro y hy
  unfold setRange at hy
  split at hy
  · rcases List.mem_map.mp hy with ⟨x, _, rfl⟩
    exact ⟨(normLon_range x).1, le_of_lt (normLon_range x).2⟩
  · rename_i hany
    have hle : y ≤ 180 := by
      by_contra hc
      apply hany
      rw [List.any_eq_true]
      exact ⟨y, hy, by simpa using hc⟩
    rcases h with h | h
    · have := (h y hy).1
      exact ⟨by linarith, hle⟩
    · exact ⟨(h y hy).1, hle⟩

omit [IsStrictOrderedRing K] in
/-- … and every longitude keeps its position on the circle -/
theorem setRange_congr (l : List K) :
    List.Forall₂ (fun x y => ∃ k : ℤ, y = x + 360 * (k : K)) l
      (setRange fl (fun x => decide (180 < x)) l) := by
  unfold setRange
  split
  · rw [List.forall₂_map_right_iff]
    exact List.forall₂_same.mpr (fun x _ => normLon_congr x)
  · exact List.forall₂_same.mpr (fun x _ => ⟨0, by simp⟩)

/-- one variable whose entries use either convention, or both mixed in one array
    (`−180 ≤ x ≤ 360`): the result lies in `[−180, 180]` -/
theorem setRange_ok_mixed (l : List K) (h : ∀ x ∈ l, -180 ≤ x ∧ x ≤ 360) :
    ∀ y ∈ setRange fl (fun x => decide (180 < x)) l, -180 ≤ y ∧ y ≤ 180 := by
  intro y hy
  unfold setRange at hy
  split at hy
  · rcases List.mem_map.mp hy with ⟨x, _, rfl⟩
    exact ⟨(normLon_range x).1, le_of_lt (normLon_range x).2⟩
  · rename_i hany
    refine ⟨(h y hy).1, ?_⟩
    by_contra hc
    apply hany
    rw [List.any_eq_true]
    exact ⟨y, hy, by simpa using hc⟩

omit [IsStrictOrderedRing K] in
/-- **per variable**: what a longitude variable becomes depends only on that variable, whatever
    the other longitude variables of the dataset hold -/
theorem setRangeAll_local (pre post : List (List K)) (l : List K) :
    (setRangeAll fl (fun x => decide (180 < x)) (pre ++ l :: post))[pre.length]?
      = some (setRange fl (fun x => decide (180 < x)) l) := by
  unfold setRangeAll
  rw [List.map_append, List.map_cons, List.getElem?_append_right (by simp)]
  simp

/-- **carried longitudes are normalised, variable by variable**: whatever convention each of
    `node_lon`, `edge_lon`, `face_lon` uses (−180..180, 0..360, or both mixed — drawn independently
    per variable), every carried longitude ends in `[−180, 180]` and is the source's longitude
    modulo 360. -/
theorem carried_lon_normalised (vars : List (List K))
    (h : ∀ l ∈ vars, ∀ x ∈ l, -180 ≤ x ∧ x ≤ 360) :
    List.Forall₂ (fun src out =>
        (∀ y ∈ out, -180 ≤ y ∧ y ≤ 180) ∧
        List.Forall₂ (fun x y => ∃ k : ℤ, y = x + 360 * (k : K)) src out)
      vars (setRangeAll fl (fun x => decide (180 < x)) vars) := by
  unfold setRangeAll
  rw [List.forall₂_map_right_iff]
  apply List.forall₂_same.mpr
  intro l hl
  exact ⟨setRange_ok_mixed l (h l hl), setRange_congr l⟩

end Lon

example : normLon (fl (K := ℚ)) 270 = -90 := by
  rw [normLon_eq]; unfold fl
  have : ⌊((270 : ℚ) + 180) / 360⌋ = 1 := by rw [Int.floor_eq_iff]; norm_num
  rw [this]; norm_num
example : setRange (fl (K := ℚ)) (fun x => decide (180 < x)) [-170, 10, 180] = [-170, 10, 180] := by
  unfold setRange; norm_num
/-- corners −120..−80 (left alone), centres 240..280 (wrapped): each variable on its own -/
example : (setRangeAll (fl (K := ℚ)) (fun x => decide (180 < x)) ([] ++ ([-120, -80] : List ℚ) :: [[240]]))[([] : List (List ℚ)).length]?
    = some ([-120, -80] : List ℚ) := by
  rw [setRangeAll_local]; unfold setRange; norm_num


end UxVerif.C01
